/- Line-protocol driver: one op per line in (TAB-separated fields), one
   canonical line out.  Imports Model/ and Gen/ only (core Lean). -/
import LedgerModel.Registry

open Ledger

def dispatch (line : String) : String :=
  match line.splitOn "\t" with
  | op :: args =>
    match allOps.find? (fun kv => kv.1 = op) with
    | some kv => kv.2 args
    | none => "err\tbad-op"
  | [] => "err\tbad-op"

partial def loop (h : IO.FS.Stream) (out : IO.FS.Stream) : IO Unit := do
  let line ← h.getLine
  if line.isEmpty then return ()
  let l := if line.endsWith "\n" then (line.dropEnd 1).toString else line
  out.putStrLn (dispatch l)
  loop h out

def main : IO Unit := do
  let out ← IO.getStdout
  loop (← IO.getStdin) out
  out.flush
