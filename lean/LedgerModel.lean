import LedgerModel.Model.Proto
import LedgerModel.Model.Value
import LedgerModel.Model.ValueProto
