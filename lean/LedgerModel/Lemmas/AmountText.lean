/-
Helper lemmas behind Props/C04: arithmetic of the half-even rounding, digit
strings and their positional value, grouping, the reader's scan.
-/
import LedgerModel.Model.AmountText

namespace Ledger.AmountText

/-! ## half-even rounding on integers -/

/-- the integer core of `Amount.roundUnits`. -/
def roundDiv (n d : Int) : Int :=
  let w := Int.fdiv n d
  let r := Int.fmod n d
  if 2 * r > d ∨ (2 * r = d ∧ w % 2 ≠ 0) then w + 1 else w

theorem Amount.roundUnits_eq (q : Rat) (p : Nat) :
    Amount.roundUnits q p = roundDiv (q.num * (10 : Int) ^ p) q.den := rfl

theorem roundDiv_bounds (n d : Int) (hd : 0 < d) :
    2 * (roundDiv n d * d - n) ≤ d ∧ -d ≤ 2 * (roundDiv n d * d - n) := by
  have h1 := Int.fdiv_mul_add_fmod n d
  have h2 := Int.fmod_nonneg_of_pos n hd
  have h3 := Int.fmod_lt_of_pos n hd
  unfold roundDiv
  simp only
  generalize Int.fdiv n d = w at *
  generalize Int.fmod n d = r at *
  have hn : n = w * d + r := by omega
  subst hn
  split
  · rename_i h
    have : (w + 1) * d = w * d + d := by rw [Int.add_mul, Int.one_mul]
    rw [this]
    omega
  · rename_i h
    omega

theorem roundDiv_tie_even (n d : Int) (_hd : 0 < d) (htie : 2 * Int.fmod n d = d) :
    roundDiv n d % 2 = 0 := by
  unfold roundDiv
  simp only
  split
  · rename_i h
    omega
  · rename_i h
    omega

theorem roundDiv_exact (m d : Int) (hd : 0 < d) : roundDiv (m * d) d = m := by
  have h1 := Int.fdiv_mul_add_fmod (m * d) d
  have h2 := Int.fmod_nonneg_of_pos (m * d) hd
  have h3 := Int.fmod_lt_of_pos (m * d) hd
  unfold roundDiv
  simp only
  generalize Int.fdiv (m * d) d = w at *
  generalize Int.fmod (m * d) d = r at *
  -- (w - m) * d + r = 0 with 0 ≤ r < d forces w = m, r = 0
  have hw : w = m := by
    have h4 : (w - m) * d + r = 0 := by rw [Int.sub_mul]; omega
    rcases Int.lt_trichotomy w m with h | h | h
    · have : (w - m) * d ≤ -1 * d := Int.mul_le_mul_of_nonneg_right (by omega) (by omega)
      omega
    · exact h
    · have : 1 * d ≤ (w - m) * d := Int.mul_le_mul_of_nonneg_right (by omega) (by omega)
      omega
  subst hw
  have hr : r = 0 := by omega
  subst hr
  split
  · rename_i h; omega
  · rfl

theorem roundDiv_sign_nonneg (n d : Int) (hd : 0 < d) (hn : 0 ≤ n) : 0 ≤ roundDiv n d := by
  have h1 := Int.fdiv_mul_add_fmod n d
  have h2 := Int.fmod_nonneg_of_pos n hd
  have h3 := Int.fmod_lt_of_pos n hd
  unfold roundDiv
  simp only
  generalize Int.fdiv n d = w at *
  generalize Int.fmod n d = r at *
  have hw : 0 ≤ w := by
    rcases Int.lt_or_le w 0 with h | h
    · have : w * d ≤ -1 * d := Int.mul_le_mul_of_nonneg_right (by omega) (by omega)
      omega
    · exact h
  split <;> omega

theorem roundDiv_sign_nonpos (n d : Int) (hd : 0 < d) (hn : n < 0) : roundDiv n d ≤ 0 := by
  have h1 := Int.fdiv_mul_add_fmod n d
  have h2 := Int.fmod_nonneg_of_pos n hd
  have h3 := Int.fmod_lt_of_pos n hd
  unfold roundDiv
  simp only
  generalize Int.fdiv n d = w at *
  generalize Int.fmod n d = r at *
  have hw : w ≤ -1 := by
    rcases Int.lt_or_le w 0 with h | h
    · omega
    · have : 0 * d ≤ w * d := Int.mul_le_mul_of_nonneg_right h (by omega)
      omega
  split <;> omega

/-! ## the rounding on rationals -/

theorem Rat.mul_den' (q : Rat) : q * (q.den : Rat) = (q.num : Rat) := by
  have h := Rat.num_divInt_den q
  rw [Rat.divInt_eq_div] at h
  have hd : ((q.den : Int) : Rat) ≠ 0 := by
    simp [Rat.intCast_eq_zero_iff, q.den_nz]
  have := Rat.div_mul_cancel (a := (q.num : Rat)) hd
  rw [h] at this
  exact this

theorem roundTo_eq (q : Rat) (p : Nat) :
    Amount.roundTo q p = (Amount.roundUnits q p : Rat) / (10 : Rat) ^ p := by
  unfold Amount.roundTo
  rw [Rat.mkRat_eq_div]
  simp [Rat.natCast_pow]

theorem ten_pow_pos (p : Nat) : (0 : Rat) < (10 : Rat) ^ p := Rat.pow_pos (by decide)

theorem roundUnits_cast_bounds (q : Rat) (p : Nat) :
    2 * ((Amount.roundUnits q p : Rat) * (q.den : Rat) - (q.num : Rat) * (10 : Rat) ^ p) ≤ (q.den : Rat) ∧
    -(q.den : Rat) ≤ 2 * ((Amount.roundUnits q p : Rat) * (q.den : Rat) - (q.num : Rat) * (10 : Rat) ^ p) := by
  have hd : (0 : Int) < (q.den : Int) := by have := q.den_pos; omega
  have h := roundDiv_bounds (q.num * (10 : Int) ^ p) q.den hd
  rw [← Amount.roundUnits_eq] at h
  have c1 := Rat.intCast_le_intCast.mpr h.1
  have c2 := Rat.intCast_le_intCast.mpr h.2
  simp only [Rat.intCast_mul, Rat.intCast_sub, Rat.intCast_pow, Rat.intCast_neg, Rat.intCast_natCast, Rat.intCast_ofNat] at c1 c2
  exact ⟨c1, c2⟩
theorem roundTo_nearest_aux (q : Rat) (p : Nat) :
    2 * (Amount.roundTo q p - q) ≤ 1 / (10 : Rat) ^ p ∧ -(1 / (10 : Rat) ^ p) ≤ 2 * (Amount.roundTo q p - q) := by
  obtain ⟨b1, b2⟩ := roundUnits_cast_bounds q p
  rw [roundTo_eq]
  have hT := ten_pow_pos p
  have hD : (0 : Rat) < (q.den : Rat) := Rat.natCast_pos.mpr q.den_pos
  have hN := Rat.mul_den' q
  generalize (Amount.roundUnits q p : Rat) = u at *
  generalize ((10 : Rat) ^ p) = T at *
  generalize (q.den : Rat) = D at *
  generalize (q.num : Rat) = N at *
  have hTD : 0 < T * D := Rat.mul_pos hT hD
  have hT0 : T ≠ 0 := Rat.ne_of_gt hT
  have e1 : (2 * (u / T - q)) * (T * D) = 2 * (u * D - N * T) := by
    rw [← hN]; grind
  have e2 : (1 / T) * (T * D) = D := by grind
  constructor
  · apply Rat.le_of_mul_le_mul_right _ hTD
    rw [e1, e2]; exact b1
  · apply Rat.le_of_mul_le_mul_right _ hTD
    have e3 : -(1 / T) * (T * D) = -D := by grind
    rw [e1, e3]; exact b2

theorem roundTo_mul_pow (q : Rat) (p : Nat) :
    Amount.roundTo q p * (10 : Rat) ^ p = (Amount.roundUnits q p : Rat) := by
  rw [roundTo_eq]
  exact Rat.div_mul_cancel (Rat.ne_of_gt (ten_pow_pos p))

/-- `q·10^p = m` as an identity of integers. -/
theorem scaled_int_eq (q : Rat) (p : Nat) (m : Int) (c : Int) (h : (c : Rat) * (q * (10 : Rat) ^ p) = (m : Rat)) :
    c * (q.num * (10 : Int) ^ p) = m * q.den := by
  have hN := Rat.mul_den' q
  apply Rat.intCast_inj.mp
  simp only [Rat.intCast_mul, Rat.intCast_pow, Rat.intCast_natCast, Rat.intCast_ofNat]
  rw [← hN, ← h]
  grind

theorem roundTo_id_aux (q : Rat) (p : Nat) (m : Int) (h : q * (10 : Rat) ^ p = (m : Rat)) :
    Amount.roundTo q p = q := by
  have hi := scaled_int_eq q p m 1 (by rw [Rat.intCast_one]; grind)
  have hd : (0 : Int) < (q.den : Int) := by have := q.den_pos; omega
  have hu : Amount.roundUnits q p = m := by
    rw [Amount.roundUnits_eq]
    have : q.num * (10 : Int) ^ p = m * q.den := by omega
    rw [this]
    exact roundDiv_exact m q.den hd
  rw [roundTo_eq, hu, ← h]
  exact Rat.mul_div_cancel (Rat.ne_of_gt (ten_pow_pos p))

theorem roundUnits_tie (q : Rat) (p : Nat) (k : Int) (h : q * (10 : Rat) ^ p = (k : Rat) + 1 / 2) :
    Amount.roundUnits q p = if k % 2 = 0 then k else k + 1 := by
  have hi := scaled_int_eq q p (2 * k + 1) 2 (by
    rw [h]; simp only [Rat.intCast_add, Rat.intCast_mul, Rat.intCast_ofNat]; grind)
  have hd : (0 : Int) < (q.den : Int) := by have := q.den_pos; omega
  rw [Amount.roundUnits_eq]
  generalize q.num * (10 : Int) ^ p = n at *
  generalize (q.den : Int) = d at *
  have h1 := Int.fdiv_mul_add_fmod n d
  have h2 := Int.fmod_nonneg_of_pos n hd
  have h3 := Int.fmod_lt_of_pos n hd
  unfold roundDiv
  simp only
  generalize Int.fdiv n d = w at *
  generalize Int.fmod n d = r at *
  -- 2r = (2k+1-2w)·d
  have hz : (2 * k + 1 - 2 * w) * d = 2 * r := by
    have e : (2 * k + 1 - 2 * w) * d = (2 * k + 1) * d - 2 * (w * d) := by
      rw [Int.sub_mul, Int.mul_assoc]
    omega
  have hz1 : 2 * k + 1 - 2 * w = 1 := by
    rcases Int.lt_trichotomy (2 * k + 1 - 2 * w) 1 with hlt | heq | hgt
    · have : (2 * k + 1 - 2 * w) * d ≤ -1 * d := Int.mul_le_mul_of_nonneg_right (by omega) (by omega)
      omega
    · exact heq
    · have : 2 * d ≤ (2 * k + 1 - 2 * w) * d := Int.mul_le_mul_of_nonneg_right (by omega) (by omega)
      omega
  have hw : w = k := by omega
  rw [hz1] at hz
  subst hw
  split <;> split <;> omega

/-! ## digit strings -/

theorem digitChar_cases (d : Nat) :
    digitChar d = '0' ∨ digitChar d = '1' ∨ digitChar d = '2' ∨ digitChar d = '3' ∨ digitChar d = '4' ∨
    digitChar d = '5' ∨ digitChar d = '6' ∨ digitChar d = '7' ∨ digitChar d = '8' ∨ digitChar d = '9' := by
  unfold digitChar
  split <;> simp

theorem digitVal_digitChar (d : Nat) : digitVal (digitChar d) = d % 10 := by
  have h : d % 10 < 10 := Nat.mod_lt _ (by decide)
  unfold digitChar
  generalize d % 10 = r at h ⊢
  match r, h with
  | 0, _ => rfl | 1, _ => rfl | 2, _ => rfl | 3, _ => rfl | 4, _ => rfl
  | 5, _ => rfl | 6, _ => rfl | 7, _ => rfl | 8, _ => rfl | 9, _ => rfl
  | n + 10, h => omega

theorem isDigit_digitChar (d : Nat) : isDigit (digitChar d) = true := by
  rcases digitChar_cases d with h | h | h | h | h | h | h | h | h | h <;> rw [h] <;> decide

theorem isDigit_not_sep {c : Char} (h : isDigit c = true) : isSep c = false := by
  unfold isDigit at h
  unfold isSep
  have h1 : c ≠ ',' := by intro e; subst e; revert h; decide
  have h2 : c ≠ '.' := by intro e; subst e; revert h; decide
  simp [h1, h2]

theorem decVal_foldl (acc : Nat) (s : Text) :
    s.foldl (fun a c => 10 * a + digitVal c) acc = acc * 10 ^ s.length + decVal s := by
  induction s generalizing acc with
  | nil => simp [decVal]
  | cons c s ih =>
    simp only [List.foldl_cons, decVal, List.length_cons]
    rw [ih, ih (10 * 0 + digitVal c)]
    rw [Nat.pow_succ]
    simp only [decVal]
    grind

theorem decVal_append (a b : Text) : decVal (a ++ b) = decVal a * 10 ^ b.length + decVal b := by
  unfold decVal
  rw [List.foldl_append, decVal_foldl]
  rfl

theorem decVal_nil : decVal [] = 0 := rfl

theorem decVal_singleton (c : Char) : decVal [c] = digitVal c := by
  simp [decVal]

theorem fracDigits_length (n p : Nat) : (fracDigits n p).length = p := by
  induction p generalizing n with
  | zero => simp [fracDigits]
  | succ p ih => simp [fracDigits, ih]

theorem decVal_fracDigits (n p : Nat) : decVal (fracDigits n p) = n % 10 ^ p := by
  induction p generalizing n with
  | zero => simp [fracDigits, decVal, Nat.mod_one]
  | succ p ih =>
    simp only [fracDigits]
    rw [decVal_append, ih, decVal_singleton, digitVal_digitChar]
    simp only [List.length_singleton, Nat.pow_one]
    rw [Nat.pow_succ, Nat.mul_comm (10 ^ p) 10, Nat.mod_mul]
    omega

theorem fracDigits_isDigit (n p : Nat) : ∀ c ∈ fracDigits n p, isDigit c = true := by
  induction p generalizing n with
  | zero => simp [fracDigits]
  | succ p ih =>
    intro c hc
    simp only [fracDigits, List.mem_append, List.mem_singleton] at hc
    rcases hc with hc | hc
    · exact ih _ c hc
    · rw [hc]; exact isDigit_digitChar n

theorem decVal_intDigits (n : Nat) : decVal (intDigits n) = n := by
  induction n using Nat.strongRecOn with
  | _ n ih =>
    rw [intDigits]
    split
    · rw [decVal_singleton, digitVal_digitChar]; omega
    · rename_i h
      rw [decVal_append, ih (n / 10) (by omega), decVal_singleton, digitVal_digitChar]
      simp only [List.length_singleton, Nat.pow_one]
      omega

theorem intDigits_isDigit (n : Nat) : ∀ c ∈ intDigits n, isDigit c = true := by
  induction n using Nat.strongRecOn with
  | _ n ih =>
    rw [intDigits]
    split
    · intro c hc; simp only [List.mem_singleton] at hc; rw [hc]; exact isDigit_digitChar n
    · rename_i h
      intro c hc
      simp only [List.mem_append, List.mem_singleton] at hc
      rcases hc with hc | hc
      · exact ih (n / 10) (by omega) c hc
      · rw [hc]; exact isDigit_digitChar n

theorem intDigits_ne_nil (n : Nat) : intDigits n ≠ [] := by
  rw [intDigits]
  split <;> simp

/-! ## zero trimming keeps the value -/

theorem dropWhile_zero_split (r : Text) :
    ∃ k, r = List.replicate k '0' ++ r.dropWhile (· = '0') := by
  induction r with
  | nil => exact ⟨0, rfl⟩
  | cons c r ih =>
    by_cases hc : c = '0'
    · obtain ⟨k, hk⟩ := ih
      refine ⟨k + 1, ?_⟩
      subst hc
      simp only [List.dropWhile_cons, decide_true, if_true, List.replicate_succ, List.cons_append]
      rw [← hk]
    · refine ⟨0, ?_⟩
      simp [hc]

theorem dropTrailingZeros_split (s : Text) :
    ∃ k, s = dropTrailingZeros s ++ List.replicate k '0' := by
  obtain ⟨k, hk⟩ := dropWhile_zero_split s.reverse
  refine ⟨k, ?_⟩
  unfold dropTrailingZeros
  have := congrArg List.reverse hk
  simpa using this

theorem trimFrac_split (f : Text) (z : Nat) : ∃ k, f = trimFrac f z ++ List.replicate k '0' := by
  obtain ⟨k, hk⟩ := dropTrailingZeros_split (f.drop z)
  refine ⟨k, ?_⟩
  unfold trimFrac
  rw [List.append_assoc, ← hk, List.take_append_drop]

theorem decVal_replicate_zero (k : Nat) : decVal (List.replicate k '0') = 0 := by
  induction k with
  | zero => rfl
  | succ k ih =>
    rw [List.replicate_succ]
    have : ('0' :: List.replicate k '0') = ['0'] ++ List.replicate k '0' := rfl
    rw [this, decVal_append, ih, decVal_singleton]
    simp [digitVal]

theorem rat_pow_add (a : Rat) (m n : Nat) : a ^ (m + n) = a ^ m * a ^ n := by
  induction n with
  | zero => simp [Rat.pow_zero, Rat.mul_one]
  | succ n ih => rw [← Nat.add_assoc, Rat.pow_succ, Rat.pow_succ, ih, Rat.mul_assoc]

/-- fractional value of a digit string: `0.d₁d₂…`. -/
def fracVal (s : Text) : Rat := (decVal s : Rat) / (10 : Rat) ^ s.length

theorem fracVal_append_zeros (t : Text) (k : Nat) : fracVal (t ++ List.replicate k '0') = fracVal t := by
  unfold fracVal
  rw [decVal_append, decVal_replicate_zero]
  simp only [List.length_append, List.length_replicate, Nat.add_zero]
  rw [Rat.natCast_mul, Rat.natCast_pow, Rat.natCast_ofNat]
  have h1 := ten_pow_pos t.length
  have h2 := ten_pow_pos k
  have e : (10 : Rat) ^ (t.length + k) = (10 : Rat) ^ t.length * (10 : Rat) ^ k := by
    rw [rat_pow_add]
  rw [e]
  generalize (10 : Rat) ^ t.length = A at *
  generalize (10 : Rat) ^ k = B at *
  generalize (decVal t : Rat) = x
  have hA : A ≠ 0 := Rat.ne_of_gt h1
  have hB : B ≠ 0 := Rat.ne_of_gt h2
  grind

theorem fracVal_trimFrac (f : Text) (z : Nat) : fracVal (trimFrac f z) = fracVal f := by
  obtain ⟨k, hk⟩ := trimFrac_split f z
  conv => rhs; rw [hk]
  exact (fracVal_append_zeros _ k).symm

/-! ## the printed digits denote the rounded value -/

theorem Num.val_eq (n : Num) :
    n.val = (if n.neg then -((decVal n.int : Rat) + fracVal n.frac) else (decVal n.int : Rat) + fracVal n.frac) := rfl

theorem roundUnits_sign (q : Rat) (p : Nat) :
    (q < 0 → Amount.roundUnits q p ≤ 0) ∧ (¬ q < 0 → 0 ≤ Amount.roundUnits q p) := by
  have hd : (0 : Int) < (q.den : Int) := by have := q.den_pos; omega
  have hT : (0 : Int) < (10 : Int) ^ p := Int.pow_pos (by decide)
  rw [Amount.roundUnits_eq]
  constructor
  · intro h
    have hn : q.num < 0 := by
      have := (Rat.not_le.mpr h)
      rw [← Rat.num_nonneg] at this
      omega
    exact roundDiv_sign_nonpos _ _ hd (Int.mul_neg_of_neg_of_pos hn hT)
  · intro h
    have hn : 0 ≤ q.num := by
      rw [Rat.num_nonneg]
      exact Rat.not_lt.mp h
    exact roundDiv_sign_nonneg _ _ hd (Int.mul_nonneg hn (Int.le_of_lt hT))

theorem fracVal_fracDigits (m p : Nat) :
    fracVal (fracDigits (m % 10 ^ p) p) = ((m % 10 ^ p : Nat) : Rat) / (10 : Rat) ^ p := by
  unfold fracVal
  rw [decVal_fracDigits, fracDigits_length, Nat.mod_mod]

theorem magnitude_eq (m p : Nat) :
    ((m / 10 ^ p : Nat) : Rat) + ((m % 10 ^ p : Nat) : Rat) / (10 : Rat) ^ p = (m : Rat) / (10 : Rat) ^ p := by
  have h := Nat.div_add_mod m (10 ^ p)
  have hc : (m : Rat) = ((10 ^ p : Nat) : Rat) * ((m / 10 ^ p : Nat) : Rat) + ((m % 10 ^ p : Nat) : Rat) := by
    rw [← Rat.natCast_mul, ← Rat.natCast_add, h]
  rw [hc, Rat.natCast_pow, Rat.natCast_ofNat]
  have hT := ten_pow_pos p
  generalize (10 : Rat) ^ p = T at *
  have hT0 : T ≠ 0 := Rat.ne_of_gt hT
  grind

theorem fmtNum_val (q : Rat) (p : Nat) (zeros : Option Nat) :
    (fmtNum q p zeros).val = Amount.roundTo q p := by
  rw [Num.val_eq, roundTo_eq]
  have hs := roundUnits_sign q p
  have hfrac : fracVal (fmtNum q p zeros).frac
      = (((Amount.roundUnits q p).natAbs % 10 ^ p : Nat) : Rat) / (10 : Rat) ^ p := by
    unfold fmtNum
    cases zeros with
    | none => exact fracVal_fracDigits _ p
    | some z => simp only; rw [fracVal_trimFrac]; exact fracVal_fracDigits _ p
  have hint : (decVal (fmtNum q p zeros).int : Rat) = (((Amount.roundUnits q p).natAbs / 10 ^ p : Nat) : Rat) := by
    unfold fmtNum
    simp only
    rw [decVal_intDigits]
  have hneg : (fmtNum q p zeros).neg = decide (q < 0) := rfl
  rw [hfrac, hint, hneg, magnitude_eq]
  generalize Amount.roundUnits q p = u at *
  by_cases hq : q < 0
  · have hu := hs.1 hq
    have : ((u.natAbs : Int)) = -u := by omega
    have hc : ((u.natAbs : Nat) : Rat) = -(u : Rat) := by
      rw [← Rat.intCast_natCast, this, Rat.intCast_neg]
    simp only [hq, decide_true, if_true]
    rw [hc]
    grind
  · have hu := hs.2 hq
    have : ((u.natAbs : Int)) = u := by omega
    have hc : ((u.natAbs : Nat) : Rat) = (u : Rat) := by
      rw [← Rat.intCast_natCast, this]
    simp only [hq, decide_false]
    rw [hc]
    rfl

/-! ## thousands grouping -/

theorem groupInt_cons (sep c : Char) (rest : Text) : groupInt sep (c :: rest) =
    if rest.length ≥ 3 ∧ rest.length % 3 = 0 then c :: sep :: groupInt sep rest else c :: groupInt sep rest := by
  rw [groupInt]

theorem groupInt_filter (sep : Char) (ds : Text) (h : ∀ c ∈ ds, c ≠ sep) :
    (groupInt sep ds).filter (fun c => decide (c ≠ sep)) = ds := by
  induction ds with
  | nil => rfl
  | cons c rest ih =>
    have hc : (fun c => decide (c ≠ sep)) c = true := by simpa using h c (by simp)
    have hs : ¬ (fun c => decide (c ≠ sep)) sep = true := by simp
    have hr : ∀ x ∈ rest, x ≠ sep := fun x hx => h x (by simp [hx])
    rw [groupInt_cons]
    split
    · rw [List.filter_cons_of_pos (p := fun c => decide (c ≠ sep)) (a := c) hc,
          List.filter_cons_of_neg (p := fun c => decide (c ≠ sep)) (a := sep) hs, ih hr]
    · rw [List.filter_cons_of_pos (p := fun c => decide (c ≠ sep)) (a := c) hc, ih hr]

theorem groupInt_length (sep : Char) (ds : Text) :
    (groupInt sep ds).length = ds.length + (ds.length - 1) / 3 := by
  induction ds with
  | nil => rfl
  | cons c rest ih =>
    rw [groupInt_cons]
    split
    · rename_i h
      simp only [List.length_cons, ih]
      omega
    · rename_i h
      simp only [List.length_cons, ih]
      omega

/-- the specification, read from the right: after every three digits a mark, if more digits follow.
    Input and output are the reversed strings. -/
def groupRev (sep : Char) : Text → Text
  | a :: b :: c :: t => if t = [] then [a, b, c] else a :: b :: c :: sep :: groupRev sep t
  | l => l

theorem groupRev_snoc (sep : Char) (l : Text) (x : Char) :
    groupRev sep (l ++ [x]) =
      groupRev sep l ++ (if l.length ≥ 3 ∧ l.length % 3 = 0 then [sep] else []) ++ [x] := by
  induction l using groupRev.induct with
  | case1 a b c => simp [groupRev]
  | case2 a b c t ht ih =>
    have e : (a :: b :: c :: t) ++ [x] = a :: b :: c :: (t ++ [x]) := rfl
    rw [e]
    have hne : t ++ [x] ≠ [] := by simp
    rw [groupRev, if_neg hne, ih]
    rw [groupRev, if_neg ht]
    have hl : t.length ≠ 0 := by
      intro h0; exact ht (List.length_eq_zero_iff.mp h0)
    simp only [List.length_cons]
    by_cases h3 : t.length ≥ 3 ∧ t.length % 3 = 0
    · have : t.length + 1 + 1 + 1 ≥ 3 ∧ (t.length + 1 + 1 + 1) % 3 = 0 := by omega
      rw [if_pos h3, if_pos this]; simp
    · have : ¬ (t.length + 1 + 1 + 1 ≥ 3 ∧ (t.length + 1 + 1 + 1) % 3 = 0) := by omega
      rw [if_neg h3, if_neg this]; simp
  | case3 l hl =>
    match l, hl with
    | [], _ => simp [groupRev]
    | [a], _ => simp [groupRev]
    | [a, b], _ => simp [groupRev]
    | a :: b :: c :: t, hl => exact absurd rfl (hl a b c t)

theorem groupInt_reverse (sep : Char) (ds : Text) :
    (groupInt sep ds).reverse = groupRev sep ds.reverse := by
  induction ds with
  | nil => rfl
  | cons c rest ih =>
    rw [List.reverse_cons, groupRev_snoc, ← ih, List.length_reverse, groupInt_cons]
    split
    · simp
    · simp

/-! ## the punctuation scan on a printed number -/

theorem scanGo_append (st : Scan) (a b : Text) :
    scanGo st (a ++ b) = match scanGo st a with
                         | .ok s => scanGo s b
                         | .error e => .error e := by
  induction a generalizing st with
  | nil => simp [scanGo]
  | cons c a ih =>
    simp only [List.cons_append, scanGo]
    cases h : scanStep st c with
    | ok s => simp only; exact ih s
    | error e => simp only

theorem isSep_false_iff {c : Char} : isSep c = false ↔ c ≠ ',' ∧ c ≠ '.' := by
  unfold isSep
  simp

theorem scanStep_nonsep (st : Scan) (c : Char) (h : isSep c = false) :
    scanStep st c = .ok { st with off := st.off + 1 } := by
  obtain ⟨h1, h2⟩ := isSep_false_iff.mp h
  unfold scanStep
  simp [h1, h2]

theorem scanGo_nonsep (st : Scan) (ds : Text) (h : ∀ c ∈ ds, isSep c = false) :
    scanGo st ds = .ok { st with off := st.off + ds.length } := by
  induction ds generalizing st with
  | nil => simp [scanGo]
  | cons c ds ih =>
    have hc := h c (by simp)
    have hr : ∀ x ∈ ds, isSep x = false := fun x hx => h x (by simp [hx])
    simp only [scanGo, scanStep_nonsep st c hc]
    rw [ih _ hr]
    simp only [List.length_cons]
    congr 2
    omega

/-- `sep` is accepted as a thousands mark in state `st`. -/
def Mode (sep : Char) (st : Scan) : Prop :=
  (sep = ',' ∧ st.dcs = false ∧ st.noMoreCommas = false) ∨
  (sep = '.' ∧ st.dcs = true ∧ st.noMorePeriods = false)

theorem scanStep_mark (sep : Char) (st : Scan) (hm : Mode sep st) (h3 : st.off % 3 = 0) :
    ∃ st', scanStep st sep = .ok st' ∧ Mode sep st' ∧ st'.off = st.off ∧ st'.prec = st.prec ∧
      st'.dcs = st.dcs ∧ st'.thousands = true := by
  rcases hm with ⟨rfl, h1, h2⟩ | ⟨rfl, h1, h2⟩
  · refine ⟨{ st with thousands := true, noMorePeriods := true, lastComma := true }, ?_, ?_, rfl, rfl, rfl, rfl⟩
    · unfold scanStep
      simp [h1, h2, h3]
    · left; exact ⟨rfl, h1, h2⟩
  · refine ⟨{ st with thousands := true, noMoreCommas := true, lastPeriod := true }, ?_, ?_, rfl, rfl, rfl, rfl⟩
    · unfold scanStep
      simp [h1, h2, h3]
    · right; exact ⟨rfl, h1, h2⟩

theorem Mode_off (sep : Char) (st : Scan) (n : Nat) (hm : Mode sep st) : Mode sep { st with off := n } := hm

/-- scanning the grouped integer digits (from the right). -/
theorem scan_group (sep : Char) (ds : Text) (hds : ∀ c ∈ ds, isSep c = false)
    (st : Scan) (hm : Mode sep st) (h3 : st.off % 3 = 0) :
    ∃ st', scanGo st (groupInt sep ds).reverse = .ok st' ∧ Mode sep st' ∧
      st'.off = st.off + ds.length ∧ st'.prec = st.prec ∧ st'.dcs = st.dcs ∧
      st'.thousands = (st.thousands || decide (ds.length ≥ 4)) := by
  induction ds with
  | nil => exact ⟨st, by simp [groupInt, scanGo], hm, by simp, rfl, rfl, by simp⟩
  | cons c rest ih =>
    have hc := hds c (by simp)
    have hr : ∀ x ∈ rest, isSep x = false := fun x hx => hds x (by simp [hx])
    obtain ⟨s1, e1, m1, o1, p1, d1, t1⟩ := ih hr
    rw [groupInt_cons]
    split
    · rename_i hg
      have e : (c :: sep :: groupInt sep rest).reverse = (groupInt sep rest).reverse ++ [sep] ++ [c] := by simp
      rw [e, scanGo_append, scanGo_append, e1]
      simp only
      have h3' : s1.off % 3 = 0 := by omega
      obtain ⟨s2, e2, m2, o2, p2, d2, t2⟩ := scanStep_mark sep s1 m1 h3'
      simp only [scanGo, e2, scanStep_nonsep s2 c hc]
      refine ⟨_, rfl, m2, ?_, ?_, ?_, ?_⟩
      · simp only [List.length_cons]; omega
      · simp only; omega
      · simp only; rw [d2, d1]
      · simp only [List.length_cons]
        rw [t2]
        have : rest.length + 1 ≥ 4 := by omega
        simp [this]
    · rename_i hg
      have e : (c :: groupInt sep rest).reverse = (groupInt sep rest).reverse ++ [c] := by simp
      rw [e, scanGo_append, e1]
      simp only [scanGo, scanStep_nonsep s1 c hc]
      refine ⟨_, rfl, m1, ?_, ?_, ?_, ?_⟩
      · simp only [List.length_cons]; omega
      · simp only; omega
      · simp only; rw [d1]
      · simp only [List.length_cons]
        rw [t1]
        -- no new mark: either rest.length < 3, or rest.length % 3 ≠ 0 (then rest.length ≥ 4 ↔ rest.length + 1 ≥ 4 except …)
        by_cases h4 : rest.length ≥ 4
        · have : rest.length + 1 ≥ 4 := by omega
          simp [h4, this]
        · have : ¬ rest.length + 1 ≥ 4 := by omega
          simp [h4, this]

/-- a printed number: sign, integer digits (grouped or not), decimal mark and decimals. -/
def numText (sgn ints frac : Text) (thou dc : Bool) : Text :=
  sgn ++ (if thou then groupInt (if dc then '.' else ',') ints else ints)
    ++ (if frac = [] then [] else (if dc then ',' else '.') :: frac)

theorem Num.render_eq (n : Num) (thou dc : Bool) :
    n.render thou dc = numText (if n.neg then ['-'] else []) n.int n.frac thou dc := rfl

/-- scanning the integer part (grouped or not). -/
theorem scan_intpart (thou dc : Bool) (ints : Text) (hi : ∀ c ∈ ints, isSep c = false)
    (st : Scan) (hm : Mode (if dc then '.' else ',') st) (h3 : st.off % 3 = 0) :
    ∃ st', scanGo st (if thou then groupInt (if dc then '.' else ',') ints else ints).reverse = .ok st' ∧
      st'.prec = st.prec ∧ st'.dcs = st.dcs ∧
      st'.thousands = (st.thousands || (thou && decide (ints.length ≥ 4))) := by
  cases thou with
  | true =>
    obtain ⟨s, e, _, _, p, d, t⟩ := scan_group (if dc then '.' else ',') ints hi st hm h3
    exact ⟨s, by simpa using e, p, d, by simpa using t⟩
  | false =>
    refine ⟨{ st with off := st.off + ints.reverse.length }, ?_, ?_, ?_, ?_⟩
    · simp only [Bool.false_eq_true, if_false]
      exact scanGo_nonsep st ints.reverse (fun c hc => hi c (List.mem_reverse.mp hc))
    · rfl
    · rfl
    · simp

theorem sgn_nonsep (sgn : Text) (hs : sgn = [] ∨ sgn = ['-']) : ∀ c ∈ sgn.reverse, isSep c = false := by
  rcases hs with rfl | rfl
  · simp
  · intro c hc
    simp only [List.reverse_cons, List.reverse_nil, List.nil_append, List.mem_singleton] at hc
    rw [hc]; decide

/-- The reader's scan of a printed number: it finds the decimals, the thousands style when marks
    are present, and the decimal-comma style — provided the reader starts in the style the number
    was written in, or starts in period style and the decimals are not a multiple of three. -/
theorem scan_numText (sgn ints frac : Text) (thou dc dc0 : Bool)
    (hs : sgn = [] ∨ sgn = ['-'])
    (hi : ∀ c ∈ ints, isDigit c = true) (hf : ∀ c ∈ frac, isDigit c = true)
    (hG : dc0 = dc ∨ (dc0 = false ∧ frac.length % 3 ≠ 0)) :
    ∃ sc, scan dc0 (numText sgn ints frac thou dc) = .ok sc ∧ sc.prec = frac.length ∧
      sc.dcs = dc ∧ sc.thousands = (thou && decide (ints.length ≥ 4)) := by
  have hi' : ∀ c ∈ ints, isSep c = false := fun c hc => isDigit_not_sep (hi c hc)
  have hf' : ∀ c ∈ frac.reverse, isSep c = false :=
    fun c hc => isDigit_not_sep (hf c (List.mem_reverse.mp hc))
  unfold scan numText
  simp only [List.reverse_append]
  by_cases hfe : frac = []
  · -- no decimals: the guard forces dc0 = dc
    have hdc : dc0 = dc := by
      rcases hG with h | ⟨_, h⟩
      · exact h
      · subst hfe; simp at h
    subst hdc hfe
    simp only [if_true, List.reverse_nil, List.nil_append]
    rw [scanGo_append]
    have hm : Mode (if dc0 then '.' else ',') ({ dcs := dc0 } : Scan) := by
      cases dc0
      · left; exact ⟨rfl, rfl, rfl⟩
      · right; exact ⟨rfl, rfl, rfl⟩
    obtain ⟨s, e, p, d, t⟩ := scan_intpart thou dc0 ints hi' { dcs := dc0 } hm rfl
    rw [e]
    simp only
    rw [scanGo_nonsep s _ (sgn_nonsep sgn hs)]
    exact ⟨_, rfl, by simpa using p, by simpa using d, by simpa using t⟩
  · simp only [hfe, if_false, List.reverse_cons, List.append_assoc]
    rw [scanGo_append, scanGo_nonsep _ _ hf']
    simp only
    rw [scanGo_append]
    -- the decimal mark
    have hmark : ∃ s1, scanStep ({ dcs := dc0, off := frac.length } : Scan) (if dc then ',' else '.') = .ok s1 ∧
        Mode (if dc then '.' else ',') s1 ∧ s1.off = 0 ∧ s1.prec = frac.length ∧ s1.dcs = dc ∧ s1.thousands = false := by
      rcases hG with h | ⟨h0, h3⟩
      · subst h
        cases dc0
        · refine ⟨{ dcs := false, noMorePeriods := true, prec := frac.length, off := 0, lastPeriod := true }, ?_, ?_, rfl, rfl, rfl, rfl⟩
          · simp [scanStep]
          · left; exact ⟨rfl, rfl, rfl⟩
        · refine ⟨{ dcs := true, noMoreCommas := true, prec := frac.length, off := 0, lastComma := true }, ?_, ?_, rfl, rfl, rfl, rfl⟩
          · simp [scanStep]
          · right; exact ⟨rfl, rfl, rfl⟩
      · subst h0
        cases dc
        · refine ⟨{ dcs := false, noMorePeriods := true, prec := frac.length, off := 0, lastPeriod := true }, ?_, ?_, rfl, rfl, rfl, rfl⟩
          · simp [scanStep]
          · left; exact ⟨rfl, rfl, rfl⟩
        · refine ⟨{ dcs := true, noMoreCommas := true, prec := frac.length, off := 0, lastComma := true }, ?_, ?_, rfl, rfl, rfl, rfl⟩
          · simp [scanStep, h3]
          · right; exact ⟨rfl, rfl, rfl⟩
    obtain ⟨s1, e1, m1, o1, p1, d1, t1⟩ := hmark
    have e0 : ({ ({ dcs := dc0 } : Scan) with off := ({ dcs := dc0 } : Scan).off + frac.reverse.length } : Scan)
        = ({ dcs := dc0, off := frac.length } : Scan) := by simp
    rw [e0]
    simp only [scanGo, e1]
    rw [scanGo_append]
    obtain ⟨s2, e2, p2, d2, t2⟩ := scan_intpart thou dc ints hi' s1 m1 (by omega)
    rw [e2]
    simp only
    rw [scanGo_nonsep s2 _ (sgn_nonsep sgn hs)]
    refine ⟨_, rfl, ?_, ?_, ?_⟩
    · simp only; rw [p2, p1]
    · simp only; rw [d2, d1]
    · simp only; rw [t2, t1]; simp

/-! ## removing the marks, reading the digits -/

theorem stripSeps_cons_nonsep (c : Char) (t : Text) (h : isSep c = false) :
    stripSeps (c :: t) = c :: stripSeps t := by
  rw [stripSeps.eq_def]; simp [h]

theorem stripSeps_sep_nonsep (s d : Char) (t : Text) (hs : isSep s = true) (hd : isSep d = false) :
    stripSeps (s :: d :: t) = stripSeps (d :: t) := by
  rw [stripSeps_cons_nonsep d t hd, stripSeps.eq_def]; simp [hs]

theorem stripSeps_nonsep_append (a b : Text) (h : ∀ c ∈ a, isSep c = false) :
    stripSeps (a ++ b) = a ++ stripSeps b := by
  induction a with
  | nil => rfl
  | cons c a ih =>
    have hc := h c (by simp)
    have hr : ∀ x ∈ a, isSep x = false := fun x hx => h x (by simp [hx])
    rw [List.cons_append, stripSeps_cons_nonsep _ _ hc, ih hr, List.cons_append]

theorem stripSeps_nonsep (a : Text) (h : ∀ c ∈ a, isSep c = false) : stripSeps a = a := by
  have := stripSeps_nonsep_append a [] h
  simpa [stripSeps] using this

theorem groupInt_head (sep d : Char) (r : Text) : ∃ Y, groupInt sep (d :: r) = d :: Y := by
  rw [groupInt_cons]; split <;> exact ⟨_, rfl⟩

theorem stripSeps_group (sep : Char) (hsep : isSep sep = true) (ds tail : Text)
    (h : ∀ c ∈ ds, isSep c = false) :
    stripSeps (groupInt sep ds ++ tail) = ds ++ stripSeps tail := by
  induction ds with
  | nil => rfl
  | cons c rest ih =>
    have hc := h c (by simp)
    have hr : ∀ x ∈ rest, isSep x = false := fun x hx => h x (by simp [hx])
    rw [groupInt_cons]
    split
    · rename_i hg
      match rest, hg, hr, ih with
      | [], hg, _, _ => simp at hg
      | d :: r, hg, hr, ih =>
        obtain ⟨Y, hY⟩ := groupInt_head sep d r
        have hd := hr d (by simp)
        rw [List.cons_append, stripSeps_cons_nonsep _ _ hc, List.cons_append]
        have := ih hr
        rw [hY] at this ⊢
        rw [List.cons_append] at this ⊢
        rw [stripSeps_sep_nonsep sep d _ hsep hd, this]
        rfl
    · rw [List.cons_append, stripSeps_cons_nonsep _ _ hc, ih hr, List.cons_append]

theorem stripSeps_numText (sgn ints frac : Text) (thou dc : Bool)
    (hs : sgn = [] ∨ sgn = ['-'])
    (hi : ∀ c ∈ ints, isDigit c = true) (hf : ∀ c ∈ frac, isDigit c = true) :
    stripSeps (numText sgn ints frac thou dc) = sgn ++ (ints ++ frac) := by
  have hi' : ∀ c ∈ ints, isSep c = false := fun c hc => isDigit_not_sep (hi c hc)
  have hf' : ∀ c ∈ frac, isSep c = false := fun c hc => isDigit_not_sep (hf c hc)
  have hs' : ∀ c ∈ sgn, isSep c = false := by
    rcases hs with rfl | rfl
    · simp
    · intro c hc; simp only [List.mem_singleton] at hc; rw [hc]; decide
  have hfr : stripSeps (if frac = [] then [] else (if dc then ',' else '.') :: frac) = frac := by
    match frac, hf' with
    | [], _ => rfl
    | f :: fr, hf' =>
      simp only [reduceCtorEq, if_false]
      have hm : isSep (if dc then ',' else '.') = true := by cases dc <;> decide
      rw [stripSeps_sep_nonsep _ f fr hm (hf' f (by simp))]
      exact stripSeps_nonsep _ hf'
  unfold numText
  rw [List.append_assoc, stripSeps_nonsep_append _ _ hs']
  cases thou with
  | true =>
    have hm : isSep (if dc then '.' else ',') = true := by cases dc <;> decide
    simp only [if_true]
    rw [stripSeps_group _ hm _ _ hi', hfr]
  | false =>
    simp only [Bool.false_eq_true, if_false]
    rw [stripSeps_nonsep_append _ _ hi', hfr]

theorem intOfText_digits (ds : Text) (hne : ds ≠ []) (h : ∀ c ∈ ds, isDigit c = true) :
    intOfText ds = some (decVal ds : Int) := by
  have hall : ds.all isDigit = true := List.all_eq_true.mpr h
  match ds, hne, h, hall with
  | c :: t, _, h, hall =>
    have hc : c ≠ '-' := by
      intro e; have := h c (by simp); rw [e] at this; revert this; decide
    unfold intOfText
    split
    · rename_i ds' heq
      cases heq; exact absurd rfl hc
    · simp [hall]

theorem intOfText_neg_digits (ds : Text) (hne : ds ≠ []) (h : ∀ c ∈ ds, isDigit c = true) :
    intOfText ('-' :: ds) = some (-(decVal ds : Int)) := by
  have hall : ds.all isDigit = true := List.all_eq_true.mpr h
  unfold intOfText
  simp [hne, hall]

/-- magnitude denoted by integer digits and decimals. -/
def magVal (ints frac : Text) : Rat := (decVal ints : Rat) + fracVal frac

theorem decVal_div (ints frac : Text) :
    ((decVal (ints ++ frac) : Int) : Rat) / (10 : Rat) ^ frac.length = magVal ints frac := by
  unfold magVal fracVal
  rw [Rat.intCast_natCast, decVal_append, Rat.natCast_add, Rat.natCast_mul, Rat.natCast_pow, Rat.natCast_ofNat]
  have hT := ten_pow_pos frac.length
  generalize (10 : Rat) ^ frac.length = T at *
  have hT0 : T ≠ 0 := Rat.ne_of_gt hT
  grind

theorem numText_ne_nil (sgn ints frac : Text) (thou dc : Bool) (hine : ints ≠ []) :
    numText sgn ints frac thou dc ≠ [] := by
  unfold numText
  intro h
  have h1 := List.append_eq_nil_iff.mp h
  have h2 := List.append_eq_nil_iff.mp h1.1
  cases thou with
  | true =>
    simp only [if_true] at h2
    match ints, hine with
    | d :: r, _ =>
      obtain ⟨Y, hY⟩ := groupInt_head (if dc then '.' else ',') d r
      rw [hY] at h2
      exact absurd h2.2 (by simp)
  | false =>
    simp only [Bool.false_eq_true, if_false] at h2
    exact hine h2.2

/-- amount.cc 1098-1227 applied to a printed number. -/
theorem finish_numText (sgn ints frac : Text) (thou dc dc0 negative : Bool) (sym : Text) (fl : Style) (rest : Text)
    (hs : sgn = [] ∨ sgn = ['-']) (hine : ints ≠ [])
    (hi : ∀ c ∈ ints, isDigit c = true) (hf : ∀ c ∈ frac, isDigit c = true)
    (hG : dc0 = dc ∨ (dc0 = false ∧ frac.length % 3 ≠ 0)) :
    finish dc0 negative (numText sgn ints frac thou dc) sym fl rest =
      .ok { q := (if negative then -(if sgn = ['-'] then -(magVal ints frac) else magVal ints frac)
                  else (if sgn = ['-'] then -(magVal ints frac) else magVal ints frac)),
            prec := frac.length, sym := sym,
            flags := { fl with thousands := thou && decide (ints.length ≥ 4), decimalComma := dc },
            rest := rest } := by
  obtain ⟨sc, hsc, hp, hd, ht⟩ := scan_numText sgn ints frac thou dc dc0 hs hi hf hG
  have hne := numText_ne_nil sgn ints frac thou dc hine
  have hdig : ∀ c ∈ ints ++ frac, isDigit c = true := by
    intro c hc
    rcases List.mem_append.mp hc with h | h
    · exact hi c h
    · exact hf c h
  have hne2 : ints ++ frac ≠ [] := by simp [hine]
  unfold finish
  rw [if_neg hne, hsc]
  simp only
  rw [stripSeps_numText sgn ints frac thou dc hs hi hf, hp, hd, ht]
  rcases hs with rfl | rfl
  · simp only [List.nil_append, intOfText_digits _ hne2 hdig, Option.getD_some, decVal_div]
    simp
  · have : ['-'] ++ (ints ++ frac) = '-' :: (ints ++ frac) := rfl
    rw [this, intOfText_neg_digits _ hne2 hdig]
    simp only [Option.getD_some, Rat.intCast_neg]
    have e : -((decVal (ints ++ frac) : Int) : Rat) / (10 : Rat) ^ frac.length = -(magVal ints frac) := by
      rw [← decVal_div]
      have hT := ten_pow_pos frac.length
      generalize (10 : Rat) ^ frac.length = T at *
      have hT0 : T ≠ 0 := Rat.ne_of_gt hT
      grind
    rw [e]
    simp

/-! ## parse_quantity on a printed number -/

/-- `t` is empty or starts with a character outside the class `p`. -/
def StopsAt (p : Char → Bool) (t : Text) : Prop := t = [] ∨ ∃ c r, t = c :: r ∧ p c = false

theorem skipWs_of_head (t : Text) (h : StopsAt isSpace t) : skipWs t = t := by
  rcases h with rfl | ⟨c, r, rfl, hc⟩
  · rfl
  · simp [skipWs, hc]

theorem skipWs_spaces (sp t : Text) (hsp : ∀ c ∈ sp, isSpace c = true) (h : StopsAt isSpace t) :
    skipWs (sp ++ t) = t := by
  induction sp with
  | nil => exact skipWs_of_head t h
  | cons c sp ih =>
    have hc := hsp c (by simp)
    have hr : ∀ x ∈ sp, isSpace x = true := fun x hx => hsp x (by simp [hx])
    have := ih hr
    simp only [skipWs] at this ⊢
    simp [hc, this]

theorem takeWhileN_append (p : Char → Bool) (n : Nat) (a tail : Text)
    (ha : ∀ c ∈ a, p c = true) (hlen : a.length ≤ n) (ht : StopsAt p tail) :
    takeWhileN p n (a ++ tail) = a := by
  induction a generalizing n with
  | nil =>
    rcases ht with rfl | ⟨c, r, rfl, hc⟩
    · cases n <;> rfl
    · cases n with
      | zero => rfl
      | succ n => simp [takeWhileN, hc]
  | cons c a ih =>
    have hc := ha c (by simp)
    have hr : ∀ x ∈ a, p x = true := fun x hx => ha x (by simp [hx])
    cases n with
    | zero => simp at hlen
    | succ n =>
      simp only [List.length_cons] at hlen
      simp [takeWhileN, hc, ih n hr (by omega)]

theorem stripTrailing_id (a : Text) (d : Char) (hd : isDigit d = true) :
    stripTrailingNonDigits (a ++ [d]) = a ++ [d] := by
  unfold stripTrailingNonDigits
  simp [hd]

theorem parseQuantity_body (sp sgn body tail : Text)
    (hsp : ∀ c ∈ sp, isSpace c = true)
    (hs : sgn = [] ∨ sgn = ['-'])
    (hb : ∀ c ∈ body, isQuantChar c = true)
    (hlast : ∃ b' d, body = b' ++ [d] ∧ isDigit d = true)
    (hlen : (sgn ++ body).length ≤ Gen.quantityBufMax)
    (ht : StopsAt isQuantChar tail) :
    parseQuantity (sp ++ (sgn ++ body ++ tail)) = (sgn ++ body, tail) := by
  obtain ⟨b', d, hbd, hd⟩ := hlast
  have hbne : body ≠ [] := by rw [hbd]; simp
  -- first character of the body: a quantity character, hence neither space nor '-'
  obtain ⟨b0, br, hb0⟩ : ∃ b0 br, body = b0 :: br := by
    cases body with
    | nil => exact absurd rfl hbne
    | cons b0 br => exact ⟨b0, br, rfl⟩
  have hq0 : isQuantChar b0 = true := hb b0 (by rw [hb0]; simp)
  have hb0sp : isSpace b0 = false := by
    unfold isQuantChar isDigit isSep at hq0
    unfold isSpace
    simp only [Bool.decide_and, Bool.decide_or, Bool.or_eq_true, Bool.and_eq_true, decide_eq_true_eq] at hq0
    rcases hq0 with h | h | h
    · simp; omega
    · subst h; decide
    · subst h; decide
  have hb0m : b0 ≠ '-' := by
    intro e; subst e; revert hq0; decide
  rcases hs with rfl | rfl
  · -- no sign
    have hstop : StopsAt isSpace (body ++ tail) := by
      right; exact ⟨b0, br ++ tail, by rw [hb0]; rfl, hb0sp⟩
    unfold parseQuantity
    simp only [List.nil_append, skipWs_spaces sp _ hsp hstop]
    have hneg : startsMinus (body ++ tail) = false := by
      rw [hb0]; simp only [List.cons_append]
      unfold startsMinus
      split
      · rename_i heq; cases heq; exact absurd rfl hb0m
      · rfl
    rw [hneg]
    simp only [Bool.false_eq_true, if_false, List.nil_append]
    have hl : body.length ≤ Gen.quantityBufMax := by simpa using hlen
    rw [takeWhileN_append isQuantChar _ body tail hb hl ht]
    rw [hbd, stripTrailing_id b' d hd]
    simp
  · -- minus sign
    have hstop : StopsAt isSpace (['-'] ++ body ++ tail) := by
      right; exact ⟨'-', body ++ tail, rfl, by decide⟩
    unfold parseQuantity
    simp only [skipWs_spaces sp _ hsp hstop]
    have e : ['-'] ++ body ++ tail = '-' :: (body ++ tail) := rfl
    rw [e]
    have hneg : startsMinus ('-' :: (body ++ tail)) = true := rfl
    rw [hneg]
    simp only [if_true, List.drop_succ_cons, List.drop_zero]
    have hl : body.length ≤ Gen.quantityBufMax - 1 := by
      simp only [List.length_append, List.length_singleton] at hlen; omega
    rw [takeWhileN_append isQuantChar _ body tail hb hl ht]
    have e2 : ['-'] ++ body = ('-' :: b') ++ [d] := by rw [hbd]; rfl
    rw [e2, stripTrailing_id _ d hd]
    simp

/-! ## facts read off the regenerated `invalid_chars` table -/

theorem table_digits : ∀ n, n < 58 → 48 ≤ n → Gen.invalidChars.getD n false = true := by decide

theorem invalid_of_digit (c : Char) (h : isDigit c = true) : invalidChar c = true := by
  unfold isDigit at h
  unfold invalidChar
  simp only [Bool.decide_and, Bool.and_eq_true, decide_eq_true_eq] at h
  exact table_digits c.toNat (by omega) h.1

theorem invalid_space : invalidChar ' ' = true := by decide
theorem invalid_tab : invalidChar '\t' = true := by decide
theorem invalid_newline : invalidChar '\n' = true := by decide
theorem invalid_return : invalidChar '\r' = true := by decide
theorem invalid_minus : invalidChar '-' = true := by decide
theorem invalid_period : invalidChar '.' = true := by decide
theorem invalid_comma : invalidChar ',' = true := by decide
theorem invalid_at : invalidChar '@' = true := by decide
theorem invalid_semicolon : invalidChar ';' = true := by decide
theorem quote_not_invalid : invalidChar '"' = false := by decide
theorem backslash_not_invalid : invalidChar '\\' = false := by decide

theorem table_spaces : Gen.invalidChars.getD 32 false = true ∧ Gen.invalidChars.getD 9 false = true ∧
    Gen.invalidChars.getD 10 false = true ∧ Gen.invalidChars.getD 13 false = true := by decide

theorem notSpace_of_valid (c : Char) (h : invalidChar c = false) (h11 : c.toNat ≠ 11) (h12 : c.toNat ≠ 12) :
    isSpace c = false := by
  unfold invalidChar at h
  unfold isSpace
  obtain ⟨t32, t9, t10, t13⟩ := table_spaces
  simp only [Bool.decide_and, Bool.decide_or, Bool.or_eq_false_iff, Bool.and_eq_false_imp, decide_eq_true_eq, decide_eq_false_iff_not]
  constructor
  · intro e; rw [e, t32] at h; cases h
  · intro h9 h13
    have : c.toNat = 9 ∨ c.toNat = 10 ∨ c.toNat = 13 := by omega
    rcases this with e | e | e
    · rw [e, t9] at h; cases h
    · rw [e, t10] at h; cases h
    · rw [e, t13] at h; cases h

theorem quant_invalid (c : Char) (h : isQuantChar c = true) : invalidChar c = true := by
  unfold isQuantChar isSep at h
  simp only [Bool.decide_or, Bool.or_eq_true, decide_eq_true_eq] at h
  rcases h with h | h | h
  · exact invalid_of_digit c h
  · rw [h]; exact invalid_comma
  · rw [h]; exact invalid_period

/-! ## parse_symbol on a printed symbol -/

theorem readBare_sym (n : Nat) (sym tail : Text)
    (hv : ∀ c ∈ sym, invalidChar c = false ∧ c ≠ '\\') (hlen : sym.length ≤ n)
    (ht : StopsAt (fun c => !invalidChar c) tail) :
    readBare n (sym ++ tail) = .ok (sym, tail) := by
  induction sym generalizing n with
  | nil =>
    cases n with
    | zero => rfl
    | succ n =>
      rcases ht with rfl | ⟨c, r, rfl, hc⟩
      · rfl
      · have : invalidChar c = true := by simpa using hc
        simp [readBare, this]
  | cons c sym ih =>
    have hc := hv c (by simp)
    have hr : ∀ x ∈ sym, invalidChar x = false ∧ x ≠ '\\' := fun x hx => hv x (by simp [hx])
    cases n with
    | zero => simp at hlen
    | succ n =>
      simp only [List.length_cons] at hlen
      simp only [List.cons_append, readBare, hc.1, hc.2, Bool.false_eq_true, if_false]
      rw [ih n hr (by omega)]

theorem readQuoted_sym (n : Nat) (sym tail : Text)
    (hv : ∀ c ∈ sym, c ≠ '"' ∧ c ≠ '\\' ∧ c ≠ '\n') (hlen : sym.length ≤ n) :
    readQuoted n (sym ++ '"' :: tail) = (sym, '"' :: tail) := by
  induction sym generalizing n with
  | nil =>
    cases n with
    | zero => rfl
    | succ n => simp [readQuoted]
  | cons c sym ih =>
    have hc := hv c (by simp)
    have hr : ∀ x ∈ sym, x ≠ '"' ∧ x ≠ '\\' ∧ x ≠ '\n' := fun x hx => hv x (by simp [hx])
    cases n with
    | zero => simp at hlen
    | succ n =>
      simp only [List.length_cons] at hlen
      simp only [List.cons_append, readQuoted, hc.1, hc.2.1, hc.2.2, or_self, if_false]
      rw [ih n hr (by omega)]

/-- the quoted reader undoes `escapeSym` (the repaired printer). -/
theorem readQuoted_escaped (n : Nat) (sym tail : Text)
    (hv : ∀ c ∈ sym, c ≠ '\n') (hlen : sym.length ≤ n) :
    readQuoted n (escapeSym sym ++ '"' :: tail) = (sym, '"' :: tail) := by
  induction sym generalizing n with
  | nil =>
    cases n with
    | zero => rfl
    | succ n => simp [readQuoted, escapeSym]
  | cons c sym ih =>
    have hc := hv c (by simp)
    have hr : ∀ x ∈ sym, x ≠ '\n' := fun x hx => hv x (by simp [hx])
    cases n with
    | zero => simp at hlen
    | succ n =>
      simp only [List.length_cons] at hlen
      have hi := ih n hr (by omega)
      by_cases hq : c = '"'
      · subst hq
        simp only [escapeSym, true_or, if_true, List.cons_append, readQuoted]
        rw [hi]; rfl
      · by_cases hb : c = '\\'
        · subst hb
          simp only [escapeSym, or_true, if_true, List.cons_append, readQuoted]
          rw [hi]; rfl
        · simp only [escapeSym, hq, hb, or_self, if_false, List.cons_append, readQuoted, hc]
          rw [hi]

/-! ## shape of a printed number -/

theorem groupInt_mem (sep : Char) (ds : Text) : ∀ c ∈ groupInt sep ds, c = sep ∨ c ∈ ds := by
  induction ds with
  | nil => simp [groupInt]
  | cons x rest ih =>
    intro c hc
    rw [groupInt_cons] at hc
    split at hc
    · simp only [List.mem_cons] at hc
      rcases hc with h | h | h
      · right; simp [h]
      · left; exact h
      · rcases ih c h with h' | h'
        · left; exact h'
        · right; simp [h']
    · simp only [List.mem_cons] at hc
      rcases hc with h | h
      · right; simp [h]
      · rcases ih c h with h' | h'
        · left; exact h'
        · right; simp [h']

theorem groupInt_snoc (sep : Char) (ds : Text) (d : Char) : ∃ X, groupInt sep (ds ++ [d]) = X ++ [d] := by
  induction ds with
  | nil => exact ⟨[], by simp [groupInt]⟩
  | cons x rest ih =>
    obtain ⟨X, hX⟩ := ih
    rw [List.cons_append, groupInt_cons, hX]
    split
    · exact ⟨x :: sep :: X, rfl⟩
    · exact ⟨x :: X, rfl⟩

theorem list_snoc_of_ne_nil {α : Type} (l : List α) (h : l ≠ []) : ∃ l' d, l = l' ++ [d] :=
  ⟨l.dropLast, l.getLast h, (List.dropLast_concat_getLast h).symm⟩

theorem isQuant_of_digit {c : Char} (h : isDigit c = true) : isQuantChar c = true := by
  unfold isQuantChar; simp [h]

/-- the unsigned part of a printed number: only quantity characters, a digit first and last. -/
theorem numText_body (ints frac : Text) (thou dc : Bool) (hine : ints ≠ [])
    (hi : ∀ c ∈ ints, isDigit c = true) (hf : ∀ c ∈ frac, isDigit c = true) :
    (∀ c ∈ numText [] ints frac thou dc, isQuantChar c = true) ∧
    (∃ b' d, numText [] ints frac thou dc = b' ++ [d] ∧ isDigit d = true) ∧
    (∃ h r, numText [] ints frac thou dc = h :: r ∧ isDigit h = true) := by
  have hsepq : isQuantChar (if dc then '.' else ',') = true := by cases dc <;> decide
  have hmarkq : isQuantChar (if dc then ',' else '.') = true := by cases dc <;> decide
  -- integer part
  have hI : (∀ c ∈ (if thou then groupInt (if dc then '.' else ',') ints else ints), isQuantChar c = true) ∧
      (∃ b' d, (if thou then groupInt (if dc then '.' else ',') ints else ints) = b' ++ [d] ∧ isDigit d = true) ∧
      (∃ h r, (if thou then groupInt (if dc then '.' else ',') ints else ints) = h :: r ∧ isDigit h = true) := by
    obtain ⟨i', dl, hil⟩ := list_snoc_of_ne_nil ints hine
    have hdl : isDigit dl = true := hi dl (by rw [hil]; simp)
    cases thou with
    | true =>
      simp only [if_true]
      refine ⟨?_, ?_, ?_⟩
      · intro c hc
        rcases groupInt_mem _ _ c hc with h | h
        · rw [h]; exact hsepq
        · exact isQuant_of_digit (hi c h)
      · obtain ⟨X, hX⟩ := groupInt_snoc (if dc then '.' else ',') i' dl
        exact ⟨X, dl, by rw [hil, hX], hdl⟩
      · match ints, hine, hi with
        | h :: r, _, hi =>
          obtain ⟨Y, hY⟩ := groupInt_head (if dc then '.' else ',') h r
          exact ⟨h, Y, hY, hi h (by simp)⟩
    | false =>
      simp only [Bool.false_eq_true, if_false]
      refine ⟨fun c hc => isQuant_of_digit (hi c hc), ⟨i', dl, hil, hdl⟩, ?_⟩
      match ints, hine, hi with
      | h :: r, _, hi => exact ⟨h, r, rfl, hi h (by simp)⟩
  obtain ⟨hIq, ⟨ib, idl, hIl, hidl⟩, ⟨ih, ir, hIh, hihd⟩⟩ := hI
  unfold numText
  simp only [List.nil_append]
  by_cases hfe : frac = []
  · subst hfe
    simp only [if_true, List.append_nil]
    exact ⟨hIq, ⟨ib, idl, hIl, hidl⟩, ⟨ih, ir, hIh, hihd⟩⟩
  · simp only [hfe, if_false]
    obtain ⟨f', fl, hfl⟩ := list_snoc_of_ne_nil frac hfe
    refine ⟨?_, ?_, ?_⟩
    · intro c hc
      rcases List.mem_append.mp hc with h | h
      · exact hIq c h
      · simp only [List.mem_cons] at h
        rcases h with h | h
        · rw [h]; exact hmarkq
        · exact isQuant_of_digit (hf c h)
    · refine ⟨(if thou then groupInt (if dc then '.' else ',') ints else ints) ++ (if dc then ',' else '.') :: f', fl, ?_, hf fl (by rw [hfl]; simp)⟩
      rw [hfl]; simp
    · exact ⟨ih, ir ++ (if dc then ',' else '.') :: frac, by rw [hIh]; rfl, hihd⟩

theorem numText_sgn (sgn ints frac : Text) (thou dc : Bool) :
    numText sgn ints frac thou dc = sgn ++ numText [] ints frac thou dc := by
  unfold numText
  simp [List.append_assoc]

/-! ## parse_symbol on what commodity_t::print wrote -/

/-- Symbols the printer can protect: non-empty, within the reader's buffer, without a newline;
    when printed in quotes without the repaired escapes, free of `"` and `\\`; when printed bare,
    not a reserved word, free of `"` and `\\`, and free of vertical tab / form feed (white space
    that `invalid_chars` misses).  With the repaired source (all three `Gen.symbol…` flags true)
    only the newline and vertical-tab / form-feed conditions remain (`symOK_of_protected`). -/
def SymOK (sym : Text) : Prop :=
  sym ≠ [] ∧ sym.length ≤ Gen.symbolBufMax ∧
  (∀ c ∈ sym, c ≠ '\n') ∧
  (needsQuotes sym = true → Gen.symbolEscapesBackslashQuote = false → ∀ c ∈ sym, c ≠ '"' ∧ c ≠ '\\') ∧
  (needsQuotes sym = false →
    isReserved sym = false ∧ ∀ c ∈ sym, c ≠ '"' ∧ c ≠ '\\' ∧ c.toNat ≠ 11 ∧ c.toNat ≠ 12)

instance (sym : Text) : Decidable (SymOK sym) := by unfold SymOK; infer_instance

theorem startsQuote_cons (c : Char) (t : Text) : startsQuote (c :: t) = decide (c = '"') := by
  unfold startsQuote
  split
  · rename_i heq; cases heq; simp
  · rename_i h
    by_cases hc : c = '"'
    · subst hc; exact absurd rfl (h t)
    · simp [hc]

theorem valid_of_bare (sym : Text) (h : needsQuotes sym = false) : ∀ c ∈ sym, invalidChar c = false := by
  unfold needsQuotes at h
  simp only [Bool.or_eq_false_iff] at h
  intro c hc
  have := List.any_eq_false.mp h.1.1 c hc
  simpa using this

/-- first character of the printed symbol: it opens the symbol-first branch of amount_t::parse. -/
theorem qualified_head (sym : Text) (hok : SymOK sym) :
    ∃ ch r, qualified sym = ch :: r ∧ isSpace ch = false ∧ ch ≠ '-' ∧ isDigit ch = false ∧ ch ≠ '\n' ∧
      isQuantChar ch = false := by
  obtain ⟨hne, _, hnl, _, hbare⟩ := hok
  unfold qualified
  by_cases hq : needsQuotes sym = true
  · rw [if_pos hq]
    exact ⟨'"', _, rfl, by decide, by decide, by decide, by decide, by decide⟩
  · have hq' : needsQuotes sym = false := by simpa using hq
    rw [if_neg hq]
    match sym, hne, hnl, hbare, hq' with
    | ch :: r, _, hnl, hbare, hq' =>
      have hv := valid_of_bare _ hq' ch (by simp)
      have hb := (hbare hq').2 ch (by simp)
      have hd : isDigit ch = false := by
        cases h : isDigit ch with
        | false => rfl
        | true => rw [invalid_of_digit ch h] at hv; cases hv
      have hqc : isQuantChar ch = false := by
        cases h : isQuantChar ch with
        | false => rfl
        | true => rw [quant_invalid ch h] at hv; cases hv
      refine ⟨ch, r, rfl, notSpace_of_valid ch hv hb.2.2.1 hb.2.2.2, ?_, hd, hnl ch (by simp), hqc⟩
      intro e; rw [e, invalid_minus] at hv; cases hv

theorem parseSymbol_qualified (sp sym tail : Text) (hsp : ∀ c ∈ sp, isSpace c = true)
    (hok : SymOK sym) (ht : StopsAt (fun c => !invalidChar c) tail) :
    parseSymbol (sp ++ (qualified sym ++ tail)) = .ok (sym, tail) := by
  obtain ⟨ch, r, hqh, hsp0, _, _, _, _⟩ := qualified_head sym hok
  obtain ⟨hne, hlen, hnl, hquoted, hbare⟩ := hok
  have hstop : StopsAt isSpace (qualified sym ++ tail) := by
    right; exact ⟨ch, r ++ tail, by rw [hqh]; rfl, hsp0⟩
  unfold parseSymbol
  simp only [skipWs_spaces sp _ hsp hstop]
  by_cases hq : needsQuotes sym = true
  · have e : qualified sym ++ tail
        = '"' :: ((if Gen.symbolEscapesBackslashQuote then escapeSym sym else sym) ++ '"' :: tail) := by
      unfold qualified; rw [if_pos hq]; simp
    rw [e, startsQuote_cons]
    simp only [decide_true, if_true, List.drop_succ_cons, List.drop_zero]
    have hread : readQuoted Gen.symbolBufMax
        ((if Gen.symbolEscapesBackslashQuote then escapeSym sym else sym) ++ '"' :: tail) = (sym, '"' :: tail) := by
      cases hesc : Gen.symbolEscapesBackslashQuote with
      | true => simp only [if_true]; exact readQuoted_escaped _ sym tail hnl hlen
      | false =>
        simp only [Bool.false_eq_true, if_false]
        have hch := hquoted hq hesc
        exact readQuoted_sym _ sym tail (fun c hc => ⟨(hch c hc).1, (hch c hc).2, hnl c hc⟩) hlen
    rw [hread]
    simp only [startsQuote_cons, decide_true, if_true, if_neg hne, List.drop_succ_cons, List.drop_zero]
  · have hq' : needsQuotes sym = false := by simpa using hq
    have e : qualified sym ++ tail = sym ++ tail := by unfold qualified; rw [if_neg hq]
    have hv := valid_of_bare _ hq'
    have hch := (hbare hq').2
    rw [e]
    have hnq : startsQuote (sym ++ tail) = false := by
      match sym, hne, hch with
      | c :: s, _, hch =>
        rw [List.cons_append, startsQuote_cons]
        simp [(hch c (by simp)).1]
    rw [hnq]
    simp only [Bool.false_eq_true, if_false]
    rw [readBare_sym _ sym tail (fun c hc => ⟨hv c hc, (hch c hc).2.1⟩) hlen ht]
    simp only
    have : ¬ (sym = [] ∨ isReserved sym = true) := by
      intro h
      rcases h with h | h
      · exact hne h
      · rw [(hbare hq').1] at h; cases h
    rw [if_neg this]

/-- With the repaired source every symbol without newline (and, bare, without vertical tab /
    form feed) within the buffer is protected: reserved words and symbols with `"` or `\\` included. -/
theorem symOK_of_protected (hr : Gen.symbolQuotesReserved = true) (hb : Gen.symbolQuotesBackslashQuote = true)
    (he : Gen.symbolEscapesBackslashQuote = true) (sym : Text) (hne : sym ≠ [])
    (hlen : sym.length ≤ Gen.symbolBufMax)
    (hc : ∀ c ∈ sym, c ≠ '\n' ∧ c.toNat ≠ 11 ∧ c.toNat ≠ 12) : SymOK sym := by
  refine ⟨hne, hlen, fun c h => (hc c h).1, ?_, ?_⟩
  · intro _ h; rw [he] at h; cases h
  · intro hq
    unfold needsQuotes at hq
    simp only [hr, hb, Bool.true_and, Bool.or_eq_false_iff] at hq
    refine ⟨hq.2, fun c h => ?_⟩
    have := List.any_eq_false.mp hq.1.2 c h
    simp only [Bool.or_eq_true, decide_eq_true_eq, not_or] at this
    exact ⟨this.2, this.1, (hc c h).2.1, (hc c h).2.2⟩

/-! ## amount_t::parse on what amount_t::print wrote -/

def spOf (b : Bool) : Text := if b then [' '] else []

theorem spOf_spaces (b : Bool) : ∀ c ∈ spOf b, isSpace c = true := by
  cases b
  · simp [spOf]
  · intro c hc; simp only [spOf, if_true, List.mem_singleton] at hc; rw [hc]; decide

theorem digit_not_space {c : Char} (h : isDigit c = true) : isSpace c = false := by
  unfold isDigit at h; unfold isSpace
  simp only [Bool.decide_and, Bool.and_eq_true, decide_eq_true_eq] at h
  simp; omega

theorem digit_not_minus {c : Char} (h : isDigit c = true) : c ≠ '-' := by
  intro e; subst e; revert h; decide

theorem startsMinus_cons (c : Char) (t : Text) : startsMinus (c :: t) = decide (c = '-') := by
  unfold startsMinus
  split
  · rename_i heq; cases heq; simp
  · rename_i h
    by_cases hc : c = '-'
    · subst hc; exact absurd rfl (h t)
    · simp [hc]

/-- what follows the number in suffix position: optional space, then the printed symbol. -/
theorem suffix_tail (sep : Bool) (sym tail : Text) (hok : SymOK sym) :
    ∃ n r, spOf sep ++ (qualified sym ++ tail) = n :: r ∧ n ≠ '\n' ∧ isSpace n = sep ∧ isQuantChar n = false := by
  obtain ⟨ch, r, hqh, hsp0, _, _, hnl, hqc⟩ := qualified_head sym hok
  cases sep with
  | true => exact ⟨' ', qualified sym ++ tail, rfl, by decide, by decide, by decide⟩
  | false => exact ⟨ch, r ++ tail, by rw [hqh]; rfl, hnl, hsp0, hqc⟩

theorem parse_suffix (dcOf : Text → Bool) (sgn ints frac : Text) (thou dc sep : Bool) (sym tail : Text)
    (hs : sgn = [] ∨ sgn = ['-']) (hine : ints ≠ [])
    (hi : ∀ c ∈ ints, isDigit c = true) (hf : ∀ c ∈ frac, isDigit c = true)
    (hok : SymOK sym)
    (hG : dcOf sym = dc ∨ (dcOf sym = false ∧ frac.length % 3 ≠ 0))
    (hlen : (numText sgn ints frac thou dc).length ≤ Gen.quantityBufMax)
    (ht : StopsAt (fun c => !invalidChar c) tail) :
    parseAmount dcOf (numText sgn ints frac thou dc ++ (spOf sep ++ (qualified sym ++ tail))) =
      .ok { q := if sgn = ['-'] then -(magVal ints frac) else magVal ints frac,
            prec := frac.length, sym := sym,
            flags := { suffixed := true, separated := sep,
                       thousands := thou && decide (ints.length ≥ 4), decimalComma := dc },
            rest := tail } := by
  obtain ⟨hBq, hBl, ⟨bh, br, hBh, hbhd⟩⟩ := numText_body ints frac thou dc hine hi hf
  obtain ⟨n, r, hT, hnl, hnsp, hnq⟩ := suffix_tail sep sym tail hok
  have hlenB : ([] ++ numText [] ints frac thou dc).length ≤ Gen.quantityBufMax := by
    rw [numText_sgn] at hlen
    simp only [List.length_append, List.nil_append] at hlen ⊢
    omega
  have hstopT : StopsAt isQuantChar (spOf sep ++ (qualified sym ++ tail)) := by
    right; exact ⟨n, r, hT, hnq⟩
  have hPQ := parseQuantity_body [] [] (numText [] ints frac thou dc) (spOf sep ++ (qualified sym ++ tail))
    (by simp) (Or.inl rfl) hBq hBl hlenB hstopT
  simp only [List.nil_append] at hPQ
  have hPS := parseSymbol_qualified (spOf sep) sym tail (spOf_spaces sep) hok ht
  have hsymne : sym ≠ [] := hok.1
  have hB0 : StopsAt isSpace (numText [] ints frac thou dc ++ (spOf sep ++ (qualified sym ++ tail))) := by
    right; exact ⟨bh, br ++ (spOf sep ++ (qualified sym ++ tail)), by rw [hBh]; rfl, digit_not_space hbhd⟩
  have hBd : startsDigit (numText [] ints frac thou dc ++ (spOf sep ++ (qualified sym ++ tail))) = true := by
    rw [hBh]; exact hbhd
  have hBm : startsMinus (numText [] ints frac thou dc ++ (spOf sep ++ (qualified sym ++ tail))) = false := by
    rw [hBh, List.cons_append, startsMinus_cons]; simp [digit_not_minus hbhd]
  rw [numText_sgn]
  unfold parseAmount
  rcases hs with rfl | rfl
  · simp only [List.nil_append, skipWs_of_head _ hB0, hBm, Bool.false_eq_true, if_false, hBd, if_true, hPQ]
    rw [hT]
    simp only [hnl, if_false]
    rw [← hT, hPS]
    simp only
    have := finish_numText [] ints frac thou dc (dcOf sym) false sym
      { separated := isSpace n, suffixed := decide (sym ≠ []) } tail (Or.inl rfl) hine hi hf hG
    rw [this]
    simp [hnsp, hsymne]
  · have hS0 : StopsAt isSpace (['-'] ++ numText [] ints frac thou dc ++ (spOf sep ++ (qualified sym ++ tail))) := by
      right; exact ⟨'-', _, rfl, by decide⟩
    have hSm : startsMinus (['-'] ++ numText [] ints frac thou dc ++ (spOf sep ++ (qualified sym ++ tail))) = true := rfl
    have hdrop : (['-'] ++ numText [] ints frac thou dc ++ (spOf sep ++ (qualified sym ++ tail))).drop 1
        = numText [] ints frac thou dc ++ (spOf sep ++ (qualified sym ++ tail)) := by simp
    simp only [skipWs_of_head _ hS0, hSm, if_true, hdrop, skipWs_of_head _ hB0, hBd, hPQ]
    rw [hT]
    simp only [hnl, if_false]
    rw [← hT, hPS]
    simp only
    have := finish_numText [] ints frac thou dc (dcOf sym) true sym
      { separated := isSpace n, suffixed := decide (sym ≠ []) } tail (Or.inl rfl) hine hi hf hG
    rw [this]
    simp [hnsp, hsymne]

theorem startsDigit_cons (c : Char) (t : Text) : startsDigit (c :: t) = isDigit c := rfl

/-- what follows the symbol in prefix position: optional space, then the number. -/
theorem prefix_tail (sep : Bool) (sgn ints frac : Text) (thou dc : Bool) (tail : Text)
    (hs : sgn = [] ∨ sgn = ['-']) (hine : ints ≠ [])
    (hi : ∀ c ∈ ints, isDigit c = true) (hf : ∀ c ∈ frac, isDigit c = true) :
    ∃ n r, spOf sep ++ (numText sgn ints frac thou dc ++ tail) = n :: r ∧ n ≠ '\n' ∧ isSpace n = sep ∧
      invalidChar n = true := by
  obtain ⟨_, _, ⟨bh, br, hBh, hbhd⟩⟩ := numText_body ints frac thou dc hine hi hf
  cases sep with
  | true => exact ⟨' ', _, rfl, by decide, by decide, invalid_space⟩
  | false =>
    rw [numText_sgn]
    rcases hs with rfl | rfl
    · refine ⟨bh, br ++ tail, by rw [List.nil_append, hBh]; rfl, ?_, digit_not_space hbhd, invalid_of_digit bh hbhd⟩
      intro e; subst e; revert hbhd; decide
    · exact ⟨'-', _, rfl, by decide, by decide, invalid_minus⟩

theorem parse_prefix (dcOf : Text → Bool) (sgn ints frac : Text) (thou dc sep : Bool) (sym tail : Text)
    (hs : sgn = [] ∨ sgn = ['-']) (hine : ints ≠ [])
    (hi : ∀ c ∈ ints, isDigit c = true) (hf : ∀ c ∈ frac, isDigit c = true)
    (hok : SymOK sym)
    (hG : dcOf sym = dc ∨ (dcOf sym = false ∧ frac.length % 3 ≠ 0))
    (hlen : (numText sgn ints frac thou dc).length ≤ Gen.quantityBufMax)
    (ht : StopsAt isQuantChar tail) :
    parseAmount dcOf (qualified sym ++ (spOf sep ++ (numText sgn ints frac thou dc ++ tail))) =
      .ok { q := if sgn = ['-'] then -(magVal ints frac) else magVal ints frac,
            prec := frac.length, sym := sym,
            flags := { suffixed := false, separated := sep,
                       thousands := thou && decide (ints.length ≥ 4), decimalComma := dc },
            rest := tail } := by
  obtain ⟨hBq, hBl, _⟩ := numText_body ints frac thou dc hine hi hf
  obtain ⟨ch, qr, hqh, hchsp, hchm, hchd, _, _⟩ := qualified_head sym hok
  obtain ⟨n, r, hT, hnl, hnsp, hninv⟩ := prefix_tail sep sgn ints frac thou dc tail hs hine hi hf
  have hstopT : StopsAt (fun c => !invalidChar c) (spOf sep ++ (numText sgn ints frac thou dc ++ tail)) := by
    right; exact ⟨n, r, hT, by simp [hninv]⟩
  have hPS := parseSymbol_qualified [] sym _ (by simp) hok hstopT
  simp only [List.nil_append] at hPS
  have hlen' : (sgn ++ numText [] ints frac thou dc).length ≤ Gen.quantityBufMax := by
    rw [← numText_sgn]; exact hlen
  have hPQ := parseQuantity_body (spOf sep) sgn (numText [] ints frac thou dc) tail (spOf_spaces sep) hs hBq hBl hlen' ht
  rw [← numText_sgn] at hPQ
  have hQ0 : StopsAt isSpace (qualified sym ++ (spOf sep ++ (numText sgn ints frac thou dc ++ tail))) := by
    right; exact ⟨ch, _, by rw [hqh]; rfl, hchsp⟩
  have hQm : startsMinus (qualified sym ++ (spOf sep ++ (numText sgn ints frac thou dc ++ tail))) = false := by
    rw [hqh, List.cons_append, startsMinus_cons]; simp [hchm]
  have hQd : startsDigit (qualified sym ++ (spOf sep ++ (numText sgn ints frac thou dc ++ tail))) = false := by
    rw [hqh, List.cons_append, startsDigit_cons]; exact hchd
  unfold parseAmount
  simp only [skipWs_of_head _ hQ0, hQm, Bool.false_eq_true, if_false, hQd, hPS]
  rw [hT]
  simp only [hnl, if_false]
  rw [← hT, hPQ]
  simp only
  have := finish_numText sgn ints frac thou dc (dcOf sym) false sym { separated := isSpace n } tail hs hine hi hf hG
  rw [this]
  simp [hnsp]

/-! ## shape of `fmtNum` -/

theorem trimFrac_mem (f : Text) (z : Nat) : ∀ c ∈ trimFrac f z, c ∈ f := by
  obtain ⟨k, hk⟩ := trimFrac_split f z
  intro c hc
  rw [hk]; exact List.mem_append_left _ hc

theorem trimFrac_length_le (f : Text) (z : Nat) : (trimFrac f z).length ≤ f.length := by
  obtain ⟨k, hk⟩ := trimFrac_split f z
  have := congrArg List.length hk
  simp only [List.length_append, List.length_replicate] at this
  omega

theorem trimFrac_length_ge (f : Text) (z : Nat) : min z f.length ≤ (trimFrac f z).length := by
  unfold trimFrac
  simp only [List.length_append, List.length_take]
  omega

theorem trimFrac_full (f : Text) : trimFrac f f.length = f := by
  unfold trimFrac dropTrailingZeros
  simp

theorem fmtNum_int_digits (q : Rat) (p : Nat) (z : Option Nat) :
    (fmtNum q p z).int ≠ [] ∧ ∀ c ∈ (fmtNum q p z).int, isDigit c = true :=
  ⟨intDigits_ne_nil _, intDigits_isDigit _⟩

theorem fmtNum_frac_digits (q : Rat) (p : Nat) (z : Option Nat) :
    ∀ c ∈ (fmtNum q p z).frac, isDigit c = true := by
  unfold fmtNum
  cases z with
  | none => exact fracDigits_isDigit _ _
  | some z => intro c hc; exact fracDigits_isDigit _ _ c (trimFrac_mem _ _ c hc)

theorem fmtNum_frac_length (q : Rat) (p : Nat) :
    (fmtNum q p none).frac.length = p ∧
    ∀ z, min z p ≤ (fmtNum q p (some z)).frac.length ∧ (fmtNum q p (some z)).frac.length ≤ p := by
  refine ⟨fracDigits_length _ _, fun z => ?_⟩
  unfold fmtNum
  simp only
  have h1 := trimFrac_length_ge (fracDigits ((Amount.roundUnits q p).natAbs % 10 ^ p) p) z
  have h2 := trimFrac_length_le (fracDigits ((Amount.roundUnits q p).natAbs % 10 ^ p) p) z
  rw [fracDigits_length] at h1 h2
  exact ⟨h1, h2⟩

theorem fmtNum_frac_length_exact (q : Rat) (p : Nat) : (fmtNum q p (some p)).frac.length = p := by
  have := (fmtNum_frac_length q p).2 p
  omega

/-- the number amount_t::print writes for an amount (q, prec, keep) of a commodity. -/
def printedNum (ci : CommInfo) (q : Rat) (amtPrec : Nat) (keep : Bool) : Num :=
  fmtNum q (displayPrec true ci.prec amtPrec keep) (some ci.prec)

/-- the style flags the reader learns from one printed amount. -/
def learnedStyle (st : Style) (dc : Bool) (n : Num) : Style :=
  { suffixed := st.suffixed, separated := st.separated,
    thousands := st.thousands && decide (n.int.length ≥ 4), decimalComma := dc }

theorem printAmount_eq (dcDefault : Bool) (sym : Text) (ci : CommInfo) (q : Rat) (amtPrec : Nat)
    (keep : Bool) (hne : sym ≠ []) :
    printAmount dcDefault sym ci q amtPrec keep =
      (if ci.style.suffixed then
        (printedNum ci q amtPrec keep).render ci.style.thousands (dcDefault || ci.style.decimalComma)
          ++ (spOf ci.style.separated ++ qualified sym)
      else qualified sym ++ (spOf ci.style.separated ++
        (printedNum ci q amtPrec keep).render ci.style.thousands (dcDefault || ci.style.decimalComma))) := by
  unfold printAmount printedNum spOf
  simp only [hne, ne_eq, not_false_eq_true, decide_true, if_true]
  split <;> simp [List.append_assoc]

theorem Num.val_magVal (n : Num) :
    (if (if n.neg then ['-'] else []) = ['-'] then -(magVal n.int n.frac) else magVal n.int n.frac) = n.val := by
  rw [Num.val_eq]
  unfold magVal
  cases n.neg <;> simp

/-- what may follow a printed amount: nothing, or a character that ends both a bare symbol and a number. -/
def TailOK (tail : Text) : Prop :=
  tail = [] ∨ ∃ c r, tail = c :: r ∧ invalidChar c = true ∧ isQuantChar c = false

instance (tail : Text) : Decidable (TailOK tail) := by
  unfold TailOK
  cases tail with
  | nil => exact isTrue (Or.inl rfl)
  | cons c r =>
    by_cases h : invalidChar c = true ∧ isQuantChar c = false
    · exact isTrue (Or.inr ⟨c, r, rfl, h⟩)
    · exact isFalse (by
        intro h'
        rcases h' with h' | ⟨c', r', he, h1, h2⟩
        · cases h'
        · cases he; exact h ⟨h1, h2⟩)

theorem parse_print_main (dcDefault : Bool) (sym : Text) (ci : CommInfo) (q : Rat) (amtPrec : Nat)
    (keep : Bool) (dcOf : Text → Bool) (tail : Text)
    (hsym : SymOK sym)
    (hlen : ((printedNum ci q amtPrec keep).render ci.style.thousands
              (dcDefault || ci.style.decimalComma)).length ≤ Gen.quantityBufMax)
    (hG : dcOf sym = (dcDefault || ci.style.decimalComma) ∨
          (dcOf sym = false ∧ (printedNum ci q amtPrec keep).frac.length % 3 ≠ 0))
    (ht : TailOK tail) :
    parseAmount dcOf (printAmount dcDefault sym ci q amtPrec keep ++ tail) =
      .ok { q := Amount.roundTo q (displayPrec true ci.prec amtPrec keep),
            prec := (printedNum ci q amtPrec keep).frac.length,
            sym := sym,
            flags := learnedStyle ci.style (dcDefault || ci.style.decimalComma) (printedNum ci q amtPrec keep),
            rest := tail } := by
  have hne := hsym.1
  rw [printAmount_eq _ _ _ _ _ _ hne]
  have hval : (printedNum ci q amtPrec keep).val = Amount.roundTo q (displayPrec true ci.prec amtPrec keep) :=
    fmtNum_val _ _ _
  obtain ⟨hine, hi⟩ := fmtNum_int_digits q (displayPrec true ci.prec amtPrec keep) (some ci.prec)
  have hf := fmtNum_frac_digits q (displayPrec true ci.prec amtPrec keep) (some ci.prec)
  have hs : (if (printedNum ci q amtPrec keep).neg then ['-'] else []) = [] ∨
      (if (printedNum ci q amtPrec keep).neg then ['-'] else []) = ['-'] := by
    cases (printedNum ci q amtPrec keep).neg <;> simp
  have ht1 : StopsAt (fun c => !invalidChar c) tail := by
    rcases ht with h | ⟨c, r, h, h1, _⟩
    · exact Or.inl h
    · exact Or.inr ⟨c, r, h, by simp [h1]⟩
  have ht2 : StopsAt isQuantChar tail := by
    rcases ht with h | ⟨c, r, h, _, h2⟩
    · exact Or.inl h
    · exact Or.inr ⟨c, r, h, h2⟩
  rw [Num.render_eq] at hlen ⊢
  rw [← hval, ← Num.val_magVal]
  unfold learnedStyle
  cases hsuf : ci.style.suffixed with
  | true =>
    simp only [if_true]
    simp only [List.append_assoc]
    exact parse_suffix dcOf _ _ _ _ _ _ sym tail hs hine hi hf hsym hG hlen ht1
  | false =>
    simp only [Bool.false_eq_true, if_false]
    simp only [List.append_assoc]
    exact parse_prefix dcOf _ _ _ _ _ _ sym tail hs hine hi hf hsym hG hlen ht2

/-! ## a number without commodity -/

theorem parse_plain (dcOf : Text → Bool) (sgn ints frac : Text) (thou dc : Bool)
    (hs : sgn = [] ∨ sgn = ['-']) (hine : ints ≠ [])
    (hi : ∀ c ∈ ints, isDigit c = true) (hf : ∀ c ∈ frac, isDigit c = true)
    (hG : dcOf [] = dc ∨ (dcOf [] = false ∧ frac.length % 3 ≠ 0))
    (hlen : (numText sgn ints frac thou dc).length ≤ Gen.quantityBufMax) :
    parseAmount dcOf (numText sgn ints frac thou dc) =
      .ok { q := if sgn = ['-'] then -(magVal ints frac) else magVal ints frac,
            prec := frac.length, sym := [],
            flags := { thousands := thou && decide (ints.length ≥ 4), decimalComma := dc },
            rest := [] } := by
  obtain ⟨hBq, hBl, ⟨bh, br, hBh, hbhd⟩⟩ := numText_body ints frac thou dc hine hi hf
  have hlenB : ([] ++ numText [] ints frac thou dc).length ≤ Gen.quantityBufMax := by
    rw [numText_sgn] at hlen
    simp only [List.length_append, List.nil_append] at hlen ⊢
    omega
  have hPQ := parseQuantity_body [] [] (numText [] ints frac thou dc) [] (by simp) (Or.inl rfl) hBq hBl hlenB (Or.inl rfl)
  simp only [List.nil_append, List.append_nil] at hPQ
  have hB0 : StopsAt isSpace (numText [] ints frac thou dc) := by
    right; exact ⟨bh, br, hBh, digit_not_space hbhd⟩
  have hBd : startsDigit (numText [] ints frac thou dc) = true := by rw [hBh]; exact hbhd
  have hBm : startsMinus (numText [] ints frac thou dc) = false := by
    rw [hBh, startsMinus_cons]; simp [digit_not_minus hbhd]
  rw [numText_sgn]
  unfold parseAmount
  rcases hs with rfl | rfl
  · simp only [List.nil_append, skipWs_of_head _ hB0, hBm, Bool.false_eq_true, if_false, hBd, if_true, hPQ]
    have := finish_numText [] ints frac thou dc (dcOf []) false [] {} [] (Or.inl rfl) hine hi hf hG
    rw [this]; simp
  · have hS0 : StopsAt isSpace (['-'] ++ numText [] ints frac thou dc) := by
      right; exact ⟨'-', _, rfl, by decide⟩
    have hSm : startsMinus (['-'] ++ numText [] ints frac thou dc) = true := rfl
    have hdrop : (['-'] ++ numText [] ints frac thou dc).drop 1 = numText [] ints frac thou dc := by simp
    simp only [skipWs_of_head _ hS0, hSm, if_true, hdrop, skipWs_of_head _ hB0, hBd, hPQ]
    have := finish_numText [] ints frac thou dc (dcOf []) true [] {} [] (Or.inl rfl) hine hi hf hG
    rw [this]; simp

/-! ## learning -/

theorem migrate_noMigrate (c : CommInfo) (p : Parsed) : (migrate c p).noMigrate = c.noMigrate := by
  unfold migrate; split <;> simp_all

theorem learnAll_fixed (c : CommInfo) (ps : List Parsed) (h : c.noMigrate = true) : learnAll c ps = c := by
  induction ps generalizing c with
  | nil => rfl
  | cons p ps ih =>
    have : migrate c p = c := by unfold migrate; simp [h]
    simp only [learnAll, List.foldl_cons, this]
    exact ih c h

theorem learnAll_cons (c : CommInfo) (p : Parsed) (ps : List Parsed) :
    learnAll c (p :: ps) = learnAll (migrate c p) ps := rfl

theorem migrate_prec (c : CommInfo) (p : Parsed) (h : c.noMigrate = false) :
    (migrate c p).prec = max c.prec p.prec := by
  unfold migrate; simp [h]

theorem learnAll_prec_ge (c : CommInfo) (ps : List Parsed) (h : c.noMigrate = false) :
    c.prec ≤ (learnAll c ps).prec ∧ ∀ p ∈ ps, p.prec ≤ (learnAll c ps).prec := by
  induction ps generalizing c with
  | nil => exact ⟨Nat.le_refl _, by simp⟩
  | cons p ps ih =>
    have hm : (migrate c p).noMigrate = false := by rw [migrate_noMigrate]; exact h
    obtain ⟨h1, h2⟩ := ih (migrate c p) hm
    rw [migrate_prec c p h] at h1
    rw [learnAll_cons]
    refine ⟨by omega, ?_⟩
    intro x hx
    simp only [List.mem_cons] at hx
    rcases hx with rfl | hx
    · omega
    · exact h2 x hx

theorem learnAll_prec_attained (c : CommInfo) (ps : List Parsed) (h : c.noMigrate = false) :
    (learnAll c ps).prec = c.prec ∨ ∃ p ∈ ps, (learnAll c ps).prec = p.prec := by
  induction ps generalizing c with
  | nil => exact Or.inl rfl
  | cons p ps ih =>
    have hm : (migrate c p).noMigrate = false := by rw [migrate_noMigrate]; exact h
    rw [learnAll_cons]
    rcases ih (migrate c p) hm with h1 | ⟨x, hx, h1⟩
    · rw [migrate_prec c p h] at h1
      by_cases hc : p.prec ≤ c.prec
      · left; rw [h1]; omega
      · right; exact ⟨p, by simp, by rw [h1]; omega⟩
    · right; exact ⟨x, by simp [hx], h1⟩

theorem learnAll_style (c : CommInfo) (ps : List Parsed) (h : c.noMigrate = false) :
    (learnAll c ps).style = ps.foldl (fun s p => s.union p.flags) c.style := by
  induction ps generalizing c with
  | nil => rfl
  | cons p ps ih =>
    have hm : (migrate c p).noMigrate = false := by rw [migrate_noMigrate]; exact h
    rw [learnAll_cons, ih _ hm]
    simp only [List.foldl_cons]
    congr 1
    unfold migrate; simp [h]

/-! ## amount_t::is_zero -/

theorem decVal_all_zero (s : Text) (h : ∀ c ∈ s, c = '0') : decVal s = 0 := by
  induction s with
  | nil => rfl
  | cons c s ih =>
    have hc := h c (by simp)
    have hr : ∀ x ∈ s, x = '0' := fun x hx => h x (by simp [hx])
    have e : c :: s = [c] ++ s := rfl
    rw [e, decVal_append, decVal_singleton, ih hr, hc]
    simp [digitVal]

theorem fracVal_all_zero (s : Text) (h : ∀ c ∈ s, c = '0') : fracVal s = 0 := by
  unfold fracVal
  rw [decVal_all_zero s h]
  simp [Rat.div_def, Rat.zero_mul]

theorem zero_of_digit_test {c : Char} (hd : isDigit c = true)
    (ht : (c = '0' || c = '.' || c = '-') = true) : c = '0' := by
  have hs := isDigit_not_sep hd
  obtain ⟨_, h2⟩ := isSep_false_iff.mp hs
  have h3 : c ≠ '-' := by intro e; subst e; revert hd; decide
  simp only [Bool.or_eq_true, decide_eq_true_eq] at ht
  rcases ht with (h | h) | h
  · exact h
  · exact absurd h h2
  · exact absurd h h3

/-- the print-and-scan test of is_zero passes only when the printed value is zero. -/
theorem plain_test_sound (n : Num) (hi : ∀ c ∈ n.int, isDigit c = true) (hf : ∀ c ∈ n.frac, isDigit c = true)
    (h : n.plain.all (fun c => c = '0' || c = '.' || c = '-') = true) : n.val = 0 := by
  have hall := List.all_eq_true.mp h
  have hint : ∀ c ∈ n.int, c = '0' := by
    intro c hc
    apply zero_of_digit_test (hi c hc)
    apply hall c
    unfold Num.plain
    simp [hc]
  have hfr : ∀ c ∈ n.frac, c = '0' := by
    intro c hc
    apply zero_of_digit_test (hf c hc)
    apply hall c
    unfold Num.plain
    have hne : n.frac ≠ [] := by intro e; rw [e] at hc; simp at hc
    simp [hne, hc]
  rw [Num.val_eq, decVal_all_zero _ hint, fracVal_all_zero _ hfr]
  split <;> grind

theorem roundTo_zero (p : Nat) : Amount.roundTo 0 p = 0 := by
  apply roundTo_id_aux 0 p 0
  simp [Rat.zero_mul]

theorem isZeroAmt_sound (hasComm : Bool) (cp : Nat) (q : Rat) (ap : Nat) (keep : Bool)
    (h : isZeroAmt hasComm cp q ap keep = true) :
    Amount.roundTo q (displayPrec hasComm cp ap keep) = 0 := by
  unfold isZeroAmt at h
  cases hasComm with
  | false =>
    simp only [Bool.false_eq_true, if_false, decide_eq_true_eq] at h
    rw [h]; exact roundTo_zero _
  | true =>
    simp only [if_true] at h
    by_cases hk : keep = true ∨ ap ≤ cp
    · rw [if_pos hk] at h
      have : q = 0 := by simpa using h
      rw [this]; exact roundTo_zero _
    · rw [if_neg hk] at h
      have hkf : keep = false := by
        cases keep with
        | true => exact absurd (Or.inl rfl) hk
        | false => rfl
      have hdp : displayPrec true cp ap keep = cp := by simp [displayPrec, hkf]
      rw [hdp]
      by_cases hq : q = 0
      · rw [hq]; exact roundTo_zero _
      · rw [if_neg hq] at h
        by_cases hgt : q.num > (q.den : Int)
        · rw [if_pos hgt] at h; cases h
        · rw [if_neg hgt] at h
          rw [← fmtNum_val q cp none]
          exact plain_test_sound _ (fmtNum_int_digits q cp none).2 (fmtNum_frac_digits q cp none) h

theorem fracDigits_zero (p : Nat) : ∀ c ∈ fracDigits 0 p, c = '0' := by
  induction p with
  | zero => simp [fracDigits]
  | succ p ih =>
    intro c hc
    simp only [fracDigits, Nat.zero_div, List.mem_append, List.mem_singleton] at hc
    rcases hc with hc | hc
    · exact ih c hc
    · rw [hc]; rfl

/-- a value above one never rounds to zero. -/
theorem roundUnits_pos_of_gt_one (q : Rat) (p : Nat) (h : q.num > (q.den : Int)) :
    0 < Amount.roundUnits q p := by
  have hd : (0 : Int) < (q.den : Int) := by have := q.den_pos; omega
  have hb := (roundDiv_bounds (q.num * (10 : Int) ^ p) q.den hd).2
  rw [← Amount.roundUnits_eq] at hb
  have hT : (1 : Int) ≤ (10 : Int) ^ p := Int.pow_pos (by decide)
  have hn : q.num * 1 ≤ q.num * (10 : Int) ^ p := Int.mul_le_mul_of_nonneg_left hT (by omega)
  generalize Amount.roundUnits q p = u at *
  generalize q.num * (10 : Int) ^ p = n at *
  rcases Int.lt_or_le 0 u with hu | hu
  · exact hu
  · have : u * (q.den : Int) ≤ 0 * (q.den : Int) := Int.mul_le_mul_of_nonneg_right hu (by omega)
    omega

theorem isZeroAmt_complete (cp : Nat) (q : Rat) (ap : Nat) (hlt : cp < ap)
    (hr : Amount.roundTo q cp = 0) : isZeroAmt true cp q ap false = true := by
  have hu : Amount.roundUnits q cp = 0 := by
    have := roundTo_mul_pow q cp
    rw [hr, Rat.zero_mul] at this
    exact (Rat.intCast_eq_zero_iff.mp this.symm)
  unfold isZeroAmt
  have hk : ¬ (false = true ∨ ap ≤ cp) := by
    intro h
    rcases h with h | h
    · cases h
    · omega
  simp only [if_true, if_neg hk]
  by_cases hq : q = 0
  · rw [if_pos hq]
  · rw [if_neg hq]
    by_cases hgt : q.num > (q.den : Int)
    · have := roundUnits_pos_of_gt_one q cp hgt
      omega
    · rw [if_neg hgt]
      apply List.all_eq_true.mpr
      intro c hc
      unfold fmtNum Num.plain at hc
      simp only [hu, Int.natAbs_zero, Nat.zero_div, Nat.zero_mod] at hc
      have hint : intDigits 0 = ['0'] := by rw [intDigits]; rfl
      rw [hint] at hc
      simp only [List.mem_append, List.mem_singleton] at hc
      rcases hc with (hc | hc) | hc
      · split at hc
        · simp only [List.mem_singleton] at hc; rw [hc]; rfl
        · simp at hc
      · rw [hc]; rfl
      · split at hc
        · simp at hc
        · simp only [List.mem_cons] at hc
          rcases hc with hc | hc
          · rw [hc]; rfl
          · rw [fracDigits_zero cp c hc]; rfl

end Ledger.AmountText
