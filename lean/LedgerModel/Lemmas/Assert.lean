/-
Helper lemmas behind Props/C09: well-formedness (`WF`: one entry per commodity)
and exactness (`fine`: the precision counter does not exceed the display
precision, so `is_zero` is exact) of the balances the `= AMOUNT` block builds,
their denotations, and the per-account file-order specification.
-/
import LedgerModel.Model.Assert
import LedgerModel.Lemmas.Value

namespace Ledger.Assert

/-! ### exactness of `is_zero` -/

/-- `amount_t::is_zero` is exact for this amount: no commodity, or a precision
    counter within the commodity's display precision (true of every parsed amount,
    since parsing raises the display precision to the written one). -/
def fine (env : PrecEnv) (a : Amount) : Prop := a.hasComm = false ∨ a.prec ≤ env a.comm

def BFine (env : PrecEnv) (b : Balance) : Prop := ∀ x ∈ b, fine env x

/-- one entry per commodity (what `amounts_map` guarantees) -/
def WF (b : Balance) : Prop := (b.map (·.comm)).Nodup

theorem isZero_of_fine {env : PrecEnv} {a : Amount} (h : fine env a) :
    Amount.isZero env a = decide (a.q = 0) := by
  unfold Amount.isZero
  rcases h with h | h
  · simp [h]
  · by_cases hc : a.hasComm = true
    · simp [hc, h]
    · simp [hc]

theorem fine_neg {env : PrecEnv} {a : Amount} (h : fine env a) : fine env a.neg := h

theorem fine_zeroLike {env : PrecEnv} {a : Amount} (h : fine env a) : fine env (zeroLike a) := h

theorem hasComm_eq_of_comm {a b : Amount} (h : a.comm = b.comm) : a.hasComm = b.hasComm := by
  simp [Amount.hasComm, h]

theorem fine_merge {env : PrecEnv} {x a : Amount} (q : Rat) (hx : fine env x) (ha : fine env a)
    (hc : x.comm = a.comm) : fine env { x with q := q, prec := max x.prec a.prec } := by
  rcases hx with hx | hx
  · exact Or.inl hx
  · rcases ha with ha | ha
    · left
      have h2 : x.hasComm = false := by rw [hasComm_eq_of_comm hc]; exact ha
      simpa [Amount.hasComm] using h2
    · right
      show max x.prec a.prec ≤ env x.comm
      rw [hc] at hx ⊢
      exact Nat.max_le.mpr ⟨hx, ha⟩

/-! ### denotation and well-formedness -/

theorem den_eq_zero_of_not_mem (b : Balance) (c : Comm) (h : c ∉ b.map (·.comm)) : b.den c = 0 := by
  induction b with
  | nil => rfl
  | cons x xs ih =>
    simp only [List.map_cons, List.mem_cons, not_or] at h
    simp only [Balance.den_cons, Amount.den]
    rw [ih h.2]
    have : ¬ x.comm = c := fun e => h.1 e.symm
    simp only [this, if_false]; grind

theorem den_of_mem {b : Balance} (hw : WF b) {x : Amount} (hx : x ∈ b) : b.den x.comm = x.q := by
  induction b with
  | nil => cases hx
  | cons y ys ih =>
    simp only [WF, List.map_cons, List.nodup_cons] at hw
    simp only [Balance.den_cons]
    rcases List.mem_cons.mp hx with rfl | hx'
    · rw [den_eq_zero_of_not_mem ys _ hw.1]; simp only [Amount.den, if_true]; grind
    · have hne : ¬ y.comm = x.comm := by
        intro e; apply hw.1; rw [e]; exact List.mem_map.mpr ⟨x, hx', rfl⟩
      rw [ih hw.2 hx']; simp only [Amount.den, hne, if_false]; grind

theorem find?_some {b : Balance} {c : Comm} {w : Amount} (h : b.find? c = some w) : w ∈ b ∧ w.comm = c := by
  unfold Balance.find? at h
  exact ⟨List.mem_of_find?_eq_some h, by simpa using List.find?_some h⟩

theorem find?_none {b : Balance} {c : Comm} (h : b.find? c = none) : c ∉ b.map (·.comm) := by
  unfold Balance.find? at h
  intro hm
  obtain ⟨x, hx, rfl⟩ := List.mem_map.mp hm
  have := List.find?_eq_none.mp h x hx
  simp at this

theorem den_all_zero (b : Balance) (h : ∀ x ∈ b, x.q = 0) (c : Comm) : b.den c = 0 := by
  induction b with
  | nil => rfl
  | cons x xs ih =>
    simp only [Balance.den_cons, Amount.den]
    rw [ih (fun y hy => h y (List.mem_cons_of_mem _ hy)), h x List.mem_cons_self]
    split <;> grind

/-- `balance_t::is_zero` on a well-formed, exact balance: every commodity is zero. -/
theorem balIsZero_iff {env : PrecEnv} {b : Balance} (hw : WF b) (hf : BFine env b) :
    balIsZero env b = true ↔ ∀ c, b.den c = 0 := by
  unfold balIsZero
  rw [List.all_eq_true]
  constructor
  · intro h c
    apply den_all_zero
    intro x hx
    have := h x hx
    rw [isZero_of_fine (hf x hx)] at this
    simpa using this
  · intro h x hx
    rw [isZero_of_fine (hf x hx)]
    have := h x.comm
    rw [den_of_mem hw hx] at this
    simpa using this

theorem WF_nil : WF [] := by simp [WF]
theorem WF_single (a : Amount) : WF [a] := by simp [WF]

theorem WF_ofAmt (a : Amount) : WF (Balance.ofAmt a) := by
  unfold Balance.ofAmt; split
  · exact WF_nil
  · exact WF_single a

theorem BFine_ofAmt {env : PrecEnv} {a : Amount} (h : fine env a) : BFine env (Balance.ofAmt a) := by
  unfold Balance.ofAmt; split
  · intro x hx; cases hx
  · intro x hx; simp at hx; subst hx; exact h

theorem comms_subGo (b : Balance) (a : Amount) (c : Comm) (h : c ∈ (Balance.subGo b a).map (·.comm)) :
    c ∈ b.map (·.comm) ∨ c = a.comm := by
  induction b with
  | nil => simp [Balance.subGo, Amount.neg] at h; exact Or.inr h
  | cons x xs ih =>
    unfold Balance.subGo at h
    split at h
    · split at h
      · left; exact List.mem_cons_of_mem _ h
      · left; simpa using h
    · simp only [List.map_cons, List.mem_cons] at h ⊢
      rcases h with h | h
      · exact Or.inl (Or.inl h)
      · rcases ih h with h | h
        · exact Or.inl (Or.inr h)
        · exact Or.inr h

theorem WF_subGo {b : Balance} (hw : WF b) (a : Amount) : WF (Balance.subGo b a) := by
  induction b with
  | nil => simp [Balance.subGo, WF]
  | cons x xs ih =>
    simp only [WF, List.map_cons, List.nodup_cons] at hw
    unfold Balance.subGo
    split
    · split
      · exact hw.2
      · simp only [WF, List.map_cons, List.nodup_cons]; exact hw
    · rename_i hne
      simp only [WF, List.map_cons, List.nodup_cons]
      refine ⟨?_, ih hw.2⟩
      intro hm
      rcases comms_subGo xs a _ hm with h | h
      · exact hw.1 h
      · exact hne h

theorem BFine_subGo {env : PrecEnv} {b : Balance} (hb : BFine env b) {a : Amount} (ha : fine env a) :
    BFine env (Balance.subGo b a) := by
  induction b with
  | nil => intro x hx; simp [Balance.subGo] at hx; subst hx; exact fine_neg ha
  | cons x xs ih =>
    have hx : fine env x := hb x List.mem_cons_self
    have hxs : BFine env xs := fun y hy => hb y (List.mem_cons_of_mem _ hy)
    unfold Balance.subGo
    split
    · rename_i hc
      split
      · exact hxs
      · intro y hy
        rcases List.mem_cons.mp hy with rfl | hy
        · exact fine_merge _ hx ha hc
        · exact hxs y hy
    · intro y hy
      rcases List.mem_cons.mp hy with rfl | hy
      · exact hx
      · exact ih hxs y hy

theorem WF_subAmt {b : Balance} (hw : WF b) (a : Amount) : WF (Balance.subAmt b a) := by
  unfold Balance.subAmt; split
  · exact hw
  · exact WF_subGo hw a

theorem BFine_subAmt {env : PrecEnv} {b : Balance} (hb : BFine env b) {a : Amount} (ha : fine env a) :
    BFine env (Balance.subAmt b a) := by
  unfold Balance.subAmt; split
  · exact hb
  · exact BFine_subGo hb ha

theorem WF_sub {d : Balance} (hw : WF d) (b : Balance) : WF (Balance.sub d b) := by
  unfold Balance.sub
  induction b generalizing d with
  | nil => exact hw
  | cons x xs ih => exact ih (WF_subAmt hw x)

theorem BFine_sub {env : PrecEnv} {d : Balance} (hd : BFine env d) {b : Balance} (hb : BFine env b) :
    BFine env (Balance.sub d b) := by
  unfold Balance.sub
  induction b generalizing d with
  | nil => exact hd
  | cons x xs ih =>
    exact ih (BFine_subAmt hd (hb x List.mem_cons_self)) (fun y hy => hb y (List.mem_cons_of_mem _ hy))

theorem BFine_addGo {env : PrecEnv} {b : Balance} (hb : BFine env b) {a : Amount} (ha : fine env a) :
    BFine env (Balance.addGo b a) := by
  induction b with
  | nil => intro x hx; simp [Balance.addGo] at hx; subst hx; exact ha
  | cons x xs ih =>
    have hx : fine env x := hb x List.mem_cons_self
    have hxs : BFine env xs := fun y hy => hb y (List.mem_cons_of_mem _ hy)
    unfold Balance.addGo
    split
    · rename_i hc
      intro y hy
      rcases List.mem_cons.mp hy with rfl | hy
      · exact fine_merge _ hx ha hc
      · exact hxs y hy
    · intro y hy
      rcases List.mem_cons.mp hy with rfl | hy
      · exact hx
      · exact ih hxs y hy

theorem BFine_addAmt {env : PrecEnv} {b : Balance} (hb : BFine env b) {a : Amount} (ha : fine env a) :
    BFine env (Balance.addAmt b a) := by
  unfold Balance.addAmt; split
  · exact hb
  · exact BFine_addGo hb ha

end Ledger.Assert

namespace Ledger.Assert

/-! ### the account total -/

theorem qtyIn_eq_den (c : Comm) (a : Amount) : qtyIn c a = a.den c := rfl

/-- VOID, AMOUNT or BALANCE -/
def Num : Value → Prop
  | .void => True
  | .amt _ => True
  | .bal _ => True
  | _ => False

def VFine (env : PrecEnv) : Value → Prop
  | .amt a => fine env a
  | .bal b => BFine env b
  | _ => True

theorem accAdd_void (a : Amount) : accAdd .void a = .amt a := rfl

theorem accAdd_bal (b : Balance) (a : Amount) : accAdd (.bal b) a = .bal (Balance.addAmt b a) := rfl

theorem accAdd_amt_ne (x a : Amount) (h : x.comm ≠ a.comm) :
    accAdd (.amt x) a = .bal (Balance.addAmt (Balance.ofAmt x) a) := by
  simp [accAdd, Value.add, h]

theorem accAdd_amt_eq (x a : Amount) (h : x.comm = a.comm) :
    accAdd (.amt x) a = .amt { x with q := x.q + a.q, prec := max x.prec a.prec } := by
  have hh : x.hasComm = a.hasComm := hasComm_eq_of_comm h
  simp [accAdd, Value.add, h, Amount.add, hh, Except.map]

theorem accAdd_spec {env : PrecEnv} (v : Value) (a : Amount) (hv : Num v) (c : Comm) :
    (accAdd v a).den c = v.den c + a.den c ∧ Num (accAdd v a) ∧
      (VFine env v → fine env a → VFine env (accAdd v a)) := by
  cases v with
  | void => rw [accAdd_void]; refine ⟨?_, trivial, fun _ h => h⟩; simp only [Value.den]; grind
  | bool b => cases hv
  | int n => cases hv
  | amt x =>
    by_cases h : x.comm = a.comm
    · rw [accAdd_amt_eq x a h]
      refine ⟨?_, trivial, fun hx ha => fine_merge _ hx ha h⟩
      simp only [Value.den, Amount.den, h]; split <;> grind
    · rw [accAdd_amt_ne x a h]
      refine ⟨?_, trivial, fun hx ha => BFine_addAmt (BFine_ofAmt hx) ha⟩
      simp only [Value.den, Balance.addAmt_den, Balance.den_ofAmt]
  | bal b =>
    rw [accAdd_bal]
    refine ⟨?_, trivial, fun hb ha => BFine_addAmt hb ha⟩
    simp only [Value.den, Balance.addAmt_den]

theorem foldl_accAdd_spec {env : PrecEnv} (l : List Amount) (v : Value) (hv : Num v) (c : Comm) :
    (l.foldl accAdd v).den c = v.den c + sumQty c l ∧ Num (l.foldl accAdd v) ∧
      (VFine env v → (∀ a ∈ l, fine env a) → VFine env (l.foldl accAdd v)) := by
  induction l generalizing v with
  | nil => refine ⟨?_, hv, fun h _ => h⟩; simp only [List.foldl_nil, sumQty]; grind
  | cons a l ih =>
    obtain ⟨h1, h2, h3⟩ := accAdd_spec (env := env) v a hv c
    obtain ⟨i1, i2, i3⟩ := ih (accAdd v a) h2
    refine ⟨?_, i2, fun hf hl => i3 (h3 hf (hl a List.mem_cons_self)) (fun b hb => hl b (List.mem_cons_of_mem _ hb))⟩
    simp only [List.foldl_cons, i1, h1, sumQty, qtyIn_eq_den]; grind

theorem counted_eq (acct : String) (v : Bool) :
    counted acct (!v) = fun e => (decide (e.account = acct) && specCounts v e.virt) := by
  funext e; simp [counted, specCounts]

def FineLog (env : PrecEnv) (log : List Entry) : Prop := ∀ e ∈ log, fine env e.amt

def FinePosts (env : PrecEnv) (ps : List Posting) : Prop := ∀ p ∈ ps, ∀ a, p.amount = some a → fine env a

/-- account_t::amount(real_only) is the specification's sum over the log. -/
theorem accTotal_spec {env : PrecEnv} (log : List Entry) (acct : String) (v : Bool) (c : Comm) :
    (accTotal log acct (!v)).den c = sumQty c (specLogAmounts log acct v) ∧ Num (accTotal log acct (!v)) ∧
      (FineLog env log → VFine env (accTotal log acct (!v))) := by
  unfold accTotal specLogAmounts
  rw [counted_eq]
  obtain ⟨h1, h2, h3⟩ := foldl_accAdd_spec (env := env)
    ((log.filter (fun e => (decide (e.account = acct) && specCounts v e.virt))).map Entry.amt) .void trivial c
  refine ⟨?_, h2, fun hl => h3 trivial ?_⟩
  · rw [h1]; simp only [Value.den]; grind
  · intro a ha
    obtain ⟨e, he, rfl⟩ := List.mem_map.mp ha
    exact hl e (List.mem_filter.mp he).1

theorem subTotal_spec {env : PrecEnv} (d : Balance) (v : Value) (hv : Num v) (c : Comm) :
    (subTotal d v).den c = d.den c - v.den c ∧ (WF d → WF (subTotal d v)) ∧
      (BFine env d → VFine env v → BFine env (subTotal d v)) := by
  cases v with
  | void => refine ⟨?_, id, fun h _ => h⟩; simp only [subTotal, Value.den]; grind
  | bool b => cases hv
  | int n => cases hv
  | amt a =>
    exact ⟨by simp only [subTotal, Value.den, Balance.subAmt_den], fun h => WF_subAmt h a,
      fun hd ha => BFine_subAmt hd ha⟩
  | bal b =>
    exact ⟨by simp only [subTotal, Value.den, Balance.sub_den], fun h => WF_sub h b,
      fun hd hb => BFine_sub hd hb⟩

/-! ### the earlier postings of the same transaction -/

/-- amounts the code subtracts for the earlier postings of the transaction -/
def codeEarlierAmounts (f1 : Bool) (earlier : List Posting) (acct : String) (v : Bool) : List Amount :=
  (earlier.filter (fun p => p.account = acct && sameXactCounts f1 v (virt p))).filterMap (·.amount)

theorem subEarlier_spec {env : PrecEnv} (f1 : Bool) (acct : String) (v : Bool) (c : Comm)
    (ps : List Posting) (d d2 : Balance) (h : subEarlier f1 d acct v ps = .ok d2) :
    d2.den c = d.den c - sumQty c (codeEarlierAmounts f1 ps acct v) ∧ (WF d → WF d2) ∧
      (BFine env d → FinePosts env ps → BFine env d2) := by
  induction ps generalizing d with
  | nil =>
    simp only [subEarlier] at h; cases h
    refine ⟨?_, id, fun h _ => h⟩
    simp only [codeEarlierAmounts, List.filter_nil, List.filterMap_nil, sumQty]; grind
  | cons p ps ih =>
    unfold subEarlier at h
    by_cases hp : p.account = acct ∧ sameXactCounts f1 v (virt p) = true
    · rw [if_pos hp] at h
      cases ha : p.amount with
      | none => rw [ha] at h; cases h
      | some a =>
        rw [ha] at h
        obtain ⟨i1, i2, i3⟩ := ih _ h
        have hf : (decide (p.account = acct) && sameXactCounts f1 v (virt p)) = true := by simp [hp.1, hp.2]
        refine ⟨?_, fun hw => i2 (WF_subAmt hw a), fun hd hps =>
          i3 (BFine_subAmt hd (hps p List.mem_cons_self a ha)) (fun q hq => hps q (List.mem_cons_of_mem _ hq))⟩
        rw [i1, Balance.subAmt_den]
        simp only [codeEarlierAmounts, List.filter_cons, hf, if_true, List.filterMap_cons, ha, sumQty, qtyIn_eq_den]
        grind
    · rw [if_neg hp] at h
      obtain ⟨i1, i2, i3⟩ := ih _ h
      have hf : (decide (p.account = acct) && sameXactCounts f1 v (virt p)) = false := by
        by_cases h1 : p.account = acct
        · have : sameXactCounts f1 v (virt p) = false := by
            cases hs : sameXactCounts f1 v (virt p) with
            | false => rfl
            | true => exact absurd ⟨h1, hs⟩ hp
          simp [this]
        · simp [h1]
      refine ⟨?_, i2, fun hd hps => i3 hd (fun q hq => hps q (List.mem_cons_of_mem _ hq))⟩
      rw [i1]
      simp only [codeEarlierAmounts, List.filter_cons, hf]
      rfl

/-- no earlier posting of the transaction to this account is still without an amount -/
def NoElidedEarlier (earlier : List Posting) (acct : String) : Prop :=
  ∀ p ∈ earlier, p.account = acct → p.amount.isSome = true

theorem subEarlier_ok (f1 : Bool) (acct : String) (v : Bool) (ps : List Posting) (d : Balance)
    (hn : NoElidedEarlier ps acct) : ∃ d2, subEarlier f1 d acct v ps = .ok d2 := by
  induction ps generalizing d with
  | nil => exact ⟨d, rfl⟩
  | cons p ps ih =>
    have hn' : NoElidedEarlier ps acct := fun q hq => hn q (List.mem_cons_of_mem _ hq)
    unfold subEarlier
    by_cases hp : p.account = acct ∧ sameXactCounts f1 v (virt p) = true
    · rw [if_pos hp]
      have := hn p List.mem_cons_self hp.1
      cases ha : p.amount with
      | none => rw [ha] at this; cases this
      | some a => exact ih _ hn'
    · rw [if_neg hp]; exact ih _ hn'

/-- The guard of the `_partial` theorems, first half: the asserting posting is
    ordinary, or no earlier ORDINARY posting of the same transaction goes to the
    same account — or the source already counts those (`f1`). -/
def guardVirt (f1 : Bool) (earlier : List Posting) (p : Posting) : Bool :=
  f1 || !virt p || earlier.all (fun e => !(decide (e.account = p.account) && !virt e))

theorem codeEarlier_eq_spec (f1 : Bool) (earlier : List Posting) (p : Posting)
    (hg : guardVirt f1 earlier p = true) :
    codeEarlierAmounts f1 earlier p.account (virt p) = specEarlierAmounts earlier p.account (virt p) := by
  unfold codeEarlierAmounts specEarlierAmounts
  congr 1
  apply List.filter_congr
  intro e he
  by_cases ha : e.account = p.account
  · simp only [ha, decide_true, Bool.true_and]
    unfold sameXactCounts specCounts
    cases f1 with
    | true => rfl
    | false =>
      simp only [guardVirt, Bool.false_or, Bool.or_eq_true, Bool.not_eq_true', List.all_eq_true] at hg
      cases hv : virt p with
      | false => cases virt e <;> rfl
      | true =>
        rcases hg with hg | hg
        · rw [hv] at hg; cases hg
        · have := hg e he
          simp [ha] at this
          simp [this]
  · simp [ha]

/-! ### restriction to the asserted commodity -/

theorem restrict_spec {env : PrecEnv} (d : Balance) (amt : Amount) (hw : WF d) (c : Comm) :
    (restrict d amt).den c =
      (if amt.hasComm then (if c = amt.comm then d.den c else 0) else d.den c) ∧
    WF (restrict d amt) ∧ (BFine env d → BFine env (restrict d amt)) := by
  unfold restrict
  by_cases hc : amt.hasComm = true
  · simp only [hc, if_true]
    cases hf : d.find? amt.comm with
    | none =>
      refine ⟨?_, WF_nil, fun _ x hx => by cases hx⟩
      have := den_eq_zero_of_not_mem d amt.comm (find?_none hf)
      by_cases hcc : c = amt.comm
      · subst hcc; simp [this]
      · simp [hcc]
    | some w =>
      obtain ⟨hm, hwc⟩ := find?_some hf
      refine ⟨?_, WF_ofAmt w, fun hd => BFine_ofAmt (hd w hm)⟩
      rw [Balance.den_ofAmt]
      by_cases hcc : c = amt.comm
      · subst hcc; simp only [if_true, Amount.den, hwc]; rw [← hwc, den_of_mem hw hm]
      · have : ¬ w.comm = c := by rw [hwc]; exact fun e => hcc e.symm
        simp [Amount.den, this, hcc]
  · simp only [hc]
    exact ⟨rfl, hw, id⟩

end Ledger.Assert
