/-
The refinement behind Props/C09: the `diff` the `= AMOUNT` block computes is
AMOUNT minus the per-account file-order specification, and what follows for the
assertion and the assignment branch (for any reading of the two interpreted
statements, under the two guards).
-/
import LedgerModel.Lemmas.Assert

namespace Ledger.Assert

/-! ### the refinement: code path = specification -/

/-- `diff` after the account total and the earlier postings of the transaction:
    AMOUNT minus the specification's running balance, in every commodity. -/
theorem codeDiff_spec {env : PrecEnv} (f1 : Bool) (log : List Entry) (earlier : List Posting) (p : Posting)
    (amt : Amount) (d2 : Balance)
    (h : codeDiff f1 log earlier p.account (virt p) amt = .ok d2) :
    (guardVirt f1 earlier p = true → ∀ c, d2.den c = amt.den c - specRunning c log earlier p.account (virt p)) ∧
      WF d2 ∧ (FineLog env log → FinePosts env earlier → fine env amt → BFine env d2) := by
  unfold codeDiff at h
  refine ⟨fun hg c => ?_, ?_, fun hl hp ha => ?_⟩
  · obtain ⟨t1, t2, _⟩ := accTotal_spec (env := env) log p.account (virt p) c
    obtain ⟨s1, _, _⟩ := subTotal_spec (env := env) (Balance.ofAmt amt) _ t2 c
    obtain ⟨e1, _, _⟩ := subEarlier_spec (env := env) f1 p.account (virt p) c earlier _ d2 h
    rw [e1, s1, t1, Balance.den_ofAmt, codeEarlier_eq_spec f1 earlier p hg]
    unfold specRunning; grind
  · obtain ⟨_, t2, _⟩ := accTotal_spec (env := env) log p.account (virt p) ""
    obtain ⟨_, s2, _⟩ := subTotal_spec (env := env) (Balance.ofAmt amt) _ t2 ""
    obtain ⟨_, e2, _⟩ := subEarlier_spec (env := env) f1 p.account (virt p) "" earlier _ d2 h
    exact e2 (s2 (WF_ofAmt amt))
  · obtain ⟨_, t2, t3⟩ := accTotal_spec (env := env) log p.account (virt p) ""
    obtain ⟨_, _, s3⟩ := subTotal_spec (env := env) (Balance.ofAmt amt) _ t2 ""
    obtain ⟨_, _, e3⟩ := subEarlier_spec (env := env) f1 p.account (virt p) "" earlier _ d2 h
    exact e3 (s3 (BFine_ofAmt ha) (t3 hl)) hp

theorem codeDiff_ok (f1 : Bool) (log : List Entry) (earlier : List Posting) (acct : String) (v : Bool)
    (amt : Amount) (hn : NoElidedEarlier earlier acct) : ∃ d2, codeDiff f1 log earlier acct v amt = .ok d2 :=
  subEarlier_ok f1 acct v earlier _ hn

/-- second half of the guard: the posting's own amount is in AMOUNT's commodity
    (or is zero) — or the source subtracts it before the restriction (`f2`). -/
def guardComm (f2 : Bool) (a amt : Amount) : Bool :=
  f2 || decide (a.comm = amt.comm) || decide (a.q = 0)

theorem den_other_zero {f2 : Bool} {a amt : Amount} (hg : guardComm f2 a amt = true) (hf : f2 = false)
    (c : Comm) (hc : ¬ c = amt.comm) : a.den c = 0 := by
  subst hf
  simp only [guardComm, Bool.false_or, Bool.or_eq_true, decide_eq_true_eq] at hg
  unfold Amount.den
  rcases hg with hg | hg
  · have : ¬ a.comm = c := by rw [hg]; exact fun e => hc e.symm
    simp [this]
  · simp [hg]

/-- what `is_zero` is asked about, commodity by commodity -/
theorem assertDiff_zero_iff {env : PrecEnv} (f2 : Bool) (d2 : Balance) (amt a : Amount)
    (hw : WF d2) (hf : BFine env d2) (ha : fine env a) (hg : amt.hasComm = true → guardComm f2 a amt = true) :
    balIsZero env (assertDiff f2 d2 amt a) = true ↔
      (if amt.hasComm then d2.den amt.comm - a.den amt.comm = 0 else ∀ c, d2.den c - a.den c = 0) := by
  unfold assertDiff
  cases hf2 : f2 with
  | true =>
    simp only [if_true]
    obtain ⟨_, rw2, rf⟩ := restrict_spec (env := env) (Balance.subAmt d2 a) amt (WF_subAmt hw a) ""
    rw [balIsZero_iff rw2 (rf (BFine_subAmt hf ha))]
    by_cases hc : amt.hasComm = true
    · simp only [hc, if_true]
      constructor
      · intro h
        have := h amt.comm
        rw [(restrict_spec (env := env) _ amt (WF_subAmt hw a) amt.comm).1] at this
        simpa [hc, Balance.subAmt_den] using this
      · intro h c
        rw [(restrict_spec (env := env) _ amt (WF_subAmt hw a) c).1]
        by_cases hcc : c = amt.comm
        · subst hcc; simpa [hc, Balance.subAmt_den] using h
        · simp [hc, hcc]
    · simp only [hc]
      constructor
      · intro h c
        have := h c
        rw [(restrict_spec (env := env) _ amt (WF_subAmt hw a) c).1] at this
        simpa [hc, Balance.subAmt_den] using this
      · intro h c
        rw [(restrict_spec (env := env) _ amt (WF_subAmt hw a) c).1]
        simpa [hc, Balance.subAmt_den] using h c
  | false =>
    simp only [Bool.false_eq_true, if_false]
    obtain ⟨_, rw2, rf⟩ := restrict_spec (env := env) d2 amt hw ""
    rw [balIsZero_iff (WF_subAmt rw2 a) (BFine_subAmt (rf hf) ha)]
    by_cases hc : amt.hasComm = true
    · simp only [hc, if_true]
      constructor
      · intro h
        have := h amt.comm
        rw [Balance.subAmt_den, (restrict_spec (env := env) d2 amt hw amt.comm).1] at this
        simpa [hc] using this
      · intro h c
        rw [Balance.subAmt_den, (restrict_spec (env := env) d2 amt hw c).1]
        by_cases hcc : c = amt.comm
        · subst hcc; simpa [hc] using h
        · rw [den_other_zero (hg hc) hf2 c hcc]; simp only [hc, hcc, if_true, if_false]; grind
    · simp only [hc]
      constructor
      · intro h c
        have := h c
        rw [Balance.subAmt_den, (restrict_spec (env := env) d2 amt hw c).1] at this
        simpa [hc] using this
      · intro h c
        rw [Balance.subAmt_den, (restrict_spec (env := env) d2 amt hw c).1]
        simpa [hc] using h c

/-- The assertion branch of the block, for any reading of the two interpreted
    statements, under the two guards. -/
theorem assert_core (f1 f2 : Bool) (cx : Ctx) (log : List Entry) (earlier : List Posting) (p : Posting)
    (a amt : Amount) (hperm : cx.permissive = false) (hpa : p.amount = some a) (hpas : p.assert = some amt)
    (hn : NoElidedEarlier earlier p.account)
    (hl : FineLog cx.env log) (hp : FinePosts cx.env earlier) (ha : fine cx.env a) (hamt : fine cx.env amt)
    (hg1 : guardVirt f1 earlier p = true) (hg2 : amt.hasComm = true → guardComm f2 a amt = true) :
    checkPostF f1 f2 cx log earlier p = .ok p ↔
      (if amt.hasComm then
          specRunning amt.comm log earlier p.account (virt p) + a.den amt.comm = amt.q
        else ∀ c, specRunning c log earlier p.account (virt p) + a.den c = amt.den c) := by
  obtain ⟨d2, hd⟩ := codeDiff_ok f1 log earlier p.account (virt p) amt hn
  obtain ⟨den2', w2, f2'⟩ := codeDiff_spec (env := cx.env) f1 log earlier p amt d2 hd
  have den2 := den2' hg1
  have hz := assertDiff_zero_iff (env := cx.env) f2 d2 amt a w2 (f2' hl hp hamt) ha hg2
  unfold checkPostF
  simp only [hpas, hd, hpa, hperm, Bool.not_false, Bool.true_and]
  have hsplit : (if (!balIsZero cx.env (assertDiff f2 d2 amt a)) = true then (Except.error AErr.assertOff : Except AErr Posting)
      else .ok p) = .ok p ↔ balIsZero cx.env (assertDiff f2 d2 amt a) = true := by
    cases balIsZero cx.env (assertDiff f2 d2 amt a) <;> simp
  rw [hsplit, hz]
  by_cases hc : amt.hasComm = true
  · simp only [hc, if_true, den2]
    have : amt.den amt.comm = amt.q := by simp [Amount.den]
    rw [this]; constructor <;> intro h <;> grind
  · simp only [hc]
    constructor
    · intro h c; have := h c; rw [den2] at this; grind
    · intro h c; rw [den2]; have := h c; grind

/-- The assignment branch: the posting receives exactly AMOUNT minus the running
    balance, in AMOUNT's commodity. -/
theorem assign_core (f1 f2 : Bool) (cx : Ctx) (log : List Entry) (earlier : List Posting) (p : Posting)
    (amt : Amount) (hpa : p.amount = none) (hpas : p.assert = some amt) (hc : amt.hasComm = true)
    (hn : NoElidedEarlier earlier p.account)
    (hl : FineLog cx.env log) (hp : FinePosts cx.env earlier) (hamt : fine cx.env amt)
    (hg1 : guardVirt f1 earlier p = true) :
    ∃ x, checkPostF f1 f2 cx log earlier p = .ok { p with amount := some x } ∧ x.comm = amt.comm ∧
      specRunning amt.comm log earlier p.account (virt p) + x.q = amt.q ∧ fine cx.env x := by
  obtain ⟨d2, hd⟩ := codeDiff_ok f1 log earlier p.account (virt p) amt hn
  obtain ⟨den2', w2, f2'⟩ := codeDiff_spec (env := cx.env) f1 log earlier p amt d2 hd
  have den2 := den2' hg1
  have hfine := f2' hl hp hamt
  obtain ⟨_, rw2, rf⟩ := restrict_spec (env := cx.env) d2 amt w2 ""
  have hden : (restrict d2 amt).den amt.comm = amt.q - specRunning amt.comm log earlier p.account (virt p) := by
    rw [(restrict_spec (env := cx.env) d2 amt w2 amt.comm).1]
    simp only [hc, if_true, den2]
    have : amt.den amt.comm = amt.q := by simp [Amount.den]
    rw [this]
  unfold checkPostF
  simp only [hpas, hd, hpa]
  unfold assignFrom
  by_cases hz : balIsZero cx.env (restrict d2 amt) = true
  · refine ⟨zeroLike amt, by simp [hz], rfl, ?_, fine_zeroLike hamt⟩
    have := (balIsZero_iff rw2 (rf hfine)).mp hz amt.comm
    rw [hden] at this
    simp only [zeroLike]; grind
  · -- a non-zero restricted difference is the single entry found for AMOUNT's commodity
    have hz' : balIsZero cx.env (restrict d2 amt) = false := by simpa using hz
    have hshape : ∃ w, restrict d2 amt = [w] ∧ w ∈ d2 ∧ w.comm = amt.comm := by
      cases hf : d2.find? amt.comm with
      | none => exfalso; simp [restrict, hc, hf, balIsZero] at hz'
      | some w =>
        obtain ⟨hm, hwc⟩ := find?_some hf
        by_cases hq : w.q = 0
        · exfalso; simp [restrict, hc, hf, Balance.ofAmt, hq, balIsZero] at hz'
        · exact ⟨w, by simp [restrict, hc, hf, Balance.ofAmt, hq], hm, hwc⟩
    obtain ⟨w, hw, hm, hwc⟩ := hshape
    rw [hw] at hden hz'
    refine ⟨w, ?_, hwc, ?_, hfine w hm⟩
    · rw [hw]; simp [hz']
    · simp only [Balance.den_cons, Balance.den_nil, Amount.den, hwc, if_true] at hden
      grind

/-- bare-`0` assignment: whatever amount is received zeroes every commodity. -/
theorem assign_bare_core (f1 f2 : Bool) (cx : Ctx) (log : List Entry) (earlier : List Posting) (p : Posting)
    (amt x : Amount) (hpa : p.amount = none) (hpas : p.assert = some amt) (hc : amt.hasComm = false)
    (hq : amt.q = 0)
    (hl : FineLog cx.env log) (hp : FinePosts cx.env earlier) (hamt : fine cx.env amt)
    (hg1 : guardVirt f1 earlier p = true)
    (h : checkPostF f1 f2 cx log earlier p = .ok { p with amount := some x }) :
    ∀ c, specRunning c log earlier p.account (virt p) + x.den c = 0 := by
  unfold checkPostF at h
  simp only [hpas] at h
  cases hd : codeDiff f1 log earlier p.account (virt p) amt with
  | error e => rw [hd] at h; cases h
  | ok d2 =>
    rw [hd] at h
    simp only [hpa] at h
    obtain ⟨den2', w2, f2'⟩ := codeDiff_spec (env := cx.env) f1 log earlier p amt d2 hd
    have den2 := den2' hg1
    have hfine := f2' hl hp hamt
    have hr : restrict d2 amt = d2 := by simp [restrict, hc]
    rw [hr] at h
    have hamtden : ∀ c, amt.den c = 0 := by intro c; simp [Amount.den, hq]
    unfold assignFrom at h
    by_cases hz : balIsZero cx.env d2 = true
    · simp only [hz, if_true] at h
      have hx : x = zeroLike amt := by
        have := h; simp only [Except.ok.injEq] at this
        have := congrArg Posting.amount this
        simpa using this.symm
      intro c
      have := (balIsZero_iff w2 hfine).mp hz c
      rw [den2, hamtden] at this
      subst hx
      have h0 : (zeroLike amt).den c = 0 := by
        by_cases hcc : amt.comm = c <;> simp [Amount.den, zeroLike, hcc]
      rw [h0]; grind
    · have hz' : balIsZero cx.env d2 = false := by simpa using hz
      rw [hz'] at h
      simp only [Bool.false_eq_true, if_false] at h
      match d2, h, w2, den2, hz with
      | [y], h, w2, den2, _ =>
        have hx : x = y := by
          simp only [Except.ok.injEq] at h
          have := congrArg Posting.amount h
          simpa using this.symm
        intro c
        have := den2 c
        rw [hamtden] at this
        subst hx
        simp only [Balance.den_cons, Balance.den_nil] at this
        grind
      | [], h, _, _, hz => simp [balIsZero] at hz
      | _ :: _ :: _, h, _, _, _ => simp at h

end Ledger.Assert
