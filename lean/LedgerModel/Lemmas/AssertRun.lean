/-
Lemmas about what does NOT enter the `= AMOUNT` block (other accounts, dates),
about the permissive option, and about the run over a whole journal (append-only log in
file order, exactness invariant).
-/
import LedgerModel.Lemmas.AssertCore

namespace Ledger.Assert

/-! ### other accounts never enter -/

theorem accTotal_insert_other (l1 l2 : List Entry) (e : Entry) (acct : String) (r : Bool)
    (h : e.account ≠ acct) : accTotal (l1 ++ e :: l2) acct r = accTotal (l1 ++ l2) acct r := by
  unfold accTotal
  simp [List.filter_append, counted, h]

theorem subEarlier_insert_other (f1 : Bool) (acct : String) (v : Bool) (e1 e2 : List Posting) (q : Posting)
    (h : q.account ≠ acct) (d : Balance) :
    subEarlier f1 d acct v (e1 ++ q :: e2) = subEarlier f1 d acct v (e1 ++ e2) := by
  induction e1 generalizing d with
  | nil =>
    simp only [List.nil_append]
    rw [subEarlier]
    simp [h]
  | cons p ps ih =>
    simp only [List.cons_append]
    rw [subEarlier, subEarlier]
    split
    · cases p.amount with
      | none => rfl
      | some a => exact ih _
    · exact ih _

theorem checkPostF_insert_other_log (f1 f2 : Bool) (cx : Ctx) (l1 l2 : List Entry) (e : Entry)
    (earlier : List Posting) (p : Posting) (h : e.account ≠ p.account) :
    checkPostF f1 f2 cx (l1 ++ e :: l2) earlier p = checkPostF f1 f2 cx (l1 ++ l2) earlier p := by
  unfold checkPostF codeDiff
  rw [accTotal_insert_other l1 l2 e p.account _ h]

theorem checkPostF_insert_other_earlier (f1 f2 : Bool) (cx : Ctx) (log : List Entry)
    (e1 e2 : List Posting) (q : Posting) (p : Posting) (h : q.account ≠ p.account) :
    checkPostF f1 f2 cx log (e1 ++ q :: e2) p = checkPostF f1 f2 cx log (e1 ++ e2) p := by
  unfold checkPostF codeDiff
  simp only [subEarlier_insert_other f1 p.account (virt p) e1 e2 q h]

/-- a proper sub-account name is a different name -/
theorem subaccount_ne (a s : String) : a ++ ":" ++ s ≠ a := by
  intro h
  have := congrArg String.length h
  simp only [String.length_append] at this
  have h1 : (":" : String).length = 1 := by decide
  omega

/-! ### the permissive option -/

theorem checkPostF_permissive_ne (f1 f2 : Bool) (cx : Ctx) (hperm : cx.permissive = true) (log : List Entry)
    (earlier : List Posting) (p : Posting) : checkPostF f1 f2 cx log earlier p ≠ .error .assertOff := by
  unfold checkPostF
  cases p.assert with
  | none => simp
  | some amt =>
    simp only
    cases hd : codeDiff f1 log earlier p.account (virt p) amt with
    | error e =>
      simp only
      intro h
      injection h with h
      subst h
      -- codeDiff only fails with nullEarlier
      unfold codeDiff at hd
      have : ∀ (ps : List Posting) (d : Balance), subEarlier f1 d p.account (virt p) ps ≠ .error .assertOff := by
        intro ps
        induction ps with
        | nil => intro d; simp [subEarlier]
        | cons q qs ih =>
          intro d
          rw [subEarlier]
          split
          · cases q.amount with
            | none => simp
            | some a => exact ih _
          · exact ih _
      exact this _ _ hd
    | ok d2 =>
      simp only
      cases p.amount with
      | none =>
        simp only
        cases hA : assignFrom cx.env (restrict d2 amt) amt with
        | ok x => simp
        | error e =>
          simp only
          intro h
          injection h with h
          subst h
          unfold assignFrom at hA
          split at hA
          · cases hA
          · split at hA <;> cases hA
      | some a => simp [hperm]

theorem checkPostF_permissive_ok (f1 f2 : Bool) (cx : Ctx) (hperm : cx.permissive = true) (log : List Entry)
    (earlier : List Posting) (p : Posting) (a amt : Amount) (hpa : p.amount = some a) (hpas : p.assert = some amt)
    (hn : NoElidedEarlier earlier p.account) : checkPostF f1 f2 cx log earlier p = .ok p := by
  obtain ⟨d2, hd⟩ := codeDiff_ok f1 log earlier p.account (virt p) amt hn
  unfold checkPostF
  simp [hpas, hd, hpa, hperm]

/-- The permissive option does not touch assignments (nor postings without `=`). -/
theorem checkPostF_permissive_assign (f1 f2 : Bool) (cx : Ctx) (log : List Entry) (earlier : List Posting)
    (p : Posting) (hpa : p.amount = none) (b : Bool) :
    checkPostF f1 f2 { cx with permissive := b } log earlier p = checkPostF f1 f2 cx log earlier p := by
  unfold checkPostF
  cases p.assert with
  | none => rfl
  | some amt =>
    simp only
    cases codeDiff f1 log earlier p.account (virt p) amt with
    | error e => rfl
    | ok d2 => simp only [hpa]

/-! ### the run over a journal -/

theorem parsePosts_error_permissive (cx : Ctx) (hperm : cx.permissive = true) (log : List Entry)
    (ps done : List Posting) (e : Nat × AErr) (h : parsePosts cx log done ps = .error e) : e.2 ≠ .assertOff := by
  induction ps generalizing done with
  | nil => simp [parsePosts] at h
  | cons p ps ih =>
    rw [parsePosts] at h
    cases hc : checkPost cx log done p with
    | error e' =>
      rw [hc] at h
      simp only [Except.error.injEq] at h
      subst h
      intro he
      simp only at he
      rw [he] at hc
      exact checkPostF_permissive_ne _ _ cx hperm log done p hc
    | ok p' =>
      rw [hc] at h
      exact ih _ h

theorem residual_error (ps : List Posting) (v : Value) (np : Option Posting) (e : AErr)
    (h : residual ps v np = .error e) : e = .twoNulls := by
  induction ps generalizing v np with
  | nil => simp [residual] at h
  | cons p ps ih =>
    unfold residual at h
    split at h
    · exact ih _ _ h
    · split at h
      · exact ih _ _ h
      · split at h
        · injection h with h; exact h.symm
        · exact ih _ _ h

theorem finalize_error (cx : Ctx) (posts : List Posting) (e : AErr) (h : finalize cx posts = .error e) :
    e ≠ .assertOff := by
  have hres : ∀ e', residual posts .void none = .error e' → e' = .twoNulls :=
    fun e' he => residual_error _ _ _ _ he
  unfold finalize at h
  repeat' split at h
  all_goals (cases h)
  all_goals first
    | (simp; done)
    | (have h2 := hres _ (by assumption); subst h2; simp)

theorem runXact_error_permissive (cx : Ctx) (hperm : cx.permissive = true) (log : List Entry) (x : Xact)
    (e : Nat × AErr) (h : runXact cx log x = .error e) : e.2 ≠ .assertOff := by
  unfold runXact at h
  cases hp : parsePosts cx log [] x.posts with
  | error e' =>
    rw [hp] at h
    injection h with h; subst h
    exact parsePosts_error_permissive cx hperm log _ _ _ hp
  | ok posts =>
    rw [hp] at h
    simp only at h
    cases hf : finalize cx posts with
    | error e' =>
      rw [hf] at h
      injection h with h; subst h
      exact finalize_error cx posts e' hf
    | ok es => rw [hf] at h; cases h

theorem foldl_step_errors (cx : Ctx) (P : Nat × AErr → Prop)
    (hstep : ∀ log x e, runXact cx log x = .error e → P e) (xs : List Xact) (s : State)
    (hs : ∀ e ∈ s.errors, P e) : ∀ e ∈ (xs.foldl (step cx) s).errors, P e := by
  induction xs generalizing s with
  | nil => exact hs
  | cons x xs ih =>
    simp only [List.foldl_cons]
    apply ih
    unfold step
    cases hr : runXact cx s.log x with
    | ok es => exact hs
    | error e' =>
      intro e he
      simp only [List.mem_append, List.mem_singleton] at he
      rcases he with he | he
      · exact hs e he
      · subst he; exact hstep _ _ _ hr

theorem step_log_prefix (cx : Ctx) (s : State) (x : Xact) : s.log <+: (step cx s x).log := by
  unfold step
  cases runXact cx s.log x with
  | ok es => exact List.prefix_append _ _
  | error e => exact List.prefix_refl _

theorem foldl_step_log_prefix (cx : Ctx) (xs : List Xact) (s : State) : s.log <+: (xs.foldl (step cx) s).log := by
  induction xs generalizing s with
  | nil => exact List.prefix_refl _
  | cons x xs ih => exact List.IsPrefix.trans (step_log_prefix cx s x) (ih _)

/-! ### exactness is preserved along the run -/

/-- what is written in a posting is exact, and it carries no cost (a cost total is a product
    and may exceed the display precision) -/
def PFine (env : PrecEnv) (p : Posting) : Prop :=
  (∀ a, p.amount = some a → fine env a) ∧ (∀ a, p.assert = some a → fine env a) ∧ p.cost = none

def XFine (env : PrecEnv) (x : Xact) : Prop := ∀ p ∈ x.posts, PFine env p

theorem assignFrom_fine {env : PrecEnv} {d : Balance} {amt x : Amount} (hd : BFine env d) (hamt : fine env amt)
    (h : assignFrom env d amt = .ok x) : fine env x := by
  unfold assignFrom at h
  split at h
  · cases h; exact fine_zeroLike hamt
  · split at h
    · cases h; exact hd _ List.mem_cons_self
    · cases h

theorem checkPostF_fine (f1 f2 : Bool) (cx : Ctx) (log : List Entry) (earlier : List Posting) (p p' : Posting)
    (hl : FineLog cx.env log) (he : ∀ q ∈ earlier, PFine cx.env q) (hp : PFine cx.env p)
    (h : checkPostF f1 f2 cx log earlier p = .ok p') : PFine cx.env p' := by
  unfold checkPostF at h
  cases hpas : p.assert with
  | none => rw [hpas] at h; cases h; exact hp
  | some amt =>
    rw [hpas] at h
    simp only at h
    cases hd : codeDiff f1 log earlier p.account (virt p) amt with
    | error e => rw [hd] at h; cases h
    | ok d2 =>
      rw [hd] at h
      simp only at h
      have hfe : FinePosts cx.env earlier := fun q hq a ha => (he q hq).1 a ha
      have hamt : fine cx.env amt := hp.2.1 amt hpas
      have hd2 : BFine cx.env d2 :=
        (codeDiff_spec (env := cx.env) f1 log earlier p amt d2 hd).2.2 hl hfe hamt
      cases hpa : p.amount with
      | some a =>
        rw [hpa] at h
        simp only at h
        split at h
        · cases h
        · cases h; exact hp
      | none =>
        rw [hpa] at h
        simp only at h
        cases hA : assignFrom cx.env (restrict d2 amt) amt with
        | error e => rw [hA] at h; cases h
        | ok x =>
          rw [hA] at h
          cases h
          have hr : BFine cx.env (restrict d2 amt) :=
            (restrict_spec (env := cx.env) d2 amt
              (codeDiff_spec (env := cx.env) f1 log earlier p amt d2 hd).2.1 "").2.2 hd2
          refine ⟨?_, ?_, hp.2.2⟩
          · intro a ha
            simp only [Option.some.injEq] at ha
            subst ha
            exact assignFrom_fine hr hamt hA
          · intro a ha
            simp only [Option.some.injEq] at ha
            subst ha
            exact hamt

theorem parsePosts_fine (cx : Ctx) (log : List Entry) (hl : FineLog cx.env log) (ps done posts : List Posting)
    (hd : ∀ q ∈ done, PFine cx.env q) (hps : ∀ q ∈ ps, PFine cx.env q)
    (h : parsePosts cx log done ps = .ok posts) : ∀ q ∈ posts, PFine cx.env q := by
  induction ps generalizing done with
  | nil => simp only [parsePosts] at h; cases h; exact hd
  | cons p ps ih =>
    rw [parsePosts] at h
    cases hc : checkPost cx log done p with
    | error e => rw [hc] at h; cases h
    | ok p' =>
      rw [hc] at h
      have hp' := checkPostF_fine _ _ cx log done p p' hl hd (hps p List.mem_cons_self) hc
      apply ih (done ++ [p']) _ (fun q hq => hps q (List.mem_cons_of_mem _ hq)) h
      intro q hq
      rcases List.mem_append.mp hq with hq | hq
      · exact hd q hq
      · simp only [List.mem_singleton] at hq; subst hq; exact hp'

theorem mem_entriesOf {ps : List Posting} {e : Entry} (h : e ∈ entriesOf ps) :
    ∃ p ∈ ps, ∃ a, p.amount = some a ∧ e.amt = a := by
  induction ps with
  | nil => cases h
  | cons p ps ih =>
    unfold entriesOf at h
    cases hpa : p.amount with
    | none =>
      rw [hpa] at h
      obtain ⟨q, hq, a, ha, hea⟩ := ih h
      exact ⟨q, List.mem_cons_of_mem _ hq, a, ha, hea⟩
    | some a =>
      rw [hpa] at h
      rcases List.mem_cons.mp h with rfl | h
      · exact ⟨p, List.mem_cons_self, a, hpa, rfl⟩
      · obtain ⟨q, hq, b, hb, heb⟩ := ih h
        exact ⟨q, List.mem_cons_of_mem _ hq, b, hb, heb⟩

theorem residual_fine {env : PrecEnv} (ps : List Posting) (v bal : Value) (np np' : Option Posting)
    (hps : ∀ q ∈ ps, PFine env q) (hn : Num v) (hv : VFine env v)
    (h : residual ps v np = .ok (bal, np')) : VFine env bal := by
  induction ps generalizing v np with
  | nil => simp only [residual] at h; cases h; exact hv
  | cons p ps ih =>
    have hps' : ∀ q ∈ ps, PFine env q := fun q hq => hps q (List.mem_cons_of_mem _ hq)
    have hp := hps p List.mem_cons_self
    unfold residual at h
    split at h
    · exact ih _ _ hps' hn hv h
    · split at h
      · rename_i a hb
        have hfa : fine env a := by
          unfold balancing at hb
          rw [hp.2.2] at hb
          cases hpa : p.amount with
          | none => rw [hpa] at hb; cases hb
          | some a' =>
            rw [hpa] at hb
            simp only [Option.some.injEq] at hb
            subst hb; exact hp.1 _ hpa
        obtain ⟨_, h2, h3⟩ := accAdd_spec (env := env) v a hn ""
        exact ih _ _ hps' h2 (h3 hv hfa) h
      · split at h
        · cases h
        · exact ih _ _ hps' hn hv h

theorem mem_insertByComm {a x : Amount} {l : List Amount} (h : x ∈ insertByComm a l) : x = a ∨ x ∈ l := by
  induction l with
  | nil => simp [insertByComm] at h; exact Or.inl h
  | cons b bs ih =>
    unfold insertByComm at h
    split at h
    · rcases List.mem_cons.mp h with h | h
      · exact Or.inl h
      · exact Or.inr h
    · rcases List.mem_cons.mp h with h | h
      · exact Or.inr (h ▸ List.mem_cons_self)
      · rcases ih h with h | h
        · exact Or.inl h
        · exact Or.inr (List.mem_cons_of_mem _ h)

theorem mem_sortByComm {x : Amount} {l : List Amount} (h : x ∈ sortByComm l) : x ∈ l := by
  induction l with
  | nil => cases h
  | cons a l ih =>
    simp only [sortByComm, List.foldr_cons] at h
    rcases mem_insertByComm h with h | h
    · exact h ▸ List.mem_cons_self
    · exact List.mem_cons_of_mem _ (ih h)

theorem balancingAmounts_fine {env : PrecEnv} (bal : Value) (hv : VFine env bal) :
    ∀ a ∈ balancingAmounts bal, fine env a := by
  intro a ha
  unfold balancingAmounts at ha
  split at ha
  · simp only [List.mem_singleton] at ha; subst ha; exact fine_neg hv
  · simp only [List.mem_singleton] at ha; subst ha; exact fine_neg (hv _ List.mem_cons_self)
  · obtain ⟨y, hy, rfl⟩ := List.mem_map.mp ha
    exact fine_neg (hv _ (mem_sortByComm hy))
  · cases ha

theorem finalize_fine (cx : Ctx) (posts : List Posting) (es : List Entry)
    (hps : ∀ q ∈ posts, PFine cx.env q) (h : finalize cx posts = .ok es) : FineLog cx.env es := by
  have hent : FineLog cx.env (entriesOf posts) := by
    intro e he
    obtain ⟨p, hp, a, hpa, hea⟩ := mem_entriesOf he
    rw [hea]; exact (hps p hp).1 a hpa
  unfold finalize at h
  split at h
  · cases h
  · repeat' split at h
    all_goals first
      | (cases h; done)
      | (cases h; exact hent)
  · rename_i bal np hres
    have hbal := residual_fine (env := cx.env) posts .void bal none (some np) hps trivial trivial hres
    repeat' split at h
    all_goals first
      | (cases h; done)
      | (cases h
         intro e he
         rcases List.mem_append.mp he with he | he
         · exact hent e he
         · obtain ⟨a, ha, rfl⟩ := List.mem_map.mp he
           exact balancingAmounts_fine bal hbal a (by simp_all))

theorem runXact_fine (cx : Ctx) (log : List Entry) (hl : FineLog cx.env log) (x : Xact) (hx : XFine cx.env x)
    (es : List Entry) (h : runXact cx log x = .ok es) : FineLog cx.env es := by
  unfold runXact at h
  cases hp : parsePosts cx log [] x.posts with
  | error e => rw [hp] at h; cases h
  | ok posts =>
    rw [hp] at h
    simp only at h
    have hposts := parsePosts_fine cx log hl x.posts [] posts (fun q hq => by cases hq) hx hp
    cases hf : finalize cx posts with
    | error e => rw [hf] at h; cases h
    | ok es' =>
      rw [hf] at h
      cases h
      exact finalize_fine cx posts _ hposts hf

theorem foldl_step_fine (cx : Ctx) (xs : List Xact) (hxs : ∀ x ∈ xs, XFine cx.env x) (s : State)
    (hs : FineLog cx.env s.log) : FineLog cx.env (xs.foldl (step cx) s).log := by
  induction xs generalizing s with
  | nil => exact hs
  | cons x xs ih =>
    simp only [List.foldl_cons]
    apply ih (fun y hy => hxs y (List.mem_cons_of_mem _ hy))
    unfold step
    cases hr : runXact cx s.log x with
    | error e => exact hs
    | ok es =>
      intro e he
      rcases List.mem_append.mp he with he | he
      · exact hs e he
      · exact runXact_fine cx s.log hs x (hxs x List.mem_cons_self) es hr e he

end Ledger.Assert
