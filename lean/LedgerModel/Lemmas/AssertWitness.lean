/-
Concrete histories used by Props/C09: the two witnesses on which the pinned
source violates the full statements, and benign ones for the non-vacuity examples.
-/
import LedgerModel.Lemmas.AssertRun

namespace Ledger.Assert.W

def usd (n : Int) : Amount := { q := (n : Rat), prec := 0, keep := false, comm := "$" }
def eur (n : Int) : Amount := { q := (n : Rat), prec := 0, keep := false, comm := "EUR" }

def cx : Ctx := { env := fun _ => 2, permissive := false }

def post (acct : String) (kind : PostKind) (amount assert : Option Amount) (line : Nat) : Posting :=
  { account := acct, kind := kind, state := 0, amount := amount, cost := none, assert := assert, note := "", line := line }

/-- account A holds $10 (and A:B holds $7) from earlier transactions -/
def log : List Entry := [⟨"A", false, usd 10⟩, ⟨"A:B", false, usd 7⟩, ⟨"B", false, usd (-17)⟩]

/-- `A  $5` earlier in the same transaction -/
def earlier : List Posting := [post "A" .real (some (usd 5)) none 6]

/-- `(A)  $1 = $16` : true (10 + 5 + 1), rejected by the pinned source ("expected to see $11") -/
def pVirt : Posting := post "A" .virtual (some (usd 1)) (some (usd 16)) 7

/-- `(A)  = $16` : must receive $1, the pinned source gives $6 -/
def pVirtAssign : Posting := post "A" .virtual none (some (usd 16)) 7

/-- `A  5 EUR = $10` : true (the account holds $10), rejected by the pinned source -/
def pComm : Posting := post "A" .real (some (eur 5)) (some (usd 10)) 6

/-- `A  $1 = $16`, ordinary: true and accepted -/
def pReal : Posting := post "A" .real (some (usd 1)) (some (usd 16)) 7
/-- `A  $1 = $17`, ordinary: false and rejected -/
def pRealFalse : Posting := post "A" .real (some (usd 1)) (some (usd 17)) 7
/-- `A  = $16`, ordinary: receives $1 -/
def pRealAssign : Posting := post "A" .real none (some (usd 16)) 7
/-- `A  $-15 = 0`, ordinary: true -/
def pZero : Posting := post "A" .real (some (usd (-15))) (some (Amount.ofInt 0)) 7

theorem fine_usd (n : Int) : fine cx.env (usd n) := Or.inr (Nat.zero_le _)
theorem fine_eur (n : Int) : fine cx.env (eur n) := Or.inr (Nat.zero_le _)

theorem fineLog : FineLog cx.env log := by
  intro e he
  simp only [log, List.mem_cons, List.not_mem_nil, or_false] at he
  rcases he with rfl | rfl | rfl <;> exact fine_usd _

theorem finePosts : FinePosts cx.env earlier := by
  intro p hp a ha
  simp only [earlier, List.mem_cons, List.not_mem_nil, or_false] at hp
  subst hp
  simp only [post, Option.some.injEq] at ha
  subst ha; exact fine_usd _

theorem finePostsNil : FinePosts cx.env [] := by intro p hp; cases hp

theorem noElided : NoElidedEarlier earlier "A" := by
  intro p hp _
  simp only [earlier, List.mem_cons, List.not_mem_nil, or_false] at hp
  subst hp; rfl

theorem noElidedNil (a : String) : NoElidedEarlier [] a := by intro p hp; cases hp

end Ledger.Assert.W
