/-
Helper lemmas for C16: the memoised quick matcher refines the general
evaluator; the code-shaped loops refine the stateless list specification;
journal-level invariants of `load`.
-/
import LedgerModel.Model.AutoXact

namespace Ledger
namespace AutoXact

/-! ### amounts -/

theorem clampPrec_q (env : PrecEnv) (a : Amount) : (Amount.clampPrec env a).q = a.q := by
  unfold Amount.clampPrec; split <;> rfl

theorem clampPrec_comm (env : PrecEnv) (a : Amount) : (Amount.clampPrec env a).comm = a.comm := by
  unfold Amount.clampPrec; split <;> rfl

theorem mul_q (env : PrecEnv) (a b : Amount) : (Amount.mul env a b).q = a.q * b.q := by
  unfold Amount.mul; rw [clampPrec_q]

theorem mul_comm_field (env : PrecEnv) (a b : Amount) :
    (Amount.mul env a b).comm = if a.hasComm then a.comm else b.comm := by
  unfold Amount.mul; rw [clampPrec_comm]

/-! ### quick evaluator -/

theorem quick_sound (m : Matcher) (payee : String) (p : FPost) :
    ∀ (pr : Pred) (b : Bool), pr.quick m p.account = some b → pr.eval m payee p = b := by
  intro pr
  induction pr with
  | const c => intro b h; simp [Pred.quick] at h; simp [Pred.eval, h]
  | acct pat => intro b h; simp [Pred.quick] at h; simp [Pred.eval, h]
  | payee pat => intro b h; simp [Pred.quick] at h
  | amtGt n => intro b h; simp [Pred.quick] at h
  | amtLt n => intro b h; simp [Pred.quick] at h
  | amtGe n => intro b h; simp [Pred.quick] at h
  | amtLe n => intro b h; simp [Pred.quick] at h
  | not a iha =>
    intro b h
    simp only [Pred.quick, Option.map_eq_some_iff] at h
    obtain ⟨c, hc, rfl⟩ := h
    simp [Pred.eval, iha c hc]
  | and a b iha ihb =>
    intro r h
    simp only [Pred.quick] at h
    split at h
    · cases h
    · cases h; rename_i ha; simp [Pred.eval, iha false ha]
    · rename_i ha; simp [Pred.eval, iha true ha, ihb r h]
  | or a b iha ihb =>
    intro r h
    simp only [Pred.quick] at h
    split at h
    · cases h
    · cases h; rename_i ha; simp [Pred.eval, iha true ha]
    · rename_i ha; simp [Pred.eval, iha false ha, ihb r h]
  | ite c a b ihc iha ihb =>
    intro r h
    simp only [Pred.quick] at h
    split at h
    · cases h
    · rename_i hc; simp [Pred.eval, ihc true hc, iha r h]
    · rename_i hc; simp [Pred.eval, ihc false hc, ihb r h]

/-- Invariant of a rule's matching state: every memoised answer is what the
    quick evaluator returns for that account name. -/
def MemoOK (m : Matcher) (pr : Pred) (st : RState) : Prop :=
  ∀ a b, st.memo.lookup a = some b → pr.quick m a = some b

theorem memoOK_init (m : Matcher) (pr : Pred) : MemoOK m pr RState.init := by
  intro a b h; simp [RState.init] at h

theorem matchPost_fst (m : Matcher) (pr : Pred) (payee : String) (st : RState) (p : FPost)
    (h : MemoOK m pr st) : (matchPost m pr payee st p).1 = pr.eval m payee p := by
  unfold matchPost
  split
  · split
    · rename_i b hb
      exact (quick_sound m payee p pr b (h _ _ hb)).symm
    · split
      · rename_i b hb
        exact (quick_sound m payee p pr b hb).symm
      · rfl
  · rfl

theorem matchPost_ok (m : Matcher) (pr : Pred) (payee : String) (st : RState) (p : FPost)
    (h : MemoOK m pr st) : MemoOK m pr (matchPost m pr payee st p).2 := by
  unfold matchPost
  split
  · split
    · exact h
    · split
      · rename_i b hb
        intro a c hl
        simp only [List.lookup_cons] at hl
        split at hl
        · rename_i heq
          have : a = p.account := by simpa using heq
          cases hl; rw [this]; exact hb
        · exact h a c hl
      · intro a c hl; exact h a c hl
  · exact h

/-! ### the loop over the snapshot -/

theorem additions_nil (m : Matcher) (env : PrecEnv) (r : Rule) (payee : String) :
    additions m env r payee [] = [] := rfl

theorem additions_cons (m : Matcher) (env : PrecEnv) (r : Rule) (payee : String) (ip : FPost) (ps : List FPost) :
    additions m env r payee (ip :: ps) =
      (if r.matches m payee ip then r.lines.map (genPost env ip) else []) ++ additions m env r payee ps := by
  unfold additions
  by_cases h : r.matches m payee ip = true
  · simp [h]
  · simp [h]

theorem additions_append (m : Matcher) (env : PrecEnv) (r : Rule) (payee : String) (ps qs : List FPost) :
    additions m env r payee (ps ++ qs) = additions m env r payee ps ++ additions m env r payee qs := by
  unfold additions; simp [List.filter_append, List.flatMap_append]

theorem additions_generated (m : Matcher) (env : PrecEnv) (r : Rule) (payee : String) (gs : List FPost)
    (h : ∀ g ∈ gs, g.generated = true) : additions m env r payee gs = [] := by
  unfold additions
  have : gs.filter (r.matches m payee) = [] := by
    apply List.filter_eq_nil_iff.mpr
    intro g hg
    simp [Rule.matches, h g hg]
  simp [this]

theorem mem_additions_generated (m : Matcher) (env : PrecEnv) (r : Rule) (payee : String) (ps : List FPost)
    (g : FPost) (h : g ∈ additions m env r payee ps) : g.generated = true := by
  unfold additions at h
  simp only [List.mem_flatMap, List.mem_map] at h
  obtain ⟨ip, _, l, _, rfl⟩ := h
  rfl

theorem extendGo_spec (m : Matcher) (env : PrecEnv) (r : Rule) (payee : String) :
    ∀ (ps : List FPost) (st : RState), MemoOK m r.pred st →
      (extendGo m env r payee st ps).2 = additions m env r payee ps ∧
      MemoOK m r.pred (extendGo m env r payee st ps).1 := by
  intro ps
  induction ps with
  | nil => intro st h; exact ⟨rfl, h⟩
  | cons ip rest ih =>
    intro st h
    rw [additions_cons]
    unfold extendGo
    by_cases hg : ip.generated = true
    · simp only [hg, if_true]
      have := ih st h
      simp [Rule.matches, hg, this.1, this.2]
    · have hg' : ip.generated = false := by simpa using hg
      simp only [hg', Bool.false_eq_true, if_false]
      have h1 := matchPost_fst m r.pred payee st ip h
      have h2 := matchPost_ok m r.pred payee st ip h
      have := ih _ h2
      refine ⟨?_, this.2⟩
      simp [Rule.matches, hg', h1, this.1]

theorem extend_spec (m : Matcher) (env : PrecEnv) (r : Rule) (st : RState) (x : FXact)
    (h : MemoOK m r.pred st) :
    (extend m env r st x).2 = extendSpec m env r x ∧ MemoOK m r.pred (extend m env r st x).1 := by
  have := extendGo_spec m env r x.payee x.posts st h
  unfold extend extendSpec
  simp [this.1, this.2]

theorem extendChecked_spec (m : Matcher) (env : PrecEnv) (r : Rule) (st : RState) (x : FXact)
    (h : MemoOK m r.pred st) :
    (extendChecked m env r st x).2 =
      (if (additions m env r x.payee x.posts).any FPost.mustBalance ∧
          ¬ balanced env (extendSpec m env r x).posts then .error .unbalanced
       else .ok (extendSpec m env r x)) ∧
    MemoOK m r.pred (extendChecked m env r st x).1 := by
  have h1 := extend_spec m env r st x h
  have h2 := extendGo_spec m env r x.payee x.posts st h
  unfold extendChecked
  simp only [h2.1, h1.1]
  split <;> simp_all

/-- every rule's matching state satisfies its invariant. -/
def AllOK (m : Matcher) (rs : List (Rule × RState)) : Prop := ∀ p ∈ rs, MemoOK m p.1.pred p.2

theorem applyRules_spec (m : Matcher) (env : PrecEnv) :
    ∀ (rs : List (Rule × RState)) (x : FXact), AllOK m rs →
      (applyRules m env rs x).2 = applyRulesSpec m env (rs.map (·.1)) x ∧
      (applyRules m env rs x).1.map (·.1) = rs.map (·.1) ∧
      AllOK m (applyRules m env rs x).1 := by
  intro rs
  induction rs with
  | nil => intro x h; exact ⟨rfl, rfl, h⟩
  | cons p rs ih =>
    intro x h
    obtain ⟨r, st⟩ := p
    have hst : MemoOK m r.pred st := h (r, st) (List.mem_cons_self ..)
    have hrs : AllOK m rs := fun q hq => h q (List.mem_cons_of_mem _ hq)
    have hc := extendChecked_spec m env r st x hst
    unfold applyRules
    simp only [List.map_cons, applyRulesSpec]
    generalize hec : extendChecked m env r st x = ec at hc
    obtain ⟨st', res⟩ := ec
    simp only at hc
    by_cases hcond : (additions m env r x.payee x.posts).any FPost.mustBalance ∧
        ¬ balanced env (extendSpec m env r x).posts
    · rw [if_pos hcond] at hc
      rw [if_pos hcond]
      obtain ⟨hres, hok⟩ := hc
      subst hres
      refine ⟨rfl, rfl, ?_⟩
      intro q hq
      rcases List.mem_cons.mp hq with rfl | hq
      · exact hok
      · exact hrs q hq
    · rw [if_neg hcond] at hc
      rw [if_neg hcond]
      obtain ⟨hres, hok⟩ := hc
      subst hres
      have := ih (extendSpec m env r x) hrs
      refine ⟨this.1, by simp [this.2.1], ?_⟩
      intro q hq
      rcases List.mem_cons.mp hq with rfl | hq
      · exact hok
      · exact this.2.2 q hq

/-! ### closed form of a successful pass of all rules -/

theorem extendSpec_payee (m : Matcher) (env : PrecEnv) (r : Rule) (x : FXact) :
    (extendSpec m env r x).payee = x.payee := rfl

theorem extendSpec_line (m : Matcher) (env : PrecEnv) (r : Rule) (x : FXact) :
    (extendSpec m env r x).line = x.line := rfl

/-- additions of a rule over `orig ++ gens` where `gens` are all generated:
    only the originals count. -/
theorem additions_orig_gens (m : Matcher) (env : PrecEnv) (r : Rule) (payee : String)
    (orig gens : List FPost) (h : ∀ g ∈ gens, g.generated = true) :
    additions m env r payee (orig ++ gens) = additions m env r payee orig := by
  rw [additions_append, additions_generated m env r payee gens h, List.append_nil]

theorem foldl_extendSpec_posts (m : Matcher) (env : PrecEnv) :
    ∀ (rs : List Rule) (x : FXact) (gens : List FPost), (∀ g ∈ gens, g.generated = true) →
      ∀ (orig : List FPost), x.posts = orig ++ gens →
      (rs.foldl (fun y r => extendSpec m env r y) x).posts =
        orig ++ gens ++ rs.flatMap (fun r => additions m env r x.payee orig) ∧
      (rs.foldl (fun y r => extendSpec m env r y) x).payee = x.payee ∧
      (rs.foldl (fun y r => extendSpec m env r y) x).line = x.line := by
  intro rs
  induction rs with
  | nil => intro x gens _ orig hx; simp [hx]
  | cons r rs ih =>
    intro x gens hg orig hx
    simp only [List.foldl_cons, List.flatMap_cons]
    have hadd : additions m env r x.payee x.posts = additions m env r x.payee orig := by
      rw [hx]; exact additions_orig_gens m env r x.payee orig gens hg
    have hposts : (extendSpec m env r x).posts = orig ++ (gens ++ additions m env r x.payee orig) := by
      simp only [extendSpec]; rw [hadd, hx, List.append_assoc]
    have hg' : ∀ g ∈ gens ++ additions m env r x.payee orig, g.generated = true := by
      intro g hgm
      rcases List.mem_append.mp hgm with h1 | h1
      · exact hg g h1
      · exact mem_additions_generated m env r x.payee orig g h1
    have := ih (extendSpec m env r x) _ hg' orig hposts
    simp only [extendSpec_payee, extendSpec_line] at this
    refine ⟨?_, this.2.1, this.2.2⟩
    rw [this.1]; simp [List.append_assoc]

theorem applyRulesSpec_ok (m : Matcher) (env : PrecEnv) :
    ∀ (rs : List Rule) (x y : FXact), applyRulesSpec m env rs x = .ok y →
      y = rs.foldl (fun z r => extendSpec m env r z) x := by
  intro rs
  induction rs with
  | nil => intro x y h; simp [applyRulesSpec] at h; simp [h]
  | cons r rs ih =>
    intro x y h
    simp only [applyRulesSpec] at h
    split at h
    · cases h
    · simpa using ih _ _ h

/-! ### journal level -/

theorem rulesOf_append (a b : List Item) : rulesOf (a ++ b) = rulesOf a ++ rulesOf b := by
  induction a with
  | nil => rfl
  | cons i is ih => cases i <;> simp [rulesOf, ih]

/-- one step: what it does to the components, in terms of the stateless spec. -/
theorem step_rule (m : Matcher) (s : LState) (r : Rule) :
    (step m s (.rule r)).xacts = s.xacts ∧ (step m s (.rule r)).errs = s.errs ∧
    (step m s (.rule r)).rules = s.rules ++ [(r, RState.init)] := ⟨rfl, rfl, rfl⟩

theorem step_allOK (m : Matcher) (s : LState) (it : Item) (h : AllOK m s.rules) :
    AllOK m (step m s it).rules ∧
    (step m s it).rules.map (·.1) = s.rules.map (·.1) ++ rulesOf [it] := by
  cases it with
  | rule r =>
    constructor
    · intro p hp
      simp only [step] at hp
      rcases List.mem_append.mp hp with h1 | h1
      · exact h p h1
      · simp at h1; subst h1; exact memoOK_init m r.pred
    · simp [step, rulesOf]
  | xact x =>
    simp only [step, rulesOf, List.append_nil]
    split
    · exact ⟨h, rfl⟩
    · rename_i fx _
      have := applyRules_spec m (PrecTable.get (s.prec.bumpAll (x.posts.filterMap (·.amount)))) s.rules fx h
      split
      · exact ⟨this.2.2, this.2.1⟩
      · exact ⟨this.2.2, this.2.1⟩

theorem loadFrom_allOK (m : Matcher) :
    ∀ (items : List Item) (s : LState), AllOK m s.rules →
      AllOK m (loadFrom m s items).rules ∧
      (loadFrom m s items).rules.map (·.1) = s.rules.map (·.1) ++ rulesOf items := by
  intro items
  induction items with
  | nil => intro s h; simp [loadFrom, rulesOf, h]
  | cons it items ih =>
    intro s h
    have h1 := step_allOK m s it h
    have h2 := ih (step m s it) h1.1
    unfold loadFrom at h2 ⊢
    simp only [List.foldl_cons]
    refine ⟨h2.1, ?_⟩
    rw [h2.2, h1.2, List.append_assoc, ← rulesOf_append]
    rfl

theorem load_allOK (m : Matcher) (items : List Item) :
    AllOK m (load m items).rules ∧ (load m items).rules.map (·.1) = rulesOf items := by
  have := loadFrom_allOK m items LState.init (by intro p hp; simp [LState.init] at hp)
  simpa [load, LState.init] using this

theorem load_append (m : Matcher) (a b : List Item) :
    load m (a ++ b) = loadFrom m (load m a) b := by
  simp [load, loadFrom, List.foldl_append]

theorem load_snoc (m : Matcher) (a : List Item) (it : Item) :
    load m (a ++ [it]) = step m (load m a) it := by
  simp [load_append, loadFrom]

/-- a step only ever appends to the accepted transactions and to the errors. -/
theorem step_prefix (m : Matcher) (s : LState) (it : Item) :
    s.xacts <+: (step m s it).xacts ∧ s.errs <+: (step m s it).errs := by
  cases it with
  | rule r => exact ⟨List.prefix_refl _, List.prefix_refl _⟩
  | xact x =>
    simp only [step]
    split
    · exact ⟨List.prefix_refl _, List.prefix_append _ _⟩
    · split
      · exact ⟨List.prefix_append _ _, List.prefix_refl _⟩
      · exact ⟨List.prefix_refl _, List.prefix_append _ _⟩

theorem loadFrom_prefix (m : Matcher) :
    ∀ (items : List Item) (s : LState),
      s.xacts <+: (loadFrom m s items).xacts ∧ s.errs <+: (loadFrom m s items).errs := by
  intro items
  induction items with
  | nil => intro s; exact ⟨List.prefix_refl _, List.prefix_refl _⟩
  | cons it items ih =>
    intro s
    have h1 := step_prefix m s it
    have h2 := ih (step m s it)
    unfold loadFrom at h2 ⊢
    simp only [List.foldl_cons]
    exact ⟨h1.1.trans h2.1, h1.2.trans h2.2⟩

/-! ### the amount comparisons are value_t's -/

theorem eval_amtGt_value (m : Matcher) (payee : String) (p : FPost) (n : Int) :
    Value.gt (.amt p.amount) (.int n) = .ok ((Pred.amtGt n).eval m payee p) := by
  simp only [Value.gt, Value.lt, Amount.cmp, Pred.eval, Amount.ofInt, Amount.hasComm]
  have : ¬ (p.amount.comm ≠ "" ∧ ("" : String) ≠ "" ∧ p.amount.comm ≠ "") := by simp
  simp only [Except.map]
  by_cases h1 : p.amount.q < (n : Rat)
  · have : ¬ ((n : Rat) < p.amount.q) := by grind
    simp [h1, this]
  · by_cases h2 : p.amount.q = (n : Rat)
    · simp [h2, Rat.lt_irrefl]
    · have : (n : Rat) < p.amount.q := by grind
      simp [h1, h2, this]

end AutoXact
end Ledger
