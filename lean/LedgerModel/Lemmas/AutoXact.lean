/-
Helper lemmas for C16: the memoised quick matcher refines the general
evaluator; the code-shaped loop refines the stateless specification; closed
forms for any()/all()-free predicates; journal-level invariants of `load`.
-/
import LedgerModel.Model.AutoXact

namespace Ledger
namespace AutoXact

/-! ### amounts -/

theorem clampPrec_q (env : PrecEnv) (a : Amount) : (Amount.clampPrec env a).q = a.q := by
  unfold Amount.clampPrec; split <;> rfl

theorem clampPrec_comm (env : PrecEnv) (a : Amount) : (Amount.clampPrec env a).comm = a.comm := by
  unfold Amount.clampPrec; split <;> rfl

theorem mul_q (env : PrecEnv) (a b : Amount) : (Amount.mul env a b).q = a.q * b.q := by
  unfold Amount.mul; rw [clampPrec_q]

theorem mul_comm_field (env : PrecEnv) (a b : Amount) :
    (Amount.mul env a b).comm = if a.hasComm then a.comm else b.comm := by
  unfold Amount.mul; rw [clampPrec_comm]

/-! ### notes only touch the note -/

theorem appendNote_fields (p : FPost) (t : String) :
    (p.appendNote t).account = p.account ∧ (p.appendNote t).kind = p.kind ∧ (p.appendNote t).state = p.state ∧
    (p.appendNote t).amount = p.amount ∧ (p.appendNote t).cost = p.cost ∧ (p.appendNote t).line = p.line ∧
    (p.appendNote t).generated = p.generated ∧ (p.appendNote t).calculated = p.calculated :=
  ⟨rfl, rfl, rfl, rfl, rfl, rfl, rfl, rfl⟩

/-- two postings that differ at most in their note -/
def SameButNote (p q : FPost) : Prop :=
  p.account = q.account ∧ p.kind = q.kind ∧ p.state = q.state ∧ p.amount = q.amount ∧ p.cost = q.cost ∧
  p.line = q.line ∧ p.generated = q.generated ∧ p.calculated = q.calculated

theorem SameButNote.refl (p : FPost) : SameButNote p p := ⟨rfl, rfl, rfl, rfl, rfl, rfl, rfl, rfl⟩

theorem SameButNote.trans {p q s : FPost} (h1 : SameButNote p q) (h2 : SameButNote q s) : SameButNote p s := by
  obtain ⟨a1, a2, a3, a4, a5, a6, a7, a8⟩ := h1
  obtain ⟨b1, b2, b3, b4, b5, b6, b7, b8⟩ := h2
  exact ⟨a1.trans b1, a2.trans b2, a3.trans b3, a4.trans b4, a5.trans b5, a6.trans b6, a7.trans b7, a8.trans b8⟩

theorem foldl_appendNote_same (ts : List String) : ∀ (p : FPost), SameButNote (ts.foldl FPost.appendNote p) p := by
  induction ts with
  | nil => intro p; exact SameButNote.refl p
  | cons t ts ih =>
    intro p
    simp only [List.foldl_cons]
    exact (ih (p.appendNote t)).trans (appendNote_fields p t)

theorem foldl_appendNote_note (ts : List String) :
    ∀ (p : FPost), (ts.foldl FPost.appendNote p).note =
      ts.foldl (fun (n : Option String) t => some (match n with
                                                    | some s => s ++ "\n" ++ t
                                                    | none => t)) p.note := by
  induction ts with
  | nil => intro p; rfl
  | cons t ts ih => intro p; simp only [List.foldl_cons]; rw [ih]; rfl

theorem annotate_same (r : Rule) (p : FPost) : SameButNote (annotate r p) p :=
  foldl_appendNote_same _ p

/-! ### the predicate does not read notes; any()/all()-free predicates do not read the context -/

theorem eval_sameButNote (m : Matcher) (ctx : List FPost) (payee : String) (p q : FPost) (h : SameButNote p q) :
    ∀ pr : Pred, pr.anyFree = true → pr.eval m ctx payee p = pr.eval m ctx payee q := by
  intro pr
  induction pr with
  | const c => intro _; rfl
  | acct pat => intro _; simp [Pred.eval, h.1]
  | payee pat => intro _; rfl
  | amtGt n => intro _; simp [Pred.eval, h.2.2.2.1]
  | amtLt n => intro _; simp [Pred.eval, h.2.2.2.1]
  | amtGe n => intro _; simp [Pred.eval, h.2.2.2.1]
  | amtLe n => intro _; simp [Pred.eval, h.2.2.2.1]
  | not a iha => intro hf; simp only [Pred.anyFree] at hf; simp [Pred.eval, iha hf]
  | and a b iha ihb =>
    intro hf; simp only [Pred.anyFree, Bool.and_eq_true] at hf; simp [Pred.eval, iha hf.1, ihb hf.2]
  | or a b iha ihb =>
    intro hf; simp only [Pred.anyFree, Bool.and_eq_true] at hf; simp [Pred.eval, iha hf.1, ihb hf.2]
  | ite c a b ihc iha ihb =>
    intro hf; simp only [Pred.anyFree, Bool.and_eq_true] at hf
    simp [Pred.eval, ihc hf.1.1, iha hf.1.2, ihb hf.2]
  | any a _ => intro hf; simp [Pred.anyFree] at hf
  | all a _ => intro hf; simp [Pred.anyFree] at hf

theorem eval_anyFree_ctx (m : Matcher) (ctx ctx' : List FPost) (payee : String) (p : FPost) :
    ∀ pr : Pred, pr.anyFree = true → pr.eval m ctx payee p = pr.eval m ctx' payee p := by
  intro pr
  induction pr with
  | const c => intro _; rfl
  | acct pat => intro _; rfl
  | payee pat => intro _; rfl
  | amtGt n => intro _; rfl
  | amtLt n => intro _; rfl
  | amtGe n => intro _; rfl
  | amtLe n => intro _; rfl
  | not a iha => intro hf; simp only [Pred.anyFree] at hf; simp [Pred.eval, iha hf]
  | and a b iha ihb =>
    intro hf; simp only [Pred.anyFree, Bool.and_eq_true] at hf; simp [Pred.eval, iha hf.1, ihb hf.2]
  | or a b iha ihb =>
    intro hf; simp only [Pred.anyFree, Bool.and_eq_true] at hf; simp [Pred.eval, iha hf.1, ihb hf.2]
  | ite c a b ihc iha ihb =>
    intro hf; simp only [Pred.anyFree, Bool.and_eq_true] at hf
    simp [Pred.eval, ihc hf.1.1, iha hf.1.2, ihb hf.2]
  | any a _ => intro hf; simp [Pred.anyFree] at hf
  | all a _ => intro hf; simp [Pred.anyFree] at hf

/-! ### quick evaluator -/

theorem quick_sound (m : Matcher) (ctx : List FPost) (payee : String) (p : FPost) :
    ∀ (pr : Pred) (b : Bool), pr.quick m p.account = some b → pr.eval m ctx payee p = b := by
  intro pr
  induction pr with
  | const c => intro b h; simp [Pred.quick] at h; simp [Pred.eval, h]
  | acct pat => intro b h; simp [Pred.quick] at h; simp [Pred.eval, h]
  | payee pat => intro b h; simp [Pred.quick] at h
  | amtGt n => intro b h; simp [Pred.quick] at h
  | amtLt n => intro b h; simp [Pred.quick] at h
  | amtGe n => intro b h; simp [Pred.quick] at h
  | amtLe n => intro b h; simp [Pred.quick] at h
  | any a _ => intro b h; simp [Pred.quick] at h
  | all a _ => intro b h; simp [Pred.quick] at h
  | not a iha =>
    intro b h
    simp only [Pred.quick, Option.map_eq_some_iff] at h
    obtain ⟨c, hc, rfl⟩ := h
    simp [Pred.eval, iha c hc]
  | and a b iha ihb =>
    intro r h
    simp only [Pred.quick] at h
    split at h
    · cases h
    · cases h; rename_i ha; simp [Pred.eval, iha false ha]
    · rename_i ha; simp [Pred.eval, iha true ha, ihb r h]
  | or a b iha ihb =>
    intro r h
    simp only [Pred.quick] at h
    split at h
    · cases h
    · cases h; rename_i ha; simp [Pred.eval, iha true ha]
    · rename_i ha; simp [Pred.eval, iha false ha, ihb r h]
  | ite c a b ihc iha ihb =>
    intro r h
    simp only [Pred.quick] at h
    split at h
    · cases h
    · rename_i hc; simp [Pred.eval, ihc true hc, iha r h]
    · rename_i hc; simp [Pred.eval, ihc false hc, ihb r h]

/-- Invariant of a rule's matching state: every memoised answer is what the
    quick evaluator returns for that account name. -/
def MemoOK (m : Matcher) (pr : Pred) (st : RState) : Prop :=
  ∀ a b, st.memo.lookup a = some b → pr.quick m a = some b

theorem memoOK_init (m : Matcher) (pr : Pred) : MemoOK m pr RState.init := by
  intro a b h; simp [RState.init] at h

theorem matchPost_fst (m : Matcher) (pr : Pred) (ctx : List FPost) (payee : String) (st : RState) (p : FPost)
    (h : MemoOK m pr st) : (matchPost m pr ctx payee st p).1 = pr.eval m ctx payee p := by
  unfold matchPost
  split
  · split
    · rename_i b hb
      exact (quick_sound m ctx payee p pr b (h _ _ hb)).symm
    · split
      · rename_i b hb
        exact (quick_sound m ctx payee p pr b hb).symm
      · rfl
  · rfl

theorem matchPost_ok (m : Matcher) (pr : Pred) (ctx : List FPost) (payee : String) (st : RState) (p : FPost)
    (h : MemoOK m pr st) : MemoOK m pr (matchPost m pr ctx payee st p).2 := by
  unfold matchPost
  split
  · split
    · exact h
    · split
      · rename_i b hb
        intro a c hl
        simp only [List.lookup_cons] at hl
        split at hl
        · rename_i heq
          have : a = p.account := by simpa using heq
          cases hl; rw [this]; exact hb
        · exact h a c hl
      · intro a c hl; exact h a c hl
  · exact h

/-! ### the loop: code refines specification -/

theorem loop_nil {σ : Type} (dec : σ → List FPost → FPost → Bool × σ) (env : PrecEnv) (r : Rule) (x : FXact)
    (st : σ) (done added : List FPost) (w : Nat) :
    loop dec env r x st done [] added w = (st, .ok { origs := done, added := added, warns := w }) := by
  rw [loop]

theorem loop_cons {σ : Type} (dec : σ → List FPost → FPost → Bool × σ) (env : PrecEnv) (r : Rule) (x : FXact)
    (st : σ) (done : List FPost) (ip : FPost) (rest added : List FPost) (w : Nat) :
    loop dec env r x st done (ip :: rest) added w =
      if ip.generated then loop dec env r x st (done ++ [ip]) rest added w
      else
        if (dec st (done ++ ip :: rest ++ added) ip).1 then
          match runChecks env (annotate r ip) r.checks with
          | .error e => ((dec st (done ++ ip :: rest ++ added) ip).2, .error e)
          | .ok k =>
            match genLines env r x (annotate r ip) 0 r.lines with
            | .error e => ((dec st (done ++ ip :: rest ++ added) ip).2, .error e)
            | .ok gens => loop dec env r x (dec st (done ++ ip :: rest ++ added) ip).2 (done ++ [annotate r ip]) rest
                            (added ++ gens) (w + k)
        else loop dec env r x (dec st (done ++ ip :: rest ++ added) ip).2 (done ++ [ip]) rest added w := by
  rw [loop]; rfl

/-- the decision procedure of the code and of the specification -/
def decCode (m : Matcher) (r : Rule) (x : FXact) : RState → List FPost → FPost → Bool × RState :=
  fun s ctx ip => matchPost m r.pred ctx x.payee s ip

def decSpec (m : Matcher) (r : Rule) (x : FXact) : Unit → List FPost → FPost → Bool × Unit :=
  fun u ctx ip => (r.pred.eval m ctx x.payee ip, u)

theorem loop_refines (m : Matcher) (env : PrecEnv) (r : Rule) (x : FXact) :
    ∀ (rest : List FPost) (st : RState) (done added : List FPost) (w : Nat), MemoOK m r.pred st →
      (loop (decCode m r x) env r x st done rest added w).2 =
        (loop (decSpec m r x) env r x () done rest added w).2 ∧
      MemoOK m r.pred (loop (decCode m r x) env r x st done rest added w).1 := by
  intro rest
  induction rest with
  | nil => intro st done added w h; rw [loop_nil, loop_nil]; exact ⟨rfl, h⟩
  | cons ip rest ih =>
    intro st done added w h
    rw [loop_cons, loop_cons]
    by_cases hg : ip.generated = true
    · simp only [hg, if_true]
      exact ih st _ _ _ h
    · simp only [hg, Bool.false_eq_true, if_false]
      have h1 : (decCode m r x st (done ++ ip :: rest ++ added) ip).1 =
          (decSpec m r x () (done ++ ip :: rest ++ added) ip).1 :=
        matchPost_fst m r.pred _ x.payee st ip h
      have h2 : MemoOK m r.pred (decCode m r x st (done ++ ip :: rest ++ added) ip).2 :=
        matchPost_ok m r.pred _ x.payee st ip h
      rw [h1]
      by_cases hm : (decSpec m r x () (done ++ ip :: rest ++ added) ip).1 = true
      · simp only [hm, if_true]
        cases runChecks env (annotate r ip) r.checks with
        | error e => exact ⟨rfl, h2⟩
        | ok k =>
          cases genLines env r x (annotate r ip) 0 r.lines with
          | error e => exact ⟨rfl, h2⟩
          | ok gens => exact ih _ _ _ _ h2
      · simp only [hm, Bool.false_eq_true, if_false]
        exact ih _ _ _ _ h2

theorem extendGo_refines (m : Matcher) (env : PrecEnv) (r : Rule) (x : FXact) (st : RState)
    (h : MemoOK m r.pred st) :
    (extendGo m env r x st).2 = specGo m env r x ∧ MemoOK m r.pred (extendGo m env r x st).1 :=
  loop_refines m env r x x.posts st [] [] 0 h

theorem extend_refines (m : Matcher) (env : PrecEnv) (r : Rule) (st : RState) (x : FXact)
    (h : MemoOK m r.pred st) :
    (extend m env r st x).2 = extendSpec m env r x ∧ MemoOK m r.pred (extend m env r st x).1 := by
  have := extendGo_refines m env r x st h
  unfold extend extendSpec
  exact ⟨by rw [this.1], this.2⟩

/-! ### what the specification loop produces, for every predicate -/

/-- generic facts about a successful run of the loop: the originals stay in
    place (pointwise equal up to the note), everything appended is flagged
    generated. -/
theorem genPost_generated {env : PrecEnv} {r : Rule} {x : FXact} {ip : FPost} {i : Nat} {l : RuleLine} {g : FPost}
    (h : genPost env r x ip i l = .ok g) : g.generated = true := by
  unfold genPost at h
  split at h
  · cases h
  · cases h
    exact (foldl_appendNote_same _ _).2.2.2.2.2.2.1

theorem genLines_generated {env : PrecEnv} {r : Rule} {x : FXact} {ip : FPost} :
    ∀ (ls : List RuleLine) (i : Nat) (gs : List FPost), genLines env r x ip i ls = .ok gs →
      ∀ g ∈ gs, g.generated = true := by
  intro ls
  induction ls with
  | nil => intro i gs h; simp [genLines] at h; subst h; intro g hg; cases hg
  | cons l ls ih =>
    intro i gs h
    simp only [genLines] at h
    split at h
    · cases h
    · rename_i g0 hg0
      split at h
      · cases h
      · rename_i gs0 hgs0
        cases h
        intro g hg
        rcases List.mem_cons.mp hg with rfl | hg
        · exact genPost_generated hg0
        · exact ih _ _ hgs0 g hg

theorem genLines_length {env : PrecEnv} {r : Rule} {x : FXact} {ip : FPost} :
    ∀ (ls : List RuleLine) (i : Nat) (gs : List FPost), genLines env r x ip i ls = .ok gs → gs.length = ls.length := by
  intro ls
  induction ls with
  | nil => intro i gs h; simp [genLines] at h; subst h; rfl
  | cons l ls ih =>
    intro i gs h
    simp only [genLines] at h
    split at h
    · cases h
    · split at h
      · cases h
      · rename_i gs0 hgs0
        cases h
        simp [ih _ _ hgs0]

theorem genLines_get {env : PrecEnv} {r : Rule} {x : FXact} {ip : FPost} :
    ∀ (ls : List RuleLine) (i : Nat) (gs : List FPost), genLines env r x ip i ls = .ok gs →
      ∀ (k : Nat) (l : RuleLine), ls[k]? = some l → ∃ g, gs[k]? = some g ∧ genPost env r x ip (i + k) l = .ok g := by
  intro ls
  induction ls with
  | nil => intro i gs _ k l hk; simp at hk
  | cons l0 ls ih =>
    intro i gs h k l hk
    simp only [genLines] at h
    split at h
    · cases h
    · rename_i g0 hg0
      split at h
      · cases h
      · rename_i gs0 hgs0
        cases h
        cases k with
        | zero =>
          simp at hk; subst hk
          exact ⟨g0, by simp, by simpa using hg0⟩
        | succ k =>
          simp at hk
          obtain ⟨g, hg1, hg2⟩ := ih _ _ hgs0 k l hk
          refine ⟨g, by simpa using hg1, ?_⟩
          have : i + (k + 1) = i + 1 + k := by omega
          rw [this]; exact hg2

/-- two lists related position by position -/
inductive Pointwise {α : Type} (R : α → α → Prop) : List α → List α → Prop
  | nil : Pointwise R [] []
  | cons {a b : α} {as bs : List α} : R a b → Pointwise R as bs → Pointwise R (a :: as) (b :: bs)

theorem Pointwise.length_eq {α : Type} {R : α → α → Prop} {as bs : List α} (h : Pointwise R as bs) :
    as.length = bs.length := by
  induction h with
  | nil => rfl
  | cons _ _ ih => simp [ih]

theorem Pointwise.get {α : Type} {R : α → α → Prop} {as bs : List α} (h : Pointwise R as bs) :
    ∀ (k : Nat) (a b : α), as[k]? = some a → bs[k]? = some b → R a b := by
  induction h with
  | nil => intro k a b h1; simp at h1
  | cons hab _ ih =>
    intro k a b h1 h2
    cases k with
    | zero => simp at h1 h2; subst h1; subst h2; exact hab
    | succ k => simp at h1 h2; exact ih k a b h1 h2

theorem loop_shape {σ : Type} (dec : σ → List FPost → FPost → Bool × σ) (env : PrecEnv) (r : Rule) (x : FXact) :
    ∀ (rest : List FPost) (st : σ) (done added : List FPost) (w : Nat) (o : LoopOut),
      (loop dec env r x st done rest added w).2 = .ok o →
      (∃ rest', o.origs = done ++ rest' ∧ Pointwise SameButNote rest' rest) ∧
      (∃ more, o.added = added ++ more ∧ ∀ g ∈ more, g.generated = true) := by
  intro rest
  induction rest with
  | nil =>
    intro st done added w o h
    simp only [loop_nil] at h
    cases h
    exact ⟨⟨[], by simp, Pointwise.nil⟩, ⟨[], by simp, by intro g hg; cases hg⟩⟩
  | cons ip rest ih =>
    intro st done added w o h
    rw [loop_cons] at h
    by_cases hg : ip.generated = true
    · simp only [hg, if_true] at h
      obtain ⟨⟨rest', h1, h2⟩, h3⟩ := ih _ _ _ _ _ h
      exact ⟨⟨ip :: rest', by simp [h1], Pointwise.cons (SameButNote.refl ip) h2⟩, h3⟩
    · simp only [hg, Bool.false_eq_true, if_false] at h
      by_cases hm : (dec st (done ++ ip :: rest ++ added) ip).1 = true
      · simp only [hm, if_true] at h
        cases hc : runChecks env (annotate r ip) r.checks with
        | error e => rw [hc] at h; cases h
        | ok k =>
          rw [hc] at h
          cases hl : genLines env r x (annotate r ip) 0 r.lines with
          | error e => rw [hl] at h; cases h
          | ok gens =>
            rw [hl] at h
            obtain ⟨⟨rest', h1, h2⟩, ⟨more, h3, h4⟩⟩ := ih _ _ _ _ _ h
            refine ⟨⟨annotate r ip :: rest', by simp [h1], Pointwise.cons (annotate_same r ip) h2⟩,
                    ⟨gens ++ more, by simp [h3], ?_⟩⟩
            intro g hgm
            rcases List.mem_append.mp hgm with hgm | hgm
            · exact genLines_generated _ _ _ hl g hgm
            · exact h4 g hgm
      · simp only [hm, Bool.false_eq_true, if_false] at h
        obtain ⟨⟨rest', h1, h2⟩, h3⟩ := ih _ _ _ _ _ h
        exact ⟨⟨ip :: rest', by simp [h1], Pointwise.cons (SameButNote.refl ip) h2⟩, h3⟩

/-! ### closed form for predicates without any()/all() -/

/-- posting `p` is an original (not generated) posting that satisfies the rule's
    (context-free) predicate. -/
def Rule.matches (m : Matcher) (r : Rule) (payee : String) (p : FPost) : Bool :=
  !p.generated && r.pred.eval m [] payee p

/-- the postings the rule's lines yield for matched posting `ip` (`[]` if a line
    raises — then the whole extension is an error anyway). -/
def gensOf (env : PrecEnv) (r : Rule) (x : FXact) (ip : FPost) : List FPost :=
  match genLines env r x (annotate r ip) 0 r.lines with
  | .ok gs => gs
  | .error _ => []

/-- the original postings after the pass: matched ones carry the rule-level notes. -/
def mark (m : Matcher) (r : Rule) (payee : String) (p : FPost) : FPost :=
  if r.matches m payee p then annotate r p else p

/-- what rule `r` adds for the posting list `ps`: for each matching posting in
    order, one posting per rule line in order. -/
def additions (m : Matcher) (env : PrecEnv) (r : Rule) (x : FXact) (ps : List FPost) : List FPost :=
  (ps.filter (r.matches m x.payee)).flatMap (gensOf env r x)

/-- the number of `check` warnings for matched posting `ip` (0 if a line raises). -/
def warnsOf (env : PrecEnv) (r : Rule) (ip : FPost) : Nat :=
  match runChecks env (annotate r ip) r.checks with
  | .ok k => k
  | .error _ => 0

theorem loop_closed (m : Matcher) (env : PrecEnv) (r : Rule) (x : FXact) (haf : r.pred.anyFree = true) :
    ∀ (rest : List FPost) (done added : List FPost) (w : Nat) (o : LoopOut),
      (loop (decSpec m r x) env r x () done rest added w).2 = .ok o →
      o.origs = done ++ rest.map (mark m r x.payee) ∧
      o.added = added ++ additions m env r x rest ∧
      o.warns = w + ((rest.filter (r.matches m x.payee)).map (warnsOf env r)).sum ∧
      ∀ ip ∈ rest, r.matches m x.payee ip = true →
        (∃ k, runChecks env (annotate r ip) r.checks = .ok k) ∧
        (∃ gs, genLines env r x (annotate r ip) 0 r.lines = .ok gs) := by
  intro rest
  induction rest with
  | nil =>
    intro done added w o h
    rw [loop_nil] at h
    cases h
    simp [additions]
  | cons ip rest ih =>
    intro done added w o h
    rw [loop_cons] at h
    by_cases hg : ip.generated = true
    · simp only [hg, if_true] at h
      obtain ⟨h1, h2, h3, h4⟩ := ih _ _ _ _ h
      have hm : r.matches m x.payee ip = false := by simp [Rule.matches, hg]
      refine ⟨by simp [h1, mark, hm], by simp [h2, additions, List.filter_cons, hm],
              by simp [h3, List.filter_cons, hm], ?_⟩
      intro q hq hqm
      rcases List.mem_cons.mp hq with rfl | hq
      · rw [hm] at hqm; cases hqm
      · exact h4 q hq hqm
    · simp only [hg, Bool.false_eq_true, if_false] at h
      have hg' : ip.generated = false := by simpa using hg
      have hev : (decSpec m r x () (done ++ ip :: rest ++ added) ip).1 = r.pred.eval m [] x.payee ip :=
        eval_anyFree_ctx m _ [] x.payee ip r.pred haf
      rw [hev] at h
      by_cases hm : r.pred.eval m [] x.payee ip = true
      · have hmm : r.matches m x.payee ip = true := by simp [Rule.matches, hg', hm]
        simp only [hm, if_true] at h
        cases hc : runChecks env (annotate r ip) r.checks with
        | error e => rw [hc] at h; cases h
        | ok k =>
          rw [hc] at h
          cases hl : genLines env r x (annotate r ip) 0 r.lines with
          | error e => rw [hl] at h; cases h
          | ok gens =>
            rw [hl] at h
            obtain ⟨h1, h2, h3, h4⟩ := ih _ _ _ _ h
            refine ⟨by simp [h1, mark, hmm], by simp [h2, additions, List.filter_cons, hmm, gensOf, hl],
                    by simp [h3, List.filter_cons, hmm, warnsOf, hc]; omega, ?_⟩
            intro q hq hqm
            rcases List.mem_cons.mp hq with rfl | hq
            · exact ⟨⟨k, hc⟩, ⟨gens, hl⟩⟩
            · exact h4 q hq hqm
      · have hmm : r.matches m x.payee ip = false := by simp [Rule.matches, hm]
        simp only [hm, Bool.false_eq_true, if_false] at h
        obtain ⟨h1, h2, h3, h4⟩ := ih _ _ _ _ h
        refine ⟨by simp [h1, mark, hmm], by simp [h2, additions, List.filter_cons, hmm],
                by simp [h3, List.filter_cons, hmm], ?_⟩
        intro q hq hqm
        rcases List.mem_cons.mp hq with rfl | hq
        · rw [hmm] at hqm; cases hqm
        · exact h4 q hq hqm

theorem specGo_closed (m : Matcher) (env : PrecEnv) (r : Rule) (x : FXact) (haf : r.pred.anyFree = true)
    (o : LoopOut) (h : specGo m env r x = .ok o) :
    o.origs = x.posts.map (mark m r x.payee) ∧ o.added = additions m env r x x.posts ∧
    o.warns = ((x.posts.filter (r.matches m x.payee)).map (warnsOf env r)).sum ∧
    ∀ ip ∈ x.posts, r.matches m x.payee ip = true →
      (∃ k, runChecks env (annotate r ip) r.checks = .ok k) ∧
      (∃ gs, genLines env r x (annotate r ip) 0 r.lines = .ok gs) := by
  have := loop_closed m env r x haf x.posts [] [] 0 o h
  simpa using this

theorem additions_append (m : Matcher) (env : PrecEnv) (r : Rule) (x : FXact) (ps qs : List FPost) :
    additions m env r x (ps ++ qs) = additions m env r x ps ++ additions m env r x qs := by
  unfold additions; simp [List.filter_append, List.flatMap_append]

theorem additions_generated (m : Matcher) (env : PrecEnv) (r : Rule) (x : FXact) (gs : List FPost)
    (h : ∀ g ∈ gs, g.generated = true) : additions m env r x gs = [] := by
  unfold additions
  have : gs.filter (r.matches m x.payee) = [] := by
    apply List.filter_eq_nil_iff.mpr
    intro g hg
    simp [Rule.matches, h g hg]
  simp [this]

theorem mem_gensOf_generated (env : PrecEnv) (r : Rule) (x : FXact) (ip g : FPost) (h : g ∈ gensOf env r x ip) :
    g.generated = true := by
  unfold gensOf at h
  split at h
  · rename_i gs hgs; exact genLines_generated _ _ _ hgs g h
  · cases h

theorem mem_additions_generated (m : Matcher) (env : PrecEnv) (r : Rule) (x : FXact) (ps : List FPost)
    (g : FPost) (h : g ∈ additions m env r x ps) : g.generated = true := by
  unfold additions at h
  simp only [List.mem_flatMap] at h
  obtain ⟨ip, _, hg⟩ := h
  exact mem_gensOf_generated env r x ip g hg

/-- the generated postings do not depend on the matched posting's note or cost:
    they read its account and amount only. -/
theorem genAmount_congr (env : PrecEnv) (a : RAmt) (p q : FPost) (h : p.amount = q.amount) :
    genAmount env a p = genAmount env a q := by
  unfold genAmount evalPostExpr; rw [h]

theorem genPost_congr (env : PrecEnv) (r : Rule) (x : FXact) (p q : FPost) (ha : p.amount = q.amount)
    (hc : p.account = q.account) (i : Nat) (l : RuleLine) : genPost env r x p i l = genPost env r x q i l := by
  unfold genPost; rw [genAmount_congr env l.amt p q ha, hc]

theorem genLines_congr (env : PrecEnv) (r : Rule) (x : FXact) (p q : FPost) (ha : p.amount = q.amount)
    (hc : p.account = q.account) : ∀ (ls : List RuleLine) (i : Nat), genLines env r x p i ls = genLines env r x q i ls := by
  intro ls
  induction ls with
  | nil => intro i; rfl
  | cons l ls ih => intro i; simp only [genLines]; rw [genPost_congr env r x p q ha hc, ih]

theorem matches_same (m : Matcher) (r : Rule) (payee : String) (p q : FPost) (h : SameButNote p q)
    (haf : r.pred.anyFree = true) : r.matches m payee p = r.matches m payee q := by
  unfold Rule.matches
  rw [eval_sameButNote m [] payee p q h r.pred haf, h.2.2.2.2.2.2.1]

/-! ### verification after the loop -/

theorem finish_ok {env : PrecEnv} {x : FXact} {o : Except LErr LoopOut} {e : Ext} (h : finish env x o = .ok e) :
    ∃ lo, o = .ok lo ∧ e.xact = { x with posts := lo.origs ++ lo.added } ∧ e.added = lo.added ∧ e.warns = lo.warns ∧
      (lo.added.any FPost.mustBalance = true → verify env (lo.origs ++ lo.added) = .ok ()) := by
  unfold finish at h
  split at h
  · cases h
  · rename_i lo
    refine ⟨lo, rfl, ?_⟩
    simp only at h
    split at h
    · rename_i hmb
      split at h
      · cases h
      · rename_i hv
        cases h
        exact ⟨rfl, rfl, rfl, fun _ => hv⟩
    · rename_i hmb
      cases h
      exact ⟨rfl, rfl, rfl, fun hh => absurd hh hmb⟩

/-! ### all rules seen so far -/

/-- every rule's matching state satisfies its invariant. -/
def AllOK (m : Matcher) (rs : List (Rule × RState)) : Prop := ∀ p ∈ rs, MemoOK m p.1.pred p.2

theorem applyRules_spec (m : Matcher) (env : PrecEnv) :
    ∀ (rs : List (Rule × RState)) (x : FXact) (w : Nat), AllOK m rs →
      (applyRules m env rs x w).2 = applyRulesSpec m env (rs.map (·.1)) x w ∧
      (applyRules m env rs x w).1.map (·.1) = rs.map (·.1) ∧
      AllOK m (applyRules m env rs x w).1 := by
  intro rs
  induction rs with
  | nil => intro x w h; exact ⟨rfl, rfl, h⟩
  | cons p rs ih =>
    intro x w h
    obtain ⟨r, st⟩ := p
    have hst : MemoOK m r.pred st := h (r, st) (List.mem_cons_self ..)
    have hrs : AllOK m rs := fun q hq => h q (List.mem_cons_of_mem _ hq)
    have hc := extend_refines m env r st x hst
    unfold applyRules
    simp only [List.map_cons, applyRulesSpec]
    generalize hec : extend m env r st x = ec at hc
    obtain ⟨st', res⟩ := ec
    simp only at hc
    obtain ⟨hres, hok⟩ := hc
    rw [← hres]
    cases res with
    | error e =>
      refine ⟨rfl, rfl, ?_⟩
      intro q hq
      rcases List.mem_cons.mp hq with rfl | hq
      · exact hok
      · exact hrs q hq
    | ok e =>
      have := ih e.xact (w + e.warns) hrs
      refine ⟨this.1, by simp [this.2.1], ?_⟩
      intro q hq
      rcases List.mem_cons.mp hq with rfl | hq
      · exact hok
      · exact this.2.2 q hq

/-! ### journal level -/

theorem rulesOf_append (a b : List Item) : rulesOf (a ++ b) = rulesOf a ++ rulesOf b := by
  induction a with
  | nil => rfl
  | cons i is ih => cases i <;> simp [rulesOf, ih]

theorem step_allOK (m : Matcher) (s : LState) (it : Item) (h : AllOK m s.rules) :
    AllOK m (step m s it).rules ∧
    (step m s it).rules.map (·.1) = s.rules.map (·.1) ++ rulesOf [it] := by
  cases it with
  | rule r =>
    constructor
    · intro p hp
      simp only [step] at hp
      rcases List.mem_append.mp hp with h1 | h1
      · exact h p h1
      · simp at h1; subst h1; exact memoOK_init m r.pred
    · simp [step, rulesOf]
  | xact x =>
    simp only [step, rulesOf, List.append_nil]
    split
    · exact ⟨h, rfl⟩
    · rename_i fx _
      have := applyRules_spec m (PrecTable.get (s.prec.bumpAll (x.posts.filterMap (·.amount)))) s.rules fx 0 h
      split
      · exact ⟨this.2.2, this.2.1⟩
      · exact ⟨this.2.2, this.2.1⟩

theorem loadFrom_allOK (m : Matcher) :
    ∀ (items : List Item) (s : LState), AllOK m s.rules →
      AllOK m (loadFrom m s items).rules ∧
      (loadFrom m s items).rules.map (·.1) = s.rules.map (·.1) ++ rulesOf items := by
  intro items
  induction items with
  | nil => intro s h; simp [loadFrom, rulesOf, h]
  | cons it items ih =>
    intro s h
    have h1 := step_allOK m s it h
    have h2 := ih (step m s it) h1.1
    unfold loadFrom at h2 ⊢
    simp only [List.foldl_cons]
    refine ⟨h2.1, ?_⟩
    rw [h2.2, h1.2, List.append_assoc, ← rulesOf_append]
    rfl

theorem load_allOK (m : Matcher) (items : List Item) :
    AllOK m (load m items).rules ∧ (load m items).rules.map (·.1) = rulesOf items := by
  have := loadFrom_allOK m items LState.init (by intro p hp; simp [LState.init] at hp)
  simpa [load, LState.init] using this

theorem load_append (m : Matcher) (a b : List Item) :
    load m (a ++ b) = loadFrom m (load m a) b := by
  simp [load, loadFrom, List.foldl_append]

theorem load_snoc (m : Matcher) (a : List Item) (it : Item) :
    load m (a ++ [it]) = step m (load m a) it := by
  simp [load_append, loadFrom]

/-- a step only ever appends to the accepted transactions, to the errors and to the warnings. -/
theorem step_prefix (m : Matcher) (s : LState) (it : Item) :
    s.xacts <+: (step m s it).xacts ∧ s.errs <+: (step m s it).errs ∧ s.warns <+: (step m s it).warns := by
  cases it with
  | rule r => exact ⟨List.prefix_refl _, List.prefix_refl _, List.prefix_refl _⟩
  | xact x =>
    simp only [step]
    split
    · exact ⟨List.prefix_refl _, List.prefix_append _ _, List.prefix_refl _⟩
    · split
      · exact ⟨List.prefix_append _ _, List.prefix_refl _, List.prefix_append _ _⟩
      · exact ⟨List.prefix_refl _, List.prefix_append _ _, List.prefix_refl _⟩

theorem loadFrom_prefix (m : Matcher) :
    ∀ (items : List Item) (s : LState),
      s.xacts <+: (loadFrom m s items).xacts ∧ s.errs <+: (loadFrom m s items).errs ∧
      s.warns <+: (loadFrom m s items).warns := by
  intro items
  induction items with
  | nil => intro s; exact ⟨List.prefix_refl _, List.prefix_refl _, List.prefix_refl _⟩
  | cons it items ih =>
    intro s
    have h1 := step_prefix m s it
    have h2 := ih (step m s it)
    unfold loadFrom at h2 ⊢
    simp only [List.foldl_cons]
    exact ⟨h1.1.trans h2.1, h1.2.1.trans h2.2.1, h1.2.2.trans h2.2.2⟩

/-! ### check / assert lines -/

/-- the verdict of one check line on a posting: the expression's truth value, if it evaluates -/
def checkTruth (env : PrecEnv) (ip : FPost) (c : Check) : Option Bool :=
  match evalPostExpr env ip c.expr with
  | .ok v => some (v.truth env)
  | .error _ => none

theorem runChecks_check_only (env : PrecEnv) (ip : FPost) :
    ∀ cs : List Check, (∀ c ∈ cs, c.kind = .check ∧ (checkTruth env ip c).isSome) →
      runChecks env ip cs = .ok ((cs.filter (fun c => checkTruth env ip c = some false)).length) := by
  intro cs
  induction cs with
  | nil => intro _; rfl
  | cons c cs ih =>
    intro h
    have hc := h c (List.mem_cons_self ..)
    have hcs := ih (fun d hd => h d (List.mem_cons_of_mem _ hd))
    simp only [runChecks]
    cases hev : evalPostExpr env ip c.expr with
    | error e => have := hc.2; simp [checkTruth, hev] at this
    | ok v =>
      have hct : checkTruth env ip c = some (v.truth env) := by simp [checkTruth, hev]
      simp only [hc.1, hcs]
      by_cases ht : v.truth env = true
      · simp [List.filter_cons, hct, ht]
      · have : v.truth env = false := by simpa using ht
        simp [List.filter_cons, hct, this]

theorem runChecks_assert_iff (env : PrecEnv) (ip : FPost) :
    ∀ cs : List Check, runChecks env ip cs = .error .assertFailed ↔
      ∃ pre c post, cs = pre ++ c :: post ∧ c.kind = .assert ∧ checkTruth env ip c = some false ∧
        ∀ d ∈ pre, ∃ b, checkTruth env ip d = some b ∧ (d.kind = .assert → b = true) := by
  intro cs
  induction cs with
  | nil =>
    constructor
    · intro h; simp [runChecks] at h
    · rintro ⟨pre, c, post, h, _⟩; simp at h
  | cons c cs ih =>
    simp only [runChecks]
    cases hev : evalPostExpr env ip c.expr with
    | error e =>
      constructor
      · intro h; simp at h
      · rintro ⟨pre, c', post, h, hk, ht, hp⟩
        cases pre with
        | nil =>
          simp at h; obtain ⟨rfl, rfl⟩ := h
          simp [checkTruth, hev] at ht
        | cons d pre =>
          simp at h; obtain ⟨rfl, rfl⟩ := h
          obtain ⟨b, hb, _⟩ := hp c (List.mem_cons_self ..)
          simp [checkTruth, hev] at hb
    | ok v =>
      have hct : checkTruth env ip c = some (v.truth env) := by simp [checkTruth, hev]
      simp only
      constructor
      · intro h
        cases hk : c.kind with
        | general =>
          rw [hk] at h; simp only at h
          obtain ⟨pre, c', post, h1, h2, h3, h4⟩ := ih.mp h
          refine ⟨c :: pre, c', post, by simp [h1], h2, h3, ?_⟩
          intro d hd
          rcases List.mem_cons.mp hd with rfl | hd
          · exact ⟨v.truth env, hct, fun hh => by rw [hk] at hh; cases hh⟩
          · exact h4 d hd
        | assert =>
          rw [hk] at h; simp only at h
          by_cases ht : v.truth env = true
          · simp only [ht, if_true] at h
            obtain ⟨pre, c', post, h1, h2, h3, h4⟩ := ih.mp h
            refine ⟨c :: pre, c', post, by simp [h1], h2, h3, ?_⟩
            intro d hd
            rcases List.mem_cons.mp hd with rfl | hd
            · exact ⟨true, by rw [hct, ht], fun _ => rfl⟩
            · exact h4 d hd
          · have : v.truth env = false := by simpa using ht
            exact ⟨[], c, cs, rfl, hk, by rw [hct, this], by intro d hd; cases hd⟩
        | check =>
          rw [hk] at h; simp only at h
          cases hr : runChecks env ip cs with
          | error e =>
            rw [hr] at h; simp only at h
            cases h
            obtain ⟨pre, c', post, h1, h2, h3, h4⟩ := ih.mp hr
            refine ⟨c :: pre, c', post, by simp [h1], h2, h3, ?_⟩
            intro d hd
            rcases List.mem_cons.mp hd with rfl | hd
            · exact ⟨v.truth env, hct, fun hh => by rw [hk] at hh; cases hh⟩
            · exact h4 d hd
          | ok k => rw [hr] at h; simp at h
      · rintro ⟨pre, c', post, h, hk, ht, hp⟩
        cases pre with
        | nil =>
          simp at h; obtain ⟨rfl, rfl⟩ := h
          rw [hct] at ht
          have : v.truth env = false := by simpa using ht
          simp [hk, this]
        | cons d pre =>
          simp at h; obtain ⟨rfl, rfl⟩ := h
          have hrest : runChecks env ip (pre ++ c' :: post) = .error .assertFailed :=
            ih.mpr ⟨pre, c', post, rfl, hk, ht, fun d hd => hp d (List.mem_cons_of_mem _ hd)⟩
          obtain ⟨b, hb, hba⟩ := hp c (List.mem_cons_self ..)
          rw [hct] at hb
          cases hkc : c.kind with
          | general => simp [hrest]
          | assert =>
            have : v.truth env = true := by
              have := hba hkc; simp at hb; rw [hb]; exact this
            simp [this, hrest]
          | check => simp [hrest]

end AutoXact
end Ledger
