/-
Equality of balances decides equality of denotations exactly on well-formed
balances (one entry per commodity, no zero entry).  `balance_t::operator-=`
maintains that invariant, `operator+=` does not (it keeps an entry that cancels
to zero) — which is the recorded finding `C03:zero-entry-balance`.
-/
import Batteries.Data.List.Perm
import LedgerModel.Lemmas.Value

namespace Ledger

def Balance.comms (b : Balance) : List Comm := b.map (·.comm)

/-- the representation invariant equality relies on -/
def Balance.WF (b : Balance) : Prop := b.comms.Nodup ∧ ∀ x ∈ b, x.q ≠ 0

theorem Balance.den_eq_zero_of_not_mem (b : Balance) (c : Comm) (h : c ∉ b.comms) : b.den c = 0 := by
  induction b with
  | nil => rfl
  | cons x xs ih =>
    simp only [Balance.comms, List.map_cons, List.mem_cons, not_or] at h
    have hx : ¬ x.comm = c := fun e => h.1 e.symm
    have := ih (by simpa [Balance.comms] using h.2)
    simp only [Balance.den_cons, Amount.den, if_neg hx, this]; grind

theorem Balance.find?_cons (x : Amount) (xs : Balance) (c : Comm) :
    Balance.find? (x :: xs) c = if x.comm = c then some x else Balance.find? xs c := by
  simp only [Balance.find?, List.find?_cons]
  by_cases h : x.comm = c <;> simp [h]

theorem Balance.find?_some_comm {b : Balance} {c : Comm} {x : Amount} (h : b.find? c = some x) :
    x.comm = c := by
  have := List.find?_some h
  simpa using this

theorem Balance.find?_some_mem {b : Balance} {c : Comm} {x : Amount} (h : b.find? c = some x) :
    x ∈ b := List.mem_of_find?_eq_some h

theorem Balance.find?_none_iff (b : Balance) (c : Comm) : b.find? c = none ↔ c ∉ b.comms := by
  induction b with
  | nil => simp [Balance.find?, Balance.comms]
  | cons x xs ih =>
    rw [Balance.find?_cons]
    by_cases h : x.comm = c
    · simp [h, Balance.comms]
    · simp only [if_neg h, ih, Balance.comms, List.map_cons, List.mem_cons, not_or]
      constructor
      · intro h2; exact ⟨fun e => h e.symm, h2⟩
      · intro h2; exact h2.2

theorem Balance.den_eq_find (b : Balance) (hn : b.comms.Nodup) (c : Comm) :
    b.den c = match b.find? c with
              | some x => x.q
              | none => 0 := by
  induction b with
  | nil => simp [Balance.find?]
  | cons x xs ih =>
    have hn' : (x.comm :: Balance.comms xs).Nodup := by simpa [Balance.comms] using hn
    rw [List.nodup_cons] at hn'
    rw [Balance.find?_cons]
    by_cases h : x.comm = c
    · have hz : Balance.den xs c = 0 := Balance.den_eq_zero_of_not_mem xs c (h ▸ hn'.1)
      simp only [Balance.den_cons, Amount.den, if_pos h, hz]; grind
    · simp only [Balance.den_cons, Amount.den, if_neg h, ih hn'.2]; grind

theorem Balance.find?_self_of_mem {b : Balance} (hn : b.comms.Nodup) {x : Amount} (hx : x ∈ b) :
    b.find? x.comm = some x := by
  induction b with
  | nil => cases hx
  | cons y ys ih =>
    have hn' : (y.comm :: Balance.comms ys).Nodup := by simpa [Balance.comms] using hn
    rw [List.nodup_cons] at hn'
    rw [Balance.find?_cons]
    rcases List.mem_cons.mp hx with rfl | hmem
    · simp
    · have hne : ¬ y.comm = x.comm := by
        intro e
        apply hn'.1
        rw [e]
        exact List.mem_map_of_mem hmem
      simp only [if_neg hne]
      exact ih hn'.2 hmem

theorem Balance.mem_comms_of_find? {b : Balance} {c : Comm} {x : Amount} (h : b.find? c = some x) :
    c ∈ b.comms := by
  have h1 := Balance.find?_some_comm h
  have h2 := Balance.find?_some_mem h
  rw [← h1]
  exact List.mem_map_of_mem h2

/-- On well-formed balances `balance_t::operator==` decides equality of the exact
    denotations. -/
theorem Balance.eqBal_iff_den (a b : Balance) (ha : a.WF) (hb : b.WF) :
    Balance.eqBal a b = true ↔ ∀ c, a.den c = b.den c := by
  unfold Balance.eqBal
  simp only [decide_eq_true_eq, Bool.and_eq_true, Bool.decide_and, List.all_eq_true]
  constructor
  · rintro ⟨hlen, hall⟩ c
    have hsub : a.comms ⊆ b.comms := by
      intro d hd
      obtain ⟨x, hx, rfl⟩ := List.mem_map.mp hd
      have := hall x hx
      cases hf : Balance.find? b x.comm with
      | none => simp [hf] at this
      | some y => exact Balance.mem_comms_of_find? hf
    have hlen' : b.comms.length ≤ a.comms.length := by simp [Balance.comms, hlen]
    have hsub' : b.comms ⊆ a.comms :=
      ((List.subperm_of_subset ha.1 hsub).perm_of_length_le hlen').symm.subset
    rw [Balance.den_eq_find a ha.1 c, Balance.den_eq_find b hb.1 c]
    cases hfa : Balance.find? a c with
    | none =>
      have : c ∉ a.comms := (Balance.find?_none_iff a c).mp hfa
      have hnb : c ∉ b.comms := fun h => this (hsub' h)
      rw [(Balance.find?_none_iff b c).mpr hnb]
    | some x =>
      have hxc := Balance.find?_some_comm hfa
      have := hall x (Balance.find?_some_mem hfa)
      rw [hxc] at this
      cases hfb : Balance.find? b c with
      | none => simp [hfb] at this
      | some y =>
        simp only [hfb, Amount.eqv, decide_eq_true_eq, Bool.and_eq_true, Bool.decide_and] at this
        simp only []
        exact this.2
  · intro hden
    have key : ∀ (p q : Balance), p.WF → q.WF → (∀ c, p.den c = q.den c) →
        ∀ x ∈ p, ∃ y, Balance.find? q x.comm = some y ∧ y.q = x.q := by
      intro p q hp hq h x hx
      have h1 := Balance.den_eq_find p hp.1 x.comm
      rw [Balance.find?_self_of_mem hp.1 hx] at h1
      simp only [] at h1
      have h2 := Balance.den_eq_find q hq.1 x.comm
      cases hf : Balance.find? q x.comm with
      | none =>
        rw [hf] at h2
        simp only [] at h2
        have : x.q = 0 := by rw [← h1, h x.comm, h2]
        exact absurd this (hp.2 x hx)
      | some y =>
        rw [hf] at h2
        simp only [] at h2
        exact ⟨y, rfl, by rw [← h2, ← h x.comm, h1]⟩
    have sub : ∀ (p q : Balance), p.WF → q.WF → (∀ c, p.den c = q.den c) → p.comms ⊆ q.comms := by
      intro p q hp hq h d hd
      obtain ⟨x, hx, rfl⟩ := List.mem_map.mp hd
      obtain ⟨y, hy, -⟩ := key p q hp hq h x hx
      exact Balance.mem_comms_of_find? hy
    have s1 := sub a b ha hb hden
    have s2 := sub b a hb ha (fun c => (hden c).symm)
    have l1 := (List.subperm_of_subset ha.1 s1).length_le
    have l2 := (List.subperm_of_subset hb.1 s2).length_le
    refine ⟨?_, ?_⟩
    · simp only [Balance.comms, List.length_map] at l1 l2; omega
    · intro x hx
      obtain ⟨y, hy, hq⟩ := key a b ha hb hden x hx
      have hyc := Balance.find?_some_comm hy
      simp [hy, Amount.eqv, hyc, hq]

/-- `balance_t::operator-=` keeps the invariant: one entry per commodity, none zero. -/
theorem Balance.subAmt_WF (b : Balance) (a : Amount) (h : b.WF) : (Balance.subAmt b a).WF := by
  unfold Balance.subAmt
  split
  · exact h
  · rename_i ha
    induction b with
    | nil =>
      refine ⟨by simp [Balance.subGo, Balance.comms], ?_⟩
      intro x hx
      simp only [Balance.subGo, List.mem_singleton] at hx
      subst hx
      simp only [Amount.neg]; grind
    | cons x xs ih =>
      have hn' : (x.comm :: Balance.comms xs).Nodup := by simpa [Balance.comms] using h.1
      rw [List.nodup_cons] at hn'
      have hxs : Balance.WF xs := ⟨hn'.2, fun y hy => h.2 y (List.mem_cons_of_mem _ hy)⟩
      unfold Balance.subGo
      split
      · split
        · exact hxs
        · rename_i hc hne
          refine ⟨by simpa [Balance.comms] using h.1, ?_⟩
          intro y hy
          rcases List.mem_cons.mp hy with rfl | hmem
          · exact hne
          · exact h.2 y (List.mem_cons_of_mem _ hmem)
      · rename_i hc
        have ih' := ih hxs
        have hcomms : ∀ d, d ∈ Balance.comms (Balance.subGo xs a) → d ∈ Balance.comms xs ∨ d = a.comm := by
          intro d
          clear ih ih' hxs hn' h
          induction xs with
          | nil => simp [Balance.subGo, Balance.comms, Amount.neg]
          | cons z zs ihz =>
            unfold Balance.subGo
            split
            · split
              · intro hd; left; simp only [Balance.comms, List.map_cons, List.mem_cons]; right; simpa [Balance.comms] using hd
              · intro hd; left; simpa [Balance.comms] using hd
            · intro hd
              simp only [Balance.comms, List.map_cons, List.mem_cons] at hd ⊢
              rcases hd with rfl | hd
              · left; left; rfl
              · rcases ihz (by simpa [Balance.comms] using hd) with h1 | h1
                · left; right; simpa [Balance.comms] using h1
                · right; exact h1
        refine ⟨?_, ?_⟩
        · simp only [Balance.comms, List.map_cons]
          rw [List.nodup_cons]
          refine ⟨?_, by simpa [Balance.comms] using ih'.1⟩
          intro hmem
          rcases hcomms _ (by simpa [Balance.comms] using hmem) with h1 | h1
          · exact hn'.1 h1
          · exact hc h1
        · intro y hy
          rcases List.mem_cons.mp hy with rfl | hmem
          · exact h.2 _ (List.mem_cons_self ..)
          · exact ih'.2 y hmem

end Ledger
