/-
Helper lemmas for C11: number of bytes stored by the bounded-copy routines (for all
inputs, by induction on the input), termination measures of the alias and period
loops, recursion depth of the tiny recursive-descent parser.  Core Lean only.
-/
import LedgerModel.Model.Buffers
namespace Ledger.Buffers
theorem readInto_len_add (limit : Nat) (cond : Char → Bool) (w : Nat) (inp : List Char) :
    w ≤ limit → w + (readInto limit cond w inp).1.length ≤ limit := by
  fun_induction readInto limit cond w inp <;> intro h <;> simp_all <;> omega
theorem symbolLoop_len_add (limit : Nat) (valid : Char → Bool) (w : Nat) (inp : List Char) :
    w ≤ limit → w + (symbolLoop limit valid w inp).1.length ≤ limit := by
  fun_induction symbolLoop limit valid w inp <;> intro h <;> simp_all <;> omega

theorem readInto_len_le (limit : Nat) (cond : Char → Bool) (inp : List Char) :
    (readInto limit cond 0 inp).1.length ≤ limit := by
  have := readInto_len_add limit cond 0 inp (Nat.zero_le _); omega

theorem symbolLoop_len_le (limit : Nat) (valid : Char → Bool) (inp : List Char) :
    (symbolLoop limit valid 0 inp).1.length ≤ limit := by
  have := symbolLoop_len_add limit valid 0 inp (Nat.zero_le _); omega

/-- On input with no newline, no backslash and only accepted characters READ_INTO stores
    exactly the first `limit - w` bytes. -/
theorem readInto_plain (limit : Nat) (cond : Char → Bool) (w : Nat) (inp : List Char)
    (h : ∀ c ∈ inp, cond c = true ∧ c ≠ '\n' ∧ c ≠ '\\') :
    (readInto limit cond w inp).1 = inp.take (limit - w) := by
  fun_induction readInto limit cond w inp
  · simp
  · rename_i w c rest hstop
    have hc := h c (by simp)
    simp only [hc.1, hc.2.1, Bool.not_true, Bool.or_false, decide_false, Bool.false_or,
      Bool.not_eq_eq_eq_not, decide_eq_false_iff_not, Nat.not_lt] at hstop
    have : limit - w = 0 := by omega
    simp [this]
  · exact absurd rfl (h '\\' (by simp)).2.2
  · exact absurd rfl (h '\\' (by simp)).2.2
  · rename_i w c rest hstop hbs ih
    have hw : w < limit := by
      simp only [Bool.or_eq_true, not_or] at hstop
      simpa using hstop.2
    have e : limit - w = (limit - (w + 1)) + 1 := by omega
    rw [consFst_fst, e, List.take_succ_cons, ih (fun c hc => h c (by simp [hc]))]

theorem run_len_le (s : Site) (h : s.bounded = true) (inp : List Char) :
    (s.run inp).length ≤ s.limit + s.extra := by
  unfold Site.run
  cases hk : s.kind with
  | readInto cond => simp only [List.length_append, List.length_replicate]; have := readInto_len_le s.limit cond.test inp; omega
  | symbolLoop => simp only [List.length_append, List.length_replicate]; have := symbolLoop_len_le s.limit Cond.symbolChar.test inp; omega
  | guardedCopy =>
    simp only
    split
    · simp
    · simp only [List.length_append, List.length_replicate]; omega
  | boundedCopy => simp only [List.length_append, List.length_replicate, List.length_take]; omega
  | unboundedCopy => simp [Site.bounded, hk] at h

theorem inBounds_of_fits (s : Site) (h : s.fits = true) (inp : List Char) : s.inBounds inp := by
  unfold Site.fits at h
  simp only [Bool.and_eq_true, decide_eq_true_eq] at h
  have := run_len_le s h.1 inp
  unfold Site.inBounds
  unfold Site.maxWritten at h
  omega

/-- An unbounded site overflows on every payload of `overflowLen` bytes or more. -/
theorem unbounded_overflows (s : Site) (hk : s.kind = .unboundedCopy) (inp : List Char)
    (hl : s.overflowLen ≤ inp.length) : ¬ s.inBounds inp := by
  unfold Site.inBounds Site.run
  simp only [hk, List.length_append, List.length_replicate]
  unfold Site.overflowLen at hl
  omega

/-- A guarded copy whose guard lets `inp` through stores all of it plus the extra bytes. -/
theorem guarded_overflows (s : Site) (hk : s.kind = .guardedCopy) (inp : List Char)
    (h1 : inp.length ≤ s.limit)
    (h2 : s.capacity < s.offset + inp.length + s.extra + s.terminator) : ¬ s.inBounds inp := by
  unfold Site.inBounds Site.run
  have : ¬ inp.length > s.limit := by omega
  simp only [hk, this, if_false, List.length_append, List.length_replicate]
  omega

/-! ### parse_quantity -/

theorem parseQuantity_len_le (limit : Nat) (h : 1 ≤ limit) (inp : List Char) :
    (parseQuantity limit inp).1.length ≤ limit := by
  unfold parseQuantity
  split
  · simp only [List.length_cons]
    have := readInto_len_le (limit - 1) Cond.digitDotComma.test (by assumption)
    omega
  · exact readInto_len_le limit _ _

/-! ### format scanning -/

theorem formatScan_le (fuel i : Nat) (inp : List Char) (h : ∀ c ∈ inp, c ≠ '\\') :
    formatScanMaxRead fuel i inp ≤ i + inp.length := by
  induction fuel generalizing i inp with
  | zero => simp [formatScanMaxRead]
  | succ f ih =>
    cases inp with
    | nil => simp [formatScanMaxRead]
    | cons c rest =>
      have hc : c ≠ '\\' := h c (by simp)
      simp only [formatScanMaxRead, hc, if_false, List.length_cons]
      have := ih (i + 1) rest (fun c hc => h c (by simp [hc]))
      omega

/-- A format ending in a lone backslash makes the scanner read index `length + 1`,
    one past the terminating NUL. -/
theorem formatScan_overread (pre : List Char) (h : ∀ c ∈ pre, c ≠ '\\') (i : Nat) :
    formatScanMaxRead (pre.length + 1) i (pre ++ ['\\']) = i + (pre ++ ['\\']).length + 1 := by
  induction pre generalizing i with
  | nil => simp [formatScanMaxRead]
  | cons c rest ih =>
    have hc : c ≠ '\\' := h c (by simp)
    simp only [List.cons_append, List.length_cons, formatScanMaxRead, hc, if_false]
    rw [ih (fun c hc => h c (by simp [hc]))]
    simp only [List.length_append, List.length_cons, List.length_nil]
    omega

/-! ### stepping by a period -/

theorem stepTo_terminates (len : Nat) (hl : 0 < len) (fuel start date : Nat)
    (hf : date - start < fuel) : (stepTo len fuel start date).isSome = true := by
  induction fuel generalizing start with
  | zero => omega
  | succ f ih =>
    unfold stepTo
    split
    · split
      · apply ih; omega
      · rfl
    · rfl

/-- With a zero length the loop `while (start < date)` never leaves: whatever the fuel,
    no answer. -/
theorem stepTo_zero_diverges (fuel start date : Nat) (h : start < date) :
    stepTo 0 fuel start date = none := by
  induction fuel with
  | zero => rfl
  | succ f ih =>
    unfold stepTo
    simp only [h, if_true, Nat.add_zero]
    have : start ≤ date := by omega
    simp only [this, if_true]
    exact ih

/-! ### alias expansion -/

theorem countP_le_of {α} (p q : α → Bool) (l : List α) (hpq : ∀ x, p x = true → q x = true) :
    l.countP p ≤ l.countP q := by
  induction l with
  | nil => simp
  | cons a rest ih =>
    simp only [List.countP_cons]
    cases hp : p a with
    | false => simp; omega
    | true => simp [hpq a hp]; omega

theorem countP_lt_of {α} (p q : α → Bool) (l : List α) (hpq : ∀ x, p x = true → q x = true)
    (x : α) (hx : x ∈ l) (hqx : q x = true) (hpx : p x = false) : l.countP p < l.countP q := by
  induction l with
  | nil => simp at hx
  | cons a rest ih =>
    simp only [List.countP_cons]
    rcases List.mem_cons.mp hx with rfl | hm
    · have := countP_le_of p q rest hpq
      simp [hqx, hpx]; omega
    · have := ih hm
      cases hp : p a with
      | false => simp; omega
      | true => simp [hpq a hp]; omega

/-- aliases not yet expanded -/
def unseen (aliases : List (String × String)) (seen : List String) : Nat :=
  aliases.countP (fun kv => !seen.contains kv.1)

theorem lookupAlias_mem {aliases : List (String × String)} {k t : String}
    (h : lookupAlias aliases k = some t) : ∃ kv ∈ aliases, kv.1 = k := by
  unfold lookupAlias at h
  cases hf : aliases.find? (fun kv => kv.1 = k) with
  | none => simp [hf] at h
  | some kv =>
    refine ⟨kv, List.mem_of_find?_eq_some hf, ?_⟩
    have := List.find?_some hf
    simpa using this

theorem unseen_lt (aliases : List (String × String)) (seen : List String) (k : String)
    (hk : ∃ kv ∈ aliases, kv.1 = k) (hs : seen.contains k = false) :
    unseen aliases (k :: seen) < unseen aliases seen := by
  obtain ⟨kv, hm, hkv⟩ := hk
  unfold unseen
  apply countP_lt_of _ _ aliases _ kv hm
  · have : ¬ k ∈ seen := by simpa using hs
    simp [hkv, this]
  · simp [hkv]
  · intro x hx
    simp only [List.contains_cons, Bool.not_eq_true', Bool.or_eq_false_iff] at hx
    have : ¬ x.1 ∈ seen := by simpa using hx.2
    simp [this]

/-- The alias loop stops: with more fuel than there are aliases not yet expanded it never
    runs out.  Each round either stops or adds a key of the alias table to `already_seen`
    that was not there (otherwise "Infinite recursion" is thrown). -/
theorem expandAliases_fuel (aliases : List (String × String)) (recursive : Bool)
    (fuel : Nat) (seen : List String) (name : String) (h : unseen aliases seen < fuel) :
    expandAliases aliases recursive fuel seen name ≠ .outOfFuel := by
  induction fuel generalizing seen name with
  | zero => omega
  | succ f ih =>
    unfold expandAliases
    split
    · rename_i target hl
      split
      · simp
      · rename_i hs
        split
        · apply ih
          have := unseen_lt aliases seen name (lookupAlias_mem hl) (by simpa using hs)
          omega
        · simp
    · split
      · rename_i f' tail hseg
        split
        · rename_i target hl
          split
          · simp
          · rename_i hs
            split
            · apply ih
              have := unseen_lt aliases seen f' (lookupAlias_mem hl) (by simpa using hs)
              omega
            · simp
        · simp
      · simp

theorem unseen_le (aliases : List (String × String)) (seen : List String) :
    unseen aliases seen ≤ aliases.length := by
  unfold unseen; exact List.countP_le_length

/-! ### recursion depth of the tiny parser -/

def lpCount : List Tok → Nat
  | [] => 0
  | .lp :: rest => lpCount rest + 1
  | _ :: rest => lpCount rest

/-- `head? ≠ plus` -/
def notPlus : List Tok → Bool
  | .plus :: _ => false
  | _ => true

theorem parseRest_notPlus (fuel : Nat) (acc : Ast) (toks : List Tok) (d : Nat)
    (h : notPlus toks = true) : parseRest (fuel + 1) acc toks d = some (acc, toks, d) := by
  unfold parseRest
  cases toks with
  | nil => rfl
  | cons t rest => cases t <;> simp_all [notPlus]

theorem rep_cons_comm {α} (a : α) (n : Nat) (t : List α) :
    a :: (List.replicate n a ++ t) = List.replicate n a ++ a :: t := by
  induction n with
  | zero => rfl
  | succ n ih => simp only [List.replicate_succ, List.cons_append]; rw [ih]

theorem Ast.depth_pos (a : Ast) : 1 ≤ a.depth := by
  cases a <;> simp only [Ast.depth] <;> omega

/-- n nested parentheses around a number: the parser's recursion reaches depth n + 1. -/
theorem parseExpr_nested (n : Nat) : ∀ (fuel : Nat) (tail : List Tok), 2 * n + 2 ≤ fuel →
    notPlus tail = true →
    parseExpr fuel (List.replicate n .lp ++ [.num] ++ List.replicate n .rp ++ tail)
      = some (.num, tail, n + 1) := by
  induction n with
  | zero =>
    intro fuel tail hf hp
    obtain ⟨f, rfl⟩ : ∃ f, fuel = f + 2 := ⟨fuel - 2, by omega⟩
    simp only [List.replicate_zero, List.nil_append, List.append_nil, List.cons_append]
    unfold parseExpr parseTerm
    simp only
    exact parseRest_notPlus f .num tail 1 hp
  | succ n ih =>
    intro fuel tail hf hp
    obtain ⟨f, rfl⟩ : ∃ f, fuel = f + 2 := ⟨fuel - 2, by omega⟩
    have e : List.replicate (n + 1) Tok.lp ++ [Tok.num] ++ List.replicate (n + 1) Tok.rp ++ tail
        = Tok.lp :: (List.replicate n Tok.lp ++ [Tok.num] ++ List.replicate n Tok.rp ++ (Tok.rp :: tail)) := by
      simp only [List.replicate_succ, List.cons_append, List.append_assoc]
      congr 1; congr 1; congr 1
      exact rep_cons_comm Tok.rp n tail
    rw [e]
    unfold parseExpr parseTerm
    simp only
    rw [ih f (.rp :: tail) (by omega) rfl]
    simp only
    exact parseRest_notPlus f .num tail (n + 1 + 1) hp

theorem leftTree_depth (acc : Ast) (n : Nat) : (leftTree acc n).depth = acc.depth + n := by
  induction n generalizing acc with
  | zero => rfl
  | succ n ih =>
    simp only [leftTree]
    rw [ih]
    simp only [Ast.depth]
    have := Ast.depth_pos acc
    omega

theorem parseRest_plusNums (n : Nat) : ∀ (fuel : Nat) (acc : Ast) (d : Nat), n + 1 ≤ fuel → 1 ≤ d →
    parseRest (fuel + 1) acc (plusNums n) d = some (leftTree acc n, [], d) := by
  induction n with
  | zero => intro fuel acc d _ _; rfl
  | succ n ih =>
    intro fuel acc d hf hd
    obtain ⟨f, rfl⟩ : ∃ f, fuel = f + 1 := ⟨fuel - 1, by omega⟩
    simp only [plusNums]
    unfold parseRest parseTerm
    simp only
    have : max d (0 + 1) = d := by omega
    rw [this, ih f (.add acc .num) d (by omega) hd]
    rfl

/-- A flat chain of n additions parses with constant recursion depth but yields a tree of
    depth n + 1 (every later recursive walk of the tree – compile, calc, print, the
    destructor – recurses that deep). -/
theorem parseExpr_chain (n : Nat) (fuel : Nat) (hf : n + 3 ≤ fuel) :
    parseExpr fuel (chain n) = some (leftTree .num n, [], 1) := by
  obtain ⟨f, rfl⟩ : ∃ f, fuel = f + 3 := ⟨fuel - 3, by omega⟩
  unfold chain parseExpr parseTerm
  simp only
  exact parseRest_plusNums n (f + 1) .num 1 (by omega) (by omega)

/-- Upper bound, every token list: the depth reached is at most the number of `(`
    consumed plus one. -/
theorem parse_depth_bound (fuel : Nat) :
    (∀ toks a r d, parseTerm fuel toks = some (a, r, d) → d + lpCount r ≤ lpCount toks) ∧
    (∀ toks a r d, parseExpr fuel toks = some (a, r, d) → d + lpCount r ≤ lpCount toks + 1) ∧
    (∀ acc toks d0 a r d, parseRest fuel acc toks d0 = some (a, r, d) →
        d + lpCount r ≤ max d0 1 + lpCount toks) := by
  induction fuel with
  | zero => refine ⟨?_, ?_, ?_⟩ <;> intros <;> simp_all [parseTerm, parseExpr, parseRest]
  | succ f ih =>
    obtain ⟨ihT, ihE, ihR⟩ := ih
    refine ⟨?_, ?_, ?_⟩
    · intro toks a r d h
      unfold parseTerm at h
      split at h
      · cases h; simp [lpCount]
      · rename_i rest
        split at h
        · rename_i a' rest' d' he
          cases h
          have := ihE _ _ _ _ he
          simp only [lpCount] at this ⊢
          omega
        · cases h
      · cases h
    · intro toks a r d h
      unfold parseExpr at h
      split at h
      · rename_i a' rest d' ht
        have h1 := ihT _ _ _ _ ht
        have h2 := ihR _ _ _ _ _ _ h
        omega
      · cases h
    · intro acc toks d0 a r d h
      unfold parseRest at h
      split at h
      · rename_i rest
        split at h
        · rename_i b rest' d' ht
          have h1 := ihT _ _ _ _ ht
          have h2 := ihR _ _ _ _ _ _ h
          simp only [lpCount]
          omega
        · cases h
      · cases h
        omega

end Ledger.Buffers
