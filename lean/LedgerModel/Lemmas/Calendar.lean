/-
Lemmas about the proleptic Gregorian day-number functions of `Model/Calendar.lean`
(used by C14, C13, C20).  Everything is for ALL integers: no enumeration of days;
the only case splits are on the month (12 cases), the century within the
400-year era (4) and leap / non-leap.  Linear arithmetic with `/` and `%` by
literals is closed by `omega`.
-/
import LedgerModel.Model.Calendar

namespace Ledger.Cal

theorem isLeap_iff (y : Int) :
    isLeap y = true ↔ ((y % 4 = 0 ∧ y % 100 ≠ 0) ∨ y % 400 = 0) := by
  simp [isLeap]

theorem isLeap_false_iff (y : Int) :
    isLeap y = false ↔ ¬ ((y % 4 = 0 ∧ y % 100 ≠ 0) ∨ y % 400 = 0) := by
  rw [← isLeap_iff]; simp

/-- `validYMD` as a proposition `omega` can use (month by month). -/
theorem validYMD_iff (y m d : Int) :
    validYMD y m d = true ↔
      (1 ≤ m ∧ m ≤ 12 ∧ 1 ≤ d ∧ d ≤ 31 ∧
       ((m = 4 ∨ m = 6 ∨ m = 9 ∨ m = 11) → d ≤ 30) ∧
       (m = 2 → d ≤ 29) ∧
       (m = 2 → d = 29 → ((y % 4 = 0 ∧ y % 100 ≠ 0) ∨ y % 400 = 0))) := by
  unfold validYMD
  rw [decide_eq_true_iff]
  unfold daysInMonth
  by_cases hl : isLeap y = true
  · have := (isLeap_iff y).1 hl
    simp only [hl, if_true]
    split
    · omega
    · split <;> omega
  · have hl' : isLeap y = false := by simpa using hl
    have := (isLeap_false_iff y).1 hl'
    simp only [hl']
    split
    · simp only [Bool.false_eq_true, if_false]; omega
    · split <;> omega

/-! ### The arithmetic core (Hinnant's civil-from-days), in parametrised form -/

/-- year-of-era recovery: `doe = 36524 c + 1461 q + 365 s + doy` with century `c`,
    4-year cycle `q`, year in cycle `s`. -/
theorem yoe_core (c q s doy : Int) (hc0 : 0 ≤ c) (hc : c ≤ 3) (hq0 : 0 ≤ q) (hq : q ≤ 24)
    (hs0 : 0 ≤ s) (hs : s ≤ 3) (h2 : 0 ≤ doy)
    (h3 : doy ≤ 364 ∨ (doy = 365 ∧ s = 3 ∧ (q ≠ 24 ∨ c = 3))) (doe : Int)
    (hdoe : doe = 36524 * c + 1461 * q + 365 * s + doy) :
    (doe - doe / 1460 + doe / 36524 - doe / 146096) / 365 = 100 * c + 4 * q + s := by
  have hB : doe / 36524 = c ∨ (doe = 146096 ∧ c = 3) := by omega
  have hC : doe / 146096 = 0 ∨ doe = 146096 := by omega
  have hA : doe / 1460 = 25 * c + q ∨ doe / 1460 = 25 * c + q + 1 := by omega
  omega

/-- month recovery from the day of the (March-based) year. -/
theorem mp_core (mp d : Int) (h0 : 0 ≤ mp) (h1 : mp ≤ 11) (hd : 1 ≤ d) (hd31 : d ≤ 31)
    (h30 : (mp = 1 ∨ mp = 3 ∨ mp = 6 ∨ mp = 8) → d ≤ 30) (h29 : mp = 11 → d ≤ 29) :
    (5 * ((153 * mp + 2) / 5 + d - 1) + 2) / 153 = mp := by
  have : mp = 0 ∨ mp = 1 ∨ mp = 2 ∨ mp = 3 ∨ mp = 4 ∨ mp = 5 ∨ mp = 6 ∨ mp = 7 ∨ mp = 8 ∨
      mp = 9 ∨ mp = 10 ∨ mp = 11 := by omega
  rcases this with h | h | h | h | h | h | h | h | h | h | h | h <;> subst h <;> omega

/-- `toYMD` in terms of its intermediate quantities. -/
theorem toYMD_spec (n era doe yoe doy mp : Int)
    (h1 : n + 719468 = era * 146097 + doe) (hd0 : 0 ≤ doe) (hd1 : doe < 146097)
    (hyoe : (doe - doe / 1460 + doe / 36524 - doe / 146096) / 365 = yoe)
    (hdoy : doe - (365 * yoe + yoe / 4 - yoe / 100) = doy)
    (hmp : (5 * doy + 2) / 153 = mp) :
    toYMD n =
      (if (if mp < 10 then mp + 3 else mp - 9) ≤ 2 then yoe + era * 400 + 1 else yoe + era * 400,
       if mp < 10 then mp + 3 else mp - 9,
       doy - (153 * mp + 2) / 5 + 1) := by
  have e1 : (n + 719468) / 146097 = era := by omega
  have e2 : n + 719468 - era * 146097 = doe := by omega
  simp only [toYMD, e1, e2, hyoe, hdoy, hmp]

/-- `ofYMD` in terms of its intermediate quantities (`yp` is the March-based year). -/
theorem ofYMD_spec (y m d yp mp : Int)
    (hyp : yp = if m ≤ 2 then y - 1 else y) (hmp : mp = if m > 2 then m - 3 else m + 9) :
    ofYMD y m d =
      (yp / 400) * 146097 +
        ((yp - yp / 400 * 400) * 365 + (yp - yp / 400 * 400) / 4 - (yp - yp / 400 * 400) / 100 +
          ((153 * mp + 2) / 5 + d - 1)) - 719468 := by
  subst hyp hmp
  simp only [ofYMD]

/-- Day of the March-based year is at most 364, except for 29 February. -/
theorem doy_bounds (mp d : Int) (h0 : 0 ≤ mp) (h1 : mp ≤ 11) (hd : 1 ≤ d) (hd31 : d ≤ 31)
    (h30 : (mp = 1 ∨ mp = 3 ∨ mp = 6 ∨ mp = 8) → d ≤ 30) (h29 : mp = 11 → d ≤ 29) :
    0 ≤ (153 * mp + 2) / 5 + d - 1 ∧
      ((153 * mp + 2) / 5 + d - 1 ≤ 364 ∨ ((153 * mp + 2) / 5 + d - 1 = 365 ∧ mp = 11 ∧ d = 29)) := by
  have : mp = 0 ∨ mp = 1 ∨ mp = 2 ∨ mp = 3 ∨ mp = 4 ∨ mp = 5 ∨ mp = 6 ∨ mp = 7 ∨ mp = 8 ∨
      mp = 9 ∨ mp = 10 ∨ mp = 11 := by omega
  rcases this with h | h | h | h | h | h | h | h | h | h | h | h <;> subst h <;> omega

theorem yoe_decomp (yoe : Int) (h0 : 0 ≤ yoe) (h1 : yoe ≤ 399) :
    0 ≤ yoe / 100 ∧ yoe / 100 ≤ 3 ∧ 0 ≤ yoe % 100 / 4 ∧ yoe % 100 / 4 ≤ 24 ∧
      0 ≤ yoe % 4 ∧ yoe % 4 ≤ 3 ∧
      yoe * 365 + yoe / 4 - yoe / 100 =
        36524 * (yoe / 100) + 1461 * (yoe % 100 / 4) + 365 * (yoe % 4) ∧
      100 * (yoe / 100) + 4 * (yoe % 100 / 4) + yoe % 4 = yoe := by
  omega

/-- Year-of-era recovery stated on `yoe`, `doy` directly. -/
theorem yoe_recover (yoe doy doe : Int) (h0 : 0 ≤ yoe) (h1 : yoe ≤ 399) (h2 : 0 ≤ doy)
    (h3 : doy ≤ 364 ∨ (doy = 365 ∧ yoe % 4 = 3 ∧ (yoe % 100 ≠ 99 ∨ yoe = 399)))
    (hdoe : doe = yoe * 365 + yoe / 4 - yoe / 100 + doy) :
    (doe - doe / 1460 + doe / 36524 - doe / 146096) / 365 = yoe ∧ 0 ≤ doe ∧ doe < 146097 := by
  obtain ⟨a1, a2, a3, a4, a5, a6, a7, a8⟩ := yoe_decomp yoe h0 h1
  have h3' : doy ≤ 364 ∨ (doy = 365 ∧ yoe % 4 = 3 ∧ (yoe % 100 / 4 ≠ 24 ∨ yoe / 100 = 3)) := by
    omega
  have hd : doe = 36524 * (yoe / 100) + 1461 * (yoe % 100 / 4) + 365 * (yoe % 4) + doy := by
    omega
  have := yoe_core (yoe / 100) (yoe % 100 / 4) (yoe % 4) doy a1 a2 a3 a4 a5 a6 h2 h3' doe hd
  rw [a8] at this
  refine ⟨this, ?_, ?_⟩
  · omega
  · clear this h3
    generalize yoe / 100 = c at *
    generalize yoe % 100 / 4 = q at *
    generalize yoe % 4 = s at *
    omega

theorem leap_yoe (y yoe : Int) (hl : (y % 4 = 0 ∧ y % 100 ≠ 0) ∨ y % 400 = 0)
    (hyoe : yoe = (y - 1) - (y - 1) / 400 * 400) :
    yoe % 4 = 3 ∧ (yoe % 100 ≠ 99 ∨ yoe = 399) := by
  omega

/-- The round trip in March-based coordinates (`yp` March-based year, `mp` months since March). -/
theorem toYMD_of_parts (yp mp d era yoe doy doe : Int)
    (hera : era = yp / 400) (hyoe : yoe = yp - era * 400)
    (hdoy : doy = (153 * mp + 2) / 5 + d - 1)
    (hdoe : doe = yoe * 365 + yoe / 4 - yoe / 100 + doy)
    (hmp0 : 0 ≤ mp) (hmp11 : mp ≤ 11) (hd1 : 1 ≤ d) (hd31 : d ≤ 31)
    (h30 : (mp = 1 ∨ mp = 3 ∨ mp = 6 ∨ mp = 8) → d ≤ 30) (h29 : mp = 11 → d ≤ 29)
    (hleap : mp = 11 → d = 29 → (yoe % 4 = 3 ∧ (yoe % 100 ≠ 99 ∨ yoe = 399))) :
    toYMD (era * 146097 + doe - 719468) =
      (if (if mp < 10 then mp + 3 else mp - 9) ≤ 2 then yp + 1 else yp,
       if mp < 10 then mp + 3 else mp - 9, d) := by
  have hy0 : 0 ≤ yoe ∧ yoe ≤ 399 := by omega
  have hb := doy_bounds mp d hmp0 hmp11 hd1 hd31 h30 h29
  rw [← hdoy] at hb
  have h3 : doy ≤ 364 ∨ (doy = 365 ∧ yoe % 4 = 3 ∧ (yoe % 100 ≠ 99 ∨ yoe = 399)) := by
    rcases hb.2 with h | ⟨h, h', h''⟩
    · exact Or.inl h
    · exact Or.inr ⟨h, hleap h' h''⟩
  obtain ⟨hY, hdoe0, hdoe1⟩ := yoe_recover yoe doy doe hy0.1 hy0.2 hb.1 h3 hdoe
  have hMP := mp_core mp d hmp0 hmp11 hd1 hd31 h30 h29
  rw [← hdoy] at hMP
  have hD : doe - (365 * yoe + yoe / 4 - yoe / 100) = doy := by
    clear hMP hY h3 hb hleap h29 h30 hdoy hyoe hera
    omega
  rw [toYMD_spec (era * 146097 + doe - 719468) era doe yoe doy mp (by omega) hdoe0 hdoe1 hY hD hMP]
  have e1 : yoe + era * 400 = yp := by omega
  have e2 : doy - (153 * mp + 2) / 5 + 1 = d := by omega
  rw [e1, e2]

/-- Civil-from-days inverts days-from-civil on every real calendar date. -/
theorem toYMD_ofYMD (y m d : Int) (hv : validYMD y m d = true) :
    toYMD (ofYMD y m d) = (y, m, d) := by
  obtain ⟨hm1, hm12, hd1, hd31, h30, h29, hleap⟩ := (validYMD_iff y m d).1 hv
  by_cases hm : m ≤ 2
  · rw [ofYMD_spec y m d (y - 1) (m + 9) (by rw [if_pos hm]) (by rw [if_neg (by omega)])]
    rw [toYMD_of_parts (y - 1) (m + 9) d _ _ _ _ rfl rfl rfl rfl (by omega) (by omega) hd1 hd31
      (by omega) (by omega)
      (fun h1 h2 => leap_yoe y _ (hleap (by omega) h2) rfl)]
    have : ¬ (m + 9 < 10) := by omega
    simp only [if_neg this]
    rw [if_pos (by omega)]
    refine Prod.ext ?_ (Prod.ext ?_ rfl) <;> simp only [] <;> omega
  · rw [ofYMD_spec y m d y (m - 3) (by rw [if_neg hm]) (by rw [if_pos (by omega)])]
    rw [toYMD_of_parts y (m - 3) d _ _ _ _ rfl rfl rfl rfl (by omega) (by omega) hd1 hd31
      (by omega) (by omega) (fun h1 _ => by omega)]
    have : m - 3 < 10 := by omega
    simp only [if_pos this]
    rw [if_neg (by omega)]
    refine Prod.ext ?_ (Prod.ext ?_ rfl) <;> simp only [] <;> omega

/-! ### The other direction: every day number is a real date and maps back to itself -/

/-- Every day of a 400-year era splits into (year of era, day of March-based year). -/
theorem doe_decomp (doe : Int) (h0 : 0 ≤ doe) (h1 : doe < 146097) :
    ∃ yoe doy : Int, 0 ≤ yoe ∧ yoe ≤ 399 ∧ 0 ≤ doy ∧
      (doy ≤ 364 ∨ (doy = 365 ∧ yoe % 4 = 3 ∧ (yoe % 100 ≠ 99 ∨ yoe = 399))) ∧
      doe = yoe * 365 + yoe / 4 - yoe / 100 + doy := by
  obtain ⟨c, hc0, hc3, hr1, hr1'⟩ : ∃ c : Int, 0 ≤ c ∧ c ≤ 3 ∧ 0 ≤ doe - 36524 * c ∧
      (doe - 36524 * c < 36524 ∨ (c = 3 ∧ doe - 36524 * c = 36524)) := by
    by_cases h : doe = 146096
    · exact ⟨3, by omega⟩
    · exact ⟨doe / 36524, by omega⟩
  generalize hr : doe - 36524 * c = r1 at hr1 hr1'
  obtain ⟨q, hq0, hq24, hr2, hr2'⟩ : ∃ q : Int, 0 ≤ q ∧ q ≤ 24 ∧ 0 ≤ r1 - 1461 * q ∧
      (r1 - 1461 * q < 1460 ∨ (r1 - 1461 * q = 1460 ∧ (q ≠ 24 ∨ c = 3))) := by
    by_cases h : r1 = 36524
    · exact ⟨24, by omega⟩
    · exact ⟨r1 / 1461, by omega⟩
  generalize hr' : r1 - 1461 * q = r2 at hr2 hr2'
  obtain ⟨s, hs0, hs3, hr3, hr3'⟩ : ∃ s : Int, 0 ≤ s ∧ s ≤ 3 ∧ 0 ≤ r2 - 365 * s ∧
      (r2 - 365 * s < 365 ∨ (r2 - 365 * s = 365 ∧ s = 3 ∧ r2 = 1460)) := by
    by_cases h : r2 = 1460
    · exact ⟨3, by omega⟩
    · exact ⟨r2 / 365, by omega⟩
  refine ⟨100 * c + 4 * q + s, r2 - 365 * s, by omega, by omega, hr3, ?_, ?_⟩
  · rcases hr3' with h | ⟨h, h', h''⟩
    · left; omega
    · right; omega
  · omega

/-- The month and day computed from a day of the March-based year are a real month and day. -/
theorem md_of_doy (doy : Int) (h0 : 0 ≤ doy) (h1 : doy ≤ 365) :
    ∃ mp d : Int, mp = (5 * doy + 2) / 153 ∧ d = doy - (153 * mp + 2) / 5 + 1 ∧
      0 ≤ mp ∧ mp ≤ 11 ∧ 1 ≤ d ∧ d ≤ 31 ∧
      ((mp = 1 ∨ mp = 3 ∨ mp = 6 ∨ mp = 8) → d ≤ 30) ∧ (mp = 11 → d ≤ 29) ∧
      (mp = 11 → d = 29 → doy = 365) := by
  refine ⟨(5 * doy + 2) / 153, doy - (153 * ((5 * doy + 2) / 153) + 2) / 5 + 1, rfl, rfl, ?_⟩
  have hmp : 0 ≤ (5 * doy + 2) / 153 ∧ (5 * doy + 2) / 153 ≤ 11 := by omega
  generalize hg : (5 * doy + 2) / 153 = mp at *
  have : mp = 0 ∨ mp = 1 ∨ mp = 2 ∨ mp = 3 ∨ mp = 4 ∨ mp = 5 ∨ mp = 6 ∨ mp = 7 ∨ mp = 8 ∨
      mp = 9 ∨ mp = 10 ∨ mp = 11 := by omega
  rcases this with h | h | h | h | h | h | h | h | h | h | h | h <;> subst h <;> omega

/-- `toYMD n` is a real calendar date whose day number is `n`, for every integer `n`. -/
theorem toYMD_valid_and_inverse (n : Int) :
    validYMD (toYMD n).1 (toYMD n).2.1 (toYMD n).2.2 = true ∧
      ofYMD (toYMD n).1 (toYMD n).2.1 (toYMD n).2.2 = n := by
  obtain ⟨era, hera⟩ : ∃ era : Int, era = (n + 719468) / 146097 := ⟨_, rfl⟩
  obtain ⟨doe, hdoe⟩ : ∃ doe : Int, doe = n + 719468 - era * 146097 := ⟨_, rfl⟩
  have hd0 : 0 ≤ doe ∧ doe < 146097 := by omega
  obtain ⟨yoe, doy, hy0, hy1, hdoy0, hdoy1, hform⟩ := doe_decomp doe hd0.1 hd0.2
  obtain ⟨hY, _, _⟩ := yoe_recover yoe doy doe hy0 hy1 hdoy0 hdoy1 hform
  obtain ⟨mp, d, hmp, hd, hmp0, hmp11, hd1, hd31, h30, h29, h365⟩ :=
    md_of_doy doy hdoy0 (by omega)
  have hD : doe - (365 * yoe + yoe / 4 - yoe / 100) = doy := by omega
  rw [toYMD_spec n era doe yoe doy mp (by omega) hd0.1 hd0.2 hY hD hmp.symm]
  simp only []
  rw [← hd]
  clear hY hD hera
  by_cases hlt : mp < 10
  · simp only [if_pos hlt]
    have hm2 : ¬ (mp + 3 ≤ 2) := by omega
    simp only [if_neg hm2]
    constructor
    · rw [validYMD_iff]; omega
    · rw [ofYMD_spec _ _ _ (yoe + era * 400) mp (by rw [if_neg hm2]) (by rw [if_pos (by omega)]; omega)]
      have e1 : (yoe + era * 400) / 400 = era := by omega
      rw [e1]
      have e2 : yoe + era * 400 - era * 400 = yoe := by omega
      rw [e2]
      omega
  · simp only [if_neg hlt]
    have hm2 : mp - 9 ≤ 2 := by omega
    simp only [if_pos hm2]
    constructor
    · rw [validYMD_iff]
      refine ⟨by omega, by omega, hd1, hd31, by omega, by omega, ?_⟩
      intro _ hd29
      have h1 : mp = 11 := by omega
      have h2 := h365 h1 hd29
      have h3 : yoe % 4 = 3 ∧ (yoe % 100 ≠ 99 ∨ yoe = 399) := by omega
      clear h365 h30 h29 hform hdoy1 hmp hd
      omega
    · rw [ofYMD_spec _ _ _ (yoe + era * 400) mp (by rw [if_pos hm2]; omega)
        (by rw [if_neg (by omega)]; omega)]
      have e1 : (yoe + era * 400) / 400 = era := by omega
      rw [e1]
      have e2 : yoe + era * 400 - era * 400 = yoe := by omega
      rw [e2]
      omega

theorem ofYMD_toYMD (n : Int) : ofYMD (toYMD n).1 (toYMD n).2.1 (toYMD n).2.2 = n :=
  (toYMD_valid_and_inverse n).2

theorem validYMD_toYMD (n : Int) : validYMD (toYMD n).1 (toYMD n).2.1 (toYMD n).2.2 = true :=
  (toYMD_valid_and_inverse n).1

/-! ### Order: `ofYMD` is strictly monotone for the lexicographic order on real dates -/

/-- Closed form of `ofYMD` in March-based coordinates. -/
theorem ofYMD_closed (y m d yp mp : Int)
    (hyp : yp = if m ≤ 2 then y - 1 else y) (hmp : mp = if m > 2 then m - 3 else m + 9) :
    ofYMD y m d =
      365 * yp + yp / 4 - yp / 100 + yp / 400 + (153 * mp + 2) / 5 + d - 719469 := by
  rw [ofYMD_spec y m d yp mp hyp hmp]
  generalize (153 * mp + 2) / 5 = k
  omega

theorem month_step (mp d : Int) (h0 : 0 ≤ mp) (h1 : mp ≤ 10) (hd31 : d ≤ 31)
    (h30 : (mp = 1 ∨ mp = 3 ∨ mp = 6 ∨ mp = 8) → d ≤ 30) :
    (153 * mp + 2) / 5 + d ≤ (153 * (mp + 1) + 2) / 5 := by
  have : mp = 0 ∨ mp = 1 ∨ mp = 2 ∨ mp = 3 ∨ mp = 4 ∨ mp = 5 ∨ mp = 6 ∨ mp = 7 ∨ mp = 8 ∨
      mp = 9 ∨ mp = 10 := by omega
  rcases this with h | h | h | h | h | h | h | h | h | h | h <;> subst h <;> omega

theorem year_lt (a b doy doy' : Int) (hab : a < b) (h0 : 0 ≤ doy')
    (h : doy ≤ 364 ∨ (doy = 365 ∧ (((a + 1) % 4 = 0 ∧ (a + 1) % 100 ≠ 0) ∨ (a + 1) % 400 = 0))) :
    365 * a + a / 4 - a / 100 + a / 400 + doy < 365 * b + b / 4 - b / 100 + b / 400 + doy' := by
  by_cases h1 : b = a + 1
  · subst h1; omega
  · have hd : doy ≤ 365 := by omega
    clear h
    have h4 : a / 4 ≤ b / 4 := by omega
    have h400 : a / 400 ≤ b / 400 := by omega
    have h100 : b / 100 - a / 100 ≤ b - a := by omega
    generalize a / 4 = a4 at *
    generalize b / 4 = b4 at *
    generalize a / 100 = a100 at *
    generalize b / 100 = b100 at *
    generalize a / 400 = a400 at *
    generalize b / 400 = b400 at *
    omega

/-- Strict monotonicity in March-based coordinates. -/
theorem dayNum_lt (yp mp d yp' mp' d' : Int)
    (hmp0 : 0 ≤ mp) (hmp11 : mp ≤ 11) (hd1 : 1 ≤ d) (hd31 : d ≤ 31)
    (h30 : (mp = 1 ∨ mp = 3 ∨ mp = 6 ∨ mp = 8) → d ≤ 30) (h29 : mp = 11 → d ≤ 29)
    (hleap : mp = 11 → d = 29 →
      (((yp + 1) % 4 = 0 ∧ (yp + 1) % 100 ≠ 0) ∨ (yp + 1) % 400 = 0))
    (hmp0' : 0 ≤ mp') (hmp11' : mp' ≤ 11) (hd1' : 1 ≤ d')
    (hlt : yp < yp' ∨ (yp = yp' ∧ (mp < mp' ∨ (mp = mp' ∧ d < d')))) :
    365 * yp + yp / 4 - yp / 100 + yp / 400 + (153 * mp + 2) / 5 + d - 719469 <
      365 * yp' + yp' / 4 - yp' / 100 + yp' / 400 + (153 * mp' + 2) / 5 + d' - 719469 := by
  rcases hlt with h | ⟨h, h' | ⟨h', h''⟩⟩
  · have hb := doy_bounds mp d hmp0 hmp11 hd1 hd31 h30 h29
    have hk' : 0 ≤ (153 * mp' + 2) / 5 := by omega
    generalize (153 * mp' + 2) / 5 = k' at *
    generalize hk : (153 * mp + 2) / 5 = k at *
    have := year_lt yp yp' (k + d - 1) (k' + d' - 1) h (by omega)
      (by rcases hb.2 with h | ⟨h1, h2, h3⟩
          · exact Or.inl h
          · exact Or.inr ⟨h1, hleap h2 h3⟩)
    omega
  · subst h
    have h1 := month_step mp d hmp0 (by omega) hd31 h30
    have h2 : (153 * (mp + 1) + 2) / 5 ≤ (153 * mp' + 2) / 5 := by omega
    omega
  · subst h h'; omega

/-- The order of day numbers is the Gregorian (lexicographic year, month, day) order. -/
theorem ofYMD_strict_mono (y m d y' m' d' : Int)
    (hv : validYMD y m d = true) (hv' : validYMD y' m' d' = true)
    (hlt : y < y' ∨ (y = y' ∧ (m < m' ∨ (m = m' ∧ d < d')))) :
    ofYMD y m d < ofYMD y' m' d' := by
  obtain ⟨hm1, hm12, hd1, hd31, h30, h29, hleap⟩ := (validYMD_iff y m d).1 hv
  obtain ⟨hm1', hm12', hd1', _, _, _, _⟩ := (validYMD_iff y' m' d').1 hv'
  clear hv hv'
  -- March-based coordinates of both dates
  obtain ⟨yp, hyp⟩ : ∃ yp : Int, yp = if m ≤ 2 then y - 1 else y := ⟨_, rfl⟩
  obtain ⟨mp, hmp⟩ : ∃ mp : Int, mp = if m > 2 then m - 3 else m + 9 := ⟨_, rfl⟩
  obtain ⟨yp', hyp'⟩ : ∃ yp' : Int, yp' = if m' ≤ 2 then y' - 1 else y' := ⟨_, rfl⟩
  obtain ⟨mp', hmp'⟩ : ∃ mp' : Int, mp' = if m' > 2 then m' - 3 else m' + 9 := ⟨_, rfl⟩
  rw [ofYMD_closed y m d yp mp hyp hmp, ofYMD_closed y' m' d' yp' mp' hyp' hmp']
  have c1 : (m ≤ 2 ∧ yp = y - 1 ∧ mp = m + 9) ∨ (2 < m ∧ yp = y ∧ mp = m - 3) := by
    by_cases h : m ≤ 2
    · rw [if_pos h] at hyp; rw [if_neg (by omega)] at hmp; exact Or.inl ⟨h, hyp, hmp⟩
    · rw [if_neg h] at hyp; rw [if_pos (by omega)] at hmp; exact Or.inr ⟨by omega, hyp, hmp⟩
  have c2 : (m' ≤ 2 ∧ yp' = y' - 1 ∧ mp' = m' + 9) ∨ (2 < m' ∧ yp' = y' ∧ mp' = m' - 3) := by
    by_cases h : m' ≤ 2
    · rw [if_pos h] at hyp'; rw [if_neg (by omega)] at hmp'; exact Or.inl ⟨h, hyp', hmp'⟩
    · rw [if_neg h] at hyp'; rw [if_pos (by omega)] at hmp'; exact Or.inr ⟨by omega, hyp', hmp'⟩
  clear hyp hmp hyp' hmp'
  have b1 : 0 ≤ mp ∧ mp ≤ 11 ∧ 0 ≤ mp' ∧ mp' ≤ 11 := by
    clear hleap h30 h29 hlt; omega
  have b2 : (mp = 1 ∨ mp = 3 ∨ mp = 6 ∨ mp = 8) → d ≤ 30 := by
    clear hleap h29 hlt c2; intro h; apply h30; omega
  have b3 : mp = 11 → d ≤ 29 := by
    clear hleap h30 hlt c2; intro h; apply h29; omega
  have hl : mp = 11 → d = 29 →
      (((yp + 1) % 4 = 0 ∧ (yp + 1) % 100 ≠ 0) ∨ (yp + 1) % 400 = 0) := by
    intro h1 h2
    have hm2 : m = 2 := by omega
    have hy : yp + 1 = y := by omega
    rw [hy]; exact hleap hm2 h2
  clear hleap
  have hlex : yp < yp' ∨ (yp = yp' ∧ (mp < mp' ∨ (mp = mp' ∧ d < d'))) := by
    clear hl h30 h29 hd31 hd1 hd1'
    clear b1 b2 b3
    rcases c1 with ⟨a1, a2, a3⟩ | ⟨a1, a2, a3⟩ <;> rcases c2 with ⟨e1, e2, e3⟩ | ⟨e1, e2, e3⟩ <;>
      subst a2 a3 e2 e3 <;>
      rcases hlt with h | ⟨h, h' | ⟨h', h''⟩⟩ <;> omega
  exact dayNum_lt yp mp d yp' mp' d' b1.1 b1.2.1 hd1 hd31 b2 b3 hl b1.2.2.1 b1.2.2.2 hd1' hlex

/-- The day after the last day of a month is the first day of the next month
    (incl. leap February and the turn of the year). -/
theorem next_month_first (y m : Int) (hm1 : 1 ≤ m) (hm12 : m ≤ 12) :
    ofYMD y m (daysInMonth y m) + 1 =
      (if m = 12 then ofYMD (y + 1) 1 1 else ofYMD y (m + 1) 1) := by
  have hm : m = 1 ∨ m = 2 ∨ m = 3 ∨ m = 4 ∨ m = 5 ∨ m = 6 ∨ m = 7 ∨ m = 8 ∨ m = 9 ∨ m = 10 ∨
      m = 11 ∨ m = 12 := by omega
  rcases hm with h | h | h | h | h | h | h | h | h | h | h | h <;> subst h
  · rw [ofYMD_closed y 1 _ (y - 1) 10 (by simp) (by simp),
      ofYMD_closed y (1 + 1) 1 (y - 1) 11 (by simp) (by simp)]
    simp [daysInMonth]; omega
  · rw [ofYMD_closed y 2 _ (y - 1) 11 (by simp) (by simp),
      ofYMD_closed y (2 + 1) 1 y 0 (by simp) (by simp)]
    cases hb : isLeap y
    · have := (isLeap_false_iff y).1 hb
      simp [daysInMonth, hb]; omega
    · have := (isLeap_iff y).1 hb
      simp [daysInMonth, hb]; omega
  · rw [ofYMD_closed y 3 _ y 0 (by simp) (by simp), ofYMD_closed y (3 + 1) 1 y 1 (by simp) (by simp)]
    simp [daysInMonth]; omega
  · rw [ofYMD_closed y 4 _ y 1 (by simp) (by simp), ofYMD_closed y (4 + 1) 1 y 2 (by simp) (by simp)]
    simp [daysInMonth]; omega
  · rw [ofYMD_closed y 5 _ y 2 (by simp) (by simp), ofYMD_closed y (5 + 1) 1 y 3 (by simp) (by simp)]
    simp [daysInMonth]; omega
  · rw [ofYMD_closed y 6 _ y 3 (by simp) (by simp), ofYMD_closed y (6 + 1) 1 y 4 (by simp) (by simp)]
    simp [daysInMonth]; omega
  · rw [ofYMD_closed y 7 _ y 4 (by simp) (by simp), ofYMD_closed y (7 + 1) 1 y 5 (by simp) (by simp)]
    simp [daysInMonth]; omega
  · rw [ofYMD_closed y 8 _ y 5 (by simp) (by simp), ofYMD_closed y (8 + 1) 1 y 6 (by simp) (by simp)]
    simp [daysInMonth]; omega
  · rw [ofYMD_closed y 9 _ y 6 (by simp) (by simp), ofYMD_closed y (9 + 1) 1 y 7 (by simp) (by simp)]
    simp [daysInMonth]; omega
  · rw [ofYMD_closed y 10 _ y 7 (by simp) (by simp),
      ofYMD_closed y (10 + 1) 1 y 8 (by simp) (by simp)]
    simp [daysInMonth]; omega
  · rw [ofYMD_closed y 11 _ y 8 (by simp) (by simp),
      ofYMD_closed y (11 + 1) 1 y 9 (by simp) (by simp)]
    simp [daysInMonth]; omega
  · rw [ofYMD_closed y 12 _ y 9 (by simp) (by simp),
      ofYMD_closed (y + 1) 1 1 y 10 (by simp) (by simp)]
    simp [daysInMonth]; omega

/-! ### Weekday -/

theorem weekday_succ (n : Int) : weekday (n + 1) = (weekday n + 1) % 7 := by
  simp only [weekday]; omega

theorem weekday_range (n : Int) : 0 ≤ weekday n ∧ weekday n < 7 := by
  simp only [weekday]; omega

theorem weekday_add_week (n : Int) : weekday (n + 7) = weekday n := by
  simp only [weekday]; omega

/-- 1970-01-01 (day 0) was a Thursday. -/
theorem weekday_epoch : ofYMD 1970 1 1 = 0 ∧ weekday 0 = 4 := by decide

end Ledger.Cal
