/-
MODEL COHERENCE — common vocabulary.

Several property models contain their own, independently written fragment of
`xact_base_t::finalize` (xact.cc 158-423):

  `FinX.finalize`      Model/Finalize.lean   (C01/C02)  costs, bucket, implicit exchange, null fill
  `AutoXact.finalize`  Model/AutoXact.lean   (C16)      no costs, no implicit exchange
  `Assert.finalize`    Model/Assert.lean     (C09)      implied price, elided posting
  `OF.finalize`        Model/OrderFree.lean  (C08)      `acceptNoNull` / `inferred` / `stepX`

This file fixes the vocabulary in which they are compared:

* `Row`      a finalised posting (account, kind, exact amount) — what all four can express;
* `Verdict`  accepted with rows / unbalanced / two nulls / a null amount is left / other;
* the tiny translations from each model's result type into `Verdict`;
* the decidable DOMAIN GUARDS (each is a `Bool`-valued function of the parsed
  postings) that delimit the common domain;
* `Coh.ref`, the closed form all four are proved equal to (a proof device; the
  theorems of Props/Coherence.lean are stated between the models themselves).
-/
import LedgerModel.Lemmas.Finalize
import LedgerModel.Lemmas.OrderFree
import LedgerModel.Lemmas.AssertRun
import LedgerModel.Lemmas.AutoXact

namespace Ledger
namespace Coh

open OF (bamt vadd xbalance nullPosts isNullPost inferred)

/-! ### unannotated commodities -/

/-- an unannotated commodity: no `{` in the symbol -/
def plain (c : Comm) : Bool := !c.toList.contains '{'

theorem splitFirst_none (ch : Char) : ∀ l : List Char, ch ∉ l → FinX.splitFirst ch l = none := by
  intro l
  induction l with
  | nil => intro _; rfl
  | cons x xs ih =>
    intro h
    simp only [List.mem_cons, not_or] at h
    unfold FinX.splitFirst
    rw [if_neg (fun e => h.1 e.symm), ih h.2]
    rfl

theorem splitFirst_append (ch : Char) : ∀ (l r : List Char), ch ∉ l → FinX.splitFirst ch (l ++ ch :: r) = some (l, r) := by
  intro l
  induction l with
  | nil => intro r _; simp [FinX.splitFirst]
  | cons x xs ih =>
    intro r h
    simp only [List.mem_cons, not_or] at h
    simp only [List.cons_append]
    unfold FinX.splitFirst
    rw [if_neg (fun e => h.1 e.symm), ih r h.2]
    rfl

/-- the first occurrence of the two-character mark is found, and everything after
    a later occurrence is still in the remainder -/
theorem splitFirst2_some (c1 c2 : Char) : ∀ (pre post : List Char),
    ∃ p r, FinX.splitFirst2 c1 c2 (pre ++ c1 :: c2 :: post) = some (p, r) ∧ ∃ pre', r = pre' ++ post := by
  intro pre
  induction pre using List.rec with
  | nil => intro post; exact ⟨[], post, by simp [FinX.splitFirst2], [], rfl⟩
  | cons x xs ih =>
    intro post
    obtain ⟨p, r, h, pre', hr⟩ := ih post
    cases hxs : xs ++ c1 :: c2 :: post with
    | nil => simp at hxs
    | cons y ys =>
      simp only [List.cons_append, hxs]
      unfold FinX.splitFirst2
      by_cases hc : x = c1 ∧ y = c2
      · rw [if_pos hc]
        refine ⟨[], ys, rfl, ?_⟩
        -- ys is the tail of xs ++ c1 :: c2 :: post
        cases xs with
        | nil =>
          simp only [List.nil_append, List.cons.injEq] at hxs
          exact ⟨[c2], by rw [← hxs.2]; rfl⟩
        | cons z zs =>
          simp only [List.cons_append, List.cons.injEq] at hxs
          exact ⟨zs ++ [c1, c2], by rw [← hxs.2]; simp⟩
      · rw [if_neg hc, ← hxs, h]
        exact ⟨x :: p, r, rfl, pre', hr⟩

theorem decodeLot_plain (c : Comm) (h : plain c = true) : FinX.decodeLot c = (c, "", "", "") := by
  unfold FinX.decodeLot
  rw [splitFirst_none '{' c.toList]
  intro hm
  unfold plain at h
  have : c.toList.contains '{' = true := List.contains_iff_mem.2 hm
  rw [this] at h; cases h

theorem lotBase_annotate (c : Comm) (pu : Amount) (date : String) (h : plain c = true) :
    FinX.lotBase (FinX.annotate c pu date) = c := by
  unfold FinX.annotate
  rw [decodeLot_plain c h]
  simp only
  unfold FinX.encodeLot
  split
  · unfold FinX.lotBase; rw [decodeLot_plain c h]
  · unfold FinX.lotBase FinX.decodeLot
    have hno : '{' ∉ c.toList := by
      intro hm
      unfold plain at h
      have : c.toList.contains '{' = true := List.contains_iff_mem.2 hm
      rw [this] at h; cases h
    have e1 : (c ++ "{" ++ FinX.priceStr pu ++ "}[" ++ date ++ "](" ++ "" ++ ")").toList
        = c.toList ++ '{' :: ((FinX.priceStr pu).toList ++ '}' :: '[' :: (date.toList ++ ']' :: '(' :: [')'])) := by
      simp [String.toList_append]
    rw [e1, splitFirst_append '{' c.toList _ hno]
    simp only
    obtain ⟨p, r, h1, pre', hr⟩ := splitFirst2_some '}' '[' (FinX.priceStr pu).toList (date.toList ++ ']' :: '(' :: [')'])
    rw [h1]
    simp only
    obtain ⟨p2, r2, h2, _⟩ := splitFirst2_some ']' '(' (pre' ++ date.toList) [')']
    have : r = (pre' ++ date.toList) ++ ']' :: '(' :: [')'] := by rw [hr]; simp
    rw [this, h2]
    simp only [String.ofList_toList]

/-- THE coincidence lemma: on unannotated commodities `compare_by_commodity`
    (`FinX.commLe`) is the plain order of the symbols. -/
theorem commLe_plain (a b : Comm) (ha : plain a = true) (hb : plain b = true) :
    FinX.commLe a b = decide (a ≤ b) := by
  have da := decodeLot_plain a ha
  have db := decodeLot_plain b hb
  have hs : FinX.splitFirst ' ' "".toList = none := rfl
  unfold FinX.commLe FinX.lexLe FinX.leS FinX.leB FinX.leQ FinX.lotBase FinX.lotHasPrice FinX.lotPComm FinX.lotPVal FinX.lotHasDate FinX.lotDate FinX.lotHasTag FinX.lotTag
  simp only [da, db, hs, id]
  have h0 : decide ((0 : Rat) ≤ 0) = true := by decide
  have h1 : decide (("" : String) ≤ "") = true := by decide
  simp only [h0, h1, ne_eq, not_true_eq_false, decide_false, Bool.not_false, Bool.true_or, Bool.not_true,
    Bool.false_or, Bool.true_and, Bool.and_true]
  cases decide (a ≤ b) <;> cases decide (b ≤ a) <;> rfl

theorem hasAnn_plain (c : Comm) (h : plain c = true) : FinX.hasAnn c = false := by
  unfold FinX.hasAnn; rw [decodeLot_plain c h]; simp

theorem lotBase_plain (c : Comm) (h : plain c = true) : FinX.lotBase c = c := by
  unfold FinX.lotBase; rw [decodeLot_plain c h]

theorem liftEnv_plain (env : PrecEnv) (c : Comm) (h : plain c = true) : FinX.liftEnv env c = env c := by
  unfold FinX.liftEnv; rw [lotBase_plain c h]

/-- A finalised posting in the vocabulary common to all finalize models. -/
structure Row where
  account : String
  kind    : PostKind
  amt     : Amount
deriving DecidableEq, Repr

inductive Verdict (α : Type)
  | accepted (rows : List α)
  | unbalanced          -- "Transaction does not balance"
  | twoNulls            -- "Only one posting with null amount allowed per transaction" (or its "misspelled" variant)
  | nullLeft            -- a null amount that cannot be filled is left
  | other               -- anything else (outside the compared fragment)
deriving DecidableEq, Repr

def Verdict.map {α β : Type} (f : α → β) : Verdict α → Verdict β
  | .accepted rows => .accepted (rows.map f)
  | .unbalanced => .unbalanced
  | .twoNulls => .twoNulls
  | .nullLeft => .nullLeft
  | .other => .other

/-! ### translations (structure preserving, no computation) -/

/-- FinX posting ↦ row (every posting of an accepted transaction has its amount).
    C01/C02 annotates the amount of a posting that has a cost with its lot
    (`BASE{price}[date]`, xact.cc 334-343); the row keeps the BASE commodity, which
    is all the other three models know. -/
def rowOfFin (p : FinX.FPost) : Option Row :=
  p.amount.map (fun a => ⟨p.account, p.kind, { a with comm := FinX.lotBase a.comm }⟩)

/-- `finalize` returning `false` (all amounts null: the transaction is dropped
    silently, xact.cc 413-414) is an acceptance with no postings. -/
def verdictFin : Except FinX.FinErr FinX.FXact → Verdict Row
  | .ok fx => .accepted (fx.posts.filterMap rowOfFin)
  | .error .ignored => .accepted []
  | .error .unbalanced => .unbalanced
  | .error .twoNulls => .twoNulls
  | .error .misspelled => .twoNulls
  | .error .nullAfter => .nullLeft
  | .error _ => .other

def rowOfAuto (p : AutoXact.FPost) : Row := ⟨p.account, p.kind, p.amount⟩

def verdictAuto : Except AutoXact.LErr AutoXact.FXact → Verdict Row
  | .ok fx => .accepted (fx.posts.map rowOfAuto)
  | .error .unbalanced => .unbalanced
  | .error .twoNulls => .twoNulls
  | .error .nullAmount => .nullLeft
  | .error _ => .other

/-- C09 only distinguishes POST_VIRTUAL (`(A)` and `[A]` alike). -/
def Row.toAssert (r : Row) : Assert.Entry := ⟨r.account, decide (r.kind ≠ .real), r.amt⟩

def verdictAssert : Except Assert.AErr (List Assert.Entry) → Verdict Assert.Entry
  | .ok es => .accepted es
  | .error .unbalanced => .unbalanced
  | .error .twoNulls => .twoNulls
  | .error .nullAfter => .nullLeft
  | .error _ => .other

/-- C08 keeps no posting kind; it stamps the transaction date on every entry. -/
def Row.toOF (date : Int) (r : Row) : OF.Entry := ⟨date, r.account, r.amt⟩

def verdictOF : Except OF.LoadErr (List OF.Entry) → Verdict OF.Entry
  | .ok es => .accepted es
  | .error .unbalanced => .unbalanced
  | .error .twoNulls => .twoNulls
  | .error .nullAfter => .nullLeft
  | .error _ => .other

/-- comparison up to the order of the rows (C09 appends the filled-in posting last) -/
def Verdict.PermEq {α : Type} : Verdict α → Verdict α → Prop
  | .accepted a, .accepted b => a.Perm b
  | .unbalanced, .unbalanced => True
  | .twoNulls, .twoNulls => True
  | .nullLeft, .nullLeft => True
  | .other, .other => True
  | _, _ => False

/-! ### domain guards (all decidable, all functions of the parsed postings) -/

/-- no `(virtual)` posting has an elided amount.  With one, FinX (and ledger)
    report unbalanced / two-nulls / uninitialized-amount errors FIRST, the other
    three models answer "null amount" first. -/
def noVirtNull (ps : List Posting) : Bool := ps.all (fun p => p.mustBalance || p.amount.isSome)

/-- the transaction is empty or at least one posting carries an amount.  For the
    one-posting all-null transaction ledger (and FinX, OF) drop the transaction
    silently; AutoXact and Assert report an error. -/
def someAmount (ps : List Posting) : Bool := ps.isEmpty || ps.any (fun p => p.amount.isSome)

/-- parsed posting amounts never carry the keep-precision flag (PARSE_NO_MIGRATE
    is used for costs only).  FinX clears it (`rounded()`), the others do not. -/
def noKeepAmt (ps : List Posting) : Bool :=
  ps.all (fun p => match p.amount with
    | some a => !a.keep
    | none => true)

/-- the cost amounts as handed over do not carry the flag either (Assert's
    `costTotal` inherits it; FinX and OF overwrite it). -/
def noKeepCost (ps : List Posting) : Bool :=
  ps.all (fun p => match p.cost with
    | some c => !c.amt.keep
    | none => true)

/-- a cost is only written after an amount (textual.cc 1590-1622 parses `@` only
    then); FinX drops the cost of an elided posting, OF/Assert still see it. -/
def costHasAmount (ps : List Posting) : Bool := ps.all (fun p => !p.cost.isSome || p.amount.isSome)

/-- xact.cc 288-294: "A posting's cost must be of a different commodity than its
    amount" — only FinX has this check. -/
def costOtherComm (ps : List Posting) : Bool :=
  ps.all (fun p => match p.amount, p.cost with
    | some a, some c => a.comm != c.amt.comm
    | _, _ => true)

def noCost (ps : List Posting) : Bool := ps.all (fun p => p.cost.isNone)

/-- no posting amount carries a lot annotation (`BASE{price}[date]`, the encoding
    of C16); C01/C02, C08 and C09 do not model lots at all. -/
def noLotAmt (ps : List Posting) : Bool :=
  ps.all (fun p => match p.amount with
    | some a => plain a.comm
    | none => true)

/-- no cost is given in a lot-annotated commodity -/
def noLotCost (ps : List Posting) : Bool :=
  ps.all (fun p => match p.cost with
    | some c => plain c.amt.comm
    | none => true)

theorem hasLot_eq (c : Comm) : AutoXact.hasLot c = !plain c := by
  unfold AutoXact.hasLot plain; simp

def noCostAssert (ps : List Posting) : Bool := ps.all (fun p => p.cost.isNone && p.assert.isNone)

/-- decidable form of `FinX.Exact`: a commoditized decimal, flag clear, written
    with at most the display precision of its commodity. -/
def exactB (env : PrecEnv) (a : Amount) : Bool :=
  a.hasComm && !a.keep && decide (a.prec ≤ env a.comm) &&
    decide (a.q = mkRat (a.q.num * (10 : Int) ^ env a.comm / a.q.den) (10 ^ env a.comm))

def exactAmts (env : PrecEnv) (ps : List Posting) : Bool :=
  ps.all (fun p => match p.amount with
    | some a => exactB env a
    | none => true)

/-- the implicit two-commodity exchange of xact.cc 220-283 applies: nothing
    elided, no cost anywhere, a residual with exactly two entries that both
    display non-zero. -/
def impliedCase (env : PrecEnv) (ps : List Posting) : Bool :=
  (nullPosts ps).isEmpty && !ps.any (fun p => p.cost.isSome) &&
    (match xbalance ps with
     | .bal [x, y] => !(x.isZero env) && !(y.isZero env)
     | _ => false)

/-- in the implied-exchange case the amounts are exact decimals (then the
    doubled secondary residual of a same-sign pair cannot display as zero). -/
def exchangeGuard (env : PrecEnv) (ps : List Posting) : Bool := !impliedCase env ps || exactAmts env ps

/-! ### the closed form -/

/-- rows of the written postings in order; the elided must-balance posting
    receives the first inferred amount in place. -/
def rowsOf (inf : List Amount) : List Posting → List Row
  | [] => []
  | p :: ps =>
    match p.amount with
    | some a => ⟨p.account, p.kind, a⟩ :: rowsOf inf ps
    | none =>
      if p.mustBalance then
        match inf with
        | a :: _ => ⟨p.account, p.kind, a⟩ :: rowsOf inf ps
        | [] => rowsOf inf ps
      else rowsOf inf ps

/-- further inferred amounts: generated postings appended to the transaction. -/
def extraRows (n : Posting) (inf : List Amount) : List Row :=
  (inf.drop 1).map (fun a => ⟨n.account, n.kind, a⟩)

def ref (env : PrecEnv) (ps : List Posting) : Verdict Row :=
  match nullPosts ps with
  | [] => if OF.acceptNoNull env ps (xbalance ps) then .accepted (rowsOf [] ps) else .unbalanced
  | [n] =>
    if inferred (xbalance ps) = [] then
      (if ps.all (fun p => p.amount.isNone) then .accepted [] else .nullLeft)
    else .accepted (rowsOf (inferred (xbalance ps)) ps ++ extraRows n (inferred (xbalance ps)))
  | _ => .twoNulls

/-! ### values reached by the residual fold: VOID / AMOUNT / BALANCE -/

def VAB : Value → Prop
  | .void => True
  | .amt _ => True
  | .bal _ => True
  | _ => False

theorem VAB_vadd (v : Value) (a : Amount) (h : VAB v) : VAB (vadd v a) := by
  cases v with
  | void => trivial
  | amt x => simp only [vadd]; split <;> trivial
  | bal b => trivial
  | int _ => cases h
  | bool _ => cases h

/-- `Value.add` on the cells the fold reaches IS `OF.vadd`. -/
theorem add_eq_vadd (v : Value) (a : Amount) (h : VAB v) : Value.add v (.amt a) = .ok (vadd v a) := by
  cases v with
  | void => rfl
  | amt x =>
    simp only [Value.add, vadd]
    by_cases hc : x.comm = a.comm
    · have hh : x.hasComm = a.hasComm := by simp [Amount.hasComm, hc]
      simp [hc, Amount.add, hh, Except.map]
    · simp [hc]
  | bal b => rfl
  | int _ => cases h
  | bool _ => cases h

theorem VAB_foldl (l : List Amount) : ∀ v, VAB v → VAB (l.foldl vadd v) := by
  induction l with
  | nil => intro v h; exact h
  | cons a l ih => intro v h; exact ih _ (VAB_vadd v a h)

theorem VAB_xbalance (ps : List Posting) : VAB (xbalance ps) := VAB_foldl _ _ trivial

theorem VAB_isNum {v : Value} (h : VAB v) : FinX.isNum v = true := by
  cases v <;> first | rfl | cases h

/-- `accAdd` of C09 is `vadd` on these cells. -/
theorem accAdd_eq_vadd (v : Value) (a : Amount) (h : VAB v) : Assert.accAdd v a = vadd v a := by
  unfold Assert.accAdd
  rw [add_eq_vadd v a h]

/-! ### the four display-zero tests on a value -/

theorem valueIsZero_fin_eq_of : FinX.valueIsZero = OF.valueIsZero := by
  funext env v; cases v <;> rfl

theorem valueIsZero_auto_eq_of : AutoXact.valueIsZero = OF.valueIsZero := by
  funext env v; cases v <;> rfl

theorem valueIsZero_assert_eq_of (env : PrecEnv) (v : Value) (h : VAB v) :
    Assert.valueIsZero env v = OF.valueIsZero env v := by
  cases v <;> first | rfl | cases h

/-! ### sorting the residual by symbol: the four insertion sorts are one -/

theorem insertBy_congr {le le' : Amount → Amount → Bool} (a : Amount) (l : List Amount)
    (h : ∀ x ∈ l, le a x = le' a x) : OF.insertBy le a l = OF.insertBy le' a l := by
  induction l with
  | nil => rfl
  | cons b bs ih =>
    simp only [OF.insertBy, h b List.mem_cons_self, ih (fun x hx => h x (List.mem_cons_of_mem _ hx))]

theorem isort_congr {le le' : Amount → Amount → Bool} (l : List Amount)
    (h : ∀ x ∈ l, ∀ y ∈ l, le x y = le' x y) : OF.isort le l = OF.isort le' l := by
  induction l with
  | nil => rfl
  | cons a as ih =>
    simp only [OF.isort]
    rw [ih (fun x hx y hy => h x (List.mem_cons_of_mem _ hx) y (List.mem_cons_of_mem _ hy))]
    apply insertBy_congr
    intro x hx
    exact h a List.mem_cons_self x (List.mem_cons_of_mem _ ((OF.isort_perm le' as).mem_iff.1 hx))

/-- C01/C02's sort is the generic insertion sort by `compare_by_commodity` -/
theorem fin_sort_generic (l : List Amount) :
    FinX.sortByComm l = OF.isort (fun x y => FinX.commLe x.comm y.comm) l := by
  induction l with
  | nil => rfl
  | cons a as ih =>
    simp only [FinX.sortByComm, OF.isort, ih]
    generalize OF.isort (fun x y => FinX.commLe x.comm y.comm) as = m
    induction m with
    | nil => rfl
    | cons b bs ihm => simp only [FinX.insByComm, OF.insertBy, ihm]

def autoLe (x y : Amount) : Bool :=
  decide (AutoXact.baseComm x.comm < AutoXact.baseComm y.comm ∨
    (AutoXact.baseComm x.comm = AutoXact.baseComm y.comm ∧ x.comm ≤ y.comm))

theorem auto_sort_generic (l : List Amount) : AutoXact.sortByComm l = OF.isort autoLe l := by
  induction l with
  | nil => rfl
  | cons a as ih =>
    show AutoXact.insertByComm a (AutoXact.sortByComm as) = OF.insertBy autoLe a (OF.isort autoLe as)
    rw [ih]
    generalize OF.isort autoLe as = m
    induction m with
    | nil => rfl
    | cons b bs ihm =>
      simp only [AutoXact.insertByComm, OF.insertBy, ihm, autoLe, decide_eq_true_eq]

theorem assert_sort_generic (l : List Amount) : Assert.sortByComm l = OF.sortedAmounts l := by
  induction l with
  | nil => rfl
  | cons a as ih =>
    show Assert.insertByComm a (Assert.sortByComm as) = OF.insertBy _ a (OF.isort _ as)
    have ih' : Assert.sortByComm as = OF.isort (fun x y => decide (x.comm ≤ y.comm)) as := ih
    rw [ih']
    generalize OF.isort (fun x y => decide (x.comm ≤ y.comm)) as = m
    induction m with
    | nil => rfl
    | cons b bs ihm =>
      simp only [Assert.insertByComm, OF.insertBy, ihm, decide_eq_true_eq]

/-- on unannotated commodities C08's sort (plain symbol order) is C01/C02's -/
theorem sortedAmounts_of_eq_fin (b : Balance) (h : ∀ x ∈ b, plain x.comm = true) :
    OF.sortedAmounts b = FinX.sortByComm b := by
  rw [fin_sort_generic]
  unfold OF.sortedAmounts
  apply isort_congr
  intro x hx y hy
  exact (commLe_plain x.comm y.comm (h x hx) (h y hy)).symm

theorem takeWhile_all {α : Type} (p : α → Bool) : ∀ l : List α, (∀ x ∈ l, p x = true) → l.takeWhile p = l := by
  intro l
  induction l with
  | nil => intro _; rfl
  | cons x xs ih =>
    intro h
    rw [List.takeWhile_cons, h x List.mem_cons_self]
    simp only [if_true]
    rw [ih (fun y hy => h y (List.mem_cons_of_mem _ hy))]

/-- a commodity without a lot annotation is its own base symbol (C16's encoding) -/
theorem baseComm_of_plain (c : Comm) (h : plain c = true) : AutoXact.baseComm c = c := by
  unfold AutoXact.baseComm
  unfold plain at h
  rw [takeWhile_all, String.ofList_toList]
  intro ch hch
  simp only [decide_eq_true_eq]
  intro e
  subst e
  have : c.toList.contains '{' = true := List.contains_iff_mem.2 hch
  rw [this] at h; cases h

theorem autoLe_plain (x y : Amount) (hx : plain x.comm = true) (hy : plain y.comm = true) :
    autoLe x y = decide (x.comm ≤ y.comm) := by
  unfold autoLe
  rw [baseComm_of_plain _ hx, baseComm_of_plain _ hy]
  by_cases hle : x.comm ≤ y.comm
  · have : x.comm < y.comm ∨ x.comm = y.comm ∧ x.comm ≤ y.comm := by
      by_cases he : x.comm = y.comm
      · exact Or.inr ⟨he, hle⟩
      · refine Or.inl (Classical.byContradiction fun hn => he ?_)
        exact String.le_antisymm hle (String.not_lt.1 hn)
    rw [decide_eq_true this, decide_eq_true hle]
  · have : ¬ (x.comm < y.comm ∨ x.comm = y.comm ∧ x.comm ≤ y.comm) := by
      rintro (h1 | h1)
      · exact hle (String.not_lt.1 (String.lt_asymm h1))
      · exact hle h1.2
    rw [decide_eq_false this, decide_eq_false hle]

/-- C16 sorts by base symbol, an unannotated commodity before its lots; without
    lots this is the plain order by symbol. -/
theorem sortByComm_auto_eq_of (b : List Amount) (h : ∀ x ∈ b, plain x.comm = true) :
    AutoXact.sortByComm b = OF.sortedAmounts b := by
  rw [auto_sort_generic]
  unfold OF.sortedAmounts
  apply isort_congr
  intro x hx y hy
  exact autoLe_plain x y (h x hx) (h y hy)

/-! ### list splitting around the elided posting -/

theorem filter_eq_nil_of {α : Type} (f : α → Bool) (l : List α) (h : l.filter f = []) :
    ∀ x ∈ l, f x = false := by
  intro x hx
  cases hf : f x with
  | false => rfl
  | true =>
    have : x ∈ l.filter f := List.mem_filter.2 ⟨hx, hf⟩
    rw [h] at this; cases this

theorem filter_singleton_split {α : Type} (f : α → Bool) : ∀ (l : List α) (n : α), l.filter f = [n] →
    ∃ pre post, l = pre ++ n :: post ∧ pre.filter f = [] ∧ post.filter f = [] ∧ f n = true := by
  intro l
  induction l with
  | nil => intro n h; cases h
  | cons x xs ih =>
    intro n h
    rw [List.filter_cons] at h
    by_cases hx : f x = true
    · rw [if_pos hx] at h
      injection h with h1 h2
      subst h1
      exact ⟨[], xs, rfl, rfl, h2, hx⟩
    · rw [if_neg hx] at h
      obtain ⟨pre, post, e, h1, h2, h3⟩ := ih n h
      refine ⟨x :: pre, post, by rw [e]; rfl, ?_, h2, h3⟩
      rw [List.filter_cons, if_neg hx]; exact h1

theorem filter_two_split {α : Type} (f : α → Bool) : ∀ (l : List α) (a b : α) (r : List α),
    l.filter f = a :: b :: r →
    ∃ pre rest, l = pre ++ a :: rest ∧ pre.filter f = [] ∧ f a = true ∧ ∃ p ∈ rest, f p = true := by
  intro l
  induction l with
  | nil => intro a b r h; cases h
  | cons x xs ih =>
    intro a b r h
    rw [List.filter_cons] at h
    by_cases hx : f x = true
    · rw [if_pos hx] at h
      injection h with h1 h2
      subst h1
      have hb : b ∈ xs.filter f := by rw [h2]; exact List.mem_cons_self
      exact ⟨[], xs, rfl, rfl, hx, b, (List.mem_filter.1 hb).1, (List.mem_filter.1 hb).2⟩
    · rw [if_neg hx] at h
      obtain ⟨pre, rest, e, h1, h2, h3⟩ := ih a b r h
      refine ⟨x :: pre, rest, by rw [e]; rfl, ?_, h2, h3⟩
      rw [List.filter_cons, if_neg hx]; exact h1

end Coh
end Ledger
