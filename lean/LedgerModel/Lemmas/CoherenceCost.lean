/-
MODEL COHERENCE — postings with costs: what ONE posting contributes to the
residual of its transaction, per commodity, is the same rational in C01/C02
(`FinX.FPost.bal` of the parsed posting: `parseCost`), C08 (`OF.bamt`:
`totalCost`) and C09 (`Assert.balancing`: `costTotal`); hence the three residual
balances denote the same function of the commodity.  No guard is needed here:
the three cost computations differ only in the keep-precision flag and the
precision counter, which the denotation does not see.
-/
import LedgerModel.Lemmas.CoherenceModels

namespace Ledger
namespace Coh

open OF (bamt vadd xbalance)

def contribFin (env : PrecEnv) (c : Comm) (p : Posting) : Rat := (fp env p).bal c

def contribOF (c : Comm) (p : Posting) : Rat :=
  match bamt p with
  | some b => b.den c
  | none => 0

def contribAssert (c : Comm) (p : Posting) : Rat :=
  if p.mustBalance then
    (match Assert.balancing p with
     | some b => b.den c
     | none => 0)
  else 0

theorem parseCost_den (env : PrecEnv) (a : Amount) (k : Cost) (c : Comm) :
    (FinX.parseCost env a k).den c = (OF.totalCost a k).den c := by
  rw [← parseCost_unkeep env a k]
  rfl

theorem costTotal_den (a : Amount) (k : Cost) (c : Comm) :
    (Assert.costTotal a k).den c = (OF.totalCost a k).den c := by
  unfold Assert.costTotal OF.totalCost Amount.den
  by_cases hp : k.perUnit = true
  · simp [hp]
  · by_cases hq : a.q < 0
    · simp [hp, hq, Amount.neg]
    · simp [hp, hq]

theorem contrib_fin_eq_of (env : PrecEnv) (c : Comm) (p : Posting) : contribFin env c p = contribOF c p := by
  unfold contribFin contribOF FinX.FPost.bal bamt
  rw [fp_mustBalance]
  cases hm : p.mustBalance with
  | false => simp
  | true =>
    simp only [if_true]
    unfold FinX.costOrAmt fp FinX.FPost.ofPosting
    cases p.amount with
    | none => rfl
    | some a =>
      cases p.cost with
      | none => rfl
      | some k =>
        simp only
        exact parseCost_den env a k c

theorem contrib_assert_eq_of (c : Comm) (p : Posting) : contribAssert c p = contribOF c p := by
  unfold contribAssert contribOF Assert.balancing bamt
  cases hm : p.mustBalance with
  | false => simp
  | true =>
    simp only [if_true]
    cases p.amount with
    | none => cases p.cost <;> rfl
    | some a =>
      cases p.cost with
      | none => rfl
      | some k =>
        simp only
        exact costTotal_den a k c

theorem bsum_cons (c : Comm) (p : Posting) (ps : List Posting) :
    OF.bsum c (p :: ps) = contribOF c p + OF.bsum c ps := by
  unfold OF.bsum contribOF
  simp only [OF.sumBy_cons]
  cases bamt p <;> rfl

/-- C01's exact residual of the parsed postings is the denotation of C08's balance. -/
theorem residual_fin_eq (env : PrecEnv) (ps : List Posting) (c : Comm) :
    FinX.residual (ps.map (fp env)) c = (xbalance ps).den c := by
  rw [OF.xbalance_den]
  induction ps with
  | nil => rfl
  | cons p ps ih =>
    rw [bsum_cons, ← contrib_fin_eq_of env c p]
    simp only [List.map_cons, FinX.residual, ih]
    rfl

/-- C09's residual scan, whatever it returns, denotes the same sums. -/
theorem residual_assert_den (c : Comm) : ∀ (ps : List Posting) (v : Value) (np : Option Posting)
    (v' : Value) (np' : Option Posting), Assert.residual ps v np = .ok (v', np') → Assert.Num v →
    v'.den c = v.den c + OF.bsum c ps := by
  intro ps
  induction ps with
  | nil =>
    intro v np v' np' h _
    simp only [Assert.residual] at h
    cases h
    simp only [OF.bsum, OF.sumBy_nil]; grind
  | cons p ps ih =>
    intro v np v' np' h hv
    have hc := contrib_assert_eq_of c p
    unfold contribAssert at hc
    unfold Assert.residual at h
    rw [bsum_cons, ← hc]
    cases hm : p.mustBalance with
    | false =>
      rw [hm] at h
      simp only [Bool.not_false, if_true, Bool.false_eq_true, if_false] at h ⊢
      rw [ih v np v' np' h hv]; grind
    | true =>
      rw [hm] at h
      simp only [Bool.not_true, Bool.false_eq_true, if_false, if_true] at h ⊢
      cases hb : Assert.balancing p with
      | some a =>
        rw [hb] at h
        simp only at h ⊢
        obtain ⟨h1, h2, _⟩ := Assert.accAdd_spec (env := fun _ => 0) v a hv c
        rw [ih _ np v' np' h h2, h1]; grind
      | none =>
        rw [hb] at h
        simp only at h ⊢
        cases np with
        | some _ => cases h
        | none =>
          simp only at h
          rw [ih v _ v' np' h hv]; grind

end Coh
end Ledger
