/-
MODEL COHERENCE — postings with costs: what ONE posting contributes to the
residual of its transaction, per commodity, is the same rational in C01/C02
(`FinX.FPost.bal` of the parsed posting: `parseCost`), C08 (`OF.bamt`:
`totalCost`) and C09 (`Assert.balancing`: `costTotal`); hence the three residual
balances denote the same function of the commodity.  No guard is needed here:
the three cost computations differ only in the keep-precision flag and the
precision counter, which the denotation does not see.
-/
import LedgerModel.Lemmas.CoherenceModels

namespace Ledger
namespace Coh

open OF (bamt vadd xbalance)

def contribFin (env : PrecEnv) (c : Comm) (p : Posting) : Rat := (fp env p).bal c

def contribOF (c : Comm) (p : Posting) : Rat :=
  match bamt p with
  | some b => b.den c
  | none => 0

def contribAssert (c : Comm) (p : Posting) : Rat :=
  if p.mustBalance then
    (match Assert.balancing p with
     | some b => b.den c
     | none => 0)
  else 0

theorem parseCost_den (env : PrecEnv) (a : Amount) (k : Cost) (c : Comm) :
    (FinX.parseCost env a k).den c = (OF.totalCost a k).den c := by
  rw [← parseCost_unkeep env a k]
  rfl

theorem costTotal_den (a : Amount) (k : Cost) (c : Comm) :
    (Assert.costTotal a k).den c = (OF.totalCost a k).den c := by
  unfold Assert.costTotal OF.totalCost Amount.den
  by_cases hp : k.perUnit = true
  · simp [hp]
  · by_cases hq : a.q < 0
    · simp [hp, hq, Amount.neg]
    · simp [hp, hq]

theorem contrib_fin_eq_of (env : PrecEnv) (c : Comm) (p : Posting) : contribFin env c p = contribOF c p := by
  unfold contribFin contribOF FinX.FPost.bal bamt
  rw [fp_mustBalance]
  cases hm : p.mustBalance with
  | false => simp
  | true =>
    simp only [if_true]
    rw [fp_eq]
    unfold FinX.costOrAmt
    cases p.amount with
    | none => rfl
    | some a =>
      cases p.cost with
      | none => rfl
      | some k =>
        simp only
        exact parseCost_den env a k c

theorem contrib_assert_eq_of (c : Comm) (p : Posting) : contribAssert c p = contribOF c p := by
  unfold contribAssert contribOF Assert.balancing bamt
  cases hm : p.mustBalance with
  | false => simp
  | true =>
    simp only [if_true]
    cases p.amount with
    | none => cases p.cost <;> rfl
    | some a =>
      cases p.cost with
      | none => rfl
      | some k =>
        simp only
        exact costTotal_den a k c

theorem bsum_cons (c : Comm) (p : Posting) (ps : List Posting) :
    OF.bsum c (p :: ps) = contribOF c p + OF.bsum c ps := by
  unfold OF.bsum contribOF
  simp only [OF.sumBy_cons]
  cases bamt p <;> rfl

/-- C01's exact residual of the parsed postings is the denotation of C08's balance. -/
theorem residual_fin_eq (env : PrecEnv) (ps : List Posting) (c : Comm) :
    FinX.residual (ps.map (fp env)) c = (xbalance ps).den c := by
  rw [OF.xbalance_den]
  induction ps with
  | nil => rfl
  | cons p ps ih =>
    rw [bsum_cons, ← contrib_fin_eq_of env c p]
    simp only [List.map_cons, FinX.residual, ih]
    rfl

/-- C09's residual scan, whatever it returns, denotes the same sums. -/
theorem residual_assert_den (c : Comm) : ∀ (ps : List Posting) (v : Value) (np : Option Posting)
    (v' : Value) (np' : Option Posting), Assert.residual ps v np = .ok (v', np') → Assert.Num v →
    v'.den c = v.den c + OF.bsum c ps := by
  intro ps
  induction ps with
  | nil =>
    intro v np v' np' h _
    simp only [Assert.residual] at h
    cases h
    simp only [OF.bsum, OF.sumBy_nil]; grind
  | cons p ps ih =>
    intro v np v' np' h hv
    have hc := contrib_assert_eq_of c p
    unfold contribAssert at hc
    unfold Assert.residual at h
    rw [bsum_cons, ← hc]
    cases hm : p.mustBalance with
    | false =>
      rw [hm] at h
      simp only [Bool.not_false, if_true, Bool.false_eq_true, if_false] at h ⊢
      rw [ih v np v' np' h hv]; grind
    | true =>
      rw [hm] at h
      simp only [Bool.not_true, Bool.false_eq_true, if_false, if_true] at h ⊢
      cases hb : Assert.balancing p with
      | some a =>
        rw [hb] at h
        simp only at h ⊢
        obtain ⟨h1, h2, _⟩ := Assert.accAdd_spec (env := fun _ => 0) v a hv c
        rw [ih _ np v' np' h h2, h1]; grind
      | none =>
        rw [hb] at h
        simp only at h ⊢
        cases np with
        | some _ => cases h
        | none =>
          simp only at h
          rw [ih v _ v' np' h hv]; grind

/-! ### the lot a posting with a cost is annotated with: C01/C02 `lotStep` vs C16 `annotateCost` -/

theorem takeWhile_stop {α : Type} (p : α → Bool) (x : α) (hx : p x = false) : ∀ (l r : List α),
    (∀ y ∈ l, p y = true) → (l ++ x :: r).takeWhile p = l := by
  intro l
  induction l with
  | nil => intro r _; simp [List.takeWhile_cons, hx]
  | cons y ys ih =>
    intro r h
    simp only [List.cons_append, List.takeWhile_cons, h y List.mem_cons_self, if_true]
    rw [ih r (fun z hz => h z (List.mem_cons_of_mem _ hz))]

/-- C16's encoding `BASE{num/den:COMM}[day]` has base symbol `BASE` -/
theorem baseComm_lotComm (base : Comm) (price : Amount) (date : Int) (h : plain base = true) :
    AutoXact.baseComm (AutoXact.lotComm base price date) = base := by
  unfold AutoXact.baseComm AutoXact.lotComm
  have e : (base ++ "{" ++ ratStr price.q ++ ":" ++ price.comm ++ "}[" ++ toString date ++ "]").toList
      = base.toList ++ '{' :: ((ratStr price.q).toList ++ ':' :: (price.comm.toList ++ '}' :: '[' ::
          ((toString date).toList ++ [']']))) := by
    simp [String.toList_append]
  rw [e, takeWhile_stop _ '{' (by simp), String.ofList_toList]
  intro y hy
  simp only [decide_eq_true_eq]
  intro e2
  subst e2
  unfold plain at h
  have : base.toList.contains '{' = true := List.contains_iff_mem.2 hy
  rw [this] at h; cases h

theorem abs_q_ratAbs (r : Amount) : r.abs.q = AutoXact.ratAbs r.q := by
  unfold Amount.abs AutoXact.ratAbs
  split <;> rfl

/-- the per-unit price C16 puts into the lot: `|total cost / quantity|` in the cost's commodity -/
def autoPrice (env : PrecEnv) (a : Amount) (k : Cost) : Amount :=
  Amount.mk (AutoXact.ratAbs ((FinX.parseCost env a k).q / a.q)) (FinX.parseCost env a k).prec true
    (FinX.parseCost env a k).comm

/-- xact.cc 334-343 / pool.cc 263-309 for a posting `a @ k` without lot:
    C01/C02 (`FinX.lotStep` on the parsed posting) and C16 (`AutoXact.annotateCost`)
    both keep quantity and total cost, and annotate the amount with a lot whose
    per-unit price has the same exact quantity `|cost / amount|` and the same
    commodity, and whose base symbol is the posting's commodity.  (The encodings of
    the lot differ: `BASE{n/d SYM}[YYYY/MM/DD]()` vs `BASE{n/d:SYM}[day]`; so does the
    precision counter of the price — C01/C02: that of `amount_t` division, C16: the
    cost's — which nothing observes: the key carries the exact ratio.) -/
theorem cost_lot_agree (env : PrecEnv) (ds : String) (day : Int) (p : Posting) (a : Amount) (k : Cost)
    (ha : p.amount = some a) (hk : p.cost = some k) (hz : a.isZero env = false)
    (hpa : plain a.comm = true) (hpk : plain k.amt.comm = true) (hne : a.comm ≠ k.amt.comm) :
    ∃ pu p1 p2,
      FinX.lotStep env ds (fp env p) = .ok (p1, none) ∧
      AutoXact.annotateCost env day (AutoXact.toPPost env p) = .ok p2 ∧
      p1.amount = some { a with comm := FinX.annotate a.comm pu ds } ∧
      p2.amount = some { a with comm := AutoXact.lotComm a.comm (autoPrice env a k) day } ∧
      p1.cost = some (FinX.parseCost env a k) ∧ p2.cost = some (FinX.parseCost env a k) ∧
      pu.q = (autoPrice env a k).q ∧ pu.comm = (autoPrice env a k).comm ∧
      FinX.lotBase (FinX.annotate a.comm pu ds) = a.comm ∧
      AutoXact.baseComm (AutoXact.lotComm a.comm (autoPrice env a k) day) = a.comm := by
  have hcc : (FinX.parseCost env a k).comm = k.amt.comm := by
    have := congrArg Amount.comm (parseCost_unkeep env a k)
    simp only at this
    rw [this, totalCost_comm]
  cases hdiv : Amount.div env (FinX.parseCost env a k) a with
  | error e =>
    unfold Amount.div at hdiv
    rw [hz] at hdiv
    simp at hdiv
  | ok r =>
    have hrq : r.q = (FinX.parseCost env a k).q / a.q := Amount.div_q hdiv
    obtain ⟨pu, hpu, hpuq, hpuc⟩ : ∃ pu, FinX.perUnitCost env a (FinX.parseCost env a k) = .ok pu ∧
        pu.q = r.abs.q ∧ pu.comm = (FinX.decodeLot (FinX.parseCost env a k).comm).1 := by
      unfold FinX.perUnitCost
      rw [hz, hdiv]
      exact ⟨_, rfl, rfl, rfl⟩
    have h1 : ∃ p1, FinX.lotStep env ds (fp env p) = .ok (p1, none) ∧
        p1.amount = some { a with comm := FinX.annotate a.comm pu ds } ∧
        p1.cost = some (FinX.parseCost env a k) := by
      rw [fp_eq]
      unfold FinX.lotStep
      simp only [ha, hk, hpu]
      exact ⟨_, rfl, rfl, rfl⟩
    have h2 : ∃ p2, AutoXact.annotateCost env day (AutoXact.toPPost env p) = .ok p2 ∧
        p2.amount = some { a with comm := AutoXact.lotComm a.comm (autoPrice env a k) day } ∧
        p2.cost = some (FinX.parseCost env a k) := by
      unfold AutoXact.toPPost AutoXact.annotateCost
      simp only [ha, hk]
      have h1 : AutoXact.hasLot a.comm = false := by rw [hasLot_eq, hpa]; rfl
      rw [h1]
      have hne' : ¬ a.comm = (FinX.parseCost env a k).comm := by rw [hcc]; exact hne
      simp only [Bool.false_eq_true, if_false, hne', hz]
      exact ⟨_, rfl, rfl, rfl⟩
    obtain ⟨p1, e1, e2, e3⟩ := h1
    obtain ⟨p2, f1, f2, f3⟩ := h2
    refine ⟨pu, p1, p2, e1, f1, e2, f2, e3, f3, ?_, ?_, ?_, ?_⟩
    · rw [hpuq]; simp only [abs_q_ratAbs, hrq, autoPrice]
    · rw [hpuc]; simp only [hcc, decodeLot_plain k.amt.comm hpk, autoPrice]
    · exact lotBase_annotate a.comm _ ds hpa
    · exact baseComm_lotComm a.comm _ day hpa

end Coh
end Ledger
