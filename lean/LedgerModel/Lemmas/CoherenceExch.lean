/-
MODEL COHERENCE — `FinX.finalize` without an elided posting: the plain zero
test, and the implicit two-commodity exchange (xact.cc 220-283) which, on exact
decimal amounts, accepts exactly when the two residual sums have opposite
signs — what `OF.acceptNoNull` and `Assert.impliedPrice` state directly.
-/
import LedgerModel.Lemmas.CoherenceFinX

namespace Ledger
namespace Coh

open OF (bamt vadd xbalance nullPosts isNullPost inferred)

theorem fin_twoNulls (env : PrecEnv) (enum : Balance → Balance) (date : String) (ps : List Posting)
    (a b : Posting) (r : List Posting) (h : nullPosts ps = a :: b :: r) :
    verdictFin (FinX.finalizeF env none enum date (ps.map (fp env))) = ref env ps := by
  unfold ref
  rw [h]
  simp only
  unfold FinX.finalizeF
  rcases scan_twoNulls env ps a b r h with h1 | h1 <;> rw [h1] <;> rfl

theorem scan_noNull' (env : PrecEnv) (ps : List Posting) (hk : noKeepAmt ps = true)
    (hnull : nullPosts ps = []) :
    FinX.scan (ps.map (fp env)) 0 .void none = .ok (xbalance ps, none) := by
  rw [scan_noNull env ps 0 .void none trivial hk hnull]
  rfl

theorem isNull_valueIsZero (env : PrecEnv) (v : Value) (h : FinX.isNull v = true) :
    FinX.valueIsZero env v = true := by
  cases v <;> first | rfl | cases h

/-- when the exchange does not apply, C08's acceptance test is the plain zero test -/
theorem acceptNoNull_plain (env : PrecEnv) (ps : List Posting) (hnull : nullPosts ps = [])
    (himp : impliedCase env ps = false) :
    OF.acceptNoNull env ps (xbalance ps) = OF.valueIsZero env (xbalance ps) := by
  unfold impliedCase at himp
  rw [hnull] at himp
  simp only [List.isEmpty_nil, Bool.true_and] at himp
  unfold OF.acceptNoNull
  cases hB : xbalance ps with
  | bal b =>
    rw [hB] at himp
    match b with
    | [] => rfl
    | [_] => rfl
    | [x, y] =>
      simp only at himp ⊢
      by_cases hc : ps.any (fun p => p.cost.isSome) = true
      · rw [if_pos hc]
      · rw [if_neg hc]
        have hc' : ps.any (fun p => p.cost.isSome) = false := by simpa using hc
        rw [hc'] at himp
        simp only [Bool.not_false, Bool.true_and] at himp
        rw [himp]
        simp
    | _ :: _ :: _ :: _ => rfl
  | void => rfl
  | amt _ => rfl
  | int _ => rfl
  | bool _ => rfl

/-- … and `FinX.exchange2` is the identity -/
theorem implicit_false (env : PrecEnv) (ps : List Posting) (hk : noKeepAmt ps = true)
    (hnull : nullPosts ps = []) (hca : costHasAmount ps = true) (himp : impliedCase env ps = false) :
    FinX.implicitExchange env (ps.map (fp env)) = false := by
  unfold FinX.implicitExchange
  rw [scan_noNull' env ps hk hnull]
  unfold impliedCase at himp
  rw [hnull] at himp
  simp only [List.isEmpty_nil, Bool.true_and] at himp
  cases hB : xbalance ps with
  | bal b =>
    rw [hB] at himp
    simp only
    by_cases hc : ps.any (fun p => p.cost.isSome) = true
    · obtain ⟨p, hp, hpc⟩ := List.any_eq_true.1 hc
      have hpa : p.amount.isSome = true := by
        unfold costHasAmount at hca
        have := List.all_eq_true.1 hca p hp
        rw [hpc] at this
        simpa using this
      have hts := FinX.topScan_true_of_cost (ps.map (fp env)) none
        ⟨fp env p, List.mem_map.2 ⟨p, hp, rfl⟩, by
          rw [fp_cost]
          cases ha : p.amount with
          | none => rw [ha] at hpa; cases hpa
          | some a =>
            cases hcc : p.cost with
            | none => rw [hcc] at hpc; cases hpc
            | some c => simp, by rw [fp_eq]⟩
      simp [hts]
    · have hc' : ps.any (fun p => p.cost.isSome) = false := by simpa using hc
      rw [hc'] at himp
      simp only [Bool.not_false, Bool.true_and] at himp
      match b, himp with
      | [], _ => simp
      | [_], _ => simp
      | [x, y], himp =>
        have : ([x, y] : Balance).all (fun a => !a.isZero env) = false := by
          simp only [List.all_cons, List.all_nil, Bool.and_true]
          exact himp
        simp [this]
      | _ :: _ :: _ :: _, _ => simp
  | void => rfl
  | amt _ => rfl
  | int _ => rfl
  | bool _ => rfl

/-- what `finalizeF` does after the exchange step when nothing is elided -/
theorem fin_tail_noNull (env : PrecEnv) (ps : List Posting) (hnull : nullPosts ps = [])
    (hvn : noVirtNull ps = true) (L : List FinX.FPost) (B : Value)
    (hrows : L.filterMap rowOfFin = rowsOf [] ps) (hsome : ∀ q ∈ L, q.amount.isSome = true)
    (hnil : L = [] ↔ ps = []) (acc : Bool) (hacc : FinX.valueIsZero env B = acc) :
    verdictFin (if FinX.isNull B = false ∧ FinX.valueIsZero env B = false then .error .unbalanced
                else FinX.finish L)
      = if acc then Verdict.accepted (rowsOf [] ps) else Verdict.unbalanced := by
  cases acc with
  | true =>
    rw [hacc]
    simp only [Bool.true_eq_false, and_false, if_false, if_true]
    by_cases hp : ps = []
    · have hL := hnil.2 hp
      subst hp
      subst hL
      rfl
    · have hL : L ≠ [] := fun h => hp (hnil.1 h)
      rw [finish_ok_of L hL hsome]
      simp only [verdictFin, hrows]
  | false =>
    have hn : FinX.isNull B = false := by
      cases h : FinX.isNull B with
      | false => rfl
      | true => rw [isNull_valueIsZero env B h] at hacc; cases hacc
    rw [hacc, hn]
    simp [verdictFin]

theorem rows_allSome_fp (env : PrecEnv) (inf : List Amount) : ∀ (ps : List Posting),
    (∀ p ∈ ps, p.amount.isSome = true) → (∀ p ∈ ps, ∀ a, p.amount = some a → plain a.comm = true) →
    (ps.map (fp env)).filterMap rowOfFin = rowsOf inf ps := by
  intro ps
  induction ps with
  | nil => intro _ _; rfl
  | cons p ps ih =>
    intro h hl
    have hp := h p List.mem_cons_self
    cases ha : p.amount with
    | none => rw [ha] at hp; cases hp
    | some a =>
      simp only [List.map_cons, List.filterMap_cons, rowsOf, ha]
      rw [rowOfFin_fp env p (hl p List.mem_cons_self), ha]
      simp only [Option.map_some]
      rw [ih (fun q hq => h q (List.mem_cons_of_mem _ hq)) (fun q hq => hl q (List.mem_cons_of_mem _ hq))]

/-- Nothing elided, the implicit exchange does not apply. -/
theorem fin_noNull_plain (env : PrecEnv) (enum : Balance → Balance) (henum : ∀ b, (enum b).Perm b)
    (date : String) (ps : List Posting) (hnull : nullPosts ps = [])
    (hk : noKeepAmt ps = true) (hvn : noVirtNull ps = true) (hco : costOtherComm ps = true)
    (hca : costHasAmount ps = true) (hla : noLotAmt ps = true) (himp : impliedCase env ps = false) :
    verdictFin (FinX.finalizeF env none enum date (ps.map (fp env))) = ref env ps := by
  have hscan := scan_noNull' env ps hk hnull
  have hex := FinX.exchange2_id_of_not_implicit env enum henum (ps.map (fp env)) (xbalance ps) hscan
    (implicit_false env ps hk hnull hca himp)
  have hS := allSome_of ps hvn hnull
  unfold FinX.finalizeF
  rw [hscan]
  simp only [Option.map_none, FinX.applyBucket]
  rw [hex]
  simp only [costsOk_fp env ps hco, lotLoop_fp, FinX.fillNull]
  unfold ref
  rw [hnull]
  simp only [Bool.true_eq_false, if_false]
  rw [acceptNoNull_plain env ps hnull himp, ← valueIsZero_fin_eq_of]
  exact fin_tail_noNull env ps hnull hvn (ps.map (fpg env date)) (xbalance ps)
    (rows_allSome env date [] ps hS (noLotAmt_mem ps hla)) (fin_all_some env date ps hS) (by simp) _ rfl

/-! ### the implicit two-commodity exchange -/

theorem sq_pos (P : Rat) (h : P ≠ 0) : 0 < P * P := by
  rcases (Rat.le_total (a := 0) (b := P)) with h1 | h1
  · have : 0 < P := by grind
    exact Rat.mul_pos this this
  · have : 0 < -P := by grind
    have := Rat.mul_pos this this
    grind

theorem opposite_of (t P S : Rat) (ht : 0 ≤ t) (h : t * P = -S) (hS : S ≠ 0) (hP : P ≠ 0) : P * S < 0 := by
  have hP2 := sq_pos P hP
  have ht0 : t ≠ 0 := by intro e; rw [e] at h; grind
  have htp : 0 < t := by grind
  have := Rat.mul_pos htp hP2
  have e : P * S = -(t * (P * P)) := by grind
  grind

theorem same_of (t P S : Rat) (ht : 0 ≤ t) (h : t * P = S) (hP : P ≠ 0) : ¬ (P * S < 0) := by
  have hP2 := sq_pos P hP
  have := Rat.mul_nonneg ht (Rat.le_of_lt hP2)
  have e : P * S = (t * (P * P)) := by grind
  grind

theorem mul_neg_iff_signs (x y : Rat) (hx : x ≠ 0) (hy : y ≠ 0) :
    decide (x * y < 0) = (decide (x < 0) != decide (y < 0)) := by
  rcases (Rat.le_total (a := 0) (b := x)) with h1 | h1 <;>
    rcases (Rat.le_total (a := 0) (b := y)) with h2 | h2
  · have a : 0 < x := by grind
    have b : 0 < y := by grind
    have := Rat.mul_pos a b
    grind
  · have a : 0 < x := by grind
    have b : 0 < -y := by grind
    have := Rat.mul_pos a b
    grind
  · have a : 0 < -x := by grind
    have b : 0 < y := by grind
    have := Rat.mul_pos a b
    grind
  · have a : 0 < -x := by grind
    have b : 0 < -y := by grind
    have := Rat.mul_pos a b
    grind

theorem abs_q_nonneg (a : Amount) : 0 ≤ a.abs.q := by
  unfold Amount.abs
  split
  · simp only [Amount.neg]; grind
  · grind

/-- INTEGER / AMOUNT / BALANCE: the balance while the pricing loop runs -/
def NV : Value → Prop
  | .int _ => True
  | .amt _ => True
  | .bal _ => True
  | _ => False

theorem NV_isNum {v : Value} (h : NV v) : FinX.isNum v = true := by
  cases v <;> first | rfl | cases h

theorem NV_simplify (v : Value) (h : NV v) : NV v.simplify := by
  unfold Value.simplify
  split
  · trivial
  · split
    · trivial
    · exact h

theorem sub_amt_NV (v : Value) (a : Amount) (h : NV v) : ∃ r, Value.sub v (.amt a) = .ok r ∧ NV r := by
  cases v with
  | void => cases h
  | bool _ => cases h
  | int x =>
    simp only [Value.sub]
    split
    · exact ⟨_, rfl, NV_simplify _ trivial⟩
    · cases hs : Amount.sub (Amount.ofInt x) a with
      | error e => simp [Amount.sub, Amount.ofInt, Amount.hasComm] at hs
      | ok r => exact ⟨_, rfl, NV_simplify _ trivial⟩
  | amt x =>
    simp only [Value.sub]
    by_cases hc : x.comm ≠ a.comm
    · rw [if_pos hc]; exact ⟨_, rfl, NV_simplify _ trivial⟩
    · rw [if_neg hc]
      have hc' : x.comm = a.comm := by simpa using hc
      have : ¬ (x.hasComm = true ∧ a.hasComm = true ∧ x.comm ≠ a.comm) := fun h => h.2.2 hc'
      simp only [Amount.sub, if_neg this, Except.map]
      exact ⟨_, rfl, NV_simplify _ trivial⟩
  | bal b => exact ⟨_, rfl, NV_simplify _ trivial⟩

theorem add_amt_NV (v : Value) (a : Amount) (h : NV v) : ∃ r, Value.add v (.amt a) = .ok r ∧ NV r := by
  cases v with
  | void => cases h
  | bool _ => cases h
  | int x =>
    simp only [Value.add]
    split
    · exact ⟨_, rfl, trivial⟩
    · have : ¬ ((Amount.ofInt x).hasComm = true ∧ a.hasComm = true ∧ (Amount.ofInt x).comm ≠ a.comm) := by
        simp [Amount.ofInt, Amount.hasComm]
      simp only [Amount.add, if_neg this, Except.map]
      exact ⟨_, rfl, trivial⟩
  | amt x =>
    simp only [Value.add]
    by_cases hc : x.comm ≠ a.comm
    · rw [if_pos hc]; exact ⟨_, rfl, trivial⟩
    · rw [if_neg hc]
      have hc' : x.comm = a.comm := by simpa using hc
      have : ¬ (x.hasComm = true ∧ a.hasComm = true ∧ x.comm ≠ a.comm) := fun h => h.2.2 hc'
      simp only [Amount.add, if_neg this, Except.map]
      exact ⟨_, rfl, trivial⟩
  | bal b => exact ⟨_, rfl, trivial⟩

/-- the (account, kind, amount) content of a posting list -/
abbrev rowsFin (L : List FinX.FPost) : List Row := L.filterMap rowOfFin

/-- what the pricing loop leaves untouched -/
abbrev core (q : FinX.FPost) : String × PostKind × Option Amount × Option Amount :=
  (q.account, q.kind, q.amount, q.lotPrice)

theorem rowsFin_of_core {L L' : List FinX.FPost} (h : L'.map core = L.map core) : rowsFin L' = rowsFin L := by
  induction L generalizing L' with
  | nil => cases L' with
    | nil => rfl
    | cons _ _ => cases h
  | cons p ps ih =>
    cases L' with
    | nil => cases h
    | cons q qs =>
      simp only [List.map_cons, List.cons.injEq] at h
      have hq : rowOfFin q = rowOfFin p := by
        unfold rowOfFin
        have h1 : q.account = p.account := congrArg (·.1) h.1
        have h2 : q.kind = p.kind := congrArg (·.2.1) h.1
        have h3 : q.amount = p.amount := congrArg (·.2.2.1) h.1
        rw [h1, h2, h3]
      simp only [rowsFin, List.filterMap_cons, hq]
      have := ih h.2
      unfold rowsFin at this
      rw [this]

theorem mem_of_core {L L' : List FinX.FPost} (h : L'.map core = L.map core) :
    ∀ q ∈ L', ∃ p ∈ L, core q = core p := by
  intro q hq
  have : core q ∈ L'.map core := List.mem_map.2 ⟨q, hq, rfl⟩
  rw [h] at this
  obtain ⟨p, hp, e⟩ := List.mem_map.1 this
  exact ⟨p, hp, e.symm⟩

/-- xact.cc 269-280 runs to completion on postings that all carry an amount; it
    touches nothing but `cost`/`costCalculated`. -/
theorem exchPosts_progress (env : PrecEnv) (comm : Comm) (pu : Amount) (hpu : pu.hasComm = true)
    (hne : pu.comm ≠ comm) : ∀ (L : List FinX.FPost) (B : Value), NV B →
    (∀ q ∈ L, q.amount.isSome = true) → (∀ q ∈ L, q.cost = none) →
    ∃ L' B', FinX.exchPosts env comm pu L B = .ok (L', B') ∧ L'.map core = L.map core ∧
      FinX.costsOk L' = true := by
  intro L
  induction L with
  | nil =>
    intro B _ _ _
    exact ⟨[], B, rfl, rfl, rfl⟩
  | cons p ps ih =>
    intro B hB hsome hnc
    have hs' : ∀ q ∈ ps, q.amount.isSome = true := fun q hq => hsome q (List.mem_cons_of_mem _ hq)
    have hn' : ∀ q ∈ ps, q.cost = none := fun q hq => hnc q (List.mem_cons_of_mem _ hq)
    have hp := hsome p List.mem_cons_self
    have hpc := hnc p List.mem_cons_self
    obtain ⟨acct, kind, st, am, co, cl, cc, g, inf, lp⟩ := p
    simp only at hp hpc
    subst hpc
    cases am with
    | none => cases hp
    | some amt =>
      unfold FinX.exchPosts
      simp only
      by_cases hcnd : (FinX.FPost.mk acct kind st (some amt) none cl cc g inf lp).mustBalance = true ∧ amt.comm = comm
      · rw [if_pos hcnd]
        obtain ⟨b1, hb1, hN1⟩ := sub_amt_NV B amt hB
        rw [hb1]
        simp only
        obtain ⟨b2, hb2, hN2⟩ := add_amt_NV b1 (Amount.mul env pu amt) hN1
        rw [hb2]
        simp only
        obtain ⟨L', B', h1, h2, h4⟩ := ih b2 hN2 hs' hn'
        rw [h1]
        refine ⟨_, B', rfl, ?_, ?_⟩
        · simp only [List.map_cons, h2]
        · unfold FinX.costsOk at h4 ⊢
          simp only [List.all_cons, h4, Bool.and_true]
          have : (Amount.mul env pu amt).comm = pu.comm := Amount.mul_comm_of_hasComm env pu amt hpu
          rw [this, hcnd.2]
          simpa using hne.symm
      · rw [if_neg hcnd]
        obtain ⟨L', B', h1, h2, h4⟩ := ih B hB hs' hn'
        rw [h1]
        refine ⟨_, B', rfl, ?_, ?_⟩
        · simp only [List.map_cons, h2]
        · unfold FinX.costsOk at h4 ⊢
          simp only [List.all_cons, h4, Bool.and_true]

/-- every entry of a well-formed value with denotation 0 everywhere is exactly 0 -/
theorem valueIsZero_of_den_zero (env : PrecEnv) (v : Value) (hn : FinX.isNum v = true) (hw : FinX.wfV v)
    (h : ∀ c, v.den c = 0) : FinX.valueIsZero env v = true := by
  cases v with
  | void => rfl
  | bool _ => cases hn
  | int n =>
    have := h ""
    simp only [Value.den, if_true] at this
    have : n = 0 := by
      have h2 : ((n : Int) : Rat) = ((0 : Int) : Rat) := by simpa using this
      exact Rat.intCast_inj.1 h2
    simp [FinX.valueIsZero, this]
  | amt a =>
    have := h a.comm
    simp only [Value.den, Amount.den, if_true] at this
    exact OF.amount_isZero_of_q env this
  | bal b =>
    simp only [FinX.valueIsZero]
    rw [List.all_eq_true]
    intro a ha
    have := FinX.den_of_mem_wf hw ha
    have h0 := h a.comm
    simp only [Value.den] at h0
    rw [h0] at this
    exact OF.amount_isZero_of_q env this.symm

/-- The outcome of xact.cc 264-281 on exact amounts: the transaction is left
    balanced exactly when primary and secondary have opposite signs. -/
theorem exchangeWith_outcome (env : PrecEnv) (P S : Amount) (L : List FinX.FPost) (B : Value)
    (hPS : P.comm ≠ S.comm) (hP : FinX.Exact env P) (hS : FinX.Exact env S)
    (hPz : P.isZero env = false) (hSz : S.isZero env = false)
    (hnc : ∀ q ∈ L, q.cost = none) (hsome : ∀ q ∈ L, q.amount.isSome = true)
    (hNV : NV B) (hw : FinX.wfV B)
    (hden : ∀ c, B.den c = P.den c + S.den c) (hres : ∀ c, B.den c = FinX.residual L c) :
    ∃ L' B', FinX.exchangeWith env P S L B = .ok (L', B') ∧ L'.map core = L.map core ∧
      FinX.costsOk L' = true ∧ FinX.isNum B' = true ∧ FinX.wfV B' ∧
      FinX.valueIsZero env B' = decide (P.q * S.q < 0) := by
  have hPq : P.q ≠ 0 := Amount.isZero_false_ne hPz
  have hSq : S.q ≠ 0 := Amount.isZero_false_ne hSz
  cases hdiv : Amount.div env S P with
  | error e =>
    unfold Amount.div at hdiv
    rw [hPz] at hdiv
    simp at hdiv
  | ok r =>
    have hrq : r.q = S.q / P.q := Amount.div_q hdiv
    have hrc : r.comm = S.comm := FinX.div_comm_of_hasComm hdiv hS.1
    have hpuc : ({ r.abs with keep := true } : Amount).comm = S.comm := by
      simp only [FinX.abs_comm, hrc]
    have hpuh : ({ r.abs with keep := true } : Amount).hasComm = true := by
      have := hS.1
      simp only [Amount.hasComm] at this ⊢
      rw [hpuc]; exact this
    obtain ⟨L', B', hE, h2, h4⟩ := exchPosts_progress env P.comm { r.abs with keep := true } hpuh
      (by rw [hpuc]; exact fun e => hPS e.symm) L B hNV hsome hnc
    have hEW : FinX.exchangeWith env P S L B = .ok (L', B') := by
      unfold FinX.exchangeWith
      rw [hdiv]
      exact hE
    obtain ⟨i1, i2, _, _⟩ := FinX.exchangeWith_inv env P S L B L' B' hEW hnc (NV_isNum hNV) hw
    refine ⟨L', B', hEW, h2, h4, i1, i2, ?_⟩
    have hR : FinX.residual L P.comm = P.q := by
      rw [← hres P.comm, hden P.comm]
      simp only [Amount.den, if_true, if_neg (Ne.symm hPS)]; grind
    have hform : ∀ c, B'.den c = (P.den c + S.den c) - (if P.comm = c then P.q else 0)
        + (if S.comm = c then r.abs.q * P.q else 0) := by
      intro c
      have e := FinX.exchPosts_den env P.comm _ hpuh L B L' B' hE hnc c
      rw [hpuc, hR, hden c] at e
      exact e
    rcases FinX.abs_q_mul r P.q S.q hPq hrq with h6 | h6
    · -- same sign: the secondary residual doubles and cannot display as zero
      have hns : ¬ (P.q * S.q < 0) := same_of r.abs.q P.q S.q (abs_q_nonneg r) h6 hPq
      rw [decide_eq_false hns]
      cases hz : FinX.valueIsZero env B' with
      | false => rfl
      | true =>
        have hdz : ∀ c, FinX.displaysZero env c (B'.den c) = true :=
          fun c => FinX.value_isZero_den env B' i2 i1 hz c
        have hall := FinX.exchangeWith_exact env P S B L L' B' hPS hP hS hPz hEW hnc hden hres hdz
        have h0 := hall S.comm
        rw [hform S.comm] at h0
        simp only [Amount.den, if_true, if_neg hPS, h6] at h0
        exfalso; apply hSq; grind
    · have hopp : P.q * S.q < 0 := opposite_of r.abs.q P.q S.q (abs_q_nonneg r) h6 hSq hPq
      rw [decide_eq_true hopp]
      apply valueIsZero_of_den_zero env B' i1 i2
      intro c
      rw [hform c, h6]
      simp only [Amount.den]
      by_cases h1 : P.comm = c
      · have h2' : ¬ S.comm = c := fun e2 => hPS (h1.trans e2.symm)
        simp only [h1, h2', if_true, if_false]; grind
      · by_cases h2' : S.comm = c
        · simp only [h1, h2', if_true, if_false]; grind
        · simp only [h1, h2', if_false]; grind

/-! ### entering the exchange -/

theorem topScan_noCost : ∀ (L : List FinX.FPost) (top : Option FinX.FPost), (∀ q ∈ L, q.cost = none) →
    (∀ q ∈ L, ∀ a, q.amount = some a → plain a.comm = true) →
    FinX.topScan L top = (false, match top with
      | some t => some t
      | none => L.find? (fun p => p.amount.isSome && p.mustBalance)) := by
  intro L
  induction L with
  | nil => intro top _ _; cases top <;> rfl
  | cons p ps ih =>
    intro top hnc hpl
    have hpc := hnc p List.mem_cons_self
    unfold FinX.topScan
    simp only [hpc, Option.isSome_none, Bool.false_eq_true, false_and, if_false]
    rw [ih _ (fun q hq => hnc q (List.mem_cons_of_mem _ hq)) (fun q hq => hpl q (List.mem_cons_of_mem _ hq))]
    cases ha : p.amount with
    | none =>
      simp only [List.find?_cons, ha, Option.isSome_none, Bool.false_and]
    | some a =>
      have hann := hasAnn_plain a.comm (hpl p List.mem_cons_self a ha)
      simp only [hann, Bool.false_eq_true, if_false]
      cases hm : p.mustBalance with
      | false => simp only [Bool.false_eq_true, if_false, List.find?_cons, ha, hm, Option.isSome_some, Bool.and_false]
      | true =>
        simp only [if_true, List.find?_cons, ha, hm, Option.isSome_some, Bool.and_true]
        cases top <;> rfl

theorem perm_pair {α : Type} {l : List α} {x y : α} (h : l.Perm [x, y]) : l = [x, y] ∨ l = [y, x] := by
  have hl := h.length_eq
  match l, hl with
  | [a, b], _ =>
    have ha : a ∈ [x, y] := h.mem_iff.1 List.mem_cons_self
    have hb : b ∈ [x, y] := h.mem_iff.1 (List.mem_cons_of_mem _ List.mem_cons_self)
    have hx : x ∈ [a, b] := h.mem_iff.2 List.mem_cons_self
    have hy : y ∈ [a, b] := h.mem_iff.2 (List.mem_cons_of_mem _ List.mem_cons_self)
    simp only [List.mem_cons, List.not_mem_nil, or_false] at ha hb hx hy
    rcases ha with rfl | rfl
    · rcases hy with rfl | rfl
      · rcases hb with rfl | rfl <;> simp
      · simp
    · rcases hx with rfl | rfl
      · rcases hb with rfl | rfl <;> simp
      · simp

/-- xact.cc 220-263: with two display-non-zero residual entries and no cost the
    exchange is entered with one of them as primary. -/
theorem exchange2_implied (env : PrecEnv) (enum : Balance → Balance) (henum : ∀ b, (enum b).Perm b)
    (L : List FinX.FPost) (x y : Amount) (hnc : ∀ q ∈ L, q.cost = none)
    (hpl : ∀ q ∈ L, ∀ a, q.amount = some a → plain a.comm = true)
    (htop : ∃ q ∈ L, q.amount.isSome = true ∧ q.mustBalance = true)
    (hx : x.isZero env = false) (hy : y.isZero env = false) :
    ∃ P S, ((P = x ∧ S = y) ∨ (P = y ∧ S = x)) ∧
      FinX.exchange2 env enum L (.bal [x, y]) none = FinX.exchangeWith env P S L (.bal [x, y]) := by
  obtain ⟨q, hq, hq1, hq2⟩ := htop
  have hfind : ∃ t, L.find? (fun p => p.amount.isSome && p.mustBalance) = some t := by
    cases hf : L.find? (fun p => p.amount.isSome && p.mustBalance) with
    | some t => exact ⟨t, rfl⟩
    | none =>
      have := List.find?_eq_none.1 hf q hq
      simp [hq1, hq2] at this
  obtain ⟨t, ht⟩ := hfind
  have hts : FinX.topScan L none = (false, some t) := by
    rw [topScan_noCost L none hnc hpl]; simp only [ht]
  unfold FinX.exchange2
  simp only [List.length_cons, List.length_nil, Nat.zero_add, Nat.reduceAdd, if_true, hts]
  rcases perm_pair (henum [x, y]) with he | he
  · rw [he]
    simp only [hx, hy, and_self, if_true]
    split
    · exact ⟨y, x, Or.inr ⟨rfl, rfl⟩, rfl⟩
    · exact ⟨x, y, Or.inl ⟨rfl, rfl⟩, rfl⟩
  · rw [he]
    simp only [hx, hy, and_self, if_true]
    split
    · exact ⟨x, y, Or.inl ⟨rfl, rfl⟩, rfl⟩
    · exact ⟨y, x, Or.inr ⟨rfl, rfl⟩, rfl⟩

theorem exact_of_exactB (env : PrecEnv) (a : Amount) (h : exactB env a = true) : FinX.Exact env a := by
  unfold exactB at h
  simp only [Bool.and_eq_true, Bool.not_eq_true', decide_eq_true_eq] at h
  exact ⟨h.1.1.1, h.1.1.2, h.1.2, _, h.2⟩

theorem xbalance_some_posting (ps : List Posting) (b : Balance) (hB : xbalance ps = .bal b) :
    ∃ p ∈ ps, p.amount.isSome = true ∧ p.mustBalance = true := by
  apply Classical.byContradiction
  intro hno
  have : ps.filterMap bamt = [] := by
    rw [List.filterMap_eq_nil_iff]
    intro p hp
    cases hb : bamt p with
    | none => rfl
    | some a =>
      exfalso; apply hno
      refine ⟨p, hp, ?_⟩
      unfold bamt at hb
      cases hm : p.mustBalance with
      | false => rw [hm] at hb; simp at hb
      | true =>
        cases ha : p.amount with
        | none => rw [hm, ha] at hb; simp at hb
        | some _ => simp
  unfold xbalance at hB
  rw [this] at hB
  cases hB

theorem rowsFin_lotG (env : PrecEnv) (date : String) : ∀ (L : List FinX.FPost),
    (∀ q ∈ L, q.lotPrice = none) → (∀ q ∈ L, ∀ a, q.amount = some a → plain a.comm = true) →
    rowsFin (L.map (lotG env date)) = rowsFin L := by
  intro L
  induction L with
  | nil => intro _ _; rfl
  | cons q qs ih =>
    intro h1 h2
    simp only [rowsFin, List.map_cons, List.filterMap_cons]
    rw [rowOfFin_lotG env date q (h1 q List.mem_cons_self) (h2 q List.mem_cons_self)]
    have := ih (fun x hx => h1 x (List.mem_cons_of_mem _ hx)) (fun x hx => h2 x (List.mem_cons_of_mem _ hx))
    unfold rowsFin at this
    rw [this]

/-- Nothing elided, the implicit exchange applies (exact decimal amounts). -/
theorem fin_noNull_implied (env : PrecEnv) (enum : Balance → Balance) (henum : ∀ b, (enum b).Perm b)
    (date : String) (ps : List Posting) (hnull : nullPosts ps = [])
    (hk : noKeepAmt ps = true) (hvn : noVirtNull ps = true) (hla : noLotAmt ps = true)
    (himp : impliedCase env ps = true) (hexact : exactAmts env ps = true) :
    verdictFin (FinX.finalizeF env none enum date (ps.map (fp env))) = ref env ps := by
  unfold impliedCase at himp
  rw [hnull] at himp
  simp only [List.isEmpty_nil, Bool.true_and, Bool.and_eq_true, Bool.not_eq_true'] at himp
  obtain ⟨hnocost, hmatch⟩ := himp
  cases hB : xbalance ps with
  | void => rw [hB] at hmatch; cases hmatch
  | amt _ => rw [hB] at hmatch; cases hmatch
  | int _ => rw [hB] at hmatch; cases hmatch
  | bool _ => rw [hB] at hmatch; cases hmatch
  | bal b =>
    rw [hB] at hmatch
    match b, hmatch, hB with
    | [], hmatch, _ => cases hmatch
    | [_], hmatch, _ => cases hmatch
    | _ :: _ :: _ :: _, hmatch, _ => cases hmatch
    | [x, y], hmatch, hB =>
      simp only [Bool.and_eq_true, Bool.not_eq_true'] at hmatch
      obtain ⟨hxz, hyz⟩ := hmatch
      have hS := allSome_of ps hvn hnull
      have hla' := noLotAmt_mem ps hla
      have hscan := scan_noNull' env ps hk hnull
      rw [hB] at hscan
      -- no cost anywhere
      have hpc : ∀ p ∈ ps, p.cost = none := by
        intro p hp
        have := List.any_eq_false.1 hnocost p hp
        cases hc : p.cost with
        | none => rfl
        | some _ => rw [hc] at this; simp at this
      have hnc : ∀ q ∈ ps.map (fp env), q.cost = none := by
        intro q hq
        obtain ⟨p, hp, rfl⟩ := List.mem_map.1 hq
        rw [fp_cost, hpc p hp]
        cases p.amount <;> rfl
      have hplF : ∀ q ∈ ps.map (fp env), ∀ a, q.amount = some a → plain a.comm = true := by
        intro q hq a ha
        obtain ⟨p, hp, rfl⟩ := List.mem_map.1 hq
        rw [fp_amount] at ha
        exact hla' p hp a ha
      -- exactness and well-formedness of the two residual entries
      have hamtE : ∀ q ∈ ps.map (fp env), ∀ a, q.amount = some a → FinX.Exact env a := by
        intro q hq a ha
        obtain ⟨p, hp, rfl⟩ := List.mem_map.1 hq
        unfold exactAmts at hexact
        have := List.all_eq_true.1 hexact p hp
        rw [fp_amount] at ha
        rw [ha] at this
        exact exact_of_exactB env a this
      have hEx := FinX.scan_exact env (ps.map (fp env)) 0 .void none _ none hscan trivial hnc hamtE
      have hxE : FinX.Exact env x := hEx x List.mem_cons_self
      have hyE : FinX.Exact env y := hEx y (List.mem_cons_of_mem _ List.mem_cons_self)
      obtain ⟨_, hwf, hdenres⟩ := FinX.scan_inv (ps.map (fp env)) 0 .void none _ none hscan rfl trivial
      have hxy : x.comm ≠ y.comm := by
        have : FinX.wfB [x, y] := hwf
        unfold FinX.wfB at this
        simp only [List.map_cons, List.map_nil, List.nodup_cons, List.mem_cons, List.not_mem_nil,
          or_false] at this
        exact this.1
      have hres : ∀ c, (Value.bal [x, y]).den c = FinX.residual (ps.map (fp env)) c := by
        intro c
        have := hdenres c
        simp only [Value.den] at this ⊢
        rw [this]; grind
      obtain ⟨p0, hp0, hp0a, hp0m⟩ := xbalance_some_posting ps _ hB
      obtain ⟨P, S, hPS, hX⟩ := exchange2_implied env enum henum (ps.map (fp env)) x y hnc hplF
        ⟨fp env p0, List.mem_map.2 ⟨p0, hp0, rfl⟩, by rw [fp_amount]; exact hp0a, hp0m⟩ hxz hyz
      have hfinSome : ∀ q ∈ ps.map (fp env), q.amount.isSome = true := by
        intro q hq
        obtain ⟨p, hp, rfl⟩ := List.mem_map.1 hq
        rw [fp_amount]; exact hS p hp
      have key : ∃ L' B', FinX.exchangeWith env P S (ps.map (fp env)) (.bal [x, y]) = .ok (L', B') ∧
          L'.map core = (ps.map (fp env)).map core ∧ FinX.costsOk L' = true ∧
          FinX.isNum B' = true ∧ FinX.wfV B' ∧
          FinX.valueIsZero env B' = decide (x.q * y.q < 0) := by
        rcases hPS with ⟨rfl, rfl⟩ | ⟨rfl, rfl⟩
        · exact exchangeWith_outcome env P S _ (.bal [P, S]) hxy hxE hyE hxz hyz hnc hfinSome trivial hwf
            (fun c => by simp only [Value.den, Balance.den]; grind) hres
        · obtain ⟨L', B', h1, h2, h3, h4, h5, h6⟩ := exchangeWith_outcome env P S _ (.bal [S, P]) (Ne.symm hxy) hyE hxE
            hyz hxz hnc hfinSome trivial hwf (fun c => by simp only [Value.den, Balance.den]; grind) hres
          refine ⟨L', B', h1, h2, h3, h4, h5, ?_⟩
          rw [h6, Rat.mul_comm]
      obtain ⟨L', B', hE, hcore, hco', _, _, hz⟩ := key
      -- the cost loop annotates the priced postings with their lot; rows are unchanged
      have hL'lot : ∀ q ∈ L', q.lotPrice = none := by
        intro q hq
        obtain ⟨p, hp, e⟩ := mem_of_core hcore q hq
        have : q.lotPrice = p.lotPrice := congrArg (·.2.2.2) e
        obtain ⟨p', _, rfl⟩ := List.mem_map.1 hp
        rw [this, fp_lotPrice]
      have hL'pl : ∀ q ∈ L', ∀ a, q.amount = some a → plain a.comm = true := by
        intro q hq a ha
        obtain ⟨p, hp, e⟩ := mem_of_core hcore q hq
        have : q.amount = p.amount := congrArg (·.2.2.1) e
        rw [this] at ha
        exact hplF p hp a ha
      have hL'some : ∀ q ∈ L', q.amount.isSome = true := by
        intro q hq
        obtain ⟨p, hp, e⟩ := mem_of_core hcore q hq
        have : q.amount = p.amount := congrArg (·.2.2.1) e
        rw [this]; exact hfinSome p hp
      have hloop := lotLoop_map env date L' B' hL'lot
      have hrowsG : rowsFin (L'.map (lotG env date)) = rowsFin L' :=
        rowsFin_lotG env date L' hL'lot hL'pl
      have hsomeG : ∀ q ∈ L'.map (lotG env date), q.amount.isSome = true := by
        intro q hq
        obtain ⟨p, hp, rfl⟩ := List.mem_map.1 hq
        have h1 := lotG_isNone env date p (hL'lot p hp)
        have h2 := hL'some p hp
        cases h3 : (lotG env date p).amount <;> cases h4 : p.amount <;> simp_all
      have hnilG : L'.map (lotG env date) = [] ↔ ps = [] := by
        have hlen : L'.length = ps.length := by
          have := congrArg List.length hcore
          simpa using this
        constructor
        · intro h
          have : L'.length = 0 := by
            have := congrArg List.length h
            simpa using this
          exact List.length_eq_zero_iff.1 (by omega)
        · intro h
          subst h
          have : L' = [] := List.length_eq_zero_iff.1 (by simpa using hlen)
          rw [this]; rfl
      unfold FinX.finalizeF
      rw [hscan]
      simp only [Option.map_none, FinX.applyBucket]
      rw [hX, hE]
      simp only [hco', hloop, FinX.fillNull]
      unfold ref
      rw [hnull, hB]
      simp only [Bool.true_eq_false, if_false]
      have hacc : OF.acceptNoNull env ps (.bal [x, y]) = decide (x.q * y.q < 0) := by
        unfold OF.acceptNoNull
        simp only [hnocost, Bool.false_eq_true, if_false, hxz, hyz, Bool.not_false, Bool.and_self, if_true]
      rw [hacc]
      exact fin_tail_noNull env ps hnull hvn (L'.map (lotG env date)) B'
        (by
          have h1 := rowsFin_of_core hcore
          unfold rowsFin at hrowsG h1
          rw [hrowsG, h1]
          exact rows_allSome_fp env [] ps hS hla') hsomeG hnilG _ hz

end Coh
end Ledger
