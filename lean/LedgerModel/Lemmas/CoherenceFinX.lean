/-
MODEL COHERENCE — `FinX.finalize` (Model/Finalize.lean) in closed form on the
common domain: the residual scan IS `OF.xbalance`, the elided posting is
filled with `OF.inferred`, two elided postings are the two-nulls error.
The implicit two-commodity exchange is in Lemmas/CoherenceExch.lean.
-/
import LedgerModel.Lemmas.CoherenceCore

namespace Ledger
namespace Coh

open OF (bamt vadd xbalance nullPosts isNullPost inferred)

/-- the posting as `FinX.finalize` receives it -/
abbrev fp (env : PrecEnv) (p : Posting) : FinX.FPost := FinX.FPost.ofPosting env ⟨p, none⟩

theorem fp_mustBalance (env : PrecEnv) (p : Posting) : (fp env p).mustBalance = p.mustBalance := rfl

theorem fp_amount (env : PrecEnv) (p : Posting) : (fp env p).amount = p.amount :=
  FinX.ofPosting_amount_plain env ⟨p, none⟩ rfl

theorem fp_account (env : PrecEnv) (p : Posting) : (fp env p).account = p.account := rfl

theorem fp_kind (env : PrecEnv) (p : Posting) : (fp env p).kind = p.kind := rfl

theorem fp_cost (env : PrecEnv) (p : Posting) :
    (fp env p).cost = match p.amount, p.cost with
      | some a, some c => some (FinX.parseCost env a c)
      | _, _ => none := rfl

/-- `FPost.ofPosting` of a posting without lot, spelled out -/
theorem fp_eq (env : PrecEnv) (p : Posting) :
    fp env p = { account := p.account, kind := p.kind, state := p.state, amount := p.amount,
                 cost := (match p.amount, p.cost with
                   | some a, some c => some (FinX.parseCost env a c)
                   | _, _ => none),
                 calculated := false, costCalculated := false, generated := false, inferred := false,
                 lotPrice := none } := by
  obtain ⟨acct, kind, st, amt, cost, asr, note, line⟩ := p
  cases amt <;> cases cost <;> rfl

theorem fp_lotPrice (env : PrecEnv) (p : Posting) : (fp env p).lotPrice = none := by
  rw [fp_eq]

/-- the plain transaction as `FinX.finalize` receives it -/
theorem ofXact_posts (env : PrecEnv) (x : Xact) :
    (FinX.LXact.ofXact x).posts.map (FinX.FPost.ofPosting env) = x.posts.map (fp env) := by
  unfold FinX.LXact.ofXact
  simp only [List.map_map]
  rfl

/-- the total cost of C01's reader, flag cleared by `rounded()`, is C08's `totalCost` -/
theorem parseCost_unkeep (env : PrecEnv) (a : Amount) (c : Cost) :
    ({ FinX.parseCost env a c with keep := false } : Amount) = OF.totalCost a c := by
  unfold FinX.parseCost OF.totalCost
  by_cases hp : c.perUnit = true
  · simp only [hp, if_true]
    simp [Amount.mul, Amount.clampPrec]
  · simp only [hp]
    by_cases hq : a.q < 0
    · simp [hq, Amount.neg]
    · simp [hq]

theorem costOrAmt_fp (env : PrecEnv) (p : Posting) (hm : p.mustBalance = true)
    (hk : ∀ a, p.amount = some a → a.keep = false) :
    (FinX.costOrAmt (fp env p)).map (fun a => ({ a with keep := false } : Amount)) = bamt p := by
  unfold bamt
  rw [if_pos hm, fp_eq]
  unfold FinX.costOrAmt
  cases ha : p.amount with
  | none => rfl
  | some a =>
    cases hc : p.cost with
    | none =>
      have := hk a ha
      simp only [Option.map_some]
      congr 1
      cases a; simp_all
    | some c =>
      simp only [Option.map_some]
      rw [parseCost_unkeep]

theorem costOrAmt_fp_none (env : PrecEnv) (p : Posting) :
    FinX.costOrAmt (fp env p) = none ↔ p.amount = none := by
  rw [fp_eq]
  unfold FinX.costOrAmt
  cases p.amount <;> cases p.cost <;> simp

theorem nullPosts_cons (p : Posting) (ps : List Posting) :
    nullPosts (p :: ps) = if isNullPost p then p :: nullPosts ps else nullPosts ps := by
  unfold nullPosts
  rw [List.filter_cons]

theorem noKeepAmt_cons (p : Posting) (ps : List Posting) (h : noKeepAmt (p :: ps) = true) :
    (∀ a, p.amount = some a → a.keep = false) ∧ noKeepAmt ps = true := by
  unfold noKeepAmt at h ⊢
  simp only [List.all_cons, Bool.and_eq_true] at h
  refine ⟨?_, h.2⟩
  intro a ha
  have := h.1
  rw [ha] at this
  simpa using this

/-- xact.cc 167-200 without an elided posting: the scan is the fold of `vadd`
    over `bamt`, i.e. `OF.xbalance`. -/
theorem scan_noNull (env : PrecEnv) : ∀ (ps : List Posting) (i : Nat) (v : Value)
    (np : Option (Nat × String)), VAB v → noKeepAmt ps = true → nullPosts ps = [] →
    FinX.scan (ps.map (fp env)) i v np = .ok ((ps.filterMap bamt).foldl vadd v, np) := by
  intro ps
  induction ps with
  | nil => intro i v np _ _ _; rfl
  | cons p ps ih =>
    intro i v np hv hk hn
    obtain ⟨hkp, hks⟩ := noKeepAmt_cons p ps hk
    rw [nullPosts_cons] at hn
    have hnp : isNullPost p = false := by
      cases h : isNullPost p with
      | false => rfl
      | true => rw [h] at hn; simp at hn
    have hns : nullPosts ps = [] := by rw [hnp] at hn; simpa using hn
    simp only [List.map_cons]
    unfold FinX.scan
    by_cases hm : p.mustBalance = true
    · have hm' : ¬ ((fp env p).mustBalance = false) := by rw [fp_mustBalance, hm]; simp
      rw [if_neg hm']
      have hc := costOrAmt_fp env p hm hkp
      cases hb : bamt p with
      | none =>
        rw [hb] at hc
        have : FinX.costOrAmt (fp env p) = none := by
          cases h : FinX.costOrAmt (fp env p) with
          | none => rfl
          | some _ => rw [h] at hc; cases hc
        have hpa := (costOrAmt_fp_none env p).1 this
        simp [isNullPost, hm, hpa] at hnp
      | some a' =>
        rw [hb] at hc
        cases hco : FinX.costOrAmt (fp env p) with
        | none => rw [hco] at hc; cases hc
        | some a0 =>
          rw [hco] at hc
          simp only [Option.map_some, Option.some.injEq] at hc
          simp only
          rw [hc, add_eq_vadd v a' hv]
          simp only [List.filterMap_cons, hb, List.foldl_cons]
          exact ih _ _ _ (VAB_vadd v a' hv) hks hns
    · have hm' : (fp env p).mustBalance = false := by
        rw [fp_mustBalance]; simpa using hm
      rw [if_pos hm']
      have hb : bamt p = none := by unfold bamt; rw [if_neg hm]
      simp only [List.filterMap_cons, hb]
      exact ih _ _ _ hv hks hns

theorem bamt_null {n : Posting} (h : isNullPost n = true) : bamt n = none := by
  unfold isNullPost at h
  simp only [Bool.and_eq_true, Option.isNone_iff_eq_none] at h
  unfold bamt
  rw [if_pos h.1, h.2]

/-- xact.cc 167-200 with exactly one elided must-balance posting. -/
theorem scan_oneNull (env : PrecEnv) (post : List Posting) (n : Posting) : ∀ (pre : List Posting)
    (i : Nat) (v : Value), VAB v → noKeepAmt (pre ++ n :: post) = true →
    nullPosts pre = [] → nullPosts post = [] → isNullPost n = true →
    FinX.scan ((pre ++ n :: post).map (fp env)) i v none
      = .ok (((pre ++ n :: post).filterMap bamt).foldl vadd v, some (i + pre.length, n.account)) := by
  intro pre
  induction pre with
  | nil =>
    intro i v hv hk _ hpost hn
    simp only [List.nil_append, List.length_nil, Nat.add_zero, List.map_cons]
    obtain ⟨_, hks⟩ := noKeepAmt_cons n post hk
    have hn' := hn
    unfold isNullPost at hn'
    simp only [Bool.and_eq_true, Option.isNone_iff_eq_none] at hn'
    unfold FinX.scan
    have hm' : ¬ ((fp env n).mustBalance = false) := by rw [fp_mustBalance, hn'.1]; simp
    rw [if_neg hm', (costOrAmt_fp_none env n).2 hn'.2]
    simp only [List.filterMap_cons, bamt_null hn]
    exact scan_noNull env post _ _ _ hv hks hpost
  | cons p pre ih =>
    intro i v hv hk hpre hpost hn
    simp only [List.cons_append] at hk ⊢
    obtain ⟨hkp, hks⟩ := noKeepAmt_cons p _ hk
    rw [nullPosts_cons] at hpre
    have hnp : isNullPost p = false := by
      cases h : isNullPost p with
      | false => rfl
      | true => rw [h] at hpre; simp at hpre
    have hns : nullPosts pre = [] := by rw [hnp] at hpre; simpa using hpre
    have e : i + (p :: pre).length = (i + 1) + pre.length := by simp only [List.length_cons]; omega
    rw [e]
    simp only [List.map_cons]
    unfold FinX.scan
    by_cases hm : p.mustBalance = true
    · have hm' : ¬ ((fp env p).mustBalance = false) := by rw [fp_mustBalance, hm]; simp
      rw [if_neg hm']
      have hc := costOrAmt_fp env p hm hkp
      cases hb : bamt p with
      | none =>
        rw [hb] at hc
        have : FinX.costOrAmt (fp env p) = none := by
          cases h : FinX.costOrAmt (fp env p) with
          | none => rfl
          | some _ => rw [h] at hc; cases hc
        have hpa := (costOrAmt_fp_none env p).1 this
        simp [isNullPost, hm, hpa] at hnp
      | some a' =>
        rw [hb] at hc
        cases hco : FinX.costOrAmt (fp env p) with
        | none => rw [hco] at hc; cases hc
        | some a0 =>
          rw [hco] at hc
          simp only [Option.map_some, Option.some.injEq] at hc
          simp only
          rw [hc, add_eq_vadd v a' hv]
          simp only [List.filterMap_cons, hb, List.foldl_cons]
          exact ih _ _ (VAB_vadd v a' hv) hks hns hpost hn
    · have hm' : (fp env p).mustBalance = false := by
        rw [fp_mustBalance]; simpa using hm
      rw [if_pos hm']
      have hb : bamt p = none := by unfold bamt; rw [if_neg hm]
      simp only [List.filterMap_cons, hb]
      exact ih _ _ hv hks hns hpost hn

/-- two elided must-balance postings: one of the two null-amount errors -/
theorem scan_twoNulls (env : PrecEnv) (ps : List Posting) (a b : Posting) (r : List Posting)
    (h : nullPosts ps = a :: b :: r) :
    FinX.scan (ps.map (fp env)) 0 .void none = .error .twoNulls ∨
    FinX.scan (ps.map (fp env)) 0 .void none = .error .misspelled := by
  obtain ⟨pre, rest, e, _, ha, p, hp, hpn⟩ := filter_two_split isNullPost ps a b r h
  subst e
  rw [List.map_append, List.map_cons]
  unfold isNullPost at ha hpn
  simp only [Bool.and_eq_true, Option.isNone_iff_eq_none] at ha hpn
  exact FinX.scan_two_nulls (pre.map (fp env)) (rest.map (fp env)) (fp env a) 0 .void
    (by rw [fp_mustBalance]; exact ha.1) ((costOrAmt_fp_none env a).2 ha.2)
    ⟨fp env p, List.mem_map.2 ⟨p, hp, rfl⟩, by rw [fp_mustBalance]; exact hpn.1,
      (costOrAmt_fp_none env p).2 hpn.2⟩ rfl

/-! ### well-formedness of the residual -/

theorem wfV_vadd (v : Value) (a : Amount) (hv : VAB v) (hw : FinX.wfV v) : FinX.wfV (vadd v a) :=
  FinX.wfV_add_amt v a _ (add_eq_vadd v a hv) hw

theorem wfV_foldl (l : List Amount) : ∀ v, VAB v → FinX.wfV v → FinX.wfV (l.foldl vadd v) := by
  induction l with
  | nil => intro v _ h; exact h
  | cons a l ih => intro v hv hw; exact ih _ (VAB_vadd v a hv) (wfV_vadd v a hv hw)

theorem wfV_xbalance (ps : List Posting) : FinX.wfV (xbalance ps) := wfV_foldl _ _ trivial trivial

/-! ### every entry of the residual is an unannotated commodity -/

/-- every entry of the residual fold satisfies a property of the commodity that
    all folded amounts satisfy -/
def entriesP (P : Comm → Prop) : Value → Prop
  | .amt a => P a.comm
  | .bal b => ∀ x ∈ b, P x.comm
  | _ => True

theorem entriesP_addGo (P : Comm → Prop) (b : Balance) (a : Amount) (hb : ∀ x ∈ b, P x.comm) (ha : P a.comm) :
    ∀ x ∈ Balance.addGo b a, P x.comm := by
  induction b with
  | nil => intro x hx; simp only [Balance.addGo, List.mem_cons, List.not_mem_nil, or_false] at hx; rw [hx]; exact ha
  | cons y ys ih =>
    intro x hx
    unfold Balance.addGo at hx
    split at hx
    · rcases List.mem_cons.1 hx with rfl | hx'
      · exact hb y List.mem_cons_self
      · exact hb x (List.mem_cons_of_mem _ hx')
    · rcases List.mem_cons.1 hx with rfl | hx'
      · exact hb _ List.mem_cons_self
      · exact ih (fun z hz => hb z (List.mem_cons_of_mem _ hz)) x hx'

theorem entriesP_addAmt (P : Comm → Prop) (b : Balance) (a : Amount) (hb : ∀ x ∈ b, P x.comm) (ha : P a.comm) :
    ∀ x ∈ Balance.addAmt b a, P x.comm := by
  unfold Balance.addAmt
  split
  · exact hb
  · exact entriesP_addGo P b a hb ha

theorem entriesP_vadd (P : Comm → Prop) (v : Value) (a : Amount) (hvab : VAB v) (hv : entriesP P v)
    (ha : P a.comm) : entriesP P (vadd v a) := by
  cases v with
  | void => exact ha
  | amt x =>
    simp only [vadd]
    split
    · exact hv
    · apply entriesP_addAmt P _ a _ ha
      intro y hy
      unfold Balance.ofAmt at hy
      split at hy
      · cases hy
      · simp only [List.mem_cons, List.not_mem_nil, or_false] at hy; rw [hy]; exact hv
  | bal b => exact entriesP_addAmt P b a hv ha
  | int n => cases hvab
  | bool _ => cases hvab

theorem entriesP_foldl (P : Comm → Prop) (l : List Amount) (hl : ∀ a ∈ l, P a.comm) :
    ∀ v, VAB v → entriesP P v → entriesP P (l.foldl vadd v) := by
  induction l with
  | nil => intro v _ h; exact h
  | cons a l ih =>
    intro v hvab hv
    exact ih (fun x hx => hl x (List.mem_cons_of_mem _ hx)) _ (VAB_vadd v a hvab)
      (entriesP_vadd P v a hvab hv (hl a List.mem_cons_self))

theorem totalCost_comm (a : Amount) (c : Cost) : (OF.totalCost a c).comm = c.amt.comm := by
  unfold OF.totalCost; split <;> rfl

theorem xbalance_plain (ps : List Posting) (hl : noLotAmt ps = true) (hc : noLotCost ps = true) :
    entriesP (fun c => plain c = true) (xbalance ps) := by
  unfold xbalance
  refine entriesP_foldl _ _ ?_ .void trivial trivial
  intro a ha
  obtain ⟨p, hp, hpa⟩ := List.mem_filterMap.1 ha
  unfold noLotAmt at hl
  unfold noLotCost at hc
  have h1 := List.all_eq_true.1 hl p hp
  have h2 := List.all_eq_true.1 hc p hp
  unfold bamt at hpa
  split at hpa
  · cases hamt : p.amount with
    | none => rw [hamt] at hpa; cases hpa
    | some x =>
      rw [hamt] at hpa h1
      cases hcost : p.cost with
      | none =>
        rw [hcost] at hpa
        simp only [Option.some.injEq] at hpa
        rw [← hpa]; exact h1
      | some k =>
        rw [hcost] at hpa h2
        simp only [Option.some.injEq] at hpa
        rw [← hpa, totalCost_comm]; exact h2
  · cases hpa

theorem inferred_plain (v : Value) (hv : entriesP (fun c => plain c = true) v) :
    ∀ a ∈ inferred v, plain a.comm = true := by
  cases v with
  | void => intro a ha; cases ha
  | amt x => intro a ha; simp only [inferred, List.mem_cons, List.not_mem_nil, or_false] at ha; rw [ha]; exact hv
  | bal b =>
    intro a ha
    simp only [inferred, List.mem_map] at ha
    obtain ⟨x, hx, rfl⟩ := ha
    exact hv x ((OF.isort_perm _ b).mem_iff.1 hx)
  | int n => intro a ha; simp only [inferred, List.mem_cons, List.not_mem_nil, or_false] at ha; rw [ha]; rfl
  | bool _ => intro a ha; cases ha

/-! ### filling the elided posting -/

theorem sortedAmounts_fin_eq_of (enum : Balance → Balance) (henum : ∀ b, (enum b).Perm b)
    (b : Balance) (hw : FinX.wfB b) (hp : ∀ x ∈ b, plain x.comm = true) :
    FinX.sortedAmounts enum b = OF.sortedAmounts b := by
  rw [sortedAmounts_of_eq_fin b hp]
  unfold FinX.sortedAmounts
  have key : FinX.sortByComm (enum b) = FinX.sortByComm b :=
    FinX.sortByComm_eq_of_perm (henum b) (FinX.wfB_perm (henum b).symm hw)
  cases b with
  | nil => exact key
  | cons a as =>
    cases as with
    | nil => rfl
    | cons _ _ => exact key

/-- xact.cc 363-370: the amounts the elided posting offsets are the negations of
    `OF.inferred`. -/
theorem fillAmounts_vab (enum : Balance → Balance) (henum : ∀ b, (enum b).Perm b) (B : Value)
    (hB : VAB B) (hw : FinX.wfV B) (hp : entriesP (fun c => plain c = true) B) :
    ∃ amts, FinX.fillAmounts enum B = .ok amts ∧ amts.map Amount.neg = inferred B := by
  cases B with
  | void => exact ⟨[], rfl, rfl⟩
  | amt a => exact ⟨[a], rfl, rfl⟩
  | bal b =>
    refine ⟨FinX.sortedAmounts enum b, rfl, ?_⟩
    rw [sortedAmounts_fin_eq_of enum henum b hw hp]
    rfl
  | int _ => cases hB
  | bool _ => cases hB

theorem allSome_of (ps : List Posting) (hv : noVirtNull ps = true) (hn : nullPosts ps = []) :
    ∀ p ∈ ps, p.amount.isSome = true := by
  intro p hp
  have h1 := filter_eq_nil_of isNullPost ps hn p hp
  unfold noVirtNull at hv
  have h2 := List.all_eq_true.1 hv p hp
  unfold isNullPost at h1
  cases hm : p.mustBalance <;> cases ha : p.amount <;> simp_all

/-! ### the cost loop xact.cc 288-352 on postings without lot price -/

/-- what `lotStep` leaves of a posting (the posting itself should it raise) -/
def lotG (env : PrecEnv) (date : String) (p : FinX.FPost) : FinX.FPost :=
  match FinX.lotStep env date p with
  | .ok (p', _) => p'
  | .error _ => p

theorem lotStep_eq (env : PrecEnv) (date : String) (p : FinX.FPost) (h : p.lotPrice = none) :
    FinX.lotStep env date p = .ok (lotG env date p, none) := by
  obtain ⟨p1, hs⟩ := FinX.lotStep_nogain env date p (Or.inl h)
  unfold lotG
  rw [hs]

theorem lotG_nocost (env : PrecEnv) (date : String) (p : FinX.FPost) (h : p.cost = none) :
    lotG env date p = p := by
  unfold lotG
  rw [FinX.lotStep_nocost env date p h]

theorem lotG_isNone (env : PrecEnv) (date : String) (p : FinX.FPost) (h : p.lotPrice = none) :
    (lotG env date p).amount.isNone = p.amount.isNone := by
  obtain ⟨_, _, _, h4, _⟩ := FinX.lotStep_spec env date p _ none (lotStep_eq env date p h)
  cases h1 : (lotG env date p).amount <;> cases h2 : p.amount <;> simp_all

/-- the loop leaves the balance alone and maps `lotG` over the postings -/
theorem lotLoop_map (env : PrecEnv) (date : String) : ∀ (L : List FinX.FPost) (B : Value),
    (∀ p ∈ L, p.lotPrice = none) → FinX.lotLoop env date L B = .ok (L.map (lotG env date), B) := by
  intro L
  induction L with
  | nil => intro B _; rfl
  | cons p ps ih =>
    intro B h
    unfold FinX.lotLoop
    rw [lotStep_eq env date p (h p List.mem_cons_self)]
    simp only [FinX.addGain]
    rw [ih B (fun q hq => h q (List.mem_cons_of_mem _ hq))]
    rfl

/-- the computed lot annotation does not change the row: same quantity, same
    precision counter, and the BASE commodity of `BASE{price}[date]` -/
theorem rowOfFin_lotG (env : PrecEnv) (date : String) (p : FinX.FPost) (h : p.lotPrice = none)
    (hp : ∀ a, p.amount = some a → plain a.comm = true) : rowOfFin (lotG env date p) = rowOfFin p := by
  obtain ⟨acct, kind, st, amount, cost, cl, cc, gen, inf, lp⟩ := p
  simp only at h hp
  subst h
  unfold lotG FinX.lotStep
  cases cost with
  | none => rfl
  | some cost =>
    cases amount with
    | none => rfl
    | some amt =>
      simp only
      obtain ⟨pu, hpu⟩ := FinX.perUnitCost_ok env amt cost
      rw [hpu]
      simp only [rowOfFin, Option.map_some]
      rw [lotBase_annotate amt.comm pu date (hp amt rfl), lotBase_plain amt.comm (hp amt rfl)]

/-- a parsed posting after the cost loop -/
abbrev fpg (env : PrecEnv) (date : String) (p : Posting) : FinX.FPost := lotG env date (fp env p)

theorem lotLoop_fp (env : PrecEnv) (date : String) (ps : List Posting) (B : Value) :
    FinX.lotLoop env date (ps.map (fp env)) B = .ok (ps.map (fpg env date), B) := by
  rw [lotLoop_map env date _ B (by
    intro q hq
    obtain ⟨p, _, rfl⟩ := List.mem_map.1 hq
    exact fp_lotPrice env p), List.map_map]
  rfl

theorem fpg_isNone (env : PrecEnv) (date : String) (p : Posting) :
    (fpg env date p).amount.isNone = p.amount.isNone := by
  rw [lotG_isNone env date _ (fp_lotPrice env p), fp_amount]

theorem fpg_null (env : PrecEnv) (date : String) (p : Posting) (h : p.amount = none) :
    fpg env date p = fp env p := by
  apply lotG_nocost
  rw [fp_cost, h]

theorem rowOfFin_fp (env : PrecEnv) (p : Posting) (hp : ∀ a, p.amount = some a → plain a.comm = true) :
    rowOfFin (fp env p) = p.amount.map (fun a => (⟨p.account, p.kind, a⟩ : Row)) := by
  rw [fp_eq]
  unfold rowOfFin
  cases ha : p.amount with
  | none => rfl
  | some a =>
    simp only [Option.map_some]
    rw [lotBase_plain a.comm (hp a ha)]

theorem rowOfFin_fpg (env : PrecEnv) (date : String) (p : Posting)
    (hp : ∀ a, p.amount = some a → plain a.comm = true) :
    rowOfFin (fpg env date p) = p.amount.map (fun a => (⟨p.account, p.kind, a⟩ : Row)) := by
  rw [rowOfFin_lotG env date _ (fp_lotPrice env p) (by rw [fp_amount]; exact hp), rowOfFin_fp env p hp]

theorem noLotAmt_mem (ps : List Posting) (h : noLotAmt ps = true) :
    ∀ p ∈ ps, ∀ a, p.amount = some a → plain a.comm = true := by
  intro p hp a ha
  unfold noLotAmt at h
  have := List.all_eq_true.1 h p hp
  rw [ha] at this
  exact this

theorem rows_allSome (env : PrecEnv) (date : String) (inf : List Amount) : ∀ (ps : List Posting),
    (∀ p ∈ ps, p.amount.isSome = true) → (∀ p ∈ ps, ∀ a, p.amount = some a → plain a.comm = true) →
    (ps.map (fpg env date)).filterMap rowOfFin = rowsOf inf ps := by
  intro ps
  induction ps with
  | nil => intro _ _; rfl
  | cons p ps ih =>
    intro h hl
    have hp := h p List.mem_cons_self
    cases ha : p.amount with
    | none => rw [ha] at hp; cases hp
    | some a =>
      simp only [List.map_cons, List.filterMap_cons, rowsOf, ha]
      rw [rowOfFin_fpg env date p (hl p List.mem_cons_self), ha]
      simp only [Option.map_some]
      rw [ih (fun q hq => h q (List.mem_cons_of_mem _ hq)) (fun q hq => hl q (List.mem_cons_of_mem _ hq))]

theorem noVirtNull_append {a b : List Posting} (h : noVirtNull (a ++ b) = true) :
    noVirtNull a = true ∧ noVirtNull b = true := by
  unfold noVirtNull at h ⊢
  rw [List.all_append, Bool.and_eq_true] at h
  exact h

theorem noVirtNull_tail {p : Posting} {ps : List Posting} (h : noVirtNull (p :: ps) = true) :
    noVirtNull ps = true := by
  unfold noVirtNull at h ⊢
  simp only [List.all_cons, Bool.and_eq_true] at h
  exact h.2

theorem fin_all_some (env : PrecEnv) (date : String) (ps : List Posting)
    (h : ∀ p ∈ ps, p.amount.isSome = true) :
    ∀ q ∈ ps.map (fpg env date), q.amount.isSome = true := by
  intro q hq
  obtain ⟨p, hp, rfl⟩ := List.mem_map.1 hq
  have h1 := fpg_isNone env date p
  have h2 := h p hp
  cases h3 : (fpg env date p).amount <;> cases h4 : p.amount <;> simp_all

theorem finish_ok_of (L : List FinX.FPost) (hne : L ≠ []) (h : ∀ q ∈ L, q.amount.isSome = true) :
    FinX.finish L = .ok ⟨L⟩ := by
  unfold FinX.finish
  have h1 : L.all (fun p => p.amount.isNone) = false := by
    cases L with
    | nil => exact absurd rfl hne
    | cons q qs =>
      have := h q List.mem_cons_self
      simp only [List.all_cons]
      cases hq : q.amount with
      | none => rw [hq] at this; cases this
      | some _ => rfl
  have h2 : L.any (fun p => p.amount.isNone) = false := by
    rw [List.any_eq_false]
    intro q hq
    have := h q hq
    cases hqa : q.amount with
    | none => rw [hqa] at this; cases this
    | some _ => simp
  rw [h1, h2]
  simp

theorem finish_nil : FinX.finish [] = .error .ignored := rfl

/-- the closed form of `rowsOf` around the elided posting -/
theorem rowsOf_split (inf : List Amount) (a : Amount) (rest : List Amount) (hinf : inf = a :: rest)
    (pre post : List Posting) (n : Posting) (hn : isNullPost n = true)
    (hpre : ∀ p ∈ pre, p.amount.isSome = true) :
    rowsOf inf (pre ++ n :: post) = rowsOf inf pre ++ ⟨n.account, n.kind, a⟩ :: rowsOf inf post := by
  induction pre with
  | nil =>
    unfold isNullPost at hn
    simp only [Bool.and_eq_true, Option.isNone_iff_eq_none] at hn
    simp only [List.nil_append, rowsOf, hn.2, hn.1, if_true, hinf]
  | cons p pre ih =>
    have hp := hpre p List.mem_cons_self
    cases ha : p.amount with
    | none => rw [ha] at hp; cases hp
    | some x =>
      simp only [List.cons_append, rowsOf, ha]
      rw [ih (fun q hq => hpre q (List.mem_cons_of_mem _ hq))]

/-- the elided posting after `add_balancing_post` -/
def filled (q : FinX.FPost) (a : Amount) : FinX.FPost := { q with amount := some a.neg, calculated := true }

/-- a generated copy for a further commodity -/
def extraPost (q : FinX.FPost) (r : Amount) : FinX.FPost :=
  { q with amount := some r.neg, calculated := true, generated := true }

theorem fillPosts_cons (ps : List FinX.FPost) (i : Nat) (q : FinX.FPost) (a : Amount) (rest : List Amount) :
    FinX.fillPosts ps i q (a :: rest) = ps.set i (filled q a) ++ rest.map (extraPost q) := rfl

theorem rowOfFin_filled (q : FinX.FPost) (a : Amount) (h : plain a.comm = true) :
    rowOfFin (filled q a) = some ⟨q.account, q.kind, a.neg⟩ := by
  unfold rowOfFin filled
  simp only [Option.map_some]
  have : (a.neg).comm = a.comm := rfl
  rw [this, lotBase_plain a.comm h]
  rfl

theorem extra_rows (q : FinX.FPost) (rest : List Amount) (h : ∀ r ∈ rest, plain r.comm = true) :
    (rest.map (extraPost q)).filterMap rowOfFin
      = (rest.map Amount.neg).map (fun a => (⟨q.account, q.kind, a⟩ : Row)) := by
  induction rest with
  | nil => rfl
  | cons r rs ih =>
    simp only [List.map_cons, List.filterMap_cons]
    have : rowOfFin (extraPost q r) = some ⟨q.account, q.kind, r.neg⟩ := rowOfFin_filled _ r (h r List.mem_cons_self)
    rw [this]
    simp only
    rw [ih (fun x hx => h x (List.mem_cons_of_mem _ hx))]

theorem costsOk_fp (env : PrecEnv) (ps : List Posting) (hco : costOtherComm ps = true) :
    FinX.costsOk (ps.map (fp env)) = true := by
  unfold FinX.costsOk
  rw [List.all_eq_true]
  intro q hq
  obtain ⟨p, hp, rfl⟩ := List.mem_map.1 hq
  unfold costOtherComm at hco
  have := List.all_eq_true.1 hco p hp
  rw [fp_eq]
  cases ha : p.amount with
  | none => simp
  | some a =>
    cases hc : p.cost with
    | none => simp
    | some c =>
      rw [ha, hc] at this
      simp only [bne_iff_ne, ne_eq] at this
      have hpc : (FinX.parseCost env a c).comm = c.amt.comm := by
        have := congrArg Amount.comm (parseCost_unkeep env a c)
        simp only at this
        rw [this, totalCost_comm]
      simp [hpc, this]

/-- One elided must-balance posting: `FinX.finalizeF` in closed form. -/
theorem fin_oneNull (env : PrecEnv) (enum : Balance → Balance) (henum : ∀ b, (enum b).Perm b) (date : String)
    (ps : List Posting) (n : Posting) (hnull : nullPosts ps = [n])
    (hk : noKeepAmt ps = true) (hvn : noVirtNull ps = true) (hco : costOtherComm ps = true)
    (hla : noLotAmt ps = true) (hlc : noLotCost ps = true) :
    verdictFin (FinX.finalizeF env none enum date (ps.map (fp env))) = ref env ps := by
  obtain ⟨pre, post, e, hpre, hpost, hn⟩ := filter_singleton_split isNullPost ps n hnull
  have hscan := scan_oneNull env post n pre 0 .void trivial (e ▸ hk) hpre hpost hn
  rw [← e] at hscan
  have hB : VAB (xbalance ps) := VAB_xbalance ps
  have hw : FinX.wfV (xbalance ps) := wfV_xbalance ps
  have hpl := xbalance_plain ps hla hlc
  obtain ⟨amts, hfa, hinf⟩ := fillAmounts_vab enum henum (xbalance ps) hB hw hpl
  have hnnone : n.amount = none := by
    unfold isNullPost at hn
    simp only [Bool.and_eq_true, Option.isNone_iff_eq_none] at hn
    exact hn.2
  have hmapg : ps.map (fpg env date)
      = pre.map (fpg env date) ++ fp env n :: post.map (fpg env date) := by
    rw [e, List.map_append, List.map_cons, fpg_null env date n hnnone]
  have hidx : (ps.map (fpg env date))[pre.length]? = some (fp env n) := by
    rw [hmapg]
    have := FinX.getElem?_length_append (pre.map (fpg env date)) (post.map (fpg env date)) (fp env n)
    simp at this ⊢
  have hcosts := costsOk_fp env ps hco
  have hscan' : FinX.scan (ps.map (fp env)) 0 .void none
      = .ok (xbalance ps, some (pre.length, n.account)) := by
    rw [hscan]; simp [xbalance]
  unfold FinX.finalizeF
  rw [hscan']
  simp only [Option.map_some, FinX.applyBucket]
  have hex : FinX.exchange2 env enum (ps.map (fp env)) (xbalance ps) (some pre.length)
      = .ok (ps.map (fp env), xbalance ps) := by
    unfold FinX.exchange2; rfl
  rw [hex]
  simp only [hcosts, lotLoop_fp]
  unfold FinX.fillNull
  simp only [hidx, hfa]
  -- the reference side
  unfold ref
  rw [hnull]
  simp only
  have hla' := noLotAmt_mem ps hla
  have hpreS := allSome_of pre (noVirtNull_append (e ▸ hvn)).1 hpre
  have hpostS := allSome_of post (noVirtNull_tail (noVirtNull_append (e ▸ hvn)).2) hpost
  have hpreL : ∀ p ∈ pre, ∀ a, p.amount = some a → plain a.comm = true :=
    fun p hp => hla' p (by rw [e]; simp [hp])
  have hpostL : ∀ p ∈ post, ∀ a, p.amount = some a → plain a.comm = true :=
    fun p hp => hla' p (by rw [e]; simp [hp])
  cases amts with
  | nil =>
    have hi : inferred (xbalance ps) = [] := by rw [← hinf]; rfl
    rw [if_pos hi]
    simp only [FinX.fillPosts, FinX.isNull, FinX.valueIsZero]
    unfold FinX.finish
    have hall : (ps.map (fpg env date)).all (fun p => p.amount.isNone) = ps.all (fun p => p.amount.isNone) := by
      rw [List.all_map]
      apply List.all_congr rfl
      intro p
      exact fpg_isNone env date p
    have hany : (ps.map (fpg env date)).any (fun p => p.amount.isNone) = true := by
      rw [List.any_eq_true]
      refine ⟨fp env n, ?_, ?_⟩
      · rw [hmapg]; simp
      · rw [fp_amount, hnnone]; rfl
    rw [hall, hany]
    cases h : ps.all (fun p => p.amount.isNone) <;> simp [verdictFin]
  | cons a rest =>
    have hi : inferred (xbalance ps) = a.neg :: rest.map Amount.neg := by rw [← hinf]; rfl
    have hne : inferred (xbalance ps) ≠ [] := by rw [hi]; simp
    have hinfp := inferred_plain (xbalance ps) hpl
    have hap : plain a.comm = true := by
      have := hinfp a.neg (by rw [hi]; exact List.mem_cons_self)
      exact this
    have hrestp : ∀ r ∈ rest, plain r.comm = true := by
      intro r hr
      have := hinfp r.neg (by rw [hi]; exact List.mem_cons_of_mem _ (List.mem_map.2 ⟨r, hr, rfl⟩))
      exact this
    rw [if_neg hne]
    simp only [fillPosts_cons, FinX.isNull]
    have hset : (ps.map (fpg env date)).set pre.length (filled (fp env n) a)
        = pre.map (fpg env date) ++ (filled (fp env n) a) :: post.map (fpg env date) := by
      rw [hmapg]
      have := FinX.set_length_append (pre.map (fpg env date)) (post.map (fpg env date)) (fp env n)
        (filled (fp env n) a)
      simp at this ⊢
    rw [hset]
    have hL : ∀ q ∈ pre.map (fpg env date) ++ (filled (fp env n) a) ::
          post.map (fpg env date) ++ rest.map (extraPost (fp env n)), q.amount.isSome = true := by
      intro q hq
      simp only [List.mem_append, List.mem_cons] at hq
      rcases hq with ((hq | rfl | hq) | hq)
      · exact fin_all_some env date pre hpreS q hq
      · rfl
      · exact fin_all_some env date post hpostS q hq
      · obtain ⟨r, _, rfl⟩ := List.mem_map.1 hq; rfl
    rw [finish_ok_of _ (by simp) hL]
    simp only [Bool.true_eq_false, if_false, false_and, verdictFin, List.filterMap_append,
      List.filterMap_cons]
    rw [rows_allSome env date (inferred (xbalance ps)) pre hpreS hpreL,
        rows_allSome env date (inferred (xbalance ps)) post hpostS hpostL]
    congr 1
    rw [e, rowsOf_split _ a.neg (rest.map Amount.neg) (e ▸ hi) pre post n hn hpreS]
    rw [rowOfFin_filled (fp env n) a hap]
    simp only [List.append_assoc, List.cons_append]
    congr 2
    rw [e] at hi
    simp only [extraRows, hi, List.drop_one, List.tail_cons]
    rw [extra_rows (fp env n) rest hrestp]
    rfl

end Coh
end Ledger
