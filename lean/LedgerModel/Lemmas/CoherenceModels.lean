/-
MODEL COHERENCE — the finalize fragments of C08 (`OF.finalize`), C16
(`AutoXact.finalize`) and C09 (`Assert.finalize`) in the closed form `Coh.ref`,
and `FinX.finalize` assembled from Lemmas/CoherenceFinX.lean / CoherenceExch.lean.
-/
import LedgerModel.Lemmas.CoherenceExch

namespace Ledger
namespace Coh

open OF (bamt vadd xbalance nullPosts isNullPost inferred)

/-! ### C01/C02: `FinX.finalize` -/

/-- `FinX.finalizeF` (no bucket) on the common domain is the closed form. -/
theorem fin_eq_ref (env : PrecEnv) (enum : Balance → Balance) (henum : ∀ b, (enum b).Perm b) (date : String)
    (ps : List Posting) (hk : noKeepAmt ps = true) (hvn : noVirtNull ps = true)
    (hco : costOtherComm ps = true) (hca : costHasAmount ps = true)
    (hla : noLotAmt ps = true) (hlc : noLotCost ps = true)
    (hg : exchangeGuard env ps = true) :
    verdictFin (FinX.finalizeF env none enum date (ps.map (fp env))) = ref env ps := by
  match hn : nullPosts ps with
  | [] =>
    cases hi : impliedCase env ps with
    | false => exact fin_noNull_plain env enum henum date ps hn hk hvn hco hca hla hi
    | true =>
      unfold exchangeGuard at hg
      rw [hi] at hg
      exact fin_noNull_implied env enum henum date ps hn hk hvn hla hi (by simpa using hg)
  | [n] => exact fin_oneNull env enum henum date ps n hn hk hvn hco hla hlc
  | a :: b :: r => exact fin_twoNulls env enum date ps a b r hn

/-- … and so is `FinX.finalize` of the plain transaction (display precisions keyed
    by base symbol: `liftEnv`). -/
theorem finalize_eq_ref (env : PrecEnv) (enum : Balance → Balance) (henum : ∀ b, (enum b).Perm b)
    (x : Xact) (hk : noKeepAmt x.posts = true) (hvn : noVirtNull x.posts = true)
    (hco : costOtherComm x.posts = true) (hca : costHasAmount x.posts = true)
    (hla : noLotAmt x.posts = true) (hlc : noLotCost x.posts = true)
    (hg : exchangeGuard (FinX.liftEnv env) x.posts = true) :
    verdictFin (FinX.finalize env none enum (FinX.LXact.ofXact x)) = ref (FinX.liftEnv env) x.posts := by
  unfold FinX.finalize
  rw [ofXact_posts]
  exact fin_eq_ref (FinX.liftEnv env) enum henum _ x.posts hk hvn hco hca hla hlc hg

/-! ### the display precision of unannotated commodities is not touched by `liftEnv` -/

theorem isZero_congr (E E' : PrecEnv) (a : Amount) (h : E a.comm = E' a.comm) : a.isZero E = a.isZero E' := by
  unfold Amount.isZero
  rw [h]

theorem isZero_lift (env : PrecEnv) (a : Amount) (h : plain a.comm = true) :
    a.isZero (FinX.liftEnv env) = a.isZero env :=
  isZero_congr _ _ a (liftEnv_plain env a.comm h)

theorem all_isZero_lift (env : PrecEnv) (b : Balance) (h : ∀ x ∈ b, plain x.comm = true) :
    b.all (Amount.isZero (FinX.liftEnv env)) = b.all (Amount.isZero env) := by
  induction b with
  | nil => rfl
  | cons x xs ih =>
    simp only [List.all_cons]
    rw [isZero_lift env x (h x List.mem_cons_self), ih (fun y hy => h y (List.mem_cons_of_mem _ hy))]

theorem valueIsZero_lift (env : PrecEnv) (v : Value) (h : entriesP (fun c => plain c = true) v) :
    OF.valueIsZero (FinX.liftEnv env) v = OF.valueIsZero env v := by
  cases v with
  | amt a => exact isZero_lift env a h
  | bal b => exact all_isZero_lift env b h
  | void => rfl
  | int _ => rfl
  | bool _ => rfl

theorem acceptNoNull_lift (env : PrecEnv) (ps : List Posting) (v : Value)
    (h : entriesP (fun c => plain c = true) v) :
    OF.acceptNoNull (FinX.liftEnv env) ps v = OF.acceptNoNull env ps v := by
  unfold OF.acceptNoNull
  cases v with
  | bal b =>
    match b, h with
    | [], _ => rfl
    | [_], h => simp only; exact valueIsZero_lift env _ h
    | [x, y], h =>
      have hx := isZero_lift env x (h x List.mem_cons_self)
      have hy := isZero_lift env y (h y (List.mem_cons_of_mem _ List.mem_cons_self))
      have hv := valueIsZero_lift env (.bal [x, y]) h
      simp only [hx, hy, hv]
    | _ :: _ :: _ :: _, h => simp only; exact valueIsZero_lift env _ h
  | amt a => exact valueIsZero_lift env _ h
  | void => rfl
  | int _ => rfl
  | bool _ => rfl

theorem ref_lift (env : PrecEnv) (ps : List Posting) (hla : noLotAmt ps = true) (hlc : noLotCost ps = true) :
    ref (FinX.liftEnv env) ps = ref env ps := by
  unfold ref
  rw [acceptNoNull_lift env ps _ (xbalance_plain ps hla hlc)]

theorem impliedCase_lift (env : PrecEnv) (ps : List Posting) (hla : noLotAmt ps = true)
    (hlc : noLotCost ps = true) : impliedCase (FinX.liftEnv env) ps = impliedCase env ps := by
  unfold impliedCase
  have h := xbalance_plain ps hla hlc
  cases hB : xbalance ps with
  | bal b =>
    rw [hB] at h
    match b, h with
    | [], _ => rfl
    | [_], _ => rfl
    | [x, y], h =>
      simp only [isZero_lift env x (h x List.mem_cons_self),
        isZero_lift env y (h y (List.mem_cons_of_mem _ List.mem_cons_self))]
    | _ :: _ :: _ :: _, _ => rfl
  | amt _ => rfl
  | void => rfl
  | int _ => rfl
  | bool _ => rfl

theorem exactAmts_lift (env : PrecEnv) (ps : List Posting) (hla : noLotAmt ps = true) :
    exactAmts (FinX.liftEnv env) ps = exactAmts env ps := by
  have hm := noLotAmt_mem ps hla
  unfold exactAmts
  clear hla
  induction ps with
  | nil => rfl
  | cons p ps ih =>
    simp only [List.all_cons]
    rw [ih (fun q hq => hm q (List.mem_cons_of_mem _ hq))]
    congr 1
    cases ha : p.amount with
    | none => rfl
    | some a =>
      simp only
      unfold exactB
      rw [liftEnv_plain env a.comm (hm p List.mem_cons_self a ha)]

theorem exchangeGuard_lift (env : PrecEnv) (ps : List Posting) (hla : noLotAmt ps = true)
    (hlc : noLotCost ps = true) : exchangeGuard (FinX.liftEnv env) ps = exchangeGuard env ps := by
  unfold exchangeGuard
  rw [impliedCase_lift env ps hla hlc, exactAmts_lift env ps hla]

/-- `FinX.finalize` of a plain transaction is the closed form under the SAME
    precision environment the other models are given. -/
theorem finalize_eq_ref' (env : PrecEnv) (enum : Balance → Balance) (henum : ∀ b, (enum b).Perm b)
    (x : Xact) (hk : noKeepAmt x.posts = true) (hvn : noVirtNull x.posts = true)
    (hco : costOtherComm x.posts = true) (hca : costHasAmount x.posts = true)
    (hla : noLotAmt x.posts = true) (hlc : noLotCost x.posts = true)
    (hg : exchangeGuard env x.posts = true) :
    verdictFin (FinX.finalize env none enum (FinX.LXact.ofXact x)) = ref env x.posts := by
  rw [finalize_eq_ref env enum henum x hk hvn hco hca hla hlc
    (by rw [exchangeGuard_lift env x.posts hla hlc]; exact hg), ref_lift env x.posts hla hlc]

/-! ### C08: `OF.finalize` -/

theorem postEntries_rows (date : Int) (inf : List Amount) : ∀ ps : List Posting,
    OF.postEntries date inf ps = (rowsOf inf ps).map (Row.toOF date) := by
  intro ps
  induction ps with
  | nil => rfl
  | cons p ps ih =>
    unfold OF.postEntries rowsOf
    cases p.amount with
    | some a => simp only [List.map_cons, ih]; rfl
    | none =>
      simp only
      by_cases hm : p.mustBalance = true
      · simp only [hm, if_true]
        cases inf with
        | nil => exact ih
        | cons a _ => simp only [List.map_cons, ih]; rfl
      · simp only [hm]
        exact ih

theorem extraEntries_rows (date : Int) (n : Posting) (inf : List Amount) :
    OF.extraEntries date n inf = (extraRows n inf).map (Row.toOF date) := by
  unfold OF.extraEntries extraRows
  rw [List.map_map]
  rfl

theorem rowsOf_allNone (ps : List Posting) (h : ps.all (fun p => p.amount.isNone) = true) :
    rowsOf [] ps = [] := by
  induction ps with
  | nil => rfl
  | cons p ps ih =>
    simp only [List.all_cons, Bool.and_eq_true, Option.isNone_iff_eq_none] at h
    unfold rowsOf
    rw [h.1]
    simp only
    split
    · exact ih h.2
    · exact ih h.2

/-- `OF.finalize` is the closed form with kinds forgotten and the date stamped. -/
theorem of_eq_ref (env : PrecEnv) (date : Int) (ps : List Posting) (hvn : noVirtNull ps = true) :
    verdictOF (OF.finalize env date ps) = (ref env ps).map (Row.toOF date) := by
  unfold OF.finalize
  have h0 : ps.any (fun p => !p.mustBalance && p.amount.isNone) = false := by
    rw [List.any_eq_false]
    intro p hp
    unfold noVirtNull at hvn
    have := List.all_eq_true.1 hvn p hp
    cases hm : p.mustBalance <;> cases ha : p.amount <;> simp_all
  rw [h0]
  simp only [Bool.false_eq_true, if_false]
  unfold ref OF.fin0
  match hn : nullPosts ps with
  | [] =>
    simp only
    cases OF.acceptNoNull env ps (xbalance ps) with
    | false => rfl
    | true =>
      simp only [if_true, verdictOF, Verdict.map]
      rw [postEntries_rows]
  | [n] =>
    simp only
    by_cases hi : inferred (xbalance ps) = []
    · rw [if_pos hi, if_pos hi]
      cases hall : ps.all (fun p => p.amount.isNone) with
      | false => rfl
      | true =>
        simp only [if_true, verdictOF, Verdict.map, List.map_nil]
        rw [hi, postEntries_rows, rowsOf_allNone ps hall]
        rfl
    · rw [if_neg hi, if_neg hi]
      simp only [verdictOF, Verdict.map, List.map_append]
      rw [postEntries_rows, extraEntries_rows]
  | _ :: _ :: _ => rfl

/-- `OF.stepX` on a plain transaction is `readPosts` followed by `OF.finalize`
    (so the comparison of `finalize` carries over to the journal step). -/
theorem stepX_eq (st : OF.State) (x : OF.WXact) (ps : List Posting) (pool : OF.Pool)
    (hr : OF.readPosts st.pool x.posts = .ok (ps, pool)) (hplain : ∀ q ∈ ps, q.assert = none) :
    OF.stepX st x = (OF.finalize pool.precEnv x.date ps).map
      (fun es => { st with pool := pool, entries := st.entries ++ es }) := by
  unfold OF.stepX
  rw [hr]
  simp only
  rw [OF.assignPosts_id ps st.entries hplain, OF.checkAsserts_true ps st.entries x.date hplain]
  simp only [if_true]
  cases OF.finalize pool.precEnv x.date ps <;> rfl

/-! ### C16: `AutoXact.finalize` -/

theorem bamt_noCost (p : Posting) (hc : p.cost = none) :
    bamt p = if p.mustBalance then p.amount else none := by
  unfold bamt
  split
  · cases p.amount with
    | none => rfl
    | some a => simp only [hc]
  · rfl

theorem toPPost_noCost (env : PrecEnv) (p : Posting) (hc : p.cost = none) :
    AutoXact.toPPost env p = { src := p, amount := p.amount, cost := none } := by
  unfold AutoXact.toPPost
  rw [hc]
  cases p.amount <;> rfl

theorem unkeep_id (a : Amount) (h : a.keep = false) : ({ a with keep := false } : Amount) = a := by
  cases a; simp_all

theorem balanceOf_eq (env : PrecEnv) : ∀ (ps : List Posting) (v : Value), VAB v → noCost ps = true →
    noKeepAmt ps = true →
    AutoXact.balanceOf v (ps.map (AutoXact.toPPost env)) = .ok ((ps.filterMap bamt).foldl vadd v) := by
  intro ps
  induction ps with
  | nil => intro v _ _ _; rfl
  | cons p ps ih =>
    intro v hv hc hk
    obtain ⟨hkp, hks⟩ := noKeepAmt_cons p ps hk
    unfold noCost at hc
    simp only [List.all_cons, Bool.and_eq_true, Option.isNone_iff_eq_none] at hc
    have hcs : noCost ps = true := by unfold noCost; simpa using hc.2
    simp only [List.map_cons, toPPost_noCost env p hc.1]
    unfold AutoXact.balanceOf
    have hb := bamt_noCost p hc.1
    cases hm : p.mustBalance with
    | false =>
      rw [hm] at hb
      simp only [List.filterMap_cons, hb]
      exact ih v hv hcs hks
    | true =>
      rw [hm] at hb
      simp only [if_true] at hb
      cases ha : p.amount with
      | none =>
        rw [ha] at hb
        simp only [List.filterMap_cons, hb]
        exact ih v hv hcs hks
      | some a =>
        rw [ha] at hb
        simp only [List.filterMap_cons, hb, List.foldl_cons]
        rw [unkeep_id a (hkp a ha), add_eq_vadd v a hv]
        exact ih _ (VAB_vadd v a hv) hcs hks

theorem nulls_eq (ps : List Posting) (hvn : noVirtNull ps = true) :
    ps.filter (fun p => p.amount.isNone) = nullPosts ps := by
  unfold nullPosts
  apply List.filter_congr
  intro p hp
  unfold noVirtNull at hvn
  have := List.all_eq_true.1 hvn p hp
  unfold isNullPost
  cases hm : p.mustBalance <;> cases ha : p.amount <;> simp_all

/-- the elided postings as C16 finds them -/
theorem nulls_auto (env : PrecEnv) (ps : List Posting) (hvn : noVirtNull ps = true) :
    (ps.map (AutoXact.toPPost env)).filter (fun p => p.amount.isNone)
      = (nullPosts ps).map (AutoXact.toPPost env) := by
  rw [List.filter_map, ← nulls_eq ps hvn]
  rfl

theorem mapExcept_annotate (env : PrecEnv) (date : Int) : ∀ ps : List Posting, noCost ps = true →
    AutoXact.mapExcept (AutoXact.annotateCost env date) (ps.map (AutoXact.toPPost env))
      = .ok (ps.map (AutoXact.toPPost env)) := by
  intro ps
  induction ps with
  | nil => intro _; rfl
  | cons p ps ih =>
    intro hc
    unfold noCost at hc
    simp only [List.all_cons, Bool.and_eq_true, Option.isNone_iff_eq_none] at hc
    have hcs : noCost ps = true := by unfold noCost; simpa using hc.2
    simp only [List.map_cons, toPPost_noCost env p hc.1]
    unfold AutoXact.mapExcept
    have : AutoXact.annotateCost env date { src := p, amount := p.amount, cost := none }
        = .ok { src := p, amount := p.amount, cost := none } := by
      unfold AutoXact.annotateCost
      cases p.amount <;> rfl
    rw [this]
    simp only
    rw [ih hcs]

theorem rowOfAuto_mk (xs : ItemState) (p : Posting) (a : Amount) (c : Option Amount) (f g : Bool) :
    rowOfAuto (AutoXact.mkFPost xs p a c f g) = ⟨p.account, p.kind, a⟩ := rfl

theorem rows_auto_nil (env : PrecEnv) (xs : ItemState) : ∀ ps : List Posting,
    (((ps.map (AutoXact.toPPost env)).filterMap
        (fun p => p.amount.map (fun a => AutoXact.mkFPost xs p.src a p.cost false false))).map rowOfAuto)
      = rowsOf [] ps := by
  intro ps
  induction ps with
  | nil => rfl
  | cons p ps ih =>
    have hsrc : (AutoXact.toPPost env p).src = p := rfl
    have hamt : (AutoXact.toPPost env p).amount = p.amount := rfl
    cases ha : p.amount with
    | none =>
      simp only [List.map_cons, List.filterMap_cons, hamt, ha, Option.map_none, rowsOf]
      split <;> exact ih
    | some a =>
      simp only [List.map_cons, List.filterMap_cons, hamt, ha, Option.map_some, rowsOf, hsrc,
        rowOfAuto_mk, ih]

theorem rows_auto_fill (env : PrecEnv) (xs : ItemState) (a : Amount) (more : List Amount) :
    ∀ ps : List Posting, noVirtNull ps = true →
    ((ps.map (AutoXact.toPPost env)).map (fun p => match p.amount with
                      | some b => AutoXact.mkFPost xs p.src b p.cost false false
                      | none => AutoXact.mkFPost xs p.src a none true false)).map rowOfAuto
      = rowsOf (a :: more) ps := by
  intro ps
  induction ps with
  | nil => intro _; rfl
  | cons p ps ih =>
    intro hvn
    have hvn' := noVirtNull_tail hvn
    unfold noVirtNull at hvn
    simp only [List.all_cons, Bool.and_eq_true] at hvn
    have hsrc : (AutoXact.toPPost env p).src = p := rfl
    have hamt : (AutoXact.toPPost env p).amount = p.amount := rfl
    simp only [List.map_cons]
    rw [ih hvn']
    cases ha : p.amount with
    | none =>
      have hm : p.mustBalance = true := by
        have := hvn.1; rw [ha] at this; simpa using this
      simp only [hamt, ha, rowsOf, hm, if_true, hsrc, rowOfAuto_mk]
    | some b =>
      simp only [hamt, ha, rowsOf, hsrc, rowOfAuto_mk]

theorem noLotCost_of_noCost (ps : List Posting) (hc : noCost ps = true) : noLotCost ps = true := by
  unfold noCost at hc
  unfold noLotCost
  rw [List.all_eq_true] at hc ⊢
  intro p hp
  have := hc p hp
  cases h : p.cost with
  | none => rfl
  | some _ => rw [h] at this; cases this

theorem fillAmounts_auto (v : Value) (hv : VAB v) (hl : entriesP (fun c => plain c = true) v) :
    (match AutoXact.fillAmounts v with
     | some l => l
     | none => []) = inferred v ∧ (AutoXact.fillAmounts v = none → inferred v = []) := by
  cases v with
  | void => exact ⟨rfl, fun _ => rfl⟩
  | amt a => exact ⟨rfl, fun h => nomatch h⟩
  | bal b =>
    refine ⟨?_, fun h => nomatch h⟩
    simp only [AutoXact.fillAmounts, inferred]
    rw [sortByComm_auto_eq_of b hl]
  | int _ => cases hv
  | bool _ => cases hv

theorem impliedPrice_auto (env : PrecEnv) (ps : List Posting) (hn : nullPosts ps = [])
    (hc : noCost ps = true) : AutoXact.impliedPrice env (xbalance ps) = impliedCase env ps := by
  unfold impliedCase
  rw [hn]
  have : ps.any (fun p => p.cost.isSome) = false := by
    rw [List.any_eq_false]
    intro p hp
    unfold noCost at hc
    have := List.all_eq_true.1 hc p hp
    cases h : p.cost <;> simp_all
  rw [this]
  simp only [List.isEmpty_nil, Bool.not_false, Bool.and_self, Bool.true_and]
  unfold AutoXact.impliedPrice
  rfl

theorem noCost_of (ps : List Posting) (h : noCostAssert ps = true) : noCost ps = true := by
  unfold noCostAssert at h
  unfold noCost
  rw [List.all_eq_true] at h ⊢
  intro p hp
  have := h p hp
  simp only [Bool.and_eq_true] at this
  exact this.1

theorem all_cost_none (env : PrecEnv) (ps : List Posting) (hc : noCost ps = true) :
    (ps.map (AutoXact.toPPost env)).all (fun p => p.cost.isNone) = true := by
  rw [List.all_eq_true]
  intro q hq
  obtain ⟨p, hp, rfl⟩ := List.mem_map.1 hq
  unfold noCost at hc
  have := List.all_eq_true.1 hc p hp
  rw [toPPost_noCost env p (by simpa using this)]
  rfl

/-- `AutoXact.finalize` is the closed form wherever it does not answer `unsupported`
    (no cost, no assertion, no lot annotation, no implied exchange). -/
theorem auto_eq_ref (env : PrecEnv) (x : Xact) (hca : noCostAssert x.posts = true)
    (hk : noKeepAmt x.posts = true) (hlot : noLotAmt x.posts = true)
    (hvn : noVirtNull x.posts = true) (hsa : someAmount x.posts = true)
    (himp : impliedCase env x.posts = false) :
    verdictAuto (AutoXact.finalize env x) = ref env x.posts := by
  have hnc := noCost_of x.posts hca
  have hasr : x.posts.any (fun p => p.assert.isSome) = false := by
    rw [List.any_eq_false]
    intro p hp
    unfold noCostAssert at hca
    have := List.all_eq_true.1 hca p hp
    cases h2 : p.assert <;> simp_all
  have hbal : AutoXact.balanceOf .void (x.posts.map (AutoXact.toPPost env)) = .ok (xbalance x.posts) :=
    balanceOf_eq env x.posts .void trivial hnc hk
  have hann := mapExcept_annotate env x.date x.posts hnc
  unfold AutoXact.finalize
  rw [hasr]
  simp only [Bool.false_eq_true, if_false]
  rw [nulls_auto env x.posts hvn]
  unfold ref
  match hn : nullPosts x.posts with
  | [] =>
    simp only [List.map_nil, hbal, hann]
    rw [impliedPrice_auto env x.posts hn hnc, himp]
    simp only [Bool.false_eq_true, false_and, if_false]
    rw [acceptNoNull_plain env x.posts hn himp, valueIsZero_auto_eq_of]
    cases OF.valueIsZero env (xbalance x.posts) with
    | false => rfl
    | true =>
      simp only [if_true, verdictAuto]
      rw [rows_auto_nil]
  | [n] =>
    have hnm : n.mustBalance = true := by
      have : n ∈ nullPosts x.posts := by rw [hn]; exact List.mem_cons_self
      have := (List.mem_filter.1 this).2
      unfold isNullPost at this
      simp only [Bool.and_eq_true] at this
      exact this.1
    have hsrc : (AutoXact.toPPost env n).src = n := rfl
    simp only [List.map_cons, List.map_nil, hsrc, hnm, not_true_eq_false, if_false, hbal, hann]
    obtain ⟨hfa, hfn⟩ := fillAmounts_auto (xbalance x.posts) (VAB_xbalance x.posts)
      (xbalance_plain x.posts hlot (noLotCost_of_noCost x.posts hnc))
    have hnotall : x.posts.all (fun p => p.amount.isNone) = false := by
      unfold someAmount at hsa
      have hne : x.posts ≠ [] := by
        intro e; rw [e] at hn; cases hn
      have : x.posts.any (fun p => p.amount.isSome) = true := by
        cases hx : x.posts with
        | nil => exact absurd hx hne
        | cons _ _ => rw [hx] at hsa; simpa using hsa
      obtain ⟨p, hp, hps⟩ := List.any_eq_true.1 this
      cases hall : x.posts.all (fun p => p.amount.isNone) with
      | false => rfl
      | true =>
        have := List.all_eq_true.1 hall p hp
        cases hpa : p.amount <;> simp_all
    cases hf : AutoXact.fillAmounts (xbalance x.posts) with
    | none =>
      rw [if_pos (hfn hf), hnotall]
      rfl
    | some l =>
      rw [hf] at hfa
      simp only at hfa
      cases l with
      | nil =>
        rw [if_pos hfa.symm, hnotall]
        rfl
      | cons a more =>
        have hne : inferred (xbalance x.posts) ≠ [] := by rw [← hfa]; simp
        rw [if_neg hne]
        simp only [verdictAuto, List.map_append]
        rw [← hfa]
        refine congrArg Verdict.accepted ?_
        refine congr (congrArg HAppend.hAppend ?_) ?_
        · exact rows_auto_fill env x.state a more x.posts hvn
        · simp only [extraRows, List.drop_one, List.tail_cons, List.map_map]
          rfl
  | a :: b :: r =>
    simp only [List.map_cons]
    have : ((AutoXact.toPPost env a) :: (AutoXact.toPPost env b) :: r.map (AutoXact.toPPost env)).all
        (fun p => p.src.mustBalance) = true := by
      have hall : ∀ p ∈ a :: b :: r, p.mustBalance = true := by
        intro p hp
        have : p ∈ nullPosts x.posts := by rw [hn]; exact hp
        have := (List.mem_filter.1 this).2
        unfold isNullPost at this
        simp only [Bool.and_eq_true] at this
        exact this.1
      simp only [List.all_cons, Bool.and_eq_true, List.all_eq_true, List.mem_map]
      refine ⟨hall a (by simp), hall b (by simp), ?_⟩
      rintro q ⟨p, hp, rfl⟩
      exact hall p (by simp [hp])
    rw [if_pos this]
    rfl

/-! ### C09: `Assert.finalize` -/

theorem costTotal_eq (a : Amount) (c : Cost) (hk : c.amt.keep = false) :
    Assert.costTotal a c = OF.totalCost a c := by
  unfold Assert.costTotal OF.totalCost
  cases hc : c.amt with
  | mk q prec keep comm =>
    rw [hc] at hk
    simp only at hk
    subst hk
    split
    · rfl
    · split <;> rfl

theorem balancing_eq (p : Posting) (hm : p.mustBalance = true)
    (hk : ∀ c, p.cost = some c → c.amt.keep = false) : Assert.balancing p = bamt p := by
  unfold Assert.balancing bamt
  rw [if_pos hm]
  cases p.amount with
  | none => cases p.cost <;> rfl
  | some a =>
    cases hc : p.cost with
    | none => rfl
    | some c => simp only [costTotal_eq a c (hk c hc)]

theorem bamt_none_iff (p : Posting) (hm : p.mustBalance = true) : bamt p = none ↔ p.amount = none := by
  unfold bamt
  rw [if_pos hm]
  cases p.amount with
  | none => simp
  | some a => cases p.cost <;> simp

theorem noKeepCost_cons (p : Posting) (ps : List Posting) (h : noKeepCost (p :: ps) = true) :
    (∀ c, p.cost = some c → c.amt.keep = false) ∧ noKeepCost ps = true := by
  unfold noKeepCost at h ⊢
  simp only [List.all_cons, Bool.and_eq_true] at h
  refine ⟨?_, h.2⟩
  intro c hc
  have := h.1
  rw [hc] at this
  simpa using this

theorem residual_some (n : Posting) : ∀ (ps : List Posting) (v : Value), VAB v → noKeepCost ps = true →
    Assert.residual ps v (some n) =
      if nullPosts ps = [] then .ok ((ps.filterMap bamt).foldl vadd v, some n) else .error .twoNulls := by
  intro ps
  induction ps with
  | nil => intro v _ _; rfl
  | cons p ps ih =>
    intro v hv hk
    obtain ⟨hkp, hks⟩ := noKeepCost_cons p ps hk
    unfold Assert.residual
    rw [nullPosts_cons]
    cases hm : p.mustBalance with
    | false =>
      have hb : bamt p = none := by unfold bamt; simp [hm]
      have hnp : isNullPost p = false := by unfold isNullPost; simp [hm]
      simp only [Bool.not_false, if_true, hnp, Bool.false_eq_true, if_false, List.filterMap_cons, hb]
      exact ih v hv hks
    | true =>
      simp only [Bool.not_true, Bool.false_eq_true, if_false]
      rw [balancing_eq p hm hkp]
      cases hb : bamt p with
      | none =>
        have hnp : isNullPost p = true := by
          unfold isNullPost
          rw [hm, (bamt_none_iff p hm).1 hb]; rfl
        simp [hnp]
      | some a =>
        have hnp : isNullPost p = false := by
          unfold isNullPost
          cases ha : p.amount with
          | none => rw [(bamt_none_iff p hm).2 ha] at hb; cases hb
          | some _ => simp
        simp only [hnp, Bool.false_eq_true, if_false, List.filterMap_cons, hb, List.foldl_cons]
        rw [accAdd_eq_vadd v a hv]
        exact ih _ (VAB_vadd v a hv) hks

theorem residual_none : ∀ (ps : List Posting) (v : Value), VAB v → noKeepCost ps = true →
    Assert.residual ps v none =
      match nullPosts ps with
      | [] => .ok ((ps.filterMap bamt).foldl vadd v, none)
      | [n] => .ok ((ps.filterMap bamt).foldl vadd v, some n)
      | _ => .error .twoNulls := by
  intro ps
  induction ps with
  | nil => intro v _ _; rfl
  | cons p ps ih =>
    intro v hv hk
    obtain ⟨hkp, hks⟩ := noKeepCost_cons p ps hk
    unfold Assert.residual
    rw [nullPosts_cons]
    cases hm : p.mustBalance with
    | false =>
      have hb : bamt p = none := by unfold bamt; simp [hm]
      have hnp : isNullPost p = false := by unfold isNullPost; simp [hm]
      simp only [Bool.not_false, if_true, hnp, Bool.false_eq_true, if_false, List.filterMap_cons, hb]
      exact ih v hv hks
    | true =>
      simp only [Bool.not_true, Bool.false_eq_true, if_false]
      rw [balancing_eq p hm hkp]
      cases hb : bamt p with
      | none =>
        have hnp : isNullPost p = true := by
          unfold isNullPost
          rw [hm, (bamt_none_iff p hm).1 hb]; rfl
        simp only [hnp, if_true, List.filterMap_cons, hb]
        rw [residual_some p ps v hv hks]
        cases hn : nullPosts ps with
        | nil => simp
        | cons _ _ => simp
      | some a =>
        have hnp : isNullPost p = false := by
          unfold isNullPost
          cases ha : p.amount with
          | none => rw [(bamt_none_iff p hm).2 ha] at hb; cases hb
          | some _ => simp
        simp only [hnp, Bool.false_eq_true, if_false, List.filterMap_cons, hb, List.foldl_cons]
        rw [accAdd_eq_vadd v a hv]
        exact ih _ (VAB_vadd v a hv) hks

theorem toAssert_row (p : Posting) (a : Amount) :
    Row.toAssert ⟨p.account, p.kind, a⟩ = Assert.entryOf p a := by
  unfold Row.toAssert Assert.entryOf Assert.virt Posting.isReal
  cases p.kind <;> rfl

theorem entriesOf_rows : ∀ ps : List Posting, Assert.entriesOf ps = (rowsOf [] ps).map Row.toAssert := by
  intro ps
  induction ps with
  | nil => rfl
  | cons p ps ih =>
    unfold Assert.entriesOf rowsOf
    cases ha : p.amount with
    | some a => simp only [List.map_cons, ih, toAssert_row]
    | none =>
      simp only
      split <;> exact ih

theorem entriesOf_append (a b : List Posting) :
    Assert.entriesOf (a ++ b) = Assert.entriesOf a ++ Assert.entriesOf b := by
  induction a with
  | nil => rfl
  | cons p ps ih =>
    simp only [List.cons_append, Assert.entriesOf]
    cases p.amount with
    | some x => simp only [List.cons_append, ih]
    | none => exact ih

theorem rowsOf_allSome_any (inf : List Amount) : ∀ ps : List Posting,
    (∀ p ∈ ps, p.amount.isSome = true) → rowsOf inf ps = rowsOf [] ps := by
  intro ps
  induction ps with
  | nil => intro _; rfl
  | cons p ps ih =>
    intro h
    have hp := h p List.mem_cons_self
    unfold rowsOf
    cases ha : p.amount with
    | none => rw [ha] at hp; cases hp
    | some a => simp only [ih (fun q hq => h q (List.mem_cons_of_mem _ hq))]

theorem balancingAmounts_eq (v : Value) (hv : VAB v) : Assert.balancingAmounts v = inferred v := by
  cases v with
  | void => rfl
  | amt a => rfl
  | bal b =>
    match b with
    | [] => rfl
    | [a] => rfl
    | a :: c :: r =>
      simp only [Assert.balancingAmounts, inferred]
      rw [assert_sort_generic]
  | int _ => cases hv
  | bool _ => cases hv

theorem impliedPrice_assert (env : PrecEnv) (ps : List Posting) (v : Value) (hv : VAB v) :
    (match Assert.impliedPrice env ps v with
     | some b => b
     | none => Assert.valueIsZero env v) = OF.acceptNoNull env ps v := by
  unfold Assert.impliedPrice OF.acceptNoNull
  cases v with
  | void => rfl
  | amt a => rfl
  | int _ => cases hv
  | bool _ => cases hv
  | bal b =>
    match b with
    | [] => rfl
    | [_] => rfl
    | _ :: _ :: _ :: _ => rfl
    | [x, y] =>
      simp only
      by_cases hc : ps.any (fun p => p.cost.isSome) = true
      · simp only [hc, if_true]; rfl
      · simp only [hc, Bool.false_eq_true, if_false]
        by_cases hnz : (!x.isZero env && !y.isZero env) = true
        · simp only [hnz, if_true]
          simp only [Bool.and_eq_true, Bool.not_eq_true'] at hnz
          exact (mul_neg_iff_signs x.q y.q (Amount.isZero_false_ne hnz.1)
            (Amount.isZero_false_ne hnz.2)).symm
        · simp only [hnz, Bool.false_eq_true, if_false]; rfl

/-- `Assert.finalize` is the closed form, kinds reduced to POST_VIRTUAL, rows up to
    order (C09 appends the filled-in elided posting after the written ones). -/
theorem assert_eq_ref (cx : Assert.Ctx) (ps : List Posting) (hvn : noVirtNull ps = true)
    (hsa : someAmount ps = true) (hkc : noKeepCost ps = true) :
    (verdictAssert (Assert.finalize cx ps)).PermEq ((ref cx.env ps).map Row.toAssert) := by
  have hres := residual_none ps .void trivial hkc
  rw [show List.foldl vadd Value.void (List.filterMap bamt ps) = xbalance ps from rfl] at hres
  have hvirt : ps.any (fun p => p.amount.isNone && !p.mustBalance) = false := by
    rw [List.any_eq_false]
    intro p hp
    unfold noVirtNull at hvn
    have := List.all_eq_true.1 hvn p hp
    cases hm : p.mustBalance <;> cases ha : p.amount <;> simp_all
  unfold Assert.finalize ref
  rw [hres]
  match hn : nullPosts ps with
  | [] =>
    have hS := allSome_of ps hvn hn
    have hnone : ps.any (fun p => p.amount.isNone) = false := by
      rw [List.any_eq_false]
      intro p hp
      have := hS p hp
      cases ha : p.amount <;> simp_all
    simp only
    have hacc : ∃ acc, acc = OF.acceptNoNull cx.env ps (xbalance ps) ∧
        (match Assert.impliedPrice cx.env ps (xbalance ps) with
         | some b => b
         | none => Assert.valueIsZero cx.env (xbalance ps)) = acc :=
      ⟨_, rfl, impliedPrice_assert cx.env ps _ (VAB_xbalance ps)⟩
    obtain ⟨acc, hacc1, hacc2⟩ := hacc
    rw [← hacc1]
    cases hip : Assert.impliedPrice cx.env ps (xbalance ps) with
    | none =>
      rw [hip] at hacc2
      simp only at hacc2 ⊢
      rw [hacc2]
      cases acc with
      | false => trivial
      | true =>
        simp only [Bool.not_true, Bool.false_eq_true, if_false, hnone, if_true, verdictAssert, Verdict.map]
        rw [entriesOf_rows]
        exact List.Perm.refl _
    | some b =>
    rw [hip] at hacc2
    simp only at hacc2 ⊢
    rw [hacc2]
    cases acc with
    | false => trivial
    | true =>
      simp only [Bool.not_true, Bool.false_eq_true, if_false, hnone, if_true, verdictAssert, Verdict.map]
      rw [entriesOf_rows]
      exact List.Perm.refl _
  | [n] =>
    simp only
    show (verdictAssert (match Assert.balancingAmounts (xbalance ps) with
        | [] => _
        | extra => _)).PermEq _
    rw [balancingAmounts_eq _ (VAB_xbalance ps)]
    have hnotall : ps.all (fun p => p.amount.isNone) = false := by
      unfold someAmount at hsa
      have hne : ps ≠ [] := by intro e; rw [e] at hn; cases hn
      have : ps.any (fun p => p.amount.isSome) = true := by
        cases hx : ps with
        | nil => exact absurd hx hne
        | cons _ _ => rw [hx] at hsa; simpa using hsa
      obtain ⟨p, hp, hps⟩ := List.any_eq_true.1 this
      cases hall : ps.all (fun p => p.amount.isNone) with
      | false => rfl
      | true =>
        have := List.all_eq_true.1 hall p hp
        cases hpa : p.amount <;> simp_all
    cases hi : inferred (xbalance ps) with
    | nil =>
      simp only [if_true, hnotall, Bool.false_eq_true, if_false]
      trivial
    | cons a more =>
      simp only [hvirt, Bool.false_eq_true, if_false, List.cons_ne_nil, verdictAssert, Verdict.map,
        Verdict.PermEq]
      obtain ⟨pre, post, e, hpre, hpost, hnn⟩ := filter_singleton_split isNullPost ps n hn
      have hpreS := allSome_of pre (noVirtNull_append (e ▸ hvn)).1 hpre
      have hpostS := allSome_of post (noVirtNull_tail (noVirtNull_append (e ▸ hvn)).2) hpost
      rw [e, rowsOf_split (a :: more) a more rfl pre post n hnn hpreS, entriesOf_append]
      have hnnone : n.amount = none := by
        unfold isNullPost at hnn
        simp only [Bool.and_eq_true, Option.isNone_iff_eq_none] at hnn
        exact hnn.2
      have hcons : Assert.entriesOf (n :: post) = Assert.entriesOf post := by
        simp only [Assert.entriesOf, hnnone]
      rw [hcons, rowsOf_allSome_any (a :: more) pre hpreS, rowsOf_allSome_any (a :: more) post hpostS,
        entriesOf_rows pre, entriesOf_rows post]
      simp only [List.map_append, List.map_cons, extraRows, List.drop_one, List.tail_cons, List.map_map,
        toAssert_row, List.append_assoc]
      apply List.Perm.append_left
      have : (List.map (Row.toAssert ∘ fun a => ({ account := n.account, kind := n.kind, amt := a } : Row)) more)
          = more.map (Assert.entryOf n) := by
        apply List.map_congr_left
        intro x _
        exact toAssert_row n x
      rw [this]
      exact List.perm_middle (a := Assert.entryOf n a)
        (l₁ := List.map Row.toAssert (rowsOf [] post)) (l₂ := more.map (Assert.entryOf n))
  | _ :: _ :: _ => trivial

end Coh
end Ledger
