/-
MODEL COHERENCE — per-account per-commodity sums.  The account sums of C05
(`Reports.acctAmount` / `acctTotal` / `grandTotal`), of C08 (`OF.ownBalance` /
`familyBalance`) and of C17 (`Regroup.sumValue` of the plain register) denote,
for the same journal, ONE function `Coh.jsum` of the journal, an account
selector and a commodity.

The translations of a finalised journal into the three posting types:
  `Reports.posts j`            (C05: transaction + posting)
  `Coh.entriesOf j`            (C08: date, account string, amount)
  `Regroup.plainPosts {} j`    (C17: the handler's view, no limit predicate)
-/
import LedgerModel.Lemmas.CoherenceCore
import LedgerModel.Lemmas.ReportsTree
import LedgerModel.Lemmas.ReportsDefined
import LedgerModel.Lemmas.RegroupSums

namespace Ledger
namespace Coh

open OF (sumBy)

/-- what a posting contributes to commodity `c` -/
def pden (c : Comm) (p : Posting) : Rat :=
  match p.amount with
  | some a => a.den c
  | none => 0

/-- THE per-commodity sum of the journal's postings whose account satisfies `sel`. -/
def jsum (j : Journal) (sel : String → Bool) (c : Comm) : Rat :=
  sumBy (fun x : Xact => sumBy (fun p : Posting => if sel p.account then pden c p else 0) x.posts) j.xacts

/-- the journal as C08's list of entries (postings that carry an amount) -/
def entriesOf (j : Journal) : List OF.Entry :=
  j.xacts.flatMap (fun x => x.posts.filterMap (fun p => p.amount.map (fun a => (⟨x.date, p.account, a⟩ : OF.Entry))))

/-! ### C08 -/

theorem sumDen_entriesOf (j : Journal) (sel : String → Bool) (c : Comm) :
    OF.sumDen (fun e => sel e.account) c (entriesOf j) = jsum j sel c := by
  unfold OF.sumDen entriesOf jsum
  rw [OF.sumBy_flatMap]
  apply OF.sumBy_congr
  intro x _
  rw [OF.sumBy_filterMap]
  apply OF.sumBy_congr
  intro p _
  unfold pden
  cases p.amount with
  | none => simp
  | some a => simp

theorem ownBalance_jsum (j : Journal) (a : String) (c : Comm) :
    (OF.ownBalance (entriesOf j) a).den c = jsum j (fun s => decide (s = a)) c := by
  rw [OF.ownBalance_den]
  unfold OF.coeff
  rw [← sumDen_entriesOf]

theorem familyBalance_jsum (j : Journal) (a : String) (c : Comm) :
    (OF.familyBalance (entriesOf j) a).den c = jsum j (fun s => accountUnder s a) c := by
  rw [OF.familyBalance_den, ← sumDen_entriesOf]

/-! ### C17 -/

theorem wsum_eq_sumBy (w : Regroup.RPost → Rat) (l : List Regroup.RPost) :
    Regroup.wsum w l = sumBy w l := by
  induction l with
  | nil => rfl
  | cons p ps ih => simp only [Regroup.wsum, OF.sumBy_cons, ih]

theorem pass_default (x : Xact) (p : Posting) : ({} : Regroup.Filter).pass x p = true := by
  unfold Regroup.Filter.pass Regroup.containsCI
  simp

theorem allQty_plain (j : Journal) : Regroup.AllQty (Regroup.plainPosts {} j) := by
  intro p hp
  unfold Regroup.plainPosts at hp
  obtain ⟨x, _, hpx⟩ := List.mem_flatMap.1 hp
  unfold Regroup.xactPosts at hpx
  obtain ⟨q, _, hq⟩ := List.mem_filterMap.1 hpx
  cases ha : q.amount with
  | none => rw [ha] at hq; cases hq
  | some a =>
    rw [ha] at hq
    simp only [pass_default, if_true, Option.some.injEq] at hq
    rw [← hq]
    rfl

theorem allQty_filter {ps : List Regroup.RPost} (h : Regroup.AllQty ps) (f : Regroup.RPost → Bool) :
    Regroup.AllQty (ps.filter f) := fun p hp => h p (List.mem_filter.1 hp).1

/-- C17's plain register, restricted to the accounts `sel`, sums to `jsum`. -/
theorem sumValue_jsum (j : Journal) (sel : String → Bool) (c : Comm) :
    (Regroup.sumValue ((Regroup.plainPosts {} j).filter (fun p => sel p.account))).den c = jsum j sel c := by
  rw [Regroup.sumValue_den _ (allQty_filter (allQty_plain j) _)]
  unfold Regroup.sumDen Regroup.sumDenBy
  rw [wsum_eq_sumBy, OF.sumBy_filter]
  unfold Regroup.plainPosts jsum
  rw [OF.sumBy_flatMap]
  apply OF.sumBy_congr
  intro x _
  unfold Regroup.xactPosts
  rw [OF.sumBy_filterMap]
  apply OF.sumBy_congr
  intro p _
  unfold pden
  cases p.amount with
  | none => simp
  | some a => simp [pass_default, Value.den]

/-! ### C05 -/

theorem rsum_map_eq_sumBy {α : Type} (f : α → Rat) (l : List α) : Reports.rsum (l.map f) = sumBy f l := by
  induction l with
  | nil => rfl
  | cons x xs ih => simp only [List.map_cons, Reports.rsum_cons, OF.sumBy_cons, ih]

theorem valAmount_den (p : Reports.RPost) (c : Comm) : (Reports.valAmount p).den c = pden c p.post := by
  unfold Reports.valAmount pden
  cases p.post.amount with
  | none => simp [Value.den]
  | some a => rfl

/-- C05's guarded sum with the plain valuation and no limit predicate is `jsum`,
    provided the path selector `psel` and the account-string selector `sel` pick
    the same postings of this journal. -/
theorem gsum_jsum (j : Journal) (psel : Reports.Path → Bool) (sel : String → Bool) (c : Comm)
    (hsel : ∀ p ∈ Reports.posts j, psel p.path = sel p.post.account) :
    Reports.gsum Reports.valAmount (fun _ => true) c (Reports.posts j) psel = jsum j sel c := by
  unfold Reports.gsum
  rw [rsum_map_eq_sumBy]
  have hcongr : sumBy (fun p : Reports.RPost => if psel p.path = true then
        Reports.wt Reports.valAmount (fun _ => true) c p else 0) (Reports.posts j)
      = sumBy (fun p : Reports.RPost => if sel p.post.account then pden c p.post else 0) (Reports.posts j) := by
    apply OF.sumBy_congr
    intro p hp
    rw [hsel p hp]
    unfold Reports.wt
    simp only [if_true, valAmount_den]
  rw [hcongr]
  unfold Reports.posts jsum
  rw [OF.sumBy_flatMap]
  apply OF.sumBy_congr
  intro x _
  rw [OF.sumBy_map]

/-- the path the C05 model files a posting to account `a` under -/
def pathOf (a : String) : Reports.Path := if accountPath a = [] then [a] else accountPath a

/-- DOMAIN GUARD (decidable): among the postings of `j`, "same path as `a`" and
    "same account string as `a`" coincide.  (It holds for every journal — `splitOn ":"`
    is injective — but core Lean has no lemmas about `String.splitOn`; it is
    therefore a checked hypothesis, not a proved fact.) -/
def pathFaithful (j : Journal) (a : String) : Bool :=
  (Reports.posts j).all (fun p => decide (p.path = pathOf a) == decide (p.post.account = a))

/-- DOMAIN GUARD (decidable): "path below `a`" and `accountUnder · a` coincide on `j`. -/
def underFaithful (j : Journal) (a : String) : Bool :=
  (Reports.posts j).all (fun p => Reports.under (pathOf a) p.path == accountUnder p.post.account a)

theorem acctAmount_jsum (j : Journal) (a : String) (c : Comm) (r : Value)
    (hg : pathFaithful j a = true)
    (h : Reports.acctAmount Reports.valAmount (fun _ => true) (Reports.posts j) (pathOf a) = .ok r) :
    r.den c = jsum j (fun s => decide (s = a)) c := by
  rw [Reports.acctAmount_den _ _ c _ _ r h]
  apply gsum_jsum
  intro p hp
  unfold pathFaithful at hg
  have := List.all_eq_true.1 hg p hp
  simpa using this

theorem acctTotal_jsum (j : Journal) (a : String) (c : Comm) (r : Value)
    (hg : underFaithful j a = true)
    (h : Reports.acctTotal Reports.valAmount (fun _ => true) (Reports.posts j) (pathOf a) = .ok r) :
    r.den c = jsum j (fun s => accountUnder s a) c := by
  rw [Reports.acctTotal_den _ _ c _ _ r h]
  apply gsum_jsum
  intro p hp
  unfold underFaithful at hg
  have := List.all_eq_true.1 hg p hp
  simpa using this

/-- without any guard: C05 groups by the PATH of the account string -/
theorem acctAmount_jsum_path (j : Journal) (q : Reports.Path) (c : Comm) (r : Value)
    (h : Reports.acctAmount Reports.valAmount (fun _ => true) (Reports.posts j) q = .ok r) :
    r.den c = jsum j (fun s => decide (pathOf s = q)) c := by
  rw [Reports.acctAmount_den _ _ c _ _ r h]
  apply gsum_jsum
  intro p _
  rfl

theorem acctTotal_jsum_path (j : Journal) (q : Reports.Path) (c : Comm) (r : Value)
    (h : Reports.acctTotal Reports.valAmount (fun _ => true) (Reports.posts j) q = .ok r) :
    r.den c = jsum j (fun s => Reports.under q (pathOf s)) c := by
  rw [Reports.acctTotal_den _ _ c _ _ r h]
  apply gsum_jsum
  intro p _
  rfl

/-- the balance report's grand total (code-shaped recursion over the account tree) -/
theorem grandTotal_jsum (j : Journal) (c : Comm) (r : Value)
    (h : Reports.grandTotal Reports.valAmount (fun _ => true) (Reports.posts j) = .ok r) :
    r.den c = jsum j (fun _ => true) c := by
  unfold Reports.grandTotal at h
  rw [Reports.acctTotalRec_den _ _ c _ _ [] r (by simp) h]
  apply gsum_jsum
  intro p _
  exact Reports.under_nil p.path

end Coh
end Ledger
