/-
Lemmas about the date reader model (`Model/DateParse.lean`) for C14: forward evaluation of
`getNumber` / `strptime` / `cmpLoop` on spelled dates (completeness) and their inversion
(soundness).  Digits are handled symbolically (`digitChar k`, `k < 10`); nothing enumerates
dates.
-/
import LedgerModel.Model.DateParse
import LedgerModel.Lemmas.Calendar

namespace Ledger.DateParse
open Ledger.Cal

/-! ### Spellings (the specification side) -/

/-- The separators ledger accepts between the fields of a date. -/
def IsSep (c : Char) : Prop := c = '/' ∨ c = '-' ∨ c = '.'

/-- Text of a month or day number: two digits, or one digit when the leading zero is left out. -/
def NumText (k : Nat) (t : List Char) : Prop := t = pad2 k ∨ (k < 10 ∧ t = [digitChar k])

/-- `YYYY s MM s DD` with independent separators and independent leading zeros (36 spellings). -/
def FullSpelling (y m d : Nat) (s : List Char) : Prop :=
  ∃ s1 s2 mt dt, IsSep s1 ∧ IsSep s2 ∧ NumText m mt ∧ NumText d dt ∧
    s = digits4 y ++ s1 :: (mt ++ s2 :: dt)

/-- `YYYY s MM` (denotes the first of the month). -/
def YMSpelling (y m : Nat) (s : List Char) : Prop :=
  ∃ s1 mt, IsSep s1 ∧ NumText m mt ∧ s = digits4 y ++ s1 :: mt

/-- `MM s DD` (the year comes from the year directive / the clock). -/
def MDSpelling (m d : Nat) (s : List Char) : Prop :=
  ∃ s1 mt dt, IsSep s1 ∧ NumText m mt ∧ NumText d dt ∧ s = mt ++ s1 :: dt

/-! ### Characters -/

theorem lt10_cases {k : Nat} (h : k < 10) :
    k = 0 ∨ k = 1 ∨ k = 2 ∨ k = 3 ∨ k = 4 ∨ k = 5 ∨ k = 6 ∨ k = 7 ∨ k = 8 ∨ k = 9 := by omega

theorem digitVal?_digitChar {k : Nat} (h : k < 10) : digitVal? (digitChar k) = some k := by
  rcases lt10_cases h with h | h | h | h | h | h | h | h | h | h <;> subst h <;> rfl

theorem isDigit_digitChar {k : Nat} (h : k < 10) : isDigit (digitChar k) = true := by
  simp [isDigit, digitVal?_digitChar h]

theorem digitVal_digitChar {k : Nat} (h : k < 10) : digitVal (digitChar k) = k := by
  simp [digitVal, digitVal?_digitChar h]

theorem digitChar_isDigit_any (k : Nat) : isDigit (digitChar k) = true := by
  unfold digitChar; split <;> rfl

theorem isSpace_digit {c : Char} (h : isDigit c = true) : isSpace c = false := by
  unfold isDigit digitVal? at h
  split at h <;> first | rfl | (simp at h)

theorem not_digit_of_space {c : Char} (h : isSpace c = true) : isDigit c = false := by
  cases hd : isDigit c
  · rfl
  · rw [isSpace_digit hd] at h; cases h

theorem isSpace_digitChar (k : Nat) : isSpace (digitChar k) = false :=
  isSpace_digit (digitChar_isDigit_any k)

theorem digit_ne_slash {c : Char} (h : isDigit c = true) : c ≠ '/' := by
  intro hc; subst hc; revert h; decide

theorem digit_ne_dash {c : Char} (h : isDigit c = true) : c ≠ '-' := by
  intro hc; subst hc; revert h; decide

theorem digit_ne_dot {c : Char} (h : isDigit c = true) : c ≠ '.' := by
  intro hc; subst hc; revert h; decide

theorem digitChar_ne_slash (k : Nat) : digitChar k ≠ '/' := digit_ne_slash (digitChar_isDigit_any k)

theorem slash_ne_digitChar (k : Nat) : '/' ≠ digitChar k := fun h => digitChar_ne_slash k h.symm

theorem digitChar_eq_zero {k : Nat} (h : k < 10) : digitChar k = '0' ↔ k = 0 := by
  rcases lt10_cases h with h | h | h | h | h | h | h | h | h | h <;> subst h <;> decide

theorem digitChar_inj {a b : Nat} (ha : a < 10) (hb : b < 10) (h : digitChar a = digitChar b) :
    a = b := by
  have := congrArg digitVal h
  rwa [digitVal_digitChar ha, digitVal_digitChar hb] at this

/-- A digit character is the digit character of its value. -/
theorem digit_inv {c : Char} (h : isDigit c = true) : c = digitChar (digitVal c) ∧ digitVal c < 10 := by
  unfold isDigit at h
  unfold digitVal
  unfold digitVal? at *
  split at h <;> first | (simp at h; done) | (constructor <;> decide)

theorem not_digit_slash : isDigit '/' = false := by decide

/-! ### Separator normalisation -/

theorem normChar_eq (c : Char) : normChar c = if c = '.' ∨ c = '-' then '/' else c := by
  simp [normChar, Gen.normalisedSeparators, Gen.separatorTarget]

theorem normChar_sep {c : Char} (h : IsSep c) : normChar c = '/' := by
  rw [normChar_eq]; rcases h with h | h | h <;> subst h <;> decide

theorem normChar_digit {c : Char} (h : isDigit c = true) : normChar c = c := by
  rw [normChar_eq, if_neg]
  intro hc; rcases hc with hc | hc
  · exact digit_ne_dot h hc
  · exact digit_ne_dash h hc

theorem normChar_digitChar (k : Nat) : normChar (digitChar k) = digitChar k :=
  normChar_digit (digitChar_isDigit_any k)

theorem normChar_ne_dash (c : Char) : normChar c ≠ '-' := by
  rw [normChar_eq]; split
  · decide
  · rename_i h; intro hc; exact h (Or.inr hc)

/-- What a character was before normalisation, knowing what it became. -/
theorem normChar_inv_slash {c : Char} (h : normChar c = '/') : IsSep c := by
  rw [normChar_eq] at h
  split at h
  · rename_i hc; rcases hc with hc | hc
    · exact Or.inr (Or.inr hc)
    · exact Or.inr (Or.inl hc)
  · exact Or.inl h

theorem normChar_inv_digit {c : Char} {k : Nat} (h : normChar c = digitChar k) : c = digitChar k := by
  rw [normChar_eq] at h
  split at h
  · exact absurd h.symm (digitChar_ne_slash k)
  · exact h

/-! ### Forward evaluation of `getNumber` -/

theorem dropSpaces_digit {c : Char} (h : isDigit c = true) (s : List Char) :
    dropSpaces (c :: s) = c :: s := by
  simp [dropSpaces, isSpace_digit h]

/-- A text that does not continue the number being read. -/
def NoDigitHead (s : List Char) : Prop := ∀ c r, s = c :: r → isDigit c = false

theorem noDigitHead_nil : NoDigitHead [] := by intro c r h; cases h

theorem noDigitHead_cons {c : Char} (h : isDigit c = false) (r : List Char) : NoDigitHead (c :: r) := by
  intro c' r' h'; cases h'; exact h

theorem getNumLoop_stop (hi n val : Nat) {s : List Char} (h : NoDigitHead s) :
    getNumLoop hi n val s = (val, s) := by
  cases n with
  | zero => rfl
  | succ n =>
    cases s with
    | nil => rfl
    | cons c r => simp [getNumLoop, h c r rfl]

/-- Two-digit field written with two digits. -/
theorem getNumber_pad2 (lo hi k : Nat) (hlo : lo ≤ k) (hhi : k ≤ hi) (hk : k < 100)
    (rest : List Char) : getNumber lo hi 2 (pad2 k ++ rest) = some (k, rest) := by
  have h1 : k / 10 < 10 := by omega
  have h2 : k % 10 < 10 := by omega
  have h3 : k / 10 * 10 ≤ hi := by omega
  have h4 : k / 10 * 10 + k % 10 = k := by omega
  simp [getNumber, pad2, dropSpaces_digit (isDigit_digitChar h1), isDigit_digitChar h1,
    isDigit_digitChar h2, digitVal_digitChar h1, digitVal_digitChar h2, getNumLoop, h3, h4, hlo, hhi]

/-- Two-digit field written with one digit, followed by something that is not a digit. -/
theorem getNumber_one (lo hi n k : Nat) (hlo : lo ≤ k) (hhi : k ≤ hi) (hk : k < 10)
    {rest : List Char} (hr : NoDigitHead rest) :
    getNumber lo hi n (digitChar k :: rest) = some (k, rest) := by
  simp [getNumber, dropSpaces_digit (isDigit_digitChar hk), isDigit_digitChar hk,
    digitVal_digitChar hk, getNumLoop_stop _ _ _ hr, hlo, hhi]

theorem getNumber_numText (lo hi k : Nat) (hlo : lo ≤ k) (hhi : k ≤ hi) (hk : k < 100)
    {t rest : List Char} (ht : NumText k t) (hr : NoDigitHead rest) :
    getNumber lo hi 2 (t ++ rest) = some (k, rest) := by
  rcases ht with rfl | ⟨h10, rfl⟩
  · exact getNumber_pad2 lo hi k hlo hhi hk rest
  · exact getNumber_one lo hi 2 k hlo hhi h10 hr

/-- The year field on four digits. -/
theorem getNumber_digits4 (y : Nat) (h1 : 1000 ≤ y) (h2 : y ≤ 9999) (rest : List Char) :
    getNumber 0 9999 4 (digits4 y ++ rest) = some (y, rest) := by
  have a : y / 1000 < 10 := by omega
  have b : y / 100 % 10 < 10 := by omega
  have c : y / 10 % 10 < 10 := by omega
  have e : y % 10 < 10 := by omega
  have c1 : y / 1000 * 10 ≤ 9999 := by omega
  have c2 : (y / 1000 * 10 + y / 100 % 10) * 10 ≤ 9999 := by omega
  have c3 : ((y / 1000 * 10 + y / 100 % 10) * 10 + y / 10 % 10) * 10 ≤ 9999 := by omega
  have v : ((y / 1000 * 10 + y / 100 % 10) * 10 + y / 10 % 10) * 10 + y % 10 = y := by omega
  simp [getNumber, digits4, dropSpaces_digit (isDigit_digitChar a), isDigit_digitChar a,
    isDigit_digitChar b, isDigit_digitChar c, isDigit_digitChar e, digitVal_digitChar a,
    digitVal_digitChar b, digitVal_digitChar c, digitVal_digitChar e, getNumLoop, c1, c2, c3, v, h2]

/-- The month reader cannot get past a four-digit year: `%m` takes one or two digits and the
    literal `/` then meets a digit. -/
theorem month_then_slash_on_year (y : Nat) (h1 : 1000 ≤ y) (h2 : y ≤ 9999) (rest : List Char)
    (fs : List FItem) (tm : Tm) :
    strptime (.month :: .lit '/' :: fs) (digits4 y ++ rest) tm = none := by
  have a : y / 1000 < 10 := by omega
  have b : y / 100 % 10 < 10 := by omega
  have a1 : 1 ≤ y / 1000 := by omega
  have hsp : isSpace '/' = false := by decide
  by_cases h : y / 1000 * 10 ≤ 12
  · by_cases h' : y / 1000 * 10 + y / 100 % 10 ≤ 12
    · have h'' : 1 ≤ y / 1000 * 10 + y / 100 % 10 := by omega
      simp [strptime, getNumber, digits4, dropSpaces_digit (isDigit_digitChar a),
        isDigit_digitChar a, isDigit_digitChar b, digitVal_digitChar a, digitVal_digitChar b,
        getNumLoop, h, h', h'', hsp, slash_ne_digitChar]
    · simp [strptime, getNumber, digits4, dropSpaces_digit (isDigit_digitChar a),
        isDigit_digitChar a, isDigit_digitChar b, digitVal_digitChar a, digitVal_digitChar b,
        getNumLoop, h, h']
  · have h3 : y / 1000 ≤ 12 := by omega
    simp [strptime, getNumber, digits4, dropSpaces_digit (isDigit_digitChar a),
      isDigit_digitChar a, digitVal_digitChar a, getNumLoop, h, hsp, slash_ne_digitChar, a1, h3]

/-! ### Forward evaluation of the comparison loop -/

@[simp] theorem cmpLoop_cons_same (c : Char) (p q : List Char) :
    cmpLoop (c :: p) (c :: q) = cmpLoop p q := by
  rw [cmpLoop.eq_def]; simp

theorem cmpLoop_skip_zero {c : Char} (hc : c ≠ '0') (p q : List Char) :
    cmpLoop ('0' :: c :: p) (c :: q) = cmpLoop p q := by
  have : '0' ≠ c := fun h => hc h.symm
  rw [cmpLoop.eq_def]; simp [this]

theorem cmpLoop_append_same (l p q : List Char) : cmpLoop (l ++ p) (l ++ q) = cmpLoop p q := by
  induction l with
  | nil => rfl
  | cons c l ih => simp [ih]

/-- A month / day number (≥ 1) written with or without its leading zero passes the loop. -/
theorem cmpLoop_numText {k : Nat} (h1 : 1 ≤ k) {t : List Char} (ht : NumText k t)
    (p q : List Char) : cmpLoop (pad2 k ++ p) (t ++ q) = cmpLoop p q := by
  rcases ht with rfl | ⟨h10, rfl⟩
  · exact cmpLoop_append_same _ _ _
  · have hz : digitChar k ≠ '0' := fun h => by
      have := (digitChar_eq_zero h10).1 h; omega
    have e1 : k / 10 = 0 := by omega
    have e2 : k % 10 = k := by omega
    simp only [pad2, e1, e2, List.cons_append, List.nil_append]
    exact cmpLoop_skip_zero hz p q

/-! ### Normalisation of spelled texts -/

theorem normSeps_append (a b : List Char) : normSeps (a ++ b) = normSeps a ++ normSeps b := by
  simp [normSeps]

theorem normSeps_cons (c : Char) (a : List Char) : normSeps (c :: a) = normChar c :: normSeps a := rfl

theorem normSeps_digits4 (y : Nat) : normSeps (digits4 y) = digits4 y := by
  simp [normSeps, digits4, normChar_digitChar]

theorem normSeps_pad2 (k : Nat) : normSeps (pad2 k) = pad2 k := by
  simp [normSeps, pad2, normChar_digitChar]

theorem normSeps_numText {k : Nat} {t : List Char} (ht : NumText k t) : normSeps t = t := by
  rcases ht with rfl | ⟨_, rfl⟩
  · exact normSeps_pad2 k
  · simp [normSeps, normChar_digitChar]

theorem numText_length {k : Nat} {t : List Char} (ht : NumText k t) : t.length ≤ 2 := by
  rcases ht with rfl | ⟨_, rfl⟩ <;> simp [pad2]

theorem noDigitHead_slash (r : List Char) : NoDigitHead ('/' :: r) := noDigitHead_cons not_digit_slash r

/-! ### The readers on spelled dates -/

theorem parseFmt_md : parseFmt "%m/%d".toList = some [.month, .lit '/', .day] := by decide
theorem parseFmt_ymd : parseFmt "%Y/%m/%d".toList = some [.year4, .lit '/', .month, .lit '/', .day] := by
  decide
theorem parseFmt_ym : parseFmt "%Y/%m".toList = some [.year4, .lit '/', .month] := by decide
theorem parseFmt_y2md : parseFmt "%y/%m/%d".toList = some [.year2, .lit '/', .month, .lit '/', .day] := by
  decide
theorem parseFmt_ymd_dash :
    parseFmt "%Y-%m-%d".toList = some [.year4, .lit '-', .month, .lit '-', .day] := by decide

theorem isSpace_slash : isSpace '/' = false := by decide

/-- `%Y/%m/%d` on a normalised full spelling. -/
theorem strptime_ymd_full (y m d : Nat) (hy1 : 1000 ≤ y) (hy2 : y ≤ 9999)
    (hm1 : 1 ≤ m) (hm2 : m ≤ 12) (hd1 : 1 ≤ d) (hd2 : d ≤ 31) {mt dt : List Char}
    (hmt : NumText m mt) (hdt : NumText d dt) (tm : Tm) :
    strptime [.year4, .lit '/', .month, .lit '/', .day] (digits4 y ++ '/' :: (mt ++ '/' :: dt)) tm =
      some ({ year := y, mon := m, mday := d }, []) := by
  have e3 : getNumber 1 31 2 dt = some (d, []) := by
    have := getNumber_numText 1 31 d hd1 hd2 (by omega) hdt noDigitHead_nil
    simpa using this
  simp [strptime, getNumber_digits4 y hy1 hy2, isSpace_slash,
    getNumber_numText 1 12 m hm1 hm2 (by omega) hmt (noDigitHead_slash dt), e3]

/-- `%Y/%m` on a normalised year-month spelling. -/
theorem strptime_ym (y m : Nat) (hy1 : 1000 ≤ y) (hy2 : y ≤ 9999)
    (hm1 : 1 ≤ m) (hm2 : m ≤ 12) {mt : List Char} (hmt : NumText m mt) (tm : Tm) :
    strptime [.year4, .lit '/', .month] (digits4 y ++ '/' :: mt) tm =
      some ({ year := y, mon := m, mday := tm.mday }, []) := by
  have e3 : getNumber 1 12 2 mt = some (m, []) := by
    have := getNumber_numText 1 12 m hm1 hm2 (by omega) hmt noDigitHead_nil
    simpa using this
  simp [strptime, getNumber_digits4 y hy1 hy2, isSpace_slash, e3]

/-- `%Y/%m/%d` fails on a year-month spelling (the second `/` is missing). -/
theorem strptime_ymd_on_ym (y m : Nat) (hy1 : 1000 ≤ y) (hy2 : y ≤ 9999)
    (hm1 : 1 ≤ m) (hm2 : m ≤ 12) {mt : List Char} (hmt : NumText m mt) (tm : Tm) :
    strptime [.year4, .lit '/', .month, .lit '/', .day] (digits4 y ++ '/' :: mt) tm = none := by
  have e3 : getNumber 1 12 2 mt = some (m, []) := by
    have := getNumber_numText 1 12 m hm1 hm2 (by omega) hmt noDigitHead_nil
    simpa using this
  simp [strptime, getNumber_digits4 y hy1 hy2, isSpace_slash, e3]

/-- `%m/%d` on a normalised month-day spelling. -/
theorem strptime_md (m d : Nat) (hm1 : 1 ≤ m) (hm2 : m ≤ 12) (hd1 : 1 ≤ d) (hd2 : d ≤ 31)
    {mt dt : List Char} (hmt : NumText m mt) (hdt : NumText d dt) (tm : Tm) :
    strptime [.month, .lit '/', .day] (mt ++ '/' :: dt) tm =
      some ({ year := tm.year, mon := m, mday := d }, []) := by
  have e3 : getNumber 1 31 2 dt = some (d, []) := by
    have := getNumber_numText 1 31 d hd1 hd2 (by omega) hdt noDigitHead_nil
    simpa using this
  simp [strptime, isSpace_slash,
    getNumber_numText 1 12 m hm1 hm2 (by omega) hmt (noDigitHead_slash dt), e3]

/-! ### `routine` on spelled dates -/

theorem cmp_full (y m d : Nat) (hm1 : 1 ≤ m) (hd1 : 1 ≤ d) {mt dt : List Char}
    (hmt : NumText m mt) (hdt : NumText d dt) :
    cmpLoop (digits4 y ++ '/' :: (pad2 m ++ '/' :: pad2 d)) (digits4 y ++ '/' :: (mt ++ '/' :: dt)) =
      true := by
  rw [cmpLoop_append_same, cmpLoop_cons_same, cmpLoop_numText hm1 hmt, cmpLoop_cons_same]
  have := cmpLoop_numText hd1 hdt [] []
  simp only [List.append_nil] at this
  rw [this]; rfl

theorem cmp_ym (y m : Nat) (hm1 : 1 ≤ m) {mt : List Char} (hmt : NumText m mt) :
    cmpLoop (digits4 y ++ '/' :: pad2 m) (digits4 y ++ '/' :: mt) = true := by
  rw [cmpLoop_append_same, cmpLoop_cons_same]
  have := cmpLoop_numText hm1 hmt [] []
  simp only [List.append_nil] at this
  rw [this]; rfl

theorem cmp_md (m d : Nat) (hm1 : 1 ≤ m) (hd1 : 1 ≤ d) {mt dt : List Char}
    (hmt : NumText m mt) (hdt : NumText d dt) :
    cmpLoop (pad2 m ++ '/' :: pad2 d) (mt ++ '/' :: dt) = true := by
  rw [cmpLoop_numText hm1 hmt, cmpLoop_cons_same]
  have := cmpLoop_numText hd1 hdt [] []
  simp only [List.append_nil] at this
  rw [this]; rfl

theorem yearText_nat (y : Nat) (h : y ≤ 9999) : yearText (y : Int) = digits4 y := by
  have : (0 : Int) ≤ (y : Int) ∧ (y : Int) ≤ 9999 := by omega
  simp [yearText, this]

theorem len_le (s : List Char) (h : s.length ≤ 127) : ¬ (s.length > Gen.maxDateLen) := by
  simp [Gen.maxDateLen]; omega

/-- Reader `%m/%d` declines a text whose normal form starts with a four-digit year. -/
theorem routine_md_on_year4 (cur : Int × Int) (s : List Char) (y : Nat) (rest : List Char)
    (hy1 : 1000 ≤ y) (hy2 : y ≤ 9999) (hlen : s.length ≤ 127)
    (hbuf : normSeps s = digits4 y ++ rest) :
    routine true cur "%m/%d".toList s = .ok none := by
  simp only [routine, routineCore, if_neg (len_le s hlen), parseFmt_md, if_true, hbuf,
    month_then_slash_on_year y hy1 hy2]

/-- Reader `%Y/%m/%d` on a full spelling. -/
theorem routine_ymd_full (cur : Int × Int) (s : List Char) (y m d : Nat)
    (hy1 : 1400 ≤ y) (hy2 : y ≤ 9999) (hv : validYMD y m d = true) {mt dt : List Char}
    (hmt : NumText m mt) (hdt : NumText d dt) (hlen : s.length ≤ 127)
    (hbuf : normSeps s = digits4 y ++ '/' :: (mt ++ '/' :: dt)) :
    routine true cur "%Y/%m/%d".toList s = .ok (some (ofYMD y m d)) := by
  obtain ⟨hm1, hm12, hd1, hd31, -⟩ := (validYMD_iff y m d).1 hv
  have hyr : ¬ ((y : Int) < 1400 ∨ (y : Int) > 9999) := by omega
  have hH : hasYearRaw "%Y/%m/%d".toList = true := by decide
  simp only [routine, routineCore, if_neg (len_le s hlen), parseFmt_ymd, if_true, hbuf,
    strptime_ymd_full y m d (by omega) hy2 (by omega) (by omega) (by omega) (by omega) hmt hdt,
    dateFromTm, if_neg hyr, hv, strftime, List.flatMap_cons, List.flatMap_nil, fmtItem,
    yearText_nat y hy2, List.append_nil, List.cons_append, List.nil_append,
    hH]
  rw [cmp_full y m d (by omega) (by omega) hmt hdt]
  rfl

/-- Reader `%Y/%m/%d` declines a year-month spelling. -/
theorem routine_ymd_on_ym (cur : Int × Int) (s : List Char) (y m : Nat)
    (hy1 : 1000 ≤ y) (hy2 : y ≤ 9999) (hm1 : 1 ≤ m) (hm12 : m ≤ 12) {mt : List Char}
    (hmt : NumText m mt) (hlen : s.length ≤ 127) (hbuf : normSeps s = digits4 y ++ '/' :: mt) :
    routine true cur "%Y/%m/%d".toList s = .ok none := by
  simp only [routine, routineCore, if_neg (len_le s hlen), parseFmt_ymd, if_true, hbuf,
    strptime_ymd_on_ym y m hy1 hy2 hm1 hm12 hmt]

/-- Reader `%Y/%m` on a year-month spelling: the first day of that month. -/
theorem routine_ym (cur : Int × Int) (s : List Char) (y m : Nat)
    (hy1 : 1400 ≤ y) (hy2 : y ≤ 9999) (hm1 : 1 ≤ m) (hm12 : m ≤ 12) {mt : List Char}
    (hmt : NumText m mt) (hlen : s.length ≤ 127) (hbuf : normSeps s = digits4 y ++ '/' :: mt) :
    routine true cur "%Y/%m".toList s = .ok (some (ofYMD y m 1)) := by
  have hv : validYMD y m (1 : Nat) = true := by
    rw [validYMD_iff]; omega
  have hyr : ¬ ((y : Int) < 1400 ∨ (y : Int) > 9999) := by omega
  have hH : hasYearRaw "%Y/%m".toList = true := by decide
  simp only [routine, routineCore, if_neg (len_le s hlen), parseFmt_ym, if_true, hbuf,
    strptime_ym y m (by omega) hy2 hm1 hm12 hmt,
    dateFromTm, if_neg hyr, hv, strftime, List.flatMap_cons, List.flatMap_nil, fmtItem,
    yearText_nat y hy2, List.append_nil, List.cons_append, List.nil_append, hH]
  rw [cmp_ym y m hm1 hmt]
  rfl

/-- Reader `%m/%d` on a month-day spelling: that day of the clock's year, or of the year before
    when the month is after the clock's month. -/
theorem routine_md (Y cm : Int) (s : List Char) (m d : Nat)
    (hY1 : 1400 ≤ Y) (hY2 : Y ≤ 9999) (hv : validYMD Y m d = true) {mt dt : List Char}
    (hmt : NumText m mt) (hdt : NumText d dt) (hlen : s.length ≤ 127)
    (hbuf : normSeps s = mt ++ '/' :: dt) :
    routine true (Y, cm) "%m/%d".toList s =
      if (m : Int) > cm then (minusYear (ofYMD Y m d)).map some else .ok (some (ofYMD Y m d)) := by
  obtain ⟨hm1, hm12, hd1, hd31, -⟩ := (validYMD_iff Y m d).1 hv
  have hyr : ¬ (Y < 1400 ∨ Y > 9999) := by omega
  have hH : hasYearRaw "%m/%d".toList = false := by decide
  simp only [routine, routineCore, if_neg (len_le s hlen), parseFmt_md, if_true, hbuf,
    strptime_md m d (by omega) (by omega) (by omega) (by omega) hmt hdt,
    dateFromTm, if_neg hyr, hv, strftime, List.flatMap_cons, List.flatMap_nil, fmtItem,
    List.append_nil, List.cons_append, List.nil_append, hH]
  rw [cmp_md m d (by omega) (by omega) hmt hdt]
  rfl

/-! ### Moving a date one year back (times.cc 168) -/

theorem addYears_back (Y m d : Int) (hv : validYMD Y m d = true) (hg : m ≠ 2 ∨ d < 28) :
    addYears (ofYMD Y m d) (-1) = ofYMD (Y - 1) m d := by
  obtain ⟨hm1, hm12, hd1, hd31, h30, h29, -⟩ := (validYMD_iff Y m d).1 hv
  simp only [addYears, addMonths, toYMD_ofYMD Y m d hv]
  have e1 : (Y * 12 + (m - 1) + 12 * -1) / 12 = Y - 1 := by omega
  have e2 : (Y * 12 + (m - 1) + 12 * -1) % 12 + 1 = m := by omega
  rw [e1, e2]
  have hd : (if d = daysInMonth Y m then daysInMonth (Y - 1) m
      else if d > daysInMonth (Y - 1) m then daysInMonth (Y - 1) m else d) = d := by
    unfold daysInMonth
    by_cases hm : m = 2
    · have hd28 : d < 28 := by omega
      simp only [hm, if_true]
      split <;> split <;> split <;> omega
    · simp only [if_neg hm]
      split <;> split <;> (try split) <;> omega
  rw [hd]

/-! ### Inversion: what a successful `getNumber` / `strptime` says about the text -/

def AllSpace (sp : List Char) : Prop := ∀ c ∈ sp, isSpace c = true

def AllDigit (ds : List Char) : Prop := ∀ c ∈ ds, isDigit c = true

theorem dropSpaces_spec (s : List Char) : ∃ sp, s = sp ++ dropSpaces s ∧ AllSpace sp := by
  induction s with
  | nil => exact ⟨[], rfl, by intro c h; cases h⟩
  | cons c s ih =>
    by_cases hc : isSpace c = true
    · obtain ⟨sp, h1, h2⟩ := ih
      refine ⟨c :: sp, ?_, ?_⟩
      · simp only [dropSpaces, hc, if_true, List.cons_append]; rw [← h1]
      · intro x hx
        rcases List.mem_cons.1 hx with h | h
        · rw [h]; exact hc
        · exact h2 x h
    · refine ⟨[], ?_, by intro c h; cases h⟩
      simp [dropSpaces, hc]

/-- value of a digit string read after `val`. -/
def digitsVal (val : Nat) (ds : List Char) : Nat := ds.foldl (fun acc c => acc * 10 + digitVal c) val

theorem getNumLoop_inv (hi : Nat) : ∀ (n val : Nat) (s : List Char) (v : Nat) (r : List Char),
    getNumLoop hi n val s = (v, r) →
      ∃ ds, s = ds ++ r ∧ ds.length ≤ n ∧ AllDigit ds ∧ v = digitsVal val ds := by
  intro n
  induction n with
  | zero =>
    intro val s v r h
    simp only [getNumLoop] at h
    cases h
    exact ⟨[], rfl, Nat.le_refl _, (by intro c h; cases h), rfl⟩
  | succ n ih =>
    intro val s v r h
    cases s with
    | nil =>
      simp only [getNumLoop] at h
      cases h
      exact ⟨[], rfl, Nat.zero_le _, (by intro c h; cases h), rfl⟩
    | cons c s =>
      simp only [getNumLoop] at h
      split at h
      · rename_i hc
        obtain ⟨ds, h1, h2, h3, h4⟩ := ih _ _ _ _ h
        refine ⟨c :: ds, by rw [h1]; rfl, by simp; omega, ?_, ?_⟩
        · intro x hx
          rcases List.mem_cons.1 hx with hx | hx
          · rw [hx]; exact hc.2
          · exact h3 x hx
        · rw [h4]; rfl
      · cases h
        exact ⟨[], rfl, Nat.zero_le _, (by intro c h; cases h), rfl⟩

/-- A successful `getNumber`: white space, then a first digit and at most `n - 1` more. -/
theorem getNumber_inv {lo hi n : Nat} {s : List Char} {v : Nat} {r : List Char}
    (h : getNumber lo hi n s = some (v, r)) :
    ∃ sp c ds, s = sp ++ c :: (ds ++ r) ∧ AllSpace sp ∧ isDigit c = true ∧ ds.length ≤ n - 1 ∧
      AllDigit ds ∧ v = digitsVal (digitVal c) ds ∧ lo ≤ v ∧ v ≤ hi := by
  obtain ⟨sp, hsp, hall⟩ := dropSpaces_spec s
  unfold getNumber at h
  generalize hd : dropSpaces s = t at h hsp
  cases t with
  | nil => simp at h
  | cons c rest =>
    simp only at h
    split at h
    · rename_i hc
      split at h
      · rename_i hrange
        generalize hl : getNumLoop hi (n - 1) (digitVal c) rest = res at h hrange
        obtain ⟨v', r'⟩ := res
        simp only [Option.some.injEq, Prod.mk.injEq] at h
        obtain ⟨rfl, rfl⟩ := h
        obtain ⟨ds, h1, h2, h3, h4⟩ := getNumLoop_inv hi _ _ _ _ _ hl
        exact ⟨sp, c, ds, by rw [hsp, h1], hall, hc, h2, h3, h4, hrange.1, hrange.2⟩
      · simp at h
    · simp at h

/-- Two-digit fields: the text read is a `NumText` of the value. -/
theorem getNumber2_inv {lo hi : Nat} {s : List Char} {v : Nat} {r : List Char}
    (h : getNumber lo hi 2 s = some (v, r)) :
    ∃ sp t, s = sp ++ (t ++ r) ∧ AllSpace sp ∧ NumText v t ∧ lo ≤ v ∧ v ≤ hi ∧ v < 100 := by
  obtain ⟨sp, c, ds, h1, h2, h3, h4, h5, h6, h7, h8⟩ := getNumber_inv h
  obtain ⟨hc, hc10⟩ := digit_inv h3
  cases ds with
  | nil =>
    refine ⟨sp, [c], by simpa using h1, h2, Or.inr ?_, h7, h8, ?_⟩
    · simp only [digitsVal, List.foldl_nil] at h6
      rw [h6]; exact ⟨hc10, by rw [← hc]⟩
    · simp only [digitsVal, List.foldl_nil] at h6; omega
  | cons c2 ds =>
    cases ds with
    | nil =>
      obtain ⟨hc2, hc210⟩ := digit_inv (h5 c2 (by simp))
      simp only [digitsVal, List.foldl_cons, List.foldl_nil] at h6
      refine ⟨sp, [c, c2], by simpa using h1, h2, Or.inl ?_, h7, h8, by omega⟩
      have e1 : v / 10 = digitVal c := by omega
      have e2 : v % 10 = digitVal c2 := by omega
      simp only [pad2, e1, e2, ← hc, ← hc2]
    | cons c3 ds => simp at h4

/-- The year field, when the value has four digits: exactly `digits4`. -/
theorem getNumber_year_inv {s : List Char} {v : Nat} {r : List Char}
    (h : getNumber 0 9999 4 s = some (v, r)) (hv : 1000 ≤ v) :
    ∃ sp, s = sp ++ (digits4 v ++ r) ∧ AllSpace sp := by
  obtain ⟨sp, c, ds, h1, h2, h3, h4, h5, h6, h7, h8⟩ := getNumber_inv h
  obtain ⟨hc, hc10⟩ := digit_inv h3
  refine ⟨sp, ?_, h2⟩
  rw [h1]
  congr 1
  match ds, h4, h5, h6 with
  | [], _, _, h6 =>
    simp only [digitsVal, List.foldl_nil] at h6; omega
  | [c2], _, h5, h6 =>
    obtain ⟨_, b⟩ := digit_inv (h5 c2 (by simp))
    simp only [digitsVal, List.foldl_cons, List.foldl_nil] at h6; omega
  | [c2, c3], _, h5, h6 =>
    obtain ⟨_, b⟩ := digit_inv (h5 c2 (by simp))
    obtain ⟨_, b'⟩ := digit_inv (h5 c3 (by simp))
    simp only [digitsVal, List.foldl_cons, List.foldl_nil] at h6; omega
  | [c2, c3, c4], _, h5, h6 =>
    obtain ⟨e2, b2⟩ := digit_inv (h5 c2 (by simp))
    obtain ⟨e3, b3⟩ := digit_inv (h5 c3 (by simp))
    obtain ⟨e4, b4⟩ := digit_inv (h5 c4 (by simp))
    simp only [digitsVal, List.foldl_cons, List.foldl_nil] at h6
    have a1 : v / 1000 = digitVal c := by omega
    have a2 : v / 100 % 10 = digitVal c2 := by omega
    have a3 : v / 10 % 10 = digitVal c3 := by omega
    have a4 : v % 10 = digitVal c4 := by omega
    simp only [digits4, a1, a2, a3, a4, ← hc, ← e2, ← e3, ← e4, List.cons_append, List.nil_append]
  | _ :: _ :: _ :: _ :: _, h4, _, _ => simp at h4

/-! ### Inversion of `strptime` steps -/

theorem strptime_year4_inv {fs : List FItem} {s : List Char} {tm : Tm} {x : Tm × List Char}
    (h : strptime (.year4 :: fs) s tm = some x) :
    ∃ v r, getNumber 0 9999 4 s = some (v, r) ∧ strptime fs r { tm with year := v } = some x := by
  simp only [strptime] at h
  split at h
  · rename_i v r hg; exact ⟨v, r, hg, h⟩
  · cases h

theorem strptime_year2_inv {fs : List FItem} {s : List Char} {tm : Tm} {x : Tm × List Char}
    (h : strptime (.year2 :: fs) s tm = some x) :
    ∃ v r, getNumber 0 99 2 s = some (v, r) ∧
      strptime fs r { tm with year := if v ≥ 69 then 1900 + v else 2000 + v } = some x := by
  simp only [strptime] at h
  split at h
  · rename_i v r hg; exact ⟨v, r, hg, h⟩
  · cases h

theorem strptime_month_inv {fs : List FItem} {s : List Char} {tm : Tm} {x : Tm × List Char}
    (h : strptime (.month :: fs) s tm = some x) :
    ∃ v r, getNumber 1 12 2 s = some (v, r) ∧ strptime fs r { tm with mon := v } = some x := by
  simp only [strptime] at h
  split at h
  · rename_i v r hg; exact ⟨v, r, hg, h⟩
  · cases h

theorem strptime_day_inv {fs : List FItem} {s : List Char} {tm : Tm} {x : Tm × List Char}
    (h : strptime (.day :: fs) s tm = some x) :
    ∃ v r, getNumber 1 31 2 s = some (v, r) ∧ strptime fs r { tm with mday := v } = some x := by
  simp only [strptime] at h
  split at h
  · rename_i v r hg; exact ⟨v, r, hg, h⟩
  · cases h

theorem strptime_lit_inv {c : Char} (hc : isSpace c = false) {fs : List FItem} {s : List Char}
    {tm : Tm} {x : Tm × List Char} (h : strptime (.lit c :: fs) s tm = some x) :
    ∃ s', s = c :: s' ∧ strptime fs s' tm = some x := by
  simp only [strptime, hc, Bool.false_eq_true, if_false] at h
  split at h
  · rename_i c' s'
    split at h
    · rename_i hcc; exact ⟨s', by rw [hcc], h⟩
    · cases h
  · cases h

theorem strptime_nil_inv {s : List Char} {tm : Tm} {x : Tm × List Char}
    (h : strptime [] s tm = some x) : x = (tm, s) := by
  simp only [strptime] at h; cases h; rfl

/-! ### Inversion of the comparison loop -/

/-- Two digits of the re-formatted text never match white space in the input. -/
theorem cmpLoop_digits_space {A B c : Char} (hA : isDigit A = true) (hB : isDigit B = true)
    (hc : isSpace c = true) (P Q : List Char) : cmpLoop (A :: B :: P) (c :: Q) = false := by
  have h1 : A ≠ c := fun h => by rw [h, not_digit_of_space hc] at hA; cases hA
  have h2 : B ≠ c := fun h => by rw [h, not_digit_of_space hc] at hB; cases hB
  rw [cmpLoop.eq_def]
  simp [h1, h2]

theorem cmpLoop_nil_left {q : List Char} (h : cmpLoop [] q = true) : q = [] := by
  rw [cmpLoop.eq_def] at h
  simpa using h

theorem pad2_eq (k : Nat) : pad2 k = digitChar (k / 10) :: digitChar (k % 10) :: [] := rfl

/-- In front of a two-digit field the input has no white space. -/
theorem cmpLoop_pad2_nospace {k : Nat} {P sp Q : List Char} (hsp : AllSpace sp)
    (h : cmpLoop (pad2 k ++ P) (sp ++ Q) = true) : sp = [] := by
  cases sp with
  | nil => rfl
  | cons c sp =>
    have hc := hsp c (by simp)
    rw [pad2_eq] at h
    simp only [List.cons_append, List.nil_append] at h
    rw [cmpLoop_digits_space (digitChar_isDigit_any _) (digitChar_isDigit_any _) hc] at h
    cases h

theorem cmpLoop_digits4_nospace {y : Nat} {P sp Q : List Char} (hsp : AllSpace sp)
    (h : cmpLoop (digits4 y ++ P) (sp ++ Q) = true) : sp = [] := by
  cases sp with
  | nil => rfl
  | cons c sp =>
    have hc := hsp c (by simp)
    simp only [digits4, List.cons_append, List.nil_append] at h
    rw [cmpLoop_digits_space (digitChar_isDigit_any _) (digitChar_isDigit_any _) hc] at h
    cases h

/-! ### Inversion of the separator normalisation -/

theorem allDigit_digits4 (y : Nat) : AllDigit (digits4 y) := by
  intro c hc
  simp only [digits4, List.mem_cons, List.not_mem_nil, or_false] at hc
  rcases hc with h | h | h | h <;> rw [h] <;> exact digitChar_isDigit_any _

theorem allDigit_numText {k : Nat} {t : List Char} (ht : NumText k t) : AllDigit t := by
  intro c hc
  rcases ht with rfl | ⟨_, rfl⟩
  · simp only [pad2, List.mem_cons, List.not_mem_nil, or_false] at hc
    rcases hc with h | h <;> rw [h] <;> exact digitChar_isDigit_any _
  · simp only [List.mem_cons, List.not_mem_nil, or_false] at hc
    rw [hc]; exact digitChar_isDigit_any _

theorem normChar_inv_of_digit {c : Char} (h : isDigit (normChar c) = true) : normChar c = c := by
  rw [normChar_eq] at h ⊢
  split
  · rename_i hc; rw [if_pos hc] at h; exact absurd h (by decide)
  · rfl

/-- A normalised text made of digits was not changed by the normalisation. -/
theorem normSeps_inv_digits : ∀ (l t : List Char), AllDigit t → normSeps l = t → l = t := by
  intro l
  induction l with
  | nil => intro t _ h; simpa [normSeps] using h
  | cons c l ih =>
    intro t ht h
    cases t with
    | nil => simp [normSeps] at h
    | cons c' t =>
      simp only [normSeps, List.map_cons, List.cons.injEq] at h
      obtain ⟨h1, h2⟩ := h
      have hd : isDigit (normChar c) = true := by rw [h1]; exact ht c' (by simp)
      have := normChar_inv_of_digit hd
      rw [ih t (fun x hx => ht x (by simp [hx])) h2, ← h1, this]

theorem normSeps_split {l a b : List Char} (h : normSeps l = a ++ b) :
    ∃ l1 l2, l = l1 ++ l2 ∧ normSeps l1 = a ∧ normSeps l2 = b := by
  unfold normSeps at *
  obtain ⟨l1, l2, h1, h2, h3⟩ := List.map_eq_append_iff.1 h
  exact ⟨l1, l2, h1, h2, h3⟩

theorem normSeps_cons_inv {l : List Char} {c : Char} {b : List Char} (h : normSeps l = c :: b) :
    ∃ c' l', l = c' :: l' ∧ normChar c' = c ∧ normSeps l' = b := by
  unfold normSeps at *
  obtain ⟨c', l', h1, h2, h3⟩ := List.map_eq_cons_iff.1 h
  exact ⟨c', l', h1, h2, h3⟩

theorem normSeps_inv_full {s : List Char} {y : Nat} {mt dt : List Char} {m d : Nat}
    (hmt : NumText m mt) (hdt : NumText d dt)
    (h : normSeps s = digits4 y ++ '/' :: (mt ++ '/' :: dt)) :
    ∃ s1 s2, IsSep s1 ∧ IsSep s2 ∧ s = digits4 y ++ s1 :: (mt ++ s2 :: dt) := by
  obtain ⟨l1, l2, rfl, h1, h2⟩ := normSeps_split h
  obtain ⟨s1, l3, rfl, hs1, h3⟩ := normSeps_cons_inv h2
  obtain ⟨l4, l5, rfl, h4, h5⟩ := normSeps_split h3
  obtain ⟨s2, l6, rfl, hs2, h6⟩ := normSeps_cons_inv h5
  rw [normSeps_inv_digits l1 _ (allDigit_digits4 y) h1,
    normSeps_inv_digits l4 _ (allDigit_numText hmt) h4,
    normSeps_inv_digits l6 _ (allDigit_numText hdt) h6]
  exact ⟨s1, s2, normChar_inv_slash hs1, normChar_inv_slash hs2, rfl⟩

theorem normSeps_inv_ym {s : List Char} {y : Nat} {mt : List Char} {m : Nat}
    (hmt : NumText m mt) (h : normSeps s = digits4 y ++ '/' :: mt) :
    ∃ s1, IsSep s1 ∧ s = digits4 y ++ s1 :: mt := by
  obtain ⟨l1, l2, rfl, h1, h2⟩ := normSeps_split h
  obtain ⟨s1, l3, rfl, hs1, h3⟩ := normSeps_cons_inv h2
  rw [normSeps_inv_digits l1 _ (allDigit_digits4 y) h1,
    normSeps_inv_digits l3 _ (allDigit_numText hmt) h3]
  exact ⟨s1, normChar_inv_slash hs1, rfl⟩

theorem normSeps_inv_md {s : List Char} {mt dt : List Char} {m d : Nat}
    (hmt : NumText m mt) (hdt : NumText d dt) (h : normSeps s = mt ++ '/' :: dt) :
    ∃ s1, IsSep s1 ∧ s = mt ++ s1 :: dt := by
  obtain ⟨l1, l2, rfl, h1, h2⟩ := normSeps_split h
  obtain ⟨s1, l3, rfl, hs1, h3⟩ := normSeps_cons_inv h2
  rw [normSeps_inv_digits l1 _ (allDigit_numText hmt) h1,
    normSeps_inv_digits l3 _ (allDigit_numText hdt) h3]
  exact ⟨s1, normChar_inv_slash hs1, rfl⟩

/-! ### Soundness of each reader -/

theorem strptime_ymd_inv {buf : List Char} {tm0 tm : Tm} {rest : List Char}
    (h : strptime [.year4, .lit '/', .month, .lit '/', .day] buf tm0 = some (tm, rest)) :
    ∃ y m d r1 r3, getNumber 0 9999 4 buf = some (y, '/' :: r1) ∧
      getNumber 1 12 2 r1 = some (m, '/' :: r3) ∧ getNumber 1 31 2 r3 = some (d, rest) ∧
      tm = { year := y, mon := m, mday := d } := by
  obtain ⟨y, r0, h1, h⟩ := strptime_year4_inv h
  obtain ⟨r1, rfl, h⟩ := strptime_lit_inv isSpace_slash h
  obtain ⟨m, r2, h2, h⟩ := strptime_month_inv h
  obtain ⟨r3, rfl, h⟩ := strptime_lit_inv isSpace_slash h
  obtain ⟨d, r4, h3, h⟩ := strptime_day_inv h
  have := strptime_nil_inv h
  simp only [Prod.mk.injEq] at this
  obtain ⟨rfl, rfl⟩ := this
  exact ⟨y, m, d, r1, r3, h1, h2, h3, rfl⟩

theorem strptime_ym_inv {buf : List Char} {tm0 tm : Tm} {rest : List Char}
    (h : strptime [.year4, .lit '/', .month] buf tm0 = some (tm, rest)) :
    ∃ y m r1, getNumber 0 9999 4 buf = some (y, '/' :: r1) ∧
      getNumber 1 12 2 r1 = some (m, rest) ∧ tm = { year := y, mon := m, mday := tm0.mday } := by
  obtain ⟨y, r0, h1, h⟩ := strptime_year4_inv h
  obtain ⟨r1, rfl, h⟩ := strptime_lit_inv isSpace_slash h
  obtain ⟨m, r2, h2, h⟩ := strptime_month_inv h
  have := strptime_nil_inv h
  simp only [Prod.mk.injEq] at this
  obtain ⟨rfl, rfl⟩ := this
  exact ⟨y, m, r1, h1, h2, rfl⟩

theorem strptime_md_inv {buf : List Char} {tm0 tm : Tm} {rest : List Char}
    (h : strptime [.month, .lit '/', .day] buf tm0 = some (tm, rest)) :
    ∃ m d r3, getNumber 1 12 2 buf = some (m, '/' :: r3) ∧ getNumber 1 31 2 r3 = some (d, rest) ∧
      tm = { year := tm0.year, mon := m, mday := d } := by
  obtain ⟨m, r2, h2, h⟩ := strptime_month_inv h
  obtain ⟨r3, rfl, h⟩ := strptime_lit_inv isSpace_slash h
  obtain ⟨d, r4, h3, h⟩ := strptime_day_inv h
  have := strptime_nil_inv h
  simp only [Prod.mk.injEq] at this
  obtain ⟨rfl, rfl⟩ := this
  exact ⟨m, d, r3, h2, h3, rfl⟩

theorem cmp_md_inv {m d : Nat} (hm1 : 1 ≤ m) (hd1 : 1 ≤ d) {sp1 sp2 mt dt r4 : List Char}
    (hs1 : AllSpace sp1) (hs2 : AllSpace sp2) (hmt : NumText m mt) (hdt : NumText d dt)
    (h : cmpLoop (pad2 m ++ '/' :: pad2 d) (sp1 ++ (mt ++ '/' :: (sp2 ++ (dt ++ r4)))) = true) :
    sp1 = [] ∧ sp2 = [] ∧ r4 = [] := by
  have e1 := cmpLoop_pad2_nospace hs1 h
  subst e1
  rw [List.nil_append, cmpLoop_numText hm1 hmt, cmpLoop_cons_same] at h
  rw [← List.append_nil (pad2 d)] at h
  have e2 := cmpLoop_pad2_nospace hs2 h
  subst e2
  rw [List.nil_append, cmpLoop_numText hd1 hdt] at h
  exact ⟨rfl, rfl, cmpLoop_nil_left h⟩

theorem cmp_full_inv {y m d : Nat} (hm1 : 1 ≤ m) (hd1 : 1 ≤ d) {sp0 sp1 sp2 mt dt r4 : List Char}
    (hs0 : AllSpace sp0) (hs1 : AllSpace sp1) (hs2 : AllSpace sp2)
    (hmt : NumText m mt) (hdt : NumText d dt)
    (h : cmpLoop (digits4 y ++ '/' :: (pad2 m ++ '/' :: pad2 d))
      (sp0 ++ (digits4 y ++ '/' :: (sp1 ++ (mt ++ '/' :: (sp2 ++ (dt ++ r4)))))) = true) :
    sp0 = [] ∧ sp1 = [] ∧ sp2 = [] ∧ r4 = [] := by
  have e0 := cmpLoop_digits4_nospace hs0 h
  subst e0
  rw [List.nil_append, cmpLoop_append_same, cmpLoop_cons_same] at h
  exact ⟨rfl, cmp_md_inv hm1 hd1 hs1 hs2 hmt hdt h⟩

theorem cmp_ym_inv {y m : Nat} (hm1 : 1 ≤ m) {sp0 sp1 mt r2 : List Char}
    (hs0 : AllSpace sp0) (hs1 : AllSpace sp1) (hmt : NumText m mt)
    (h : cmpLoop (digits4 y ++ '/' :: pad2 m) (sp0 ++ (digits4 y ++ '/' :: (sp1 ++ (mt ++ r2)))) = true) :
    sp0 = [] ∧ sp1 = [] ∧ r2 = [] := by
  have e0 := cmpLoop_digits4_nospace hs0 h
  subst e0
  rw [List.nil_append, cmpLoop_append_same, cmpLoop_cons_same] at h
  rw [← List.append_nil (pad2 m)] at h
  have e1 := cmpLoop_pad2_nospace hs1 h
  subst e1
  rw [List.nil_append, cmpLoop_numText hm1 hmt] at h
  exact ⟨rfl, rfl, cmpLoop_nil_left h⟩

theorem dateFromTm_ok {tm : Tm} {n : Int} (h : dateFromTm tm = .ok n) :
    1400 ≤ tm.year ∧ tm.year ≤ 9999 ∧ validYMD tm.year tm.mon tm.mday = true ∧
      n = ofYMD tm.year tm.mon tm.mday := by
  unfold dateFromTm at h
  split at h
  · cases h
  · rename_i hy
    split at h
    · rename_i hv
      cases h
      exact ⟨by omega, by omega, hv, rfl⟩
    · cases h

/-- What `routineCore` has established when it accepts. -/
theorem routineCore_some_inv {cur : Int × Int} {raw : List Char} {fmt : List FItem}
    {buf : List Char} {n : Int} (h : routineCore cur raw fmt buf = .ok (some n)) :
    ∃ tm rest n0,
      strptime fmt buf { year := cur.1, mon := 1, mday := 1 } = some (tm, rest) ∧
      dateFromTm tm = .ok n0 ∧
      cmpLoop (strftime fmt tm.year tm.mon tm.mday (weekday n0).toNat) buf = true ∧
      (if hasYearRaw raw then n = n0
       else if (tm.mon : Int) > cur.2 then minusYear n0 = .ok n else n = n0) := by
  unfold routineCore at h
  split at h
  · cases h
  · rename_i tm rest hS
    split at h
    · cases h
    · rename_i n0 hD
      split at h
      · rename_i hC
        refine ⟨tm, rest, n0, hS, hD, hC, ?_⟩
        split at h
        · rename_i hY; simp only [hY, if_true]; cases h; rfl
        · rename_i hY
          simp only [hY, Bool.false_eq_true, if_false]
          split at h
          · rename_i hm
            rw [if_pos hm]
            cases hmy : minusYear n0 with
            | error e => rw [hmy] at h; cases h
            | ok v => rw [hmy] at h; cases h; rfl
          · rename_i hm
            rw [if_neg hm]; cases h; rfl
      · cases h

theorem routineCore_none {cur : Int × Int} {raw : List Char} {fmt : List FItem}
    {buf : List Char} (h : routineCore cur raw fmt buf = .ok none) :
    strptime fmt buf { year := cur.1, mon := 1, mday := 1 } = none := by
  unfold routineCore at h
  split at h
  · rename_i hS; exact hS
  · split at h
    · cases h
    · split at h
      · split at h
        · cases h
        · split at h
          · cases hm : minusYear _ <;> rw [hm] at h <;> cases h
          · cases h
      · cases h

/-- `routine` under the default configuration reduces to `routineCore` on the normalised text. -/
theorem routine_inv {cur : Int × Int} {raw s : List Char} {fmt : List FItem} {r : Option Int}
    (hf : parseFmt raw = some fmt) (h : routine true cur raw s = .ok r) :
    s.length ≤ 127 ∧ routineCore cur raw fmt (normSeps s) = .ok r := by
  unfold routine at h
  split at h
  · cases h
  · rename_i hl
    rw [hf] at h
    simp only [if_true] at h
    refine ⟨?_, h⟩
    simp [Gen.maxDateLen] at hl; omega

theorem core_ymd_sound {cur : Int × Int} {buf : List Char} {n : Int}
    (h : routineCore cur "%Y/%m/%d".toList [.year4, .lit '/', .month, .lit '/', .day] buf =
      .ok (some n)) :
    ∃ y m d : Nat, 1400 ≤ y ∧ y ≤ 9999 ∧ validYMD y m d = true ∧ n = ofYMD y m d ∧
      ∃ mt dt, NumText m mt ∧ NumText d dt ∧ buf = digits4 y ++ '/' :: (mt ++ '/' :: dt) := by
  obtain ⟨tm, rest, n0, hS, hD, hC, hN⟩ := routineCore_some_inv h
  have hH : hasYearRaw "%Y/%m/%d".toList = true := by decide
  simp only [hH, if_true] at hN
  subst hN
  obtain ⟨y, m, d, r1, r3, g1, g2, g3, rfl⟩ := strptime_ymd_inv hS
  obtain ⟨hy1, hy2, hv, rfl⟩ := dateFromTm_ok hD
  simp only at hy1 hy2 hv
  obtain ⟨sp0, e0, a0⟩ := getNumber_year_inv g1 (by omega)
  obtain ⟨sp1, mt, e1, a1, hmt, hm1, hm12, -⟩ := getNumber2_inv g2
  obtain ⟨sp2, dt, e2, a2, hdt, hd1, hd31, -⟩ := getNumber2_inv g3
  subst e2
  subst e1
  subst e0
  simp only [strftime, List.flatMap_cons, List.flatMap_nil, fmtItem, yearText_nat y (by omega),
    List.append_nil, List.cons_append, List.nil_append] at hC
  obtain ⟨rfl, rfl, rfl, rfl⟩ := cmp_full_inv hm1 hd1 a0 a1 a2 hmt hdt hC
  refine ⟨y, m, d, by omega, by omega, hv, rfl, mt, dt, hmt, hdt, ?_⟩
  simp

theorem core_ym_sound {cur : Int × Int} {buf : List Char} {n : Int}
    (h : routineCore cur "%Y/%m".toList [.year4, .lit '/', .month] buf = .ok (some n)) :
    ∃ y m : Nat, 1400 ≤ y ∧ y ≤ 9999 ∧ 1 ≤ m ∧ m ≤ 12 ∧ n = ofYMD y m 1 ∧
      ∃ mt, NumText m mt ∧ buf = digits4 y ++ '/' :: mt := by
  obtain ⟨tm, rest, n0, hS, hD, hC, hN⟩ := routineCore_some_inv h
  have hH : hasYearRaw "%Y/%m".toList = true := by decide
  simp only [hH, if_true] at hN
  subst hN
  obtain ⟨y, m, r1, g1, g2, rfl⟩ := strptime_ym_inv hS
  obtain ⟨hy1, hy2, hv, rfl⟩ := dateFromTm_ok hD
  simp only at hy1 hy2 hv
  obtain ⟨sp0, e0, a0⟩ := getNumber_year_inv g1 (by omega)
  obtain ⟨sp1, mt, e1, a1, hmt, hm1, hm12, -⟩ := getNumber2_inv g2
  subst e1
  subst e0
  simp only [strftime, List.flatMap_cons, List.flatMap_nil, fmtItem, yearText_nat y (by omega),
    List.append_nil, List.cons_append, List.nil_append] at hC
  obtain ⟨rfl, rfl, rfl⟩ := cmp_ym_inv hm1 a0 a1 hmt hC
  refine ⟨y, m, by omega, by omega, hm1, hm12, rfl, mt, hmt, ?_⟩
  simp

theorem core_md_sound {cur : Int × Int} {buf : List Char} {n : Int}
    (h : routineCore cur "%m/%d".toList [.month, .lit '/', .day] buf = .ok (some n)) :
    ∃ m d : Nat, 1400 ≤ cur.1 ∧ cur.1 ≤ 9999 ∧ validYMD cur.1 m d = true ∧
      (if (m : Int) > cur.2 then minusYear (ofYMD cur.1 m d) = .ok n else n = ofYMD cur.1 m d) ∧
      ∃ mt dt, NumText m mt ∧ NumText d dt ∧ buf = mt ++ '/' :: dt := by
  obtain ⟨tm, rest, n0, hS, hD, hC, hN⟩ := routineCore_some_inv h
  have hH : hasYearRaw "%m/%d".toList = false := by decide
  simp only [hH, Bool.false_eq_true, if_false] at hN
  obtain ⟨m, d, r3, g2, g3, rfl⟩ := strptime_md_inv hS
  obtain ⟨hy1, hy2, hv, rfl⟩ := dateFromTm_ok hD
  simp only at hy1 hy2 hv hN
  obtain ⟨sp1, mt, e1, a1, hmt, hm1, hm12, -⟩ := getNumber2_inv g2
  obtain ⟨sp2, dt, e2, a2, hdt, hd1, hd31, -⟩ := getNumber2_inv g3
  subst e2
  subst e1
  simp only [strftime, List.flatMap_cons, List.flatMap_nil, fmtItem,
    List.append_nil, List.cons_append, List.nil_append] at hC
  obtain ⟨rfl, rfl, rfl⟩ := cmp_md_inv hm1 hd1 a1 a2 hmt hdt hC
  refine ⟨m, d, hy1, hy2, hv, hN, mt, dt, hmt, hdt, ?_⟩
  simp

/-! ### The two readers that never decide under the default configuration -/

theorem dropSpaces_append_spaces {sp : List Char} (hsp : AllSpace sp) (s : List Char) :
    dropSpaces (sp ++ s) = dropSpaces s := by
  induction sp with
  | nil => rfl
  | cons c sp ih =>
    have hc := hsp c (by simp)
    simp only [List.cons_append, dropSpaces, hc, if_true]
    exact ih (fun x hx => hsp x (by simp [hx]))

theorem getNumber_append_spaces {sp : List Char} (hsp : AllSpace sp) (lo hi n : Nat) (s : List Char) :
    getNumber lo hi n (sp ++ s) = getNumber lo hi n s := by
  unfold getNumber; rw [dropSpaces_append_spaces hsp]

/-- A one- or two-digit number followed by a non-digit reads the same with a four-digit field. -/
theorem getNumber4_numText (k : Nat) (hk : k < 100) {t rest : List Char} (ht : NumText k t)
    (hr : NoDigitHead rest) : getNumber 0 9999 4 (t ++ rest) = some (k, rest) := by
  rcases ht with rfl | ⟨h10, rfl⟩
  · have h1 : k / 10 < 10 := by omega
    have h2 : k % 10 < 10 := by omega
    have h3 : k / 10 * 10 ≤ 9999 := by omega
    have h4 : k / 10 * 10 + k % 10 = k := by omega
    have h5 : k ≤ 9999 := by omega
    simp [getNumber, pad2, dropSpaces_digit (isDigit_digitChar h1), isDigit_digitChar h1,
      isDigit_digitChar h2, digitVal_digitChar h1, digitVal_digitChar h2, getNumLoop, h3, h4,
      getNumLoop_stop _ _ _ hr, h5]
  · exact getNumber_one 0 9999 4 k (Nat.zero_le _) (by omega) h10 hr

/-- Whatever `%y/%m/%d` can read, `%Y/%m/%d` (tried earlier) reads too. -/
theorem y2md_implies_ymd {buf : List Char} {tm0 tm0' : Tm} {x : Tm × List Char}
    (h : strptime [.year2, .lit '/', .month, .lit '/', .day] buf tm0 = some x) :
    strptime [.year4, .lit '/', .month, .lit '/', .day] buf tm0' ≠ none := by
  obtain ⟨v, r0, h1, h⟩ := strptime_year2_inv h
  obtain ⟨r1, rfl, h⟩ := strptime_lit_inv isSpace_slash h
  obtain ⟨m, r2, h2, h⟩ := strptime_month_inv h
  obtain ⟨r3, rfl, h⟩ := strptime_lit_inv isSpace_slash h
  obtain ⟨d, r4, h3, h⟩ := strptime_day_inv h
  obtain ⟨sp, t, e, hsp, ht, -, -, hv⟩ := getNumber2_inv h1
  have g : getNumber 0 9999 4 buf = some (v, '/' :: r1) := by
    rw [e, getNumber_append_spaces hsp]
    exact getNumber4_numText v hv ht (noDigitHead_slash r1)
  simp [strptime, g, isSpace_slash, h2, h3]

theorem mem_normSeps_ne_dash {s : List Char} {x : Char} (hx : x ∈ normSeps s) : x ≠ '-' := by
  unfold normSeps at hx
  obtain ⟨c, -, rfl⟩ := List.mem_map.1 hx
  exact normChar_ne_dash c

/-- `%Y-%m-%d` never matches a normalised text (it has no `-` left). -/
theorem ymd_dash_dead (s : List Char) (tm0 : Tm) :
    strptime [.year4, .lit '-', .month, .lit '-', .day] (normSeps s) tm0 = none := by
  cases hS : strptime [.year4, .lit '-', .month, .lit '-', .day] (normSeps s) tm0 with
  | none => rfl
  | some x =>
    exfalso
    obtain ⟨v, r0, h1, h⟩ := strptime_year4_inv hS
    obtain ⟨r1, rfl, -⟩ := strptime_lit_inv (by decide) h
    obtain ⟨sp, c, ds, e, -⟩ := getNumber_inv h1
    have : '-' ∈ normSeps s := by rw [e]; simp
    exact mem_normSeps_ne_dash this rfl

/-! ### Soundness of the whole reader (default configuration) -/

/-- `parseDate` accepts nothing but the three families of spellings, each with its meaning. -/
theorem parseDate_sound (cur : Int × Int) (s : List Char) (n : Int)
    (h : parseDate none cur s = .ok n) :
    (∃ y m d : Nat, 1400 ≤ y ∧ y ≤ 9999 ∧ validYMD y m d = true ∧ n = ofYMD y m d ∧
        FullSpelling y m d s) ∨
    (∃ y m : Nat, 1400 ≤ y ∧ y ≤ 9999 ∧ 1 ≤ m ∧ m ≤ 12 ∧ n = ofYMD y m 1 ∧ YMSpelling y m s) ∨
    (∃ m d : Nat, 1400 ≤ cur.1 ∧ cur.1 ≤ 9999 ∧ validYMD cur.1 m d = true ∧
        (if (m : Int) > cur.2 then minusYear (ofYMD cur.1 m d) = .ok n else n = ofYMD cur.1 m d) ∧
        MDSpelling m d s) := by
  simp only [parseDate, readersFor, Option.isNone_none, Gen.convertSeparatorsDefault, Bool.and_self,
    Gen.dateReaders, List.map, readLoop] at h
  -- reader 1: %m/%d
  split at h
  · cases h
  · rename_i n1 h1
    cases h
    obtain ⟨-, hc⟩ := routine_inv parseFmt_md h1
    obtain ⟨m, d, hy1, hy2, hv, hn, mt, dt, hmt, hdt, hb⟩ := core_md_sound hc
    obtain ⟨s1, hs1, rfl⟩ := normSeps_inv_md hmt hdt hb
    exact Or.inr (Or.inr ⟨m, d, hy1, hy2, hv, hn, s1, mt, dt, hs1, hmt, hdt, rfl⟩)
  · -- reader 2: %Y/%m/%d
    rename_i h1
    split at h
    · cases h
    · rename_i n2 h2
      cases h
      obtain ⟨-, hc⟩ := routine_inv parseFmt_ymd h2
      obtain ⟨y, m, d, hy1, hy2, hv, hn, mt, dt, hmt, hdt, hb⟩ := core_ymd_sound hc
      obtain ⟨s1, s2, hs1, hs2, rfl⟩ := normSeps_inv_full hmt hdt hb
      exact Or.inl ⟨y, m, d, hy1, hy2, hv, hn, s1, s2, mt, dt, hs1, hs2, hmt, hdt, rfl⟩
    · -- reader 3: %Y/%m
      rename_i h2
      split at h
      · cases h
      · rename_i n3 h3
        cases h
        obtain ⟨-, hc⟩ := routine_inv parseFmt_ym h3
        obtain ⟨y, m, hy1, hy2, hm1, hm12, hn, mt, hmt, hb⟩ := core_ym_sound hc
        obtain ⟨s1, hs1, rfl⟩ := normSeps_inv_ym hmt hb
        exact Or.inr (Or.inl ⟨y, m, hy1, hy2, hm1, hm12, hn, s1, mt, hs1, hmt, rfl⟩)
      · -- reader 4: %y/%m/%d cannot succeed where reader 2 declined
        rename_i h3
        split at h
        · cases h
        · rename_i n4 h4
          exfalso
          obtain ⟨-, hc2⟩ := routine_inv parseFmt_ymd h2
          obtain ⟨-, hc4⟩ := routine_inv parseFmt_y2md h4
          obtain ⟨tm, rest, n0, hS, -⟩ := routineCore_some_inv hc4
          exact y2md_implies_ymd hS (routineCore_none hc2)
        · -- reader 5: %Y-%m-%d never matches a normalised text
          rename_i h4
          split at h
          · cases h
          · rename_i n5 h5
            exfalso
            obtain ⟨-, hc5⟩ := routine_inv parseFmt_ymd_dash h5
            obtain ⟨tm, rest, n0, hS, -⟩ := routineCore_some_inv hc5
            rw [ymd_dash_dead] at hS
            cases hS
          · cases h

/-! ### Spellings are unambiguous (used to turn soundness into rejection theorems) -/

theorem sep_not_digit {c : Char} (h : IsSep c) : isDigit c = false := by
  rcases h with h | h | h <;> subst h <;> decide

theorem digitChar_ne_sep (k : Nat) {c : Char} (h : IsSep c) : digitChar k ≠ c := by
  intro e
  have := sep_not_digit h
  rw [← e, digitChar_isDigit_any] at this
  cases this

theorem digits4_inj {y y' : Nat} (h1 : y ≤ 9999) (h2 : y' ≤ 9999) (h : digits4 y = digits4 y') :
    y = y' := by
  simp only [digits4, List.cons.injEq, and_true] at h
  obtain ⟨a, b, c, e⟩ := h
  have a' := digitChar_inj (by omega) (by omega) a
  have b' := digitChar_inj (by omega) (by omega) b
  have c' := digitChar_inj (by omega) (by omega) c
  have e' := digitChar_inj (by omega) (by omega) e
  omega

theorem pad2_inj {k k' : Nat} (h1 : k < 100) (h2 : k' < 100) (h : pad2 k = pad2 k') : k = k' := by
  simp only [pad2, List.cons.injEq, and_true] at h
  obtain ⟨a, b⟩ := h
  have a' := digitChar_inj (by omega) (by omega) a
  have b' := digitChar_inj (by omega) (by omega) b
  omega

/-- A number text followed by a separator determines the number and what follows. -/
theorem numText_sep_unique {k k' : Nat} {t t' r r' : List Char} {c c' : Char}
    (hk : k < 100) (hk' : k' < 100) (ht : NumText k t) (ht' : NumText k' t')
    (hc : IsSep c) (hc' : IsSep c') (h : t ++ c :: r = t' ++ c' :: r') : k = k' ∧ r = r' := by
  rcases ht with rfl | ⟨h10, rfl⟩ <;> rcases ht' with rfl | ⟨h10', rfl⟩
  · simp only [pad2, List.cons_append, List.nil_append, List.cons.injEq] at h
    obtain ⟨a, b, -, e⟩ := h
    have a' := digitChar_inj (by omega) (by omega) a
    have b' := digitChar_inj (by omega) (by omega) b
    exact ⟨by omega, e⟩
  · simp only [pad2, List.cons_append, List.nil_append, List.cons.injEq] at h
    exact absurd h.2.1 (digitChar_ne_sep _ hc')
  · simp only [pad2, List.cons_append, List.nil_append, List.cons.injEq] at h
    exact absurd h.2.1.symm (digitChar_ne_sep _ hc)
  · simp only [List.cons_append, List.nil_append, List.cons.injEq] at h
    exact ⟨digitChar_inj h10 h10' h.1, h.2.2⟩

theorem numText_unique {k k' : Nat} {t : List Char} (hk : k < 100) (hk' : k' < 100)
    (ht : NumText k t) (ht' : NumText k' t) : k = k' := by
  rcases ht with rfl | ⟨h10, rfl⟩ <;> rcases ht' with h | ⟨h10', h⟩
  · exact pad2_inj hk hk' h
  · simp [pad2] at h
  · simp [pad2] at h
  · simp only [List.cons.injEq, and_true] at h
    exact digitChar_inj h10 h10' h

/-- The first five fields of two full-shape texts. -/
theorem full_prefix_unique {y y' m m' : Nat} {s1 s1' s2 s2' : Char} {mt mt' r r' : List Char}
    (hy : y ≤ 9999) (hy' : y' ≤ 9999) (hm : m < 100) (hm' : m' < 100)
    (hmt : NumText m mt) (hmt' : NumText m' mt') (h2 : IsSep s2) (h2' : IsSep s2')
    (h : digits4 y ++ s1 :: (mt ++ s2 :: r) = digits4 y' ++ s1' :: (mt' ++ s2' :: r')) :
    y = y' ∧ m = m' ∧ r = r' := by
  obtain ⟨e1, e2⟩ := List.append_inj h (by simp [digits4])
  simp only [List.cons.injEq] at e2
  obtain ⟨em, er⟩ := numText_sep_unique hm hm' hmt hmt' h2 h2' e2.2
  exact ⟨digits4_inj hy hy' e1, em, er⟩

/-- A full-shape text (with anything after the month separator) is not a year-month spelling. -/
theorem full_not_ym {y y' m' : Nat} {s1 s2 : Char} {mt r s : List Char} (h2 : IsSep s2)
    (hs : s = digits4 y ++ s1 :: (mt ++ s2 :: r)) (h : YMSpelling y' m' s) : False := by
  obtain ⟨s1', mt', -, hmt', e⟩ := h
  rw [hs] at e
  obtain ⟨-, e2⟩ := List.append_inj e (by simp [digits4])
  simp only [List.cons.injEq] at e2
  have : s2 ∈ mt' := by rw [← e2.2]; simp
  have hd := allDigit_numText hmt' s2 this
  rw [sep_not_digit h2] at hd
  cases hd

/-- A text starting with a four-digit year is not a month-day spelling. -/
theorem full_not_md {y m' d' : Nat} {r s : List Char} (hs : s = digits4 y ++ r)
    (h : MDSpelling m' d' s) : False := by
  obtain ⟨s1', mt', dt', hs1', hmt', -, e⟩ := h
  rw [hs] at e
  rcases hmt' with rfl | ⟨-, rfl⟩
  · simp only [digits4, pad2, List.cons_append, List.nil_append, List.cons.injEq] at e
    exact digitChar_ne_sep _ hs1' e.2.2.1
  · simp only [digits4, List.cons_append, List.nil_append, List.cons.injEq] at e
    exact digitChar_ne_sep _ hs1' e.2.1

end Ledger.DateParse
