/- Helper lemmas for C18 (escaping layers and their readers). Core Lean only. -/
import LedgerModel.Model.Emit

namespace Ledger.Emit

/-! ## generic facts -/

theorem escape_append (ps : List (Char × Str)) (a b : Str) :
    escape ps (a ++ b) = escape ps a ++ escape ps b := by
  induction a with
  | nil => rfl
  | cons c a ih => simp [escape, ih]

theorem escChar_of_lookup_none {ps : List (Char × Str)} {c : Char} (h : ps.lookup c = none) :
    escChar ps c = [c] := by
  simp [escChar, h]

theorem lookup_none_of_keys {ps : List (Char × Str)} {c : Char}
    (h : ∀ p ∈ ps, p.1 ≠ c) : ps.lookup c = none := by
  induction ps with
  | nil => rfl
  | cons p ps ih =>
    obtain ⟨k, v⟩ := p
    have hk : k ≠ c := h (k, v) (by simp)
    have : (c == k) = false := by
      simp only [beq_eq_false_iff_ne, ne_eq]; exact fun e => hk e.symm
    simp only [List.lookup, this]
    exact ih (fun p hp => h p (by simp [hp]))

theorem escChar_id_of_keys (ps : List (Char × Str)) (K : List Char)
    (hk : ps.all (fun p => K.contains p.1) = true) (c : Char) (hc : c ∉ K) : escChar ps c = [c] := by
  apply escChar_of_lookup_none
  apply lookup_none_of_keys
  intro p hp e
  have := List.all_eq_true.mp hk p hp
  simp only [List.contains_iff_mem] at this
  exact hc (e ▸ this)

/-! ## CSV -/

theorem pushStr_pushRow (s : Str) (d : List (List Str)) : pushStr s (pushRow d) = [s] :: d := by
  induction s with
  | nil => rfl
  | cons c s ih => simp [pushStr, ih, pushChar]

theorem pushStr_pushField (s : Str) (row : List Str) (d : List (List Str)) :
    pushStr s (pushField (row :: d)) = (s :: row) :: d := by
  induction s with
  | nil => rfl
  | cons c s ih => simp [pushStr, ih, pushChar]

theorem csvGo_row_cons (dl : Dialect) (c : Char) (r : Str) :
    csvGo dl .row (c :: r) = csvGo dl .field (c :: r) := by
  simp [csvGo]

theorem csvGo_field_quote (dl : Dialect) (r : Str) :
    csvGo dl .field ('"' :: r) = csvGo dl .quoted r := by
  simp [csvGo]

theorem csvGo_close_comma (dl : Dialect) (r : Str) :
    csvGo dl .quoted ('"' :: ',' :: r) = (csvGo dl .field r).map pushField := by
  cases dl <;> simp [csvGo]

theorem csvGo_close_newline (dl : Dialect) (r : Str) :
    csvGo dl .quoted ('"' :: '\n' :: r) = (csvGo dl .row r).map pushRow := by
  cases dl <;> simp [csvGo]

/-- `e` is the text a quoting function puts between the quotes; `Hq` says the
    reader, inside a quoted field, reads `e s` back as `s`. -/
def ReadsBack (dl : Dialect) (e : Str → Str) (s : Str) : Prop :=
  ∀ t, csvGo dl .quoted (e s ++ t) = (csvGo dl .quoted t).map (pushStr s)

def wrapQ (e : Str → Str) (s : Str) : Str := '"' :: e s ++ ['"']

theorem csvGo_fields (dl : Dialect) (e : Str → Str) (f : Str) (fs : List Str)
    (H : ∀ s ∈ f :: fs, ReadsBack dl e s) (t : Str) :
    csvGo dl .field (joinSep [','] ((f :: fs).map (wrapQ e)) ++ '\n' :: t)
      = (csvGo dl .row t).map (fun d => (f :: fs) :: d) := by
  induction fs generalizing f with
  | nil =>
    have hf := H f (by simp)
    simp only [List.map, joinSep, wrapQ, List.cons_append, List.append_assoc, List.nil_append]
    rw [csvGo_field_quote, hf, csvGo_close_newline]
    cases csvGo dl .row t <;> simp [pushStr_pushRow]
  | cons g gs ih =>
    have hf := H f (by simp)
    have ih' := ih g (fun s hs => H s (by simp at hs ⊢; exact Or.inr hs))
    simp only [List.map, joinSep, wrapQ, List.cons_append, List.append_assoc, List.nil_append] at ih' ⊢
    rw [csvGo_field_quote, hf, csvGo_close_comma, ih']
    cases csvGo dl .row t <;> simp [pushStr_pushField]

theorem csvGo_doc (dl : Dialect) (e : Str → Str) (rows : List (List Str))
    (hne : ∀ row ∈ rows, row ≠ [])
    (H : ∀ row ∈ rows, ∀ s ∈ row, ReadsBack dl e s) :
    csvGo dl .row (csvDocWith (wrapQ e) rows) = some rows := by
  induction rows with
  | nil => simp [csvDocWith, csvGo]
  | cons row rows ih =>
    have ih' := ih (fun r hr => hne r (by simp [hr])) (fun r hr => H r (by simp [hr]))
    match row, hne row (by simp), H row (by simp) with
    | f :: fs, _, Hrow =>
      have := csvGo_fields dl e f fs Hrow (csvDocWith (wrapQ e) rows)
      simp only [csvDocWith, csvRowWith, List.append_assoc, List.cons_append, List.nil_append]
      have hcons : ∃ c r, joinSep [','] ((f :: fs).map (wrapQ e)) ++ '\n' :: csvDocWith (wrapQ e) rows = c :: r := by
        cases fs <;> simp [joinSep, wrapQ]
      obtain ⟨c, r, hcr⟩ := hcons
      rw [hcr, csvGo_row_cons, ← hcr, this, ih']
      rfl

theorem map_map_push {o : Option (List (List Str))} (c : Char) (s : Str) :
    (o.map (pushStr s)).map (pushChar c) = o.map (pushStr (c :: s)) := by
  cases o <;> simp [pushStr]

/-- RFC 4180: a quoting loop that doubles the quote and copies everything else
    is read back by the quote-doubling reader. -/
theorem readsBack_rfc (ps : List (Char × Str))
    (hq : escChar ps '"' = ['"', '"'])
    (ho : ∀ c, c ≠ '"' → escChar ps c = [c]) (s : Str) :
    ReadsBack .rfc (escape ps) s := by
  induction s with
  | nil => intro t; cases h : csvGo .rfc .quoted t <;> simp [escape, pushStr, h]
  | cons c s ih =>
    intro t
    by_cases hc : c = '"'
    · subst hc
      simp only [escape, hq, List.cons_append, List.nil_append]
      simp only [csvGo, and_true, ite_true, reduceCtorEq, and_false, ite_false, Char.reduceEq]
      rw [ih t, map_map_push]
    · simp only [escape, ho c hc, List.cons_append, List.nil_append]
      simp only [csvGo, reduceCtorEq, and_false, ite_false, hc]
      rw [ih t, map_map_push]

/-- Backslash dialect: a quoting loop that writes `\"` for the quote, `\\` for
    the backslash and copies everything else is read back. -/
theorem readsBack_backslash (ps : List (Char × Str))
    (hq : escChar ps '"' = ['\\', '"'])
    (hb : escChar ps '\\' = ['\\', '\\'])
    (ho : ∀ c, c ≠ '"' → c ≠ '\\' → escChar ps c = [c]) (s : Str) :
    ReadsBack .backslash (escape ps) s := by
  induction s with
  | nil => intro t; cases h : csvGo .backslash .quoted t <;> simp [escape, pushStr, h]
  | cons c s ih =>
    intro t
    by_cases hc : c = '"'
    · subst hc
      simp only [escape, hq, List.cons_append, List.nil_append]
      simp only [csvGo, and_true, ite_true]
      rw [ih t, map_map_push]
    · by_cases hb' : c = '\\'
      · subst hb'
        simp only [escape, hb, List.cons_append, List.nil_append]
        simp only [csvGo, and_true, ite_true]
        rw [ih t, map_map_push]
      · simp only [escape, ho c hc hb', List.cons_append, List.nil_append]
        simp only [csvGo, hb', false_and, ite_false, hc]
        rw [ih t, map_map_push]

/-- Backslash dialect, quoting loop that escapes the quote only: backslash-free
    fields are read back. -/
theorem readsBack_backslash_partial (ps : List (Char × Str))
    (hq : escChar ps '"' = ['\\', '"'])
    (ho : ∀ c, c ≠ '"' → c ≠ '\\' → escChar ps c = [c]) (s : Str)
    (hs : noBackslash s = true) :
    ReadsBack .backslash (escape ps) s := by
  induction s with
  | nil => intro t; cases h : csvGo .backslash .quoted t <;> simp [escape, pushStr, h]
  | cons c s ih =>
    intro t
    simp only [noBackslash, List.all_cons, Bool.and_eq_true, bne_iff_ne, ne_eq] at hs
    have ih' := ih (by simpa [noBackslash] using hs.2)
    by_cases hc : c = '"'
    · subst hc
      simp only [escape, hq, List.cons_append, List.nil_append]
      simp only [csvGo, and_true, ite_true]
      rw [ih' t, map_map_push]
    · simp only [escape, ho c hc hs.1, List.cons_append, List.nil_append]
      simp only [csvGo, hs.1, false_and, ite_false, hc]
      rw [ih' t, map_map_push]

/-! ### the tables found in report.cc (re-proved on every regeneration of Gen.Emit) -/

theorem quoted_is_wrapQ : csvQuote = wrapQ (escape Gen.quotedPairs) := by
  funext s; simp [csvQuote, wrapQ, Gen.quotedOpen, Gen.quotedClose]

theorem quotedRfc_is_wrapQ : csvQuoteRfc = wrapQ (escape Gen.quotedRfcPairs) := by
  funext s; simp [csvQuoteRfc, wrapQ, Gen.quotedRfcOpen, Gen.quotedRfcClose]

theorem quoted_hq : escChar Gen.quotedPairs '"' = ['\\', '"'] := by decide

theorem quoted_ho : ∀ c, c ≠ '"' → c ≠ '\\' → escChar Gen.quotedPairs c = [c] := fun c h1 h2 =>
  escChar_id_of_keys Gen.quotedPairs ['"', '\\'] (by decide) c (by simp [h1, h2])

theorem quoted_hb (h : quotedEscapesBackslash = true) : escChar Gen.quotedPairs '\\' = ['\\', '\\'] := by
  simp only [quotedEscapesBackslash, beq_iff_eq] at h
  simp [escChar, h]

theorem quotedRfc_hq : escChar Gen.quotedRfcPairs '"' = ['"', '"'] := by decide

theorem quotedRfc_ho : ∀ c, c ≠ '"' → escChar Gen.quotedRfcPairs c = [c] := fun c hc =>
  escChar_id_of_keys Gen.quotedRfcPairs ['"'] (by decide) c (by simpa using hc)

theorem join_hn : escChar Gen.joinPairs '\n' = ['\\', 'n'] := by decide

theorem join_ho : ∀ c, c ≠ '\n' → escChar Gen.joinPairs c = [c] := fun c hc =>
  escChar_id_of_keys Gen.joinPairs ['\n'] (by decide) c (by simpa using hc)

theorem joinLines_cons (c : Char) (s : Str) :
    joinLines (c :: s) = (if c = '\n' then ['\\', 'n'] else [c]) ++ joinLines s := by
  by_cases h : c = '\n'
  · subst h; simp [joinLines, escape, join_hn]
  · simp [joinLines, escape, join_ho c h, h]

/-! ## XML -/

theorem xmlGo_plain_cons (c : Char) (t : Str) (h1 : c ≠ '&') (h2 : c ≠ '<') :
    xmlGo none (c :: t) = (xmlGo none t).map (c :: ·) := by
  simp [xmlGo, h1, h2]

/-- the writer's table, character by character (re-proved for the table found in the header) -/
theorem xml_escChar_cases (c : Char) :
    (c = '<' ∧ escChar Gen.xmlEntityPairs c = ['&', 'l', 't', ';']) ∨
    (c = '>' ∧ escChar Gen.xmlEntityPairs c = ['&', 'g', 't', ';']) ∨
    (c = '&' ∧ escChar Gen.xmlEntityPairs c = ['&', 'a', 'm', 'p', ';']) ∨
    (c = '"' ∧ escChar Gen.xmlEntityPairs c = ['&', 'q', 'u', 'o', 't', ';']) ∨
    (c = '\'' ∧ escChar Gen.xmlEntityPairs c = ['&', 'a', 'p', 'o', 's', ';']) ∨
    (c ≠ '<' ∧ c ≠ '>' ∧ c ≠ '&' ∧ c ≠ '"' ∧ c ≠ '\'' ∧ escChar Gen.xmlEntityPairs c = [c]) := by
  by_cases h1 : c = '<'
  · subst h1; exact Or.inl ⟨rfl, by decide⟩
  by_cases h2 : c = '>'
  · subst h2; exact Or.inr (Or.inl ⟨rfl, by decide⟩)
  by_cases h3 : c = '&'
  · subst h3; exact Or.inr (Or.inr (Or.inl ⟨rfl, by decide⟩))
  by_cases h4 : c = '"'
  · subst h4; exact Or.inr (Or.inr (Or.inr (Or.inl ⟨rfl, by decide⟩)))
  by_cases h5 : c = '\''
  · subst h5; exact Or.inr (Or.inr (Or.inr (Or.inr (Or.inl ⟨rfl, by decide⟩))))
  refine Or.inr (Or.inr (Or.inr (Or.inr (Or.inr ⟨h1, h2, h3, h4, h5, ?_⟩))))
  apply escChar_of_lookup_none
  apply lookup_none_of_keys
  intro p hp
  simp only [Gen.xmlEntityPairs, List.mem_cons, List.mem_nil_iff, or_false] at hp
  rcases hp with rfl | rfl | rfl | rfl | rfl
  · exact fun e => h1 e.symm
  · exact fun e => h2 e.symm
  · exact fun e => h3 e.symm
  · exact fun e => h4 e.symm
  · exact fun e => h5 e.symm

theorem xmlGo_escChar (c : Char) (t : Str) :
    xmlGo none (escChar Gen.xmlEntityPairs c ++ t) = (xmlGo none t).map (c :: ·) := by
  rcases xml_escChar_cases c with ⟨rfl, h⟩ | ⟨rfl, h⟩ | ⟨rfl, h⟩ | ⟨rfl, h⟩ | ⟨rfl, h⟩ | ⟨h1, _, h3, _, _, h⟩
  all_goals rw [h]
  · have : refChar ['l', 't'] = some '<' := by decide
    simp [xmlGo, this]
  · have : refChar ['g', 't'] = some '>' := by decide
    simp [xmlGo, this]
  · have : refChar ['a', 'm', 'p'] = some '&' := by decide
    simp [xmlGo, this]
  · have : refChar ['q', 'u', 'o', 't'] = some '"' := by decide
    simp [xmlGo, this]
  · have : refChar ['a', 'p', 'o', 's'] = some '\'' := by decide
    simp [xmlGo, this]
  · simpa using xmlGo_plain_cons c t h3 h1

theorem xmlGo_escape (s t : Str) :
    xmlGo none (escape Gen.xmlEntityPairs s ++ t) = (xmlGo none t).map (s ++ ·) := by
  induction s with
  | nil => cases h : xmlGo none t <;> simp [escape, h]
  | cons c s ih =>
    simp only [escape, List.append_assoc]
    rw [xmlGo_escChar, ih]
    cases xmlGo none t <;> simp

theorem xmlGo_blanks (s : Str) (h : allBlank s = true) : xmlGo none s = some s := by
  induction s with
  | nil => simp [xmlGo]
  | cons c s ih =>
    simp only [allBlank, List.all_cons, Bool.and_eq_true, beq_iff_eq] at h
    have := ih (by simpa [allBlank] using h.2)
    rw [xmlGo_plain_cons c s (by rw [h.1]; decide) (by rw [h.1]; decide), this]
    rfl

theorem xmlBlankRef_reads (t : Str) : xmlGo none (Gen.xmlBlankRef ++ t) = (xmlGo none t).map (' ' :: ·) := by
  have : refChar ['#', '3', '2'] = some ' ' := by decide
  simp [Gen.xmlBlankRef, xmlGo, this]

theorem mem_escape {ps : List (Char × Str)} {s : Str} {x : Char} (h : x ∈ escape ps s) :
    ∃ c ∈ s, x ∈ escChar ps c := by
  induction s with
  | nil => simp [escape] at h
  | cons c s ih =>
    simp only [escape, List.mem_append] at h
    rcases h with h | h
    · exact ⟨c, by simp, h⟩
    · obtain ⟨c', hc', hx⟩ := ih h
      exact ⟨c', by simp [hc'], hx⟩

/-- no markup character survives the entity table -/
theorem xml_escChar_clean (c x : Char) (h : x ∈ escChar Gen.xmlEntityPairs c) :
    x ≠ '<' ∧ x ≠ '>' ∧ x ≠ '"' ∧ x ≠ '\'' := by
  rcases xml_escChar_cases c with ⟨rfl, e⟩ | ⟨rfl, e⟩ | ⟨rfl, e⟩ | ⟨rfl, e⟩ | ⟨rfl, e⟩ | ⟨h1, h2, _, h4, h5, e⟩
  all_goals rw [e] at h
  all_goals simp only [List.mem_cons, List.mem_nil_iff, or_false] at h
  · rcases h with rfl | rfl | rfl | rfl <;> decide
  · rcases h with rfl | rfl | rfl | rfl <;> decide
  · rcases h with rfl | rfl | rfl | rfl | rfl <;> decide
  · rcases h with rfl | rfl | rfl | rfl | rfl | rfl <;> decide
  · rcases h with rfl | rfl | rfl | rfl | rfl | rfl <;> decide
  · subst h; exact ⟨h1, h2, h4, h5⟩

/-! ## Emacs -/

theorem replaceAll_append (k : Char) (v a b : Str) :
    replaceAll k v (a ++ b) = replaceAll k v a ++ replaceAll k v b := by
  induction a with
  | nil => rfl
  | cons c a ih => simp [replaceAll, ih]

/-- `escape_string` as one per-character map (re-proved for the replace_all
    sequence found in emacs.cc: it fails if the calls are reordered). -/
theorem emacsEscape_cons (c : Char) (s : Str) :
    emacsEscape (c :: s) =
      (if c = '\\' then ['\\', '\\'] else if c = '"' then ['\\', '"'] else [c]) ++ emacsEscape s := by
  simp only [emacsEscape, Gen.emacsEscapePairs, List.foldl]
  by_cases h1 : c = '\\'
  · subst h1; simp [replaceAll]
  · by_cases h2 : c = '"'
    · subst h2; simp [replaceAll]
    · simp [replaceAll, h1, h2]

theorem emacsEscape_nil : emacsEscape [] = [] := by
  simp [emacsEscape, Gen.emacsEscapePairs, List.foldl, replaceAll]

theorem sexpStrBody_emacs (s t : Str) :
    sexpStrBody false (emacsEscape s ++ '"' :: t) = some (s, t) := by
  induction s with
  | nil => simp [emacsEscape_nil, sexpStrBody]
  | cons c s ih =>
    rw [emacsEscape_cons]
    by_cases h1 : c = '\\'
    · subst h1; simp [sexpStrBody, ih]
    · by_cases h2 : c = '"'
      · subst h2; simp [sexpStrBody, ih]
      · simp [sexpStrBody, h1, h2, ih]

theorem sexpScan_emacs (d : Nat) (s t : Str) :
    sexpScan d .str (emacsEscape s ++ t) = sexpScan d .str t := by
  induction s with
  | nil => simp [emacsEscape_nil]
  | cons c s ih =>
    rw [emacsEscape_cons]
    by_cases h1 : c = '\\'
    · subst h1; simp [sexpScan, ih]
    · by_cases h2 : c = '"'
      · subst h2; simp [sexpScan, ih]
      · simp [sexpScan, h1, h2, ih]

theorem sexpScan_emacsStr (d : Nat) (s t : Str) :
    sexpScan d .code (emacsStr s ++ t) = sexpScan d .code t := by
  simp [emacsStr, sexpScan, sexpScan_emacs]

/-- text without parentheses or quotes does not change the depth -/
def plainAtom (p : Str) : Prop := ∀ c ∈ p, c ≠ '"' ∧ c ≠ '(' ∧ c ≠ ')'

theorem sexpScan_plain (d : Nat) (p t : Str) (h : plainAtom p) :
    sexpScan d .code (p ++ t) = sexpScan d .code t := by
  induction p with
  | nil => rfl
  | cons c p ih =>
    obtain ⟨h1, h2, h3⟩ := h c (by simp)
    simp only [List.cons_append, sexpScan, h1, h2, h3, ite_false]
    exact ih (fun x hx => h x (by simp [hx]))

theorem plain_natStr (n : Nat) : plainAtom (natStr n) := by
  intro c hc
  have := Nat.isDigit_of_mem_toDigits (by decide) (by decide) hc
  rw [Char.isDigit_iff_toNat] at this
  refine ⟨?_, ?_, ?_⟩ <;> (intro e; subst e; revert this; decide)

theorem plain_intStr (i : Int) : plainAtom (intStr i) := by
  cases i with
  | ofNat n => exact plain_natStr n
  | negSucc n =>
    intro c hc
    simp only [intStr, List.mem_cons] at hc
    rcases hc with rfl | hc
    · decide
    · exact plain_natStr _ c hc

/-- scanning `p` from code state at any depth leaves the depth unchanged -/
def Neutral (p : Str) : Prop := ∀ d t, sexpScan d .code (p ++ t) = sexpScan d .code t

theorem neutral_nil : Neutral [] := fun _ _ => rfl

theorem neutral_append {a b : Str} (ha : Neutral a) (hb : Neutral b) : Neutral (a ++ b) := by
  intro d t; rw [List.append_assoc, ha, hb]

theorem neutral_plain {p : Str} (h : plainAtom p) : Neutral p := fun d t => sexpScan_plain d p t h

theorem neutral_emacsStr (s : Str) : Neutral (emacsStr s) := fun d t => sexpScan_emacsStr d s t

theorem neutral_paren {a : Str} (ha : Neutral a) : Neutral (paren a) := by
  intro d t
  have h1 : paren a ++ t = '(' :: (a ++ (')' :: t)) := by simp [paren]
  have h2 : sexpScan d .code ('(' :: (a ++ (')' :: t))) = sexpScan (d + 1) .code (a ++ (')' :: t)) := by
    simp [sexpScan]
  rw [h1, h2, ha]
  simp [sexpScan]

theorem neutral_int (i : Int) : Neutral (intStr i) := neutral_plain (plain_intStr i)

theorem plain_of_list {p : Str} (h : p.all (fun c => c != '"' && (c != '(' && c != ')')) = true) : plainAtom p := by
  intro c hc
  have := List.all_eq_true.mp h c hc
  simpa using this

theorem neutral_emacsOpt (o : Option Str) : Neutral (emacsOpt o) := by
  cases o with
  | none => exact neutral_nil
  | some c => exact neutral_append (a := [' ']) (neutral_plain (plain_of_list (by decide))) (neutral_emacsStr c)

theorem neutral_emacsState (st : PState) : Neutral (emacsState st) :=
  neutral_plain (plain_of_list (by cases st <;> decide))

attribute [local irreducible] intStr emacsStr paren emacsOpt emacsState in
/-- decompose a concatenation into pieces that are each neutral -/
macro "neutral_pieces" : tactic => `(tactic| repeat' (first
  | apply neutral_append
  | apply neutral_paren
  | exact neutral_emacsStr _
  | exact neutral_int _
  | exact neutral_emacsOpt _
  | exact neutral_emacsState _
  | (apply neutral_plain; apply plain_of_list; decide)))

attribute [local irreducible] intStr emacsStr paren emacsOpt emacsState in
theorem neutral_header (x : EXact) : Neutral (emacsHeader x) := by
  unfold emacsHeader
  neutral_pieces
  · cases x.code with
    | none => exact neutral_plain (plain_of_list (by decide))
    | some c => exact neutral_append (neutral_emacsStr c) (neutral_plain (plain_of_list (by decide)))
  · split
    · exact neutral_plain (plain_of_list (by decide))
    · exact neutral_emacsStr _

attribute [local irreducible] intStr emacsStr paren emacsOpt emacsState in
theorem neutral_post (p : EPost) : Neutral (emacsPost p) := by
  unfold emacsPost
  neutral_pieces

theorem neutral_posts (ps : List EPost) : Neutral (emacsPosts ps) := by
  induction ps with
  | nil => exact neutral_nil
  | cons p ps ih =>
    cases ps with
    | nil => exact neutral_post p
    | cons q r =>
      exact neutral_append (neutral_append (neutral_post p) (neutral_plain (plain_of_list (by decide)))) ih

theorem neutral_xact (x : EXact) : Neutral (emacsXact x) :=
  neutral_append (neutral_header x) (neutral_posts x.posts)

/-- `)\n (` X … between transactions: neutral at any depth ≥ 1 -/
theorem scan_more (d : Nat) (ys : List EXact) (t : Str) :
    sexpScan (d + 1) .code (emacsMore ys ++ t) = sexpScan (d + 1) .code t := by
  induction ys with
  | nil => rfl
  | cons y ys ih =>
    simp only [emacsMore, List.cons_append, List.nil_append, List.append_assoc]
    simp only [sexpScan, Char.reduceEq, ite_false, ite_true, Nat.add_one_ne_zero, Nat.add_sub_cancel]
    rw [neutral_xact y, ih]

end Ledger.Emit
