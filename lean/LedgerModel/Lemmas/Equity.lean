/-
Lemmas for C06's equity theorem: the accumulation of posts_as_equity
(Model/Print.lean `collect`, `acctPosts`) keeps, per account name and commodity,
exactly the sum of the postings.  Core Lean only.
-/
import LedgerModel.Lemmas.Print

set_option linter.unusedSimpArgs false
set_option linter.unusedVariables false

namespace Ledger
namespace Print

/-- what a balance holds in commodity `k` (the sum over every entry with that key). -/
def sumBal (b : EBal) (k : Comm) : Rat := (b.map (fun kq => if kq.1 = k then kq.2 else 0)).sum

/-- what the account map holds for account `a`, commodity `k`. -/
def sumAcc (m : List EAcct) (a : Str) (k : Comm) : Rat :=
  (m.map (fun e => if e.name = a then sumBal e.bal k else 0)).sum

theorem sumBal_nil (k : Comm) : sumBal [] k = 0 := rfl

theorem sumBal_cons (x : Comm × Rat) (b : EBal) (k : Comm) :
    sumBal (x :: b) k = (if x.1 = k then x.2 else 0) + sumBal b k := by
  simp [sumBal]

theorem sumBal_balAdd (k : Comm) (q : Rat) (b : EBal) (k' : Comm) :
    sumBal (balAdd k q b) k' = sumBal b k' + (if k = k' then q else 0) := by
  induction b with
  | nil => simp only [balAdd, sumBal_cons, sumBal_nil]; grind
  | cons x r ih =>
    obtain ⟨kx, qx⟩ := x
    unfold balAdd
    by_cases h1 : k = kx
    · subst h1
      simp only [if_true, sumBal_cons]
      by_cases h2 : k = k' <;> simp [h2] <;> grind
    · simp only [h1, if_false]
      by_cases h3 : k < kx
      · simp only [h3, if_true, sumBal_cons]
        grind
      · simp only [h3, if_false, sumBal_cons, ih]
        grind

theorem sumAcc_nil (a : Str) (k : Comm) : sumAcc [] a k = 0 := rfl

theorem sumAcc_cons (e : EAcct) (m : List EAcct) (a : Str) (k : Comm) :
    sumAcc (e :: m) a k = (if e.name = a then sumBal e.bal k else 0) + sumAcc m a k := by
  simp [sumAcc]

def contrib (p : EPost) (a : Str) (k : Comm) : Rat := if p.account = a ∧ p.amt.comm = k then p.amt.q else 0

theorem sumAcc_acctAdd (p : EPost) (m : List EAcct) (a : Str) (k : Comm) :
    sumAcc (acctAdd p m) a k = sumAcc m a k + contrib p a k := by
  induction m with
  | nil =>
    simp only [acctAdd, sumAcc_cons, sumAcc_nil, sumBal_balAdd, sumBal_nil, contrib]
    by_cases h1 : p.account = a <;> by_cases h2 : p.amt.comm = k <;> simp only [h1, h2, and_self, and_true, and_false, if_true, if_false] <;> grind
  | cons e r ih =>
    unfold acctAdd
    by_cases h1 : p.account = e.name
    · simp only [h1, if_true, sumAcc_cons, sumBal_balAdd, contrib]
      by_cases h2 : e.name = a <;> by_cases h3 : p.amt.comm = k <;> simp [h2, h3] <;> grind
    · simp only [h1, if_false]
      by_cases h4 : strLt p.account e.name = true
      · simp only [h4, if_true, sumAcc_cons, sumBal_balAdd, sumBal_nil, contrib]
        by_cases h2 : p.account = a <;> by_cases h3 : p.amt.comm = k <;> simp [h2, h3] <;> grind
      · have h4' : strLt p.account e.name = false := by simpa using h4
        simp only [h4', Bool.false_eq_true, if_false]
        rw [sumAcc_cons, sumAcc_cons, ih]
        grind

theorem balOf_nil (a : Str) (k : Comm) : balOf [] a k = 0 := rfl

theorem balOf_cons (p : EPost) (ps : List EPost) (a : Str) (k : Comm) :
    balOf (p :: ps) a k = contrib p a k + balOf ps a k := by
  simp [balOf, contrib]

theorem sumAcc_foldl (ps : List EPost) (a : Str) (k : Comm) :
    ∀ m : List EAcct, sumAcc (ps.foldl (fun m p => acctAdd p m) m) a k = sumAcc m a k + balOf ps a k := by
  induction ps with
  | nil => intro m; simp [balOf_nil]; grind
  | cons p t ih =>
    intro m
    simp only [List.foldl_cons, ih, sumAcc_acctAdd, balOf_cons]
    grind

/-- the map built by subtotal_posts holds exactly the journal's sums. -/
theorem sumAcc_collect (ps : List EPost) (a : Str) (k : Comm) : sumAcc (collect ps) a k = balOf ps a k := by
  unfold collect
  rw [sumAcc_foldl, sumAcc_nil]
  grind

theorem balOfP_nil (a : Str) (k : Comm) : balOfP [] a k = 0 := rfl

theorem balOfP_cons (p : PPost) (l : List PPost) (a : Str) (k : Comm) :
    balOfP (p :: l) a k = contribP p a k + balOfP l a k := by
  simp [balOfP]

theorem balOfP_append (xs ys : List PPost) (a : Str) (k : Comm) :
    balOfP (xs ++ ys) a k = balOfP xs a k + balOfP ys a k := by
  induction xs with
  | nil => simp only [List.nil_append, balOfP_nil]; grind
  | cons x t ih => rw [List.cons_append, balOfP_cons, balOfP_cons, ih]; grind

theorem contribP_mkPost (name : Str) (kind : PostKind) (q : Qty) (a : Str) (k : Comm) :
    contribP (mkPost name kind q) a k = if name = a ∧ q.comm = k then q.q else 0 := rfl

/-- the postings written for one account: the non-zero entries of its balance. -/
theorem balOfP_entries (zero : Qty → Bool)
    (name : Str) (kind : PostKind) (b : EBal) (hz : ∀ kq ∈ b, zero { q := kq.2, comm := kq.1 } = true → kq.2 = 0)
    (a : Str) (k : Comm) :
    balOfP ((b.filter (fun kq => !zero { q := kq.2, comm := kq.1 })).map
      (fun kq => mkPost name kind { q := kq.2, comm := kq.1 })) a k =
      if name = a then sumBal b k else 0 := by
  induction b with
  | nil => simp [balOfP, sumBal]
  | cons x r ih =>
    obtain ⟨kx, qx⟩ := x
    have ih := ih (fun kq hkq => hz kq (by simp [hkq]))
    simp only [List.filter_cons]
    by_cases hzx : zero { q := qx, comm := kx } = true
    · have hq : qx = 0 := hz (kx, qx) (by simp) hzx
      simp only [hzx, Bool.not_true, Bool.false_eq_true, if_false, ih, sumBal_cons, hq]
      by_cases hn : name = a <;> by_cases hk : kx = k <;> simp only [hn, hk, if_true, if_false] <;> grind
    · have hzx' : zero { q := qx, comm := kx } = false := by simpa using hzx
      simp only [hzx', Bool.not_false, if_true, List.map_cons]
      rw [balOfP_cons, contribP_mkPost, ih, sumBal_cons]
      by_cases hn : name = a <;> by_cases hk : kx = k <;>
        simp only [hn, hk, and_self, and_true, and_false, true_and, false_and, if_true, if_false] <;> grind

theorem balOfP_acctPosts (zero : Qty → Bool)
    (ps : List EPost) (m : List EAcct)
    (hz : ∀ e ∈ m, ∀ kq ∈ e.bal, zero { q := kq.2, comm := kq.1 } = true → kq.2 = 0) (a : Str) (k : Comm) :
    balOfP (acctPosts zero ps m) a k = sumAcc m a k := by
  unfold acctPosts
  induction m with
  | nil => simp [balOfP, sumAcc]
  | cons e r ih =>
    have ih := ih (fun e' he' => hz e' (by simp [he']))
    simp only [List.map_cons, List.flatten_cons, balOfP_append, sumAcc_cons, ih]
    rw [balOfP_entries zero _ _ _ (hz e (by simp))]

theorem balOfP_balancing (zero : Qty → Bool) (t : EBal) (a : Str) (k : Comm) (ha : a ≠ equityAccount) :
    balOfP (balancingPosts zero t) a k = 0 := by
  unfold balancingPosts
  induction (t.filter (fun kq => !zero { q := kq.2, comm := kq.1 })) with
  | nil => rfl
  | cons x r ih =>
    rw [List.map_cons, balOfP_cons, contribP_mkPost, ih]
    have : equityAccount ≠ a := fun h => ha h.symm
    simp only [this, false_and, if_false]
    grind

/-- posts_as_equity: every account other than `Equity:Opening Balances` carries,
    per commodity, exactly the sum of the journal's postings to it. -/
theorem equity_balances (zero : Qty → Bool) (ps : List EPost)
    (hz : ∀ e ∈ collect ps, ∀ kq ∈ e.bal, zero { q := kq.2, comm := kq.1 } = true → kq.2 = 0)
    (a : Str) (k : Comm) (ha : a ≠ equityAccount) :
    balOfP (equityXact zero ps).posts a k = balOf ps a k := by
  unfold equityXact
  simp only [balOfP_append, balOfP_acctPosts zero ps _ hz, balOfP_balancing zero _ a k ha, sumAcc_collect]
  grind

/-- the amounts `equity` writes for the accounts are exactly the entries of the map. -/
theorem acctPosts_amounts (zero : Qty → Bool) (ps : List EPost) (m : List EAcct) :
    ∀ p ∈ acctPosts zero ps m, ∃ e ∈ m, ∃ kq ∈ e.bal, p.amount = some { q := kq.2, comm := kq.1 } := by
  intro p hp
  unfold acctPosts at hp
  simp only [List.mem_flatten, List.mem_map] at hp
  obtain ⟨l, ⟨e, he, rfl⟩, hpl⟩ := hp
  simp only [List.mem_map, List.mem_filter] at hpl
  obtain ⟨kq, ⟨hkq, _⟩, rfl⟩ := hpl
  exact ⟨e, he, kq, hkq, rfl⟩

/-! ### the sums survive print | re-read -/

theorem elidedAccount_of_flag (L : Layout) (x : PXact) :
    ∀ pe ∈ x.posts.zip (elideFlags L x), pe.2 = true → elidedAccount L x = some pe.1.account := by
  unfold elideFlags elidedAccount
  intro pe hpe hflag
  match hps : x.posts with
  | [] => simp [hps] at hpe
  | [a] => simp [hps] at hpe; rw [hpe] at hflag; simp at hflag
  | [a, b] =>
    simp only [hps, List.zip_cons_cons, List.zip_nil_right, List.mem_cons, List.not_mem_nil, or_false] at hpe
    rcases hpe with rfl | rfl
    · simp at hflag
    · simp only at hflag
      simp [hflag]
  | a :: b :: d :: t =>
    simp only [hps] at hpe
    have := List.of_mem_zip hpe
    simp at this
    rcases this.2 with h | ⟨_, h⟩ <;> (rw [h] at hflag; simp at hflag)

theorem contribP_normPost_written (c : AmtCodec) (L : Layout) (xs : ItemState) (w : Nat) (p : PPost) (a : Str) (k : Comm)
    (hex : ∀ q, p.amount = some q → c.disp q = q) :
    contribP (normPost c L xs w false p) a k = contribP p a k := by
  unfold contribP
  cases hamt : p.amount with
  | none => simp [normPost, hamt]
  | some q => simp [normPost, hamt, hex q hamt]

theorem contribP_normPost_elided (c : AmtCodec) (L : Layout) (xs : ItemState) (w : Nat) (p : PPost) (a : Str) (k : Comm)
    (hne : p.account ≠ a) :
    contribP (normPost c L xs w true p) a k = contribP p a k := by
  unfold contribP
  cases hamt : p.amount with
  | none => simp [normPost, hamt]
  | some q => simp [normPost, hamt, hne]

/-- per account and commodity, the written amounts of `norm x` sum to those of `x`
    when every amount is display-exact and the account is not the one whose amount is elided. -/
theorem balOfP_norm (c : Codec) (L : Layout) (x : PXact) (a : Str) (k : Comm)
    (hex : ∀ p ∈ x.posts, ∀ q, p.amount = some q → c.disp q = q)
    (hel : elidedAccount L x ≠ some a) :
    balOfP (norm c L x).posts a k = balOfP x.posts a k := by
  have h1 : (norm c L x).posts = (x.posts.zip (elideFlags L x)).map
      (fun pe => normPost c.toAmtCodec L x.state (accountWidth L x) pe.2 pe.1) := rfl
  unfold balOfP
  rw [h1, List.map_map]
  have h2 : (x.posts.zip (elideFlags L x)).map
      ((fun p => contribP p a k) ∘ fun pe => normPost c.toAmtCodec L x.state (accountWidth L x) pe.2 pe.1) =
      (x.posts.zip (elideFlags L x)).map (fun pe => contribP pe.1 a k) := by
    apply List.map_congr_left
    intro pe hpe
    simp only [Function.comp]
    cases hf : pe.2 with
    | false => exact contribP_normPost_written _ L _ _ pe.1 a k (hex pe.1 (List.of_mem_zip hpe).1)
    | true =>
      apply contribP_normPost_elided
      intro he
      apply hel
      rw [elidedAccount_of_flag L x pe hpe hf, he]
  rw [h2]
  have h3 : (x.posts.zip (elideFlags L x)).map (fun pe => contribP pe.1 a k) =
      ((x.posts.zip (elideFlags L x)).map Prod.fst).map (fun p => contribP p a k) := by
    rw [List.map_map]; rfl
  rw [h3, flagged_fst]

end Print
end Ledger
