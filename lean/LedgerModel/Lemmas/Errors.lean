/-
Helper lemmas for C12: the loader of Model/Errors.lean computes exactly the
summary of the file's items in reading order (one record per invalid item, one
warning per warned item), for every body, include chain and accumulator.
-/
import LedgerModel.Model.Errors

namespace Ledger
namespace Errors

/-- Obligations on the working tree (re-extracted into Gen/ExitStatus.lean). -/
theorem per_catch : Gen.errorsPerCatch = 1 := by decide
theorem flag_set : Gen.errorFlagSetInCatch = true := by decide

/-- The record ledger writes for an invalid item. -/
def Located.msg (l : Located) : Msg := ⟨l.chain, ⟨l.file, l.item.reportLine⟩⟩
def Located.wloc (l : Located) : Loc := warnLoc l.file l.chain l.item.reportLine

/-- What a list of items (in reading order) contributes. -/
def summary (cfg : Cfg) (ls : List Located) : Out :=
  ⟨(ls.filter (Located.invalid cfg)).length,
   (ls.filter (Located.invalid cfg)).map Located.msg,
   (ls.filter (Located.warned cfg)).map Located.wloc⟩

@[simp] theorem absorb_empty (o : Out) : o.absorb Out.empty = o := by
  cases o; simp [Out.absorb, Out.empty]

@[simp] theorem empty_absorb (o : Out) : Out.empty.absorb o = o := by
  cases o; simp [Out.absorb, Out.empty]

theorem absorb_assoc (a b c : Out) : (a.absorb b).absorb c = a.absorb (b.absorb c) := by
  simp [Out.absorb, Nat.add_assoc, List.append_assoc]

@[simp] theorem summary_nil (cfg : Cfg) : summary cfg [] = Out.empty := rfl

theorem summary_append (cfg : Cfg) (a b : List Located) :
    summary cfg (a ++ b) = (summary cfg a).absorb (summary cfg b) := by
  simp [summary, Out.absorb, List.filter_append, List.map_append, List.length_append]

theorem swallow_true (file : String) (chain : List Loc) (ls : List Nat) (o : Out) :
    swallow true file chain ls o = o := by
  induction ls generalizing o with
  | nil => rfl
  | cons l ls ih => simp [swallow, ih]

theorem stepItem_eq (cfg : Cfg) (file : String) (chain : List Loc) (i : Item) (o : Out) :
    stepItem cfg file chain i o = o.absorb (summary cfg [⟨file, chain, i⟩]) := by
  cases o with
  | mk e m w =>
    cases h : i.kind.sev cfg <;>
      simp [stepItem, summary, Located.invalid, Located.warned, h, Out.absorb, Out.addWarning,
        Out.addError, flag_set, swallow_true, per_catch, Located.msg, Located.wloc]

/-- The loader is the summary of the items in reading order. -/
theorem load_eq (cfg : Cfg) (b : Body) :
    ∀ (file : String) (chain : List Loc) (o : Out),
      load cfg file chain b o = o.absorb (summary cfg (b.items file chain)) := by
  induction b with
  | done => intro file chain o; simp [load, Body.items]
  | item i rest ih =>
    intro file chain o
    rw [load, ih, stepItem_eq, absorb_assoc, ← summary_append]
    rfl
  | incl line p child rest ihc ihr =>
    intro file chain o
    rw [load, ihr, ihc, empty_absorb, absorb_assoc, ← summary_append]
    rfl

theorem loadFile_eq (cfg : Cfg) (f : File) : loadFile cfg f = summary cfg f.items := by
  simp [loadFile, load_eq, File.items]

theorem loadFile_errors (cfg : Cfg) (f : File) :
    (loadFile cfg f).errors = (invalidItems cfg f).length := by
  rw [loadFile_eq]; rfl

theorem loadFile_msgs (cfg : Cfg) (f : File) :
    (loadFile cfg f).msgs = (invalidItems cfg f).map Located.msg := by
  rw [loadFile_eq]; rfl

theorem loadFile_warnings (cfg : Cfg) (f : File) :
    (loadFile cfg f).warnings = (f.items.filter (Located.warned cfg)).map Located.wloc := by
  rw [loadFile_eq]; rfl

/-- The reported line lies inside the item. -/
theorem reportLine_mem (i : Item) : i.first ≤ i.reportLine ∧ i.reportLine ≤ i.last := by
  have h₁ := i.h₁; have h₂ := i.h₂
  unfold Item.reportLine
  split <;> omega

/-! ### Several `-f` files -/

def File.clean (cfg : Cfg) (f : File) : Bool := (invalidItems cfg f).isEmpty

theorem clean_iff_errors (cfg : Cfg) (f : File) : f.clean cfg = true ↔ (loadFile cfg f).errors = 0 := by
  rw [loadFile_errors, File.clean, List.isEmpty_iff, List.length_eq_zero_iff]

/-- The files that are read at all: up to and including the first one with an
    invalid item (session.cc 190-214 with textual.cc 2096-2098); all of them if the
    reader no longer stops (`Gen.stopAfterFaultyFile = false`). -/
def readPrefix (cfg : Cfg) : List File → List File
  | [] => []
  | f :: fs => if (f.clean cfg || !Gen.stopAfterFaultyFile) = true then f :: readPrefix cfg fs else [f]

theorem loadRoots_eq (cfg : Cfg) (roots : List File) :
    ∀ o : Out, loadRoots cfg roots o =
      o.absorb (summary cfg ((readPrefix cfg roots).flatMap File.items)) := by
  induction roots with
  | nil => intro o; simp [loadRoots, readPrefix]
  | cons f fs ih =>
    intro o
    by_cases hc : (f.clean cfg || !Gen.stopAfterFaultyFile) = true
    · have hgo : ¬ (0 < (loadFile cfg f).errors ∧ Gen.stopAfterFaultyFile = true) := by
        rintro ⟨h1, h2⟩
        rw [h2] at hc
        simp only [Bool.not_true, Bool.or_false] at hc
        have := (clean_iff_errors cfg f).1 hc; omega
      simp only [loadRoots, hgo, if_false, readPrefix, hc, if_true, List.flatMap_cons]
      rw [ih, absorb_assoc, loadFile_eq, ← summary_append]
    · have hstop : 0 < (loadFile cfg f).errors ∧ Gen.stopAfterFaultyFile = true := by
        simp only [Bool.or_eq_true, Bool.not_eq_eq_eq_not, Bool.not_true, not_or, Bool.not_eq_true,
          Bool.not_eq_false] at hc
        refine ⟨?_, hc.2⟩
        have := mt (clean_iff_errors cfg f).2 (by simp [hc.1]); omega
      have e1 : loadRoots cfg (f :: fs) o = o.absorb (loadFile cfg f) := by
        simp only [loadRoots]; rw [if_pos hstop]
      have e2 : readPrefix cfg (f :: fs) = [f] := by
        simp only [readPrefix]; rw [if_neg hc]
      rw [e1, e2, loadFile_eq]; simp

theorem summary_errors_pos (cfg : Cfg) (ls : List Located) :
    0 < (summary cfg ls).errors ↔ ∃ l ∈ ls, l.invalid cfg = true := by
  simp [summary, List.length_pos_iff, List.filter_eq_nil_iff]

/-- Some root has an invalid item iff some root that is read has one. -/
theorem readPrefix_faulty (cfg : Cfg) (roots : List File) :
    (∃ f ∈ readPrefix cfg roots, f.clean cfg = false) ↔ (∃ f ∈ roots, f.clean cfg = false) := by
  induction roots with
  | nil => simp [readPrefix]
  | cons f fs ih =>
    by_cases hc : (f.clean cfg || !Gen.stopAfterFaultyFile) = true
    · simp [readPrefix, hc, ih]
    · have hf : f.clean cfg = false := by
        cases h : f.clean cfg
        · rfl
        · simp [h] at hc
      have e2 : readPrefix cfg (f :: fs) = [f] := by
        simp only [readPrefix]; rw [if_neg hc]
      rw [e2]
      constructor
      · intro _; exact ⟨f, List.mem_cons_self, hf⟩
      · intro _; exact ⟨f, List.mem_singleton.2 rfl, hf⟩

theorem clean_false_iff (cfg : Cfg) (f : File) :
    f.clean cfg = false ↔ ∃ l ∈ f.items, l.invalid cfg = true := by
  simp [File.clean, invalidItems, List.filter_eq_nil_iff]

theorem loadRoots_errors_pos (cfg : Cfg) (roots : List File) :
    0 < (loadRoots cfg roots Out.empty).errors ↔ ∃ f ∈ roots, invalidItems cfg f ≠ [] := by
  rw [loadRoots_eq, empty_absorb, summary_errors_pos]
  have key : (∃ f ∈ roots, invalidItems cfg f ≠ []) ↔ ∃ f ∈ roots, f.clean cfg = false := by
    simp [File.clean]
  rw [key, ← readPrefix_faulty]
  constructor
  · rintro ⟨l, hl, hinv⟩
    obtain ⟨f, hf, hlf⟩ := List.mem_flatMap.1 hl
    exact ⟨f, hf, (clean_false_iff cfg f).2 ⟨l, hlf, hinv⟩⟩
  · rintro ⟨f, hf, hc⟩
    obtain ⟨l, hlf, hinv⟩ := (clean_false_iff cfg f).1 hc
    exact ⟨l, List.mem_flatMap.2 ⟨f, hf, hlf⟩, hinv⟩

/-- Every root after the first faulty one is clean (or the reader does not stop). -/
def laterRootsClean (cfg : Cfg) : List File → Bool
  | [] => true
  | f :: fs =>
    if (f.clean cfg || !Gen.stopAfterFaultyFile) = true then laterRootsClean cfg fs
    else fs.all (File.clean cfg)

theorem invalid_flatMap_readPrefix (cfg : Cfg) (roots : List File) (h : laterRootsClean cfg roots = true) :
    (readPrefix cfg roots).flatMap (invalidItems cfg) = roots.flatMap (invalidItems cfg) := by
  induction roots with
  | nil => rfl
  | cons f fs ih =>
    by_cases hc : (f.clean cfg || !Gen.stopAfterFaultyFile) = true
    · simp only [laterRootsClean, hc, if_true] at h
      simp [readPrefix, hc, ih h]
    · simp only [laterRootsClean, hc, Bool.false_eq_true, if_false, List.all_eq_true] at h
      have : fs.flatMap (invalidItems cfg) = [] := by
        rw [List.flatMap_eq_nil_iff]
        intro g hg
        have := h g hg
        simpa [File.clean] using this
      simp [readPrefix, hc, this]

theorem filter_flatMap_items (cfg : Cfg) (fs : List File) :
    (fs.flatMap File.items).filter (Located.invalid cfg) = fs.flatMap (invalidItems cfg) := by
  induction fs with
  | nil => rfl
  | cons f fs ih => simp [List.flatMap_cons, List.filter_append, ih, invalidItems]

/-! ### Exit status -/

theorem statusOf_safe (s : Gen.StatusShape) (hs : shapeSafe s = true) (n : Nat) (hn : 0 < n) :
    osTruncate (statusOf s n) ≠ 0 := by
  cases s with
  | raw => simp [shapeSafe] at hs
  | clamp k =>
    simp only [shapeSafe, decide_eq_true_eq] at hs
    simp only [statusOf, osTruncate]
    have : min n k = n ∨ min n k = k := by omega
    omega
  | sign =>
    have : n ≠ 0 := by omega
    simp [statusOf, osTruncate, this]

theorem statusOf_small (s : Gen.StatusShape) (hs : s = .raw ∨ shapeSafe s = true) (n : Nat)
    (hn : 0 < n) (hlt : n < 256) : osTruncate (statusOf s n) ≠ 0 := by
  rcases hs with rfl | hs
  · simp only [statusOf, osTruncate]; omega
  · exact statusOf_safe s hs n hn

/-- Number of records ledger writes: the invalid items of the files that are read. -/
def reportedCount (cfg : Cfg) (roots : List File) : Nat :=
  ((readPrefix cfg roots).flatMap (invalidItems cfg)).length

theorem loadRoots_errors (cfg : Cfg) (roots : List File) :
    (loadRoots cfg roots Out.empty).errors = reportedCount cfg roots := by
  rw [loadRoots_eq, empty_absorb, reportedCount, ← filter_flatMap_items]; rfl

theorem loadRoots_msgs (cfg : Cfg) (roots : List File) :
    (loadRoots cfg roots Out.empty).msgs =
      ((readPrefix cfg roots).flatMap (invalidItems cfg)).map Located.msg := by
  rw [loadRoots_eq, empty_absorb, ← filter_flatMap_items]; rfl

theorem reportedCount_pos (cfg : Cfg) (roots : List File) :
    0 < reportedCount cfg roots ↔ ∃ f ∈ roots, invalidItems cfg f ≠ [] := by
  rw [← loadRoots_errors, loadRoots_errors_pos]

theorem run_status (cfg : Cfg) (roots : List File) (report : String) :
    (run cfg roots report).status =
      if 0 < reportedCount cfg roots then exitStatus (reportedCount cfg roots) else 0 := by
  simp only [run, loadRoots_errors]; split <;> rfl

theorem run_stdout (cfg : Cfg) (roots : List File) (report : String) :
    (run cfg roots report).stdout = if 0 < reportedCount cfg roots then "" else report := by
  simp only [run, loadRoots_errors]; split <;> rfl

theorem run_stderr (cfg : Cfg) (roots : List File) (report : String) :
    (run cfg roots report).stderr =
      ((readPrefix cfg roots).flatMap (invalidItems cfg)).map Located.msg := by
  simp only [run, loadRoots_msgs]; split <;> rfl

theorem readPrefix_single (cfg : Cfg) (f : File) : readPrefix cfg [f] = [f] := by
  simp [readPrefix]

/-- `n` unbalanced three-line transactions, one after the other. -/
def faultyBody : Nat → Body
  | 0 => .done
  | n + 1 => .item ⟨.unbalanced, 4 * n + 1, 4 * n + 3, 4 * n + 2, by omega, by omega⟩ (faultyBody n)

theorem faultyBody_invalid (cfg : Cfg) (file : String) (n : Nat) :
    (((faultyBody n).items file []).filter (Located.invalid cfg)).length = n := by
  induction n with
  | zero => rfl
  | succ n ih => simp [faultyBody, Body.items, Located.invalid, Kind.sev, ih]

end Errors
end Ledger

