/-
Lemmas for C15.compile_sound / short_circuit: evaluation of two trees that
differ by constant folding (op.cc 214-218) gives the same result, and compiling
with and without folding yields such a pair whenever folding raises no error.
-/
import LedgerModel.Model.Expr

namespace Ledger

/-! ## calcStep without `rec` -/

def noRec : Scope → Expr → Res RVal := fun _ _ => .error errFuel

theorem bindArgs_noRec_nil (ps : List String) (as : List Expr) (fr : Frame)
    (h : bindArgs (noRec []) ps as = .ok fr) : as = [] := by
  induction ps generalizing as fr with
  | nil => cases as <;> simp_all [bindArgs]
  | cons p ps ih =>
    cases as with
    | nil => rfl
    | cons a as => simp [bindArgs, noRec] at h

/-- An evaluation that succeeded without looking anything up and without `rec`
    gives the same result with any `rec`, in any scope. -/
theorem calcStep_noRec (env : PrecEnv) (rec : Scope → Expr → Res RVal) (σ : Scope) (e : Expr) :
    ∀ r, calcStep env noRec [] e = .ok r → calcStep env rec σ e = .ok r := by
  induction e with
  | nil => intro r h; simp [calcStep] at h
  | plug => intro r h; simp [calcStep] at h
  | val v => intro r h; simpa [calcStep] using h
  | define l r _ _ => intro r h; simpa [calcStep] using h
  | lambda p b _ _ => intro r h; simpa [calcStep] using h
  | ident n d _ =>
    intro r h
    simp only [calcStep] at h
    cases hd : identDef [] n d <;> simp [hd, noRec] at h
  | scope b ih => intro r h; simp only [calcStep] at h ⊢; exact ih r h
  | un op e ih =>
    intro r h
    simp only [calcStep] at h ⊢
    cases hx : calcStep env noRec [] e with
    | error x => simp [hx] at h
    | ok x => rw [ih x hx]; simpa [hx] using h
  | bin op l r ihl ihr =>
    intro res h
    simp only [calcStep] at h ⊢
    cases hx : calcStep env noRec [] l with
    | error x => simp [hx] at h
    | ok x =>
      rw [ihl x hx]
      simp only [hx] at h
      cases op <;> simp only [binRest] at h ⊢ <;>
        first
        | (split at h
           · rename_i ht; simp only [ht, if_true]; first | exact ihr res h | exact h
           · rename_i ht; simp only [ht]; first | exact ihr res h | exact h)
        | (cases hy : calcStep env noRec [] r with
           | error y => simp [hy] at h
           | ok y => rw [ihr y hy]; simpa [hy] using h)
  | query c a b ihc iha ihb =>
    intro res h
    simp only [calcStep] at h ⊢
    cases hx : calcStep env noRec [] c with
    | error x => simp [hx] at h
    | ok x =>
      rw [ihc x hx]
      simp only [hx] at h
      split at h
      · rename_i ht; simp only [ht, if_true]; exact iha res h
      · rename_i ht; simp only [ht]; exact ihb res h
  | seq l r ihl ihr =>
    intro res h
    simp only [calcStep] at h ⊢
    cases hx : calcStep env noRec [] l with
    | error x => simp [hx] at h
    | ok x =>
      rw [ihl x hx]
      simp only [hx] at h
      exact ihr res h
  | cons l r ihl _ =>
    intro res h
    cases r <;> simp only [calcStep] at h ⊢ <;> first | exact ihl res h | simp at h
  | call f a ihf _ =>
    intro res h
    simp only [calcStep] at h ⊢
    cases hx : calcStep env noRec [] f with
    | error x => simp [hx] at h
    | ok x =>
      simp only [hx] at h
      exfalso
      cases x with
      | v _ => simp [callLambda] at h
      | fn lam =>
        cases lam <;> simp [callLambda] at h
        rename_i p b
        cases hp : paramNames p with
        | none => simp [hp] at h
        | some ps =>
          simp only [hp] at h
          cases hb : bindArgs (noRec []) ps (splitCons a) with
          | error x => simp [hb] at h
          | ok fr =>
            simp only [hb] at h
            cases b <;> simp [noRec] at h

/-! ## Trees related by constant folding -/

/-- `Fold a b`: `a` is `b` with some operator nodes over literals replaced by the
    literal they evaluate to, anywhere (also inside compiled definitions). -/
inductive Fold (env : PrecEnv) : Expr → Expr → Prop
  | nil : Fold env .nil .nil
  | plug : Fold env .plug .plug
  | val (v : Value) : Fold env (.val v) (.val v)
  | define (l r : Expr) : Fold env (.define l r) (.define l r)
  | ident (n : String) {d d' : Expr} : Fold env d d' → Fold env (.ident n d) (.ident n d')
  | scope {b b' : Expr} : Fold env b b' → Fold env (.scope b) (.scope b')
  | un (op : UnOp) {e e' : Expr} : Fold env e e' → Fold env (.un op e) (.un op e')
  | bin (op : BinOp) {l l' r r' : Expr} : Fold env l l' → Fold env r r' → Fold env (.bin op l r) (.bin op l' r')
  | query {c c' a a' b b' : Expr} : Fold env c c' → Fold env a a' → Fold env b b' → Fold env (.query c a b) (.query c' a' b')
  | seq {l l' r r' : Expr} : Fold env l l' → Fold env r r' → Fold env (.seq l r) (.seq l' r')
  | cons {l l' r r' : Expr} : Fold env l l' → Fold env r r' → Fold env (.cons l r) (.cons l' r')
  | call {f f' a a' : Expr} : Fold env f f' → Fold env a a' → Fold env (.call f a) (.call f' a')
  | lambda (p : Expr) {b b' : Expr} : Fold env b b' → Fold env (.lambda p b) (.lambda p b')
  | scopeVal {v : Value} {b' : Expr} : Fold env (.val v) b' → Fold env (.val v) (.scope b')
  | foldUn {op : UnOp} {a x : Value} {e' : Expr} : Fold env (.val a) e' → applyUn env op (.v a) = .ok (.v x) →
      Fold env (.val x) (.un op e')
  | foldBin {op : BinOp} {a b x : Value} {l' r' : Expr} : Fold env (.val a) l' → Fold env (.val b) r' →
      binRest env op (.v a) (fun _ => .ok (.v b)) = .ok (.v x) → Fold env (.val x) (.bin op l' r')
  | foldSeq {a b : Value} {l' r' : Expr} : Fold env (.val a) l' → Fold env (.val b) r' → Fold env (.val b) (.seq l' r')
  | foldCons {a : Value} {l' : Expr} : Fold env (.val a) l' → Fold env (.val a) (.cons l' .nil)

theorem Fold.refl (env : PrecEnv) : ∀ e, Fold env e e := by
  intro e
  induction e with
  | nil => exact .nil
  | plug => exact .plug
  | val v => exact .val v
  | ident n d ih => exact .ident n ih
  | scope b ih => exact .scope ih
  | un op e ih => exact .un op ih
  | bin op l r ihl ihr => exact .bin op ihl ihr
  | query c a b ihc iha ihb => exact .query ihc iha ihb
  | cons l r ihl ihr => exact .cons ihl ihr
  | seq l r ihl ihr => exact .seq ihl ihr
  | define l r _ _ => exact .define l r
  | lambda p b _ ihb => exact .lambda p ihb
  | call f a ihf iha => exact .call ihf iha

inductive All2 {α β : Type} (R : α → β → Prop) : List α → List β → Prop
  | nil : All2 R [] []
  | cons {a : α} {b : β} {as : List α} {bs : List β} : R a b → All2 R as bs → All2 R (a :: as) (b :: bs)

def ResRel {α β : Type} (R : α → β → Prop) : Res α → Res β → Prop
  | .ok a, .ok b => R a b
  | .error e1, .error e2 => e1 = e2
  | _, _ => False

def RValRel (env : PrecEnv) : RVal → RVal → Prop
  | .v x, .v y => x = y
  | .fn a, .fn b => Fold env a b
  | _, _ => False

/-- results of calc related by folding -/
def RRel (env : PrecEnv) : Res RVal → Res RVal → Prop := ResRel (RValRel env)

def FrameRel (env : PrecEnv) (a b : Frame) : Prop := All2 (fun x y => x.1 = y.1 ∧ Fold env x.2 y.2) a b
def ScopeRel (env : PrecEnv) (a b : Scope) : Prop := All2 (FrameRel env) a b

theorem frame_lookup_rel {env : PrecEnv} {a b : Frame} (h : FrameRel env a b) (n : String) :
    (a.lookup n = none ∧ b.lookup n = none) ∨ ∃ d1 d2, a.lookup n = some d1 ∧ b.lookup n = some d2 ∧ Fold env d1 d2 := by
  induction h with
  | nil => left; simp [List.lookup]
  | @cons x y xs ys hxy _ ih =>
    obtain ⟨hn, hd⟩ := hxy
    obtain ⟨x1, x2⟩ := x
    obtain ⟨y1, y2⟩ := y
    simp only at hn hd
    subst hn
    simp only [List.lookup]
    cases hq : (n == x1) with
    | true => right; exact ⟨x2, y2, rfl, rfl, hd⟩
    | false => exact ih

theorem scope_lookup_rel {env : PrecEnv} {a b : Scope} (h : ScopeRel env a b) (n : String) :
    (a.lookup n = none ∧ b.lookup n = none) ∨ ∃ d1 d2, a.lookup n = some d1 ∧ b.lookup n = some d2 ∧ Fold env d1 d2 := by
  induction h with
  | nil => left; simp [Scope.lookup]
  | @cons x y xs ys hxy _ ih =>
    simp only [Scope.lookup]
    rcases frame_lookup_rel hxy n with ⟨h1, h2⟩ | ⟨d1, d2, h1, h2, hd⟩
    · rw [h1, h2]; exact ih
    · rw [h1, h2]; right; exact ⟨d1, d2, rfl, rfl, hd⟩

theorem Fold.nil_iff {env : PrecEnv} {a b : Expr} (h : Fold env a b) : (a = .nil ↔ b = .nil) ∧ (a = .plug ↔ b = .plug) := by
  cases h <;> simp

theorem Fold.lambda_inv {env : PrecEnv} {a b : Expr} (h : Fold env a b) :
    (∃ p x y, a = .lambda p x ∧ b = .lambda p y ∧ Fold env x y) ∨ ((∀ p x, a ≠ .lambda p x) ∧ (∀ p y, b ≠ .lambda p y)) := by
  cases h with
  | lambda p hb => left; exact ⟨_, _, _, rfl, rfl, hb⟩
  | _ => right; constructor <;> intros <;> simp

theorem splitCons_fold {env : PrecEnv} {a b : Expr} (h : Fold env a b) :
    All2 (Fold env) (splitCons a) (splitCons b) := by
  induction h with
  | nil => simp only [splitCons]; exact .nil
  | cons hl hr _ ihr => simp only [splitCons]; exact .cons hl ihr
  | foldCons ha _ => simp only [splitCons]; exact .cons ha .nil
  | plug => simp only [splitCons]; exact .cons .plug .nil
  | val v => simp only [splitCons]; exact .cons (.val v) .nil
  | define l r => simp only [splitCons]; exact .cons (.define l r) .nil
  | ident n hd _ => simp only [splitCons]; exact .cons (.ident n hd) .nil
  | scope hb _ => simp only [splitCons]; exact .cons (.scope hb) .nil
  | un op he _ => simp only [splitCons]; exact .cons (.un op he) .nil
  | bin op hl hr _ _ => simp only [splitCons]; exact .cons (.bin op hl hr) .nil
  | query hc ha hb _ _ _ => simp only [splitCons]; exact .cons (.query hc ha hb) .nil
  | seq hl hr _ _ => simp only [splitCons]; exact .cons (.seq hl hr) .nil
  | call hf ha _ _ => simp only [splitCons]; exact .cons (.call hf ha) .nil
  | lambda p hb _ => simp only [splitCons]; exact .cons (.lambda p hb) .nil
  | scopeVal hv _ => simp only [splitCons]; exact .cons (.scopeVal hv) .nil
  | foldUn ha hx _ => simp only [splitCons]; exact .cons (.foldUn ha hx) .nil
  | foldBin ha hb hx _ _ => simp only [splitCons]; exact .cons (.foldBin ha hb hx) .nil
  | foldSeq ha hb _ _ => simp only [splitCons]; exact .cons (.foldSeq ha hb) .nil


theorem ResRel.cases {α β : Type} {R : α → β → Prop} {a : Res α} {b : Res β} (h : ResRel R a b) :
    (∃ x y, a = .ok x ∧ b = .ok y ∧ R x y) ∨ (∃ e, a = .error e ∧ b = .error e) := by
  cases a <;> cases b <;> simp_all [ResRel]

theorem ResRel.ok {α β : Type} {R : α → β → Prop} {x : α} {y : β} (h : R x y) : ResRel R (.ok x) (.ok y) := h

theorem ResRel.err {α β : Type} {R : α → β → Prop} (e : Err) : ResRel R (.error e : Res α) (.error e : Res β) := rfl

theorem RRel.okv {env : PrecEnv} (x : Value) : RRel env (.ok (.v x)) (.ok (.v x)) := by simp [RRel, ResRel, RValRel]

theorem RValRel.truth {env : PrecEnv} {a b : RVal} (h : RValRel env a b) : a.truth env = b.truth env := by
  cases a <;> cases b <;> simp_all [RValRel, RVal.truth]

theorem RValRel.toExpr {env : PrecEnv} {a b : RVal} (h : RValRel env a b) : Fold env a.toExpr b.toExpr := by
  cases a <;> cases b <;> simp_all [RValRel, RVal.toExpr]
  exact .val _

theorem RRel_ok_v {env : PrecEnv} {a : Value} {r : Res RVal} (h : RRel env (.ok (.v a)) r) : r = .ok (.v a) := by
  cases r with
  | error e => simp [RRel, ResRel] at h
  | ok x => cases x <;> simp_all [RRel, ResRel, RValRel]

theorem RRel_map_v {env : PrecEnv} (r : Res Value) : RRel env (r.map .v) (r.map .v) := by
  cases r <;> simp [RRel, ResRel, RValRel, Except.map]

theorem RRel_map_bool {env : PrecEnv} (r : Res Bool) : RRel env (r.map (fun b => .v (.bool b))) (r.map (fun b => .v (.bool b))) := by
  cases r <;> simp [RRel, ResRel, RValRel, Except.map]

theorem applyBin_rel {env : PrecEnv} (op : BinOp) {x1 x2 y1 y2 : RVal} (hx : RValRel env x1 x2) (hy : RValRel env y1 y2) :
    RRel env (applyBin env op x1 y1) (applyBin env op x2 y2) := by
  cases x1 <;> cases x2 <;> cases y1 <;> cases y2 <;> simp_all [RValRel, applyBin] <;>
    first
    | (cases op <;> first | exact RRel_map_v _ | exact RRel_map_bool _ | exact ResRel.err _)
    | exact ResRel.err _

theorem applyUn_rel {env : PrecEnv} (op : UnOp) {x1 x2 : RVal} (hx : RValRel env x1 x2) :
    RRel env (applyUn env op x1) (applyUn env op x2) := by
  cases op
  · simp only [applyUn, hx.truth]; exact RRel.okv _
  · cases x1 <;> cases x2 <;> simp_all [RValRel, applyUn]
    · exact RRel_map_v _
    · exact ResRel.err _

theorem binRest_rel {env : PrecEnv} (op : BinOp) {x1 x2 : RVal} (hx : RValRel env x1 x2) {k1 k2 : Unit → Res RVal}
    (hk : RRel env (k1 ()) (k2 ())) : RRel env (binRest env op x1 k1) (binRest env op x2 k2) := by
  have ht := hx.truth
  cases op <;> simp only [binRest, ht]
  case and => split; exact hk; exact RRel.okv _
  case or => split; exact ResRel.ok hx; exact hk
  all_goals
    rcases hk.cases with ⟨y1, y2, h1, h2, hy⟩ | ⟨e, h1, h2⟩
    · simp only [h1, h2]; exact applyBin_rel _ hx hy
    · simp only [h1, h2]; exact ResRel.err _

theorem bindArgs_rel {env : PrecEnv} {ev1 ev2 : Expr → Res RVal} (hev : ∀ a b, Fold env a b → RRel env (ev1 a) (ev2 b)) :
    ∀ (ps : List String) (as bs : List Expr), All2 (Fold env) as bs →
      ResRel (FrameRel env) (bindArgs ev1 ps as) (bindArgs ev2 ps bs) := by
  intro ps
  induction ps with
  | nil =>
    intro as bs h
    cases h with
    | nil => simp only [bindArgs]; exact ResRel.ok .nil
    | cons _ _ => simp only [bindArgs]; exact ResRel.err _
  | cons p ps ih =>
    intro as bs h
    cases h with
    | nil =>
      simp only [bindArgs]
      rcases (ih [] [] .nil).cases with ⟨f1, f2, h1, h2, hf⟩ | ⟨e, h1, h2⟩
      · simp only [h1, h2, Except.map]; exact ResRel.ok (.cons ⟨rfl, .val _⟩ hf)
      · simp only [h1, h2, Except.map]; exact ResRel.err _
    | @cons a b as bs hab hrest =>
      simp only [bindArgs]
      rcases (hev a b hab).cases with ⟨x, y, h1, h2, hxy⟩ | ⟨e, h1, h2⟩
      · simp only [h1, h2]
        rcases (ih as bs hrest).cases with ⟨f1, f2, h3, h4, hf⟩ | ⟨e, h3, h4⟩
        · simp only [h3, h4, Except.map]; exact ResRel.ok (.cons ⟨rfl, hxy.toExpr⟩ hf)
        · simp only [h3, h4, Except.map]; exact ResRel.err _
      · simp only [h1, h2]; exact ResRel.err _

theorem identDef_some (σ : Scope) (n : String) (d : Expr) (h1 : d ≠ .nil) (h2 : d ≠ .plug) : identDef σ n d = some d := by
  cases d <;> simp_all [identDef]

theorem calcStep_cons_nonnil (env : PrecEnv) (rec : Scope → Expr → Res RVal) (σ : Scope) (l r : Expr) (h : r ≠ .nil) :
    calcStep env rec σ (.cons l r) = .error errUnsup := by
  cases r <;> simp_all [calcStep]

theorem callLambda_nonlambda (rec : Scope → Expr → Res RVal) (σ : Scope) (l a : Expr) (h : ∀ p x, l ≠ .lambda p x) :
    callLambda rec σ (.fn l) a = .error errCall := by
  cases l <;> simp_all [callLambda]

theorem Fold.scope_inv {env : PrecEnv} {x y : Expr} (h : Fold env x y) :
    (∃ b b', x = .scope b ∧ y = .scope b' ∧ Fold env b b') ∨ (∃ v b', x = .val v ∧ y = .scope b' ∧ Fold env (.val v) b') ∨
    ((∀ b, x ≠ .scope b) ∧ (∀ b, y ≠ .scope b)) := by
  cases h with
  | scope hb => left; exact ⟨_, _, rfl, rfl, hb⟩
  | scopeVal hv => right; left; exact ⟨_, _, rfl, rfl, hv⟩
  | _ => right; right; constructor <;> intros <;> simp

/-- the body of call_lambda (op.cc 510-517) -/
def callBody (rec : Scope → Expr → Res RVal) (fr : Frame) (σ : Scope) (body : Expr) : Res RVal :=
  match body with
  | .scope b => rec (fr :: σ) b
  | b => rec [fr] b

theorem callBody_nonscope (rec : Scope → Expr → Res RVal) (fr : Frame) (σ : Scope) (x : Expr) (h : ∀ b, x ≠ .scope b) :
    callBody rec fr σ x = rec [fr] x := by
  cases x <;> simp_all [callBody]

theorem callLambda_lambda (rec : Scope → Expr → Res RVal) (σ : Scope) (p b a : Expr) :
    callLambda rec σ (.fn (.lambda p b)) a =
      match paramNames p with
      | none => .error errCall
      | some ps =>
        match bindArgs (rec σ) ps (splitCons a) with
        | .error e => .error e
        | .ok frame => callBody rec frame σ b := by
  simp only [callLambda, callBody]
  cases paramNames p with
  | none => rfl
  | some ps =>
    simp only
    cases bindArgs (rec σ) ps (splitCons a) with
    | error e => rfl
    | ok fr => cases b <;> rfl

/-- calc on two trees related by folding, in scopes related by folding, gives related results. -/
theorem calcStep_fold (env : PrecEnv) (rec1 rec2 : Scope → Expr → Res RVal)
    (hrec : ∀ a b σ1 σ2, Fold env a b → ScopeRel env σ1 σ2 → RRel env (rec1 σ1 a) (rec2 σ2 b))
    (hval : ∀ σ σ' v, rec1 σ (.val v) = rec1 σ' (.val v)) :
    ∀ a b, Fold env a b → ∀ σ1 σ2, ScopeRel env σ1 σ2 → RRel env (calcStep env rec1 σ1 a) (calcStep env rec2 σ2 b) := by
  intro a b h
  induction h with
  | nil => intro σ1 σ2 _; simp only [calcStep]; exact ResRel.err _
  | plug => intro σ1 σ2 _; simp only [calcStep]; exact ResRel.err _
  | val v => intro σ1 σ2 _; simp only [calcStep]; exact RRel.okv _
  | define l r => intro σ1 σ2 _; simp only [calcStep]; exact RRel.okv _
  | @ident n d d' hd _ =>
    intro σ1 σ2 hσ
    simp only [calcStep]
    have hni := hd.nil_iff
    by_cases h1 : d = .nil
    · have h1' := hni.1.1 h1
      subst h1; subst h1'
      simp only [identDef]
      rcases scope_lookup_rel hσ n with ⟨e1, e2⟩ | ⟨d1, d2, e1, e2, hf⟩
      · simp only [e1, e2]; exact ResRel.err _
      · simp only [e1, e2]; exact hrec _ _ _ _ hf hσ
    · by_cases h2 : d = .plug
      · have h2' := hni.2.1 h2
        subst h2; subst h2'
        simp only [identDef]
        rcases scope_lookup_rel hσ n with ⟨e1, e2⟩ | ⟨d1, d2, e1, e2, hf⟩
        · simp only [e1, e2]; exact ResRel.err _
        · simp only [e1, e2]; exact hrec _ _ _ _ hf hσ
      · have h1' : d' ≠ .nil := fun h => h1 (hni.1.2 h)
        have h2' : d' ≠ .plug := fun h => h2 (hni.2.2 h)
        rw [identDef_some _ _ _ h1 h2, identDef_some _ _ _ h1' h2']
        exact hrec _ _ _ _ hd hσ
  | scope _ ih => intro σ1 σ2 hσ; simp only [calcStep]; exact ih σ1 σ2 hσ
  | @un op e e' _ ih =>
    intro σ1 σ2 hσ
    simp only [calcStep]
    rcases (ih σ1 σ2 hσ).cases with ⟨x, y, h1, h2, hxy⟩ | ⟨e, h1, h2⟩
    · simp only [h1, h2]; exact applyUn_rel op hxy
    · simp only [h1, h2]; exact ResRel.err _
  | @bin op l l' r r' _ _ ihl ihr =>
    intro σ1 σ2 hσ
    simp only [calcStep]
    rcases (ihl σ1 σ2 hσ).cases with ⟨x, y, h1, h2, hxy⟩ | ⟨e, h1, h2⟩
    · simp only [h1, h2]; exact binRest_rel op hxy (ihr σ1 σ2 hσ)
    · simp only [h1, h2]; exact ResRel.err _
  | @query c c' a a' b b' _ _ _ ihc iha ihb =>
    intro σ1 σ2 hσ
    simp only [calcStep]
    rcases (ihc σ1 σ2 hσ).cases with ⟨x, y, h1, h2, hxy⟩ | ⟨e, h1, h2⟩
    · simp only [h1, h2, hxy.truth]
      split
      · exact iha σ1 σ2 hσ
      · exact ihb σ1 σ2 hσ
    · simp only [h1, h2]; exact ResRel.err _
  | @seq l l' r r' _ _ ihl ihr =>
    intro σ1 σ2 hσ
    simp only [calcStep]
    rcases (ihl σ1 σ2 hσ).cases with ⟨x, y, h1, h2, hxy⟩ | ⟨e, h1, h2⟩
    · simp only [h1, h2]; exact ihr σ1 σ2 hσ
    · simp only [h1, h2]; exact ResRel.err _
  | @cons l l' r r' _ hr ihl _ =>
    intro σ1 σ2 hσ
    by_cases h1 : r = .nil
    · have h1' := hr.nil_iff.1.1 h1
      subst h1; subst h1'
      simp only [calcStep]
      exact ihl σ1 σ2 hσ
    · have h1' : r' ≠ .nil := fun h => h1 (hr.nil_iff.1.2 h)
      rw [calcStep_cons_nonnil _ _ _ _ _ h1, calcStep_cons_nonnil _ _ _ _ _ h1']
      exact ResRel.err _
  | @call f f' a a' _ ha ihf _ =>
    intro σ1 σ2 hσ
    simp only [calcStep]
    rcases (ihf σ1 σ2 hσ).cases with ⟨fv1, fv2, h1, h2, hfv⟩ | ⟨e, h1, h2⟩
    · simp only [h1, h2]
      cases fv1 <;> cases fv2 <;> simp only [RValRel] at hfv
      · simp only [callLambda]; exact ResRel.err _
      · rename_i l1 l2
        rcases hfv.lambda_inv with ⟨p, x, y, rfl, rfl, hxy⟩ | ⟨hn1, hn2⟩
        · rw [callLambda_lambda, callLambda_lambda]
          cases hp : paramNames p with
          | none => exact ResRel.err _
          | some ps =>
            simp only
            have hb := bindArgs_rel (ev1 := rec1 σ1) (ev2 := rec2 σ2) (fun a b hab => hrec a b σ1 σ2 hab hσ) ps _ _
              (splitCons_fold ha)
            rcases hb.cases with ⟨fr1, fr2, h3, h4, hfr⟩ | ⟨e, h3, h4⟩
            · simp only [h3, h4]
              rcases hxy.scope_inv with ⟨b, b', rfl, rfl, hbb⟩ | ⟨v, b', rfl, rfl, hvb⟩ | ⟨hx, hy⟩
              · exact hrec _ _ _ _ hbb (.cons hfr hσ)
              · simp only [callBody]
                rw [hval [fr1] (fr1 :: σ1) v]
                exact hrec _ _ _ _ hvb (.cons hfr hσ)
              · rw [callBody_nonscope _ _ _ _ hx, callBody_nonscope _ _ _ _ hy]
                exact hrec _ _ _ _ hxy (.cons hfr .nil)
            · simp only [h3, h4]; exact ResRel.err _
        · rw [callLambda_nonlambda _ _ _ _ hn1, callLambda_nonlambda _ _ _ _ hn2]; exact ResRel.err _
    · simp only [h1, h2]; exact ResRel.err _
  | lambda p hb _ =>
    intro σ1 σ2 _
    simp only [calcStep]
    exact ResRel.ok (Fold.lambda p hb)
  | scopeVal _ ih => intro σ1 σ2 hσ; simp only [calcStep]; simpa [calcStep] using ih σ1 σ2 hσ
  | @foldUn op a x e' _ hx ih =>
    intro σ1 σ2 hσ
    have h1 := RRel_ok_v (by simpa [calcStep] using ih σ1 σ2 hσ)
    simp only [calcStep, h1, hx]
    exact RRel.okv _
  | @foldBin op a b x l' r' _ _ hx ihl ihr =>
    intro σ1 σ2 hσ
    have h1 := RRel_ok_v (by simpa [calcStep] using ihl σ1 σ2 hσ)
    have h2 := RRel_ok_v (by simpa [calcStep] using ihr σ1 σ2 hσ)
    simp only [calcStep, h1, h2, hx]
    exact RRel.okv _
  | @foldSeq a b l' r' _ _ ihl ihr =>
    intro σ1 σ2 hσ
    have h1 := RRel_ok_v (by simpa [calcStep] using ihl σ1 σ2 hσ)
    have h2 := RRel_ok_v (by simpa [calcStep] using ihr σ1 σ2 hσ)
    simp only [calcStep, h1, h2]
    exact RRel.okv _
  | @foldCons a l' _ ih =>
    intro σ1 σ2 hσ
    have h1 := RRel_ok_v (by simpa [calcStep] using ih σ1 σ2 hσ)
    simp only [calcStep, h1]
    exact RRel.okv _

theorem calcF_val (env : PrecEnv) (f : Nat) (σ σ' : Scope) (v : Value) : calcF env f σ (.val v) = calcF env f σ' (.val v) := by
  cases f <;> simp [calcF, calcStep]

theorem calcF_fold (env : PrecEnv) (f : Nat) : ∀ a b σ1 σ2, Fold env a b → ScopeRel env σ1 σ2 →
    RRel env (calcF env f σ1 a) (calcF env f σ2 b) := by
  induction f with
  | zero => intro a b σ1 σ2 _ _; simp only [calcF]; exact ResRel.err _
  | succ f ih =>
    intro a b σ1 σ2 h hσ
    simp only [calcF]
    exact calcStep_fold env _ _ ih (calcF_val env f) a b h σ1 σ2 hσ

/-! ## Compiling with and without folding -/

theorem isVal_eq {e : Expr} (h : e.isVal = true) : ∃ v, e = .val v := by
  cases e <;> simp_all [Expr.isVal]

theorem isNil_eq {e : Expr} (h : e.isNil = true) : e = .nil := by
  cases e <;> simp_all [Expr.isNil]

theorem foldCalc_val {env : PrecEnv} {e w : Expr} (h : foldCalc env e = .ok w) :
    ∃ x, w = .val x ∧ calcStep env noRec [] e = .ok (.v x) := by
  unfold foldCalc at h
  have : (fun (_ : Scope) (_ : Expr) => (Except.error errFuel : Res RVal)) = noRec := rfl
  rw [this] at h
  cases hc : calcStep env noRec [] e with
  | error x => simp [hc] at h
  | ok r =>
    cases r with
    | v x => simp [hc] at h; exact ⟨x, h.symm, rfl⟩
    | fn l => simp [hc] at h

/-- the generic tail of compile, with and without folding -/
theorem finish_fold {env : PrecEnv} {new1 new2 n1 : Expr} {ch av c : Bool} (av' : Bool)
    (h : finish env true new1 ch av = .ok (n1, c)) (hc : Fold env new1 new2)
    (hf : av = true → ∀ w, foldCalc env new1 = .ok w → Fold env w new2) :
    ∃ n2, finish env false new2 ch av' = .ok (n2, c) ∧ Fold env n1 n2 := by
  unfold finish at h ⊢
  cases ch with
  | false =>
    simp only [Bool.not_false, if_true] at h ⊢
    cases h
    exact ⟨_, rfl, hc⟩
  | true =>
    simp only [Bool.not_true, Bool.false_eq_true, if_false, Bool.true_and, Bool.false_and] at h ⊢
    cases av with
    | false =>
      simp only [Bool.false_eq_true, if_false] at h
      cases h
      exact ⟨_, rfl, hc⟩
    | true =>
      simp only [if_true] at h
      cases hw : foldCalc env new1 with
      | error e => simp [hw, Except.map] at h
      | ok w =>
        simp only [hw, Except.map] at h
        cases h
        exact ⟨_, rfl, hf rfl _ hw⟩

theorem compile_fold (env : PrecEnv) : ∀ (e : Expr) (G1 G2 : Frame) (π : List (List String)) (e1 : Expr) (c : Bool) (G1' : Frame),
    FrameRel env G1 G2 → compile env true G1 π e = .ok (e1, c, G1') →
    ∃ e2 G2', compile env false G2 π e = .ok (e2, c, G2') ∧ Fold env e1 e2 ∧ FrameRel env G1' G2' := by
  intro e
  induction e with
  | nil => intro G1 G2 π e1 c G1' hG h; simp only [compile] at h; cases h; exact ⟨_, _, rfl, .nil, hG⟩
  | plug => intro G1 G2 π e1 c G1' hG h; simp only [compile] at h; cases h; exact ⟨_, _, rfl, .plug, hG⟩
  | val v => intro G1 G2 π e1 c G1' hG h; simp only [compile] at h; cases h; exact ⟨_, _, rfl, .val v, hG⟩
  | ident n d _ =>
    intro G1 G2 π e1 c G1' hG h
    simp only [compile] at h ⊢
    split at h
    · rename_i hp
      cases h
      exact ⟨_, _, by simp only [hp, if_true], .ident n .plug, hG⟩
    · rename_i hp
      rcases frame_lookup_rel hG n with ⟨l1, l2⟩ | ⟨d1, d2, l1, l2, hd⟩
      · simp only [l1] at h
        cases h
        exact ⟨_, _, by simp only [hp, l2]; rfl, Fold.refl env _, hG⟩
      · simp only [l1] at h
        cases h
        exact ⟨_, _, by simp only [hp, l2]; rfl, .ident n hd, hG⟩
  | scope b ih =>
    intro G1 G2 π e1 c G1' hG h
    simp only [compile] at h ⊢
    cases hb : compile env true G1 π b with
    | error x => simp [hb] at h
    | ok r =>
      obtain ⟨b1, ch, Gb⟩ := r
      obtain ⟨b2, Gb2, hb2, hfold, hGb⟩ := ih G1 G2 π b1 ch Gb hG hb
      simp only [hb] at h
      cases ch with
      | false =>
        simp only [Bool.not_false, if_true] at h
        cases h
        exact ⟨_, _, by simp only [hb2]; rfl, .scope hfold, hGb⟩
      | true =>
        simp only [Bool.not_true, Bool.false_eq_true, if_false, Bool.true_and] at h
        split at h
        · rename_i hv
          obtain ⟨v, rfl⟩ := isVal_eq hv
          cases h
          exact ⟨_, _, by simp only [hb2]; rfl, .scopeVal hfold, hGb⟩
        · cases h
          exact ⟨_, _, by simp only [hb2]; rfl, .scope hfold, hGb⟩
  | define l r _ ihr =>
    intro G1 G2 π e1 c G1' hG h
    simp only [compile] at h ⊢
    cases ht : defTarget l with
    | none => simp [ht] at h
    | some t =>
      obtain ⟨n, o⟩ := t
      cases o with
      | none =>
        simp only [ht] at h ⊢
        cases hr : compile env true G1 π r with
        | error x => simp [hr] at h
        | ok res =>
          obtain ⟨r1, cr, Gr⟩ := res
          obtain ⟨r2, Gr2, hr2, hfold, hGr⟩ := ihr G1 G2 π r1 cr Gr hG hr
          simp only [hr] at h
          cases h
          exact ⟨.val .void, (n, r2) :: Gr2, by simp only [hr2], .val _, .cons ⟨rfl, hfold⟩ hGr⟩
      | some pp =>
        obtain ⟨params, ps⟩ := pp
        simp only [ht] at h ⊢
        cases hr : compile env true G1 (ps :: π) r with
        | error x => simp [hr] at h
        | ok res =>
          obtain ⟨r1, cr, Gr⟩ := res
          obtain ⟨r2, Gr2, hr2, hfold, hGr⟩ := ihr G1 G2 (ps :: π) r1 cr Gr hG hr
          simp only [hr] at h
          cases h
          exact ⟨.val .void, (n, .lambda params r2) :: Gr2, by simp only [hr2], .val _, .cons ⟨rfl, .lambda params hfold⟩ hGr⟩
  | lambda p b _ ihb =>
    intro G1 G2 π e1 c G1' hG h
    simp only [compile] at h ⊢
    cases hp : paramNames p with
    | none => simp [hp] at h
    | some ps =>
      simp only [hp] at h ⊢
      cases hb : compile env true G1 (ps :: π) b with
      | error x => simp [hb] at h
      | ok res =>
        obtain ⟨b1, cb, Gb⟩ := res
        obtain ⟨b2, Gb2, hb2, hfold, hGb⟩ := ihb G1 G2 (ps :: π) b1 cb Gb hG hb
        simp only [hb] at h
        cases h
        exact ⟨_, _, by simp only [hb2], .lambda p hfold, hGb⟩
  | un op e ih =>
    intro G1 G2 π e1 c G1' hG h
    simp only [compile] at h ⊢
    cases he : compile env true G1 π e with
    | error x => simp [he] at h
    | ok res =>
      obtain ⟨x1, ch, Ge⟩ := res
      obtain ⟨x2, Ge2, he2, hfold, hGe⟩ := ih G1 G2 π x1 ch Ge hG he
      simp only [he] at h
      cases hfin : finish env true (.un op x1) ch x1.isVal with
      | error x => simp [hfin] at h
      | ok res =>
        obtain ⟨n1, c'⟩ := res
        simp only [hfin] at h
        cases h
        obtain ⟨n2, hfin2, hn⟩ := finish_fold x2.isVal hfin (.un op hfold) (by
          intro hv w hw
          obtain ⟨a, rfl⟩ := isVal_eq hv
          obtain ⟨x, rfl, hx⟩ := foldCalc_val hw
          simp only [calcStep] at hx
          exact .foldUn hfold hx)
        exact ⟨_, _, by simp only [he2, hfin2], hn, hGe⟩
  | bin op l r ihl ihr =>
    intro G1 G2 π e1 c G1' hG h
    simp only [compile] at h ⊢
    cases hl : compile env true G1 π l with
    | error x => simp [hl] at h
    | ok res =>
      obtain ⟨l1, cl, Gl⟩ := res
      obtain ⟨l2, Gl2, hl2, hfl, hGl⟩ := ihl G1 G2 π l1 cl Gl hG hl
      simp only [hl] at h
      cases hr : compile env true Gl π r with
      | error x => simp [hr] at h
      | ok res =>
        obtain ⟨r1, cr, Gr⟩ := res
        obtain ⟨r2, Gr2, hr2, hfr, hGr⟩ := ihr Gl Gl2 π r1 cr Gr hGl hr
        simp only [hr] at h
        cases hfin : finish env true (.bin op l1 r1) (cl || cr) (l1.isVal && r1.isVal) with
        | error x => simp [hfin] at h
        | ok res =>
          obtain ⟨n1, c'⟩ := res
          simp only [hfin] at h
          cases h
          obtain ⟨n2, hfin2, hn⟩ := finish_fold (l2.isVal && r2.isVal) hfin (.bin op hfl hfr) (by
            intro hv w hw
            simp only [Bool.and_eq_true] at hv
            obtain ⟨a, rfl⟩ := isVal_eq hv.1
            obtain ⟨b, rfl⟩ := isVal_eq hv.2
            obtain ⟨x, rfl, hx⟩ := foldCalc_val hw
            simp only [calcStep] at hx
            exact .foldBin hfl hfr hx)
          exact ⟨_, _, by simp only [hl2, hr2, hfin2], hn, hGr⟩
  | query cnd a b ihc iha ihb =>
    intro G1 G2 π e1 c G1' hG h
    simp only [compile] at h ⊢
    cases hc : compile env true G1 π cnd with
    | error x => simp [hc] at h
    | ok res =>
      obtain ⟨c1, cc, Gc⟩ := res
      obtain ⟨c2, Gc2, hc2, hfc, hGc⟩ := ihc G1 G2 π c1 cc Gc hG hc
      simp only [hc] at h
      cases ha : compile env true Gc π a with
      | error x => simp [ha] at h
      | ok res =>
        obtain ⟨a1, ca, Ga⟩ := res
        obtain ⟨a2, Ga2, ha2, hfa, hGa⟩ := iha Gc Gc2 π a1 ca Ga hGc ha
        simp only [ha] at h
        cases hb : compile env true Ga π b with
        | error x => simp [hb] at h
        | ok res =>
          obtain ⟨b1, cb, Gb⟩ := res
          obtain ⟨b2, Gb2, hb2, hfb, hGb⟩ := ihb Ga Ga2 π b1 cb Gb hGa hb
          simp only [hb] at h
          split at h
          · simp at h
          · cases h
            exact ⟨_, _, by simp only [hc2, ha2, hb2, Bool.false_and, Bool.false_eq_true, if_false],
              .query hfc hfa hfb, hGb⟩
  | seq l r ihl ihr =>
    intro G1 G2 π e1 c G1' hG h
    simp only [compile] at h ⊢
    cases hl : compile env true G1 π l with
    | error x => simp [hl] at h
    | ok res =>
      obtain ⟨l1, cl, Gl⟩ := res
      obtain ⟨l2, Gl2, hl2, hfl, hGl⟩ := ihl G1 G2 π l1 cl Gl hG hl
      simp only [hl] at h
      cases hr : compile env true Gl π r with
      | error x => simp [hr] at h
      | ok res =>
        obtain ⟨r1, cr, Gr⟩ := res
        obtain ⟨r2, Gr2, hr2, hfr, hGr⟩ := ihr Gl Gl2 π r1 cr Gr hGl hr
        simp only [hr] at h
        cases hfin : finish env true (.seq l1 r1) (cl || cr) (l1.isVal && (r1.isVal || r1.isNil)) with
        | error x => simp [hfin] at h
        | ok res =>
          obtain ⟨n1, c'⟩ := res
          simp only [hfin] at h
          cases h
          obtain ⟨n2, hfin2, hn⟩ := finish_fold (l2.isVal && (r2.isVal || r2.isNil)) hfin (.seq hfl hfr) (by
            intro hv w hw
            simp only [Bool.and_eq_true, Bool.or_eq_true] at hv
            obtain ⟨a, rfl⟩ := isVal_eq hv.1
            obtain ⟨x, rfl, hx⟩ := foldCalc_val hw
            rcases hv.2 with hv2 | hv2
            · obtain ⟨b, rfl⟩ := isVal_eq hv2
              simp only [calcStep] at hx
              cases hx
              exact .foldSeq hfl hfr
            · have := isNil_eq hv2
              subst this
              simp [calcStep] at hx)
          exact ⟨_, _, by simp only [hl2, hr2, hfin2], hn, hGr⟩
  | cons l r ihl ihr =>
    intro G1 G2 π e1 c G1' hG h
    simp only [compile] at h ⊢
    cases hl : compile env true G1 π l with
    | error x => simp [hl] at h
    | ok res =>
      obtain ⟨l1, cl, Gl⟩ := res
      obtain ⟨l2, Gl2, hl2, hfl, hGl⟩ := ihl G1 G2 π l1 cl Gl hG hl
      simp only [hl] at h
      cases hr : compile env true Gl π r with
      | error x => simp [hr] at h
      | ok res =>
        obtain ⟨r1, cr, Gr⟩ := res
        obtain ⟨r2, Gr2, hr2, hfr, hGr⟩ := ihr Gl Gl2 π r1 cr Gr hGl hr
        simp only [hr] at h
        cases hfin : finish env true (.cons l1 r1) (cl || cr) (l1.isVal && (r1.isVal || r1.isNil)) with
        | error x => simp [hfin] at h
        | ok res =>
          obtain ⟨n1, c'⟩ := res
          simp only [hfin] at h
          cases h
          obtain ⟨n2, hfin2, hn⟩ := finish_fold (l2.isVal && (r2.isVal || r2.isNil)) hfin (.cons hfl hfr) (by
            intro hv w hw
            simp only [Bool.and_eq_true, Bool.or_eq_true] at hv
            obtain ⟨a, rfl⟩ := isVal_eq hv.1
            obtain ⟨x, rfl, hx⟩ := foldCalc_val hw
            rcases hv.2 with hv2 | hv2
            · obtain ⟨b, rfl⟩ := isVal_eq hv2
              simp [calcStep] at hx
            · have := isNil_eq hv2
              subst this
              have h2 := hfr.nil_iff.1.1 rfl
              subst h2
              simp only [calcStep] at hx
              cases hx
              exact .foldCons hfl)
          exact ⟨_, _, by simp only [hl2, hr2, hfin2], hn, hGr⟩
  | call f a ihf iha =>
    intro G1 G2 π e1 c G1' hG h
    simp only [compile] at h ⊢
    cases hl : compile env true G1 π f with
    | error x => simp [hl] at h
    | ok res =>
      obtain ⟨l1, cl, Gl⟩ := res
      obtain ⟨l2, Gl2, hl2, hfl, hGl⟩ := ihf G1 G2 π l1 cl Gl hG hl
      simp only [hl] at h
      cases hr : compile env true Gl π a with
      | error x => simp [hr] at h
      | ok res =>
        obtain ⟨r1, cr, Gr⟩ := res
        obtain ⟨r2, Gr2, hr2, hfr, hGr⟩ := iha Gl Gl2 π r1 cr Gr hGl hr
        simp only [hr] at h
        cases hfin : finish env true (.call l1 r1) (cl || cr) (l1.isVal && (r1.isVal || r1.isNil)) with
        | error x => simp [hfin] at h
        | ok res =>
          obtain ⟨n1, c'⟩ := res
          simp only [hfin] at h
          cases h
          obtain ⟨n2, hfin2, hn⟩ := finish_fold (l2.isVal && (r2.isVal || r2.isNil)) hfin (.call hfl hfr) (by
            intro hv w hw
            simp only [Bool.and_eq_true] at hv
            obtain ⟨a, rfl⟩ := isVal_eq hv.1
            obtain ⟨x, rfl, hx⟩ := foldCalc_val hw
            simp [calcStep, callLambda] at hx)
          exact ⟨_, _, by simp only [hl2, hr2, hfin2], hn, hGr⟩

/-- a calc result with expressions erased: what `eval` can print -/
def RVal.erase : RVal → Option Value
  | .v x => some x
  | .fn _ => none

theorem FrameRel.refl (env : PrecEnv) : ∀ G : Frame, FrameRel env G G := by
  intro G
  induction G with
  | nil => exact .nil
  | cons x xs ih => exact .cons ⟨rfl, Fold.refl env _⟩ ih

theorem RRel.erase {env : PrecEnv} {a b : Res RVal} (h : RRel env a b) : a.map RVal.erase = b.map RVal.erase := by
  rcases ResRel.cases h with ⟨x, y, rfl, rfl, hxy⟩ | ⟨e, rfl, rfl⟩
  · cases x <;> cases y <;> simp_all [RValRel, Except.map, RVal.erase]
  · rfl

/-- Whenever compiling with constant folding succeeds, evaluation of the folded
    tree and of the unfolded tree agree (value or error), for every fuel. -/
theorem evalWith_fold (env : PrecEnv) (f : Nat) (G : Frame) (e : Expr) (r : Expr × Bool × Frame)
    (h : compile env true G [] e = .ok r) :
    (evalWith env true f G e).map RVal.erase = (evalWith env false f G e).map RVal.erase := by
  obtain ⟨e1, c, G1⟩ := r
  obtain ⟨e2, G2, h2, hf, hG⟩ := compile_fold env e G G [] e1 c G1 (FrameRel.refl env G) h
  simp only [evalWith, h, h2]
  exact (calcF_fold env f e1 e2 [G1] [G2] hf (.cons hG .nil)).erase

end Ledger
