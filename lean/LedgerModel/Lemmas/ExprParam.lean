/-
Lemmas for C15.param_scope_partial: renaming the parameter of a lambda whose
compiled body is an operator tree does not change a call's value, as long as no
definition the body refers to mentions the old or the new name.
-/
import LedgerModel.Lemmas.ExprScope
import LedgerModel.Lemmas.ExprEval

namespace Ledger

/-- a compiled lambda body that is an operator tree over literals and identifiers -/
def Expr.isOpBody : Expr → Bool
  | .val _ => true
  | .ident _ _ => true
  | .un _ e => e.isOpBody
  | .bin _ l r => l.isOpBody && r.isOpBody
  | .query c a b => c.isOpBody && a.isOpBody && b.isOpBody
  | _ => false

/-- rename the parameter `p` to `q` in a body: the identifiers that are looked up
    at run time (unresolved or PLUG) and are named `p` -/
def renameParam (p q : String) : Expr → Expr
  | .ident n d => if (d.isNil || d.isPlug) && n = p then .ident q d else .ident n d
  | .un op e => .un op (renameParam p q e)
  | .bin op l r => .bin op (renameParam p q l) (renameParam p q r)
  | .query c a b => .query (renameParam p q c) (renameParam p q a) (renameParam p q b)
  | e => e

/-- is some identifier that the body looks up at run time called `q`? -/
def lookedUp (q : String) : Expr → Bool
  | .ident n d => (d.isNil || d.isPlug) && n = q
  | .un _ e => lookedUp q e
  | .bin _ l r => lookedUp q l || lookedUp q r
  | .query c a b => lookedUp q c || lookedUp q a || lookedUp q b
  | _ => false

/-- the definitions compiled into the body do not mention the names `B` unresolved -/
def defsOff (B : List String) : Expr → Bool
  | .ident _ d => (d.isNil || d.isPlug) || noFree B d
  | .un _ e => defsOff B e
  | .bin _ l r => defsOff B l && defsOff B r
  | .query c a b => defsOff B c && defsOff B a && defsOff B b
  | _ => true

theorem frame_single_lookup (p : String) (d : Expr) (n : String) :
    List.lookup n [(p, d)] = if n = p then some d else none := by
  simp only [List.lookup]
  by_cases h : n = p
  · subst h; simp
  · have : (n == p) = false := by simpa using h
    simp [this, h]

theorem scopeNoFree_param (p q x : String) (v : Value) (σ : Scope) (hσ : ScopeNoFree [p, q] σ) :
    ScopeNoFree [p, q] ([(x, .val v)] :: σ) := by
  intro n d hd
  rw [lookup_cons_frame, frame_single_lookup] at hd
  by_cases h : n = x
  · simp only [h, if_true] at hd; cases hd; rfl
  · simp only [h, if_false] at hd; exact hσ n d hd

theorem agree_param (p q : String) (v : Value) (σ : Scope) (hσ : ScopeNoFree [p, q] σ) :
    AgreeOff [p, q] ([(p, .val v)] :: σ) ([(q, .val v)] :: σ) := by
  refine ⟨fun n hn => ?_, scopeNoFree_param p q p v σ hσ, scopeNoFree_param p q q v σ hσ⟩
  have hnp : n ≠ p ∧ n ≠ q := by
    simp only [List.contains_cons, List.contains_nil, Bool.or_false, Bool.or_eq_false_iff, beq_eq_false_iff_ne] at hn
    exact ⟨hn.1, hn.2⟩
  rw [lookup_cons_frame, lookup_cons_frame, frame_single_lookup, frame_single_lookup]
  simp [hnp.1, hnp.2]

/-- Renaming the parameter of a lambda whose (compiled) body is an operator tree
    does not change the value of a call, PROVIDED no definition the body refers to
    (and none in the enclosing scope) mentions the old or the new name unresolved. -/
theorem param_rename_opbody (env : PrecEnv) (p q : String) (v : Value) (σ : Scope)
    (hσ : ScopeNoFree [p, q] σ) (g : Nat) :
    ∀ body : Expr, body.isOpBody = true → lookedUp q body = false → defsOff [p, q] body = true →
      calcStep env (calcF env g) ([(p, .val v)] :: σ) body =
        calcStep env (calcF env g) ([(q, .val v)] :: σ) (renameParam p q body) := by
  have hag := agree_param p q v σ hσ
  intro body
  induction body with
  | val w => intro _ _ _; simp [renameParam, calcStep]
  | ident n d _ =>
    intro _ hq hd
    simp only [lookedUp, Bool.and_eq_false_iff, decide_eq_false_iff_not] at hq
    simp only [defsOff] at hd
    by_cases hdn : (d.isNil || d.isPlug) = true
    · have hid : ∀ σ' m, identDef σ' m d = σ'.lookup m := by
        intro σ' m; cases d <;> simp_all [identDef, Expr.isNil, Expr.isPlug]
      have hnq : n ≠ q := by
        rcases hq with h | h
        · rw [hdn] at h; cases h
        · exact h
      by_cases hnp : n = p
      · subst hnp
        simp only [renameParam, hdn, Bool.true_and, decide_true, if_true, calcStep, hid]
        rw [lookup_cons_frame, lookup_cons_frame, frame_single_lookup, frame_single_lookup]
        simp only [if_true]
        exact calcF_val env g _ _ v
      · simp only [renameParam, hdn, Bool.true_and, hnp, decide_false, Bool.false_eq_true, if_false, calcStep, hid]
        have hoff : List.contains [p, q] n = false := by simp [hnp, hnq]
        rw [← hag.1 n hoff]
        cases hl : Scope.lookup ([(p, Expr.val v)] :: σ) n with
        | none => rfl
        | some d' => exact (calcF_noFree env [p, q] g d' _ _ (hag.2.1 n d' hl) hag).1
    · have hd' : noFree [p, q] d = true := by
        simp only [Bool.not_eq_true] at hdn
        simpa [hdn] using hd
      have hid : ∀ σ' m, identDef σ' m d = some d := by
        intro σ' m; cases d <;> simp_all [identDef, Expr.isNil, Expr.isPlug]
      simp only [Bool.not_eq_true] at hdn
      simp only [renameParam, hdn, Bool.false_and, Bool.false_eq_true, if_false, calcStep, hid]
      exact (calcF_noFree env [p, q] g d _ _ hd' hag).1
  | un op e ih =>
    intro ho hq hd
    simp only [Expr.isOpBody] at ho
    simp only [lookedUp] at hq
    simp only [defsOff] at hd
    simp only [renameParam, calcStep, ih ho hq hd]
  | bin op l r ihl ihr =>
    intro ho hq hd
    simp only [Expr.isOpBody, Bool.and_eq_true] at ho
    simp only [lookedUp, Bool.or_eq_false_iff] at hq
    simp only [defsOff, Bool.and_eq_true] at hd
    simp only [renameParam, calcStep, ihl ho.1 hq.1 hd.1, ihr ho.2 hq.2 hd.2]
  | query c a b ihc iha ihb =>
    intro ho hq hd
    simp only [Expr.isOpBody, Bool.and_eq_true] at ho
    simp only [lookedUp, Bool.or_eq_false_iff] at hq
    simp only [defsOff, Bool.and_eq_true] at hd
    simp only [renameParam, calcStep, ihc ho.1.1 hq.1.1 hd.1.1, iha ho.1.2 hq.1.2 hd.1.2, ihb ho.2 hq.2 hd.2]
  | _ => intro ho; simp [Expr.isOpBody] at ho


/-- … as a call: `(p -> body)(v)` and `(q -> body[p := q])(v)` evaluate alike -/
theorem param_rename_call (env : PrecEnv) (p q : String) (v : Value) (σ : Scope) (hσ : ScopeNoFree [p, q] σ)
    (body : Expr) (ho : body.isOpBody = true) (hq : lookedUp q body = false) (hd : defsOff [p, q] body = true) (f : Nat) :
    calcF env f σ (.call (.lambda (.ident p .nil) (.scope body)) (.val v)) =
      calcF env f σ (.call (.lambda (.ident q .nil) (.scope (renameParam p q body))) (.val v)) := by
  cases f with
  | zero => rfl
  | succ f =>
    cases f with
    | zero => simp [calcF, calcStep, callLambda, paramNames, splitCons, bindArgs]
    | succ g =>
      have hb := param_rename_opbody env p q v σ hσ g body ho hq hd
      simp only [calcF] at hb ⊢
      simp only [calcStep, callLambda, paramNames, splitCons, bindArgs, RVal.toExpr, Except.map]
      exact hb

end Ledger
