/-
Lemmas for C15.parse_respects_ladder / print_parse: the table-driven parser of
Model/Expr.lean, run on a rendering of an operator tree that has parentheses at
least where the DOCUMENTED precedence demands them, returns that tree.

The documented ladder is written here by hand (`levelName`, `BinOp.lvl`,
`Expr.lvl`); the parser only knows `Gen.ladder`.  The `row_*` facts below are
where the two meet: each is checked by evaluation against the regenerated table.
-/
import LedgerModel.Model.Expr

namespace Ledger

/-! ## The documented ladder -/

/-- position in the chain of parse functions, loosest first -/
def levelName : Nat → String
  | 0 => "parse_value_expr" | 1 => "parse_assign_expr" | 2 => "parse_lambda_expr" | 3 => "parse_comma_expr"
  | 4 => "parse_querycolon_expr" | 5 => "parse_or_expr" | 6 => "parse_and_expr" | 7 => "parse_logic_expr"
  | 8 => "parse_add_expr" | 9 => "parse_mul_expr" | 10 => "parse_unary_expr" | 11 => "parse_dot_expr"
  | 12 => "parse_call_expr" | _ => "parse_value_term"

/-- documented precedence of the binary operators: a larger level binds tighter -/
def BinOp.lvl : BinOp → Nat
  | .or => 5 | .and => 6
  | .eq => 7 | .lt => 7 | .lte => 7 | .gt => 7 | .gte => 7
  | .add => 8 | .sub => 8 | .mul => 9 | .div => 9

def Expr.lvl : Expr → Nat
  | .query _ _ _ => 4
  | .bin op _ _ => op.lvl
  | .un _ _ => 10
  | _ => 13

/-- the operator fragment: literals, identifiers, unary, binary, conditional.
    A unary operator is never applied to a literal node: the parser folds that
    into the literal (parser.cc 142-149, 159-166). -/
def Expr.isOpTree : Expr → Bool
  | .val _ => true
  | .ident _ .nil => true
  | .un _ e => e.isOpTree && !e.isVal
  | .bin _ l r => l.isOpTree && r.isOpTree
  | .query c a b => c.isOpTree && a.isOpTree && b.isOpTree
  | _ => false

def wrapParen (b : Bool) (ts : List Tok) : List Tok := if b then .lparen :: (ts ++ [.rparen]) else ts

/-- Rendering of an operator tree as the operand of a level-`L` parse function:
    parentheses where the documented precedence / left associativity demands
    them (`full = false`), or around every operator node as well (`full = true`). -/
def render (full : Bool) : Nat → Expr → List Tok
  | _, .val v => [.value v]
  | _, .ident n _ => [.ident n]
  | L, .un op e => wrapParen (full || decide (10 < L)) (op.tok :: render full 11 e)
  | L, .bin op l r => wrapParen (full || decide (op.lvl < L)) (render full op.lvl l ++ op.tok :: render full (op.lvl + 1) r)
  | L, .query c a b =>
    wrapParen (full || decide (4 < L)) (render full 5 c ++ .query :: (render full 5 a ++ .colon :: render full 5 b))
  | _, _ => []

/-- parentheses only where precedence or associativity demands them -/
def renderMinimal (e : Expr) : List Tok := render false 0 e

/-! ## The generated table, row by row -/

def rowTerm : Row := ⟨"parse_value_term", "term", "", false, [("VALUE", "VALUE", false), ("IDENT", "IDENT", false), ("LPAREN", "", false)], "parse_value_expr"⟩
def rowCall : Row := ⟨"parse_call_expr", "call", "parse_value_term", true, [("LPAREN", "O_CALL", false)], "parse_value_expr"⟩
def rowDot : Row := ⟨"parse_dot_expr", "binloop-lookup", "parse_call_expr", true, [("DOT", "O_LOOKUP", false)], "parse_call_expr"⟩
def rowUnary : Row := ⟨"parse_unary_expr", "prefix", "parse_dot_expr", false, [("EXCLAM", "O_NOT", false), ("MINUS", "O_NEG", false)], "parse_dot_expr"⟩
def rowMul : Row := ⟨"parse_mul_expr", "binloop", "parse_unary_expr", true, [("STAR", "O_MUL", false), ("SLASH", "O_DIV", false), ("KW_DIV", "O_DIV", false)], "parse_unary_expr"⟩
def rowAdd : Row := ⟨"parse_add_expr", "binloop", "parse_mul_expr", true, [("PLUS", "O_ADD", false), ("MINUS", "O_SUB", false)], "parse_mul_expr"⟩
def rowLogic : Row := ⟨"parse_logic_expr", "binloop", "parse_add_expr", true,
  [("EQUAL", "O_EQ", false), ("NEQUAL", "O_EQ", true), ("MATCH", "O_MATCH", false), ("NMATCH", "O_MATCH", true),
   ("LESS", "O_LT", false), ("LESSEQ", "O_LTE", false), ("GREATER", "O_GT", false), ("GREATEREQ", "O_GTE", false)], "parse_add_expr"⟩
def rowAnd : Row := ⟨"parse_and_expr", "binloop", "parse_logic_expr", true, [("KW_AND", "O_AND", false)], "parse_logic_expr"⟩
def rowOr : Row := ⟨"parse_or_expr", "binloop", "parse_and_expr", true, [("KW_OR", "O_OR", false)], "parse_and_expr"⟩
def rowQuery : Row := ⟨"parse_querycolon_expr", "ternary", "parse_or_expr", false,
  [("QUERY", "O_QUERY", false), ("COLON", "O_COLON", false), ("KW_IF", "O_QUERY", false), ("KW_ELSE", "O_COLON", false)], "parse_or_expr"⟩
def rowComma : Row := ⟨"parse_comma_expr", "list", "parse_querycolon_expr", true, [("COMMA", "O_CONS", false)], "parse_querycolon_expr"⟩
def rowLambda : Row := ⟨"parse_lambda_expr", "once-scope", "parse_comma_expr", false, [("ARROW", "O_LAMBDA", false)], "parse_querycolon_expr"⟩
def rowAssign : Row := ⟨"parse_assign_expr", "once-scope", "parse_lambda_expr", false, [("ASSIGN", "O_DEFINE", false)], "parse_lambda_expr"⟩
def rowSeq : Row := ⟨"parse_value_expr", "seq", "parse_assign_expr", true, [("SEMI", "O_SEQ", false)], "parse_assign_expr"⟩

/-- The table regenerated from parser.cc is the one these lemmas were written for. -/
theorem rows_eq : rows = [rowTerm, rowCall, rowDot, rowUnary, rowMul, rowAdd, rowLogic, rowAnd, rowOr, rowQuery,
                          rowComma, rowLambda, rowAssign, rowSeq] := by decide

def rowAt : Nat → Row
  | 0 => rowSeq | 1 => rowAssign | 2 => rowLambda | 3 => rowComma | 4 => rowQuery | 5 => rowOr | 6 => rowAnd
  | 7 => rowLogic | 8 => rowAdd | 9 => rowMul | 10 => rowUnary | 11 => rowDot | 12 => rowCall | _ => rowTerm

theorem findRow_at : ∀ L, L ≤ 13 → findRow (levelName L) = some (rowAt L) := by decide

theorem rowAt_first : ∀ L, L < 13 → (rowAt L).first = levelName (L + 1) := by decide

/-! ## Unfolding one level -/

theorem pl_zero (n : String) (s : Bool) (toks : List Tok) : parseLevel 0 n s toks = .error errFuel := by
  rw [parseLevel]

theorem pl_ok_pos {f : Nat} {n : String} {s : Bool} {toks : List Tok} {r : Expr × List Tok}
    (h : parseLevel f n s toks = .ok r) : ∃ g, f = g + 1 := by
  cases f with
  | zero => rw [pl_zero] at h; cases h
  | succ g => exact ⟨g, rfl⟩

theorem pl_seq (f : Nat) (s : Bool) (toks : List Tok) :
    parseLevel (f + 1) (levelName 0) s toks = seqStep (parseLevel f) (seqTail f) rowSeq s toks := by
  rw [parseLevel, findRow_at 0 (by decide)]; simp [levelStep, rowAt, rowSeq]

theorem pl_assign (f : Nat) (s : Bool) (toks : List Tok) :
    parseLevel (f + 1) (levelName 1) s toks = onceStep (parseLevel f) rowAssign s toks := by
  rw [parseLevel, findRow_at 1 (by decide)]; simp [levelStep, rowAt, rowAssign]

theorem pl_lambda (f : Nat) (s : Bool) (toks : List Tok) :
    parseLevel (f + 1) (levelName 2) s toks = onceStep (parseLevel f) rowLambda s toks := by
  rw [parseLevel, findRow_at 2 (by decide)]; simp [levelStep, rowAt, rowLambda]

theorem pl_comma (f : Nat) (s : Bool) (toks : List Tok) :
    parseLevel (f + 1) (levelName 3) s toks = listStep (parseLevel f) (commaTail f) rowComma s toks := by
  rw [parseLevel, findRow_at 3 (by decide)]; simp [levelStep, rowAt, rowComma]

theorem pl_query (f : Nat) (s : Bool) (toks : List Tok) :
    parseLevel (f + 1) (levelName 4) s toks = ternaryStep (parseLevel f) rowQuery s toks := by
  rw [parseLevel, findRow_at 4 (by decide)]; simp [levelStep, rowAt, rowQuery]

theorem pl_bin (L : Nat) (h5 : 5 ≤ L) (h9 : L ≤ 9) (f : Nat) (s : Bool) (toks : List Tok) :
    parseLevel (f + 1) (levelName L) s toks = binStep (parseLevel f) (binLoop f) (rowAt L) s toks := by
  rw [parseLevel, findRow_at L (by omega)]
  have : L = 5 ∨ L = 6 ∨ L = 7 ∨ L = 8 ∨ L = 9 := by omega
  rcases this with rfl | rfl | rfl | rfl | rfl <;>
    simp [levelStep, rowAt, rowOr, rowAnd, rowLogic, rowAdd, rowMul]

theorem pl_unary (f : Nat) (s : Bool) (toks : List Tok) :
    parseLevel (f + 1) (levelName 10) s toks = unaryStep (parseLevel f) rowUnary s toks := by
  rw [parseLevel, findRow_at 10 (by decide)]; simp [levelStep, rowAt, rowUnary]

theorem pl_dot (f : Nat) (s : Bool) (toks : List Tok) :
    parseLevel (f + 1) (levelName 11) s toks = binStep (parseLevel f) (binLoop f) rowDot s toks := by
  rw [parseLevel, findRow_at 11 (by decide)]; simp [levelStep, rowAt, rowDot]

theorem pl_call (f : Nat) (s : Bool) (toks : List Tok) :
    parseLevel (f + 1) (levelName 12) s toks = callStep (parseLevel f) (callLoop f) rowCall s toks := by
  rw [parseLevel, findRow_at 12 (by decide)]; simp [levelStep, rowAt, rowCall]

theorem pl_term (f : Nat) (s : Bool) (toks : List Tok) :
    parseLevel (f + 1) (levelName 13) s toks = termStep (parseLevel f) rowTerm toks := by
  rw [parseLevel, findRow_at 13 (by decide)]; simp [levelStep, rowAt, rowTerm]

/-! ## What may follow an operand -/

/-- the level whose loop (or once-test) would consume this token after a complete operand -/
def Tok.cl : Tok → Option Nat
  | .semi => some 0 | .assign => some 1 | .arrow => some 2 | .comma => some 3
  | .query => some 4 | .kwIf => some 4 | .kwOr => some 5 | .kwAnd => some 6
  | .equal => some 7 | .nequal => some 7 | .less => some 7 | .lesseq => some 7 | .greater => some 7
  | .greatereq => some 7 | .match_ => some 7 | .nmatch => some 7
  | .plus => some 8 | .minus => some 8 | .star => some 9 | .slash => some 9 | .kwDiv => some 9
  | .dot => some 11 | .lparen => some 12
  | _ => none

/-- may this token follow an operand parsed at level `L` without being consumed by level `L` or a tighter one? -/
def Tok.okAfter (L : Nat) (t : Tok) : Bool :=
  t != .bad && (match t.cl with | none => true | some m => decide (m < L))

def followOK (L : Nat) : List Tok → Bool
  | [] => true
  | t :: _ => t.okAfter L

theorem followOK_mono {L L' : Nat} {rest : List Tok} (h : followOK L rest = true) (hl : L ≤ L') : followOK L' rest = true := by
  cases rest with
  | nil => rfl
  | cons t r =>
    simp only [followOK, Tok.okAfter, Bool.and_eq_true] at h ⊢
    refine ⟨h.1, ?_⟩
    have h2 := h.2
    split at h2 <;> simp_all
    omega

/-- what `followOK L` gives the levels that test `row.op?` after an operand: the test fails -/
theorem op_none_of_ok (L : Nat) (hL : L = 1 ∨ L = 2 ∨ L = 5 ∨ L = 6 ∨ L = 7 ∨ L = 8 ∨ L = 9 ∨ L = 11)
    (t : Tok) (h : t.okAfter L = true) : (rowAt L).op? t = none := by
  rcases hL with rfl | rfl | rfl | rfl | rfl | rfl | rfl | rfl <;>
    cases t <;> simp_all [Tok.okAfter, Tok.cl, rowAt, Row.op?, Tok.kind, rowAssign, rowLambda,
      rowOr, rowAnd, rowLogic, rowAdd, rowMul, rowDot, List.lookup]

theorem ne_bad_of_ok {L : Nat} {t : Tok} (h : t.okAfter L = true) : t ≠ .bad := by
  cases t <;> simp_all [Tok.okAfter]

/-! ## A level that finds nothing of its own -/

theorem afterFirst_ok {pl : PL} {row : Row} {toks : List Tok} {e : Expr} {rest : List Tok} {k : Expr → List Tok → PRes}
    (h : pl row.first false toks = .ok (e, rest)) (he : e.isNil = false) :
    afterFirst pl row false toks k = k e rest := by
  simp [afterFirst, h, he]

theorem binLoop_stop (L : Nat) (hL : L = 5 ∨ L = 6 ∨ L = 7 ∨ L = 8 ∨ L = 9 ∨ L = 11) (g : Nat) (e : Expr) (rest : List Tok)
    (hf : followOK L rest = true) : binLoop (g + 1) (rowAt L) e rest = .ok (e, rest) := by
  rw [binLoop]
  cases rest with
  | nil => simp [binLoopStep]
  | cons t r =>
    have h1 : (rowAt L).op? t = none := op_none_of_ok L (by omega) t hf
    have h2 : t ≠ .bad := ne_bad_of_ok hf
    unfold binLoopStep
    split <;> simp_all

/-- a level that finds nothing of its own after the operand returns what the next level returned -/
theorem descend (L : Nat) (hL : L ≤ 12) {g : Nat} {toks : List Tok} {e : Expr} {rest : List Tok}
    (h : parseLevel g (levelName (L + 1)) false toks = .ok (e, rest)) (he : e.isNil = false)
    (hf : followOK L rest = true)
    (hu : L = 10 → ∀ t r, toks = t :: r → rowUnary.op? t = none) :
    parseLevel (g + 1) (levelName L) false toks = .ok (e, rest) := by
  obtain ⟨g', rfl⟩ := pl_ok_pos h
  have hcase : L = 0 ∨ L = 1 ∨ L = 2 ∨ L = 3 ∨ L = 4 ∨ (5 ≤ L ∧ L ≤ 9) ∨ L = 10 ∨ L = 11 ∨ L = 12 := by omega
  rcases hcase with rfl | rfl | rfl | rfl | rfl | ⟨h5, h9⟩ | rfl | rfl | rfl
  · rw [pl_seq, seqStep, afterFirst_ok (row := rowSeq) h he]
    cases rest with
    | nil => simp [seqRest]
    | cons t r => cases t <;> simp_all [seqRest, followOK, Tok.okAfter, Tok.cl]
  · rw [pl_assign, onceStep, afterFirst_ok (row := rowAssign) h he]
    cases rest with
    | nil => simp [onceRest]
    | cons t r =>
      have h1 := op_none_of_ok 1 (by omega) t hf
      have h2 : t ≠ .bad := ne_bad_of_ok hf
      simp only [rowAt] at h1
      unfold onceRest
      split <;> simp_all
  · rw [pl_lambda, onceStep, afterFirst_ok (row := rowLambda) h he]
    cases rest with
    | nil => simp [onceRest]
    | cons t r =>
      have h1 := op_none_of_ok 2 (by omega) t hf
      have h2 : t ≠ .bad := ne_bad_of_ok hf
      simp only [rowAt] at h1
      unfold onceRest
      split <;> simp_all
  · rw [pl_comma, listStep, afterFirst_ok (row := rowComma) h he]
    cases rest with
    | nil => simp [listRest]
    | cons t r => cases t <;> simp_all [listRest, followOK, Tok.okAfter, Tok.cl]
  · rw [pl_query, ternaryStep, afterFirst_ok (row := rowQuery) h he]
    cases rest with
    | nil => simp [ternaryRest]
    | cons t r => cases t <;> simp_all [ternaryRest, followOK, Tok.okAfter, Tok.cl]
  · rw [pl_bin L h5 h9, binStep, afterFirst_ok (row := rowAt L) (by rw [rowAt_first L (by omega)]; exact h) he]
    exact binLoop_stop L (by omega) g' e rest hf
  · rw [pl_unary]
    unfold unaryStep
    cases toks with
    | nil => exact h
    | cons t r =>
      have := hu rfl t r rfl
      simp only [this]
      exact h
  · rw [pl_dot, binStep, afterFirst_ok (row := rowDot) h he]
    exact binLoop_stop 11 (by omega) g' e rest hf
  · rw [pl_call, callStep, afterFirst_ok (row := rowCall) h he]
    rw [callLoop]
    cases rest with
    | nil => simp [callLoopStep]
    | cons t r => cases t <;> simp_all [callLoopStep, followOK, Tok.okAfter, Tok.cl]

theorem descend_to (d : Nat) : ∀ (L : Nat), L + d ≤ 13 → ∀ {g : Nat} {toks : List Tok} {e : Expr} {rest : List Tok},
    parseLevel g (levelName (L + d)) false toks = .ok (e, rest) → e.isNil = false → followOK L rest = true →
    (L ≤ 10 → 10 < L + d → ∀ t r, toks = t :: r → rowUnary.op? t = none) →
    parseLevel (g + d) (levelName L) false toks = .ok (e, rest) := by
  induction d with
  | zero => intro L _ g toks e rest h _ _ _; simpa using h
  | succ d ih =>
    intro L hL g toks e rest h he hf hu
    have h1 : parseLevel (g + d) (levelName (L + 1)) false toks = .ok (e, rest) := by
      apply ih (L + 1) (by omega) (by rw [show L + 1 + d = L + (d + 1) by omega]; exact h) he (followOK_mono hf (by omega))
      intro h10 h10' t r ht
      exact hu (by omega) (by omega) t r ht
    have := descend L (by omega) h1 he hf (by
      intro h10 t r ht
      exact hu (by omega) (by omega) t r ht)
    rw [show g + (d + 1) = g + d + 1 by omega]
    exact this

/-- `ts` is text for `e` as an operand of level `L`: parsed there it yields `e`
    and leaves whatever follows, given enough fuel. -/
def ParsesAt (L : Nat) (ts : List Tok) (e : Expr) : Prop :=
  ∀ rest f, followOK L rest = true → 16 * ts.length + 16 ≤ f + L →
    parseLevel f (levelName L) false (ts ++ rest) = .ok (e, rest)

theorem term_paren {g : Nat} {ts rest : List Tok} {e : Expr}
    (h : parseLevel g (levelName 0) false (ts ++ .rparen :: rest) = .ok (e, .rparen :: rest)) :
    parseLevel (g + 1) (levelName 13) false (.lparen :: (ts ++ .rparen :: rest)) = .ok (e, rest) := by
  rw [pl_term]
  simp only [termStep]
  rw [show rowTerm.operand = levelName 0 from rfl, h]

theorem parsesAt_paren {ts : List Tok} {e : Expr} (h0 : ParsesAt 0 ts e) (he : e.isNil = false) (L : Nat) (hL : L ≤ 13) :
    ParsesAt L (.lparen :: (ts ++ [.rparen])) e := by
  intro rest f hf hfuel
  simp only [List.length_cons, List.length_append, List.length_nil] at hfuel
  obtain ⟨g, hg⟩ : ∃ g, f = (g + 1) + (13 - L) := ⟨f - (13 - L) - 1, by omega⟩
  have h1 : parseLevel g (levelName 0) false (ts ++ .rparen :: rest) = .ok (e, .rparen :: rest) :=
    h0 (.rparen :: rest) g (by rfl) (by omega)
  have h2 := term_paren h1
  have h3 := descend_to (13 - L) L (by omega) (g := g + 1) (toks := .lparen :: (ts ++ .rparen :: rest)) (e := e) (rest := rest)
    (by rw [show L + (13 - L) = 13 by omega]; exact h2) he hf (by
      intro _ _ t r ht
      cases ht
      decide)
  rw [hg]
  simpa using h3

theorem parsesAt_val (v : Value) (L : Nat) (hL : L ≤ 13) : ParsesAt L [.value v] (.val v) := by
  intro rest f hf hfuel
  simp only [List.length_cons, List.length_nil] at hfuel
  obtain ⟨g, hg⟩ : ∃ g, f = (g + 1) + (13 - L) := ⟨f - (13 - L) - 1, by omega⟩
  have h2 : parseLevel (g + 1) (levelName 13) false (.value v :: rest) = .ok (.val v, rest) := by
    rw [pl_term]; simp [termStep]
  have h3 := descend_to (13 - L) L (by omega) (g := g + 1) (toks := .value v :: rest) (e := .val v) (rest := rest)
    (by rw [show L + (13 - L) = 13 by omega]; exact h2) rfl hf (by
      intro _ _ t r ht
      cases ht
      rfl)
  rw [hg]
  simpa using h3

theorem parsesAt_ident (n : String) (L : Nat) (hL : L ≤ 13) : ParsesAt L [.ident n] (.ident n .nil) := by
  intro rest f hf hfuel
  simp only [List.length_cons, List.length_nil] at hfuel
  obtain ⟨g, hg⟩ : ∃ g, f = (g + 1) + (13 - L) := ⟨f - (13 - L) - 1, by omega⟩
  have h2 : parseLevel (g + 1) (levelName 13) false (.ident n :: rest) = .ok (.ident n .nil, rest) := by
    rw [pl_term]; simp [termStep]
  have h3 := descend_to (13 - L) L (by omega) (g := g + 1) (toks := .ident n :: rest) (e := .ident n .nil) (rest := rest)
    (by rw [show L + (13 - L) = 13 by omega]; exact h2) rfl hf (by
      intro _ _ t r ht
      cases ht
      rfl)
  rw [hg]
  simpa using h3

/-! ## Operator nodes -/

def needsParen (full : Bool) (L : Nat) : Expr → Bool
  | .un _ _ => full || decide (10 < L)
  | .bin op _ _ => full || decide (op.lvl < L)
  | .query _ _ _ => full || decide (4 < L)
  | _ => false

/-- the rendering of a node without parentheses of its own -/
def own (full : Bool) : Expr → List Tok
  | .val v => [.value v]
  | .ident n _ => [.ident n]
  | .un op e => op.tok :: render full 11 e
  | .bin op l r => render full op.lvl l ++ op.tok :: render full (op.lvl + 1) r
  | .query c a b => render full 5 c ++ .query :: (render full 5 a ++ .colon :: render full 5 b)
  | _ => []

theorem render_eq (full : Bool) (L : Nat) (e : Expr) : render full L e = wrapParen (needsParen full L e) (own full e) := by
  cases e <;> simp [render, own, needsParen, wrapParen]

theorem isNil_of_opTree {e : Expr} (h : e.isOpTree = true) : e.isNil = false := by
  cases e <;> simp_all [Expr.isOpTree, Expr.isNil]

theorem BinOp.lvl_range (op : BinOp) : 5 ≤ op.lvl ∧ op.lvl ≤ 9 := by cases op <;> simp [BinOp.lvl]

theorem BinOp.tok_cl (op : BinOp) : op.tok.cl = some op.lvl := by cases op <;> rfl

theorem BinOp.tok_ne_bad (op : BinOp) : op.tok ≠ .bad := by cases op <;> simp [BinOp.tok]

theorem BinOp.row_op (op : BinOp) : (rowAt op.lvl).op? op.tok = some (op.kind, false) := by cases op <;> rfl

theorem BinOp.ofKind_kind (op : BinOp) : BinOp.ofKind op.kind = some op := by cases op <;> rfl

theorem UnOp.row_op (op : UnOp) : rowUnary.op? op.tok = some (op.kind, false) := by cases op <;> rfl

theorem UnOp.ofKind_kind (op : UnOp) : UnOp.ofKind op.kind = some op := by cases op <;> rfl

theorem mkUnary_nonval (op : UnOp) (e : Expr) (h : e.isVal = false) : mkUnary op.kind e = .ok (.un op e) := by
  unfold mkUnary
  rw [UnOp.ofKind_kind]
  cases e <;> simp_all [Expr.isVal]

theorem rowAt_operand (L : Nat) (h5 : 5 ≤ L) (h9 : L ≤ 9) : (rowAt L).operand = levelName (L + 1) := by
  have : L = 5 ∨ L = 6 ∨ L = 7 ∨ L = 8 ∨ L = 9 := by omega
  rcases this with rfl | rfl | rfl | rfl | rfl <;> rfl

/-- parsed at level `ℓ`, `ts` (followed by anything no tighter level takes) leaves
    the loop of level `ℓ` holding `e`; `k` iterations of that loop were spent inside `ts` -/
def HAt (ℓ : Nat) (ts : List Tok) (k : Nat) (e : Expr) : Prop :=
  ∀ rest g, followOK (ℓ + 1) rest = true → 16 * ts.length + 16 ≤ (g + k + 1) + ℓ →
    parseLevel (g + k + 1) (levelName ℓ) false (ts ++ rest) = binLoop g (rowAt ℓ) e rest

theorem H_of_F {ℓ : Nat} (h5 : 5 ≤ ℓ) (h9 : ℓ ≤ 9) {ts : List Tok} {e : Expr} (hF : ParsesAt (ℓ + 1) ts e)
    (he : e.isNil = false) : HAt ℓ ts 0 e := by
  intro rest g hf hfuel
  rw [show g + 0 + 1 = g + 1 by omega, pl_bin ℓ h5 h9, binStep]
  rw [afterFirst_ok (row := rowAt ℓ) (by rw [rowAt_first ℓ (by omega)]; exact hF rest g hf (by omega)) he]

theorem F_of_H {ℓ : Nat} (h5 : 5 ≤ ℓ) (h9 : ℓ ≤ 9) {ts : List Tok} {k : Nat} {e : Expr} (hH : HAt ℓ ts k e)
    (hk : k ≤ ts.length) : ParsesAt ℓ ts e := by
  intro rest f hf hfuel
  obtain ⟨g, hg⟩ : ∃ g, f = (g + 1) + k + 1 := ⟨f - k - 2, by omega⟩
  rw [hg, hH rest (g + 1) (followOK_mono hf (by omega)) (by omega)]
  exact binLoop_stop ℓ (by omega) g e rest hf

/-- one more iteration of the loop: `a op b` with `a` left in the loop and `b` an operand of the next level -/
theorem H_bin (op : BinOp) {ta tb : List Tok} {ka : Nat} {a b : Expr}
    (hA : HAt op.lvl ta ka a) (hka : ka ≤ ta.length) (hB : ParsesAt (op.lvl + 1) tb b) (hb : b.isNil = false) :
    HAt op.lvl (ta ++ op.tok :: tb) (ka + 1) (.bin op a b) := by
  intro rest g hf hfuel
  have ⟨h5, h9⟩ := op.lvl_range
  simp only [List.length_append, List.length_cons] at hfuel
  rw [show (ta ++ op.tok :: tb) ++ rest = ta ++ (op.tok :: (tb ++ rest)) by simp,
      show g + (ka + 1) + 1 = (g + 1) + ka + 1 by omega]
  rw [hA (op.tok :: (tb ++ rest)) (g + 1) (by
        simp [followOK, Tok.okAfter, op.tok_cl, op.tok_ne_bad]) (by omega)]
  rw [binLoop]
  have hop := op.row_op
  have hne := op.tok_ne_bad
  have hb' : parseLevel g (rowAt op.lvl).operand false (tb ++ rest) = .ok (b, rest) := by
    rw [rowAt_operand _ h5 h9]; exact hB rest g hf (by omega)
  unfold binLoopStep
  split
  · simp_all
  · simp_all
  · rename_i t r hnb heq
    cases heq
    simp only [hop, hb', hb, mkBin, op.ofKind_kind]
    simp

theorem parsesAt_unary (op : UnOp) {ts : List Tok} {e : Expr} (hE : ParsesAt 11 ts e) (he : e.isNil = false)
    (hv : e.isVal = false) (L : Nat) (hL : L ≤ 10) : ParsesAt L (op.tok :: ts) (.un op e) := by
  intro rest f hf hfuel
  simp only [List.length_cons] at hfuel
  obtain ⟨g, hg⟩ : ∃ g, f = (g + 1) + (10 - L) := ⟨f - (10 - L) - 1, by omega⟩
  have h1 : parseLevel g (levelName 11) false (ts ++ rest) = .ok (e, rest) :=
    hE rest g (followOK_mono hf (by omega)) (by omega)
  have h2 : parseLevel (g + 1) (levelName 10) false (op.tok :: (ts ++ rest)) = .ok (.un op e, rest) := by
    rw [pl_unary]
    simp only [unaryStep, op.row_op]
    rw [show rowUnary.operand = levelName 11 from rfl, h1]
    simp [he, mkUnary_nonval op e hv]
  have h3 := descend_to (10 - L) L (by omega) (g := g + 1) (toks := op.tok :: (ts ++ rest)) (e := .un op e) (rest := rest)
    (by rw [show L + (10 - L) = 10 by omega]; exact h2) rfl hf (by intro _ h; omega)
  rw [hg]
  simpa using h3

theorem parsesAt_query {tc ta tb : List Tok} {c a b : Expr} (hC : ParsesAt 5 tc c) (hA : ParsesAt 5 ta a) (hB : ParsesAt 5 tb b)
    (hc : c.isNil = false) (ha : a.isNil = false) (hb : b.isNil = false) (L : Nat) (hL : L ≤ 4) :
    ParsesAt L (tc ++ .query :: (ta ++ .colon :: tb)) (.query c a b) := by
  intro rest f hf hfuel
  simp only [List.length_cons, List.length_append] at hfuel
  obtain ⟨g, hg⟩ : ∃ g, f = (g + 1) + (4 - L) := ⟨f - (4 - L) - 1, by omega⟩
  have h1 : parseLevel g (levelName 5) false (tc ++ (.query :: (ta ++ (.colon :: (tb ++ rest))))) =
      .ok (c, .query :: (ta ++ (.colon :: (tb ++ rest)))) := hC _ g (by rfl) (by omega)
  have h2 : parseLevel g (levelName 5) false (ta ++ (.colon :: (tb ++ rest))) = .ok (a, .colon :: (tb ++ rest)) :=
    hA _ g (by rfl) (by omega)
  have h3 : parseLevel g (levelName 5) false (tb ++ rest) = .ok (b, rest) :=
    hB rest g (followOK_mono hf (by omega)) (by omega)
  have h4 : parseLevel (g + 1) (levelName 4) false ((tc ++ .query :: (ta ++ .colon :: tb)) ++ rest) = .ok (.query c a b, rest) := by
    rw [show (tc ++ .query :: (ta ++ .colon :: tb)) ++ rest = tc ++ (.query :: (ta ++ (.colon :: (tb ++ rest)))) by simp]
    rw [pl_query, ternaryStep, afterFirst_ok (row := rowQuery) h1 hc]
    simp only [ternaryRest]
    rw [show rowQuery.operand = levelName 5 from rfl, h2]
    simp only [ha]
    rw [h3]
    simp [hb]
  have h5 := descend_to (4 - L) L (by omega) (g := g + 1) (e := .query c a b) (rest := rest)
    (by rw [show L + (4 - L) = 4 by omega]; exact h4) rfl hf (by intro _ h; omega)
  rw [hg]
  simpa using h5

/-! ## Every operator tree -/

/-- iterations of the level-`ℓ` loop spent inside the rendering of `e` at level `ℓ` -/
def spineK (full : Bool) (ℓ : Nat) : Expr → Nat
  | .bin op a _ => if !full && op.lvl = ℓ then spineK full ℓ a + 1 else 0
  | _ => 0

theorem spineK_le (full : Bool) (ℓ : Nat) (e : Expr) : spineK full ℓ e ≤ (render full ℓ e).length := by
  induction e with
  | bin op a b iha _ =>
    simp only [spineK]
    split
    · rename_i h
      simp only [Bool.and_eq_true, Bool.not_eq_true', decide_eq_true_eq] at h
      obtain ⟨hf, hl⟩ := h
      subst hf
      have : (render false ℓ (.bin op a b)) = render false ℓ a ++ op.tok :: render false (ℓ + 1) b := by
        simp [render, wrapParen, hl]
      rw [this]
      simp only [List.length_append, List.length_cons]
      omega
    · omega
  | _ => simp [spineK]

/-- the induction: every rendering of `e` parses back to `e` at every level, and at
    the binary levels it leaves the loop the way `H_bin` needs it for a left operand -/
theorem parse_render_all (e : Expr) (he : e.isOpTree = true) :
    (∀ full L, L ≤ 13 → ParsesAt L (render full L e) e) ∧
    (∀ full ℓ, 5 ≤ ℓ → ℓ ≤ 9 → HAt ℓ (render full ℓ e) (spineK full ℓ e) e) := by
  induction e with
  | val v =>
    refine ⟨fun full L hL => by simpa [render] using parsesAt_val v L hL, fun full ℓ h5 h9 => ?_⟩
    simpa [render, spineK] using H_of_F h5 h9 (parsesAt_val v (ℓ + 1) (by omega)) rfl
  | ident n d =>
    cases d <;> simp [Expr.isOpTree] at he
    refine ⟨fun full L hL => by simpa [render] using parsesAt_ident n L hL, fun full ℓ h5 h9 => ?_⟩
    simpa [render, spineK] using H_of_F h5 h9 (parsesAt_ident n (ℓ + 1) (by omega)) rfl
  | un op e ih =>
    simp only [Expr.isOpTree, Bool.and_eq_true, Bool.not_eq_true'] at he
    obtain ⟨ihF, _⟩ := ih he.1
    have hnil := isNil_of_opTree he.1
    have hown : ∀ full L, L ≤ 10 → ParsesAt L (own full (.un op e)) (.un op e) := fun full L hL =>
      parsesAt_unary op (ihF full 11 (by omega)) hnil he.2 L hL
    have hF : ∀ full L, L ≤ 13 → ParsesAt L (render full L (.un op e)) (.un op e) := by
      intro full L hL
      rw [render_eq]
      by_cases hp : needsParen full L (.un op e) = true
      · simp only [hp, wrapParen, if_true]
        exact parsesAt_paren (hown full 0 (by omega)) rfl L hL
      · simp only [hp, wrapParen]
        simp only [needsParen, Bool.or_eq_true, decide_eq_true_eq, not_or, Nat.not_lt] at hp
        exact hown full L hp.2
    refine ⟨hF, fun full ℓ h5 h9 => ?_⟩
    have : render full ℓ (.un op e) = render full (ℓ + 1) (.un op e) := by
      simp only [render]
      congr 1
      have h1 : ¬ (10 < ℓ) := by omega
      have h2 : ¬ (10 < ℓ + 1) := by omega
      simp [h1, h2]
    rw [this]
    simpa [spineK] using H_of_F h5 h9 (hF full (ℓ + 1) (by omega)) rfl
  | bin op a b iha ihb =>
    simp only [Expr.isOpTree, Bool.and_eq_true] at he
    obtain ⟨_, ihaH⟩ := iha he.1
    obtain ⟨ihbF, _⟩ := ihb he.2
    have ⟨h5, h9⟩ := op.lvl_range
    have hbn := isNil_of_opTree he.2
    have hownH : ∀ full, HAt op.lvl (own full (.bin op a b)) (spineK full op.lvl a + 1) (.bin op a b) := fun full =>
      H_bin op (ihaH full op.lvl h5 h9) (spineK_le full op.lvl a) (ihbF full (op.lvl + 1) (by omega)) hbn
    have hown : ∀ full L, L ≤ op.lvl → ParsesAt L (own full (.bin op a b)) (.bin op a b) := by
      intro full L hL
      have h0 : ParsesAt op.lvl (own full (.bin op a b)) (.bin op a b) :=
        F_of_H h5 h9 (hownH full) (by
          have := spineK_le full op.lvl a
          simp only [own, List.length_append, List.length_cons]
          omega)
      intro rest f hf hfuel
      obtain ⟨g, hg⟩ : ∃ g, f = g + (op.lvl - L) := ⟨f - (op.lvl - L), by omega⟩
      have h1 := h0 rest g (followOK_mono hf hL) (by omega)
      have h2 := descend_to (op.lvl - L) L (by omega) (g := g) (e := .bin op a b) (rest := rest)
        (by rw [show L + (op.lvl - L) = op.lvl by omega]; exact h1) rfl hf (by intro _ h; omega)
      rw [hg]; exact h2
    have hF : ∀ full L, L ≤ 13 → ParsesAt L (render full L (.bin op a b)) (.bin op a b) := by
      intro full L hL
      rw [render_eq]
      by_cases hp : needsParen full L (.bin op a b) = true
      · simp only [hp, wrapParen, if_true]
        exact parsesAt_paren (hown full 0 (by omega)) rfl L hL
      · simp only [hp, wrapParen]
        simp only [needsParen, Bool.or_eq_true, decide_eq_true_eq, not_or, Nat.not_lt] at hp
        exact hown full L hp.2
    refine ⟨hF, fun full ℓ h5' h9' => ?_⟩
    by_cases hs : (!full && decide (op.lvl = ℓ)) = true
    · simp only [Bool.and_eq_true, Bool.not_eq_true', decide_eq_true_eq] at hs
      obtain ⟨hf, hl⟩ := hs
      subst hf; subst hl
      have hr : render false op.lvl (.bin op a b) = own false (.bin op a b) := by
        rw [render_eq]; simp [needsParen, wrapParen]
      rw [hr]
      simpa [spineK] using hownH false
    · have hk : spineK full ℓ (.bin op a b) = 0 := by simp only [spineK, hs]; simp
      have hr : render full ℓ (.bin op a b) = render full (ℓ + 1) (.bin op a b) := by
        rw [render_eq, render_eq]
        congr 1
        simp only [Bool.and_eq_true, Bool.not_eq_true', decide_eq_true_eq, not_and] at hs
        cases full with
        | true => simp [needsParen]
        | false =>
          have := hs rfl
          simp only [needsParen, Bool.false_or, decide_eq_decide]
          omega
      rw [hk, hr]
      exact H_of_F h5' h9' (hF full (ℓ + 1) (by omega)) rfl
  | query c a b ihc iha ihb =>
    simp only [Expr.isOpTree, Bool.and_eq_true] at he
    obtain ⟨ihcF, _⟩ := ihc he.1.1
    obtain ⟨ihaF, _⟩ := iha he.1.2
    obtain ⟨ihbF, _⟩ := ihb he.2
    have hown : ∀ full L, L ≤ 4 → ParsesAt L (own full (.query c a b)) (.query c a b) := fun full L hL =>
      parsesAt_query (ihcF full 5 (by omega)) (ihaF full 5 (by omega)) (ihbF full 5 (by omega))
        (isNil_of_opTree he.1.1) (isNil_of_opTree he.1.2) (isNil_of_opTree he.2) L hL
    have hF : ∀ full L, L ≤ 13 → ParsesAt L (render full L (.query c a b)) (.query c a b) := by
      intro full L hL
      rw [render_eq]
      by_cases hp : needsParen full L (.query c a b) = true
      · simp only [hp, wrapParen, if_true]
        exact parsesAt_paren (hown full 0 (by omega)) rfl L hL
      · simp only [hp, wrapParen]
        simp only [needsParen, Bool.or_eq_true, decide_eq_true_eq, not_or, Nat.not_lt] at hp
        exact hown full L hp.2
    refine ⟨hF, fun full ℓ h5 h9 => ?_⟩
    have : render full ℓ (.query c a b) = render full (ℓ + 1) (.query c a b) := by
      rw [render_eq, render_eq]
      congr 1
      have h1 : 4 < ℓ := by omega
      have h2 : 4 < ℓ + 1 := by omega
      simp [needsParen, h1, h2]
    rw [this]
    simpa [spineK] using H_of_F h5 h9 (hF full (ℓ + 1) (by omega)) rfl
  | _ => simp [Expr.isOpTree] at he

/-- Any rendering with at least the parentheses the documented ladder demands parses back to the tree. -/
theorem parse_render (full : Bool) (e : Expr) (he : e.isOpTree = true) : parseToks (render full 0 e) = .ok e := by
  have h := (parse_render_all e he).1 full 0 (by omega) [] (parseFuel (render full 0 e)) rfl (by
    simp only [parseFuel]; omega)
  simp only [List.append_nil] at h
  simp only [parseToks, topLevel]
  rw [show "parse_value_expr" = levelName 0 from rfl, h]

/-- operator trees without a conditional -/
def Expr.noQuery : Expr → Bool
  | .query _ _ _ => false
  | .un _ e => e.noQuery
  | .bin _ l r => l.noQuery && r.noQuery
  | _ => true

/-- op_t::print's token sequence is the fully parenthesised rendering – for every
    operator tree when the O_COLON node gets no parentheses of its own (`pc = false`),
    for trees without `?:` otherwise -/
theorem printToksAux_eq_render (pc : Bool) (e : Expr) (he : e.isOpTree = true) (hq : pc = true → e.noQuery = true) :
    ∀ L, render true L e = printToksAux pc .none e := by
  induction e with
  | val v => intro L; simp [render, printToksAux]
  | ident n d => intro L; simp [render, printToksAux]
  | un op e ih =>
    intro L
    simp only [Expr.isOpTree, Bool.and_eq_true] at he
    have := ih he.1 (fun h => by simpa [Expr.noQuery] using hq h) 11
    simp [render, printToksAux, wrapParen, this]
  | bin op a b iha ihb =>
    intro L
    simp only [Expr.isOpTree, Bool.and_eq_true] at he
    have hq' : pc = true → a.noQuery = true ∧ b.noQuery = true := fun h => by simpa [Expr.noQuery] using hq h
    have h1 := iha he.1 (fun h => (hq' h).1) op.lvl
    have h2 := ihb he.2 (fun h => (hq' h).2) (op.lvl + 1)
    simp [render, printToksAux, wrapParen, h1, h2]
  | query c a b ihc iha ihb =>
    intro L
    cases pc with
    | true => simp [Expr.noQuery] at hq
    | false =>
      simp only [Expr.isOpTree, Bool.and_eq_true] at he
      have h1 := ihc he.1.1 (fun h => by cases h) 5
      have h2 := iha he.1.2 (fun h => by cases h) 5
      have h3 := ihb he.2 (fun h => by cases h) 5
      simp [render, printToksAux, wrapParen, h1, h2, h3]
  | _ => simp_all [Expr.isOpTree]

theorem printToks_eq_render (e : Expr) (he : e.isOpTree = true) (hq : e.noQuery = true) :
    ∀ L, render true L e = printToks e :=
  printToksAux_eq_render _ e he (fun _ => hq)

end Ledger
