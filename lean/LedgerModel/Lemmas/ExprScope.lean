/-
Lemmas for C15.lexical_scope: evaluation of compiled code depends on the
run-time scope only through names that compilation left unresolved, so
re-binding a name that was resolved at the definition site changes nothing.
-/
import LedgerModel.Model.Expr

namespace Ledger

def Expr.isPlug : Expr → Bool
  | .plug => true
  | _ => false

/-- no parameter of the lambda is named in `B` -/
def paramsOff (B : List String) (p : Expr) : Bool :=
  match paramNames p with
  | some ps => ps.all (fun x => !B.contains x)
  | none => true

/-- No identifier named in `B` occurs in `e` unresolved – neither as a free
    name (op.cc 125-130), nor as a lambda parameter or a use of one (PLUG,
    op.cc 188-189) – anywhere, compiled definitions included. -/
def noFree (B : List String) : Expr → Bool
  | .nil => true
  | .plug => true
  | .val _ => true
  | .ident n d => (if d.isNil || d.isPlug then !B.contains n else true) && noFree B d
  | .scope b => noFree B b
  | .un _ e => noFree B e
  | .bin _ l r => noFree B l && noFree B r
  | .query c a b => noFree B c && noFree B a && noFree B b
  | .cons l r => noFree B l && noFree B r
  | .seq l r => noFree B l && noFree B r
  | .define l r => noFree B l && noFree B r
  | .lambda p b => paramsOff B p && noFree B b
  | .call f a => noFree B f && noFree B a

/-- every definition a lookup can return is free of `B` -/
def ScopeNoFree (B : List String) (σ : Scope) : Prop := ∀ n d, σ.lookup n = some d → noFree B d = true

/-- the two scopes bind every name outside `B` alike -/
def AgreeOff (B : List String) (σ1 σ2 : Scope) : Prop :=
  (∀ n, B.contains n = false → σ1.lookup n = σ2.lookup n) ∧ ScopeNoFree B σ1 ∧ ScopeNoFree B σ2

def ResNoFree (B : List String) (r : Res RVal) : Prop := ∀ x, r = .ok x → noFree B x.toExpr = true

theorem noFree_splitCons {B : List String} : ∀ {a : Expr}, noFree B a = true → ∀ x ∈ splitCons a, noFree B x = true := by
  intro a
  induction a with
  | nil => intro _ x hx; simp [splitCons] at hx
  | cons l r _ ihr =>
    intro h x hx
    simp only [noFree, Bool.and_eq_true] at h
    simp only [splitCons, List.mem_cons] at hx
    rcases hx with rfl | hx
    · exact h.1
    · exact ihr h.2 x hx
  | _ => intro h x hx; simp only [splitCons, List.mem_singleton] at hx; subst hx; exact h

theorem paramNames_noFree {B : List String} {p : Expr} {ps : List String} (h : paramsOff B p = true)
    (hp : paramNames p = some ps) : ∀ x ∈ ps, B.contains x = false := by
  simp only [paramsOff, hp, List.all_eq_true, Bool.not_eq_true'] at h
  exact h

theorem lookup_cons_frame (fr : Frame) (σ : Scope) (n : String) :
    Scope.lookup (fr :: σ) n = (match fr.lookup n with | some d => some d | none => Scope.lookup σ n) := by
  simp only [Scope.lookup]
  cases fr.lookup n <;> rfl

theorem agree_push {B : List String} {σ1 σ2 : Scope} (h : AgreeOff B σ1 σ2) (fr : Frame)
    (hfr : ∀ n d, fr.lookup n = some d → noFree B d = true) : AgreeOff B (fr :: σ1) (fr :: σ2) := by
  obtain ⟨h1, h2, h3⟩ := h
  refine ⟨fun n hn => ?_, fun n d hd => ?_, fun n d hd => ?_⟩
  · rw [lookup_cons_frame, lookup_cons_frame, h1 n hn]
  · rw [lookup_cons_frame] at hd
    cases hf : fr.lookup n with
    | none => rw [hf] at hd; exact h2 n d hd
    | some d' => rw [hf] at hd; cases hd; exact hfr n _ hf
  · rw [lookup_cons_frame] at hd
    cases hf : fr.lookup n with
    | none => rw [hf] at hd; exact h3 n d hd
    | some d' => rw [hf] at hd; cases hd; exact hfr n _ hf

theorem agree_single {B : List String} (fr : Frame) (hfr : ∀ n d, fr.lookup n = some d → noFree B d = true) :
    AgreeOff B [fr] [fr] := by
  have : ScopeNoFree B [fr] := by
    intro n d hd
    rw [lookup_cons_frame] at hd
    cases hf : fr.lookup n with
    | none => rw [hf] at hd; simp [Scope.lookup] at hd
    | some d' => rw [hf] at hd; cases hd; exact hfr n _ hf
  exact ⟨fun _ _ => rfl, this, this⟩

/-- argument binding: same frames on both sides, every entry free of `B` -/
theorem bindArgs_noFree {B : List String} {ev1 ev2 : Expr → Res RVal}
    (hev : ∀ a, noFree B a = true → ev1 a = ev2 a ∧ ResNoFree B (ev1 a)) :
    ∀ (ps : List String) (as : List Expr), (∀ a ∈ as, noFree B a = true) →
      bindArgs ev1 ps as = bindArgs ev2 ps as ∧
      ∀ fr, bindArgs ev1 ps as = .ok fr → ∀ n d, fr.lookup n = some d → noFree B d = true := by
  intro ps
  induction ps with
  | nil =>
    intro as _
    cases as with
    | nil => refine ⟨rfl, ?_⟩; intro fr h n d hd; simp [bindArgs] at h; subst h; simp [List.lookup] at hd
    | cons a as => refine ⟨rfl, ?_⟩; intro fr h; simp [bindArgs] at h
  | cons p ps ih =>
    intro as has
    cases as with
    | nil =>
      obtain ⟨h1, h2⟩ := ih [] (by simp)
      simp only [bindArgs]
      refine ⟨by rw [h1], ?_⟩
      intro fr h n d hd
      cases hb : bindArgs ev1 ps [] with
      | error e => simp [hb, Except.map] at h
      | ok fr' =>
        simp [hb, Except.map] at h
        subst h
        simp only [List.lookup] at hd
        split at hd
        · cases hd; rfl
        · exact h2 fr' hb n d hd
    | cons a as =>
      have ha := hev a (has a (by simp))
      obtain ⟨h1, h2⟩ := ih as (fun x hx => has x (by simp [hx]))
      simp only [bindArgs]
      rw [← ha.1]
      cases hv : ev1 a with
      | error e => exact ⟨rfl, by intro fr h; simp at h⟩
      | ok v =>
        simp only
        refine ⟨by rw [h1], ?_⟩
        intro fr h n d hd
        cases hb : bindArgs ev1 ps as with
        | error e => simp [hb, Except.map] at h
        | ok fr' =>
          simp [hb, Except.map] at h
          subst h
          simp only [List.lookup] at hd
          split at hd
          · cases hd; exact ha.2 v hv
          · exact h2 fr' hb n d hd


theorem resNoFree_v {B : List String} {r : Res RVal} (h : ∀ x, r = .ok x → ∃ y, x = .v y) : ResNoFree B r := by
  intro x hx
  obtain ⟨y, rfl⟩ := h x hx
  rfl

theorem applyUn_noFree (env : PrecEnv) (B : List String) (op : UnOp) (x : RVal) : ResNoFree B (applyUn env op x) := by
  apply resNoFree_v
  intro r hr
  cases op <;> simp only [applyUn] at hr
  · cases hr; exact ⟨_, rfl⟩
  · cases x with
    | v y => cases hn : Value.neg y <;> simp [hn, Except.map] at hr; exact ⟨_, hr.symm⟩
    | fn l => simp at hr

theorem map_v_shape {α : Type} (r : Res α) (g : α → RVal) (hg : ∀ a, ∃ y, g a = .v y) (x : RVal)
    (h : r.map g = .ok x) : ∃ y, x = .v y := by
  cases r with
  | error e => simp [Except.map] at h
  | ok a => simp [Except.map] at h; obtain ⟨y, hy⟩ := hg a; exact ⟨y, by rw [← h, hy]⟩

theorem applyBin_noFree (env : PrecEnv) (B : List String) (op : BinOp) (x y : RVal) : ResNoFree B (applyBin env op x y) := by
  apply resNoFree_v
  intro r hr
  cases x <;> cases y <;> simp only [applyBin] at hr <;> try (simp at hr; done)
  rename_i a b
  cases op <;> simp only at hr <;>
    first
    | exact map_v_shape _ _ (fun a => ⟨_, rfl⟩) r hr
    | simp at hr

theorem binRest_noFree (env : PrecEnv) (B : List String) (op : BinOp) (x : RVal) (k : Unit → Res RVal)
    (hx : noFree B x.toExpr = true) (hk : ResNoFree B (k ())) : ResNoFree B (binRest env op x k) := by
  cases op <;> simp only [binRest]
  case and => split; exact hk; intro r hr; cases hr; rfl
  case or => split; (intro r hr; cases hr; exact hx); exact hk
  all_goals
    cases hkk : k () with
    | error e => intro r hr; simp at hr
    | ok y => exact applyBin_noFree env B _ x y

/-- One level of calc gives the same result in two scopes that differ only in the
    bindings of names `B`, for a tree in which `B` does not occur unresolved. -/
theorem calcStep_noFree (env : PrecEnv) (B : List String) (rec1 rec2 : Scope → Expr → Res RVal)
    (hrec : ∀ t σ1 σ2, noFree B t = true → AgreeOff B σ1 σ2 → rec1 σ1 t = rec2 σ2 t ∧ ResNoFree B (rec1 σ1 t)) :
    ∀ t σ1 σ2, noFree B t = true → AgreeOff B σ1 σ2 →
      calcStep env rec1 σ1 t = calcStep env rec2 σ2 t ∧ ResNoFree B (calcStep env rec1 σ1 t) := by
  intro t
  induction t with
  | nil => intro σ1 σ2 _ _; exact ⟨by simp only [calcStep], by intro x hx; simp only [calcStep] at hx; cases hx⟩
  | plug => intro σ1 σ2 _ _; exact ⟨by simp only [calcStep], by intro x hx; simp only [calcStep] at hx; cases hx⟩
  | val v => intro σ1 σ2 _ _; exact ⟨by simp only [calcStep], by intro x hx; simp only [calcStep] at hx; cases hx; rfl⟩
  | define l r _ _ =>
    intro σ1 σ2 _ _; exact ⟨by simp only [calcStep], by intro x hx; simp only [calcStep] at hx; cases hx; rfl⟩
  | lambda p b _ _ =>
    intro σ1 σ2 ht _
    exact ⟨by simp only [calcStep], by intro x hx; simp only [calcStep] at hx; cases hx; exact ht⟩
  | ident n d _ =>
    intro σ1 σ2 ht hσ
    simp only [calcStep]
    simp only [noFree, Bool.and_eq_true] at ht
    by_cases hd : (d.isNil || d.isPlug) = true
    · have hn : B.contains n = false := by simpa [hd] using ht.1
      have hl : identDef σ1 n d = σ1.lookup n ∧ identDef σ2 n d = σ2.lookup n := by
        cases d <;> simp_all [identDef, Expr.isNil, Expr.isPlug]
      rw [hl.1, hl.2, ← hσ.1 n hn]
      cases hlk : σ1.lookup n with
      | none => exact ⟨rfl, by intro x hx; cases hx⟩
      | some d' => exact hrec d' σ1 σ2 (hσ.2.1 n d' hlk) hσ
    · have hl : identDef σ1 n d = some d ∧ identDef σ2 n d = some d := by
        cases d <;> simp_all [identDef, Expr.isNil, Expr.isPlug]
      rw [hl.1, hl.2]
      exact hrec d σ1 σ2 ht.2 hσ
  | scope b ih => intro σ1 σ2 ht hσ; simp only [calcStep]; exact ih σ1 σ2 (by simpa [noFree] using ht) hσ
  | un op e ih =>
    intro σ1 σ2 ht hσ
    simp only [calcStep]
    obtain ⟨h1, _⟩ := ih σ1 σ2 (by simpa [noFree] using ht) hσ
    rw [← h1]
    refine ⟨rfl, ?_⟩
    cases calcStep env rec1 σ1 e with
    | error x => intro r hr; cases hr
    | ok x => exact applyUn_noFree env B op x
  | bin op l r ihl ihr =>
    intro σ1 σ2 ht hσ
    simp only [noFree, Bool.and_eq_true] at ht
    simp only [calcStep]
    obtain ⟨h1, h1'⟩ := ihl σ1 σ2 ht.1 hσ
    obtain ⟨h2, h2'⟩ := ihr σ1 σ2 ht.2 hσ
    rw [← h1, ← h2]
    refine ⟨rfl, ?_⟩
    cases hx : calcStep env rec1 σ1 l with
    | error x => intro r hr; cases hr
    | ok x => exact binRest_noFree env B op x _ (h1' x hx) h2'
  | query c a b ihc iha ihb =>
    intro σ1 σ2 ht hσ
    simp only [noFree, Bool.and_eq_true] at ht
    simp only [calcStep]
    obtain ⟨h1, _⟩ := ihc σ1 σ2 ht.1.1 hσ
    obtain ⟨h2, h2'⟩ := iha σ1 σ2 ht.1.2 hσ
    obtain ⟨h3, h3'⟩ := ihb σ1 σ2 ht.2 hσ
    rw [← h1, ← h2, ← h3]
    refine ⟨rfl, ?_⟩
    cases calcStep env rec1 σ1 c with
    | error x => intro r hr; cases hr
    | ok x => simp only; split; exact h2'; exact h3'
  | seq l r ihl ihr =>
    intro σ1 σ2 ht hσ
    simp only [noFree, Bool.and_eq_true] at ht
    simp only [calcStep]
    obtain ⟨h1, _⟩ := ihl σ1 σ2 ht.1 hσ
    obtain ⟨h2, h2'⟩ := ihr σ1 σ2 ht.2 hσ
    rw [← h1, ← h2]
    refine ⟨rfl, ?_⟩
    cases calcStep env rec1 σ1 l with
    | error x => intro r hr; cases hr
    | ok x => exact h2'
  | cons l r ihl _ =>
    intro σ1 σ2 ht hσ
    simp only [noFree, Bool.and_eq_true] at ht
    cases r with
    | nil => simp only [calcStep]; exact ihl σ1 σ2 ht.1 hσ
    | _ => exact ⟨by simp only [calcStep], by intro x hx; simp only [calcStep] at hx; cases hx⟩
  | call f a ihf _ =>
    intro σ1 σ2 ht hσ
    simp only [noFree, Bool.and_eq_true] at ht
    simp only [calcStep]
    obtain ⟨h1, h1'⟩ := ihf σ1 σ2 ht.1 hσ
    rw [← h1]
    cases hfv : calcStep env rec1 σ1 f with
    | error x => exact ⟨rfl, by intro r hr; cases hr⟩
    | ok fv =>
      simp only
      have hfn := h1' fv hfv
      cases fv with
      | v x => exact ⟨by simp only [callLambda], by intro r hr; simp only [callLambda] at hr; cases hr⟩
      | fn lam =>
        cases lam with
        | lambda p b =>
          simp only [RVal.toExpr, noFree, Bool.and_eq_true] at hfn
          simp only [callLambda]
          cases hp : paramNames p with
          | none => exact ⟨rfl, by intro r hr; cases hr⟩
          | some ps =>
            simp only
            obtain ⟨hb1, hb2⟩ := bindArgs_noFree (B := B) (ev1 := rec1 σ1) (ev2 := rec2 σ2)
              (fun a ha => hrec a σ1 σ2 ha hσ) ps (splitCons a) (noFree_splitCons ht.2)
            rw [← hb1]
            cases hfr : bindArgs (rec1 σ1) ps (splitCons a) with
            | error x => exact ⟨rfl, by intro r hr; cases hr⟩
            | ok fr =>
              simp only
              have hfr' := hb2 fr hfr
              cases b with
              | scope b' => exact hrec b' _ _ (by simpa [noFree] using hfn.2) (agree_push hσ fr hfr')
              | _ => exact hrec _ _ _ hfn.2 (agree_single fr hfr')
        | _ => exact ⟨by simp only [callLambda], by intro r hr; simp only [callLambda] at hr; cases hr⟩

theorem calcF_noFree (env : PrecEnv) (B : List String) (f : Nat) : ∀ t σ1 σ2, noFree B t = true → AgreeOff B σ1 σ2 →
    calcF env f σ1 t = calcF env f σ2 t ∧ ResNoFree B (calcF env f σ1 t) := by
  induction f with
  | zero => intro t σ1 σ2 _ _; exact ⟨by simp only [calcF], by intro x hx; simp only [calcF] at hx; cases hx⟩
  | succ f ih =>
    intro t σ1 σ2 ht hσ
    simp only [calcF]
    exact calcStep_noFree env B _ _ ih t σ1 σ2 ht hσ

/-! ## What compile resolves -/

def Expr.isScopeNode : Expr → Bool
  | .scope _ => true
  | _ => false

/-- trees as the parser builds them (identifiers carry no definition, the right
    side of a definition is a SCOPE node) whose lambda and function parameters
    are not named in `B` -/
def srcOK (B : List String) : Expr → Bool
  | .nil => true
  | .plug => true
  | .val _ => true
  | .ident _ d => d.isNil
  | .scope b => srcOK B b
  | .un _ e => srcOK B e
  | .bin _ l r => srcOK B l && srcOK B r
  | .query c a b => srcOK B c && srcOK B a && srcOK B b
  | .cons l r => srcOK B l && srcOK B r
  | .seq l r => srcOK B l && srcOK B r
  | .define l r =>
    (match defTarget l with
     | some (_, some (params, _)) => paramsOff B params
     | _ => true) && r.isScopeNode && srcOK B r
  | .lambda p b => paramsOff B p && srcOK B b
  | .call f a => srcOK B f && srcOK B a

/-- every definition in the frame is free of `B` and is a real node -/
def GOK (B : List String) (G : Frame) : Prop :=
  ∀ n d, G.lookup n = some d → noFree B d = true ∧ (d.isNil || d.isPlug) = false

def PiOK (B : List String) (π : List (List String)) : Prop := ∀ ps ∈ π, ∀ x ∈ ps, B.contains x = false

def DomOK (B : List String) (G : Frame) : Prop := ∀ n, B.contains n = true → G.lookup n ≠ none

theorem GOK.cons {B : List String} {G : Frame} (h : GOK B G) (n : String) (d : Expr) (hd : noFree B d = true)
    (hn : (d.isNil || d.isPlug) = false) : GOK B ((n, d) :: G) := by
  intro m x hx
  simp only [List.lookup] at hx
  split at hx
  · cases hx; exact ⟨hd, hn⟩
  · exact h m x hx

theorem DomOK.cons {B : List String} {G : Frame} (h : DomOK B G) (n : String) (d : Expr) : DomOK B ((n, d) :: G) := by
  intro m hm
  simp only [List.lookup]
  split
  · simp
  · exact h m hm

theorem finish_noFree {env : PrecEnv} {fold : Bool} {B : List String} {new n : Expr} {ch av c : Bool}
    (h : finish env fold new ch av = .ok (n, c)) (hn : noFree B new = true) : noFree B n = true := by
  unfold finish at h
  split at h
  · cases h; exact hn
  · split at h
    · cases hw : foldCalc env new with
      | error e => simp [hw, Except.map] at h
      | ok w =>
        simp only [hw, Except.map] at h
        cases h
        unfold foldCalc at hw
        split at hw
        · cases hw
        · cases hw; rfl
        · cases hw
    · cases h; exact hn

theorem defTarget_params {l : Expr} {n : String} {params : Expr} {ps : List String}
    (h : defTarget l = some (n, some (params, ps))) : paramNames params = some ps := by
  unfold defTarget at h
  split at h
  · cases h
  · split at h
    · rename_i hq
      cases h
      exact hq
    · cases h
  · cases h

/-- what compiling a SCOPE node yields is never nil / PLUG -/
theorem compile_scope_shape {env : PrecEnv} {fold : Bool} {G : Frame} {π : List (List String)} {b r1 : Expr} {cr : Bool} {Gr : Frame}
    (hc : compile env fold G π (.scope b) = .ok (r1, cr, Gr)) : (r1.isNil || r1.isPlug) = false := by
  simp only [compile] at hc
  cases hb : compile env fold G π b with
  | error x => simp [hb] at hc
  | ok res =>
    obtain ⟨b1, ch, Gb⟩ := res
    simp only [hb] at hc
    split at hc
    · cases hc; rfl
    · split at hc
      · rename_i hv
        cases hc
        simp only [Bool.and_eq_true] at hv
        cases r1 <;> simp_all [Expr.isVal, Expr.isNil, Expr.isPlug]
      · cases hc; rfl

/-- compile resolves every use of a name bound in `G`, so the names `B ⊆ dom G`
    do not occur unresolved in what it produces, nor in what it defines -/
theorem compile_noFree (env : PrecEnv) (fold : Bool) (B : List String) :
    ∀ (e : Expr) (G : Frame) (π : List (List String)) (e' : Expr) (c : Bool) (G' : Frame),
      srcOK B e = true → GOK B G → PiOK B π → DomOK B G → compile env fold G π e = .ok (e', c, G') →
      noFree B e' = true ∧ GOK B G' ∧ DomOK B G' := by
  intro e
  induction e with
  | nil => intro G π e' c G' _ hG _ hD h; simp only [compile] at h; cases h; exact ⟨rfl, hG, hD⟩
  | plug => intro G π e' c G' _ hG _ hD h; simp only [compile] at h; cases h; exact ⟨rfl, hG, hD⟩
  | val v => intro G π e' c G' _ hG _ hD h; simp only [compile] at h; cases h; exact ⟨rfl, hG, hD⟩
  | ident n d _ =>
    intro G π e' c G' hs hG hP hD h
    simp only [srcOK] at hs
    have hd : d = .nil := by cases d <;> simp_all [Expr.isNil]
    subst hd
    simp only [compile] at h
    split at h
    · rename_i hp
      cases h
      refine ⟨?_, hG, hD⟩
      simp only [List.any_eq_true] at hp
      obtain ⟨ps, hps, hc⟩ := hp
      have := hP ps hps n (by simpa using hc)
      have this' : ¬ n ∈ B := by simpa using this
      simp [noFree, Expr.isNil, Expr.isPlug, this']
    · cases hl : G.lookup n with
      | some d' =>
        simp only [hl] at h
        cases h
        obtain ⟨h1, h2⟩ := hG n d' hl
        exact ⟨by simp [noFree, h1, h2], hG, hD⟩
      | none =>
        simp only [hl] at h
        cases h
        have : B.contains n = false := by
          cases hb : B.contains n with
          | false => rfl
          | true => exact absurd hl (hD n hb)
        have this' : ¬ n ∈ B := by simpa using this
        exact ⟨by simp [noFree, Expr.isNil, this'], hG, hD⟩
  | scope b ih =>
    intro G π e' c G' hs hG hP hD h
    simp only [srcOK] at hs
    simp only [compile] at h
    cases hb : compile env fold G π b with
    | error x => simp [hb] at h
    | ok r =>
      obtain ⟨b1, ch, Gb⟩ := r
      obtain ⟨h1, h2, h3⟩ := ih G π b1 ch Gb hs hG hP hD hb
      simp only [hb] at h
      split at h
      · cases h; exact ⟨by simpa [noFree] using h1, h2, h3⟩
      · split at h
        · cases h; exact ⟨h1, h2, h3⟩
        · cases h; exact ⟨by simpa [noFree] using h1, h2, h3⟩
  | define l r _ ihr =>
    intro G π e' c G' hs hG hP hD h
    simp only [srcOK, Bool.and_eq_true] at hs
    obtain ⟨⟨hs1, hs2⟩, hs3⟩ := hs
    obtain ⟨b, hrb⟩ : ∃ b, r = .scope b := by cases r <;> simp_all [Expr.isScopeNode]
    simp only [compile] at h
    cases ht : defTarget l with
    | none => simp [ht] at h
    | some t =>
      obtain ⟨n, o⟩ := t
      cases o with
      | none =>
        simp only [ht] at h
        cases hr : compile env fold G π r with
        | error x => simp [hr] at h
        | ok res =>
          obtain ⟨r1, cr, Gr⟩ := res
          obtain ⟨h1, h2, h3⟩ := ihr G π r1 cr Gr hs3 hG hP hD hr
          simp only [hr] at h
          cases h
          exact ⟨rfl, h2.cons n r1 h1 (compile_scope_shape (hrb ▸ hr)), h3.cons n r1⟩
      | some pp =>
        obtain ⟨params, ps⟩ := pp
        simp only [ht] at h hs1
        have hps : paramNames params = some ps := defTarget_params ht
        have hP' : PiOK B (ps :: π) := by
          intro qs hqs x hx
          simp only [List.mem_cons] at hqs
          rcases hqs with rfl | hqs
          · exact paramNames_noFree hs1 hps x hx
          · exact hP qs hqs x hx
        cases hr : compile env fold G (ps :: π) r with
        | error x => simp [hr] at h
        | ok res =>
          obtain ⟨r1, cr, Gr⟩ := res
          obtain ⟨h1, h2, h3⟩ := ihr G (ps :: π) r1 cr Gr hs3 hG hP' hD hr
          simp only [hr] at h
          cases h
          exact ⟨rfl, h2.cons n (.lambda params r1) (by simp [noFree, hs1, h1]) rfl, h3.cons n _⟩
  | lambda p b _ ihb =>
    intro G π e' c G' hs hG hP hD h
    simp only [srcOK, Bool.and_eq_true] at hs
    simp only [compile] at h
    cases hp : paramNames p with
    | none => simp [hp] at h
    | some ps =>
      simp only [hp] at h
      have hP' : PiOK B (ps :: π) := by
        intro qs hqs x hx
        simp only [List.mem_cons] at hqs
        rcases hqs with rfl | hqs
        · exact paramNames_noFree hs.1 hp x hx
        · exact hP qs hqs x hx
      cases hb : compile env fold G (ps :: π) b with
      | error x => simp [hb] at h
      | ok res =>
        obtain ⟨b1, cb, Gb⟩ := res
        obtain ⟨h1, h2, h3⟩ := ihb G (ps :: π) b1 cb Gb hs.2 hG hP' hD hb
        simp only [hb] at h
        cases h
        exact ⟨by simp [noFree, hs.1, h1], h2, h3⟩
  | un op e ih =>
    intro G π e' c G' hs hG hP hD h
    simp only [srcOK] at hs
    simp only [compile] at h
    cases he : compile env fold G π e with
    | error x => simp [he] at h
    | ok res =>
      obtain ⟨x1, ch, Ge⟩ := res
      obtain ⟨h1, h2, h3⟩ := ih G π x1 ch Ge hs hG hP hD he
      simp only [he] at h
      cases hfin : finish env fold (.un op x1) ch x1.isVal with
      | error x => simp [hfin] at h
      | ok res =>
        obtain ⟨n1, c'⟩ := res
        simp only [hfin] at h
        cases h
        exact ⟨finish_noFree hfin (by simpa [noFree] using h1), h2, h3⟩
  | bin op l r ihl ihr =>
    intro G π e' c G' hs hG hP hD h
    simp only [srcOK, Bool.and_eq_true] at hs
    simp only [compile] at h
    cases hl : compile env fold G π l with
    | error x => simp [hl] at h
    | ok res =>
      obtain ⟨l1, cl, Gl⟩ := res
      obtain ⟨h1, h2, h3⟩ := ihl G π l1 cl Gl hs.1 hG hP hD hl
      simp only [hl] at h
      cases hr : compile env fold Gl π r with
      | error x => simp [hr] at h
      | ok res =>
        obtain ⟨r1, cr, Gr⟩ := res
        obtain ⟨h4, h5, h6⟩ := ihr Gl π r1 cr Gr hs.2 h2 hP h3 hr
        simp only [hr] at h
        cases hfin : finish env fold (.bin op l1 r1) (cl || cr) (l1.isVal && r1.isVal) with
        | error x => simp [hfin] at h
        | ok res =>
          obtain ⟨n1, c'⟩ := res
          simp only [hfin] at h
          cases h
          exact ⟨finish_noFree hfin (by simp [noFree, h1, h4]), h5, h6⟩
  | query cnd a b ihc iha ihb =>
    intro G π e' c G' hs hG hP hD h
    simp only [srcOK, Bool.and_eq_true] at hs
    simp only [compile] at h
    cases hc : compile env fold G π cnd with
    | error x => simp [hc] at h
    | ok res =>
      obtain ⟨c1, cc, Gc⟩ := res
      obtain ⟨h1, h2, h3⟩ := ihc G π c1 cc Gc hs.1.1 hG hP hD hc
      simp only [hc] at h
      cases ha : compile env fold Gc π a with
      | error x => simp [ha] at h
      | ok res =>
        obtain ⟨a1, ca, Ga⟩ := res
        obtain ⟨h4, h5, h6⟩ := iha Gc π a1 ca Ga hs.1.2 h2 hP h3 ha
        simp only [ha] at h
        cases hb : compile env fold Ga π b with
        | error x => simp [hb] at h
        | ok res =>
          obtain ⟨b1, cb, Gb⟩ := res
          obtain ⟨h7, h8, h9⟩ := ihb Ga π b1 cb Gb hs.2 h5 hP h6 hb
          simp only [hb] at h
          split at h
          · simp at h
          · cases h
            exact ⟨by simp [noFree, h1, h4, h7], h8, h9⟩
  | seq l r ihl ihr =>
    intro G π e' c G' hs hG hP hD h
    simp only [srcOK, Bool.and_eq_true] at hs
    simp only [compile] at h
    cases hl : compile env fold G π l with
    | error x => simp [hl] at h
    | ok res =>
      obtain ⟨l1, cl, Gl⟩ := res
      obtain ⟨h1, h2, h3⟩ := ihl G π l1 cl Gl hs.1 hG hP hD hl
      simp only [hl] at h
      cases hr : compile env fold Gl π r with
      | error x => simp [hr] at h
      | ok res =>
        obtain ⟨r1, cr, Gr⟩ := res
        obtain ⟨h4, h5, h6⟩ := ihr Gl π r1 cr Gr hs.2 h2 hP h3 hr
        simp only [hr] at h
        cases hfin : finish env fold (.seq l1 r1) (cl || cr) (l1.isVal && (r1.isVal || r1.isNil)) with
        | error x => simp [hfin] at h
        | ok res =>
          obtain ⟨n1, c'⟩ := res
          simp only [hfin] at h
          cases h
          exact ⟨finish_noFree hfin (by simp [noFree, h1, h4]), h5, h6⟩
  | cons l r ihl ihr =>
    intro G π e' c G' hs hG hP hD h
    simp only [srcOK, Bool.and_eq_true] at hs
    simp only [compile] at h
    cases hl : compile env fold G π l with
    | error x => simp [hl] at h
    | ok res =>
      obtain ⟨l1, cl, Gl⟩ := res
      obtain ⟨h1, h2, h3⟩ := ihl G π l1 cl Gl hs.1 hG hP hD hl
      simp only [hl] at h
      cases hr : compile env fold Gl π r with
      | error x => simp [hr] at h
      | ok res =>
        obtain ⟨r1, cr, Gr⟩ := res
        obtain ⟨h4, h5, h6⟩ := ihr Gl π r1 cr Gr hs.2 h2 hP h3 hr
        simp only [hr] at h
        cases hfin : finish env fold (.cons l1 r1) (cl || cr) (l1.isVal && (r1.isVal || r1.isNil)) with
        | error x => simp [hfin] at h
        | ok res =>
          obtain ⟨n1, c'⟩ := res
          simp only [hfin] at h
          cases h
          exact ⟨finish_noFree hfin (by simp [noFree, h1, h4]), h5, h6⟩
  | call f a ihf iha =>
    intro G π e' c G' hs hG hP hD h
    simp only [srcOK, Bool.and_eq_true] at hs
    simp only [compile] at h
    cases hl : compile env fold G π f with
    | error x => simp [hl] at h
    | ok res =>
      obtain ⟨l1, cl, Gl⟩ := res
      obtain ⟨h1, h2, h3⟩ := ihf G π l1 cl Gl hs.1 hG hP hD hl
      simp only [hl] at h
      cases hr : compile env fold Gl π a with
      | error x => simp [hr] at h
      | ok res =>
        obtain ⟨r1, cr, Gr⟩ := res
        obtain ⟨h4, h5, h6⟩ := iha Gl π r1 cr Gr hs.2 h2 hP h3 hr
        simp only [hr] at h
        cases hfin : finish env fold (.call l1 r1) (cl || cr) (l1.isVal && (r1.isVal || r1.isNil)) with
        | error x => simp [hfin] at h
        | ok res =>
          obtain ⟨n1, c'⟩ := res
          simp only [hfin] at h
          cases h
          exact ⟨finish_noFree hfin (by simp [noFree, h1, h4]), h5, h6⟩

/-! ## Re-binding resolved names -/

theorem lookup_append_off {B : List String} {Δ G : Frame} (hΔ : ∀ p ∈ Δ, B.contains p.1 = true) (n : String)
    (hn : B.contains n = false) : (Δ ++ G).lookup n = G.lookup n := by
  induction Δ with
  | nil => rfl
  | cons p Δ ih =>
    obtain ⟨m, d⟩ := p
    have hm : B.contains m = true := hΔ (m, d) (by simp)
    have hne : (n == m) = false := by
      cases h : (n == m) with
      | false => rfl
      | true => have := eq_of_beq h; subst this; rw [hn] at hm; cases hm
    simp only [List.cons_append, List.lookup, hne]
    exact ih (fun p hp => hΔ p (by simp [hp]))

theorem lookup_append_noFree {B : List String} {Δ G : Frame} (hΔ : ∀ p ∈ Δ, noFree B p.2 = true) (hG : GOK B G)
    (n : String) (d : Expr) (h : (Δ ++ G).lookup n = some d) : noFree B d = true := by
  induction Δ with
  | nil => exact (hG n d h).1
  | cons p Δ ih =>
    obtain ⟨m, x⟩ := p
    simp only [List.cons_append, List.lookup] at h
    split at h
    · cases h; exact hΔ (m, _) (by simp)
    · exact ih (fun p hp => hΔ p (by simp [hp])) h

theorem scope_single_lookup (fr : Frame) (n : String) : Scope.lookup [fr] n = fr.lookup n := by
  simp only [Scope.lookup]
  cases fr.lookup n <;> rfl

/-- Definition-site binding.  Compile `e` where the names `B` are bound; afterwards
    re-bind any of the names `B` (frame `Δ` in front of the definitions): the
    compiled `e` evaluates exactly as before. -/
theorem rebinding_invariant (env : PrecEnv) (fold : Bool) (B : List String) (G : Frame) (e e' : Expr) (c : Bool) (G' Δ : Frame)
    (f : Nat) (hs : srcOK B e = true) (hG : GOK B G) (hD : DomOK B G)
    (hc : compile env fold G [] e = .ok (e', c, G'))
    (hΔ : ∀ p ∈ Δ, B.contains p.1 = true ∧ noFree B p.2 = true) :
    calcF env f [Δ ++ G'] e' = calcF env f [G'] e' := by
  obtain ⟨h1, h2, _⟩ := compile_noFree env fold B e G [] e' c G' hs hG (by intro ps hps; simp at hps) hD hc
  refine (calcF_noFree env B f e' [Δ ++ G'] [G'] h1 ⟨?_, ?_, ?_⟩).1
  · intro n hn
    rw [scope_single_lookup, scope_single_lookup]
    exact lookup_append_off (fun p hp => (hΔ p hp).1) n hn
  · intro n d hd
    rw [scope_single_lookup] at hd
    exact lookup_append_noFree (fun p hp => (hΔ p hp).2) h2 n d hd
  · intro n d hd
    rw [scope_single_lookup] at hd
    exact (h2 n d hd).1

end Ledger
