/-
Helper lemmas behind Props/C01.lean and Props/C02.lean (model: Model/Finalize.lean).

Contents
 1. denotation of `balance += amount` / `balance -= amount` on a `Value`
    (the cells `finalize` uses), well-formedness (one entry per commodity) of
    the residual balance and its preservation;
 2. display-zero: `Value.isZero` of a well-formed value gives, per commodity, an
    exact quantity that prints as zero at the commodity's display precision;
 3. the invariant `balance.den c = residual posts c` through scan / bucket /
    implicit exchange / null filling;
 4. sorting of the residual's entries by symbol is independent of the
    enumeration order of the hash map;
 5. decimal grid lemmas for the exact fragment (no costs, every amount written
    with at most the commodity's display precision).
-/
import LedgerModel.Model.Finalize
import LedgerModel.Lemmas.Value

namespace Ledger
namespace FinX

/-! ### 1. numeric values -/

/-- VOID / INTEGER / AMOUNT / BALANCE (what `balance` can be inside finalize). -/
def isNum : Value → Bool
  | .bool _ => false
  | _ => true

/-- one entry per commodity -/
def wfB (b : Balance) : Prop := (b.map (·.comm)).Nodup

def wfV : Value → Prop
  | .bal b => wfB b
  | _ => True

theorem add_amt_den (v : Value) (a : Amount) (r : Value) (h : Value.add v (.amt a) = .ok r)
    (c : Comm) : r.den c = v.den c + a.den c := by
  cases v with
  | void => simp only [Value.add] at h; cases h; simp only [Value.den]; grind
  | bool b => simp [Value.add] at h
  | int x =>
    simp only [Value.add] at h
    split at h
    · cases h
      simp only [Value.den, Balance.addAmt_den, Balance.den_ofAmt, Amount.den_ofInt]
    · rename_i hy
      obtain ⟨r', hr, rfl⟩ := Except.map_eq_ok h
      have hc : (Amount.ofInt x).comm = a.comm := by
        simp [Amount.hasComm] at hy; simp [Amount.ofInt, hy]
      simpa [Value.den] using Amount.add_den hr hc c
  | amt x =>
    simp only [Value.add] at h
    split at h
    · cases h
      simp only [Value.den, Balance.addAmt_den, Balance.den_ofAmt]
    · rename_i hxy
      obtain ⟨r', hr, rfl⟩ := Except.map_eq_ok h
      have hc : x.comm = a.comm := by simpa using hxy
      simpa [Value.den] using Amount.add_den hr hc c
  | bal x =>
    simp only [Value.add] at h; cases h; simp only [Value.den, Balance.addAmt_den]

theorem sub_amt_den (v : Value) (a : Amount) (r : Value) (h : Value.sub v (.amt a) = .ok r)
    (c : Comm) : r.den c = v.den c - a.den c := by
  cases v with
  | void => simp [Value.sub] at h
  | bool b => simp [Value.sub] at h
  | int x =>
    simp only [Value.sub] at h
    split at h
    · cases h
      rw [Value.simplify_den]
      simp only [Value.den, Balance.subAmt_den, Balance.den_ofAmt, Amount.den_ofInt]
    · rename_i hy
      obtain ⟨r', hr, rfl⟩ := Except.map_eq_ok h
      rw [Value.simplify_den]
      have hflag : Gen.intSubAmtPromotes = true := by decide
      have hc : (Amount.ofInt x).comm = a.comm := by
        simp [hflag, Amount.hasComm] at hy; simp [Amount.ofInt, hy]
      simpa [Value.den] using Amount.sub_den hr hc c
  | amt x =>
    simp only [Value.sub] at h
    split at h
    · cases h; rw [Value.simplify_den]
      simp only [Value.den, Balance.subAmt_den, Balance.den_ofAmt]
    · rename_i hxy
      obtain ⟨r', hr, rfl⟩ := Except.map_eq_ok h
      rw [Value.simplify_den]
      have hc : x.comm = a.comm := by simpa using hxy
      simpa [Value.den] using Amount.sub_den hr hc c
  | bal x =>
    simp only [Value.sub] at h; cases h; rw [Value.simplify_den]
    simp only [Value.den, Balance.subAmt_den]

theorem add_amt_ok (v : Value) (a : Amount) (hv : isNum v = true) :
    ∃ r, Value.add v (.amt a) = .ok r ∧ isNum r = true := by
  cases v with
  | void => exact ⟨_, rfl, rfl⟩
  | bool b => simp [isNum] at hv
  | int x =>
    simp only [Value.add]
    split
    · exact ⟨_, rfl, rfl⟩
    · rename_i hy
      have : (Amount.ofInt x).hasComm = false := by simp [Amount.hasComm, Amount.ofInt]
      simp [Amount.add, this, Except.map, isNum]
  | amt x =>
    simp only [Value.add]
    split
    · exact ⟨_, rfl, rfl⟩
    · rename_i hxy
      have hc : x.comm = a.comm := by simpa using hxy
      simp [Amount.add, hc, Except.map, isNum]
  | bal x => exact ⟨_, rfl, rfl⟩

/-! well-formedness of balances -/

theorem addGo_mem (b : Balance) (a : Amount) (c : Comm) :
    c ∈ (Balance.addGo b a).map (·.comm) ↔ c ∈ b.map (·.comm) ∨ c = a.comm := by
  induction b with
  | nil => simp [Balance.addGo]
  | cons x xs ih =>
    unfold Balance.addGo
    split
    · rename_i h
      simp only [List.map_cons, List.mem_cons]
      constructor
      · rintro (h1 | h1)
        · exact Or.inl (Or.inl h1)
        · exact Or.inl (Or.inr h1)
      · rintro ((h1 | h1) | h1)
        · exact Or.inl h1
        · exact Or.inr h1
        · exact Or.inl (h1.trans h.symm)
    · simp only [List.map_cons, List.mem_cons, ih]
      constructor
      · rintro (h1 | h1 | h1)
        · exact Or.inl (Or.inl h1)
        · exact Or.inl (Or.inr h1)
        · exact Or.inr h1
      · rintro ((h1 | h1) | h1)
        · exact Or.inl h1
        · exact Or.inr (Or.inl h1)
        · exact Or.inr (Or.inr h1)

theorem wfB_addGo (b : Balance) (a : Amount) (h : wfB b) : wfB (Balance.addGo b a) := by
  induction b with
  | nil => simp [Balance.addGo, wfB]
  | cons x xs ih =>
    unfold wfB at h ih ⊢
    simp only [List.map_cons, List.nodup_cons] at h
    unfold Balance.addGo
    split
    · simpa only [List.map_cons, List.nodup_cons] using h
    · rename_i hne
      simp only [List.map_cons, List.nodup_cons]
      refine ⟨?_, ih h.2⟩
      intro hm
      rcases (addGo_mem xs a x.comm).1 hm with h1 | h1
      · exact h.1 h1
      · exact hne h1

theorem wfB_addAmt (b : Balance) (a : Amount) (h : wfB b) : wfB (Balance.addAmt b a) := by
  unfold Balance.addAmt
  split
  · exact h
  · exact wfB_addGo b a h

theorem wfB_ofAmt (a : Amount) : wfB (Balance.ofAmt a) := by
  unfold Balance.ofAmt
  split <;> simp [wfB]

theorem subGo_mem (b : Balance) (a : Amount) (c : Comm) :
    c ∈ (Balance.subGo b a).map (·.comm) → c ∈ b.map (·.comm) ∨ c = a.comm := by
  induction b with
  | nil => simp [Balance.subGo, Amount.neg]
  | cons x xs ih =>
    unfold Balance.subGo
    split
    · split
      · intro h1; exact Or.inl (List.mem_cons_of_mem _ h1)
      · simp only [List.map_cons, List.mem_cons]
        rintro (h1 | h1)
        · exact Or.inl (Or.inl h1)
        · exact Or.inl (Or.inr h1)
    · simp only [List.map_cons, List.mem_cons]
      rintro (h1 | h1)
      · exact Or.inl (Or.inl h1)
      · rcases ih h1 with h2 | h2
        · exact Or.inl (Or.inr h2)
        · exact Or.inr h2

theorem wfB_subGo (b : Balance) (a : Amount) (h : wfB b) : wfB (Balance.subGo b a) := by
  induction b with
  | nil => simp [Balance.subGo, wfB]
  | cons x xs ih =>
    unfold wfB at h ih ⊢
    simp only [List.map_cons, List.nodup_cons] at h
    unfold Balance.subGo
    split
    · split
      · exact h.2
      · simpa only [List.map_cons, List.nodup_cons] using h
    · rename_i hne
      simp only [List.map_cons, List.nodup_cons]
      refine ⟨?_, ih h.2⟩
      intro hm
      rcases subGo_mem xs a x.comm hm with h1 | h1
      · exact h.1 h1
      · exact hne h1

theorem wfB_subAmt (b : Balance) (a : Amount) (h : wfB b) : wfB (Balance.subAmt b a) := by
  unfold Balance.subAmt
  split
  · exact h
  · exact wfB_subGo b a h

theorem wfV_simplify (v : Value) (h : wfV v) : wfV v.simplify := by
  unfold Value.simplify
  split
  · trivial
  · split
    · trivial
    · exact h

theorem wfV_add_amt (v : Value) (a : Amount) (r : Value) (h : Value.add v (.amt a) = .ok r)
    (hw : wfV v) : wfV r := by
  cases v with
  | void => simp only [Value.add] at h; cases h; trivial
  | bool b => simp [Value.add] at h
  | int x =>
    simp only [Value.add] at h
    split at h
    · cases h; exact wfB_addAmt _ _ (wfB_ofAmt _)
    · obtain ⟨r', _, rfl⟩ := Except.map_eq_ok h; trivial
  | amt x =>
    simp only [Value.add] at h
    split at h
    · cases h; exact wfB_addAmt _ _ (wfB_ofAmt _)
    · obtain ⟨r', _, rfl⟩ := Except.map_eq_ok h; trivial
  | bal x =>
    simp only [Value.add] at h; cases h; exact wfB_addAmt _ _ hw

theorem wfV_sub_amt (v : Value) (a : Amount) (r : Value) (h : Value.sub v (.amt a) = .ok r)
    (hw : wfV v) : wfV r := by
  cases v with
  | void => simp [Value.sub] at h
  | bool b => simp [Value.sub] at h
  | int x =>
    simp only [Value.sub] at h
    split at h
    · cases h; exact wfV_simplify _ (wfB_subAmt _ _ (wfB_ofAmt _))
    · obtain ⟨r', _, rfl⟩ := Except.map_eq_ok h; exact wfV_simplify _ trivial
  | amt x =>
    simp only [Value.sub] at h
    split at h
    · cases h; exact wfV_simplify _ (wfB_subAmt _ _ (wfB_ofAmt _))
    · obtain ⟨r', _, rfl⟩ := Except.map_eq_ok h; exact wfV_simplify _ trivial
  | bal x =>
    simp only [Value.sub] at h; cases h; exact wfV_simplify _ (wfB_subAmt _ _ hw)

theorem isNum_simplify (v : Value) (hv : isNum v = true) : isNum v.simplify = true := by
  unfold Value.simplify
  split
  · rfl
  · split
    · rfl
    · exact hv

theorem isNum_sub_amt (v : Value) (a : Amount) (r : Value) (h : Value.sub v (.amt a) = .ok r) :
    isNum r = true := by
  cases v with
  | void => simp [Value.sub] at h
  | bool b => simp [Value.sub] at h
  | int x =>
    simp only [Value.sub] at h
    split at h
    · cases h; exact isNum_simplify _ rfl
    · obtain ⟨r', _, rfl⟩ := Except.map_eq_ok h; exact isNum_simplify _ rfl
  | amt x =>
    simp only [Value.sub] at h
    split at h
    · cases h; exact isNum_simplify _ rfl
    · obtain ⟨r', _, rfl⟩ := Except.map_eq_ok h; exact isNum_simplify _ rfl
  | bal x =>
    simp only [Value.sub] at h; cases h; exact isNum_simplify _ rfl

/-! ### 2. display zero -/

/-- The exact quantity `q` of commodity `c` prints as all zeros at `c`'s display
    precision: `amount_t::is_zero` of an amount whose precision counter exceeds
    the display precision (for the null commodity: `q = 0`). -/
def displaysZero (env : PrecEnv) (c : Comm) (q : Rat) : Bool :=
  Amount.isZero env { q := q, prec := env c + 1, keep := false, comm := c }

theorem displaysZero_zero (env : PrecEnv) (c : Comm) : displaysZero env c 0 = true := by
  unfold displaysZero Amount.isZero
  by_cases hc : ({ q := 0, prec := env c + 1, keep := false, comm := c } : Amount).hasComm = true
  · simp [hc]
  · simp [hc]

theorem displaysZero_of_isZero (env : PrecEnv) (a : Amount) (h : a.isZero env = true) :
    displaysZero env a.comm a.q = true := by
  unfold displaysZero
  have hcomm : ({ q := a.q, prec := env a.comm + 1, keep := false, comm := a.comm } : Amount).hasComm
      = a.hasComm := rfl
  unfold Amount.isZero at h ⊢
  rw [hcomm]
  cases hh : a.hasComm
  · rw [hh] at h
    simpa using h
  · rw [hh] at h
    simp only [↓reduceIte] at h ⊢
    by_cases hk : a.keep = true ∨ a.prec ≤ env a.comm
    · rw [if_pos hk] at h
      have hq : a.q = 0 := by simpa using h
      simp [hq]
    · rw [if_neg hk] at h
      have : ¬ (false = true ∨ env a.comm + 1 ≤ env a.comm) := by
        rintro (h1 | h1)
        · cases h1
        · omega
      rw [if_neg this]
      exact h

theorem den_eq_zero_of_not_mem (b : Balance) (c : Comm) (h : c ∉ b.map (·.comm)) : b.den c = 0 := by
  induction b with
  | nil => rfl
  | cons x xs ih =>
    simp only [List.map_cons, List.mem_cons, not_or] at h
    simp only [Balance.den_cons, Amount.den]
    rw [ih h.2, if_neg (fun e => h.1 e.symm)]
    grind

theorem balance_isZero_den (env : PrecEnv) (b : Balance) (hw : wfB b)
    (h : b.all (Amount.isZero env) = true) (c : Comm) : displaysZero env c (b.den c) = true := by
  induction b with
  | nil => exact displaysZero_zero env c
  | cons x xs ih =>
    unfold wfB at hw ih
    simp only [List.map_cons, List.nodup_cons] at hw
    simp only [List.all_cons, Bool.and_eq_true] at h
    simp only [Balance.den_cons, Amount.den]
    by_cases hc : x.comm = c
    · rw [if_pos hc, den_eq_zero_of_not_mem xs c (hc ▸ hw.1)]
      have := displaysZero_of_isZero env x h.1
      rw [hc] at this
      have e : x.q + 0 = x.q := by grind
      rw [e]; exact this
    · rw [if_neg hc]
      have e : (0 : Rat) + Balance.den xs c = Balance.den xs c := by grind
      rw [e]; exact ih hw.2 h.2

theorem value_isZero_den (env : PrecEnv) (v : Value) (hw : wfV v) (hn : isNum v = true)
    (h : valueIsZero env v = true) (c : Comm) : displaysZero env c (v.den c) = true := by
  cases v with
  | void => exact displaysZero_zero env c
  | bool b => simp [isNum] at hn
  | int n =>
    have : n = 0 := by simpa [valueIsZero] using h
    subst this
    simp only [Value.den]
    split <;> exact displaysZero_zero env c
  | amt a =>
    simp only [Value.den, Amount.den]
    split
    · rename_i hc; rw [← hc]; exact displaysZero_of_isZero env a (by simpa [valueIsZero] using h)
    · exact displaysZero_zero env c
  | bal b => exact balance_isZero_den env b hw (by simpa [valueIsZero] using h) c

/-! ### 3. the residual invariant -/

theorem residual_append (l₁ l₂ : List FPost) (c : Comm) :
    residual (l₁ ++ l₂) c = residual l₁ c + residual l₂ c := by
  induction l₁ with
  | nil => simp only [List.nil_append, residual]; grind
  | cons x xs ih => simp only [List.cons_append, residual, ih]; grind

theorem bal_of_not_mustBalance (p : FPost) (c : Comm) (h : p.mustBalance = false) : p.bal c = 0 := by
  simp [FPost.bal, h]

theorem bal_of_some (p : FPost) (a : Amount) (c : Comm) (hm : p.mustBalance = true)
    (h : costOrAmt p = some a) : p.bal c = a.den c := by
  simp [FPost.bal, hm, h, Amount.den]

theorem bal_of_none (p : FPost) (c : Comm) (h : costOrAmt p = none) : p.bal c = 0 := by
  unfold FPost.bal; rw [h]; split <;> rfl

theorem den_unkeep (a : Amount) (c : Comm) : ({ a with keep := false } : Amount).den c = a.den c := rfl

/-- xact.cc 167-200: after the first loop `balance` denotes the per-commodity sum
    of cost-or-amount over the must-balance postings. -/
theorem scan_inv (ps : List FPost) : ∀ (i : Nat) (bal : Value) (np : Option (Nat × String))
    (bal' : Value) (np' : Option (Nat × String)),
    scan ps i bal np = .ok (bal', np') → isNum bal = true → wfV bal →
    isNum bal' = true ∧ wfV bal' ∧ ∀ c, bal'.den c = bal.den c + residual ps c := by
  induction ps with
  | nil =>
    intro i bal np bal' np' h hn hw
    simp only [scan] at h
    cases h
    exact ⟨hn, hw, fun c => by simp only [residual]; grind⟩
  | cons p ps ih =>
    intro i bal np bal' np' h hn hw
    unfold scan at h
    by_cases hm : p.mustBalance = false
    · rw [if_pos hm] at h
      obtain ⟨h1, h2, h3⟩ := ih _ _ _ _ _ h hn hw
      refine ⟨h1, h2, fun c => ?_⟩
      rw [h3 c]; simp only [residual, bal_of_not_mustBalance p c hm]; grind
    · rw [if_neg hm] at h
      have hm' : p.mustBalance = true := by simpa using hm
      cases hco : costOrAmt p with
      | some a =>
        rw [hco] at h
        simp only at h
        cases hadd : Value.add bal (.amt { a with keep := false }) with
        | error e => rw [hadd] at h; cases h
        | ok b' =>
          rw [hadd] at h
          simp only at h
          obtain ⟨r, hr, hrn⟩ := add_amt_ok bal { a with keep := false } hn
          rw [hadd] at hr; cases hr
          obtain ⟨h1, h2, h3⟩ := ih _ _ _ _ _ h hrn (wfV_add_amt _ _ _ hadd hw)
          refine ⟨h1, h2, fun c => ?_⟩
          rw [h3 c, add_amt_den _ _ _ hadd c, den_unkeep]
          simp only [residual, bal_of_some p a c hm' hco]; grind
      | none =>
        rw [hco] at h
        simp only at h
        cases np with
        | some x =>
          obtain ⟨j, acct⟩ := x
          simp only at h
          split at h <;> cases h
        | none =>
          simp only at h
          obtain ⟨h1, h2, h3⟩ := ih _ _ _ _ _ h hn hw
          refine ⟨h1, h2, fun c => ?_⟩
          rw [h3 c]; simp only [residual, bal_of_none p c hco]; grind

/-- no null posting remembered: every must-balance posting has an amount -/
theorem scan_none (ps : List FPost) : ∀ (i : Nat) (bal bal' : Value),
    scan ps i bal none = .ok (bal', none) →
    ∀ p ∈ ps, p.mustBalance = true → (costOrAmt p).isSome = true := by
  induction ps with
  | nil => intro i bal bal' _ p hp; cases hp
  | cons q qs ih =>
    intro i bal bal' h p hp hm
    unfold scan at h
    by_cases hq : q.mustBalance = false
    · rw [if_pos hq] at h
      rcases List.mem_cons.1 hp with rfl | hp'
      · rw [hq] at hm; cases hm
      · exact ih _ _ _ h p hp' hm
    · rw [if_neg hq] at h
      cases hco : costOrAmt q with
      | some a =>
        rw [hco] at h
        simp only at h
        cases hadd : Value.add bal (.amt { a with keep := false }) with
        | error e => rw [hadd] at h; cases h
        | ok b' =>
          rw [hadd] at h
          simp only at h
          rcases List.mem_cons.1 hp with rfl | hp'
          · rw [hco]; rfl
          · exact ih _ _ _ h p hp' hm
      | none =>
        rw [hco] at h
        simp only at h
        -- the null posting is remembered and never forgotten
        exfalso
        have : ∀ (l : List FPost) (k : Nat) (b b' : Value) (x : Nat × String),
            scan l k b (some x) = .ok (b', none) → False := by
          intro l
          induction l with
          | nil => intro k b b' x hh; simp [scan] at hh
          | cons r rs ihr =>
            intro k b b' x hh
            unfold scan at hh
            split at hh
            · exact ihr _ _ _ _ hh
            · split at hh
              · split at hh
                · exact ihr _ _ _ _ hh
                · cases hh
              · simp only at hh
                split at hh <;> cases hh
        exact this _ _ _ _ _ h

/-- a transaction whose must-balance postings all have amounts scans without error -/
theorem scan_nonull (ps : List FPost) : ∀ (i : Nat) (bal : Value) (np : Option (Nat × String)),
    (∀ p ∈ ps, p.mustBalance = true → (costOrAmt p).isSome = true) → isNum bal = true →
    ∃ bal', scan ps i bal np = .ok (bal', np) := by
  induction ps with
  | nil => intro i bal np _ _; exact ⟨bal, rfl⟩
  | cons q qs ih =>
    intro i bal np hall hn
    unfold scan
    by_cases hq : q.mustBalance = false
    · rw [if_pos hq]
      exact ih _ _ _ (fun p hp => hall p (List.mem_cons_of_mem _ hp)) hn
    · rw [if_neg hq]
      have hq' : q.mustBalance = true := by simpa using hq
      have := hall q (List.mem_cons_self) hq'
      cases hco : costOrAmt q with
      | none => rw [hco] at this; cases this
      | some a =>
        simp only
        obtain ⟨r, hr, hrn⟩ := add_amt_ok bal { a with keep := false } hn
        rw [hr]
        exact ih _ _ _ (fun p hp => hall p (List.mem_cons_of_mem _ hp)) hrn

/-- exactly one null must-balance posting, at index `pre.length` -/
theorem scan_one_null (pre post : List FPost) (n : FPost) : ∀ (i : Nat) (bal : Value),
    (∀ p ∈ pre, p.mustBalance = true → (costOrAmt p).isSome = true) →
    (∀ p ∈ post, p.mustBalance = true → (costOrAmt p).isSome = true) →
    n.mustBalance = true → costOrAmt n = none → isNum bal = true →
    ∃ bal', scan (pre ++ n :: post) i bal none = .ok (bal', some (i + pre.length, n.account)) := by
  induction pre with
  | nil =>
    intro i bal _ hpost hm hn hnum
    simp only [List.nil_append, List.length_nil, Nat.add_zero]
    unfold scan
    rw [if_neg (by simp [hm]), hn]
    simp only
    exact scan_nonull post _ _ _ hpost hnum
  | cons q qs ih =>
    intro i bal hpre hpost hm hn hnum
    simp only [List.cons_append, List.length_cons]
    unfold scan
    have e : i + (qs.length + 1) = (i + 1) + qs.length := by omega
    rw [e]
    by_cases hq : q.mustBalance = false
    · rw [if_pos hq]
      exact ih _ _ (fun p hp => hpre p (List.mem_cons_of_mem _ hp)) hpost hm hn hnum
    · rw [if_neg hq]
      have hq' : q.mustBalance = true := by simpa using hq
      have := hpre q (List.mem_cons_self) hq'
      cases hco : costOrAmt q with
      | none => rw [hco] at this; cases this
      | some a =>
        simp only
        obtain ⟨r, hr, hrn⟩ := add_amt_ok bal { a with keep := false } hnum
        rw [hr]
        exact ih _ _ (fun p hp => hpre p (List.mem_cons_of_mem _ hp)) hpost hm hn hrn

/-- a null posting is already remembered and another one follows: error -/
theorem scan_some_null (l : List FPost) : ∀ (k : Nat) (b : Value) (x : Nat × String),
    (∃ p ∈ l, p.mustBalance = true ∧ costOrAmt p = none) → isNum b = true →
    scan l k b (some x) = .error .twoNulls ∨ scan l k b (some x) = .error .misspelled := by
  induction l with
  | nil => intro k b x ⟨p, hp, _⟩; cases hp
  | cons q qs ih =>
    intro k b x ⟨p, hp, hpm, hpn⟩ hnum
    unfold scan
    by_cases hq : q.mustBalance = false
    · rw [if_pos hq]
      rcases List.mem_cons.1 hp with rfl | hp'
      · rw [hq] at hpm; cases hpm
      · exact ih _ _ _ ⟨p, hp', hpm, hpn⟩ hnum
    · rw [if_neg hq]
      cases hco : costOrAmt q with
      | some a =>
        simp only
        obtain ⟨r, hr, hrn⟩ := add_amt_ok b { a with keep := false } hnum
        rw [hr]
        rcases List.mem_cons.1 hp with rfl | hp'
        · rw [hco] at hpn; cases hpn
        · exact ih _ _ _ ⟨p, hp', hpm, hpn⟩ hrn
      | none =>
        simp only
        split
        · exact Or.inr rfl
        · exact Or.inl rfl

/-- two null must-balance postings: the scan stops with one of the two null-amount errors -/
theorem scan_two_nulls (pre rest : List FPost) (n₁ : FPost) : ∀ (i : Nat) (bal : Value),
    n₁.mustBalance = true → costOrAmt n₁ = none →
    (∃ p ∈ rest, p.mustBalance = true ∧ costOrAmt p = none) → isNum bal = true →
    scan (pre ++ n₁ :: rest) i bal none = .error .twoNulls ∨
    scan (pre ++ n₁ :: rest) i bal none = .error .misspelled := by
  induction pre with
  | nil =>
    intro i bal hm hn hex hnum
    simp only [List.nil_append]
    unfold scan
    rw [if_neg (by simp [hm]), hn]
    simp only
    exact scan_some_null rest _ _ _ hex hnum
  | cons q qs ih =>
    intro i bal hm hn hex hnum
    simp only [List.cons_append]
    unfold scan
    by_cases hq : q.mustBalance = false
    · rw [if_pos hq]
      exact ih _ _ hm hn hex hnum
    · rw [if_neg hq]
      cases hco : costOrAmt q with
      | some a =>
        simp only
        obtain ⟨r, hr, hrn⟩ := add_amt_ok bal { a with keep := false } hnum
        rw [hr]
        exact ih _ _ hm hn hex hrn
      | none =>
        simp only
        exact scan_some_null _ _ _ _ ⟨n₁, by simp, hm, hn⟩ hnum

theorem add_amt_isNum (v : Value) (a : Amount) (r : Value) (h : Value.add v (.amt a) = .ok r)
    (hv : isNum v = true) : isNum r = true := by
  obtain ⟨r', hr, hrn⟩ := add_amt_ok v a hv
  rw [h] at hr; cases hr; exact hrn

theorem costOrAmt_of_cost_none (p : FPost) (h : p.cost = none) : costOrAmt p = p.amount := by
  simp [costOrAmt, h]

/-- xact.cc 269-280: the loop that prices the primary commodity keeps
    `balance − Σ cost-or-amount` unchanged. -/
theorem exchPosts_inv (env : PrecEnv) (comm : Comm) (pu : Amount) (ps : List FPost) :
    ∀ (bal : Value) (ps' : List FPost) (bal' : Value),
    exchPosts env comm pu ps bal = .ok (ps', bal') → (∀ p ∈ ps, p.cost = none) →
    isNum bal = true → wfV bal →
    isNum bal' = true ∧ wfV bal' ∧
    (∀ c, bal'.den c - residual ps' c = bal.den c - residual ps c) ∧
    (∀ p ∈ ps', p.amount.isSome = true) := by
  induction ps with
  | nil =>
    intro bal ps' bal' h _ hn hw
    simp only [exchPosts] at h
    cases h
    exact ⟨hn, hw, fun _ => rfl, fun p hp => by cases hp⟩
  | cons p ps ih =>
    intro bal ps' bal' h hc hn hw
    have hpc : p.cost = none := hc p List.mem_cons_self
    have hc' : ∀ q ∈ ps, q.cost = none := fun q hq => hc q (List.mem_cons_of_mem _ hq)
    unfold exchPosts at h
    cases ha : p.amount with
    | none => rw [ha] at h; cases h
    | some amt =>
      rw [ha] at h
      simp only at h
      by_cases hcond : p.mustBalance = true ∧ amt.comm = comm
      · rw [if_pos hcond] at h
        cases hsub : Value.sub bal (.amt amt) with
        | error e => rw [hsub] at h; cases h
        | ok b1 =>
          rw [hsub] at h
          simp only at h
          cases hadd : Value.add b1 (.amt (Amount.mul env pu amt)) with
          | error e => rw [hadd] at h; cases h
          | ok b2 =>
            rw [hadd] at h
            simp only at h
            cases hrec : exchPosts env comm pu ps b2 with
            | error e => rw [hrec] at h; cases h
            | ok r =>
              obtain ⟨r1, b3⟩ := r
              rw [hrec] at h
              simp only at h
              cases h
              have hn1 := isNum_sub_amt _ _ _ hsub
              have hn2 := add_amt_isNum _ _ _ hadd hn1
              have hw2 := wfV_add_amt _ _ _ hadd (wfV_sub_amt _ _ _ hsub hw)
              obtain ⟨i1, i2, i3, i4⟩ := ih _ _ _ hrec hc' hn2 hw2
              refine ⟨i1, i2, fun c => ?_, ?_⟩
              · have e1 := i3 c
                have e2 := add_amt_den _ _ _ hadd c
                have e3 := sub_amt_den _ _ _ hsub c
                have e4 : p.bal c = amt.den c :=
                  bal_of_some p amt c hcond.1 (by rw [costOrAmt_of_cost_none p hpc, ha])
                have e5 : ({ p with cost := some (Amount.mul env pu amt), costCalculated := true } : FPost).bal c
                    = (Amount.mul env pu amt).den c :=
                  bal_of_some _ _ c hcond.1 (by simp [costOrAmt])
                simp only [residual, e4]
                grind
              · intro q hq
                rcases List.mem_cons.1 hq with rfl | hq'
                · simp
                · exact i4 q hq'
      · rw [if_neg hcond] at h
        cases hrec : exchPosts env comm pu ps bal with
        | error e => rw [hrec] at h; cases h
        | ok r =>
          obtain ⟨r1, b3⟩ := r
          rw [hrec] at h
          simp only at h
          cases h
          obtain ⟨i1, i2, i3, i4⟩ := ih _ _ _ hrec hc' hn hw
          refine ⟨i1, i2, fun c => ?_, ?_⟩
          · have e1 := i3 c
            simp only [residual]
            grind
          · intro q hq
            rcases List.mem_cons.1 hq with rfl | hq'
            · simp [ha]
            · exact i4 q hq'

/-- xact.cc 230-245: when no cost is seen, no posting carries a cost that was not calculated. -/
theorem topScan_false (ps : List FPost) : ∀ (top top' : Option FPost),
    topScan ps top = (false, top') →
    ∀ p ∈ ps, ¬ (p.cost.isSome = true ∧ p.costCalculated = false) := by
  induction ps with
  | nil => intro _ _ _ p hp; cases hp
  | cons q qs ih =>
    intro top top' h p hp
    unfold topScan at h
    simp only at h
    split at h
    · cases h
    · rename_i hq
      rcases List.mem_cons.1 hp with rfl | hp'
      · exact hq
      · exact ih _ _ h p hp'

theorem exchangeWith_inv (env : PrecEnv) (x y : Amount) (ps : List FPost) (bal : Value)
    (ps' : List FPost) (bal' : Value)
    (h : exchangeWith env x y ps bal = .ok (ps', bal')) (hnc : ∀ p ∈ ps, p.cost = none)
    (hn : isNum bal = true) (hw : wfV bal) :
    isNum bal' = true ∧ wfV bal' ∧
    (∀ c, bal'.den c - residual ps' c = bal.den c - residual ps c) ∧
    (∀ p ∈ ps', p.amount.isSome = true) := by
  unfold exchangeWith at h
  split at h
  · cases h
  · exact exchPosts_inv env _ _ ps _ _ _ h hnc hn hw

/-- xact.cc 220-283 as a whole. -/
theorem exchange2_inv (env : PrecEnv) (enum : Balance → Balance) (ps : List FPost) (bal : Value)
    (np : Option Nat) (ps' : List FPost) (bal' : Value)
    (h : exchange2 env enum ps bal np = .ok (ps', bal'))
    (hcc : ∀ p ∈ ps, p.costCalculated = false)
    (hn : isNum bal = true) (hw : wfV bal) :
    isNum bal' = true ∧ wfV bal' ∧
    (∀ c, bal'.den c - residual ps' c = bal.den c - residual ps c) ∧
    ((∀ p ∈ ps, p.amount.isSome = true) → ∀ p ∈ ps', p.amount.isSome = true) := by
  have triv : (Except.ok (ps, bal) : Except FinErr (List FPost × Value)) = .ok (ps', bal') →
      isNum bal' = true ∧ wfV bal' ∧
      (∀ c, bal'.den c - residual ps' c = bal.den c - residual ps c) ∧
      ((∀ p ∈ ps, p.amount.isSome = true) → ∀ p ∈ ps', p.amount.isSome = true) := by
    intro h2
    cases h2
    exact ⟨hn, hw, fun _ => rfl, fun x => x⟩
  unfold exchange2 at h
  split at h
  · rename_i b
    split at h
    · split at h
      · rename_i top hts
        have hnc : ∀ p ∈ ps, p.cost = none := by
          intro p hp
          have h1 := topScan_false ps none _ hts p hp
          have h2 := hcc p hp
          cases hpc : p.cost with
          | none => rfl
          | some c => exact absurd ⟨by simp [hpc], h2⟩ h1
        split at h
        · split at h
          · split at h
            · obtain ⟨i1, i2, i3, i4⟩ := exchangeWith_inv env _ _ ps _ _ _ h hnc hn hw
              exact ⟨i1, i2, i3, fun _ => i4⟩
            · obtain ⟨i1, i2, i3, i4⟩ := exchangeWith_inv env _ _ ps _ _ _ h hnc hn hw
              exact ⟨i1, i2, i3, fun _ => i4⟩
          · exact triv h
        · exact triv h
      · exact triv h
    · exact triv h
  · exact triv h

/-! ### 4. sorting the residual's entries; filling the null posting -/

/-! total preorders given as Bool relations, and their lexicographic combination -/

def IsTotPre {α : Type} (r : α → α → Bool) : Prop :=
  (∀ a b, r a b = true ∨ r b a = true) ∧ (∀ a b c, r a b = true → r b c = true → r a c = true)

theorem lexLe_totpre {α : Type} (r1 r2 : α → α → Bool) (h1 : IsTotPre r1) (h2 : IsTotPre r2) :
    IsTotPre (lexLe r1 r2) := by
  constructor
  · intro a b
    unfold lexLe
    rcases h1.1 a b with hab | hba
    · cases hba' : r1 b a
      · left; simp [hab]
      · rcases h2.1 a b with h | h
        · left; simp [hab, h]
        · right; simp [hab, hba', h]
    · cases hab' : r1 a b
      · right; simp [hba]
      · rcases h2.1 a b with h | h
        · left; simp [hab', h]
        · right; simp [hba, hab', h]
  · intro a b c hab hbc
    unfold lexLe at hab hbc ⊢
    simp only [Bool.and_eq_true, Bool.or_eq_true, Bool.not_eq_true'] at hab hbc ⊢
    refine ⟨h1.2 a b c hab.1 hbc.1, ?_⟩
    cases hca : r1 c a
    · exact Or.inl rfl
    · right
      have hcb : r1 c b = true := h1.2 c a b hca hab.1
      have hba : r1 b a = true := h1.2 b c a hbc.1 hca
      have e1 : r2 a b = true := by
        rcases hab.2 with h | h
        · rw [hba] at h; cases h
        · exact h
      have e2 : r2 b c = true := by
        rcases hbc.2 with h | h
        · rw [hcb] at h; cases h
        · exact h
      exact h2.2 a b c e1 e2

theorem lexLe_both {α : Type} (r1 r2 : α → α → Bool) (a b : α)
    (h : lexLe r1 r2 a b = true) (h' : lexLe r1 r2 b a = true) : r2 a b = true ∧ r2 b a = true := by
  unfold lexLe at h h'
  simp only [Bool.and_eq_true, Bool.or_eq_true, Bool.not_eq_true'] at h h'
  constructor
  · rcases h.2 with e | e
    · rw [h'.1] at e; cases e
    · exact e
  · rcases h'.2 with e | e
    · rw [h.1] at e; cases e
    · exact e

theorem leS_totpre (f : Comm → String) : IsTotPre (leS f) := by
  constructor
  · intro a b
    unfold leS
    rcases String.le_total (f a) (f b) with h | h
    · left; simpa using h
    · right; simpa using h
  · intro a b c h1 h2
    unfold leS at h1 h2 ⊢
    have e1 : f a ≤ f b := by simpa using h1
    have e2 : f b ≤ f c := by simpa using h2
    simpa using String.le_trans e1 e2

theorem leQ_totpre (f : Comm → Rat) : IsTotPre (leQ f) := by
  constructor
  · intro a b
    unfold leQ
    rcases @Rat.le_total (f a) (f b) with h | h
    · left; simpa using h
    · right; simpa using h
  · intro a b c h1 h2
    unfold leQ at h1 h2 ⊢
    have e1 : f a ≤ f b := by simpa using h1
    have e2 : f b ≤ f c := by simpa using h2
    simpa using Rat.le_trans e1 e2

theorem leB_totpre (f : Comm → Bool) : IsTotPre (leB f) := by
  constructor
  · intro a b
    unfold leB
    cases f a <;> cases f b <;> simp
  · intro a b c
    unfold leB
    cases f a <;> cases f b <;> cases f c <;> simp

theorem commLe_totpre : IsTotPre commLe := by
  exact lexLe_totpre _ _ (leS_totpre lotBase) (lexLe_totpre _ _ (leB_totpre lotHasPrice)
    (lexLe_totpre _ _ (leS_totpre lotPComm) (lexLe_totpre _ _ (leQ_totpre lotPVal)
    (lexLe_totpre _ _ (leB_totpre lotHasDate) (lexLe_totpre _ _ (leS_totpre lotDate)
    (lexLe_totpre _ _ (leB_totpre lotHasTag) (lexLe_totpre _ _ (leS_totpre lotTag) (leS_totpre id))))))))

theorem commLe_antisymm (a b : Comm) (h : commLe a b = true) (h' : commLe b a = true) : a = b := by
  unfold commLe at h h'
  have h1 := lexLe_both _ _ a b h h'
  have h2 := lexLe_both _ _ a b h1.1 h1.2
  have h3 := lexLe_both _ _ a b h2.1 h2.2
  have h4 := lexLe_both _ _ a b h3.1 h3.2
  have h5 := lexLe_both _ _ a b h4.1 h4.2
  have h6 := lexLe_both _ _ a b h5.1 h5.2
  have h7 := lexLe_both _ _ a b h6.1 h6.2
  have h8 := lexLe_both _ _ a b h7.1 h7.2
  unfold leS at h8
  have e1 : a ≤ b := by simpa using h8.1
  have e2 : b ≤ a := by simpa using h8.2
  exact String.le_antisymm e1 e2

theorem insByComm_perm (a : Amount) (l : List Amount) : (insByComm a l).Perm (a :: l) := by
  induction l with
  | nil => exact List.Perm.refl _
  | cons b bs ih =>
    unfold insByComm
    split
    · exact List.Perm.refl _
    · exact (List.Perm.cons b ih).trans (List.Perm.swap a b bs)

theorem sortByComm_perm (l : List Amount) : (sortByComm l).Perm l := by
  induction l with
  | nil => exact List.Perm.refl _
  | cons a as ih => exact (insByComm_perm a _).trans (List.Perm.cons a ih)

theorem insByComm_sorted (a : Amount) (l : List Amount)
    (h : l.Pairwise (fun x y => commLe x.comm y.comm = true)) :
    (insByComm a l).Pairwise (fun x y => commLe x.comm y.comm = true) := by
  induction l with
  | nil => simp [insByComm]
  | cons b bs ih =>
    unfold insByComm
    rw [List.pairwise_cons] at h
    split
    · rename_i hab
      rw [List.pairwise_cons]
      refine ⟨?_, List.pairwise_cons.2 h⟩
      intro x hx
      rcases List.mem_cons.1 hx with rfl | hx'
      · exact hab
      · exact commLe_totpre.2 _ _ _ hab (h.1 x hx')
    · rename_i hab
      rw [List.pairwise_cons]
      refine ⟨?_, ih h.2⟩
      intro x hx
      have hx' := (insByComm_perm a bs).mem_iff.1 hx
      rcases List.mem_cons.1 hx' with rfl | hx''
      · rcases commLe_totpre.1 x.comm b.comm with h1 | h1
        · exact absurd h1 hab
        · exact h1
      · exact h.1 x hx''

theorem sortByComm_sorted (l : List Amount) :
    (sortByComm l).Pairwise (fun x y => commLe x.comm y.comm = true) := by
  induction l with
  | nil => simp [sortByComm]
  | cons a as ih => exact insByComm_sorted a _ ih

theorem wfB_perm {l₁ l₂ : List Amount} (h : l₁.Perm l₂) (hw : wfB l₁) : wfB l₂ :=
  (List.Perm.nodup_iff (List.Perm.map _ h)).1 hw

theorem wfB_inj {l : List Amount} (hw : wfB l) {a b : Amount} (ha : a ∈ l) (hb : b ∈ l)
    (h : a.comm = b.comm) : a = b := by
  induction l with
  | nil => cases ha
  | cons x xs ih =>
    unfold wfB at hw ih
    simp only [List.map_cons, List.nodup_cons] at hw
    rcases List.mem_cons.1 ha with rfl | ha'
    · rcases List.mem_cons.1 hb with rfl | hb'
      · rfl
      · exact absurd (List.mem_map.2 ⟨b, hb', h.symm⟩) hw.1
    · rcases List.mem_cons.1 hb with rfl | hb'
      · exact absurd (List.mem_map.2 ⟨a, ha', h⟩) hw.1
      · exact ih hw.2 ha' hb'

/-- The order in which the hash map enumerates the residual's entries does not
    matter: sorting by symbol gives one result for every enumeration. -/
theorem sortByComm_eq_of_perm {l₁ l₂ : List Amount} (hp : l₁.Perm l₂) (hw : wfB l₁) :
    sortByComm l₁ = sortByComm l₂ := by
  have p1 := sortByComm_perm l₁
  have p2 := sortByComm_perm l₂
  have hanti : ∀ a b : Amount, a ∈ sortByComm l₁ → b ∈ sortByComm l₂ →
      commLe a.comm b.comm = true → commLe b.comm a.comm = true → a = b := by
    intro a b ha hb h1 h2
    have ha' : a ∈ l₁ := p1.mem_iff.1 ha
    have hb' : b ∈ l₁ := hp.mem_iff.2 (p2.mem_iff.1 hb)
    exact wfB_inj hw ha' hb' (commLe_antisymm _ _ h1 h2)
  exact List.Perm.eq_of_pairwise hanti (sortByComm_sorted l₁) (sortByComm_sorted l₂)
    (p1.trans (hp.trans p2.symm))

theorem den_perm {l₁ l₂ : List Amount} (h : l₁.Perm l₂) (c : Comm) :
    Balance.den l₁ c = Balance.den l₂ c := by
  induction h with
  | nil => rfl
  | cons x _ ih => simp only [Balance.den_cons, ih]
  | swap x y l => simp only [Balance.den_cons]; grind
  | trans _ _ ih1 ih2 => exact ih1.trans ih2

theorem sortedAmounts_perm (enum : Balance → Balance) (henum : ∀ b, (enum b).Perm b) (b : Balance) :
    (sortedAmounts enum b).Perm b := by
  unfold sortedAmounts
  split
  · exact List.Perm.refl _
  · exact (sortByComm_perm _).trans (henum b)

theorem sortedAmounts_sorted (enum : Balance → Balance) (b : Balance) :
    (sortedAmounts enum b).Pairwise (fun x y => commLe x.comm y.comm = true) := by
  unfold sortedAmounts
  split
  · simp
  · exact sortByComm_sorted _

theorem sortedAmounts_order_free (e₁ e₂ : Balance → Balance) (h₁ : ∀ b, (e₁ b).Perm b)
    (h₂ : ∀ b, (e₂ b).Perm b) (b : Balance) (hw : wfB b) :
    sortedAmounts e₁ b = sortedAmounts e₂ b := by
  unfold sortedAmounts
  split
  · rfl
  · exact sortByComm_eq_of_perm ((h₁ b).trans (h₂ b).symm) (wfB_perm (h₁ b).symm hw)

/-- xact.cc 363-370: the amounts handed to `add_balancing_post` are the entries
    of the residual, each commodity once, sorted by symbol. -/
theorem fillAmounts_spec (enum : Balance → Balance) (henum : ∀ b, (enum b).Perm b) (bal : Value)
    (amts : List Amount) (h : fillAmounts enum bal = .ok amts) (hw : wfV bal) :
    (∀ c, Balance.den amts c = bal.den c) ∧ wfB amts ∧
    amts.Pairwise (fun x y => commLe x.comm y.comm = true) := by
  cases bal with
  | void => simp [fillAmounts, isNull] at h; subst h; exact ⟨fun _ => rfl, by simp [wfB], by simp⟩
  | bool b =>
    cases b
    · simp [fillAmounts, isNull, Value.isRealZero] at h; subst h
      exact ⟨fun _ => rfl, by simp [wfB], by simp⟩
    · simp [fillAmounts, isNull, Value.isRealZero] at h
  | int n =>
    simp only [fillAmounts] at h; cases h
    refine ⟨fun c => ?_, by simp [wfB], by simp⟩
    simp only [Balance.den_cons, Balance.den_nil, Value.den, Amount.den_ofInt]; grind
  | amt a =>
    simp only [fillAmounts] at h; cases h
    refine ⟨fun c => ?_, by simp [wfB], by simp⟩
    simp only [Balance.den_cons, Balance.den_nil, Value.den]; grind
  | bal b =>
    simp only [fillAmounts] at h; cases h
    have hp := sortedAmounts_perm enum henum b
    exact ⟨fun c => den_perm hp c, wfB_perm hp.symm hw, sortedAmounts_sorted enum b⟩

theorem fillAmounts_order_free (e₁ e₂ : Balance → Balance) (h₁ : ∀ b, (e₁ b).Perm b)
    (h₂ : ∀ b, (e₂ b).Perm b) (bal : Value) (hw : wfV bal) :
    fillAmounts e₁ bal = fillAmounts e₂ bal := by
  cases bal with
  | bal b => simp only [fillAmounts]; rw [sortedAmounts_order_free e₁ e₂ h₁ h₂ b hw]
  | _ => rfl

theorem set_length_append (pre post : List FPost) (n p' : FPost) :
    (pre ++ n :: post).set pre.length p' = pre ++ p' :: post := by
  induction pre with
  | nil => rfl
  | cons x xs ih => simp only [List.cons_append, List.length_cons, List.set_cons_succ, ih]

theorem getElem?_length_append (pre post : List FPost) (n : FPost) :
    (pre ++ n :: post)[pre.length]? = some n := by
  induction pre with
  | nil => rfl
  | cons x xs ih => simp

theorem residual_generated (n : FPost) (hm : n.mustBalance = true) (hnc : n.cost = none)
    (rest : List Amount) (c : Comm) :
    residual (rest.map (fun r => ({ n with amount := some r.neg, calculated := true, generated := true } : FPost))) c
      = - Balance.den rest c := by
  induction rest with
  | nil => simp only [List.map_nil, residual, Balance.den_nil]; grind
  | cons r rs ih =>
    simp only [List.map_cons, residual, ih, Balance.den_cons]
    have : ({ n with amount := some r.neg, calculated := true, generated := true } : FPost).bal c
        = r.neg.den c :=
      bal_of_some _ _ c hm (by simp [costOrAmt, hnc])
    rw [this, Amount.den_neg]; grind

/-- add_balancing_post: after filling, the residual has gone down by exactly the
    amounts that were offset. -/
theorem residual_fillPosts (pre post : List FPost) (n : FPost) (amts : List Amount) (c : Comm)
    (hm : n.mustBalance = true) (hnc : n.cost = none) (hna : n.amount = none) :
    residual (fillPosts (pre ++ n :: post) pre.length n amts) c
      = residual (pre ++ n :: post) c - Balance.den amts c := by
  cases amts with
  | nil => simp only [fillPosts, Balance.den_nil]; grind
  | cons a rest =>
    simp only [fillPosts, set_length_append, residual_append, residual, residual_generated n hm hnc,
      Balance.den_cons]
    have h1 : ({ n with amount := some a.neg, calculated := true } : FPost).bal c = a.neg.den c :=
      bal_of_some _ _ c hm (by simp [costOrAmt, hnc])
    have h2 : n.bal c = 0 := bal_of_none n c (by simp [costOrAmt, hnc, hna])
    rw [h1, h2, Amount.den_neg]; grind

/-! ### 5. assembling `finalizeF` -/

/-- a must-balance posting without amount (and hence without cost) -/
def nullMB (n : FPost) : Prop := n.mustBalance = true ∧ n.cost = none ∧ n.amount = none

theorem nullMB_of_costOrAmt {p : FPost} (hm : p.mustBalance = true) (h : costOrAmt p = none) :
    nullMB p := by
  unfold costOrAmt at h
  cases hc : p.cost with
  | some c => rw [hc] at h; cases h
  | none => rw [hc] at h; exact ⟨hm, hc, h⟩

theorem scan_keep (l : List FPost) : ∀ (k : Nat) (b b' : Value) (x : Nat × String)
    (np' : Option (Nat × String)), scan l k b (some x) = .ok (b', np') → np' = some x := by
  induction l with
  | nil => intro k b b' x np' h; simp only [scan] at h; cases h; rfl
  | cons r rs ih =>
    intro k b b' x np' h
    unfold scan at h
    split at h
    · exact ih _ _ _ _ _ h
    · split at h
      · split at h
        · exact ih _ _ _ _ _ h
        · cases h
      · simp only at h
        split at h <;> cases h

/-- the remembered null posting is a must-balance posting without amount, at that index -/
theorem scan_some_spec (ps : List FPost) : ∀ (i : Nat) (bal bal' : Value) (j : Nat) (acct : String),
    scan ps i bal none = .ok (bal', some (j, acct)) →
    i ≤ j ∧ ∃ p, ps[j - i]? = some p ∧ nullMB p ∧ p.account = acct := by
  induction ps with
  | nil => intro i bal bal' j acct h; simp [scan] at h
  | cons q qs ih =>
    intro i bal bal' j acct h
    unfold scan at h
    have shift : ∀ (h' : i + 1 ≤ j ∧ ∃ p, qs[j - (i + 1)]? = some p ∧ nullMB p ∧ p.account = acct),
        i ≤ j ∧ ∃ p, (q :: qs)[j - i]? = some p ∧ nullMB p ∧ p.account = acct := by
      rintro ⟨h1, p, h2, h3⟩
      refine ⟨by omega, p, ?_, h3⟩
      have e : j - i = (j - (i + 1)) + 1 := by omega
      rw [e, List.getElem?_cons_succ]; exact h2
    by_cases hq : q.mustBalance = false
    · rw [if_pos hq] at h
      exact shift (ih _ _ _ _ _ h)
    · rw [if_neg hq] at h
      have hq' : q.mustBalance = true := by simpa using hq
      cases hco : costOrAmt q with
      | some a =>
        rw [hco] at h
        simp only at h
        cases hadd : Value.add bal (.amt { a with keep := false }) with
        | error e => rw [hadd] at h; cases h
        | ok b' =>
          rw [hadd] at h
          exact shift (ih _ _ _ _ _ h)
      | none =>
        rw [hco] at h
        simp only at h
        have := scan_keep _ _ _ _ _ _ h
        cases this
        refine ⟨Nat.le_refl _, q, ?_, nullMB_of_costOrAmt hq' hco, rfl⟩
        simp

theorem split_at_index (l : List FPost) : ∀ (i : Nat) (n : FPost), l[i]? = some n →
    ∃ pre post, l = pre ++ n :: post ∧ pre.length = i := by
  induction l with
  | nil => intro i n h; simp at h
  | cons x xs ih =>
    intro i n h
    cases i with
    | zero => simp at h; subst h; exact ⟨[], xs, rfl, rfl⟩
    | succ k =>
      rw [List.getElem?_cons_succ] at h
      obtain ⟨pre, post, e, hl⟩ := ih k n h
      exact ⟨x :: pre, post, by simp [e], by simp [hl]⟩

/-- what `applyBucket` leaves: same residual, and the null posting (if any) is a
    must-balance posting without amount at the recorded index -/
theorem applyBucket_spec (bucket : Option String) (ps0 : List FPost) (bal0 : Value) (np0 : Option Nat)
    (hcc : ∀ p ∈ ps0, p.costCalculated = false)
    (hnp : ∀ i, np0 = some i → ∃ n, ps0[i]? = some n ∧ nullMB n) :
    (∀ c, residual (applyBucket bucket ps0 bal0 np0).1 c = residual ps0 c) ∧
    (∀ p ∈ (applyBucket bucket ps0 bal0 np0).1, p.costCalculated = false) ∧
    (∀ i, (applyBucket bucket ps0 bal0 np0).2 = some i →
      ∃ n, (applyBucket bucket ps0 bal0 np0).1[i]? = some n ∧ nullMB n) := by
  unfold applyBucket
  split
  · rename_i b
    split
    · refine ⟨fun c => ?_, ?_, ?_⟩
      · simp only [residual_append, residual]
        rw [bal_of_none _ c (by simp [costOrAmt])]; grind
      · intro p hp
        rcases List.mem_append.1 hp with h1 | h1
        · exact hcc p h1
        · simp only [List.mem_singleton] at h1; subst h1; rfl
      · intro i hi
        simp only [Option.some.injEq] at hi
        subst hi
        refine ⟨{ account := b, kind := .real, state := (ps0.head?.map (·.state)).getD 0,
                  amount := none, cost := none, calculated := false, costCalculated := false,
                  generated := false, inferred := true, lotPrice := none }, by simp, ?_⟩
        simp [nullMB, FPost.mustBalance]
    · exact ⟨fun _ => rfl, hcc, hnp⟩
  · exact ⟨fun _ => rfl, hcc, hnp⟩

/-! lots: exchange() and the gain/loss adjustment (xact.cc 296-352) -/

theorem sub_comm {a b r : Amount} (h : Amount.sub a b = .ok r) : r.comm = a.comm := by
  unfold Amount.sub at h
  split at h
  · cases h
  · cases h; rfl

/-- the gain/loss handed to the balance, as a per-commodity quantity -/
def glDen : Option Amount → Comm → Rat
  | some g, c => g.den c
  | none, _ => 0

theorem lotStep_nocost (env : PrecEnv) (date : String) (p : FPost) (h : p.cost = none) :
    lotStep env date p = .ok (p, none) := by
  unfold lotStep
  rw [h]

/-- what one step of the cost loop does to a posting: flags, account and kind
    stay; its contribution to the residual moves by exactly the gain/loss that is
    handed to the balance -/
theorem lotStep_spec (env : PrecEnv) (date : String) (p p' : FPost) (gl : Option Amount)
    (h : lotStep env date p = .ok (p', gl)) :
    p'.mustBalance = p.mustBalance ∧ p'.account = p.account ∧ p'.kind = p.kind ∧
    p'.amount.isSome = p.amount.isSome ∧ p'.costCalculated = p.costCalculated ∧
    (∀ c, p'.bal c = p.bal c + glDen gl c) ∧
    (p.lotPrice = none → gl = none) := by
  have same : ∀ q : FPost, (Except.ok (q, none) : Except FinErr (FPost × Option Amount)) = .ok (p', gl) →
      p'.mustBalance = q.mustBalance ∧ p'.account = q.account ∧ p'.kind = q.kind ∧
      p'.amount.isSome = q.amount.isSome ∧ p'.costCalculated = q.costCalculated ∧
      (∀ c, p'.bal c = q.bal c + glDen gl c) ∧
      (q.lotPrice = none → gl = none) := by
    intro q e
    cases e
    exact ⟨rfl, rfl, rfl, rfl, rfl, fun c => by simp only [glDen]; grind, fun _ => rfl⟩
  obtain ⟨acct, kind, st, amount, cost, cl, cc, gen, inf, lp⟩ := p
  unfold lotStep at h
  cases cost with
  | none => exact same _ h
  | some cost =>
    cases amount with
    | none => exact same _ h
    | some amt =>
      simp only at h
      cases lp with
      | some price =>
        simp only at h
        split at h
        · rename_i hbc
          cases hsub : Amount.sub { Amount.mul env price amt with keep := true } cost with
          | error e => rw [hsub] at h; cases h
          | ok g =>
            rw [hsub] at h
            simp only at h
            split at h
            · cases hadd : Amount.add cost { g with keep := false } with
              | error e => rw [hadd] at h; cases h
              | ok c' =>
                rw [hadd] at h
                simp only at h
                cases h
                have hgc : g.comm = cost.comm := (sub_comm hsub).trans hbc
                have hden : ∀ c, c'.den c = cost.den c + ({ g with keep := false } : Amount).den c :=
                  fun c => Amount.add_den hadd hgc.symm c
                refine ⟨rfl, rfl, rfl, rfl, rfl, fun c => ?_, fun e => by cases e⟩
                cases hm : decide (kind ≠ PostKind.virtual)
                · simp only [FPost.bal, FPost.mustBalance, hm, Bool.false_eq_true, if_false, glDen]; grind
                · simp only [FPost.bal, FPost.mustBalance, hm, if_true, costOrAmt, glDen]
                  exact hden c
            · exact same _ h
        · exact same _ h
      | none =>
        simp only at h
        cases hpu : perUnitCost env amt cost with
        | error e => rw [hpu] at h; cases h
        | ok pu =>
          rw [hpu] at h
          simp only at h
          cases h
          refine ⟨rfl, rfl, rfl, rfl, rfl, fun c => ?_, fun _ => rfl⟩
          simp only [FPost.bal, FPost.mustBalance, costOrAmt, glDen]
          grind

theorem isZero_keep_q (env : PrecEnv) (a : Amount) (hk : a.keep = true) (hz : a.isZero env = true) :
    a.q = 0 := by
  unfold Amount.isZero at hz
  cases hh : a.hasComm
  · rw [hh] at hz; simpa using hz
  · rw [hh] at hz
    simp only [↓reduceIte] at hz
    rw [if_pos (Or.inl hk)] at hz
    simpa using hz

theorem sub_q {a b r : Amount} (h : Amount.sub a b = .ok r) : r.q = a.q - b.q ∧ r.keep = a.keep := by
  unfold Amount.sub at h
  split at h
  · cases h
  · cases h; exact ⟨rfl, rfl⟩

theorem add_q {a b r : Amount} (h : Amount.add a b = .ok r) : r.q = a.q + b.q ∧ r.comm = a.comm := by
  unfold Amount.add at h
  split at h
  · cases h
  · cases h; exact ⟨rfl, rfl⟩

/-- xact.cc 301-327: a posting whose amount carries a lot price (in the cost's
    commodity) ends with the BASIS cost `lot price × quantity`; what is handed to
    the balance (when the posting must balance) is exactly basis − given cost. -/
theorem lotStep_cost_consistent (env : PrecEnv) (date : String) (p p' : FPost) (gl : Option Amount)
    (price amt cost : Amount)
    (h : lotStep env date p = .ok (p', gl)) (hl : p.lotPrice = some price) (ha : p.amount = some amt)
    (hc : p.cost = some cost) (hcomm : (Amount.mul env price amt).comm = cost.comm) :
    ∃ c', p'.cost = some c' ∧ c'.q = price.q * amt.q ∧ c'.comm = cost.comm ∧ p'.amount = some amt ∧
      (∀ g, gl = some g → g.q = price.q * amt.q - cost.q ∧ g.comm = cost.comm) ∧
      (gl = none → p.mustBalance = false ∨ price.q * amt.q = cost.q) := by
  obtain ⟨acct, kind, st, amount, cost0, cl, cc, gen, inf, lp⟩ := p
  simp only at hl ha hc
  subst hl; subst ha; subst hc
  unfold lotStep at h
  simp only at h
  rw [if_pos hcomm] at h
  cases hsub : Amount.sub { Amount.mul env price amt with keep := true } cost with
  | error e => rw [hsub] at h; cases h
  | ok g =>
    rw [hsub] at h
    simp only at h
    obtain ⟨gq, gk⟩ := sub_q hsub
    have gc : g.comm = cost.comm := (sub_comm hsub).trans hcomm
    simp only [Amount.mul_q] at gq
    by_cases hz : g.isZero env = false
    · rw [if_pos hz] at h
      cases hadd : Amount.add cost { g with keep := false } with
      | error e => rw [hadd] at h; cases h
      | ok c' =>
        rw [hadd] at h
        simp only at h
        cases h
        obtain ⟨cq, ccm⟩ := add_q hadd
        refine ⟨c', rfl, by rw [cq]; simp only; rw [gq]; grind, ccm, rfl, ?_, ?_⟩
        · intro g' hg'
          split at hg'
          · cases hg'; exact ⟨gq, gc⟩
          · cases hg'
        · intro hn
          split at hn
          · cases hn
          · rename_i hm; left; simpa using hm
    · rw [if_neg hz] at h
      cases h
      have hz' : g.isZero env = true := by simpa using hz
      have : g.q = 0 := isZero_keep_q env g (by rw [gk]) hz'
      have e : price.q * amt.q = cost.q := by rw [gq] at this; grind
      refine ⟨cost, rfl, e.symm, rfl, rfl, ?_, fun _ => Or.inr e⟩
      intro g' hg'
      cases hg'

theorem addGain_spec (bal bal' : Value) (gl : Option Amount) (h : addGain bal gl = .ok bal')
    (hn : isNum bal = true) (hw : wfV bal) :
    isNum bal' = true ∧ wfV bal' ∧
    ∀ c, bal'.den c = bal.den c + glDen gl c := by
  unfold addGain at h
  cases gl with
  | none => simp only at h; cases h; exact ⟨hn, hw, fun c => by simp only [glDen]; grind⟩
  | some g =>
    simp only at h
    cases hadd : Value.add bal (.amt g) with
    | error e => rw [hadd] at h; cases h
    | ok b =>
      rw [hadd] at h; cases h
      exact ⟨add_amt_isNum _ _ _ hadd hn, wfV_add_amt _ _ _ hadd hw, fun c => by simp only [glDen]; exact add_amt_den _ _ _ hadd c⟩

/-- xact.cc 288-352 as a whole keeps `balance − Σ cost-or-amount` unchanged. -/
theorem lotLoop_inv (env : PrecEnv) (date : String) (ps : List FPost) :
    ∀ (bal : Value) (ps' : List FPost) (bal' : Value),
    lotLoop env date ps bal = .ok (ps', bal') → isNum bal = true → wfV bal →
    isNum bal' = true ∧ wfV bal' ∧
    (∀ c, bal'.den c - residual ps' c = bal.den c - residual ps c) ∧
    (∀ (i : Nat) (n : FPost), ps[i]? = some n → nullMB n → ps'[i]? = some n) ∧
    ((∀ p ∈ ps, p.lotPrice = none) → bal' = bal ∧ ∀ c, residual ps' c = residual ps c) := by
  induction ps with
  | nil =>
    intro bal ps' bal' h hn hw
    simp only [lotLoop] at h; cases h
    exact ⟨hn, hw, fun _ => rfl, fun i n h1 _ => by simp at h1, fun _ => ⟨rfl, fun _ => rfl⟩⟩
  | cons p ps ih =>
    intro bal ps' bal' h hn hw
    unfold lotLoop at h
    cases hs : lotStep env date p with
    | error e => rw [hs] at h; cases h
    | ok r =>
      obtain ⟨p1, gl⟩ := r
      rw [hs] at h
      simp only at h
      cases hg : addGain bal gl with
      | error e => rw [hg] at h; cases h
      | ok b1 =>
        rw [hg] at h
        simp only at h
        cases hr : lotLoop env date ps b1 with
        | error e => rw [hr] at h; cases h
        | ok r2 =>
          obtain ⟨rs, b2⟩ := r2
          rw [hr] at h
          simp only at h
          cases h
          obtain ⟨_, _, _, _, _, s6, s7⟩ := lotStep_spec env date p p1 gl hs
          obtain ⟨g1, g2, g3⟩ := addGain_spec bal b1 gl hg hn hw
          obtain ⟨i1, i2, i3, i4, i5⟩ := ih _ _ _ hr g1 g2
          refine ⟨i1, i2, fun c => ?_, ?_, ?_⟩
          · have := i3 c
            have := g3 c
            have := s6 c
            simp only [residual]
            grind
          · intro i n hi hnull
            cases i with
            | zero =>
              simp only [List.getElem?_cons_zero, Option.some.injEq] at hi
              subst hi
              rw [lotStep_nocost env date p hnull.2.1] at hs
              cases hs
              simp
            | succ k =>
              rw [List.getElem?_cons_succ] at hi ⊢
              exact i4 k n hi hnull
          · intro hnp
            have hgl : gl = none := s7 (hnp p List.mem_cons_self)
            subst hgl
            simp only [addGain] at hg
            cases hg
            obtain ⟨j1, j2⟩ := i5 (fun q hq => hnp q (List.mem_cons_of_mem _ hq))
            refine ⟨j1, fun c => ?_⟩
            have := s6 c
            simp only [glDen] at this
            simp only [residual, j2 c]
            grind

/-- The end of `finalizeF` from the state after the implicit exchange. -/
theorem tail_residual (env : PrecEnv) (enum : Balance → Balance) (henum : ∀ b, (enum b).Perm b)
    (ps2 : List FPost) (bal2 : Value) (np1 : Option Nat) (ps3 : List FPost) (bal3 : Value)
    (hfill : fillNull enum ps2 bal2 np1 = .ok (ps3, bal3))
    (hden : ∀ c, bal2.den c = residual ps2 c) (hn : isNum bal2 = true) (hw : wfV bal2)
    (hnp : ∀ i, np1 = some i → ∃ n, ps2[i]? = some n ∧ nullMB n)
    (hchk : ¬ (isNull bal3 = false ∧ valueIsZero env bal3 = false)) :
    (∀ c, displaysZero env c (residual ps3 c) = true) ∧
    (np1.isSome = true → ∀ c, residual ps3 c = 0) := by
  have plain : ps3 = ps2 → bal3 = bal2 → ∀ c, displaysZero env c (residual ps3 c) = true := by
    intro e1 e2 c
    subst e1; subst e2
    rw [← hden c]
    by_cases hnull : isNull bal3 = true
    · cases bal3 <;> simp [isNull] at hnull
      exact displaysZero_zero env c
    · have hz : valueIsZero env bal3 = true := by
        cases hv : valueIsZero env bal3 with
        | true => rfl
        | false => exact absurd ⟨by simpa using hnull, hv⟩ hchk
      exact value_isZero_den env bal3 hw hn hz c
  unfold fillNull at hfill
  cases np1 with
  | none =>
    simp only at hfill; cases hfill
    exact ⟨plain rfl rfl, fun h => by cases h⟩
  | some i =>
    simp only at hfill
    obtain ⟨n, hn1, hn2⟩ := hnp i rfl
    rw [hn1] at hfill
    simp only at hfill
    cases hfa : fillAmounts enum bal2 with
    | error e => rw [hfa] at hfill; cases hfill
    | ok amts =>
      rw [hfa] at hfill
      simp only at hfill
      cases hfill
      obtain ⟨pre, post, e, hl⟩ := split_at_index ps2 i n hn1
      obtain ⟨d1, _, _⟩ := fillAmounts_spec enum henum bal2 amts hfa hw
      have key : ∀ c, residual (fillPosts ps2 i n amts) c = 0 := by
        intro c
        subst hl
        rw [e, residual_fillPosts pre post n amts c hn2.1 hn2.2.1 hn2.2.2, d1 c, hden c, e]
        grind
      exact ⟨fun c => by rw [key c]; exact displaysZero_zero env c, fun _ => key⟩

theorem finish_posts (ps : List FPost) (x' : FXact) (h : finish ps = .ok x') : x'.posts = ps := by
  unfold finish at h
  split at h
  · cases h
  · split at h
    · cases h
    · cases h; rfl

/-- the state of `finalizeF` just before the null posting is filled (after the
    implicit exchange and the cost loop), with the invariants that hold there -/
theorem finalizeF_decomp (env : PrecEnv) (bucket : Option String) (enum : Balance → Balance)
    (date : String) (ps0 : List FPost)
    (hcc : ∀ p ∈ ps0, p.costCalculated = false) (x' : FXact)
    (h : finalizeF env bucket enum date ps0 = .ok x') :
    ∃ (bal0 : Value) (np0 : Option (Nat × String)) (ps1 : List FPost) (np1 : Option Nat)
      (ps2 : List FPost) (bal2 : Value) (ps2' : List FPost) (bal2' : Value) (ps3 : List FPost) (bal3 : Value),
      scan ps0 0 .void none = .ok (bal0, np0) ∧
      applyBucket bucket ps0 bal0 (np0.map (·.1)) = (ps1, np1) ∧
      exchange2 env enum ps1 bal0 np1 = .ok (ps2, bal2) ∧
      costsOk ps2 = true ∧
      lotLoop env date ps2 bal2 = .ok (ps2', bal2') ∧
      fillNull enum ps2' bal2' np1 = .ok (ps3, bal3) ∧
      ¬ (isNull bal3 = false ∧ valueIsZero env bal3 = false) ∧
      x'.posts = ps3 ∧
      isNum bal0 = true ∧ wfV bal0 ∧ (∀ c, bal0.den c = residual ps1 c) ∧
      isNum bal2' = true ∧ wfV bal2' ∧ (∀ c, bal2'.den c = residual ps2' c) ∧
      (∀ i, np1 = some i → ∃ n, ps2'[i]? = some n ∧ nullMB n) := by
  unfold finalizeF at h
  cases hs : scan ps0 0 .void none with
  | error e => rw [hs] at h; cases h
  | ok r0 =>
    obtain ⟨bal0, np0⟩ := r0
    rw [hs] at h
    simp only at h
    obtain ⟨s1, s2, s3⟩ := scan_inv ps0 0 .void none bal0 np0 hs rfl trivial
    have hnp0 : ∀ i, np0.map (·.1) = some i → ∃ n, ps0[i]? = some n ∧ nullMB n := by
      intro i hi
      cases np0 with
      | none => cases hi
      | some x =>
        obtain ⟨j, acct⟩ := x
        simp only [Option.map_some, Option.some.injEq] at hi
        subst hi
        obtain ⟨_, p, h1, h2, _⟩ := scan_some_spec ps0 0 .void bal0 j acct hs
        exact ⟨p, by simpa using h1, h2⟩
    obtain ⟨a1, a2, a3⟩ := applyBucket_spec bucket ps0 bal0 (np0.map (·.1)) hcc hnp0
    cases hab : applyBucket bucket ps0 bal0 (np0.map (·.1)) with
    | mk ps1 np1 =>
    rw [hab] at h a1 a2 a3
    simp only at h a1 a2 a3
    cases he : exchange2 env enum ps1 bal0 np1 with
    | error e => rw [he] at h; cases h
    | ok r2 =>
      obtain ⟨ps2, bal2⟩ := r2
      rw [he] at h
      simp only at h
      obtain ⟨e1, e2, e3, _⟩ := exchange2_inv env enum ps1 bal0 np1 ps2 bal2 he a2 s1 s2
      by_cases hck : costsOk ps2 = false
      · rw [if_pos hck] at h; cases h
      · rw [if_neg hck] at h
        cases hl : lotLoop env date ps2 bal2 with
        | error e => rw [hl] at h; cases h
        | ok r2' =>
          obtain ⟨ps2', bal2'⟩ := r2'
          rw [hl] at h
          simp only at h
          obtain ⟨l1, l2, l3, l4, _⟩ := lotLoop_inv env date ps2 bal2 ps2' bal2' hl e1 e2
          cases hf : fillNull enum ps2' bal2' np1 with
          | error e => rw [hf] at h; cases h
          | ok r3 =>
            obtain ⟨ps3, bal3⟩ := r3
            rw [hf] at h
            simp only at h
            by_cases hchk : isNull bal3 = false ∧ valueIsZero env bal3 = false
            · rw [if_pos hchk] at h; cases h
            · rw [if_neg hchk] at h
              have hv0 : ∀ c, (Value.void).den c = 0 := fun _ => rfl
              have hden0 : ∀ c, bal0.den c = residual ps1 c := by
                intro c
                have := s3 c
                have := a1 c
                have := hv0 c
                grind
              have hden : ∀ c, bal2'.den c = residual ps2' c := by
                intro c
                have := e3 c
                have := l3 c
                have := hden0 c
                grind
              have hnp2 : ∀ i, np1 = some i → ∃ n, ps2'[i]? = some n ∧ nullMB n := by
                intro i hi
                subst hi
                have : exchange2 env enum ps1 bal0 (some i) = .ok (ps1, bal0) := by
                  simp [exchange2]
                rw [this] at he; cases he
                obtain ⟨n, hn1, hn2⟩ := a3 i rfl
                exact ⟨n, l4 i n hn1 hn2, hn2⟩
              exact ⟨bal0, np0, ps1, np1, ps2, bal2, ps2', bal2', ps3, bal3, rfl, hab, he,
                by simpa using hck, hl, hf, hchk, finish_posts ps3 x' h, s1, s2, hden0, l1, l2, hden, hnp2⟩

/-- Everything the C01/C02 theorems need to know about a successful `finalizeF`. -/
theorem finalizeF_ok (env : PrecEnv) (bucket : Option String) (enum : Balance → Balance)
    (henum : ∀ b, (enum b).Perm b) (date : String) (ps0 : List FPost)
    (hcc : ∀ p ∈ ps0, p.costCalculated = false) (x' : FXact)
    (h : finalizeF env bucket enum date ps0 = .ok x') :
    (∀ c, displaysZero env c (residual x'.posts c) = true) := by
  obtain ⟨bal0, np0, ps1, np1, ps2, bal2, ps2', bal2', ps3, bal3, _, _, _, _, _, hf, hchk, hp, _, _, _,
    l1, l2, hden, hnp2⟩ := finalizeF_decomp env bucket enum date ps0 hcc x' h
  obtain ⟨t1, _⟩ := tail_residual env enum henum ps2' bal2' np1 ps3 bal3 hf hden l1 l2 hnp2 hchk
  rw [hp]
  exact t1

/-! ### 6. rejection -/

/-- The implicit two-commodity exchange of xact.cc 220-283 applies: no null
    posting, a residual with exactly two entries that both display non-zero, no
    written cost. -/
def implicitExchange (env : PrecEnv) (ps : List FPost) : Bool :=
  match scan ps 0 .void none with
  | .ok (.bal b, none) =>
    b.length = 2 ∧ (topScan ps none).1 = false ∧ (topScan ps none).2.isSome = true ∧
      b.all (fun a => !a.isZero env) = true
  | _ => false

theorem topScan_true_of_cost (ps : List FPost) : ∀ (top : Option FPost),
    (∃ p ∈ ps, p.cost.isSome = true ∧ p.costCalculated = false) → (topScan ps top).1 = true := by
  induction ps with
  | nil => intro _ ⟨p, hp, _⟩; cases hp
  | cons q qs ih =>
    intro top ⟨p, hp, hpc⟩
    unfold topScan
    simp only
    split
    · rfl
    · rename_i hq
      rcases List.mem_cons.1 hp with rfl | hp'
      · exact absurd hpc hq
      · exact ih _ ⟨p, hp', hpc⟩

theorem implicitExchange_false_of_cost (env : PrecEnv) (ps : List FPost)
    (h : ∃ p ∈ ps, p.cost.isSome = true ∧ p.costCalculated = false) :
    implicitExchange env ps = false := by
  unfold implicitExchange
  split
  · simp [topScan_true_of_cost ps none h]
  · rfl

theorem exchange2_id_of_not_implicit (env : PrecEnv) (enum : Balance → Balance)
    (henum : ∀ b, (enum b).Perm b) (ps : List FPost) (bal : Value)
    (hs : scan ps 0 .void none = .ok (bal, none)) (h : implicitExchange env ps = false) :
    exchange2 env enum ps bal none = .ok (ps, bal) := by
  unfold implicitExchange at h
  rw [hs] at h
  unfold exchange2
  cases bal with
  | bal b =>
    simp only at h ⊢
    by_cases hl : b.length = 2
    · rw [if_pos hl]
      cases hts : topScan ps none with
      | mk sc top =>
        cases sc with
        | true => rfl
        | false =>
          cases top with
          | none => rfl
          | some t =>
            simp only
            cases hen : enum b with
            | nil => rfl
            | cons x0 r1 =>
              cases r1 with
              | nil => rfl
              | cons y0 r2 =>
                cases r2 with
                | cons z _ => rfl
                | nil =>
                  simp only
                  have hall : b.all (fun a => !a.isZero env) = false := by
                    simpa [hl, hts] using h
                  have hperm := henum b
                  rw [hen] at hperm
                  have : ¬ (x0.isZero env = false ∧ y0.isZero env = false) := by
                    rintro ⟨hx, hy⟩
                    have : b.all (fun a => !a.isZero env) = true := by
                      rw [List.all_eq_true]
                      intro a ha
                      have := hperm.mem_iff.2 ha
                      simp only [List.mem_cons, List.not_mem_nil, or_false] at this
                      rcases this with rfl | rfl
                      · simp [hx]
                      · simp [hy]
                    rw [hall] at this; cases this
                  rw [if_neg this]
    · rw [if_neg hl]
  | void => rfl
  | bool _ => rfl
  | int _ => rfl
  | amt _ => rfl

theorem perUnitCost_error (env : PrecEnv) (amt cost : Amount) (e : FinErr)
    (h : perUnitCost env amt cost = .error e) : ∃ v, e = .value v := by
  unfold perUnitCost at h
  split at h
  · cases h
  · split at h
    · cases h
    · cases h; exact ⟨_, rfl⟩

/-- the cost loop can only fail with an error of the value arithmetic -/
theorem lotStep_error (env : PrecEnv) (date : String) (p : FPost) (e : FinErr)
    (h : lotStep env date p = .error e) : ∃ v, e = .value v := by
  obtain ⟨acct, kind, st, amount, cost, cl, cc, gen, inf, lp⟩ := p
  unfold lotStep at h
  cases cost with
  | none => cases h
  | some cost =>
    cases amount with
    | none => cases h
    | some amt =>
      simp only at h
      cases lp with
      | some price =>
        simp only at h
        split at h
        · cases hsub : Amount.sub { Amount.mul env price amt with keep := true } cost with
          | error v => rw [hsub] at h; simp only at h; cases h; exact ⟨v, rfl⟩
          | ok g =>
            rw [hsub] at h
            simp only at h
            split at h
            · cases hadd : Amount.add cost { g with keep := false } with
              | error v => rw [hadd] at h; simp only at h; cases h; exact ⟨v, rfl⟩
              | ok c' => rw [hadd] at h; cases h
            · cases h
        · cases h
      | none =>
        simp only at h
        cases hpu : perUnitCost env amt cost with
        | error e' =>
          rw [hpu] at h; simp only at h; cases h
          exact perUnitCost_error env amt cost _ hpu
        | ok pu => rw [hpu] at h; cases h

/-- `exchange()` never fails on its own: the division is guarded by `amount.is_zero()` -/
theorem perUnitCost_ok (env : PrecEnv) (amt cost : Amount) : ∃ pu, perUnitCost env amt cost = .ok pu := by
  unfold perUnitCost
  by_cases hz : amt.isZero env = true
  · rw [if_pos hz]; exact ⟨_, rfl⟩
  · rw [if_neg hz]
    unfold Amount.div
    rw [if_neg hz]
    exact ⟨_, rfl⟩

/-- a posting that does not carry both a lot price and a cost goes through the
    cost loop without error and without gain/loss -/
theorem lotStep_nogain (env : PrecEnv) (date : String) (p : FPost)
    (h : p.lotPrice = none ∨ p.cost = none) : ∃ p', lotStep env date p = .ok (p', none) := by
  rcases h with h | h
  · obtain ⟨acct, kind, st, amount, cost, cl, cc, gen, inf, lp⟩ := p
    simp only at h
    subst h
    unfold lotStep
    cases cost with
    | none => exact ⟨_, rfl⟩
    | some cost =>
      cases amount with
      | none => exact ⟨_, rfl⟩
      | some amt =>
        simp only
        obtain ⟨pu, hpu⟩ := perUnitCost_ok env amt cost
        rw [hpu]
        exact ⟨_, rfl⟩
  · exact ⟨p, lotStep_nocost env date p h⟩

/-- when no posting carries both a lot price and a cost the cost loop leaves the
    balance alone -/
theorem lotLoop_nogain (env : PrecEnv) (date : String) (ps : List FPost) :
    ∀ (bal : Value), (∀ p ∈ ps, p.lotPrice = none ∨ p.cost = none) →
    ∃ ps', lotLoop env date ps bal = .ok (ps', bal) ∧ ∀ c, residual ps' c = residual ps c := by
  induction ps with
  | nil => intro bal _; exact ⟨[], rfl, fun _ => rfl⟩
  | cons p ps ih =>
    intro bal hp
    unfold lotLoop
    obtain ⟨p1, hs⟩ := lotStep_nogain env date p (hp p List.mem_cons_self)
    obtain ⟨_, _, _, _, _, s6, _⟩ := lotStep_spec env date p p1 none hs
    rw [hs]
    simp only [addGain]
    obtain ⟨rs, h1, h2⟩ := ih bal (fun q hq => hp q (List.mem_cons_of_mem _ hq))
    rw [h1]
    refine ⟨p1 :: rs, rfl, fun c => ?_⟩
    have := s6 c
    simp only [glDen] at this
    simp only [residual, h2 c]; grind

/-- No null posting, no bucket, no implicit exchange, no posting with both a lot
    price and a cost, and a residual that does not display as zero in some
    commodity: "Transaction does not balance". -/
theorem finalizeF_unbalanced (env : PrecEnv) (bucket : Option String) (enum : Balance → Balance)
    (henum : ∀ b, (enum b).Perm b) (date : String) (ps0 : List FPost)
    (hnonull : ∀ p ∈ ps0, p.mustBalance = true → (costOrAmt p).isSome = true)
    (hb : bucket = none ∨ ps0.length ≠ 1)
    (hcosts : costsOk ps0 = true)
    (himp : implicitExchange env ps0 = false)
    (hlot : ∀ p ∈ ps0, p.lotPrice = none ∨ p.cost = none)
    (c : Comm) (hres : displaysZero env c (residual ps0 c) = false) :
    finalizeF env bucket enum date ps0 = .error .unbalanced := by
  obtain ⟨bal0, hs⟩ := scan_nonull ps0 0 .void none hnonull rfl
  obtain ⟨s1, s2, s3⟩ := scan_inv ps0 0 .void none bal0 none hs rfl trivial
  have hab : applyBucket bucket ps0 bal0 none = (ps0, none) := by
    unfold applyBucket
    rcases hb with rfl | hb
    · rfl
    · split
      · rw [if_neg (fun h => hb h.1)]
      · rfl
  have hex := exchange2_id_of_not_implicit env enum henum ps0 bal0 hs himp
  have hden : bal0.den c = residual ps0 c := by
    have h0 : (Value.void).den c = 0 := rfl
    have := s3 c; rw [h0] at this; grind
  have hchk : isNull bal0 = false ∧ valueIsZero env bal0 = false := by
    constructor
    · cases bal0 with
      | void => simp only [Value.den] at hden; rw [← hden, displaysZero_zero] at hres; cases hres
      | _ => rfl
    · cases hz : valueIsZero env bal0 with
      | false => rfl
      | true =>
        have := value_isZero_den env bal0 s2 s1 hz c
        rw [hden, hres] at this; cases this
  unfold finalizeF
  rw [hs]
  simp only [Option.map_none, hab, hex, hcosts]
  obtain ⟨ps', h1, _⟩ := lotLoop_nogain env date ps0 bal0 hlot
  rw [h1]
  simp only [fillNull]
  rw [if_pos hchk]
  simp

/-- two null must-balance postings are an error -/
theorem finalizeF_two_nulls (env : PrecEnv) (bucket : Option String) (enum : Balance → Balance)
    (date : String) (pre rest : List FPost) (n₁ : FPost) (h₁ : n₁.mustBalance = true) (h₁' : costOrAmt n₁ = none)
    (hex : ∃ p ∈ rest, p.mustBalance = true ∧ costOrAmt p = none) :
    finalizeF env bucket enum date (pre ++ n₁ :: rest) = .error .twoNulls ∨
    finalizeF env bucket enum date (pre ++ n₁ :: rest) = .error .misspelled := by
  unfold finalizeF
  rcases scan_two_nulls pre rest n₁ 0 .void h₁ h₁' hex rfl with h | h
  · rw [h]; exact Or.inl rfl
  · rw [h]; exact Or.inr rfl

/-- With a null posting present the result does not depend on the order in which
    the hash map of the residual is enumerated. -/
theorem finalizeF_order_free (env : PrecEnv) (bucket : Option String) (e₁ e₂ : Balance → Balance)
    (h₁ : ∀ b, (e₁ b).Perm b) (h₂ : ∀ b, (e₂ b).Perm b) (date : String) (ps0 : List FPost)
    (hnull : ∃ p ∈ ps0, p.mustBalance = true ∧ costOrAmt p = none) :
    finalizeF env bucket e₁ date ps0 = finalizeF env bucket e₂ date ps0 := by
  unfold finalizeF
  cases hs : scan ps0 0 .void none with
  | error e => rfl
  | ok r0 =>
    obtain ⟨bal0, np0⟩ := r0
    simp only
    obtain ⟨s1, s2, _⟩ := scan_inv ps0 0 .void none bal0 np0 hs rfl trivial
    cases np0 with
    | none =>
      obtain ⟨p, hp, hm, hn⟩ := hnull
      have := scan_none ps0 0 .void bal0 hs p hp hm
      rw [hn] at this; cases this
    | some x =>
      have hnp1 : ∃ i, (applyBucket bucket ps0 bal0 (Option.map (·.1) (some x))).2 = some i := by
        unfold applyBucket
        split
        · split
          · exact ⟨_, rfl⟩
          · exact ⟨_, rfl⟩
        · exact ⟨_, rfl⟩
      generalize applyBucket bucket ps0 bal0 (Option.map (·.1) (some x)) = r1 at hnp1
      obtain ⟨ps1, np1⟩ := r1
      obtain ⟨i, hi⟩ := hnp1
      simp only at hi
      subst hi
      have ex : ∀ e, exchange2 env e ps1 bal0 (some i) = .ok (ps1, bal0) := by
        intro e; simp [exchange2]
      simp only [ex]
      split
      · rfl
      · cases hl : lotLoop env date ps1 bal0 with
        | error e => rfl
        | ok r2 =>
          obtain ⟨ps2, bal2⟩ := r2
          simp only
          obtain ⟨_, l2, _⟩ := lotLoop_inv env date ps1 bal0 ps2 bal2 hl s1 s2
          have : fillNull e₁ ps2 bal2 (some i) = fillNull e₂ ps2 bal2 (some i) := by
            unfold fillNull
            simp only [fillAmounts_order_free e₁ e₂ h₁ h₂ bal2 l2]
          rw [this]

/-! ### 7. the exact fragment: no costs, every amount a decimal with at most the
       display precision of its commodity -/

/-- `a` is a commoditized decimal written with at most the display precision of
    its commodity (what the journal reader produces for a posting amount once the
    commodity's precision has been raised to cover it, amount.cc 1190-1195). -/
def Exact (env : PrecEnv) (a : Amount) : Prop :=
  a.hasComm = true ∧ a.keep = false ∧ a.prec ≤ env a.comm ∧
    ∃ m : Int, a.q = mkRat m (10 ^ env a.comm)

def exactV (env : PrecEnv) : Value → Prop
  | .void => True
  | .amt a => Exact env a
  | .bal b => ∀ a ∈ b, Exact env a
  | _ => False

theorem pow10_ne (p : Nat) : (10 ^ p : Nat) ≠ 0 := Nat.ne_of_gt (Nat.pow_pos (by decide))

theorem roundUnits_grid (m : Int) (p : Nat) : Amount.roundUnits (mkRat m (10^p)) p = m := by
  unfold Amount.roundUnits
  have hd : (mkRat m (10^p)).den ≠ 0 := Rat.den_nz _
  have hdpos : (0 : Int) < ((mkRat m (10^p)).den : Int) := by
    have := Rat.den_pos (mkRat m (10^p)); omega
  have key : (mkRat m (10^p)).num * ((10 ^ p : Nat) : Int) = m * (mkRat m (10^p)).den := by
    have h1 : mkRat (mkRat m (10^p)).num (mkRat m (10^p)).den = mkRat m (10^p) := Rat.mkRat_self _
    exact (Rat.mkRat_eq_iff hd (pow10_ne p)).1 h1
  have key' : (mkRat m (10^p)).num * (10 : Int) ^ p = m * (mkRat m (10^p)).den := by
    rw [← key]; simp
  simp only [key']
  rw [Int.mul_fdiv_cancel _ (by omega), Int.mul_fmod_left]
  have : ¬ (2 * (0:Int) > ((mkRat m (10^p)).den : Int) ∨
      (2 * (0:Int) = ((mkRat m (10^p)).den : Int) ∧ m % 2 ≠ 0)) := by
    omega
  rw [if_neg this]

theorem mkRat_add_same (m n : Int) (d : Nat) (hd : d ≠ 0) :
    mkRat m d + mkRat n d = mkRat (m + n) d := by
  rw [Rat.mkRat_add_mkRat _ _ hd hd]
  apply (Rat.mkRat_eq_iff (Nat.mul_ne_zero hd hd) hd).2
  simp only [Int.natCast_mul]
  grind

/-- a non-zero multiple of the display unit never prints as zero -/
theorem displaysZero_grid_false (env : PrecEnv) (c : Comm) (hc : c ≠ "") (m : Int) (hm : m ≠ 0) :
    displaysZero env c (mkRat m (10 ^ env c)) = false := by
  have hq : mkRat m (10 ^ env c) ≠ 0 := fun h => hm ((Rat.mkRat_eq_zero (pow10_ne _)).1 h)
  unfold displaysZero Amount.isZero
  have hh : ({ q := mkRat m (10 ^ env c), prec := env c + 1, keep := false, comm := c } : Amount).hasComm
      = true := by simp [Amount.hasComm, hc]
  rw [hh]
  simp only [↓reduceIte]
  have : ¬ (false = true ∨ env c + 1 ≤ env c) := by
    rintro (h1 | h1)
    · cases h1
    · omega
  rw [if_neg this]
  simp only [hq, decide_false, roundUnits_grid, hm]
  split
  · rename_i hf; exact absurd hf (by simp)
  · split <;> rfl

theorem exact_isZero_q (env : PrecEnv) (a : Amount) (h : Exact env a) (hz : a.isZero env = true) :
    a.q = 0 := by
  obtain ⟨h1, h2, h3, _⟩ := h
  unfold Amount.isZero at hz
  rw [h1] at hz
  simp only [↓reduceIte] at hz
  rw [if_pos (Or.inr h3)] at hz
  simpa using hz

theorem exact_combine (env : PrecEnv) (x a : Amount) (hx : Exact env x) (ha : Exact env a)
    (hc : x.comm = a.comm) :
    Exact env { x with q := x.q + a.q, prec := max x.prec a.prec } := by
  obtain ⟨x1, x2, x3, m, xm⟩ := hx
  obtain ⟨_, _, a3, n, an⟩ := ha
  refine ⟨x1, x2, ?_, m + n, ?_⟩
  · simp only; rw [← hc] at a3; omega
  · simp only
    rw [xm, an, ← hc, mkRat_add_same _ _ _ (pow10_ne _)]

theorem exactB_addGo (env : PrecEnv) (b : Balance) (a : Amount) (hb : ∀ x ∈ b, Exact env x)
    (ha : Exact env a) : ∀ x ∈ Balance.addGo b a, Exact env x := by
  induction b with
  | nil => intro x hx; simp only [Balance.addGo, List.mem_singleton] at hx; subst hx; exact ha
  | cons y ys ih =>
    intro x hx
    unfold Balance.addGo at hx
    split at hx
    · rename_i hc
      rcases List.mem_cons.1 hx with rfl | hx'
      · exact exact_combine env y a (hb y List.mem_cons_self) ha hc
      · exact hb x (List.mem_cons_of_mem _ hx')
    · rcases List.mem_cons.1 hx with rfl | hx'
      · exact hb _ List.mem_cons_self
      · exact ih (fun z hz => hb z (List.mem_cons_of_mem _ hz)) x hx'

theorem exactB_addAmt (env : PrecEnv) (b : Balance) (a : Amount) (hb : ∀ x ∈ b, Exact env x)
    (ha : Exact env a) : ∀ x ∈ Balance.addAmt b a, Exact env x := by
  unfold Balance.addAmt
  split
  · exact hb
  · exact exactB_addGo env b a hb ha

theorem exactB_ofAmt (env : PrecEnv) (a : Amount) (ha : Exact env a) :
    ∀ x ∈ Balance.ofAmt a, Exact env x := by
  unfold Balance.ofAmt
  split
  · intro x hx; cases hx
  · intro x hx; simp only [List.mem_singleton] at hx; subst hx; exact ha

theorem exactV_add_amt (env : PrecEnv) (v : Value) (a : Amount) (r : Value)
    (h : Value.add v (.amt a) = .ok r) (hv : exactV env v) (ha : Exact env a) : exactV env r := by
  cases v with
  | void => simp only [Value.add] at h; cases h; exact ha
  | bool b => cases hv
  | int x => cases hv
  | amt x =>
    simp only [Value.add] at h
    split at h
    · cases h; exact exactB_addAmt env _ a (exactB_ofAmt env x hv) ha
    · rename_i hxy
      have hc : x.comm = a.comm := by simpa using hxy
      obtain ⟨r', hr, rfl⟩ := Except.map_eq_ok h
      unfold Amount.add at hr
      split at hr
      · cases hr
      · cases hr
        have := exact_combine env x a hv ha hc
        simp only [hv.1, ha.1, if_true] at this ⊢
        exact this
  | bal x => simp only [Value.add] at h; cases h; exact exactB_addAmt env x a hv ha

theorem exactV_isZero_den (env : PrecEnv) (v : Value) (hv : exactV env v)
    (hz : valueIsZero env v = true) (c : Comm) : v.den c = 0 := by
  cases v with
  | void => rfl
  | bool b => cases hv
  | int n => cases hv
  | amt a =>
    have := exact_isZero_q env a hv (by simpa [valueIsZero] using hz)
    simp only [Value.den, Amount.den, this]; split <;> rfl
  | bal b =>
    simp only [valueIsZero, List.all_eq_true] at hz
    simp only [Value.den]
    induction b with
    | nil => rfl
    | cons x xs ih =>
      have hx := exact_isZero_q env x (hv x List.mem_cons_self) (hz x List.mem_cons_self)
      simp only [Balance.den_cons, Amount.den, hx]
      rw [ih (fun a ha => hv a (List.mem_cons_of_mem _ ha)) (fun a ha => hz a (List.mem_cons_of_mem _ ha))]
      split <;> grind

theorem scan_exact (env : PrecEnv) (ps : List FPost) : ∀ (i : Nat) (bal : Value)
    (np : Option (Nat × String)) (bal' : Value) (np' : Option (Nat × String)),
    scan ps i bal np = .ok (bal', np') → exactV env bal →
    (∀ p ∈ ps, p.cost = none) → (∀ p ∈ ps, ∀ a, p.amount = some a → Exact env a) →
    exactV env bal' := by
  induction ps with
  | nil => intro i bal np bal' np' h hv _ _; simp only [scan] at h; cases h; exact hv
  | cons p ps ih =>
    intro i bal np bal' np' h hv hc he
    have hc' : ∀ q ∈ ps, q.cost = none := fun q hq => hc q (List.mem_cons_of_mem _ hq)
    have he' : ∀ q ∈ ps, ∀ a, q.amount = some a → Exact env a :=
      fun q hq => he q (List.mem_cons_of_mem _ hq)
    unfold scan at h
    split at h
    · exact ih _ _ _ _ _ h hv hc' he'
    · split at h
      · rename_i a hco
        split at h
        · rename_i b' hadd
          have hpa : p.amount = some a := by
            rw [costOrAmt_of_cost_none p (hc p List.mem_cons_self)] at hco; exact hco
          have hea := he p List.mem_cons_self a hpa
          have hea' : Exact env { a with keep := false } := ⟨hea.1, rfl, hea.2.2.1, hea.2.2.2⟩
          exact ih _ _ _ _ _ h (exactV_add_amt env _ _ _ hadd hv hea') hc' he'
        · cases h
      · split at h
        · split at h <;> cases h
        · exact ih _ _ _ _ _ h hv hc' he'

theorem den_of_mem_wf {l : List Amount} (hw : wfB l) {a : Amount} (ha : a ∈ l) :
    Balance.den l a.comm = a.q := by
  induction l with
  | nil => cases ha
  | cons x xs ih =>
    unfold wfB at hw ih
    simp only [List.map_cons, List.nodup_cons] at hw
    simp only [Balance.den_cons, Amount.den]
    rcases List.mem_cons.1 ha with rfl | ha'
    · rw [if_pos rfl, den_eq_zero_of_not_mem xs _ hw.1]; grind
    · have hne : x.comm ≠ a.comm := fun e => hw.1 (e ▸ List.mem_map.2 ⟨a, ha', rfl⟩)
      rw [if_neg hne, ih hw.2 ha']; grind

/-- explicit effect of the pricing loop (xact.cc 269-280) on the balance when no
    posting carries a cost yet -/
theorem exchPosts_den (env : PrecEnv) (comm : Comm) (pu : Amount) (hpu : pu.hasComm = true)
    (ps : List FPost) : ∀ (bal : Value) (ps' : List FPost) (bal' : Value),
    exchPosts env comm pu ps bal = .ok (ps', bal') → (∀ p ∈ ps, p.cost = none) →
    ∀ c, bal'.den c = bal.den c - (if comm = c then residual ps comm else 0)
                        + (if pu.comm = c then pu.q * residual ps comm else 0) := by
  induction ps with
  | nil =>
    intro bal ps' bal' h _ c
    simp only [exchPosts] at h; cases h
    simp only [residual]; split <;> split <;> grind
  | cons p ps ih =>
    intro bal ps' bal' h hc c
    have hpc : p.cost = none := hc p List.mem_cons_self
    have hc' : ∀ q ∈ ps, q.cost = none := fun q hq => hc q (List.mem_cons_of_mem _ hq)
    unfold exchPosts at h
    cases ha : p.amount with
    | none => rw [ha] at h; cases h
    | some amt =>
      rw [ha] at h
      simp only at h
      by_cases hcond : p.mustBalance = true ∧ amt.comm = comm
      · rw [if_pos hcond] at h
        cases hsub : Value.sub bal (.amt amt) with
        | error e => rw [hsub] at h; cases h
        | ok b1 =>
          rw [hsub] at h
          simp only at h
          cases hadd : Value.add b1 (.amt (Amount.mul env pu amt)) with
          | error e => rw [hadd] at h; cases h
          | ok b2 =>
            rw [hadd] at h
            simp only at h
            cases hrec : exchPosts env comm pu ps b2 with
            | error e => rw [hrec] at h; cases h
            | ok r =>
              obtain ⟨r1, b3⟩ := r
              rw [hrec] at h
              simp only at h
              cases h
              have e1 := ih _ _ _ hrec hc' c
              have e2 := add_amt_den _ _ _ hadd c
              have e3 := sub_amt_den _ _ _ hsub c
              have e4 : p.bal comm = amt.q := by
                rw [bal_of_some p amt comm hcond.1 (by rw [costOrAmt_of_cost_none p hpc, ha])]
                simp [Amount.den, hcond.2]
              have e5 : (Amount.mul env pu amt).den c = if pu.comm = c then pu.q * amt.q else 0 := by
                simp only [Amount.den, Amount.mul_comm_of_hasComm env pu amt hpu, Amount.mul_q]
              have e6 : amt.den c = if comm = c then amt.q else 0 := by
                simp only [Amount.den, hcond.2]
              rw [e1, e2, e3, e5, e6]
              simp only [residual, e4]
              by_cases h1 : comm = c <;> by_cases h2 : pu.comm = c <;> simp only [h1, h2, if_true, if_false] <;> grind
      · rw [if_neg hcond] at h
        cases hrec : exchPosts env comm pu ps bal with
        | error e => rw [hrec] at h; cases h
        | ok r =>
          obtain ⟨r1, b3⟩ := r
          rw [hrec] at h
          simp only at h
          cases h
          have e1 := ih _ _ _ hrec hc' c
          have e4 : p.bal comm = 0 := by
            by_cases hm : p.mustBalance = true
            · rw [bal_of_some p amt comm hm (by rw [costOrAmt_of_cost_none p hpc, ha])]
              have : amt.comm ≠ comm := fun e => hcond ⟨hm, e⟩
              simp [Amount.den, this]
            · exact bal_of_not_mustBalance p comm (by simpa using hm)
          rw [e1]
          simp only [residual, e4]
          by_cases h1 : comm = c <;> by_cases h2 : pu.comm = c <;> simp only [h1, h2, if_true, if_false] <;> grind

theorem div_comm_of_hasComm {env : PrecEnv} {a b r : Amount} (h : Amount.div env a b = .ok r)
    (ha : a.hasComm = true) : r.comm = a.comm := by
  unfold Amount.div at h
  split at h
  · cases h
  · cases h; simp [Amount.clampPrec_comm]

theorem abs_comm (a : Amount) : a.abs.comm = a.comm := by
  unfold Amount.abs; split <;> rfl

theorem abs_q_mul (a : Amount) (x y : Rat) (hx : x ≠ 0) (h : a.q = y / x) :
    a.abs.q * x = y ∨ a.abs.q * x = -y := by
  have hc := Rat.div_mul_cancel (a := y) hx
  unfold Amount.abs
  split
  · right; simp only [Amount.neg, h]; grind
  · left; rw [h]; exact hc

/-- The implicit two-commodity exchange on exact amounts: if the result passes
    the display-zero test, the residual is exactly zero (`y + |y/x|·x` is `0` or
    `2y`, and `2y` is a non-zero multiple of the display unit). -/
theorem exchangeWith_exact (env : PrecEnv) (x y : Amount) (bal : Value) (ps ps' : List FPost)
    (bal' : Value) (hxy : x.comm ≠ y.comm) (_hx : Exact env x) (hy : Exact env y)
    (hxz : x.isZero env = false)
    (h : exchangeWith env x y ps bal = .ok (ps', bal')) (hnc : ∀ p ∈ ps, p.cost = none)
    (hden : ∀ c, bal.den c = x.den c + y.den c) (hres : ∀ c, bal.den c = residual ps c)
    (hdz : ∀ c, displaysZero env c (bal'.den c) = true) : ∀ c, bal'.den c = 0 := by
  unfold exchangeWith at h
  cases hdiv : Amount.div env y x with
  | error e => rw [hdiv] at h; cases h
  | ok r =>
    rw [hdiv] at h
    simp only at h
    have hxq : x.q ≠ 0 := Amount.isZero_false_ne hxz
    have hrq : r.q = y.q / x.q := Amount.div_q hdiv
    have hrc : r.comm = y.comm := div_comm_of_hasComm hdiv hy.1
    have hpuc : ({ r.abs with keep := true } : Amount).comm = y.comm := by
      simp only [abs_comm, hrc]
    have hpuh : ({ r.abs with keep := true } : Amount).hasComm = true := by
      have := hy.1
      simp only [Amount.hasComm] at this ⊢
      rw [hpuc]; exact this
    have hR : residual ps x.comm = x.q := by
      rw [← hres x.comm, hden x.comm]
      simp only [Amount.den, if_neg (Ne.symm hxy)]; grind
    intro c
    have e := exchPosts_den env x.comm _ hpuh ps bal ps' bal' h hnc c
    rw [hpuc, hR, hden c] at e
    simp only [Amount.den] at e
    by_cases h1 : x.comm = c
    · have h2 : ¬ y.comm = c := fun e2 => hxy (h1.trans e2.symm)
      simp only [h1, h2, if_true, if_false] at e
      rw [e]; grind
    · by_cases h2 : y.comm = c
      · simp only [h1, h2, if_true, if_false] at e
        rcases abs_q_mul r x.q y.q hxq hrq with h3 | h3
        · -- same sign: the residual would be 2y, a non-zero multiple of the display unit
          obtain ⟨yh, _, _, m, ym⟩ := hy
          have hval : bal'.den c = mkRat (m + m) (10 ^ env c) := by
            rw [e, h3, ym, h2]
            have := mkRat_add_same m m (10 ^ env c) (pow10_ne _)
            grind
          by_cases hm : m + m = 0
          · rw [hval, hm]; simp
          · have hcne : c ≠ "" := by
              rw [← h2]; simpa [Amount.hasComm] using yh
            have := displaysZero_grid_false env c hcne (m + m) hm
            rw [← hval, hdz c] at this; cases this
        · rw [e, h3]; grind
      · simp only [h1, h2, if_false] at e
        rw [e]; grind

theorem applyBucket_none (bucket : Option String) (ps : List FPost) (bal : Value) (np : Option Nat)
    (h : (applyBucket bucket ps bal np).2 = none) : (applyBucket bucket ps bal np).1 = ps := by
  unfold applyBucket at h ⊢
  split
  · split
    · rename_i hc; simp [hc] at h
    · rfl
  · rfl

theorem exchPosts_lotPrice (env : PrecEnv) (comm : Comm) (pu : Amount) (ps : List FPost) :
    ∀ (bal : Value) (ps' : List FPost) (bal' : Value),
    exchPosts env comm pu ps bal = .ok (ps', bal') → (∀ p ∈ ps, p.lotPrice = none) →
    ∀ p ∈ ps', p.lotPrice = none := by
  induction ps with
  | nil => intro bal ps' bal' h _ p hp; simp only [exchPosts] at h; cases h; cases hp
  | cons q qs ih =>
    intro bal ps' bal' h hl p hp
    have hl' : ∀ r ∈ qs, r.lotPrice = none := fun r hr => hl r (List.mem_cons_of_mem _ hr)
    have hq : q.lotPrice = none := hl q List.mem_cons_self
    unfold exchPosts at h
    cases ha : q.amount with
    | none => rw [ha] at h; cases h
    | some amt =>
      rw [ha] at h
      simp only at h
      by_cases hcond : q.mustBalance = true ∧ amt.comm = comm
      · rw [if_pos hcond] at h
        cases hsub : Value.sub bal (.amt amt) with
        | error e => rw [hsub] at h; cases h
        | ok b1 =>
          rw [hsub] at h
          simp only at h
          cases hadd : Value.add b1 (.amt (Amount.mul env pu amt)) with
          | error e => rw [hadd] at h; cases h
          | ok b2 =>
            rw [hadd] at h
            simp only at h
            cases hrec : exchPosts env comm pu qs b2 with
            | error e => rw [hrec] at h; cases h
            | ok r =>
              obtain ⟨r1, b3⟩ := r
              rw [hrec] at h
              simp only at h
              cases h
              rcases List.mem_cons.1 hp with rfl | hp'
              · exact hq
              · exact ih _ _ _ hrec hl' p hp'
      · rw [if_neg hcond] at h
        cases hrec : exchPosts env comm pu qs bal with
        | error e => rw [hrec] at h; cases h
        | ok r =>
          obtain ⟨r1, b3⟩ := r
          rw [hrec] at h
          simp only at h
          cases h
          rcases List.mem_cons.1 hp with rfl | hp'
          · exact hq
          · exact ih _ _ _ hrec hl' p hp'

theorem exchange2_lotPrice (env : PrecEnv) (enum : Balance → Balance) (ps : List FPost) (bal : Value)
    (np : Option Nat) (ps' : List FPost) (bal' : Value)
    (h : exchange2 env enum ps bal np = .ok (ps', bal')) (hl : ∀ p ∈ ps, p.lotPrice = none) :
    ∀ p ∈ ps', p.lotPrice = none := by
  have triv : (Except.ok (ps, bal) : Except FinErr (List FPost × Value)) = .ok (ps', bal') →
      ∀ p ∈ ps', p.lotPrice = none := by
    intro h2; cases h2; exact hl
  have ew : ∀ x y, exchangeWith env x y ps bal = .ok (ps', bal') → ∀ p ∈ ps', p.lotPrice = none := by
    intro x y hh
    unfold exchangeWith at hh
    split at hh
    · cases hh
    · exact exchPosts_lotPrice env _ _ ps _ _ _ hh hl
  unfold exchange2 at h
  split at h
  · split at h
    · split at h
      · split at h
        · split at h
          · split at h
            · exact ew _ _ h
            · exact ew _ _ h
          · exact triv h
        · exact triv h
      · exact triv h
    · exact triv h
  · exact triv h

/-- Exact fragment: no costs, no lot prices, every amount a decimal with at most
    its commodity's display precision ⇒ an accepted transaction sums to exactly zero. -/
theorem finalizeF_exact (env : PrecEnv) (bucket : Option String) (enum : Balance → Balance)
    (henum : ∀ b, (enum b).Perm b) (date : String) (ps0 : List FPost)
    (hcost : ∀ p ∈ ps0, p.cost = none) (hcc : ∀ p ∈ ps0, p.costCalculated = false)
    (hlp : ∀ p ∈ ps0, p.lotPrice = none)
    (hex : ∀ p ∈ ps0, ∀ a, p.amount = some a → Exact env a) (x' : FXact)
    (h : finalizeF env bucket enum date ps0 = .ok x') : ∀ c, residual x'.posts c = 0 := by
  obtain ⟨bal0, np0, ps1, np1, ps2, bal2, ps2', bal2', ps3, bal3, hs, hab, he, _, hl, hf, hchk, hp,
    s1, s2, hden0, l1, l2, hden', hnp2⟩ := finalizeF_decomp env bucket enum date ps0 hcc x' h
  have sx : exactV env bal0 := scan_exact env ps0 0 .void none bal0 np0 hs trivial hcost hex
  rw [hp]
  cases np1 with
  | some i =>
    exact (tail_residual env enum henum ps2' bal2' (some i) ps3 bal3 hf hden' l1 l2 hnp2 hchk).2 rfl
  | none =>
    have hps1 : ps1 = ps0 := by
      have := applyBucket_none bucket ps0 bal0 (np0.map (·.1))
      rw [hab] at this
      exact this rfl
    subst hps1
    simp only [fillNull] at hf
    obtain ⟨rfl, rfl⟩ := Prod.mk.inj (Except.ok.inj hf)
    obtain ⟨e1, e2, e3, _⟩ := exchange2_inv env enum ps1 bal0 none ps2 bal2 he hcc s1 s2
    obtain ⟨_, _, _, _, l5⟩ := lotLoop_inv env date ps2 bal2 ps2' bal2' hl e1 e2
    obtain ⟨hb, hr⟩ := l5 (exchange2_lotPrice env enum ps1 bal0 none ps2 bal2 he hlp)
    subst hb
    have hden : ∀ c, bal2'.den c = residual ps2 c := by
      intro c
      have := e3 c
      have := hden0 c
      grind
    intro c
    rw [hr c, ← hden c]
    have hdz : ∀ c, displaysZero env c (bal2'.den c) = true := by
      intro c
      by_cases hnull : isNull bal2' = true
      · cases bal2' <;> simp [isNull] at hnull
        exact displaysZero_zero env c
      · have hz : valueIsZero env bal2' = true := by
          cases hv : valueIsZero env bal2' with
          | true => rfl
          | false => exact absurd ⟨by simpa using hnull, hv⟩ hchk
        exact value_isZero_den env bal2' e2 e1 hz c
    have plain : (Except.ok (ps1, bal0) : Except FinErr (List FPost × Value)) = .ok (ps2, bal2') →
        bal2'.den c = 0 := by
      intro hh
      have hb : bal0 = bal2' := (Prod.mk.inj (Except.ok.inj hh)).2
      subst hb
      by_cases hnull : isNull bal0 = true
      · cases bal0 <;> simp [isNull] at hnull
        rfl
      · have hz : valueIsZero env bal0 = true := by
          cases hv : valueIsZero env bal0 with
          | true => rfl
          | false => exact absurd ⟨by simpa using hnull, hv⟩ hchk
        exact exactV_isZero_den env bal0 sx hz c
    cases bal0 with
    | bal b =>
      simp only [exchange2] at he
      split at he
      · split at he
        · rename_i top hts
          have hnc : ∀ p ∈ ps1, p.cost = none := hcost
          split at he
          · rename_i x0 y0 hen
            have hperm := henum b
            rw [hen] at hperm
            have hw2 : wfB [x0, y0] := wfB_perm hperm.symm s2
            have hx0 : Exact env x0 := sx x0 (hperm.mem_iff.1 (by simp))
            have hy0 : Exact env y0 := sx y0 (hperm.mem_iff.1 (by simp))
            have hne : x0.comm ≠ y0.comm := by
              unfold wfB at hw2
              simpa using hw2
            have hbd : ∀ c, (Value.bal b).den c = x0.den c + y0.den c := by
              intro c
              simp only [Value.den, den_perm hperm.symm c, Balance.den_cons, Balance.den_nil]
              grind
            split at he
            · rename_i hnz
              split at he
              · exact exchangeWith_exact env y0 x0 _ ps1 ps2 bal2' (Ne.symm hne) hy0 hx0 hnz.2 he hnc
                  (fun c => by rw [hbd c]; grind) hden0 hdz c
              · exact exchangeWith_exact env x0 y0 _ ps1 ps2 bal2' hne hx0 hy0 hnz.1 he hnc
                  hbd hden0 hdz c
            · exact plain he
          · exact plain he
        · exact plain he
      · exact plain he
    | void => simp only [exchange2] at he; exact plain he
    | bool _ => simp only [exchange2] at he; exact plain he
    | int _ => simp only [exchange2] at he; exact plain he
    | amt _ => simp only [exchange2] at he; exact plain he

/-! ### 8. the elided amount -/

/-- Exactly one null must-balance posting, at index `pre.length`.  `ps'` are the
    postings after the cost loop (amounts with a cost annotated, lot-priced costs
    moved to the basis cost); the null posting is still `n`, at the same index. -/
theorem finalizeF_fills_null (env : PrecEnv) (bucket : Option String) (enum : Balance → Balance)
    (henum : ∀ b, (enum b).Perm b) (date : String) (pre post : List FPost) (n : FPost)
    (hpre : ∀ p ∈ pre, p.mustBalance = true → (costOrAmt p).isSome = true)
    (hpost : ∀ p ∈ post, p.mustBalance = true → (costOrAmt p).isSome = true)
    (hn : nullMB n) (x' : FXact)
    (h : finalizeF env bucket enum date (pre ++ n :: post) = .ok x') :
    ∃ (bal0 : Value) (ps' : List FPost) (bal' : Value) (amts : List Amount),
      lotLoop env date (pre ++ n :: post) bal0 = .ok (ps', bal') ∧
      ps'[pre.length]? = some n ∧
      x'.posts = fillPosts ps' pre.length n amts ∧
      (∀ c, Balance.den amts c = residual ps' c) ∧
      wfB amts ∧ amts.Pairwise (fun a b => commLe a.comm b.comm = true) ∧
      (∀ c, residual x'.posts c = 0) := by
  have hco : costOrAmt n = none := by simp [costOrAmt, hn.2.1, hn.2.2]
  obtain ⟨bal0, hs⟩ := scan_one_null pre post n 0 .void hpre hpost hn.1 hco rfl
  obtain ⟨s1, s2, s3⟩ := scan_inv _ 0 .void none bal0 _ hs rfl trivial
  have hden : ∀ c, bal0.den c = residual (pre ++ n :: post) c := by
    intro c
    have h0 : (Value.void).den c = 0 := rfl
    have := s3 c; rw [h0] at this; grind
  have hab : applyBucket bucket (pre ++ n :: post) bal0 (some (0 + pre.length)) =
      (pre ++ n :: post, some pre.length) := by
    unfold applyBucket
    split
    · split
      · rename_i hc
        exfalso
        obtain ⟨hl, hnn⟩ := hc
        have hp : pre = [] := by
          cases pre with
          | nil => rfl
          | cons a as => simp at hl
        subst hp
        have hq : post = [] := by
          cases post with
          | nil => rfl
          | cons a as => simp at hl
        subst hq
        simp only [List.nil_append, scan, hn.1, hco] at hs
        simp at hs
        rw [← hs] at hnn
        simp [isNull] at hnn
      · simp
    · simp
  unfold finalizeF at h
  rw [hs] at h
  simp only [Option.map_some, hab] at h
  have hex : exchange2 env enum (pre ++ n :: post) bal0 (some pre.length) = .ok (pre ++ n :: post, bal0) := by
    simp [exchange2]
  rw [hex] at h
  simp only at h
  split at h
  · cases h
  · cases hl : lotLoop env date (pre ++ n :: post) bal0 with
    | error e => rw [hl] at h; cases h
    | ok r =>
      obtain ⟨ps', bal'⟩ := r
      rw [hl] at h
      simp only at h
      obtain ⟨l1, l2, l3, l4, _⟩ := lotLoop_inv env date _ bal0 ps' bal' hl s1 s2
      have hidx : ps'[pre.length]? = some n := l4 _ n (getElem?_length_append pre post n) hn
      have hden' : ∀ c, bal'.den c = residual ps' c := by
        intro c
        have := l3 c
        have := hden c
        grind
      unfold fillNull at h
      simp only [hidx] at h
      cases hfa : fillAmounts enum bal' with
      | error e => rw [hfa] at h; cases h
      | ok amts =>
        rw [hfa] at h
        simp only at h
        split at h
        · cases h
        · obtain ⟨d1, d2, d3⟩ := fillAmounts_spec enum henum bal' amts hfa l2
          have hp := finish_posts _ x' h
          obtain ⟨pre', post', e, hlen⟩ := split_at_index ps' pre.length n hidx
          refine ⟨bal0, ps', bal', amts, hl, hidx, hp, fun c => by rw [d1 c, hden' c], d2, d3, fun c => ?_⟩
          rw [hp, ← hlen]
          have e2 := residual_fillPosts pre' post' n amts c hn.1 hn.2.1 hn.2.2
          rw [← e] at e2
          rw [e2, d1 c, hden' c]
          grind

/-- the posting xact.cc 214-218 creates on the bucket account -/
def bucketPost (b : String) (st : ItemState) (amt : Option Amount) (cl : Bool) : FPost :=
  { account := b, kind := .real, state := st, amount := amt, cost := none,
    calculated := cl, costCalculated := false, generated := false, inferred := true,
    lotPrice := none }

/-- A single must-balance posting with an amount and a bucket account in force;
    `p'` is the posting after the cost loop (no gain/loss). -/
theorem finalizeF_bucket (env : PrecEnv) (b : String) (enum : Balance → Balance) (date : String)
    (p p' : FPost) (a : Amount) (hm : p.mustBalance = true) (hco : costOrAmt p = some a)
    (ham : p.amount.isSome = true) (hck : costsOk [p] = true)
    (hstep : lotStep env date p = .ok (p', none)) :
    finalizeF env (some b) enum date [p] =
      .ok ⟨[p', bucketPost b p.state (some ({ a with keep := false } : Amount).neg) true]⟩ := by
  have hs : scan [p] 0 .void none = .ok (.amt { a with keep := false }, none) := by
    simp [scan, hm, hco, Value.add]
  have hck2 : costsOk [p, bucketPost b p.state none false] = true := by
    simp only [costsOk, List.all_cons, List.all_nil, Bool.and_true] at hck ⊢
    rw [hck]; rfl
  obtain ⟨_, _, _, s4, _⟩ := lotStep_spec env date p p' none hstep
  have hl : lotLoop env date [p, bucketPost b p.state none false] (.amt { a with keep := false }) =
      .ok ([p', bucketPost b p.state none false], .amt { a with keep := false }) := by
    simp [lotLoop, hstep, addGain, lotStep_nocost env date (bucketPost b p.state none false) rfl]
  unfold finalizeF
  rw [hs]
  simp only [Option.map_none, applyBucket, List.length_cons, List.length_nil, isNull, List.head?_cons,
    Option.map_some, Option.getD_some, List.cons_append, List.nil_append]
  simp only [bucketPost] at hck2 hl
  have ham' : ¬ p'.amount = none := by
    intro e; rw [e] at s4; rw [ham] at s4; cases s4
  simp [exchange2, hck2, hl, fillNull, fillAmounts, fillPosts, finish, valueIsZero, ham', bucketPost]

/-- xact.cc 334-343: the posting with its amount annotated by the computed price and date -/
def annotatedPost (p : FPost) (a pu : Amount) (date : String) : FPost :=
  { p with amount := some { a with comm := annotate a.comm pu date }, lotPrice := some pu }

/-- a posting with a cost (and no lot price) followed by an elided one: the
    amount is annotated with the per-unit cost and the date, the elided posting
    gets the exact negation of the total cost -/
theorem finalizeF_pair (env : PrecEnv) (enum : Balance → Balance) (date : String) (p n : FPost)
    (a ct pu : Amount)
    (hpm : p.mustBalance = true) (hpa : p.amount = some a) (hpc : p.cost = some ct)
    (hpl : p.lotPrice = none) (hpu : perUnitCost env a ct = .ok pu)
    (hne : a.comm ≠ ct.comm) (hn : nullMB n) :
    finalizeF env none enum date [p, n] =
      .ok ⟨[annotatedPost p a pu date,
            { n with amount := some ({ ct with keep := false } : Amount).neg, calculated := true }]⟩ := by
  have hs : scan [p, n] 0 .void none = .ok (.amt { ct with keep := false }, some (1, n.account)) := by
    simp [scan, hpm, hn.1, costOrAmt, hpc, hn.2.1, hn.2.2, Value.add]
  have hck : costsOk [p, n] = true := by
    simp [costsOk, hpa, hpc, hn.2.1, hne]
  have hstep : lotStep env date p = .ok (annotatedPost p a pu date, none) := by
    simp [lotStep, hpa, hpc, hpl, hpu, annotatedPost]
  have hl : lotLoop env date [p, n] (.amt { ct with keep := false }) =
      .ok ([annotatedPost p a pu date, n], .amt { ct with keep := false }) := by
    simp [lotLoop, hstep, addGain, lotStep_nocost env date n hn.2.1]
  unfold finalizeF
  rw [hs]
  simp only [Option.map_some, applyBucket, exchange2, hck]
  simp [hl, fillNull, fillAmounts, fillPosts, finish, isNull, annotatedPost]

/-! ### 9. from `Xact` to `FPost`s, and the journal -/

theorem ofPosting_cc (env : PrecEnv) (ps : List LPosting) :
    ∀ p ∈ ps.map (FPost.ofPosting env), p.costCalculated = false := by
  intro p hp
  obtain ⟨q, _, rfl⟩ := List.mem_map.1 hp
  rfl

theorem ofPosting_cost_none (env : PrecEnv) (ps : List LPosting) (h : ∀ p ∈ ps, p.post.cost = none) :
    ∀ p ∈ ps.map (FPost.ofPosting env), p.cost = none := by
  intro p hp
  obtain ⟨q, hq, rfl⟩ := List.mem_map.1 hp
  simp only [FPost.ofPosting, h q hq]
  split <;> simp_all

theorem ofPosting_lot_none (env : PrecEnv) (ps : List LPosting) (h : ∀ p ∈ ps, p.lot = none) :
    ∀ p ∈ ps.map (FPost.ofPosting env), p.lotPrice = none := by
  intro p hp
  obtain ⟨q, hq, rfl⟩ := List.mem_map.1 hp
  simp only [FPost.ofPosting, h q hq]
  split <;> simp_all

theorem ofPosting_amount_plain (env : PrecEnv) (q : LPosting) (h : q.lot = none) :
    (FPost.ofPosting env q).amount = q.post.amount := by
  simp only [FPost.ofPosting, h, lotComm]
  cases q.post.amount with
  | none => rfl
  | some a => rfl

theorem ofPosting_amount (env : PrecEnv) (ps : List LPosting) (P : Amount → Prop)
    (hl : ∀ p ∈ ps, p.lot = none) (h : ∀ p ∈ ps, ∀ a, p.post.amount = some a → P a) :
    ∀ p ∈ ps.map (FPost.ofPosting env), ∀ a, p.amount = some a → P a := by
  intro p hp a ha
  obtain ⟨q, hq, rfl⟩ := List.mem_map.1 hp
  rw [ofPosting_amount_plain env q (hl q hq)] at ha
  exact h q hq a ha

theorem lotBase_of_plain (c : Comm) (h : hasAnn c = false) : lotBase c = c := by
  unfold hasAnn at h
  unfold lotBase
  simpa using h

def sumR : List Rat → Rat
  | [] => 0
  | x :: xs => x + sumR xs

theorem residual_flatMap (l : List FXact) (c : Comm) :
    residual (l.flatMap (·.posts)) c = sumR (l.map (fun fx => residual fx.posts c)) := by
  induction l with
  | nil => rfl
  | cons x xs ih => simp only [List.flatMap_cons, residual_append, ih, List.map_cons, sumR]

theorem sumR_zero (l : List Rat) (h : ∀ x ∈ l, x = 0) : sumR l = 0 := by
  induction l with
  | nil => rfl
  | cons x xs ih =>
    simp only [sumR, h x List.mem_cons_self, ih (fun y hy => h y (List.mem_cons_of_mem _ hy))]
    grind

/-- every accepted transaction of a loaded journal went through a successful `finalize` -/
theorem foldl_step_forall (enum : Balance → Balance) (P : FXact → Prop) (items : List JItem)
    (hP : ∀ env bucket x fx, JItem.xact x ∈ items →
      finalize (observe env x) bucket enum x = .ok fx → P fx) :
    ∀ st : JState, (∀ fx ∈ st.xacts, P fx) →
      ∀ fx ∈ (items.foldl (step enum) st).xacts, P fx := by
  induction items with
  | nil => intro st h; exact h
  | cons it its ih =>
    intro st h
    simp only [List.foldl_cons]
    apply ih (fun env bucket x fx hx => hP env bucket x fx (List.mem_cons_of_mem _ hx))
    cases it with
    | bucket _ a => exact h
    | xact x =>
      simp only [step]
      cases hf : finalize (observe st.env x) st.bucket enum x with
      | ok fx' =>
        simp only
        intro fx hfx
        rcases List.mem_append.1 hfx with h1 | h1
        · exact h fx h1
        · simp only [List.mem_singleton] at h1; subst h1
          exact hP st.env st.bucket x fx List.mem_cons_self hf
      | error e =>
        cases e <;> exact h

/-- a posting amount as the reader produces it: commoditized decimal with
    `prec` decimals, precision not kept -/
def Decimal (a : Amount) : Prop :=
  a.hasComm = true ∧ a.keep = false ∧ ∃ k : Int, a.q = mkRat k (10 ^ a.prec)

theorem observe_ge_init (c : Comm) (l : List LPosting) : ∀ m : Nat,
    m ≤ l.foldl (fun m p => match p.post.amount with
      | some a => if a.comm = c then max m a.prec else m
      | none => m) m := by
  induction l with
  | nil => intro m; exact Nat.le_refl _
  | cons p ps ih =>
    intro m
    simp only [List.foldl_cons]
    refine Nat.le_trans ?_ (ih _)
    split
    · split
      · exact Nat.le_max_left _ _
      · exact Nat.le_refl _
    · exact Nat.le_refl _

theorem observe_ge_mem (c : Comm) (l : List LPosting) : ∀ (m : Nat) (p : LPosting) (a : Amount),
    p ∈ l → p.post.amount = some a → a.comm = c →
    a.prec ≤ l.foldl (fun m p => match p.post.amount with
      | some a => if a.comm = c then max m a.prec else m
      | none => m) m := by
  induction l with
  | nil => intro m p a hp; cases hp
  | cons q qs ih =>
    intro m p a hp ha hc
    simp only [List.foldl_cons]
    rcases List.mem_cons.1 hp with rfl | hp'
    · refine Nat.le_trans ?_ (observe_ge_init c qs _)
      rw [ha]
      simp only [hc, if_true]
      exact Nat.le_max_right _ _
    · exact ih _ p a hp' ha hc

/-- `step_precision_covers`: once a transaction has been read, the display
    precision of every commodity covers every posting amount of it. -/
theorem observe_covers (env : PrecEnv) (x : LXact) (p : LPosting) (a : Amount) (hp : p ∈ x.posts)
    (ha : p.post.amount = some a) : a.prec ≤ observe env x a.comm :=
  observe_ge_mem a.comm x.posts (env a.comm) p a hp ha rfl

theorem mkRat_rescale (k : Int) (p e : Nat) (h : p ≤ e) :
    mkRat k (10 ^ p) = mkRat (k * (10 : Int) ^ (e - p)) (10 ^ e) := by
  apply (Rat.mkRat_eq_iff (pow10_ne p) (pow10_ne e)).2
  have : (10 : Int) ^ e = (10 : Int) ^ (e - p) * (10 : Int) ^ p := by
    rw [← Int.pow_add]; congr 1; omega
  have e1 : ((10 ^ e : Nat) : Int) = (10 : Int) ^ e := by simp
  have e2 : ((10 ^ p : Nat) : Int) = (10 : Int) ^ p := by simp
  rw [e1, e2, this]; grind

theorem exact_of_decimal (env : PrecEnv) (a : Amount) (hd : Decimal a) (hp : a.prec ≤ env a.comm) :
    Exact env a := by
  obtain ⟨h1, h2, k, hk⟩ := hd
  exact ⟨h1, h2, hp, k * (10 : Int) ^ (env a.comm - a.prec), by rw [hk, mkRat_rescale k _ _ hp]⟩

/-- the bucket in force after a directive list is its last declaration (whatever
    the spelling), or the one in force before when it declares none -/
theorem foldl_step_bucket (enum : Balance → Balance) (items : List JItem) : ∀ st : JState,
    (items.foldl (step enum) st).bucket =
      (match lastBucket items with | some b => some b | none => st.bucket) := by
  induction items with
  | nil => intro st; rfl
  | cons it its ih =>
    intro st
    simp only [List.foldl_cons]
    rw [ih]
    cases it with
    | bucket how a =>
      simp only [lastBucket, step]
      cases lastBucket its <;> rfl
    | xact x =>
      have hb : (step enum st (.xact x)).bucket = st.bucket := by
        simp only [step]
        cases hf : finalize (observe st.env x) st.bucket enum x with
        | ok fx => rfl
        | error e => cases e <;> rfl
      simp only [lastBucket, hb]

/-! ### 10. stripping lot annotations (the shape of C05's `strip_den`) -/

/-- residual restricted to the commodities selected by `pred` -/
def residualOn (pred : Comm → Bool) : List FPost → Rat
  | [] => 0
  | p :: ps =>
    (if p.mustBalance then
      match costOrAmt p with
      | some a => if pred a.comm then a.q else 0
      | none => 0
     else 0) + residualOn pred ps

/-- `strip_annotations` applied to a posting: quantities stay, commodities are mapped -/
def stripPost (s : Comm → Comm) (p : FPost) : FPost :=
  { p with amount := p.amount.map (fun a => { a with comm := s a.comm }),
           cost := p.cost.map (fun a => { a with comm := s a.comm }) }

theorem residual_eq_residualOn (ps : List FPost) (c : Comm) :
    residual ps c = residualOn (fun x => decide (x = c)) ps := by
  induction ps with
  | nil => rfl
  | cons p ps ih =>
    simp only [residual, residualOn, ih, FPost.bal]
    cases p.mustBalance <;> cases costOrAmt p <;> simp

theorem residualOn_strip (s : Comm → Comm) (pred : Comm → Bool) (ps : List FPost) :
    residualOn pred (ps.map (stripPost s)) = residualOn (fun x => pred (s x)) ps := by
  induction ps with
  | nil => rfl
  | cons p ps ih =>
    simp only [List.map_cons, residualOn, ih]
    congr 1
    obtain ⟨acct, kind, st, amount, cost, cl, cc, gen, inf, lp⟩ := p
    cases cost <;> cases amount <;> cases kind <;> simp [stripPost, costOrAmt, FPost.mustBalance]

end FinX
end Ledger
