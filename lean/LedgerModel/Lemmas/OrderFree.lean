/-
Helper lemmas behind Props/C08 (order and file-layout independence).
Core Lean only.
-/
import LedgerModel.Model.OrderFree
import LedgerModel.Lemmas.Value

set_option linter.unusedSimpArgs false

namespace Ledger
namespace OF

/-! ### Styles and the commodity pool -/

theorem Style.join_comm (a b : Style) : a.join b = b.join a := by
  cases a; cases b
  simp only [Style.join, Style.mk.injEq, Nat.max_comm, Bool.or_comm, and_self]

theorem Style.join_assoc (a b c : Style) : (a.join b).join c = a.join (b.join c) := by
  cases a; cases b; cases c
  simp only [Style.join, Style.mk.injEq, Nat.max_assoc, Bool.or_assoc, and_self]

@[simp] theorem Style.zero_join (a : Style) : Style.zero.join a = a := by
  cases a
  simp [Style.join, Style.zero]

@[simp] theorem Style.join_zero (a : Style) : a.join Style.zero = a := by
  rw [Style.join_comm]; exact Style.zero_join a

theorem Style.join_right_comm (a b c : Style) : (a.join b).join c = (a.join c).join b := by
  rw [Style.join_assoc, Style.join_comm b c, ← Style.join_assoc]

theorem Pool.get_nil (c : Comm) : Pool.get [] c = Style.zero := rfl

theorem Pool.get_learn (p : Pool) (c : Comm) (s : Style) (c' : Comm) :
    (p.learn c s).get c' = if c' = c then (p.get c').join s else p.get c' := by
  induction p with
  | nil =>
    by_cases h : c' = c
    · subst h; simp [Pool.learn, Pool.get]
    · have h' : ¬ c = c' := fun e => h e.symm
      simp [Pool.learn, Pool.get, h, h']
  | cons e rest ih =>
    obtain ⟨d, t⟩ := e
    unfold Pool.learn
    by_cases hd : d = c
    · subst hd
      by_cases h : c' = d
      · subst h; simp [Pool.get]
      · have h' : ¬ d = c' := fun e => h e.symm
        simp [Pool.get, h, h']
    · simp only [hd, if_false]
      by_cases hdc : d = c'
      · subst hdc
        have : ¬ d = c := hd
        simp [Pool.get, this]
      · have e1 : Pool.get ((d, t) :: Pool.learn rest c s) c' = Pool.get (Pool.learn rest c s) c' := by
          simp [Pool.get, hdc]
        have e2 : Pool.get ((d, t) :: rest) c' = Pool.get rest c' := by
          simp [Pool.get, hdc]
        rw [e1, e2, ih]

/-- learning a list of observations. -/
def Pool.learnAll (p : Pool) (obs : List (Comm × Style)) : Pool :=
  obs.foldl (fun p o => p.learn o.1 o.2) p

/-- the join of the observed styles of one commodity, on top of `s0`. -/
def joinObs (s0 : Style) (obs : List (Comm × Style)) (c : Comm) : Style :=
  obs.foldl (fun s o => if o.1 = c then s.join o.2 else s) s0

theorem Pool.get_learnAll (p : Pool) (obs : List (Comm × Style)) (c : Comm) :
    (p.learnAll obs).get c = joinObs (p.get c) obs c := by
  induction obs generalizing p with
  | nil => rfl
  | cons o rest ih =>
    simp only [Pool.learnAll, List.foldl_cons, joinObs] at *
    rw [ih, Pool.get_learn]
    by_cases h : c = o.1
    · subst h; simp
    · have h' : ¬ o.1 = c := fun e => h e.symm
      simp [h, h']

theorem Pool.learnAll_append (p : Pool) (a b : List (Comm × Style)) :
    p.learnAll (a ++ b) = (p.learnAll a).learnAll b := by
  simp [Pool.learnAll, List.foldl_append]

theorem joinObs_perm {s0 : Style} {l₁ l₂ : List (Comm × Style)} (h : l₁.Perm l₂) (c : Comm) :
    joinObs s0 l₁ c = joinObs s0 l₂ c := by
  unfold joinObs
  apply List.Perm.foldl_eq' h
  intro x _ y _ z
  by_cases hx : x.1 = c <;> by_cases hy : y.1 = c <;> simp [hx, hy, Style.join_right_comm]

/-- precision is the maximum of the observed precisions. -/
theorem joinObs_prec (s0 : Style) (obs : List (Comm × Style)) (c : Comm) :
    (joinObs s0 obs c).prec =
      ((obs.filter (fun o => o.1 = c)).map (fun o => o.2.prec)).foldl max s0.prec := by
  induction obs generalizing s0 with
  | nil => rfl
  | cons o rest ih =>
    simp only [joinObs, List.foldl_cons] at *
    by_cases h : o.1 = c
    · simp only [h, if_true, decide_true, List.filter_cons_of_pos, List.map_cons, List.foldl_cons]
      rw [ih]; rfl
    · simp only [h, if_false, decide_false, Bool.false_eq_true, not_false_eq_true, List.filter_cons_of_neg]
      rw [ih]

/-- each flag is the OR of the observed flags. -/
theorem joinObs_flags (s0 : Style) (obs : List (Comm × Style)) (c : Comm) :
    (joinObs s0 obs c).suffixed = (s0.suffixed || (obs.filter (fun o => o.1 = c)).any (fun o => o.2.suffixed)) ∧
    (joinObs s0 obs c).separated = (s0.separated || (obs.filter (fun o => o.1 = c)).any (fun o => o.2.separated)) ∧
    (joinObs s0 obs c).thousands = (s0.thousands || (obs.filter (fun o => o.1 = c)).any (fun o => o.2.thousands)) ∧
    (joinObs s0 obs c).decimalComma =
      (s0.decimalComma || (obs.filter (fun o => o.1 = c)).any (fun o => o.2.decimalComma)) := by
  induction obs generalizing s0 with
  | nil => simp [joinObs]
  | cons o rest ih =>
    simp only [joinObs, List.foldl_cons] at *
    by_cases h : o.1 = c
    · simp only [h, if_true, decide_true, List.filter_cons_of_pos, List.any_cons]
      have := ih (s0.join o.2)
      simp only [Style.join] at this
      simp only [Style.join, this, Bool.or_assoc, and_self]
    · simp only [h, if_false, decide_false, Bool.false_eq_true, not_false_eq_true, List.filter_cons_of_neg]
      exact ih s0

/-! ### Reading amounts inside the style-consistent fragment -/

/-- every commodity that never raises DECIMAL_COMMA has it off in the pool. -/
def Inv (ws : List (WAmt × Bool)) (pool : Pool) : Prop :=
  ∀ c, neverDC ws c = true → (pool.get c).decimalComma = false

theorem Inv_nil (ws : List (WAmt × Bool)) : Inv ws [] := fun _ _ => rfl

theorem readAmt_canon {ws : List (WAmt × Bool)} {pool : Pool} (hc : styleConsistent ws = true)
    (hi : Inv ws pool) {w : WAmt} {m : Bool} (hw : (w, m) ∈ ws) :
    readAmt (pool.get w.comm).decimalComma m w = readAmt false m w := by
  cases h : (pool.get w.comm).decimalComma with
  | false => rfl
  | true =>
    have h1 := (List.all_eq_true.mp hc) (w, m) hw
    simp only [Bool.or_eq_true] at h1
    rcases h1 with h1 | h1
    · have := hi w.comm h1
      rw [h] at this; cases this
    · have h2 := (List.all_eq_true.mp h1) (w, m) hw
      simp only [Bool.or_eq_true, decide_eq_true_eq, ne_eq, not_true_eq_false, false_or] at h2
      simpa [stableAmt] using h2

theorem Inv_learn {ws : List (WAmt × Bool)} {pool : Pool} (hi : Inv ws pool) {w : WAmt}
    (hw : (w, true) ∈ ws) {a : Amount} {sty : Style} (hr : readAmt false true w = .ok (a, sty)) :
    Inv ws (pool.learn w.comm sty) := by
  intro c hc
  rw [Pool.get_learn]
  by_cases h : c = w.comm
  · subst h
    have h2 := (List.all_eq_true.mp hc) (w, true) hw
    simp only [Bool.or_eq_true, decide_eq_true_eq, ne_eq, not_true_eq_false, false_or] at h2
    simp only [noDC, Bool.not_true, Bool.false_or, hr, Bool.not_eq_eq_eq_not, Bool.not_true] at h2
    simp [Style.join, hi w.comm hc, h2]
  · simp [h, hi c hc]

/-- `readOpt` with the flag consultation replaced by `false`. -/
def readOptF (pool : Pool) (migrate : Bool) : Option WAmt → Except LoadErr (Option Amount × Pool)
  | none => .ok (none, pool)
  | some w =>
    match readAmt false migrate w with
    | .error e => .error e
    | .ok (a, sty) => .ok (some a, if migrate && decide (w.comm ≠ "") then pool.learn w.comm sty else pool)

def readPostF (pool : Pool) (p : WPost) : Except LoadErr (Posting × Pool) :=
  match readOptF pool true p.amount with
  | .error e => .error e
  | .ok (amt, pool1) =>
    match readOptF pool1 false (p.cost.map (·.amt)) with
    | .error e => .error e
    | .ok (cst, pool2) =>
      match readOptF pool2 true p.assert with
      | .error e => .error e
      | .ok (asr, pool3) => .ok (mkPosting p amt cst asr, pool3)

def readPostsF : Pool → List WPost → Except LoadErr (List Posting × Pool)
  | pool, [] => .ok ([], pool)
  | pool, p :: ps =>
    match readPostF pool p with
    | .error e => .error e
    | .ok (q, pool1) =>
      match readPostsF pool1 ps with
      | .error e => .error e
      | .ok (qs, pool2) => .ok (q :: qs, pool2)

theorem readOpt_eq {ws : List (WAmt × Bool)} {pool : Pool} (hc : styleConsistent ws = true)
    (hi : Inv ws pool) {m : Bool} {o : Option WAmt} (hw : ∀ w, o = some w → (w, m) ∈ ws) :
    readOpt pool m o = readOptF pool m o := by
  cases o with
  | none => rfl
  | some w =>
    simp only [readOpt, readOptF, readAmt_canon hc hi (hw w rfl)]
    cases readAmt false m w <;> rfl

theorem readOptF_inv {ws : List (WAmt × Bool)} {pool pool' : Pool} (hi : Inv ws pool) {m : Bool}
    {o : Option WAmt} (hw : ∀ w, o = some w → (w, m) ∈ ws) {r : Option Amount}
    (h : readOptF pool m o = .ok (r, pool')) : Inv ws pool' := by
  cases o with
  | none => simp only [readOptF, Except.ok.injEq, Prod.mk.injEq] at h; rw [← h.2]; exact hi
  | some w =>
    simp only [readOptF] at h
    split at h
    · cases h
    · rename_i a sty hr
      simp only [Except.ok.injEq, Prod.mk.injEq] at h
      rw [← h.2]
      cases m with
      | false => exact hi
      | true =>
        by_cases hcm : w.comm = ""
        · simp only [hcm, ne_eq, not_true_eq_false, decide_false, Bool.and_false, Bool.false_eq_true, if_false]
          exact hi
        · simp only [ne_eq, hcm, not_false_eq_true, decide_true, Bool.and_self, if_true]
          exact Inv_learn hi (hw w rfl) hr

theorem mem_amtsOfPost_amount {p : WPost} {w : WAmt} (h : p.amount = some w) : (w, true) ∈ amtsOfPost p := by
  simp [amtsOfPost, h]

theorem mem_amtsOfPost_cost {p : WPost} {w : WAmt} (h : p.cost.map (·.amt) = some w) :
    (w, false) ∈ amtsOfPost p := by
  cases hc : p.cost with
  | none => simp [hc] at h
  | some c =>
    simp only [hc, Option.map_some, Option.some.injEq] at h
    simp [amtsOfPost, hc, h]

theorem mem_amtsOfPost_assert {p : WPost} {w : WAmt} (h : p.assert = some w) : (w, true) ∈ amtsOfPost p := by
  simp [amtsOfPost, h]

theorem readPost_eq {ws : List (WAmt × Bool)} {pool : Pool} (hc : styleConsistent ws = true)
    (hi : Inv ws pool) {p : WPost} (hw : ∀ wm ∈ amtsOfPost p, wm ∈ ws) :
    readPost pool p = readPostF pool p ∧
      ∀ q pool', readPostF pool p = .ok (q, pool') → Inv ws pool' := by
  have h1 : ∀ w, p.amount = some w → (w, true) ∈ ws := fun w h => hw _ (mem_amtsOfPost_amount h)
  have h2 : ∀ w, p.cost.map (·.amt) = some w → (w, false) ∈ ws := fun w h => hw _ (mem_amtsOfPost_cost h)
  have h3 : ∀ w, p.assert = some w → (w, true) ∈ ws := fun w h => hw _ (mem_amtsOfPost_assert h)
  unfold readPost readPostF
  rw [readOpt_eq hc hi h1]
  cases e1 : readOptF pool true p.amount with
  | error e => exact ⟨rfl, fun _ _ h => by cases h⟩
  | ok r1 =>
    obtain ⟨amt, pool1⟩ := r1
    have i1 := readOptF_inv hi h1 e1
    simp only []
    rw [readOpt_eq hc i1 h2]
    cases e2 : readOptF pool1 false (p.cost.map (·.amt)) with
    | error e => exact ⟨rfl, fun _ _ h => by cases h⟩
    | ok r2 =>
      obtain ⟨cst, pool2⟩ := r2
      have i2 := readOptF_inv i1 h2 e2
      simp only []
      rw [readOpt_eq hc i2 h3]
      cases e3 : readOptF pool2 true p.assert with
      | error e => exact ⟨rfl, fun _ _ h => by cases h⟩
      | ok r3 =>
        obtain ⟨asr, pool3⟩ := r3
        have i3 := readOptF_inv i2 h3 e3
        refine ⟨rfl, fun q pool' h => ?_⟩
        simp only [Except.ok.injEq, Prod.mk.injEq] at h
        rw [← h.2]; exact i3

theorem readPosts_eq {ws : List (WAmt × Bool)} (hc : styleConsistent ws = true) :
    ∀ (ps : List WPost) (pool : Pool), Inv ws pool → (∀ p ∈ ps, ∀ wm ∈ amtsOfPost p, wm ∈ ws) →
      readPosts pool ps = readPostsF pool ps ∧
        ∀ qs pool', readPostsF pool ps = .ok (qs, pool') → Inv ws pool'
  | [], pool, hi, _ => ⟨rfl, fun _ _ h => by
      simp only [readPostsF, Except.ok.injEq, Prod.mk.injEq] at h; rw [← h.2]; exact hi⟩
  | p :: ps, pool, hi, hw => by
    have hp := readPost_eq hc hi (fun wm h => hw p (List.mem_cons_self) wm h)
    unfold readPosts readPostsF
    rw [hp.1]
    cases e1 : readPostF pool p with
    | error e => exact ⟨rfl, fun _ _ h => by cases h⟩
    | ok r1 =>
      obtain ⟨q, pool1⟩ := r1
      have i1 := hp.2 q pool1 e1
      have ih := readPosts_eq hc ps pool1 i1 (fun p' h => hw p' (List.mem_cons_of_mem _ h))
      simp only []
      rw [ih.1]
      cases e2 : readPostsF pool1 ps with
      | error e => exact ⟨rfl, fun _ _ h => by cases h⟩
      | ok r2 =>
        obtain ⟨qs, pool2⟩ := r2
        refine ⟨rfl, fun qs' pool' h => ?_⟩
        simp only [Except.ok.injEq, Prod.mk.injEq] at h
        rw [← h.2]; exact ih.2 qs pool2 e2

/-! ### The flag-free reader is the canonical reading plus the learned observations -/

def obsOpt (migrate : Bool) : Option WAmt → List (Comm × Style)
  | none => []
  | some w =>
    if migrate && decide (w.comm ≠ "") then
      match readAmt false migrate w with
      | .ok r => [(w.comm, r.2)]
      | .error _ => []
    else []

def obsPost (p : WPost) : List (Comm × Style) := obsOpt true p.amount ++ obsOpt true p.assert

def obsPosts (ps : List WPost) : List (Comm × Style) := ps.flatMap obsPost

theorem readOptF_iff (pool : Pool) (m : Bool) (o : Option WAmt) (r : Option Amount) (pool' : Pool) :
    readOptF pool m o = .ok (r, pool') ↔ canonOpt m o = some r ∧ pool' = pool.learnAll (obsOpt m o) := by
  cases o with
  | none => simp [readOptF, canonOpt, obsOpt, Pool.learnAll, eq_comm]
  | some w =>
    simp only [readOptF, canonOpt, obsOpt]
    cases hr : readAmt false m w with
    | error e => simp
    | ok x =>
      obtain ⟨a, sty⟩ := x
      simp only [Except.ok.injEq, Prod.mk.injEq, Option.some.injEq]
      by_cases hl : (m && decide (w.comm ≠ "")) = true
      · simp only [hl, if_true, Pool.learnAll, List.foldl_cons, List.foldl_nil]
        exact ⟨fun h => ⟨h.1, h.2.symm⟩, fun h => ⟨h.1, h.2.symm⟩⟩
      · simp only [hl, Bool.false_eq_true, if_false, Pool.learnAll, List.foldl_nil]
        exact ⟨fun h => ⟨h.1, h.2.symm⟩, fun h => ⟨h.1, h.2.symm⟩⟩

theorem readPostF_iff (pool : Pool) (p : WPost) (q : Posting) (pool' : Pool) :
    readPostF pool p = .ok (q, pool') ↔ canonPost p = some q ∧ pool' = pool.learnAll (obsPost p) := by
  unfold readPostF canonPost obsPost
  cases e1 : readOptF pool true p.amount with
  | error e =>
    have : canonOpt true p.amount = none := by
      cases hco : canonOpt true p.amount with
      | none => rfl
      | some r =>
        have := (readOptF_iff pool true p.amount r _).mpr ⟨hco, rfl⟩
        rw [e1] at this; cases this
    simp [this]
  | ok r1 =>
    obtain ⟨amt, pool1⟩ := r1
    obtain ⟨c1, p1⟩ := (readOptF_iff _ _ _ _ _).mp e1
    simp only [c1]
    cases e2 : readOptF pool1 false (p.cost.map (·.amt)) with
    | error e =>
      have : canonOpt false (p.cost.map (·.amt)) = none := by
        cases hco : canonOpt false (p.cost.map (·.amt)) with
        | none => rfl
        | some r =>
          have := (readOptF_iff pool1 false _ r _).mpr ⟨hco, rfl⟩
          rw [e2] at this; cases this
      simp [this]
    | ok r2 =>
      obtain ⟨cst, pool2⟩ := r2
      obtain ⟨c2, p2⟩ := (readOptF_iff _ _ _ _ _).mp e2
      have p2' : pool2 = pool1 := by
        rw [p2]; cases p.cost <;> simp [obsOpt, Pool.learnAll]
      simp only [c2]
      cases e3 : readOptF pool2 true p.assert with
      | error e =>
        have : canonOpt true p.assert = none := by
          cases hco : canonOpt true p.assert with
          | none => rfl
          | some r =>
            have := (readOptF_iff pool2 true _ r _).mpr ⟨hco, rfl⟩
            rw [e3] at this; cases this
        simp [this]
      | ok r3 =>
        obtain ⟨asr, pool3⟩ := r3
        obtain ⟨c3, p3⟩ := (readOptF_iff _ _ _ _ _).mp e3
        simp only [c3, Except.ok.injEq, Prod.mk.injEq, Option.some.injEq]
        rw [p3, p2', p1, Pool.learnAll_append]
        constructor
        · rintro ⟨h1, h2⟩; exact ⟨h1, h2.symm⟩
        · rintro ⟨h1, h2⟩; exact ⟨h1, h2.symm⟩

theorem canonPosts_nil : canonPosts [] = some [] := rfl

theorem canonPosts_cons (p : WPost) (ps : List WPost) :
    canonPosts (p :: ps) = match canonPost p with
      | none => none
      | some q => match canonPosts ps with
        | none => none
        | some qs => some (q :: qs) := by
  simp only [canonPosts, optAll]
  cases canonPost p with
  | none => rfl
  | some q =>
    cases optAll canonPost ps with
    | none => rfl
    | some qs => rfl

theorem readPostsF_iff : ∀ (ps : List WPost) (pool : Pool) (qs : List Posting) (pool' : Pool),
    readPostsF pool ps = .ok (qs, pool') ↔ canonPosts ps = some qs ∧ pool' = pool.learnAll (obsPosts ps)
  | [], pool, qs, pool' => by
    simp [readPostsF, canonPosts_nil, obsPosts, Pool.learnAll, eq_comm]
  | p :: ps, pool, qs, pool' => by
    rw [canonPosts_cons]
    unfold readPostsF
    cases e1 : readPostF pool p with
    | error e =>
      have : canonPost p = none := by
        cases hco : canonPost p with
        | none => rfl
        | some r =>
          have := (readPostF_iff pool p r _).mpr ⟨hco, rfl⟩
          rw [e1] at this; cases this
      simp [this]
    | ok r1 =>
      obtain ⟨q, pool1⟩ := r1
      obtain ⟨c1, p1⟩ := (readPostF_iff _ _ _ _).mp e1
      simp only [c1]
      cases e2 : readPostsF pool1 ps with
      | error e =>
        have : canonPosts ps = none := by
          cases hco : canonPosts ps with
          | none => rfl
          | some r =>
            have := (readPostsF_iff ps pool1 r _).mpr ⟨hco, rfl⟩
            rw [e2] at this; cases this
        simp [this]
      | ok r2 =>
        obtain ⟨qs2, pool2⟩ := r2
        obtain ⟨c2, p2⟩ := (readPostsF_iff ps pool1 qs2 pool2).mp e2
        simp only [c2, Except.ok.injEq, Prod.mk.injEq, Option.some.injEq]
        have : pool2 = pool.learnAll (obsPosts (p :: ps)) := by
          rw [p2, p1]; simp [obsPosts, Pool.learnAll_append]
        rw [this]
        constructor
        · rintro ⟨h1, h2⟩; exact ⟨h1, h2.symm⟩
        · rintro ⟨h1, h2⟩; exact ⟨h1, h2.symm⟩

/-! ### Sums over lists -/

def sumBy {α : Type} (f : α → Rat) : List α → Rat
  | [] => 0
  | x :: xs => f x + sumBy f xs

@[simp] theorem sumBy_nil {α : Type} (f : α → Rat) : sumBy f [] = 0 := rfl
@[simp] theorem sumBy_cons {α : Type} (f : α → Rat) (x : α) (xs : List α) :
    sumBy f (x :: xs) = f x + sumBy f xs := rfl

theorem sumBy_append {α : Type} (f : α → Rat) (a b : List α) :
    sumBy f (a ++ b) = sumBy f a + sumBy f b := by
  induction a with
  | nil => simp only [List.nil_append, sumBy_nil]; grind
  | cons x xs ih => simp only [List.cons_append, sumBy_cons, ih]; grind

theorem sumBy_perm {α : Type} (f : α → Rat) {l₁ l₂ : List α} (h : l₁.Perm l₂) :
    sumBy f l₁ = sumBy f l₂ := by
  induction h with
  | nil => rfl
  | cons x _ ih => simp only [sumBy_cons, ih]
  | swap x y l => simp only [sumBy_cons]; grind
  | trans _ _ ih1 ih2 => exact ih1.trans ih2

theorem sumBy_flatMap {α β : Type} (f : β → Rat) (g : α → List β) (l : List α) :
    sumBy f (l.flatMap g) = sumBy (fun x => sumBy f (g x)) l := by
  induction l with
  | nil => rfl
  | cons x xs ih => simp only [List.flatMap_cons, sumBy_append, sumBy_cons, ih]

theorem sumBy_map {α β : Type} (f : β → Rat) (g : α → β) (l : List α) :
    sumBy f (l.map g) = sumBy (fun x => f (g x)) l := by
  induction l with
  | nil => rfl
  | cons x xs ih => simp only [List.map_cons, sumBy_cons, ih]

theorem sumBy_filter {α : Type} (f : α → Rat) (p : α → Bool) (l : List α) :
    sumBy f (l.filter p) = sumBy (fun x => if p x then f x else 0) l := by
  induction l with
  | nil => rfl
  | cons x xs ih =>
    by_cases h : p x
    · simp only [List.filter_cons_of_pos h, sumBy_cons, ih, h, if_true]
    · simp only [List.filter_cons_of_neg h, sumBy_cons, ih, h]; simp only [Bool.false_eq_true, if_false]; grind

theorem sumBy_congr {α : Type} {f g : α → Rat} (l : List α) (h : ∀ x ∈ l, f x = g x) :
    sumBy f l = sumBy g l := by
  induction l with
  | nil => rfl
  | cons x xs ih =>
    simp only [sumBy_cons]
    rw [h x List.mem_cons_self, ih (fun y hy => h y (List.mem_cons_of_mem _ hy))]

theorem sumBy_zero {α : Type} (l : List α) : sumBy (fun _ => (0 : Rat)) l = 0 := by
  induction l with
  | nil => rfl
  | cons x xs ih => simp only [sumBy_cons, ih]; grind

theorem sumBy_neg {α : Type} (f : α → Rat) (l : List α) : sumBy (fun x => - f x) l = - sumBy f l := by
  induction l with
  | nil => simp only [sumBy_nil]; grind
  | cons x xs ih => simp only [sumBy_cons, ih]; grind

/-- Σ of the `c`-denotations of the entries selected by `p`. -/
def sumDen (p : Entry → Bool) (c : Comm) (es : List Entry) : Rat :=
  sumBy (fun e => if p e then e.amt.den c else 0) es

/-- an account's own coefficient in commodity `c`. -/
def coeff (es : List Entry) (a : String) (c : Comm) : Rat := sumDen (fun e => e.account = a) c es

theorem sumDen_perm (p : Entry → Bool) (c : Comm) {l₁ l₂ : List Entry} (h : l₁.Perm l₂) :
    sumDen p c l₁ = sumDen p c l₂ := sumBy_perm _ h

theorem sumDen_append (p : Entry → Bool) (c : Comm) (a b : List Entry) :
    sumDen p c (a ++ b) = sumDen p c a + sumDen p c b := sumBy_append _ a b

theorem Balance.den_eq_sumBy (b : Balance) (c : Comm) : b.den c = sumBy (fun a => a.den c) b := by
  induction b with
  | nil => rfl
  | cons x xs ih => simp only [Balance.den_cons, sumBy_cons, ih]

theorem Balance.den_perm {b₁ b₂ : Balance} (h : b₁.Perm b₂) (c : Comm) : b₁.den c = b₂.den c := by
  rw [Balance.den_eq_sumBy, Balance.den_eq_sumBy]; exact sumBy_perm _ h

theorem foldl_addAmt_den (es : List Entry) (b0 : Balance) (c : Comm) :
    (es.foldl (fun b e => Balance.addAmt b e.amt) b0).den c = b0.den c + sumBy (fun e => e.amt.den c) es := by
  induction es generalizing b0 with
  | nil => simp only [List.foldl_nil, sumBy_nil]; grind
  | cons e rest ih => simp only [List.foldl_cons, ih, Balance.addAmt_den, sumBy_cons]; grind

/-- The balance ledger accumulates for an account denotes the sum of its postings. -/
theorem ownBalance_den (es : List Entry) (a : String) (c : Comm) :
    (ownBalance es a).den c = coeff es a c := by
  unfold ownBalance coeff sumDen
  rw [foldl_addAmt_den, sumBy_filter]
  simp only [Balance.den_nil]; grind

theorem familyBalance_den (es : List Entry) (a : String) (c : Comm) :
    (familyBalance es a).den c = sumDen (fun e => accountUnder e.account a) c es := by
  unfold familyBalance sumDen
  rw [foldl_addAmt_den, sumBy_filter]
  simp only [Balance.den_nil]; grind

/-! ### finalize -/

theorem vadd_den (v : Value) (a : Amount) (c : Comm) : (vadd v a).den c = v.den c + a.den c := by
  cases v with
  | void => simp only [vadd, Value.den]; grind
  | bool b => simp only [vadd, Value.den]; grind
  | int n =>
    simp only [vadd, Value.den, Balance.addAmt_den, Balance.den_ofAmt, Amount.den_ofInt]
  | amt x =>
    simp only [vadd]
    by_cases h : x.comm = a.comm
    · simp only [h, if_true, Value.den, Amount.den]
      split <;> grind
    · simp only [h, if_false, Value.den, Balance.addAmt_den, Balance.den_ofAmt]
  | bal b => simp only [vadd, Value.den, Balance.addAmt_den]

theorem foldl_vadd_den (l : List Amount) (v : Value) (c : Comm) :
    (l.foldl vadd v).den c = v.den c + sumBy (fun a => a.den c) l := by
  induction l generalizing v with
  | nil => simp only [List.foldl_nil, sumBy_nil]; grind
  | cons x xs ih => simp only [List.foldl_cons, ih, vadd_den, sumBy_cons]; grind

/-- the balance of a transaction denotes the sum of what its must-balance postings contribute. -/
def bsum (c : Comm) (ps : List Posting) : Rat :=
  sumBy (fun p => match bamt p with | some b => b.den c | none => 0) ps

theorem sumBy_filterMap {α β : Type} (f : β → Rat) (g : α → Option β) (l : List α) :
    sumBy f (l.filterMap g) = sumBy (fun x => match g x with | some y => f y | none => 0) l := by
  induction l with
  | nil => rfl
  | cons x xs ih =>
    cases h : g x with
    | none => simp only [List.filterMap_cons_none h, sumBy_cons, h, ih]; grind
    | some y => simp only [List.filterMap_cons_some h, sumBy_cons, h, ih]

theorem xbalance_den (ps : List Posting) (c : Comm) : (xbalance ps).den c = bsum c ps := by
  unfold xbalance bsum
  rw [foldl_vadd_den, sumBy_filterMap]
  simp only [Value.den]; grind

theorem insertBy_perm {α : Type} (le : α → α → Bool) (x : α) (l : List α) :
    (insertBy le x l).Perm (x :: l) := by
  induction l with
  | nil => exact List.Perm.refl _
  | cons y ys ih =>
    unfold insertBy
    split
    · exact List.Perm.refl _
    · exact (List.Perm.cons y ih).trans (List.Perm.swap x y ys)

theorem isort_perm {α : Type} (le : α → α → Bool) (l : List α) : (isort le l).Perm l := by
  induction l with
  | nil => exact List.Perm.refl _
  | cons x xs ih => exact (insertBy_perm le x _).trans (List.Perm.cons x ih)

theorem inferred_den (v : Value) (c : Comm) : sumBy (fun a => a.den c) (inferred v) = - v.den c := by
  cases v with
  | void => simp only [inferred, sumBy_nil, Value.den]; grind
  | bool b => simp only [inferred, sumBy_nil, Value.den]; grind
  | int n => simp only [inferred, sumBy_cons, sumBy_nil, Amount.den_neg, Value.den, Amount.den_ofInt]; grind
  | amt a => simp only [inferred, sumBy_cons, sumBy_nil, Amount.den_neg, Value.den]; grind
  | bal b =>
    simp only [inferred, Value.den, sumBy_map, Amount.den_neg]
    rw [sumBy_neg, ← Balance.den_eq_sumBy]
    unfold sortedAmounts
    rw [Balance.den_perm (isort_perm _ b)]

/-- what the postings that carry an amount contribute, for entries selected by date and account. -/
def amtSum (P : Int → String → Bool) (date : Int) (c : Comm) (ps : List Posting) : Rat :=
  sumBy (fun p => match p.amount with
    | some a => if P date p.account then a.den c else 0
    | none => 0) ps

def headDen (inf : List Amount) (c : Comm) : Rat :=
  match inf with
  | a :: _ => a.den c
  | [] => 0

theorem postEntries_sum (P : Int → String → Bool) (date : Int) (inf : List Amount) (c : Comm)
    (ps : List Posting) :
    sumDen (fun e => P e.date e.account) c (postEntries date inf ps) =
      amtSum P date c ps +
        sumBy (fun n => if P date n.account then headDen inf c else 0) (nullPosts ps) := by
  induction ps with
  | nil => simp only [postEntries, sumDen, amtSum, nullPosts, sumBy_nil, List.filter_nil]; grind
  | cons p ps ih =>
    simp only [sumDen, amtSum, nullPosts] at ih ⊢
    unfold postEntries
    cases ha : p.amount with
    | some a =>
      have hn : isNullPost p = false := by simp [isNullPost, ha]
      simp only [List.filter_cons, hn, Bool.false_eq_true, if_false, sumBy_cons, ha, ih]
      grind
    | none =>
      cases hm : p.mustBalance with
      | true =>
        have hn : isNullPost p = true := by simp [isNullPost, ha, hm]
        simp only [if_true, List.filter_cons, hn, sumBy_cons, ha]
        cases inf with
        | nil => simp only [ih, headDen]; grind
        | cons i rest => simp only [sumBy_cons, ih, headDen]; grind
      | false =>
        have hn : isNullPost p = false := by simp [isNullPost, hm]
        simp only [Bool.false_eq_true, if_false, List.filter_cons, hn, sumBy_cons, ha, ih]
        grind

theorem headDen_add_drop (inf : List Amount) (c : Comm) :
    headDen inf c + sumBy (fun a => a.den c) (inf.drop 1) = sumBy (fun a => a.den c) inf := by
  cases inf with
  | nil => simp only [headDen, List.drop_nil, sumBy_nil]; grind
  | cons a rest => simp only [headDen, List.drop_one, List.tail_cons, sumBy_cons]

/-- The postings of an accepted transaction, summed over any selection by date and
    account: the written amounts plus, on the account of the elided posting, the
    negated balance. -/
theorem fin0_sum (P : Int → String → Bool) (date : Int) (c : Comm) (ps : List Posting) :
    sumDen (fun e => P e.date e.account) c (fin0 date ps) =
      amtSum P date c ps +
        (match nullPosts ps with
         | [n] => if P date n.account then - bsum c ps else 0
         | _ => 0) := by
  unfold fin0
  split
  · rename_i n hn
    rw [sumDen_append, postEntries_sum, hn]
    simp only [sumBy_cons, sumBy_nil]
    unfold extraEntries sumDen
    rw [sumBy_map]
    by_cases hp : P date n.account = true
    · simp only [hp, if_true]
      have := headDen_add_drop (inferred (xbalance ps)) c
      rw [inferred_den, xbalance_den] at this
      grind
    · simp only [hp, Bool.false_eq_true, if_false]
      rw [sumBy_zero]; grind
  · rename_i hne
    rw [postEntries_sum]
    have : sumBy (fun n => if P date n.account = true then headDen [] c else 0) (nullPosts ps) = 0 := by
      simp only [headDen, ite_self]; exact sumBy_zero _
    rw [this]
    split
    · rename_i n hn; exact absurd hn (hne n)
    · rfl

/-! ### One transaction, then the whole journal, inside the fragment -/

theorem canonPosts_eq (ps : List WPost) :
    canonPosts ps = if ps.all (fun p => (canonPost p).isSome) then some (ps.filterMap canonPost) else none := by
  induction ps with
  | nil => rfl
  | cons p ps ih =>
    rw [canonPosts_cons, ih]
    cases hp : canonPost p with
    | none => simp [hp]
    | some q =>
      by_cases h : ps.all (fun p => (canonPost p).isSome) = true
      · simp [hp, h, List.filterMap_cons_some hp]
      · simp only [Bool.not_eq_true] at h
        simp [hp, h]

/-- the postings a plain transaction contributes (canonical reading; empty when unreadable). -/
def entC (x : WXact) : List Entry :=
  if x.posts.all (fun p => (canonPost p).isSome) then fin0 x.date (x.posts.filterMap canonPost) else []

def entD : Dir → List Entry
  | .xact x => entC x
  | _ => []

def obsD : Dir → List (Comm × Style)
  | .xact x => obsPosts x.posts
  | _ => []

theorem canonPost_assert {p : WPost} {q : Posting} (h : canonPost p = some q) (ha : p.assert = none) :
    q.assert = none := by
  unfold canonPost at h
  rw [ha] at h
  simp only [canonOpt] at h
  split at h
  · rename_i a c r h1 h2 h3
    simp only [Option.some.injEq] at h3 h
    rw [← h, ← h3]; rfl
  · cases h

theorem canonPosts_assert : ∀ {ps : List WPost} {qs : List Posting}, canonPosts ps = some qs →
    (∀ p ∈ ps, p.assert = none) → ∀ q ∈ qs, q.assert = none
  | [], qs, h, _ => by
    simp only [canonPosts_nil, Option.some.injEq] at h; subst h; intro q hq; cases hq
  | p :: ps, qs, h, ha => by
    rw [canonPosts_cons] at h
    cases hp : canonPost p with
    | none => simp [hp] at h
    | some q0 =>
      cases hps : canonPosts ps with
      | none => simp [hp, hps] at h
      | some qs0 =>
        simp only [hp, hps, Option.some.injEq] at h
        subst h
        intro q hq
        cases hq with
        | head => exact canonPost_assert hp (ha p List.mem_cons_self)
        | tail _ hq => exact canonPosts_assert hps (fun p' h' => ha p' (List.mem_cons_of_mem _ h')) q hq

theorem assignPosts_id : ∀ (qs : List Posting) (before : List Entry), (∀ q ∈ qs, q.assert = none) →
    assignPosts before qs = qs
  | [], _, _ => rfl
  | q :: qs, before, h => by
    have hq := h q List.mem_cons_self
    have ih := fun b => assignPosts_id qs b (fun q' h' => h q' (List.mem_cons_of_mem _ h'))
    unfold assignPosts
    cases ha : q.amount with
    | none => simp only [hq, ih]
    | some a => simp only [hq, ih]

theorem checkAsserts_true : ∀ (qs : List Posting) (before : List Entry) (date : Int),
    (∀ q ∈ qs, q.assert = none) → checkAsserts before date qs = true
  | [], _, _, _ => rfl
  | q :: qs, before, date, h => by
    have hq := h q List.mem_cons_self
    unfold checkAsserts
    simp only [hq, Bool.true_and]
    exact checkAsserts_true qs _ date (fun q' h' => h q' (List.mem_cons_of_mem _ h'))

theorem finalize_ok {env : PrecEnv} {date : Int} {ps : List Posting} {es : List Entry}
    (h : finalize env date ps = .ok es) : es = fin0 date ps := by
  unfold finalize at h
  split at h
  · cases h
  · split at h
    · split at h
      · cases h; rfl
      · cases h
    · split at h
      · split at h
        · cases h; rfl
        · cases h
      · cases h; rfl
    · cases h

theorem rewriteAccount_init (a : String) : rewriteAccount Ctx.init a = a := by
  simp [rewriteAccount, Ctx.init]

theorem rewriteX_init (x : WXact) : rewriteX Ctx.init x = x := by
  cases x with
  | mk date posts =>
    have hm : posts.map (fun p => { p with account := rewriteAccount Ctx.init p.account }) = posts := by
      induction posts with
      | nil => rfl
      | cons p ps ih =>
        rw [List.map_cons, ih]
        cases p
        simp only [rewriteAccount_init]
    simp only [rewriteX, hm]
    simp [Ctx.init, bucketPosts]

/-- One plain transaction inside the fragment: what `stepX` does when it accepts. -/
theorem stepX_ok {ws : List (WAmt × Bool)} (hc : styleConsistent ws = true) {st : State}
    (hi : Inv ws st.pool) {x : WXact} (hplain : ∀ p ∈ x.posts, p.assert = none)
    (hw : ∀ p ∈ x.posts, ∀ wm ∈ amtsOfPost p, wm ∈ ws) {s : State} (h : stepX st x = .ok s) :
    s.entries = st.entries ++ entC x ∧ s.pool = st.pool.learnAll (obsPosts x.posts) ∧
      s.ctx = st.ctx ∧ Inv ws s.pool := by
  have hr := readPosts_eq hc x.posts st.pool hi hw
  unfold stepX at h
  rw [hr.1] at h
  cases e1 : readPostsF st.pool x.posts with
  | error e => rw [e1] at h; cases h
  | ok r =>
    obtain ⟨qs, pool⟩ := r
    rw [e1] at h
    have hinv := hr.2 qs pool e1
    obtain ⟨hcan, hpool⟩ := (readPostsF_iff _ _ _ _).mp e1
    have hqa := canonPosts_assert hcan hplain
    simp only [assignPosts_id qs _ hqa, checkAsserts_true qs _ _ hqa, if_true] at h
    cases e2 : finalize pool.precEnv x.date qs with
    | error e => rw [e2] at h; cases h
    | ok es =>
      rw [e2] at h
      simp only [Except.ok.injEq] at h
      subst h
      have hes := finalize_ok e2
      rw [canonPosts_eq] at hcan
      refine ⟨?_, hpool, rfl, hinv⟩
      simp only [entC]
      split at hcan
      · rename_i hall
        simp only [Option.some.injEq] at hcan
        simp only [hall, if_true, hcan, hes]
      · cases hcan

theorem loadFrom_ok {ws : List (WAmt × Bool)} (hc : styleConsistent ws = true) :
    ∀ (ds : List Dir) (st : State), st.ctx = Ctx.init → Inv ws st.pool →
      (∀ d ∈ ds, d.plain = true ∧ ∀ wm ∈ amtsOfDir d, wm ∈ ws) →
      ∀ s, loadFrom st ds = .ok s →
        s.entries = st.entries ++ ds.flatMap entD ∧ s.pool = st.pool.learnAll (ds.flatMap obsD) ∧
          s.ctx = Ctx.init
  | [], st, hctx, _, _, s, h => by
    simp only [loadFrom, Except.ok.injEq] at h
    subst h
    simp [Pool.learnAll, hctx]
  | d :: ds, st, hctx, hi, hd, s, h => by
    obtain ⟨hplain, hamts⟩ := hd d List.mem_cons_self
    cases d with
    | xact x =>
      unfold loadFrom at h
      simp only [step, hctx, rewriteX_init] at h
      cases e1 : stepX st x with
      | error e => rw [e1] at h; cases h
      | ok st1 =>
        rw [e1] at h
        simp only [Dir.plain, List.all_eq_true, Option.isNone_iff_eq_none] at hplain
        have hw : ∀ p ∈ x.posts, ∀ wm ∈ amtsOfPost p, wm ∈ ws := fun p hp wm hwm =>
          hamts wm (by simp only [amtsOfDir, List.mem_flatMap]; exact ⟨p, hp, hwm⟩)
        obtain ⟨he, hp, hcx, hinv⟩ := stepX_ok hc hi hplain hw e1
        have ih := loadFrom_ok hc ds st1 (hcx.trans hctx) hinv
          (fun d' h' => hd d' (List.mem_cons_of_mem _ h')) s h
        refine ⟨?_, ?_, ih.2.2⟩
        · rw [ih.1, he]; simp [entD, List.flatMap_cons]
        · rw [ih.2.1, hp]; simp [obsD, List.flatMap_cons, Pool.learnAll_append]
    | auto _ _ => simp [Dir.plain] at hplain
    | applyAccount _ => simp [Dir.plain] at hplain
    | endApply => simp [Dir.plain] at hplain
    | alias _ _ => simp [Dir.plain] at hplain
    | bucket _ => simp [Dir.plain] at hplain
    | year _ => simp [Dir.plain] at hplain

theorem mem_allAmounts {ds : List Dir} {d : Dir} (hd : d ∈ ds) {wm : WAmt × Bool} (h : wm ∈ amtsOfDir d) :
    wm ∈ allAmounts ds := by
  simp only [allAmounts, List.mem_flatMap]; exact ⟨d, hd, h⟩

/-- Loading a journal whose directives are plain transactions with amounts taken from a
    style-consistent set `ws`: the postings are the canonical postings of its
    transactions in order, the pool is the fold of the canonical style observations. -/
theorem load_ok_of {ws : List (WAmt × Bool)} (hc : styleConsistent ws = true) {ds' : List Dir}
    (hd : ∀ d ∈ ds', d.plain = true ∧ ∀ wm ∈ amtsOfDir d, wm ∈ ws) {s : State}
    (h : load ds' = .ok s) :
    s.entries = ds'.flatMap entD ∧ s.pool = Pool.learnAll [] (ds'.flatMap obsD) := by
  have := loadFrom_ok hc ds' State.init rfl (Inv_nil _) hd s h
  simpa [State.init] using And.intro this.1 this.2.1

theorem orderFree_hyps {ds : List Dir} (hf : orderFree ds = true) :
    styleConsistent (allAmounts ds) = true ∧
      ∀ d ∈ ds, d.plain = true ∧ ∀ wm ∈ amtsOfDir d, wm ∈ allAmounts ds := by
  simp only [orderFree, Bool.and_eq_true] at hf
  exact ⟨hf.2, fun d hd => ⟨List.all_eq_true.mp hf.1 d hd, fun wm hwm => mem_allAmounts hd hwm⟩⟩

/-- `ds'` is any rearrangement of the directives of an order-free journal `ds`. -/
theorem load_ok {ds ds' : List Dir} (hf : orderFree ds = true) (hsub : ∀ d ∈ ds', d ∈ ds) {s : State}
    (h : load ds' = .ok s) :
    s.entries = ds'.flatMap entD ∧ s.pool = Pool.learnAll [] (ds'.flatMap obsD) :=
  load_ok_of (orderFree_hyps hf).1 (fun d hd => (orderFree_hyps hf).2 d (hsub d hd)) h

/-! ### Postings permuted inside a transaction -/

theorem all_perm {α : Type} {l₁ l₂ : List α} (h : l₁.Perm l₂) (f : α → Bool) : l₁.all f = l₂.all f := by
  rw [Bool.eq_iff_iff, List.all_eq_true, List.all_eq_true]
  exact ⟨fun H x hx => H x (h.mem_iff.mpr hx), fun H x hx => H x (h.mem_iff.mp hx)⟩

theorem fin0_sum_perm (P : Int → String → Bool) (date : Int) (c : Comm) {qs qs' : List Posting}
    (h : qs'.Perm qs) :
    sumDen (fun e => P e.date e.account) c (fin0 date qs') =
      sumDen (fun e => P e.date e.account) c (fin0 date qs) := by
  rw [fin0_sum, fin0_sum]
  have h1 : amtSum P date c qs' = amtSum P date c qs := sumBy_perm _ h
  have h2 : bsum c qs' = bsum c qs := sumBy_perm _ h
  have h3 : (nullPosts qs').Perm (nullPosts qs) := h.filter _
  rw [h1, h2]
  congr 1
  cases hn : nullPosts qs with
  | nil =>
    rw [hn] at h3
    rw [List.perm_nil.mp h3]
  | cons n rest =>
    cases rest with
    | nil =>
      rw [hn] at h3
      rw [List.perm_singleton.mp h3]
    | cons m rest =>
      rw [hn] at h3
      have hl := h3.length_eq
      cases hn' : nullPosts qs' with
      | nil => simp [hn'] at hl
      | cons n' rest' =>
        cases rest' with
        | nil => simp [hn'] at hl
        | cons m' rest'' => rfl

theorem entC_posts_perm (x x' : WXact) (hd : x'.date = x.date) (hp : x'.posts.Perm x.posts)
    (P : Int → String → Bool) (c : Comm) :
    sumDen (fun e => P e.date e.account) c (entC x') = sumDen (fun e => P e.date e.account) c (entC x) := by
  unfold entC
  rw [all_perm hp, hd]
  split
  · exact fin0_sum_perm P x.date c (hp.filterMap _)
  · rfl

/-! ### Acceptance of exactly balanced transactions does not depend on the learned precision -/

theorem amount_isZero_of_q (env : PrecEnv) {a : Amount} (h : a.q = 0) : a.isZero env = true := by
  unfold Amount.isZero
  simp [h]

theorem valueIsZero_of_exact (env : PrecEnv) {v : Value} (h : exactZero v = true) : valueIsZero env v = true := by
  cases v with
  | void => rfl
  | bool b => simp [exactZero] at h
  | int n => simp [exactZero] at h
  | amt a =>
    simp only [exactZero, decide_eq_true_eq] at h
    exact amount_isZero_of_q env h
  | bal b =>
    simp only [exactZero, List.all_eq_true, decide_eq_true_eq] at h
    simp only [valueIsZero, List.all_eq_true]
    exact fun a ha => amount_isZero_of_q env (h a ha)

theorem acceptNoNull_of_exact (env : PrecEnv) (ps : List Posting) {v : Value} (h : exactZero v = true) :
    acceptNoNull env ps v = true := by
  have hz := valueIsZero_of_exact env h
  unfold acceptNoNull
  split
  · rename_i x y
    simp only [exactZero, List.all_cons, List.all_nil, Bool.and_true, Bool.and_eq_true, decide_eq_true_eq] at h
    have hx := amount_isZero_of_q env h.1
    split
    · exact hz
    · simp only [hx, Bool.not_true, Bool.false_and, Bool.false_eq_true, if_false]
      exact hz
  · exact hz

/-- the conditions `exactXact` puts on the canonical postings. -/
def exactPosts (ps : List Posting) : Bool :=
  !ps.any (fun p => !p.mustBalance && p.amount.isNone) &&
  (match nullPosts ps with
   | [] => exactZero (xbalance ps)
   | [_] => inferred (xbalance ps) ≠ []
   | _ => false)

theorem exactXact_eq (x : WXact) :
    exactXact x = match canonPosts x.posts with
      | none => false
      | some ps => exactPosts ps := rfl

theorem finalize_exact (env : PrecEnv) (date : Int) {ps : List Posting} (h : exactPosts ps = true) :
    finalize env date ps = .ok (fin0 date ps) := by
  simp only [exactPosts, Bool.and_eq_true, Bool.not_eq_true'] at h
  unfold finalize
  rw [h.1]
  simp only [Bool.false_eq_true, if_false]
  have h2 := h.2
  split
  · rename_i hn
    rw [hn] at h2
    simp only [acceptNoNull_of_exact env ps h2, if_true]
  · rename_i n hn
    rw [hn] at h2
    simp only [ne_eq, decide_eq_true_eq] at h2
    simp only [h2, if_false]
  · rename_i h3 h4
    split at h2
    · rename_i hn; exact absurd hn h3
    · rename_i n hn; exact absurd hn (h4 n)
    · cases h2

theorem stepX_accept {ws : List (WAmt × Bool)} (hc : styleConsistent ws = true) {st : State}
    (hi : Inv ws st.pool) {x : WXact} (hplain : ∀ p ∈ x.posts, p.assert = none)
    (hw : ∀ p ∈ x.posts, ∀ wm ∈ amtsOfPost p, wm ∈ ws) (hx : exactXact x = true) :
    ∃ s, stepX st x = .ok s := by
  rw [exactXact_eq] at hx
  cases hcan : canonPosts x.posts with
  | none => rw [hcan] at hx; cases hx
  | some qs =>
    rw [hcan] at hx
    have hr := readPosts_eq hc x.posts st.pool hi hw
    have e1 := (readPostsF_iff x.posts st.pool qs _).mpr ⟨hcan, rfl⟩
    have hqa := canonPosts_assert hcan hplain
    unfold stepX
    rw [hr.1, e1]
    simp only [assignPosts_id qs _ hqa, checkAsserts_true qs _ _ hqa, if_true, finalize_exact _ _ hx]
    exact ⟨_, rfl⟩

theorem loadFrom_accept {ws : List (WAmt × Bool)} (hc : styleConsistent ws = true) :
    ∀ (ds : List Dir) (st : State), st.ctx = Ctx.init → Inv ws st.pool →
      (∀ d ∈ ds, d.plain = true ∧ ∀ wm ∈ amtsOfDir d, wm ∈ ws) →
      (∀ d ∈ ds, ∀ x, d = .xact x → exactXact x = true) →
      ∃ s, loadFrom st ds = .ok s
  | [], st, _, _, _, _ => ⟨st, rfl⟩
  | d :: ds, st, hctx, hi, hd, hx => by
    obtain ⟨hplain, hamts⟩ := hd d List.mem_cons_self
    cases d with
    | xact x =>
      simp only [Dir.plain, List.all_eq_true, Option.isNone_iff_eq_none] at hplain
      have hw : ∀ p ∈ x.posts, ∀ wm ∈ amtsOfPost p, wm ∈ ws := fun p hp wm hwm =>
        hamts wm (by simp only [amtsOfDir, List.mem_flatMap]; exact ⟨p, hp, hwm⟩)
      obtain ⟨st1, e1⟩ := stepX_accept hc hi hplain hw (hx _ List.mem_cons_self x rfl)
      obtain ⟨_, _, hcx, hinv⟩ := stepX_ok hc hi hplain hw e1
      obtain ⟨s, hs⟩ := loadFrom_accept hc ds st1 (hcx.trans hctx) hinv
        (fun d' h' => hd d' (List.mem_cons_of_mem _ h')) (fun d' h' => hx d' (List.mem_cons_of_mem _ h'))
      refine ⟨s, ?_⟩
      unfold loadFrom
      simp only [step, hctx, rewriteX_init, e1, hs]
    | auto _ _ => simp [Dir.plain] at hplain
    | applyAccount _ => simp [Dir.plain] at hplain
    | endApply => simp [Dir.plain] at hplain
    | alias _ _ => simp [Dir.plain] at hplain
    | bucket _ => simp [Dir.plain] at hplain
    | year _ => simp [Dir.plain] at hplain

/-! ### Include directives: loading the tree is loading its flattening -/

theorem loadFrom_append (st : State) (a b : List Dir) :
    loadFrom st (a ++ b) = match loadFrom st a with
      | .error e => .error e
      | .ok st' => loadFrom st' b := by
  induction a generalizing st with
  | nil => rfl
  | cons d ds ih =>
    simp only [List.cons_append, loadFrom]
    cases step st d with
    | error e => rfl
    | ok st' => exact ih st'

theorem loadFilesWith_flatten {recL : State → File → Except LoadErr State}
    {recF : File → Except LoadErr (List Dir)}
    (hrec : ∀ st f ds, recF f = .ok ds → recL st f = loadFrom st ds) :
    ∀ (fs : List File) (st : State) (ds : List Dir), flattenFilesWith recF fs = .ok ds →
      loadFilesWith recL st fs = loadFrom st ds
  | [], st, ds, h => by
    simp only [flattenFilesWith, Except.ok.injEq] at h; subst h; rfl
  | f :: fs, st, ds, h => by
    unfold flattenFilesWith at h
    cases e1 : recF f with
    | error e => rw [e1] at h; cases h
    | ok d1 =>
      rw [e1] at h
      cases e2 : flattenFilesWith recF fs with
      | error e => rw [e2] at h; cases h
      | ok d2 =>
        rw [e2] at h
        simp only [Except.ok.injEq] at h
        subst h
        unfold loadFilesWith
        rw [hrec st f d1 e1, loadFrom_append]
        cases loadFrom st d1 with
        | error e => rfl
        | ok st' => exact loadFilesWith_flatten hrec fs st' d2 e2

theorem loadItemsWith_flatten {recL : State → File → Except LoadErr State}
    {recF : File → Except LoadErr (List Dir)}
    (hrec : ∀ st f ds, recF f = .ok ds → recL st f = loadFrom st ds) (t : Tree) (dir : List String) :
    ∀ (is : List Item) (st : State) (ds : List Dir), flattenItemsWith recF t dir is = .ok ds →
      loadItemsWith recL t dir st is = loadFrom st ds
  | [], st, ds, h => by
    simp only [flattenItemsWith, Except.ok.injEq] at h; subst h; rfl
  | .dir d :: is, st, ds, h => by
    unfold flattenItemsWith at h
    cases e1 : flattenItemsWith recF t dir is with
    | error e => rw [e1] at h; cases h
    | ok d1 =>
      rw [e1] at h
      simp only [Except.ok.injEq] at h
      subst h
      unfold loadItemsWith loadFrom
      cases step st d with
      | error e => rfl
      | ok st' => exact loadItemsWith_flatten hrec t dir is st' d1 e1
  | .incl path g :: is, st, ds, h => by
    unfold flattenItemsWith at h
    unfold loadItemsWith
    cases hm : matched t (normDir dir path) g with
    | nil => rw [hm] at h; cases h
    | cons f fs =>
      rw [hm] at h
      simp only [] at h ⊢
      cases e1 : flattenFilesWith recF (f :: fs) with
      | error e => rw [e1] at h; cases h
      | ok d1 =>
        rw [e1] at h
        cases e2 : flattenItemsWith recF t dir is with
        | error e => rw [e2] at h; cases h
        | ok d2 =>
          rw [e2] at h
          simp only [Except.ok.injEq] at h
          subst h
          rw [loadFilesWith_flatten hrec (f :: fs) st d1 e1, loadFrom_append]
          cases loadFrom st d1 with
          | error e => rfl
          | ok st' => exact loadItemsWith_flatten hrec t dir is st' d2 e2

theorem loadFile_flatten (t : Tree) : ∀ (n : Nat) (st : State) (f : File) (ds : List Dir),
    flattenFile t n f = .ok ds → loadFile t n st f = loadFrom st ds
  | 0, _, _, _, h => by cases h
  | n + 1, st, f, ds, h => by
    unfold flattenFile at h
    unfold loadFile
    exact loadItemsWith_flatten (fun st' f' ds' h' => loadFile_flatten t n st' f' ds' h') t f.dir f.items st ds h

/-! ### The date-sorted register -/

def dateLe (a b : Entry) : Bool := decide (a.date ≤ b.date)

theorem dateLe_trans (a b c : Entry) : dateLe a b = true → dateLe b c = true → dateLe a c = true := by
  simp only [dateLe, decide_eq_true_eq]; omega

theorem dateLe_total (a b : Entry) : (dateLe a b || dateLe b a) = true := by
  simp only [dateLe, Bool.or_eq_true, decide_eq_true_eq]; omega

theorem sortByDate_eq (es : List Entry) : sortByDate es = es.mergeSort dateLe := rfl

theorem sortByDate_perm (es : List Entry) : (sortByDate es).Perm es := List.mergeSort_perm es _

theorem sortByDate_sorted (es : List Entry) : (sortByDate es).Pairwise (fun a b => a.date ≤ b.date) := by
  have := List.pairwise_mergeSort dateLe_trans dateLe_total es
  rw [sortByDate_eq]
  exact this.imp (fun h => by simpa [dateLe] using h)

theorem pairwise_dateLe_of_const (d : Int) : ∀ (l : List Entry), (∀ e ∈ l, e.date = d) →
    l.Pairwise (fun a b => dateLe a b = true)
  | [], _ => List.Pairwise.nil
  | x :: xs, h =>
    List.Pairwise.cons
      (fun y hy => by
        simp [dateLe, h x List.mem_cons_self, h y (List.mem_cons_of_mem _ hy)])
      (pairwise_dateLe_of_const d xs (fun e he => h e (List.mem_cons_of_mem _ he)))

/-- stability: inside one date the sorted register keeps the input order. -/
theorem sortByDate_group (es : List Entry) (d : Int) :
    (sortByDate es).filter (fun e => e.date = d) = es.filter (fun e => e.date = d) := by
  have hsub : List.Sublist (es.filter (fun e => decide (e.date = d))) es := List.filter_sublist
  have hpw : (es.filter (fun e => decide (e.date = d))).Pairwise (fun a b => dateLe a b = true) :=
    pairwise_dateLe_of_const d _ (fun e he => by simpa using (List.mem_filter.mp he).2)
  have h1 := List.sublist_mergeSort dateLe_trans dateLe_total hpw hsub
  have h2 := h1.filter (fun e => decide (e.date = d))
  rw [List.filter_filter] at h2
  simp only [Bool.and_self] at h2
  have hlen : ((sortByDate es).filter (fun e => decide (e.date = d))).length =
      (es.filter (fun e => decide (e.date = d))).length := ((sortByDate_perm es).filter _).length_eq
  exact (h2.eq_of_length hlen.symm).symm

theorem takeWhile_eq_filter_of_sorted (d : Int) : ∀ (l : List Entry), l.Pairwise (fun a b => a.date ≤ b.date) →
    l.takeWhile (fun e => decide (e.date ≤ d)) = l.filter (fun e => decide (e.date ≤ d))
  | [], _ => rfl
  | x :: xs, h => by
    rw [List.pairwise_cons] at h
    by_cases hx : x.date ≤ d
    · simp only [List.takeWhile_cons, List.filter_cons, hx, decide_true, if_true]
      rw [takeWhile_eq_filter_of_sorted d xs h.2]
    · simp only [List.takeWhile_cons, List.filter_cons, hx, decide_false, Bool.false_eq_true, if_false]
      symm
      rw [List.filter_eq_nil_iff]
      intro y hy
      have := h.1 y hy
      simp only [decide_eq_true_eq]; omega

/-! ### The precision counter of an accumulated balance -/

/-- the internal precision counter ledger keeps for commodity `c` in a balance (0 when absent). -/
def balPrec (b : Balance) (c : Comm) : Nat :=
  match b.find? c with
  | some x => x.prec
  | none => 0

theorem addGo_prec (b : Balance) (a : Amount) (c : Comm) :
    balPrec (Balance.addGo b a) c = if a.comm = c then max (balPrec b c) a.prec else balPrec b c := by
  induction b with
  | nil =>
    by_cases h : a.comm = c <;> simp [Balance.addGo, balPrec, Balance.find?, h]
  | cons x xs ih =>
    unfold Balance.addGo
    by_cases hxa : x.comm = a.comm
    · simp only [hxa, if_true]
      by_cases hc : a.comm = c
      · simp [balPrec, Balance.find?, hc, hxa]
      · simp [balPrec, Balance.find?, hc, hxa]
    · simp only [hxa, if_false]
      by_cases hxc : x.comm = c
      · have hac : ¬ a.comm = c := fun h => hxa (hxc.trans h.symm)
        simp [balPrec, Balance.find?, hxc, hac]
      · have e1 : balPrec (x :: Balance.addGo xs a) c = balPrec (Balance.addGo xs a) c := by
          simp [balPrec, Balance.find?, hxc]
        have e2 : balPrec (x :: xs) c = balPrec xs c := by
          simp [balPrec, Balance.find?, hxc]
        rw [e1, e2, ih]

theorem addAmt_prec (b : Balance) (a : Amount) (c : Comm) :
    balPrec (Balance.addAmt b a) c =
      if a.q ≠ 0 ∧ a.comm = c then max (balPrec b c) a.prec else balPrec b c := by
  unfold Balance.addAmt
  by_cases hq : a.q = 0
  · simp [hq]
  · simp only [hq, if_false, addGo_prec, ne_eq, not_false_eq_true, true_and]

/-- the maximum of the precision counters of the nonzero amounts of commodity `c`. -/
def maxPrec (c : Comm) (es : List Entry) (m0 : Nat) : Nat :=
  es.foldl (fun m e => if e.amt.q ≠ 0 ∧ e.amt.comm = c then max m e.amt.prec else m) m0

theorem foldl_addAmt_prec (es : List Entry) (b0 : Balance) (c : Comm) :
    balPrec (es.foldl (fun b e => Balance.addAmt b e.amt) b0) c = maxPrec c es (balPrec b0 c) := by
  induction es generalizing b0 with
  | nil => rfl
  | cons e rest ih => simp only [List.foldl_cons, maxPrec, ih, addAmt_prec]

theorem maxPrec_perm (c : Comm) {l₁ l₂ : List Entry} (h : l₁.Perm l₂) (m0 : Nat) :
    maxPrec c l₁ m0 = maxPrec c l₂ m0 := by
  unfold maxPrec
  apply List.Perm.foldl_eq' h
  intro x _ y _ z
  by_cases hx : x.amt.q ≠ 0 ∧ x.amt.comm = c <;> by_cases hy : y.amt.q ≠ 0 ∧ y.amt.comm = c
  · simp only [if_pos hx, if_pos hy]; omega
  · simp only [if_pos hx, if_neg hy]
  · simp only [if_neg hx, if_pos hy]
  · simp only [if_neg hx, if_neg hy]

theorem ownBalance_prec (es : List Entry) (a : String) (c : Comm) :
    balPrec (ownBalance es a) c = maxPrec c (es.filter (fun e => e.account = a)) 0 := by
  unfold ownBalance
  rw [foldl_addAmt_prec]; rfl

theorem familyBalance_prec (es : List Entry) (a : String) (c : Comm) :
    balPrec (familyBalance es a) c = maxPrec c (es.filter (fun e => accountUnder e.account a)) 0 := by
  unfold familyBalance
  rw [foldl_addAmt_prec]; rfl

end OF
end Ledger
