/-
Helper lemmas behind Props/C19.lean: sorting the enumeration of a finite map by
a total order on its (distinct) keys forgets the enumeration; characterisations
of the two balance walks of value_t's comparisons; key bookkeeping of
`Balance.addAmt`.
-/
import LedgerModel.Model.OrderSources
import LedgerModel.Lemmas.Value

namespace Ledger
namespace OS

/-- In a list with pairwise distinct keys, equal keys mean equal entries. -/
theorem eq_of_key_eq {α κ : Type} (key : α → κ) :
    ∀ {l : List α}, l.Pairwise (fun x y => key x ≠ key y) →
      ∀ {a b : α}, a ∈ l → b ∈ l → key a = key b → a = b := by
  intro l
  induction l with
  | nil => intro _ a b ha; cases ha
  | cons x xs ih =>
    intro hd a b ha hb hk
    rw [List.pairwise_cons] at hd
    rcases List.mem_cons.mp ha with rfl | ha'
    · rcases List.mem_cons.mp hb with rfl | hb'
      · rfl
      · exact absurd hk (hd.1 b hb')
    · rcases List.mem_cons.mp hb with rfl | hb'
      · exact absurd hk.symm (hd.1 a ha')
      · exact ih hd.2 ha' hb' hk

/-- Sorting two enumerations of the same finite map (distinct keys) by a total
    order on the keys gives the same list. -/
theorem sortBy_eq_of_perm {α κ : Type} (key : α → κ) (le : κ → κ → Bool)
    (htrans : ∀ a b c, le a b = true → le b c = true → le a c = true)
    (htotal : ∀ a b, (le a b || le b a) = true)
    (hanti : ∀ a b, le a b = true → le b a = true → a = b)
    {l l' : List α} (hp : l.Perm l') (hd : l.Pairwise (fun x y => key x ≠ key y)) :
    sortBy key le l = sortBy key le l' := by
  unfold sortBy
  have p1 := List.mergeSort_perm l (fun x y => le (key x) (key y))
  have p2 := List.mergeSort_perm l' (fun x y => le (key x) (key y))
  have s1 := List.pairwise_mergeSort (le := fun x y => le (key x) (key y))
    (fun a b c => htrans (key a) (key b) (key c)) (fun a b => htotal (key a) (key b)) l
  have s2 := List.pairwise_mergeSort (le := fun x y => le (key x) (key y))
    (fun a b c => htrans (key a) (key b) (key c)) (fun a b => htotal (key a) (key b)) l'
  refine List.Perm.eq_of_pairwise ?_ s1 s2 (p1.trans (hp.trans p2.symm))
  intro a b ha hb hab hba
  have hal : a ∈ l := p1.mem_iff.mp ha
  have hbl : b ∈ l := hp.mem_iff.mpr (p2.mem_iff.mp hb)
  exact eq_of_key_eq key hd hal hbl (hanti _ _ hab hba)

theorem commLe_trans (a b c : Comm) : commLe a b = true → commLe b c = true → commLe a c = true := by
  simp only [commLe, decide_eq_true_eq]; exact String.le_trans

theorem commLe_total (a b : Comm) : (commLe a b || commLe b a) = true := by
  simp only [commLe, Bool.or_eq_true, decide_eq_true_eq]; exact String.le_total a b

theorem commLe_antisymm (a b : Comm) : commLe a b = true → commLe b a = true → a = b := by
  simp only [commLe, decide_eq_true_eq]; exact String.le_antisymm

theorem natBle_trans (a b c : Nat) : Nat.ble a b = true → Nat.ble b c = true → Nat.ble a c = true := by
  simp only [Nat.ble_eq]; omega

theorem natBle_total (a b : Nat) : (Nat.ble a b || Nat.ble b a) = true := by
  simp only [Bool.or_eq_true, Nat.ble_eq]; omega

theorem natBle_antisymm (a b : Nat) : Nat.ble a b = true → Nat.ble b a = true → a = b := by
  simp only [Nat.ble_eq]; omega

theorem sortBy_perm {α κ : Type} (key : α → κ) (le : κ → κ → Bool) (l : List α) :
    (sortBy key le l).Perm l := List.mergeSort_perm l _

/-- Sorting by name forgets the enumeration. -/
theorem sortByName_eq_of_perm {α : Type} (key : α → String) {l l' : List α} (hp : l.Perm l')
    (hd : l.Pairwise (fun x y => key x ≠ key y)) : sortBy key commLe l = sortBy key commLe l' :=
  sortBy_eq_of_perm key commLe commLe_trans commLe_total commLe_antisymm hp hd


/-- A list that is already in key order is its own sorted view. -/
theorem sortBy_of_sorted {α κ : Type} (key : α → κ) (le : κ → κ → Bool) {l : List α}
    (h : l.Pairwise (fun x y => le (key x) (key y) = true)) : sortBy key le l = l :=
  List.mergeSort_of_pairwise h

/-- The sorted view of an enumeration is THE sorted rearrangement `s`. -/
theorem sortBy_eq_sorted {α κ : Type} (key : α → κ) (le : κ → κ → Bool)
    (htrans : ∀ a b c, le a b = true → le b c = true → le a c = true)
    (htotal : ∀ a b, (le a b || le b a) = true)
    (hanti : ∀ a b, le a b = true → le b a = true → a = b)
    {l s : List α} (hp : l.Perm s) (hd : l.Pairwise (fun x y => key x ≠ key y))
    (hs : s.Pairwise (fun x y => le (key x) (key y) = true)) : sortBy key le l = s :=
  (sortBy_eq_of_perm key le htrans htotal hanti hp hd).trans (sortBy_of_sorted key le hs)

theorem sortByName_eq_sorted {α : Type} (key : α → String) {l s : List α} (hp : l.Perm s)
    (hd : l.Pairwise (fun x y => key x ≠ key y))
    (hs : s.Pairwise (fun x y => commLe (key x) (key y) = true)) : sortBy key commLe l = s :=
  sortBy_eq_sorted key commLe commLe_trans commLe_total commLe_antisymm hp hd hs

theorem sortByAddr_eq_sorted {α : Type} (key : α → Nat) {l s : List α} (hp : l.Perm s)
    (hd : l.Pairwise (fun x y => key x ≠ key y))
    (hs : s.Pairwise (fun x y => Nat.ble (key x) (key y) = true)) : sortBy key Nat.ble l = s :=
  sortBy_eq_sorted key Nat.ble natBle_trans natBle_total natBle_antisymm hp hd hs

/-! ### the two balance walks -/

/-- `v > c` evaluated and true. -/
def gtOk (v : Value) (c : Amount) : Bool := Value.gtAmt v c = .ok true

/-- When no component comparison throws, `bal < v` is "non-empty and every
    component is below v". -/
theorem ltAll_eq_all (v : Value) : ∀ (b : Balance), (∀ c ∈ b, ∃ r, Value.gtAmt v c = .ok r) →
    Value.lt.ltAll b v = .ok (!b.isEmpty && b.all (gtOk v)) := by
  intro b
  induction b with
  | nil => intro _; rfl
  | cons c cs ih =>
    intro h
    obtain ⟨r, hr⟩ := h c (List.mem_cons_self)
    have hcs : ∀ d ∈ cs, ∃ r, Value.gtAmt v d = .ok r := fun d hd => h d (List.mem_cons_of_mem _ hd)
    unfold Value.lt.ltAll
    simp only [hr, bind, Except.bind, pure, Except.pure]
    cases r with
    | false => simp [gtOk, hr]
    | true =>
      cases cs with
      | nil => simp [gtOk, hr]
      | cons d ds =>
        have := ih hcs
        simp only [this]
        simp [gtOk, hr]

/-- `value < amount` never throws for an integer or an amount on the left. -/
theorem lt_amt_ok (v : Value) (hv : (∃ n, v = .int n) ∨ (∃ a, v = .amt a)) (c : Amount) :
    ∃ r, Value.lt v (.amt c) = .ok r := by
  rcases hv with ⟨n, rfl⟩ | ⟨a, rfl⟩
  · unfold Value.lt
    simp only [Amount.cmp, Amount.hasComm, Amount.ofInt]
    simp [Except.map]
  · unfold Value.lt
    simp only
    split
    · rename_i h
      simp only [Amount.cmp]
      split
      · rename_i h2
        exfalso
        simp only [Amount.hasComm] at h h2
        rcases h with h | h | h
        · exact h2.2.2 h
        · simp [h2.1] at h
        · simp [h2.2.1] at h
      · simp [Except.map]
    · exact ⟨_, rfl⟩

def ltOk (v : Value) (c : Amount) : Bool := Value.lt v (.amt c) = .ok true

theorem gtAll_eq_all (v : Value) (hv : (∃ n, v = .int n) ∨ (∃ a, v = .amt a)) : ∀ (b : Balance),
    gtAll b v = .ok (!b.isEmpty && b.all (ltOk v)) := by
  intro b
  induction b with
  | nil => rfl
  | cons c cs ih =>
    obtain ⟨r, hr⟩ := lt_amt_ok v hv c
    unfold gtAll
    simp only [hr, bind, Except.bind, pure, Except.pure]
    cases r with
    | false => simp [ltOk, hr]
    | true =>
      cases cs with
      | nil => simp [ltOk, hr]
      | cons d ds =>
        simp only [ih]
        simp [ltOk, hr]

/-! ### `Value.sortByComm` (the sorted walk of `<` on a balance) forgets the enumeration -/

theorem sortByComm_ins_perm (x : Amount) : ∀ l : Balance, (Value.sortByComm.ins x l).Perm (x :: l) := by
  intro l
  induction l with
  | nil => exact List.Perm.refl _
  | cons y ys ih =>
    unfold Value.sortByComm.ins
    split
    · exact ((List.Perm.cons y ih).trans (List.Perm.swap x y ys))
    · exact List.Perm.refl _

theorem sortByComm_perm : ∀ b : Balance, (Value.sortByComm b).Perm b := by
  intro b
  induction b with
  | nil => exact List.Perm.refl _
  | cons x xs ih =>
    have : Value.sortByComm (x :: xs) = Value.sortByComm.ins x (Value.sortByComm xs) := rfl
    rw [this]
    exact (sortByComm_ins_perm x _).trans (List.Perm.cons x ih)

theorem sortByComm_ins_sorted (x : Amount) : ∀ l : Balance, l.Pairwise (fun a b => a.comm ≤ b.comm) →
    (Value.sortByComm.ins x l).Pairwise (fun a b => a.comm ≤ b.comm) := by
  intro l
  induction l with
  | nil => intro _; exact List.pairwise_singleton _ _
  | cons y ys ih =>
    intro h
    rw [List.pairwise_cons] at h
    unfold Value.sortByComm.ins
    split
    · rename_i hlt
      rw [List.pairwise_cons]
      refine ⟨?_, ih h.2⟩
      intro z hz
      rcases List.mem_cons.mp ((sortByComm_ins_perm x ys).mem_iff.mp hz) with rfl | hz'
      · exact String.not_lt.mp (String.lt_asymm hlt)
      · exact h.1 z hz'
    · rename_i hnlt
      have hxy : x.comm ≤ y.comm := String.not_lt.mp hnlt
      rw [List.pairwise_cons]
      refine ⟨?_, List.pairwise_cons.mpr h⟩
      intro z hz
      rcases List.mem_cons.mp hz with rfl | hz'
      · exact hxy
      · exact String.le_trans hxy (h.1 z hz')

theorem sortByComm_sorted : ∀ b : Balance, (Value.sortByComm b).Pairwise (fun a b => a.comm ≤ b.comm) := by
  intro b
  induction b with
  | nil => exact List.Pairwise.nil
  | cons x xs ih =>
    have : Value.sortByComm (x :: xs) = Value.sortByComm.ins x (Value.sortByComm xs) := rfl
    rw [this]
    exact sortByComm_ins_sorted x _ ih

/-- Two enumerations of one balance (distinct commodities) have the same sorted walk. -/
theorem sortByComm_eq_of_perm {b b' : Balance} (hp : b.Perm b')
    (hd : b.Pairwise (fun x y => x.comm ≠ y.comm)) : Value.sortByComm b = Value.sortByComm b' := by
  refine List.Perm.eq_of_pairwise ?_ (sortByComm_sorted b) (sortByComm_sorted b')
    ((sortByComm_perm b).trans (hp.trans (sortByComm_perm b').symm))
  intro x y hx hy hxy hyx
  have hxb : x ∈ b := (sortByComm_perm b).mem_iff.mp hx
  have hyb : y ∈ b := hp.mem_iff.mpr ((sortByComm_perm b').mem_iff.mp hy)
  exact eq_of_key_eq Amount.comm hd hxb hyb (String.le_antisymm hxy hyx)

/-! ### keys of the accumulated transaction balance -/

def hasKey (b : Balance) (c : Comm) : Prop := ∃ a ∈ b, a.comm = c

theorem hasKey_addGo_of (b : Balance) (x : Amount) (c : Comm) (h : hasKey b c) :
    hasKey (Balance.addGo b x) c := by
  induction b with
  | nil => obtain ⟨a, ha, _⟩ := h; cases ha
  | cons y ys ih =>
    obtain ⟨a, ha, hc⟩ := h
    unfold Balance.addGo
    split
    · rename_i hy
      rcases List.mem_cons.mp ha with rfl | ha'
      · exact ⟨_, List.mem_cons_self, hc⟩
      · exact ⟨a, List.mem_cons_of_mem _ ha', hc⟩
    · rcases List.mem_cons.mp ha with rfl | ha'
      · exact ⟨a, List.mem_cons_self, hc⟩
      · obtain ⟨a', ha'', hc'⟩ := ih ⟨a, ha', hc⟩
        exact ⟨a', List.mem_cons_of_mem _ ha'', hc'⟩

theorem hasKey_addGo_self (b : Balance) (x : Amount) : hasKey (Balance.addGo b x) x.comm := by
  induction b with
  | nil => exact ⟨x, List.mem_cons_self, rfl⟩
  | cons y ys ih =>
    unfold Balance.addGo
    split
    · rename_i hy; exact ⟨_, List.mem_cons_self, hy⟩
    · obtain ⟨a, ha, hc⟩ := ih
      exact ⟨a, List.mem_cons_of_mem _ ha, hc⟩

theorem hasKey_addAmt_of (b : Balance) (x : Amount) (c : Comm) (h : hasKey b c) :
    hasKey (Balance.addAmt b x) c := by
  unfold Balance.addAmt
  split
  · exact h
  · exact hasKey_addGo_of b x c h

theorem hasKey_foldl (ps : List Amount) : ∀ (b : Balance) (c : Comm), hasKey b c →
    hasKey (ps.foldl Balance.addAmt b) c := by
  induction ps with
  | nil => intro b c h; exact h
  | cons p ps ih => intro b c h; exact ih _ c (hasKey_addAmt_of b p c h)

end OS
end Ledger
