/-
Calendar and interval lemmas behind the C13 theorems (Props/C13.lean).
Self-contained (namespace `Ledger.PCal`, so that it cannot clash with the calendar
lemmas of other properties): the calendar facts needed here (toYMD is a valid date and the
inverse of ofYMD, month starts are strictly increasing, `addMonths` moves
strictly forward) are proved in this file by `omega`-style case analysis.
-/
import LedgerModel.Model.Calendar
import LedgerModel.Model.Period

namespace Ledger.PCal
open Ledger.Cal

/-! ### civil-from-days produces a valid date and inverts days-from-civil -/

theorem isLeap_iff (y : Int) : isLeap y = true ↔ ((y % 4 = 0 ∧ y % 100 ≠ 0) ∨ y % 400 = 0) := by
  simp [isLeap]

theorem daysInMonth_ge (y m : Int) : 28 ≤ daysInMonth y m := by
  unfold daysInMonth; split <;> (try split) <;> omega

theorem daysInMonth_le (y m : Int) : daysInMonth y m ≤ 31 := by
  unfold daysInMonth; split <;> (try split) <;> omega

/-! ### Hinnant's civil_from_days: range facts per era, century and 4-year cycle -/

theorem civil_century (r yoe doy b k : Int)
    (h0 : 0 ≤ r) (h0' : r ≤ 36523)
    (hb : b = (r + 24 * k) / 1460) (hk : 0 ≤ k) (hk' : k ≤ 3)
    (h3 : yoe = (r - b) / 365)
    (h4 : doy = r - (365 * yoe + yoe / 4)) :
    0 ≤ yoe ∧ yoe ≤ 99 ∧ 0 ≤ doy ∧ doy ≤ 365 ∧ (doy = 365 → (yoe + 1) % 4 = 0 ∧ yoe < 99) := by
  have hq : 0 ≤ r / 1461 ∧ r / 1461 ≤ 24 := by omega
  generalize hqq : r / 1461 = q at hq
  have hs : ∃ s, r = 1461 * q + s ∧ 0 ≤ s ∧ s ≤ 1460 := ⟨r - 1461 * q, by omega, by omega, by omega⟩
  obtain ⟨s, hr, hs0, hs1⟩ := hs
  subst hr
  have hb' : b = q + (24 * k + q + s) / 1460 := by omega
  have he : (24 * k + q + s) / 1460 = 0 ∨ (24 * k + q + s) / 1460 = 1 := by omega
  rcases he with he | he <;> rw [he] at hb' <;> subst hb'
  · have : yoe = 4 * q + s / 365 := by omega
    omega
  · have h3' : (s - 1) / 365 = 3 := by omega
    have : yoe = 4 * q + 3 := by omega
    subst this
    have : (4 * q + 3) / 4 = q := by omega
    omega

/-- Year-of-era and day-of-year of Hinnant's civil_from_days, for a day-of-era. -/
theorem civil_era (doe yoe doy : Int)
    (h0 : 0 ≤ doe) (h0' : doe ≤ 146096)
    (h3 : yoe = (doe - doe / 1460 + doe / 36524 - doe / 146096) / 365)
    (h4 : doy = doe - (365 * yoe + yoe / 4 - yoe / 100)) :
    0 ≤ yoe ∧ yoe ≤ 399 ∧ 0 ≤ doy ∧ doy ≤ 365 ∧
    (doy = 365 → ((yoe + 1) % 4 = 0 ∧ ((yoe + 1) % 100 ≠ 0 ∨ (yoe + 1) % 400 = 0))) := by
  by_cases hlast : doe = 146096
  · subst hlast; omega
  · obtain ⟨c, r, hdoe, hr0, hr1, hc0, hc3⟩ : ∃ c r, doe = 36524 * c + r ∧ 0 ≤ r ∧ r ≤ 36523 ∧ 0 ≤ c ∧ c ≤ 3 :=
      ⟨doe / 36524, doe - 36524 * (doe / 36524), by omega, by omega, by omega, by omega, by omega⟩
    subst hdoe
    have f1 : (36524 * c + r) / 36524 = c := by omega
    have f2 : (36524 * c + r) / 146096 = 0 := by omega
    have f3 : (36524 * c + r) / 1460 = 25 * c + (r + 24 * c) / 1460 := by omega
    rw [f1, f2, f3] at h3
    have hy : yoe = 100 * c + (r - (r + 24 * c) / 1460) / 365 := by omega
    have key := civil_century r ((r - (r + 24 * c) / 1460) / 365)
      (r - (365 * ((r - (r + 24 * c) / 1460) / 365) + ((r - (r + 24 * c) / 1460) / 365) / 4))
      ((r + 24 * c) / 1460) c hr0 hr1 rfl hc0 hc3 rfl rfl
    generalize (r - (r + 24 * c) / 1460) / 365 = y at hy key
    clear h3 f1 f2 f3
    subst hy
    have g1 : (100 * c + y) / 4 = 25 * c + y / 4 := by omega
    have g2 : (100 * c + y) / 100 = c := by omega
    rw [g1, g2] at h4
    omega

def cEra (n : Int) : Int := (n + 719468) / 146097
def cDoe (n : Int) : Int := (n + 719468) - cEra n * 146097
def cYoe (n : Int) : Int := (cDoe n - cDoe n / 1460 + cDoe n / 36524 - cDoe n / 146096) / 365
def cDoy (n : Int) : Int := cDoe n - (365 * cYoe n + cYoe n / 4 - cYoe n / 100)
def cMp (n : Int) : Int := (5 * cDoy n + 2) / 153

theorem toYMD_eq (n : Int) :
    toYMD n = (if (if cMp n < 10 then cMp n + 3 else cMp n - 9) ≤ 2 then cYoe n + cEra n * 400 + 1 else cYoe n + cEra n * 400,
               if cMp n < 10 then cMp n + 3 else cMp n - 9,
               cDoy n - (153 * cMp n + 2) / 5 + 1) := rfl

theorem civil_facts (n : Int) :
    0 ≤ cDoe n ∧ cDoe n ≤ 146096 ∧ 0 ≤ cYoe n ∧ cYoe n ≤ 399 ∧ 0 ≤ cDoy n ∧ cDoy n ≤ 365 ∧
    (cDoy n = 365 → ((cYoe n + 1) % 4 = 0 ∧ ((cYoe n + 1) % 100 ≠ 0 ∨ (cYoe n + 1) % 400 = 0))) ∧
    0 ≤ cMp n ∧ cMp n ≤ 11 := by
  have h1 : 0 ≤ cDoe n ∧ cDoe n ≤ 146096 := by unfold cDoe cEra; omega
  have h2 := civil_era (cDoe n) (cYoe n) (cDoy n) h1.1 h1.2 rfl rfl
  have h3 : 0 ≤ cMp n ∧ cMp n ≤ 11 := by unfold cMp; omega
  exact ⟨h1.1, h1.2, h2.1, h2.2.1, h2.2.2.1, h2.2.2.2.1, h2.2.2.2.2, h3.1, h3.2⟩

theorem toYMD_valid (n : Int) : validYMD (toYMD n).1 (toYMD n).2.1 (toYMD n).2.2 = true := by
  have hf := civil_facts n
  rw [toYMD_eq]
  simp only [validYMD, daysInMonth, isLeap, decide_eq_true_eq, Bool.or_eq_true, Bool.and_eq_true,
    Bool.decide_and, Bool.decide_or]
  have hmp : cMp n = (5 * cDoy n + 2) / 153 := rfl
  generalize cMp n = mp at hf hmp ⊢
  generalize cDoy n = doy at hf hmp ⊢
  generalize cYoe n = yoe at hf ⊢
  generalize cEra n = era
  have hm : mp = 0 ∨ mp = 1 ∨ mp = 2 ∨ mp = 3 ∨ mp = 4 ∨ mp = 5 ∨ mp = 6 ∨ mp = 7 ∨ mp = 8 ∨ mp = 9 ∨ mp = 10 ∨ mp = 11 := by omega
  rcases hm with h | h | h | h | h | h | h | h | h | h | h | h <;> subst h <;> simp <;> omega

theorem ofYMD_era (era yoe m d : Int) (h0 : 0 ≤ yoe) (h1 : yoe ≤ 399) :
    ofYMD (if m ≤ 2 then yoe + era * 400 + 1 else yoe + era * 400) m d =
      era * 146097 + (yoe * 365 + yoe / 4 - yoe / 100 + ((153 * (if m > 2 then m - 3 else m + 9) + 2) / 5 + d - 1)) - 719468 := by
  have he : (yoe + era * 400) / 400 = era := by omega
  unfold ofYMD
  by_cases hm : m ≤ 2
  · simp only [hm, if_true]
    have e1 : yoe + era * 400 + 1 - 1 = yoe + era * 400 := by omega
    rw [e1, he]
    have e2 : yoe + era * 400 - era * 400 = yoe := by omega
    rw [e2]
  · simp only [hm, if_false]
    rw [he]
    have e2 : yoe + era * 400 - era * 400 = yoe := by omega
    rw [e2]

theorem ofYMD_toYMD (n : Int) : ofYMD (toYMD n).1 (toYMD n).2.1 (toYMD n).2.2 = n := by
  have hf := civil_facts n
  rw [toYMD_eq]
  simp only []
  rw [ofYMD_era _ _ _ _ hf.2.2.1 hf.2.2.2.1]
  have hmp : cMp n = (5 * cDoy n + 2) / 153 := rfl
  have hdoy : cDoy n = cDoe n - (365 * cYoe n + cYoe n / 4 - cYoe n / 100) := rfl
  have hdoe : cDoe n = (n + 719468) - cEra n * 146097 := rfl
  generalize cMp n = mp at hf hmp ⊢
  generalize cDoy n = doy at hf hmp hdoy ⊢
  generalize cYoe n = yoe at hf hdoy ⊢
  generalize cDoe n = doe at hf hdoy hdoe
  generalize cEra n = era at hdoe ⊢
  have hm : mp = 0 ∨ mp = 1 ∨ mp = 2 ∨ mp = 3 ∨ mp = 4 ∨ mp = 5 ∨ mp = 6 ∨ mp = 7 ∨ mp = 8 ∨ mp = 9 ∨ mp = 10 ∨ mp = 11 := by omega
  rcases hm with h | h | h | h | h | h | h | h | h | h | h | h <;> subst h <;> simp <;> omega

/-! ### month starts are strictly increasing; `ofYMD`/`toYMD` are inverse; month steps move forward -/

/-- day number of the first day of month index `t = 12*y + (m-1)` -/
def fom (t : Int) : Int := ofYMD (t / 12) (t % 12 + 1) 1

theorem ofYMD_lin (y m d : Int) : ofYMD y m d = ofYMD y m 1 + (d - 1) := by
  simp only [ofYMD]; omega

theorem fom_eq (y m0 : Int) (h0 : 0 ≤ m0) (h1 : m0 ≤ 11) : fom (12 * y + m0) = ofYMD y (m0 + 1) 1 := by
  have a : (12 * y + m0) / 12 = y := by omega
  have b : (12 * y + m0) % 12 = m0 := by omega
  rw [fom, a, b]

theorem ofYMD_fom (y m d : Int) (h1 : 1 ≤ m) (h2 : m ≤ 12) : ofYMD y m d = fom (12 * y + (m - 1)) + (d - 1) := by
  rw [fom_eq y (m - 1) (by omega) (by omega)]
  have : m - 1 + 1 = m := by omega
  rw [this]; exact ofYMD_lin y m d

theorem fom_step_aux (y m0 : Int) (h0 : 0 ≤ m0) (h1 : m0 ≤ 11) :
    fom (12 * y + m0 + 1) = fom (12 * y + m0) + daysInMonth y (m0 + 1) := by
  rw [fom_eq y m0 h0 h1]
  by_cases hl : m0 = 11
  · subst hl
    have e : 12 * y + 11 + 1 = 12 * (y + 1) + 0 := by omega
    rw [e, fom_eq (y + 1) 0 (by omega) (by omega)]
    simp only [ofYMD, daysInMonth]
    simp
    omega
  · have e : 12 * y + m0 + 1 = 12 * y + (m0 + 1) := by omega
    rw [e, fom_eq y (m0 + 1) (by omega) (by omega)]
    have hm : m0 = 0 ∨ m0 = 1 ∨ m0 = 2 ∨ m0 = 3 ∨ m0 = 4 ∨ m0 = 5 ∨ m0 = 6 ∨ m0 = 7 ∨ m0 = 8 ∨ m0 = 9 ∨ m0 = 10 := by omega
    rcases hm with h | h | h | h | h | h | h | h | h | h | h <;> subst h <;>
      simp [ofYMD, daysInMonth, isLeap] <;> omega

theorem fom_step (t : Int) : fom (t + 1) = fom t + daysInMonth (t / 12) (t % 12 + 1) := by
  have := fom_step_aux (t / 12) (t % 12) (by omega) (by omega)
  have e : 12 * (t / 12) + t % 12 = t := by omega
  rw [e] at this
  exact this

theorem fom_lt_succ (t : Int) : fom t + 28 ≤ fom (t + 1) := by
  rw [fom_step]; have := daysInMonth_ge (t / 12) (t % 12 + 1); omega

theorem fom_add_nat (t : Int) (k : Nat) : fom t + 28 * (k : Int) ≤ fom (t + k) := by
  induction k with
  | zero => simp
  | succ k ih =>
    have := fom_lt_succ (t + k)
    have e : t + ((k + 1 : Nat) : Int) = t + (k : Int) + 1 := by omega
    rw [e]; omega

theorem fom_mono {t t' : Int} (h : t ≤ t') : fom t + 28 * (t' - t) ≤ fom t' := by
  have := fom_add_nat t (t' - t).toNat
  have e : ((t' - t).toNat : Int) = t' - t := by omega
  rw [e] at this
  have e2 : t + (t' - t) = t' := by omega
  rw [e2] at this
  exact this

theorem fom_strict_mono {t t' : Int} (h : t < t') : fom t < fom t' := by
  have := fom_mono (Int.le_of_lt h); omega

/-- a valid date lies inside its month -/
theorem valid_in_month (y m d : Int) (hv : validYMD y m d = true) :
    fom (12 * y + (m - 1)) ≤ ofYMD y m d ∧ ofYMD y m d < fom (12 * y + (m - 1) + 1) := by
  simp only [validYMD, decide_eq_true_eq, Bool.and_eq_true, Bool.decide_and] at hv
  obtain ⟨h1, h2, h3, h4⟩ := hv
  rw [ofYMD_fom y m d h1 h2, fom_step]
  have a : (12 * y + (m - 1)) / 12 = y := by omega
  have b : (12 * y + (m - 1)) % 12 + 1 = m := by omega
  rw [a, b]; omega

/-- `ofYMD` is injective on valid dates, hence `toYMD` inverts it. -/
theorem toYMD_ofYMD (y m d : Int) (hv : validYMD y m d = true) : toYMD (ofYMD y m d) = (y, m, d) := by
  have hv2 := toYMD_valid (ofYMD y m d)
  have hinv := ofYMD_toYMD (ofYMD y m d)
  generalize toYMD (ofYMD y m d) = r at hv2 hinv
  obtain ⟨y2, m2, d2⟩ := r
  simp only at hv2 hinv
  have i1 := valid_in_month y m d hv
  have i2 := valid_in_month y2 m2 d2 hv2
  have hvv := hv
  have hvv2 := hv2
  simp only [validYMD, decide_eq_true_eq, Bool.and_eq_true, Bool.decide_and] at hvv hvv2
  have ht : 12 * y2 + (m2 - 1) = 12 * y + (m - 1) := by
    rcases Int.lt_trichotomy (12 * y2 + (m2 - 1)) (12 * y + (m - 1)) with h | h | h
    · have := fom_mono (t := 12 * y2 + (m2 - 1) + 1) (t' := 12 * y + (m - 1)) (by omega); omega
    · exact h
    · have := fom_mono (t := 12 * y + (m - 1) + 1) (t' := 12 * y2 + (m2 - 1)) (by omega); omega
  have hy : y2 = y := by omega
  have hm : m2 = m := by omega
  subst hy hm
  have hd : d2 = d := by
    rw [ofYMD_lin y2 m2 d2, ofYMD_lin y2 m2 d] at hinv; omega
  subst hd; rfl

/-- boost `date + months(k)` moves strictly forward for k > 0. -/
theorem addMonths_gt (n k : Int) (hk : 0 < k) : n < addMonths n k := by
  have hv := toYMD_valid n
  have hinv := ofYMD_toYMD n
  unfold addMonths
  generalize toYMD n = r at hv hinv
  obtain ⟨y, m, d⟩ := r
  simp only at hv hinv ⊢
  have i1 := valid_in_month y m d hv
  simp only [validYMD, decide_eq_true_eq, Bool.and_eq_true, Bool.decide_and] at hv
  generalize hd' : (if d = daysInMonth y m then daysInMonth ((y * 12 + (m - 1) + k) / 12) ((y * 12 + (m - 1) + k) % 12 + 1)
      else if d > daysInMonth ((y * 12 + (m - 1) + k) / 12) ((y * 12 + (m - 1) + k) % 12 + 1) then
        daysInMonth ((y * 12 + (m - 1) + k) / 12) ((y * 12 + (m - 1) + k) % 12 + 1) else d) = d'
  have hd1 : 1 ≤ d' := by
    have := daysInMonth_ge ((y * 12 + (m - 1) + k) / 12) ((y * 12 + (m - 1) + k) % 12 + 1)
    subst hd'; split <;> (try split) <;> omega
  rw [ofYMD_fom _ _ d' (by omega) (by omega)]
  have e : 12 * ((y * 12 + (m - 1) + k) / 12) + ((y * 12 + (m - 1) + k) % 12 + 1 - 1) = 12 * y + (m - 1) + k := by omega
  rw [e]
  have := fom_mono (t := 12 * y + (m - 1) + 1) (t' := 12 * y + (m - 1) + k) (by omega)
  omega

theorem validYMD_first (y m : Int) (h1 : 1 ≤ m) (h2 : m ≤ 12) : validYMD y m 1 = true := by
  have := daysInMonth_ge y m
  simp only [validYMD, decide_eq_true_eq, Bool.and_eq_true, Bool.decide_and]; omega

/-- a month step from the first of a month lands on the first of the month k later -/
theorem toYMD_addMonths_first (n k : Int) (hd : dayOf n = 1) :
    toYMD (addMonths n k) =
      ((yearOf n * 12 + (monthOf n - 1) + k) / 12, (yearOf n * 12 + (monthOf n - 1) + k) % 12 + 1, 1) := by
  have hv := toYMD_valid n
  unfold dayOf at hd
  unfold yearOf monthOf addMonths
  generalize toYMD n = r at hv hd
  obtain ⟨y, m, d⟩ := r
  simp only at hv hd ⊢
  subst hd
  have g1 := daysInMonth_ge y m
  have g2 := daysInMonth_ge ((y * 12 + (m - 1) + k) / 12) ((y * 12 + (m - 1) + k) % 12 + 1)
  have c1 : ¬ (1 = daysInMonth y m) := by omega
  have c2 : ¬ (1 > daysInMonth ((y * 12 + (m - 1) + k) / 12) ((y * 12 + (m - 1) + k) % 12 + 1)) := by omega
  simp only [c1, c2, if_false]
  exact toYMD_ofYMD _ _ _ (validYMD_first _ _ (by omega) (by omega))

theorem dayOf_ofYMD (y m d : Int) (hv : validYMD y m d = true) : dayOf (ofYMD y m d) = d := by
  unfold dayOf; rw [toYMD_ofYMD y m d hv]
theorem monthOf_ofYMD (y m d : Int) (hv : validYMD y m d = true) : monthOf (ofYMD y m d) = m := by
  unfold monthOf; rw [toYMD_ofYMD y m d hv]
theorem yearOf_ofYMD (y m d : Int) (hv : validYMD y m d = true) : yearOf (ofYMD y m d) = y := by
  unfold yearOf; rw [toYMD_ofYMD y m d hv]
theorem dayOf_addMonths_first (n k : Int) (hd : dayOf n = 1) : dayOf (addMonths n k) = 1 := by
  unfold dayOf; rw [toYMD_addMonths_first n k hd]
theorem monthOf_addMonths_first (n k : Int) (hd : dayOf n = 1) :
    monthOf (addMonths n k) = (yearOf n * 12 + (monthOf n - 1) + k) % 12 + 1 := by
  rw [monthOf, toYMD_addMonths_first n k hd]

theorem ofYMD_toYMD' (n : Int) : ofYMD (yearOf n) (monthOf n) (dayOf n) = n := ofYMD_toYMD n

theorem month_bounds (n : Int) : 1 ≤ monthOf n ∧ monthOf n ≤ 12 ∧ 1 ≤ dayOf n ∧ dayOf n ≤ daysInMonth (yearOf n) (monthOf n) := by
  have hv := toYMD_valid n
  simp only [validYMD, decide_eq_true_eq, Bool.and_eq_true, Bool.decide_and] at hv
  exact hv

end Ledger.PCal

/-! ### durations and alignment -/

namespace Ledger.Period
open Ledger.Cal Ledger.PCal

theorem add_strict_mono (d : Duration) (n : Int) (h : 0 < d.length) : n < d.add n := by
  have hl : (0 : Int) < (d.length : Int) := by omega
  unfold Duration.add
  cases d.quantum <;> simp only
  · omega
  · omega
  · exact addMonths_gt n _ hl
  · exact addMonths_gt n _ (by omega)
  · exact addMonths_gt n _ (by omega)

theorem findNearest_le (sow n : Int) (q : Quantum) : findNearest sow n q ≤ n := by
  have hb := month_bounds n
  have hinv := ofYMD_toYMD' n
  cases q <;> simp only [findNearest]
  · omega
  · unfold weekday; omega
  · rw [ofYMD_lin] at hinv; omega
  · have hq : 1 ≤ monthOf n - (monthOf n - 1) % 3 ∧ monthOf n - (monthOf n - 1) % 3 ≤ 12 := by omega
    rw [ofYMD_fom _ _ _ hb.1 hb.2.1] at hinv
    rw [ofYMD_fom _ _ _ hq.1 hq.2]
    have := fom_mono (t := 12 * yearOf n + (monthOf n - (monthOf n - 1) % 3 - 1)) (t' := 12 * yearOf n + (monthOf n - 1)) (by omega)
    omega
  · rw [ofYMD_fom _ _ _ hb.1 hb.2.1] at hinv
    rw [ofYMD_fom _ _ _ (by omega) (by omega)]
    have := fom_mono (t := 12 * yearOf n + (1 - 1)) (t' := 12 * yearOf n + (monthOf n - 1)) (by omega)
    omega

theorem findNearest_aligned (sow n : Int) (q : Quantum) (h0 : 0 ≤ sow) (h6 : sow ≤ 6) :
    AlignedDate sow q (findNearest sow n q) := by
  have hb := month_bounds n
  cases q <;> simp only [findNearest, AlignedDate]
  · unfold weekday; omega
  · exact dayOf_ofYMD _ _ _ (validYMD_first _ _ hb.1 hb.2.1)
  · have hq : 1 ≤ monthOf n - (monthOf n - 1) % 3 ∧ monthOf n - (monthOf n - 1) % 3 ≤ 12 := by omega
    rw [dayOf_ofYMD _ _ _ (validYMD_first _ _ hq.1 hq.2), monthOf_ofYMD _ _ _ (validYMD_first _ _ hq.1 hq.2)]
    omega
  · rw [dayOf_ofYMD _ _ _ (validYMD_first _ _ (by omega) (by omega)),
        monthOf_ofYMD _ _ _ (validYMD_first _ _ (by omega) (by omega))]
    omega

theorem add_aligned (sow : Int) (d : Duration) (n : Int) (h : AlignedDate sow d.quantum n) :
    AlignedDate sow d.quantum (d.add n) := by
  unfold Duration.add
  cases hq : d.quantum <;> rw [hq] at h <;> simp only [AlignedDate] at h ⊢
  · unfold weekday at h ⊢; omega
  · exact dayOf_addMonths_first n _ h
  · rw [dayOf_addMonths_first n _ h.1, monthOf_addMonths_first n _ h.1]
    have := h.2; omega
  · unfold addYears
    rw [dayOf_addMonths_first n _ h.1, monthOf_addMonths_first n _ h.1]
    have := h.2; omega

end Ledger.Period
