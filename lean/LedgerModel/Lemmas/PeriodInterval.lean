/-
Invariant and step lemmas of the interval machine of Model/Period.lean
(resolve_end, operator++, stabilize, find_period, the interval_posts walk),
used by Props/C13.lean.
-/
import LedgerModel.Lemmas.Period

namespace Ledger.Period
open Ledger.Cal Ledger.PCal

theorem clipTo_idem (e : Int) (f : Option Int) : clipTo (clipTo e f) f = clipTo e f := by
  cases f with
  | none => rfl
  | some f => simp only [clipTo]; split <;> simp_all <;> omega

theorem clipTo_le (e : Int) (f : Option Int) : clipTo e f ≤ e := by
  cases f with
  | none => simp [clipTo]
  | some f => simp only [clipTo]; split <;> omega

theorem clipTo_lt {d e : Int} {f : Option Int} (h : d < e) (hf : ∀ x, f = some x → d < x) : d < clipTo e f := by
  cases f with
  | none => simpa [clipTo] using h
  | some f => have := hf f rfl; simp only [clipTo]; split <;> omega

/-- What holds of every interval once `stabilize` has run (and is kept by `++`):
    `end_of_duration` is already cut at `finish`; a started interval has a `next`
    strictly after its start, and `end_of_duration = min(next, finish)`. -/
structure Inv (iv : Interval) : Prop where
  aligned : iv.aligned = true
  pos : 0 < iv.duration.length
  clipped : ∀ e, iv.eod = some e → clipTo e iv.finish = e
  started : ∀ s, iv.start = some s → ∃ nx, iv.next = some nx ∧ s < nx ∧ iv.eod = some (clipTo nx iv.finish)

theorem resolveEnd_of_inv {iv : Interval} (h : Inv iv) : resolveEnd iv = iv := by
  obtain ⟨rb, re, st, fi, al, nx, du, eo, si⟩ := iv
  have hc := h.clipped
  have hs := h.started
  simp only at hc hs
  cases st with
  | none =>
    cases eo with
    | none => simp [resolveEnd]
    | some e => simp [resolveEnd, hc e rfl]
  | some s =>
    obtain ⟨n', h1, h2, h3⟩ := hs s rfl
    subst h1; subst h3
    simp [resolveEnd, clipTo_idem]


/-- `++` on a stabilized, started interval whose `next` is before `finish`: the new
    interval starts at `next` and ends one duration later (cut at `finish`). -/
theorem incr_step {iv : Interval} (h : Inv iv) {s nx : Int} (hs : iv.start = some s) (hn : iv.next = some nx)
    (hlt : ∀ f, iv.finish = some f → nx < f) :
    incr iv = .ok { iv with start := some nx, eod := some (clipTo (iv.duration.add nx) iv.finish),
                            next := some (clipTo (iv.duration.add nx) iv.finish) } := by
  unfold incr
  rw [hs]; simp only
  rw [resolveEnd_of_inv h, hn]; simp only
  obtain ⟨rb, re, st, fi, al, nx', du, eo, si⟩ := iv
  simp only at hs hn hlt ⊢
  subst hs; subst hn
  cases fi with
  | none => simp [resolveEnd, clipTo, reachedFinish]
  | some f =>
    have := hlt f rfl
    have hnp : ¬ (f ≤ nx) := by omega
    simp [resolveEnd, hnp, reachedFinish]

/-- `++` when `next` has reached `finish`: the interval becomes unstarted. -/
theorem incr_stop {iv : Interval} (h : Inv iv) {s nx f : Int} (hs : iv.start = some s) (hn : iv.next = some nx)
    (hf : iv.finish = some f) (hge : f ≤ nx) :
    incr iv = .ok { iv with start := none, next := none } := by
  unfold incr
  rw [hs]; simp only
  rw [resolveEnd_of_inv h, hn]; simp only
  have hc := h.clipped
  obtain ⟨rb, re, st, fi, al, nx', du, eo, si⟩ := iv
  simp only at hs hn hf hc ⊢
  subst hs; subst hn; subst hf
  cases eo with
  | none => simp [resolveEnd, hge, reachedFinish]
  | some e => simp [resolveEnd, hge, hc e rfl, reachedFinish]

theorem inv_incr_step {iv : Interval} (h : Inv iv) {nx : Int} (hlt : ∀ f, iv.finish = some f → nx < f) :
    Inv { iv with start := some nx, eod := some (clipTo (iv.duration.add nx) iv.finish),
                  next := some (clipTo (iv.duration.add nx) iv.finish) } where
  aligned := h.aligned
  pos := h.pos
  clipped := by intro e he; simp only at he ⊢; cases he; exact clipTo_idem _ _
  started := by
    intro s hs; simp only at hs ⊢; cases hs
    exact ⟨_, rfl, clipTo_lt (add_strict_mono _ _ h.pos) hlt, by rw [clipTo_idem]⟩

theorem inv_incr_stop {iv : Interval} (h : Inv iv) : Inv { iv with start := none, next := none } where
  aligned := h.aligned
  pos := h.pos
  clipped := h.clipped
  started := by intro s hs; simp at hs

/-- The two outcomes of `++` on a stabilized interval. -/
theorem incr_cases {iv iv' : Interval} (h : Inv iv) (hi : incr iv = .ok iv') :
    ∃ s nx, iv.start = some s ∧ iv.next = some nx ∧ s < nx ∧ iv.eod = some (clipTo nx iv.finish) ∧
      (((∀ f, iv.finish = some f → nx < f) ∧
          iv' = { iv with start := some nx, eod := some (clipTo (iv.duration.add nx) iv.finish),
                          next := some (clipTo (iv.duration.add nx) iv.finish) }) ∨
       ((∃ f, iv.finish = some f ∧ f ≤ nx) ∧ iv' = { iv with start := none, next := none })) := by
  cases hst : iv.start with
  | none => unfold incr at hi; rw [hst] at hi; cases hi
  | some s =>
    obtain ⟨nx, hn, hlt, he⟩ := h.started s hst
    refine ⟨s, nx, rfl, hn, hlt, he, ?_⟩
    by_cases hc : ∀ f, iv.finish = some f → nx < f
    · left
      refine ⟨hc, ?_⟩
      have := incr_step h hst hn hc
      rw [this] at hi; cases hi; rfl
    · right
      have hex : ∃ f, iv.finish = some f ∧ f ≤ nx := by
        apply Classical.byContradiction
        intro hne
        apply hc
        intro f hf
        apply Classical.byContradiction
        intro hlt'
        exact hne ⟨f, hf, by omega⟩
      obtain ⟨f, hf, hge⟩ := hex
      have := incr_stop h hst hn hf hge
      rw [this] at hi; cases hi
      exact ⟨⟨f, hf, hge⟩, rfl⟩

theorem inv_incr {iv iv' : Interval} (h : Inv iv) (hi : incr iv = .ok iv') : Inv iv' := by
  obtain ⟨s, nx, _, _, _, _, hc⟩ := incr_cases h hi
  rcases hc with ⟨hlt, rfl⟩ | ⟨_, rfl⟩
  · exact inv_incr_step h hlt
  · exact inv_incr_stop h

theorem inv_iter : ∀ (k : Nat) {iv ivk : Interval}, Inv iv → iter k iv = .ok ivk → Inv ivk
  | 0, iv, ivk, h, hi => by simp only [iter] at hi; cases hi; exact h
  | k + 1, iv, ivk, h, hi => by
    simp only [iter] at hi
    cases hinc : incr iv with
    | error e => rw [hinc] at hi; cases hi
    | ok iv1 => rw [hinc] at hi; exact inv_iter k (inv_incr h hinc) hi

theorem iter_add : ∀ (j k : Nat) (iv : Interval),
    iter (j + k) iv = (match iter j iv with | .ok ivj => iter k ivj | .error e => .error e)
  | 0, k, iv => by simp [iter]
  | j + 1, k, iv => by
    have e : j + 1 + k = (j + k) + 1 := by omega
    rw [e]; simp only [iter]
    cases incr iv with
    | error e => rfl
    | ok iv1 => exact iter_add j k iv1

/-- Every later interval starts at or after the end of the current one. -/
theorem iter_after : ∀ (j : Nat) {iv ivj : Interval} {e sj : Int}, Inv iv → iv.eod = some e →
    iter (j + 1) iv = .ok ivj → ivj.start = some sj → e ≤ sj
  | j, iv, ivj, e, sj, h, he, hi, hsj => by
    simp only [iter] at hi
    cases hinc : incr iv with
    | error err => rw [hinc] at hi; cases hi
    | ok iv1 =>
      rw [hinc] at hi
      obtain ⟨s, nx, hs, hn, hlt, heod, hc⟩ := incr_cases h hinc
      rw [he] at heod; cases heod
      rcases hc with ⟨hltf, rfl⟩ | ⟨_, rfl⟩
      · cases j with
        | zero =>
          simp only [iter] at hi; cases hi
          simp only at hsj; cases hsj; exact clipTo_le _ _
        | succ j =>
          have h1 := inv_incr_step h hltf
          have := iter_after j h1 rfl hi hsj
          have h2 : nx < clipTo (iv.duration.add nx) iv.finish := clipTo_lt (add_strict_mono _ _ h.pos) hltf
          have := clipTo_le nx iv.finish
          omega
      · cases j with
        | zero => simp only [iter] at hi; cases hi; simp at hsj
        | succ j => simp [iter, incr] at hi

/-- Some interval of the sequence contains any date from the first start up to `finish`. -/
theorem cover_exists (d : Int) : ∀ (n : Nat) {iv : Interval} {s : Int}, Inv iv → iv.start = some s → s ≤ d →
    (∀ f, iv.finish = some f → d < f) → gap d s ≤ n →
    ∃ k ivk sk ek, iter k iv = .ok ivk ∧ ivk.start = some sk ∧ ivk.eod = some ek ∧ sk ≤ d ∧ d < ek
  | n, iv, s, h, hs, hsd, hdf, hg => by
    obtain ⟨nx, hn, hlt, he⟩ := h.started s hs
    by_cases hin : d < clipTo nx iv.finish
    · exact ⟨0, iv, s, _, rfl, hs, he, hsd, hin⟩
    · have hnx : clipTo nx iv.finish = nx := by
        cases hf : iv.finish with
        | none => simp [clipTo]
        | some f =>
          have := hdf f hf
          rw [hf] at hin
          simp only [clipTo] at hin ⊢
          split <;> simp_all <;> omega
      rw [hnx] at hin
      have hltf : ∀ f, iv.finish = some f → nx < f := by intro f hf; have := hdf f hf; omega
      have hstep := incr_step h hs hn hltf
      have h1 := inv_incr_step h hltf
      cases n with
      | zero => simp only [gap] at hg; omega
      | succ n =>
        have hg' : gap d nx ≤ n := by simp only [gap] at hg ⊢; omega
        obtain ⟨k, ivk, sk, ek, hk, r⟩ := cover_exists d n h1 rfl (by omega) hdf hg'
        refine ⟨k + 1, ivk, sk, ek, ?_, r⟩
        simp only [iter]; rw [hstep]; exact hk

/-! ### `stabilize` on an interval fresh from the parser -/

/-- The interval as the period parser leaves it: only range, duration and `since_specified`. -/
structure Fresh (iv : Interval) : Prop where
  start : iv.start = none
  finish : iv.finish = none
  aligned : iv.aligned = false
  next : iv.next = none
  eod : iv.eod = none

theorem fresh_interval (p : Period) (d : Duration) : Fresh (p.interval d) := ⟨rfl, rfl, rfl, rfl, rfl⟩

/-- `++` inside the `stabilize` loop (no `finish` yet): one duration forward. -/
theorem incr_unbounded (iv0 : Interval) (hf : iv0.finish = none) (s : Int) (x : Option Int)
    (hx : x = none ∨ x = some (iv0.duration.add s)) :
    incr { iv0 with start := some s, eod := x, next := x } =
      .ok { iv0 with start := some (iv0.duration.add s), eod := some (iv0.duration.add (iv0.duration.add s)),
                     next := some (iv0.duration.add (iv0.duration.add s)) } := by
  obtain ⟨rb, re, st, fi, al, nx', du, eo, si⟩ := iv0
  simp only at hf hx ⊢
  subst hf
  rcases hx with rfl | rfl <;> simp [incr, resolveEnd, clipTo, reachedFinish]

/-- The `while (*start < *date)` loop: with a positive length and enough fuel for the
    measure `date - start` it ends on the last step start `u ≤ date`, with `date < add u`. -/
theorem stabLoop_spec (sow : Int) (iv0 : Interval) (hf : iv0.finish = none) (hpos : 0 < iv0.duration.length) (d : Int) :
    ∀ (fuel : Nat) (s : Int) (x : Option Int), s ≤ d → gap d s + 1 ≤ fuel →
      (x = none ∨ x = some (iv0.duration.add s)) →
      ∃ u y, stabLoop d fuel { iv0 with start := some s, eod := x, next := x } =
               .ok { iv0 with start := some u, eod := y, next := y } ∧
             s ≤ u ∧ u ≤ d ∧ d < iv0.duration.add u ∧ (y = none ∨ y = some (iv0.duration.add u)) ∧
             (u = s → y = x ∨ y = none) ∧
             (AlignedDate sow iv0.duration.quantum s → AlignedDate sow iv0.duration.quantum u)
  | 0, s, x, _, hfuel, _ => by omega
  | fuel + 1, s, x, hsd, hfuel, hx => by
    have hmono := add_strict_mono iv0.duration s hpos
    simp only [stabLoop]
    by_cases hlt : s < d
    · simp only [hlt, if_true]
      rw [incr_unbounded iv0 hf s x hx]
      simp only
      by_cases hle : iv0.duration.add s ≤ d
      · simp only [hle, if_true]
        have hg : gap d (iv0.duration.add s) + 1 ≤ fuel := by simp only [gap] at hfuel ⊢; omega
        obtain ⟨u, y, h1, h2, h3, h4, h5, _, h7⟩ :=
          stabLoop_spec sow iv0 hf hpos d fuel (iv0.duration.add s) (some (iv0.duration.add (iv0.duration.add s))) hle hg (Or.inr rfl)
        refine ⟨u, y, h1, by omega, h3, h4, h5, by intro hu; omega, ?_⟩
        intro ha; exact h7 (add_aligned sow iv0.duration s ha)
      · simp only [hle, if_false]
        exact ⟨s, none, rfl, Int.le_refl _, hsd, by omega, Or.inl rfl, fun _ => Or.inr rfl, id⟩
    · simp only [hlt, if_false]
      exact ⟨s, x, rfl, Int.le_refl _, hsd, by omega, hx, fun _ => Or.inl rfl, id⟩

/-- First candidate start: at or before the date; the date itself when anchored
    (`--align-intervals` with a `from` date), otherwise an aligned date. -/
theorem baseStart_spec (sow : Int) (h0 : 0 ≤ sow) (h6 : sow ≤ 6) (align : Bool) (iv : Interval)
    (hpos : 0 < iv.duration.length) (d : Int) :
    ∃ b0, baseStart sow align iv d = .ok b0 ∧ b0 ≤ d ∧
      ((align && iv.sinceSpecified) = true → b0 = d) ∧
      ((align && iv.sinceSpecified) = false → AlignedDate sow iv.duration.quantum b0) := by
  cases hc : (align && iv.sinceSpecified)
  · -- not anchored
    cases hq : iv.duration.quantum
    · exact ⟨d, by simp [baseStart, hq], Int.le_refl _, (by intro h; cases h), fun _ => trivial⟩
    · have hp : ¬ ((iv.duration.length : Int) * 7 = 0) := by omega
      refine ⟨findNearest sow (d - ((iv.duration.length : Int) * 7 + 400 % ((iv.duration.length : Int) * 7))) .weeks,
        by simp [baseStart, hq, hc, hp], ?_, (by intro h; cases h), fun _ => findNearest_aligned sow _ .weeks h0 h6⟩
      have h1 := findNearest_le sow (d - ((iv.duration.length : Int) * 7 + 400 % ((iv.duration.length : Int) * 7))) .weeks
      have h2 : 0 ≤ 400 % ((iv.duration.length : Int) * 7) := Int.emod_nonneg _ hp
      omega
    · exact ⟨findNearest sow d .months, by simp [baseStart, hq, hc], findNearest_le sow d _, (by intro h; cases h),
        fun _ => findNearest_aligned sow d _ h0 h6⟩
    · exact ⟨findNearest sow d .quarters, by simp [baseStart, hq, hc], findNearest_le sow d _, (by intro h; cases h),
        fun _ => findNearest_aligned sow d _ h0 h6⟩
    · exact ⟨findNearest sow d .years, by simp [baseStart, hq, hc], findNearest_le sow d _, (by intro h; cases h),
        fun _ => findNearest_aligned sow d _ h0 h6⟩
  · -- anchored at the date
    refine ⟨d, ?_, Int.le_refl _, fun _ => rfl, (by intro h; cases h)⟩
    cases hq : iv.duration.quantum <;> simp [baseStart, hq, hc]

/-- the start after `stabilize`: the unclipped start `u`, or the `from` bound when later -/
def clippedStart (u : Int) : Option Int → Int
  | some b => if u < b then b else u
  | none => u

/-- `stabilize` on a fresh interval, for a date inside the bounds. -/
theorem stabilize_fresh (sow : Int) (h0 : 0 ≤ sow) (h6 : sow ≤ 6) (align : Bool) (iv0 : Interval) (hfr : Fresh iv0)
    (hpos : 0 < iv0.duration.length) (d : Int) :
    ∃ u nx,
      stabilize sow (some d) align iv0 =
        .ok { iv0 with start := some (clippedStart u iv0.rangeBegin), finish := iv0.rangeEnd, aligned := true,
                       eod := some (clipTo (iv0.duration.add u) iv0.rangeEnd), next := some nx } ∧
      (nx = iv0.duration.add u ∨ nx = clipTo (iv0.duration.add u) iv0.rangeEnd) ∧
      (nx = iv0.duration.add u ∨ clippedStart u iv0.rangeBegin = u) ∧
      u ≤ d ∧ d < iv0.duration.add u ∧
      ((align && iv0.sinceSpecified) = true → u = d) ∧
      ((align && iv0.sinceSpecified) = false → AlignedDate sow iv0.duration.quantum u) := by
  obtain ⟨b0, hb, hb0, hb1, hb2⟩ := baseStart_spec sow h0 h6 align iv0 hpos d
  obtain ⟨h1, h2, h3, h4, h5⟩ := hfr
  obtain ⟨rb, re, st, fi, al, nx', du, eo, si⟩ := iv0
  simp only at h1 h2 h3 h4 h5 hpos hb hb1 hb2 ⊢
  subst h1 h2 h3 h4 h5
  obtain ⟨u, y, hl, hu0, hu1, hu2, hy, _, hal⟩ :=
    stabLoop_spec sow ⟨rb, re, none, none, false, none, du, none, si⟩ rfl hpos d (gap d b0 + 1) b0 none hb0 (Nat.le_refl _) (Or.inl rfl)
  simp only at hl hu2 hy hal
  simp only [stabilize, Interval.begin, Interval.end, hb, hl]
  have hA : (align && si) = true → u = d := by
    intro hc; have := hb1 hc; omega
  have hB : (align && si) = false → AlignedDate sow du.quantum u := fun hc => hal (hb2 hc)
  rcases hy with rfl | rfl
  · -- the loop left `end_of_duration` and `next` unset
    cases rb with
    | none =>
      refine ⟨u, clipTo (du.add u) re, ?_, Or.inr rfl, Or.inr rfl, hu1, hu2, hA, hB⟩
      cases re <;> simp [clipStart, clipFinish, resolveEnd, clippedStart, clipTo]
    | some b =>
      by_cases hub : u < b
      · refine ⟨u, du.add u, ?_, Or.inl rfl, Or.inl rfl, hu1, hu2, hA, hB⟩
        cases re <;> simp [clipStart, clipFinish, resolveEnd, clippedStart, clipTo, hub]
      · refine ⟨u, clipTo (du.add u) re, ?_, Or.inr rfl, Or.inr (by simp [clippedStart, hub]), hu1, hu2, hA, hB⟩
        cases re <;> simp [clipStart, clipFinish, resolveEnd, clippedStart, clipTo, hub]
  · -- the loop stopped exactly on the date after at least one step
    refine ⟨u, du.add u, ?_, Or.inl rfl, Or.inl rfl, hu1, hu2, hA, hB⟩
    cases rb with
    | none => cases re <;> simp [clipStart, clipFinish, resolveEnd, clippedStart, clipTo]
    | some b =>
      by_cases hub : u < b
      · cases re <;> simp [clipStart, clipFinish, resolveEnd, clippedStart, clipTo, hub]
      · cases re <;> simp [clipStart, clipFinish, resolveEnd, clippedStart, clipTo, hub]

theorem clippedStart_le (u d : Int) (rb : Option Int) (hu : u ≤ d) (hb : ∀ b, rb = some b → b ≤ d) :
    clippedStart u rb ≤ d := by
  cases rb with
  | none => exact hu
  | some b => have := hb b rfl; simp only [clippedStart]; split <;> omega

theorem le_clippedStart (u : Int) (rb : Option Int) : u ≤ clippedStart u rb := by
  cases rb with
  | none => exact Int.le_refl _
  | some b => simp only [clippedStart]; split <;> omega

/-- `stabilize` on a fresh interval at a date inside the bounds: the result satisfies the
    invariant, starts at the unclipped step start `u` or at the `from` bound, and ends one
    duration after `u` unless cut at the `to` bound. -/
theorem stabilize_fresh_inv (sow : Int) (h0 : 0 ≤ sow) (h6 : sow ≤ 6) (align : Bool) (iv0 : Interval) (hfr : Fresh iv0)
    (hpos : 0 < iv0.duration.length) (d : Int)
    (hbd : ∀ b, iv0.rangeBegin = some b → b ≤ d) (hdf : ∀ f, iv0.rangeEnd = some f → d < f) :
    ∃ iv1 u, stabilize sow (some d) align iv0 = .ok iv1 ∧ Inv iv1 ∧
      iv1.start = some (clippedStart u iv0.rangeBegin) ∧ iv1.finish = iv0.rangeEnd ∧
      iv1.eod = some (clipTo (iv0.duration.add u) iv0.rangeEnd) ∧ iv1.duration = iv0.duration ∧
      iv1.rangeBegin = iv0.rangeBegin ∧ iv1.rangeEnd = iv0.rangeEnd ∧
      u ≤ d ∧ d < iv0.duration.add u ∧
      ((align && iv0.sinceSpecified) = true → u = d) ∧
      ((align && iv0.sinceSpecified) = false → AlignedDate sow iv0.duration.quantum u) := by
  obtain ⟨u, nx, hst, hnx1, hnx2, hu1, hu2, hA, hB⟩ := stabilize_fresh sow h0 h6 align iv0 hfr hpos d
  refine ⟨_, u, hst, ?_, rfl, rfl, rfl, rfl, rfl, rfl, hu1, hu2, hA, hB⟩
  have hmono := add_strict_mono iv0.duration u hpos
  have hcl := clippedStart_le u d iv0.rangeBegin hu1 hbd
  refine ⟨rfl, hpos, ?_, ?_⟩
  · intro e he; simp only at he ⊢; cases he; exact clipTo_idem _ _
  · intro s hs; simp only at hs ⊢; cases hs
    refine ⟨nx, rfl, ?_, ?_⟩
    · rcases hnx1 with rfl | rfl
      · omega
      · exact clipTo_lt (by omega) (fun f hf => by have := hdf f hf; omega)
    · rcases hnx1 with rfl | rfl
      · rfl
      · rw [clipTo_idem]

/-! ### `find_period` -/

theorem stabilize_of_inv {iv : Interval} (h : Inv iv) (sow : Int) (date : Option Int) (align : Bool) :
    stabilize sow date align iv = .ok iv := by
  unfold stabilize
  rw [h.aligned]
  cases date <;> simp [resolveEnd_of_inv h]

/-- A successful scan sets the interval to a step `[scan, end_of_scan)` containing the date. -/
theorem scanLoop_true (d : Int) (allow : Bool) (iv : Interval) :
    ∀ (fuel : Nat) (scan eos : Int) (iv' : Interval), scanLoop d allow fuel scan eos iv = .ok (true, iv') →
      ∃ sc eo, iv' = resolveEnd { iv with start := some sc, eod := some eo, next := none } ∧ sc ≤ d ∧ d < eo
  | 0, _, _, _, h => by simp [scanLoop] at h
  | fuel + 1, scan, eos, iv', h => by
    simp only [scanLoop] at h
    split at h
    · rename_i hin
      split at h
      · rename_i hlt
        simp only [Except.ok.injEq, Prod.mk.injEq, true_and] at h
        simp only [Bool.and_eq_true, decide_eq_true_eq] at hin
        exact ⟨scan, eos, h.symm, hin.1, hlt⟩
      · split at h
        · simp at h
        · exact scanLoop_true d allow iv fuel _ _ iv' h
    · simp at h

theorem resolveEnd_scan (iv : Interval) (sc eo : Int) :
    resolveEnd { iv with start := some sc, eod := some eo, next := none } =
      { iv with start := some sc, eod := some (clipTo eo iv.finish), next := some (clipTo eo iv.finish) } := by
  obtain ⟨rb, re, st, fi, al, nx', du, eo', si⟩ := iv
  simp [resolveEnd]

/-- `find_period` answering true leaves an interval that contains the date, except that a
    date equal to `finish` is accepted by the first test (`date > *finish`) although the
    interval found by the scan is cut at `finish`. -/
theorem findPeriod_true {sow d : Int} {align allow : Bool} {iv iv' : Interval}
    (h : findPeriod sow d align allow iv = .ok (true, iv')) (hne : ∀ f, iv'.finish = some f → d ≠ f) :
    ∃ s e, iv'.start = some s ∧ iv'.eod = some e ∧ s ≤ d ∧ d < e := by
  unfold findPeriod at h
  cases hst : stabilize sow (some d) align iv with
  | error err => rw [hst] at h; cases h
  | ok iv1 =>
    rw [hst] at h
    simp only at h
    cases hnp : afterFinish iv1.finish d with
    | true => rw [hnp] at h; simp at h
    | false =>
    rw [hnp] at h
    simp only [Bool.false_eq_true, if_false] at h
    have hpf : ∀ f, iv1.finish = some f → d ≤ f := by
      intro f hf
      rw [hf] at hnp
      simp only [afterFinish, decide_eq_false_iff_not] at hnp
      omega
    cases hs : iv1.start with
    | none => rw [hs] at h; cases h
    | some s =>
      rw [hs] at h
      simp only at h
      by_cases hds : d < s
      · simp [hds] at h
      · simp only [hds, if_false] at h
        cases he : iv1.eod with
        | none => rw [he] at h; simp at h
        | some e =>
          rw [he] at h
          simp only at h
          by_cases hde : d < e
          · simp only [hde, if_true, Except.ok.injEq, Prod.mk.injEq, true_and] at h
            subst h
            exact ⟨s, e, hs, he, by omega, hde⟩
          · simp only [hde, if_false] at h
            obtain ⟨sc, eo, hiv, h1, h2⟩ := scanLoop_true d allow iv1 _ _ _ _ h
            rw [resolveEnd_scan] at hiv
            subst hiv
            refine ⟨sc, _, rfl, rfl, h1, ?_⟩
            apply clipTo_lt h2
            intro f hf
            have hn := hne f hf
            have := hpf f hf
            omega

/-- `within_period` on a stabilized interval is the plain test `start ≤ date < end_of_duration`
    (and `date ≤ finish`), and does not change the interval. -/
theorem withinPeriod_eq {iv : Interval} (h : Inv iv) {s e : Int} (hs : iv.start = some s) (he : iv.eod = some e)
    (sow d : Int) :
    withinPeriod sow d iv =
      .ok ((!(afterFinish iv.finish d)) && decide (s ≤ d) && decide (d < e), iv) := by
  unfold withinPeriod findPeriod
  rw [stabilize_of_inv h]
  obtain ⟨rb, re, st, fi, al, nx', du, eo', si⟩ := iv
  simp only at hs he
  subst hs he
  have hfuel : gap d s + 1 = (gap d s) + 1 := rfl
  cases fi with
  | none =>
    by_cases h1 : d < s
    · have : ¬ (s ≤ d) := by omega
      simp [h1, this, afterFinish]
    · have h1' : s ≤ d := by omega
      by_cases h2 : d < e
      · simp [h1, h1', h2, afterFinish]
      · simp [h1, h1', h2, scanLoop, afterFinish, beforeFinish]
  | some f =>
    by_cases h3 : d > f
    · simp [h3, afterFinish]
    · have h3' : ¬ (f < d) := by omega
      by_cases h1 : d < s
      · have : ¬ (s ≤ d) := by omega
        simp [h3', h1, this, afterFinish]
      · have h1' : s ≤ d := by omega
        by_cases h2 : d < e
        · simp [h3', h1, h1', h2, afterFinish]
        · simp [h3', h1, h1', h2, scanLoop, afterFinish, beforeFinish]

theorem withinPeriod_inv {iv : Interval} (h : Inv iv) {s e : Int} (hs : iv.start = some s) (he : iv.eod = some e)
    (sow d : Int) :
    ∃ b, withinPeriod sow d iv = .ok (b, iv) ∧ (b = true → s ≤ d ∧ d < e) ∧
      (b = false → s ≤ d → (∀ f, iv.finish = some f → d ≤ f) → e ≤ d) := by
  refine ⟨_, withinPeriod_eq h hs he sow d, ?_, ?_⟩
  · intro hb
    simp only [Bool.and_eq_true, decide_eq_true_eq] at hb
    exact ⟨hb.1.2, hb.2⟩
  · intro hb hsd hfin
    have hp : afterFinish iv.finish d = false := by
      cases hf : iv.finish with
      | none => rfl
      | some f => have := hfin f hf; simp [afterFinish]; omega
    rw [hp] at hb
    simp only [Bool.not_false, Bool.true_and, Bool.and_eq_false_iff, decide_eq_false_iff_not] at hb
    omega

/-! ### the interval_posts walk -/

theorem mkGroup_members (iv : Interval) (cur : List (Nat × Int)) : (mkGroup iv cur).members = cur := rfl

/-- The rows `seek` emits hold exactly what had been accumulated (or nothing). -/
theorem seek_flat (sow : Int) (empty : Bool) (d : Int) :
    ∀ (fuel : Nat) (iv : Interval) (cur : List (Nat × Int)) (iv' : Interval) (gs : List Group),
      seek sow empty d fuel iv cur = .ok (iv', gs) →
      gs.flatMap Group.members = if gs.isEmpty then [] else cur
  | 0, _, _, _, _, h => by simp [seek] at h
  | fuel + 1, iv, cur, iv', gs, h => by
    simp only [seek] at h
    cases hw : withinPeriod sow d iv with
    | error err => rw [hw] at h; cases h
    | ok r =>
      obtain ⟨b, iv1⟩ := r
      rw [hw] at h
      cases b with
      | true => simp only [Except.ok.injEq, Prod.mk.injEq] at h; rw [← h.2]; rfl
      | false =>
        simp only at h
        cases hi : incr iv1 with
        | error err => rw [hi] at h; cases h
        | ok iv2 =>
          rw [hi] at h
          simp only at h
          cases hr : seek sow empty d fuel iv2 [] with
          | error err => rw [hr] at h; cases h
          | ok r2 =>
            obtain ⟨iv3, gs'⟩ := r2
            rw [hr] at h
            simp only [Except.ok.injEq, Prod.mk.injEq] at h
            have ih := seek_flat sow empty d fuel iv2 [] iv3 gs' hr
            have ih' : gs'.flatMap Group.members = [] := by rw [ih]; split <;> rfl
            rw [← h.2, List.flatMap_append, ih']
            cases cur with
            | nil => cases empty <;> simp [mkGroup]
            | cons c cs => simp [mkGroup]

/-- Concatenating the members of all reported rows gives back the (date-sorted) postings:
    no posting is dropped, duplicated or reordered by the walk. -/
theorem walk_flat (sow : Int) (empty : Bool) :
    ∀ (posts : List (Nat × Int)) (iv : Interval) (cur : List (Nat × Int)) (gs : List Group),
      walk sow empty iv cur posts = .ok gs → gs.flatMap Group.members = cur ++ posts
  | [], iv, cur, gs, h => by
    simp only [walk, Except.ok.injEq] at h
    rw [← h]
    cases cur with
    | nil => simp
    | cons c cs => simp [mkGroup]
  | p :: ps, iv, cur, gs, h => by
    simp only [walk] at h
    cases hs : seek sow empty p.2 (walkFuel iv p.2) iv cur with
    | error err => rw [hs] at h; cases h
    | ok r =>
      obtain ⟨iv1, gs1⟩ := r
      rw [hs] at h
      simp only at h
      cases hw : walk sow empty iv1 (if gs1.isEmpty then cur ++ [p] else [p]) ps with
      | error err => rw [hw] at h; cases h
      | ok rest =>
        rw [hw] at h
        simp only [Except.ok.injEq] at h
        have ih := walk_flat sow empty ps iv1 _ rest hw
        have hf := seek_flat sow empty p.2 _ iv cur iv1 gs1 hs
        rw [← h, List.flatMap_append, ih, hf]
        cases hg : gs1.isEmpty <;> simp

/-- every member of a reported row is dated inside the row's interval -/
def GroupOk (g : Group) : Prop := ∀ m ∈ g.members, g.start ≤ m.2 ∧ m.2 < g.eod

/-- what has been accumulated lies inside the current interval -/
def CurOk (iv : Interval) (cur : List (Nat × Int)) : Prop :=
  ∀ m ∈ cur, ∃ s e, iv.start = some s ∧ iv.eod = some e ∧ s ≤ m.2 ∧ m.2 < e

theorem groupOk_mkGroup {iv : Interval} {cur : List (Nat × Int)} (h : CurOk iv cur) : GroupOk (mkGroup iv cur) := by
  intro m hm
  obtain ⟨s, e, hs, he, h1, h2⟩ := h m hm
  simp only [mkGroup, hs, he, Option.getD_some]
  exact ⟨h1, h2⟩

theorem withinPeriod_unstarted {iv : Interval} (h : Inv iv) (hs : iv.start = none) (sow d : Int) :
    withinPeriod sow d iv = .error .improper ∨ withinPeriod sow d iv = .ok (false, iv) := by
  unfold withinPeriod findPeriod
  rw [stabilize_of_inv h]
  simp only [hs]
  cases afterFinish iv.finish d <;> simp

theorem incr_unstarted {iv : Interval} (hs : iv.start = none) : incr iv = .error .unstarted := by
  unfold incr; rw [hs]

/-- `seek` on a stabilized interval: the interval it stops on contains the date, and every
    row it reported holds only postings dated inside that row's interval. -/
theorem seek_groups (sow : Int) (empty : Bool) (d : Int) :
    ∀ (fuel : Nat) (iv : Interval) (cur : List (Nat × Int)) (iv' : Interval) (gs : List Group),
      Inv iv → CurOk iv cur → seek sow empty d fuel iv cur = .ok (iv', gs) →
      Inv iv' ∧ (∃ s' e', iv'.start = some s' ∧ iv'.eod = some e' ∧ s' ≤ d ∧ d < e') ∧
      (∀ g ∈ gs, GroupOk g) ∧ (gs = [] → cur = [] ∨ iv' = iv)
  | 0, _, _, _, _, _, _, h => by simp [seek] at h
  | fuel + 1, iv, cur, iv', gs, hinv, hcur, h => by
    simp only [seek] at h
    cases hst : iv.start with
    | none =>
      rcases withinPeriod_unstarted hinv hst sow d with hw | hw
      · rw [hw] at h; cases h
      · rw [hw] at h; simp only [incr_unstarted hst] at h; cases h
    | some s =>
      obtain ⟨nx, hn, hlt, he⟩ := hinv.started s hst
      rw [withinPeriod_eq hinv hst he sow d] at h
      cases hb : ((!(afterFinish iv.finish d)) && decide (s ≤ d) && decide (d < clipTo nx iv.finish)) with
      | true =>
        rw [hb] at h
        simp only [Except.ok.injEq, Prod.mk.injEq] at h
        obtain ⟨rfl, rfl⟩ := h
        simp only [Bool.and_eq_true, decide_eq_true_eq] at hb
        exact ⟨hinv, ⟨s, _, hst, he, hb.1.2, hb.2⟩, (by intro g hg; cases hg), fun _ => Or.inr rfl⟩
      | false =>
        rw [hb] at h
        simp only at h
        cases hi : incr iv with
        | error err => rw [hi] at h; cases h
        | ok iv2 =>
          rw [hi] at h
          simp only at h
          cases hr : seek sow empty d fuel iv2 [] with
          | error err => rw [hr] at h; cases h
          | ok r2 =>
            obtain ⟨iv3, gs'⟩ := r2
            rw [hr] at h
            simp only [Except.ok.injEq, Prod.mk.injEq] at h
            obtain ⟨rfl, rfl⟩ := h
            have hcur2 : CurOk iv2 [] := by intro m hm; cases hm
            obtain ⟨i1, i2, i3, _⟩ := seek_groups sow empty d fuel iv2 [] iv3 gs' (inv_incr hinv hi) hcur2 hr
            refine ⟨i1, i2, ?_, ?_⟩
            · intro g hg
              rw [List.mem_append] at hg
              rcases hg with hg | hg
              · cases cur with
                | nil =>
                  cases empty with
                  | false => simp at hg
                  | true =>
                    simp only [List.isEmpty_nil, Bool.not_true, Bool.false_eq_true, if_false, if_true, List.mem_singleton] at hg
                    subst hg; intro m hm; cases hm
                | cons c cs =>
                  simp only [List.isEmpty_cons, Bool.not_false, if_true, List.mem_singleton] at hg
                  subst hg; exact groupOk_mkGroup hcur
              · exact i3 g hg
            · intro hnil
              cases cur with
              | nil => exact Or.inl rfl
              | cons c cs => simp at hnil

/-- The walk on a stabilized interval: every reported row holds only postings dated inside
    that row's interval. -/
theorem walk_groups (sow : Int) (empty : Bool) :
    ∀ (posts : List (Nat × Int)) (iv : Interval) (cur : List (Nat × Int)) (gs : List Group),
      Inv iv → CurOk iv cur → walk sow empty iv cur posts = .ok gs → ∀ g ∈ gs, GroupOk g
  | [], iv, cur, gs, _, hcur, h => by
    simp only [walk, Except.ok.injEq] at h
    rw [← h]
    intro g hg
    cases cur with
    | nil => simp at hg
    | cons c cs =>
      simp only [List.isEmpty_cons, Bool.false_eq_true, if_false, List.mem_singleton] at hg
      subst hg; exact groupOk_mkGroup hcur
  | p :: ps, iv, cur, gs, hinv, hcur, h => by
    simp only [walk] at h
    cases hs : seek sow empty p.2 (walkFuel iv p.2) iv cur with
    | error err => rw [hs] at h; cases h
    | ok r =>
      obtain ⟨iv1, gs1⟩ := r
      rw [hs] at h
      simp only at h
      cases hw : walk sow empty iv1 (if gs1.isEmpty then cur ++ [p] else [p]) ps with
      | error err => rw [hw] at h; cases h
      | ok rest =>
        rw [hw] at h
        simp only [Except.ok.injEq] at h
        obtain ⟨i1, ⟨s', e', hs', he', h1, h2⟩, i3, i4⟩ := seek_groups sow empty p.2 _ iv cur iv1 gs1 hinv hcur hs
        have hp : ∀ m ∈ [p], ∃ s e, iv1.start = some s ∧ iv1.eod = some e ∧ s ≤ m.2 ∧ m.2 < e := by
          intro m hm; simp only [List.mem_singleton] at hm; subst hm; exact ⟨s', e', hs', he', h1, h2⟩
        have hcur1 : CurOk iv1 (if gs1.isEmpty then cur ++ [p] else [p]) := by
          cases hg : gs1.isEmpty with
          | false => simp only [Bool.false_eq_true, if_false]; exact hp
          | true =>
            simp only [if_true]
            have hnil : gs1 = [] := by simpa using hg
            intro m hm
            rw [List.mem_append] at hm
            rcases hm with hm | hm
            · rcases i4 hnil with hc | hc
              · subst hc; cases hm
              · subst hc; exact hcur m hm
            · exact hp m hm
        have ih := walk_groups sow empty ps iv1 _ rest i1 hcur1 hw
        rw [← h]
        intro g hg
        rw [List.mem_append] at hg
        rcases hg with hg | hg
        · exact i3 g hg
        · exact ih g hg

/-- `seek` terminates within the measure `date - start` for a date between the current
    start and `finish`. -/
theorem seek_ok (sow : Int) (empty : Bool) (d : Int) :
    ∀ (fuel : Nat) (iv : Interval) (cur : List (Nat × Int)) (s : Int),
      Inv iv → iv.start = some s → s ≤ d → (∀ f, iv.finish = some f → d < f) → gap d s + 1 ≤ fuel →
      ∃ iv' gs, seek sow empty d fuel iv cur = .ok (iv', gs) ∧ iv'.finish = iv.finish ∧
        ∃ s', iv'.start = some s' ∧ s ≤ s'
  | 0, _, _, _, _, _, _, _, hf => by omega
  | fuel + 1, iv, cur, s, hinv, hst, hsd, hdf, hfuel => by
    obtain ⟨nx, hn, hlt, he⟩ := hinv.started s hst
    simp only [seek]
    rw [withinPeriod_eq hinv hst he sow d]
    cases hb : ((!(afterFinish iv.finish d)) && decide (s ≤ d) && decide (d < clipTo nx iv.finish)) with
    | true => exact ⟨iv, [], rfl, rfl, s, hst, Int.le_refl _⟩
    | false =>
      simp only
      have hp : afterFinish iv.finish d = false := by
        cases hf : iv.finish with
        | none => rfl
        | some f => have := hdf f hf; simp [afterFinish]; omega
      rw [hp] at hb
      simp only [Bool.not_false, Bool.true_and, Bool.and_eq_false_iff, decide_eq_false_iff_not] at hb
      have hin : ¬ (d < clipTo nx iv.finish) := by rcases hb with hb | hb <;> omega
      have hnx : clipTo nx iv.finish = nx := by
        cases hf : iv.finish with
        | none => simp [clipTo]
        | some f =>
          have := hdf f hf
          rw [hf] at hin
          simp only [clipTo] at hin ⊢
          split <;> simp_all <;> omega
      rw [hnx] at hin
      have hltf : ∀ f, iv.finish = some f → nx < f := by intro f hf; have := hdf f hf; omega
      rw [incr_step hinv hst hn hltf]
      simp only
      have hg : gap d nx + 1 ≤ fuel := by simp only [gap] at hfuel ⊢; omega
      obtain ⟨iv', gs, h1, h2, s', h3, h4⟩ :=
        seek_ok sow empty d fuel _ [] nx (inv_incr_step hinv hltf) rfl (by omega) hdf hg
      rw [h1]
      exact ⟨iv', _, rfl, h2, s', h3, by omega⟩

/-- The walk reports without error when the postings are in date order and dated between
    the first interval's start and `finish`. -/
theorem walk_ok (sow : Int) (empty : Bool) :
    ∀ (posts : List (Nat × Int)) (iv : Interval) (cur : List (Nat × Int)) (s : Int),
      Inv iv → CurOk iv cur → iv.start = some s → posts.Pairwise (fun a b => a.2 ≤ b.2) →
      (∀ p ∈ posts, s ≤ p.2) → (∀ p ∈ posts, ∀ f, iv.finish = some f → p.2 < f) →
      ∃ gs, walk sow empty iv cur posts = .ok gs
  | [], iv, cur, s, _, _, _, _, _, _ => ⟨_, rfl⟩
  | p :: ps, iv, cur, s, hinv, hcur, hst, hsort, hlo, hhi => by
    simp only [walk]
    have hfuel : gap p.2 s + 1 ≤ walkFuel iv p.2 := by simp only [walkFuel, hst]; omega
    obtain ⟨iv1, gs1, h1, h2, s', h3, _⟩ :=
      seek_ok sow empty p.2 _ iv cur s hinv hst (hlo p (List.mem_cons_self ..))
        (fun f hf => hhi p (List.mem_cons_self ..) f hf) hfuel
    rw [h1]
    simp only
    obtain ⟨i1, ⟨s'', e', hs', he', hle, hlt⟩, _, i4⟩ := seek_groups sow empty p.2 _ iv cur iv1 gs1 hinv hcur h1
    rw [h3] at hs'; cases hs'
    have hp : ∀ m ∈ [p], ∃ s e, iv1.start = some s ∧ iv1.eod = some e ∧ s ≤ m.2 ∧ m.2 < e := by
      intro m hm; simp only [List.mem_singleton] at hm; subst hm; exact ⟨s', e', h3, he', hle, hlt⟩
    have hcur1 : CurOk iv1 (if gs1.isEmpty then cur ++ [p] else [p]) := by
      cases hg : gs1.isEmpty with
      | false => simp only [Bool.false_eq_true, if_false]; exact hp
      | true =>
        simp only [if_true]
        have hnil : gs1 = [] := by simpa using hg
        intro m hm
        rw [List.mem_append] at hm
        rcases hm with hm | hm
        · rcases i4 hnil with hc | hc
          · subst hc; cases hm
          · subst hc; exact hcur m hm
        · exact hp m hm
    rw [List.pairwise_cons] at hsort
    have hlo' : ∀ q ∈ ps, s' ≤ q.2 := by intro q hq; have := hsort.1 q hq; omega
    have hhi' : ∀ q ∈ ps, ∀ f, iv1.finish = some f → q.2 < f := by
      intro q hq f hf; rw [h2] at hf; exact hhi q (List.mem_cons_of_mem _ hq) f hf
    obtain ⟨rest, hr⟩ := walk_ok sow empty ps iv1 _ s' i1 hcur1 h3 hsort.2 hlo' hhi'
    rw [hr]
    exact ⟨_, rfl⟩

/-! ### the stable sort by date -/

theorem insertByDate_perm (p : Nat × Int) : ∀ l : List (Nat × Int), (insertByDate p l).Perm (p :: l)
  | [] => List.Perm.refl _
  | q :: qs => by
    simp only [insertByDate]
    split
    · exact List.Perm.refl _
    · exact ((insertByDate_perm p qs).cons q).trans (List.Perm.swap p q qs)

theorem insertByDate_sorted (p : Nat × Int) : ∀ l : List (Nat × Int), l.Pairwise (fun a b => a.2 ≤ b.2) →
    (insertByDate p l).Pairwise (fun a b => a.2 ≤ b.2)
  | [], _ => by simp [insertByDate]
  | q :: qs, h => by
    simp only [insertByDate]
    rw [List.pairwise_cons] at h
    split
    · rename_i hlt
      rw [List.pairwise_cons]
      refine ⟨?_, List.pairwise_cons.2 h⟩
      intro a ha
      rw [List.mem_cons] at ha
      rcases ha with rfl | ha
      · omega
      · have := h.1 a ha; omega
    · rename_i hge
      rw [List.pairwise_cons]
      refine ⟨?_, insertByDate_sorted p qs h.2⟩
      intro a ha
      have hm := (insertByDate_perm p qs).mem_iff.1 ha
      rw [List.mem_cons] at hm
      rcases hm with rfl | hm
      · omega
      · exact h.1 a hm

theorem foldl_insert_perm : ∀ (l acc : List (Nat × Int)),
    (l.foldl (fun acc p => insertByDate p acc) acc).Perm (acc ++ l)
  | [], acc => by simp
  | p :: ps, acc => by
    simp only [List.foldl_cons]
    refine (foldl_insert_perm ps (insertByDate p acc)).trans ?_
    refine ((insertByDate_perm p acc).append_right ps).trans ?_
    simpa using (List.perm_middle (a := p) (l₁ := acc) (l₂ := ps)).symm

theorem foldl_insert_sorted : ∀ (l acc : List (Nat × Int)), acc.Pairwise (fun a b => a.2 ≤ b.2) →
    (l.foldl (fun acc p => insertByDate p acc) acc).Pairwise (fun a b => a.2 ≤ b.2)
  | [], _, h => h
  | p :: ps, acc, h => foldl_insert_sorted ps _ (insertByDate_sorted p acc h)

theorem sortByDate_perm (l : List (Nat × Int)) : (sortByDate l).Perm l := by
  simpa [sortByDate] using foldl_insert_perm l []

theorem sortByDate_sorted (l : List (Nat × Int)) : (sortByDate l).Pairwise (fun a b => a.2 ≤ b.2) :=
  foldl_insert_sorted l [] List.Pairwise.nil

/-! ### `find_period` on a fresh interval, and `flush` -/

theorem afterFinish_false {fin : Option Int} {d : Int} (h : ∀ f, fin = some f → d < f) : afterFinish fin d = false := by
  cases fin with
  | none => rfl
  | some f => have := h f rfl; simp [afterFinish]; omega

/-- `find_period` on a fresh interval for a date inside the bounds: true, and the interval
    found satisfies the invariant and contains the date. -/
theorem findPeriod_fresh (sow : Int) (h0 : 0 ≤ sow) (h6 : sow ≤ 6) (align allow : Bool) (iv0 : Interval) (hfr : Fresh iv0)
    (hpos : 0 < iv0.duration.length) (d : Int)
    (hbd : ∀ b, iv0.rangeBegin = some b → b ≤ d) (hdf : ∀ f, iv0.rangeEnd = some f → d < f) :
    ∃ iv1 u, findPeriod sow d align allow iv0 = .ok (true, iv1) ∧ Inv iv1 ∧
      iv1.start = some (clippedStart u iv0.rangeBegin) ∧ iv1.finish = iv0.rangeEnd ∧
      iv1.eod = some (clipTo (iv0.duration.add u) iv0.rangeEnd) ∧ iv1.duration = iv0.duration ∧
      u ≤ d ∧ d < iv0.duration.add u ∧ clippedStart u iv0.rangeBegin ≤ d ∧
      ((align && iv0.sinceSpecified) = true → u = d) ∧
      ((align && iv0.sinceSpecified) = false → AlignedDate sow iv0.duration.quantum u) := by
  obtain ⟨iv1, u, hst, hinv, hs, hf, he, hdur, _, _, hu1, hu2, hA, hB⟩ :=
    stabilize_fresh_inv sow h0 h6 align iv0 hfr hpos d hbd hdf
  have hcl := clippedStart_le u d iv0.rangeBegin hu1 hbd
  refine ⟨iv1, u, ?_, hinv, hs, hf, he, hdur, hu1, hu2, hcl, hA, hB⟩
  have haf : afterFinish iv1.finish d = false := afterFinish_false (by rw [hf]; exact hdf)
  have hlt : d < clipTo (iv0.duration.add u) iv0.rangeEnd := clipTo_lt hu2 hdf
  have hns : ¬ (d < clippedStart u iv0.rangeBegin) := by omega
  unfold findPeriod
  rw [hst]
  simp only [haf, hs, he, hns, hlt, Bool.false_eq_true, if_false, if_true]

theorem pairwise_head_le {p : Nat × Int} {ps : List (Nat × Int)} (h : (p :: ps).Pairwise (fun a b => a.2 ≤ b.2)) :
    ∀ q ∈ p :: ps, p.2 ≤ q.2 := by
  intro q hq
  rw [List.pairwise_cons] at h
  rw [List.mem_cons] at hq
  rcases hq with rfl | hq
  · exact Int.le_refl _
  · exact h.1 q hq

/-- `interval_posts::flush` on postings dated inside a non-empty range: it reports without
    error, every row holds only postings dated inside the row's interval, and the rows
    taken together hold exactly the postings, in date order. -/
theorem flush_spec (sow : Int) (h0 : 0 ≤ sow) (h6 : sow ≤ 6) (align empty : Bool) (iv0 : Interval) (hfr : Fresh iv0)
    (hpos : 0 < iv0.duration.length) (posts : List (Nat × Int))
    (hbf : ∀ b f, iv0.rangeBegin = some b → iv0.rangeEnd = some f → b < f)
    (hlo : ∀ p ∈ posts, ∀ b, iv0.rangeBegin = some b → b ≤ p.2)
    (hhi : ∀ p ∈ posts, ∀ f, iv0.rangeEnd = some f → p.2 < f) :
    ∃ gs, flush sow align empty iv0 posts = .ok gs ∧ (∀ g ∈ gs, GroupOk g) ∧
      gs.flatMap Group.members = sortByDate posts := by
  have hperm := sortByDate_perm posts
  have hsorted := sortByDate_sorted posts
  have hlo' : ∀ p ∈ sortByDate posts, ∀ b, iv0.rangeBegin = some b → b ≤ p.2 :=
    fun p hp => hlo p (hperm.mem_iff.1 hp)
  have hhi' : ∀ p ∈ sortByDate posts, ∀ f, iv0.rangeEnd = some f → p.2 < f :=
    fun p hp => hhi p (hperm.mem_iff.1 hp)
  have hcur : ∀ iv, CurOk iv [] := by intro iv m hm; cases hm
  unfold flush
  simp only [Interval.begin, hfr.start]
  cases hrb : iv0.rangeBegin with
  | some b =>
    simp only
    obtain ⟨iv1, u, hfp, hinv, hs, hf, _, _, _, _, hle, _⟩ := findPeriod_fresh sow h0 h6 align true iv0 hfr hpos b
      (by intro b' hb'; rw [hrb] at hb'; cases hb'; exact Int.le_refl _) (fun f hf => hbf b f hrb hf)
    rw [hfp]
    simp only
    obtain ⟨gs, hw⟩ := walk_ok sow empty (sortByDate posts) iv1 [] _ hinv (hcur iv1) hs hsorted
      (by intro p hp; have := hlo' p hp b hrb; omega)
      (by intro p hp f hf'; rw [hf] at hf'; exact hhi' p hp f hf')
    refine ⟨gs, hw, walk_groups sow empty _ iv1 [] gs hinv (hcur iv1) hw, ?_⟩
    simpa using walk_flat sow empty _ iv1 [] gs hw
  | none =>
    simp only
    cases hsp : sortByDate posts with
    | nil => exact ⟨[], rfl, (by intro g hg; cases hg), rfl⟩
    | cons p ps =>
      simp only
      rw [hsp] at hsorted hlo' hhi'
      obtain ⟨iv1, u, hfp, hinv, hs, hf, _, _, hu1, _⟩ := findPeriod_fresh sow h0 h6 align true iv0 hfr hpos p.2
        (by intro b' hb'; rw [hrb] at hb'; cases hb') (fun f hf => hhi' p (List.mem_cons_self ..) f hf)
      rw [hfp]
      simp only
      rw [hrb] at hs
      simp only [clippedStart] at hs
      obtain ⟨gs, hw⟩ := walk_ok sow empty (p :: ps) iv1 [] u hinv (hcur iv1) hs hsorted
        (by intro q hq; have := pairwise_head_le hsorted q hq; omega)
        (by intro q hq f hf'; rw [hf] at hf'; exact hhi' q hq f hf')
      refine ⟨gs, hw, walk_groups sow empty _ iv1 [] gs hinv (hcur iv1) hw, ?_⟩
      simpa using walk_flat sow empty _ iv1 [] gs hw

/-- Whatever `flush` reports, the rows taken together hold exactly the postings in date order. -/
theorem flush_flat {sow : Int} {align empty : Bool} {iv0 : Interval} {posts : List (Nat × Int)} {gs : List Group}
    (h : flush sow align empty iv0 posts = .ok gs) : gs.flatMap Group.members = sortByDate posts := by
  unfold flush at h
  simp only at h
  split at h
  · cases h
  · rename_i iv1 _
    simpa using walk_flat sow empty _ iv1 [] gs h
  · rename_i iv1 _
    split at h
    · rename_i hnil
      simp only [Except.ok.injEq] at h
      rw [← h, hnil]; rfl
    · rename_i p ps hcons
      split at h
      · cases h
      · cases h
      · rename_i iv2 _
        simpa using walk_flat sow empty _ iv2 [] gs h

/-! ### sums -/

theorem total_append {α : Type} (f : α → Rat) : ∀ (l m : List α), total f (l ++ m) = total f l + total f m
  | [], m => by simp [total]; grind
  | x :: xs, m => by simp only [List.cons_append, total, total_append f xs m]; grind

theorem total_perm {α : Type} (f : α → Rat) {l m : List α} (h : l.Perm m) : total f l = total f m := by
  induction h with
  | nil => rfl
  | cons x _ ih => simp only [total, ih]
  | swap x y l => simp only [total]; grind
  | trans _ _ ih1 ih2 => exact ih1.trans ih2

theorem total_flatMap {α β : Type} (f : β → Rat) (g : α → List β) :
    ∀ l : List α, total f (l.flatMap g) = total (fun a => total f (g a)) l
  | [] => rfl
  | x :: xs => by simp only [List.flatMap_cons, total_append, total, total_flatMap f g xs]

/-! ### later starts are whole durations after the unclipped first start -/

/-- k durations after `v` -/
def stepsFrom (dur : Duration) : Nat → Int → Int
  | 0, v => v
  | k + 1, v => stepsFrom dur k (dur.add v)

theorem stepsFrom_aligned (sow : Int) (dur : Duration) : ∀ (k : Nat) (v : Int),
    AlignedDate sow dur.quantum v → AlignedDate sow dur.quantum (stepsFrom dur k v)
  | 0, _, h => h
  | k + 1, v, h => stepsFrom_aligned sow dur k _ (add_aligned sow dur v h)

/-- If the current `next` is one duration after `v` (possibly cut at `finish`), the start
    after k+1 increments is k+1 durations after `v`. -/
theorem iter_starts : ∀ (k : Nat) {iv ivk : Interval} {v s : Int}, Inv iv →
    (iv.next = some (iv.duration.add v) ∨ iv.next = some (clipTo (iv.duration.add v) iv.finish)) →
    iter (k + 1) iv = .ok ivk → ivk.start = some s → s = stepsFrom iv.duration (k + 1) v
  | k, iv, ivk, v, s, h, hnx, hi, hs => by
    simp only [iter] at hi
    cases hinc : incr iv with
    | error err => rw [hinc] at hi; cases hi
    | ok iv1 =>
      rw [hinc] at hi
      obtain ⟨s0, nx, hs0, hn, hlt, heod, hc⟩ := incr_cases h hinc
      rcases hc with ⟨hltf, rfl⟩ | ⟨_, rfl⟩
      · have hnxv : nx = iv.duration.add v := by
          rcases hnx with hnx | hnx
          · rw [hn] at hnx; cases hnx; rfl
          · rw [hn] at hnx
            simp only [Option.some.injEq] at hnx
            cases hf : iv.finish with
            | none => rw [hf] at hnx; simpa [clipTo] using hnx
            | some f =>
              have := hltf f hf
              rw [hf] at hnx
              simp only [clipTo] at hnx
              split at hnx <;> omega
        subst hnxv
        cases k with
        | zero =>
          simp only [iter] at hi; cases hi
          simp only at hs; cases hs; rfl
        | succ k =>
          have h1 := inv_incr_step h hltf
          have := iter_starts k h1 (Or.inr rfl) hi hs
          simpa [stepsFrom] using this
      · cases k with
        | zero => simp only [iter] at hi; cases hi; simp at hs
        | succ k => simp [iter, incr] at hi

theorem clippedStart_cases (u : Int) (rb : Option Int) :
    clippedStart u rb = u ∨ (rb = some (clippedStart u rb) ∧ u < clippedStart u rb) := by
  cases rb with
  | none => left; rfl
  | some b =>
    simp only [clippedStart]
    split
    · right; rename_i h; exact ⟨rfl, h⟩
    · left; rfl

theorem clipTo_cases (x : Int) (re : Option Int) :
    clipTo x re = x ∨ (re = some (clipTo x re) ∧ clipTo x re < x) := by
  cases re with
  | none => left; rfl
  | some f =>
    simp only [clipTo]
    split
    · right; exact ⟨rfl, by omega⟩
    · left; rfl

/-- `++` never changes `finish` or the duration. -/
theorem iter_fields : ∀ (k : Nat) {iv ivk : Interval}, Inv iv → iter k iv = .ok ivk →
    ivk.finish = iv.finish ∧ ivk.duration = iv.duration
  | 0, iv, ivk, _, hk => by simp only [iter] at hk; cases hk; exact ⟨rfl, rfl⟩
  | k + 1, iv, ivk, h, hk => by
    simp only [iter] at hk
    cases hinc : incr iv with
    | error err => rw [hinc] at hk; cases hk
    | ok iv2 =>
      rw [hinc] at hk
      obtain ⟨_, _, _, _, _, _, hc⟩ := incr_cases h hinc
      have h2 := inv_incr h hinc
      have := iter_fields k h2 hk
      rcases hc with ⟨_, rfl⟩ | ⟨_, rfl⟩ <;> exact this

/-! ### length 0: the measure of the `stabilize` loop does not decrease -/

theorem addMonths_zero (n : Int) : addMonths n 0 = n := by
  have hv := toYMD_valid n
  have hinv := ofYMD_toYMD n
  unfold addMonths
  generalize toYMD n = r at hv hinv
  obtain ⟨y, m, d⟩ := r
  simp only at hv hinv ⊢
  simp only [validYMD, decide_eq_true_eq, Bool.and_eq_true, Bool.decide_and] at hv
  have e1 : (y * 12 + (m - 1) + 0) / 12 = y := by omega
  have e2 : (y * 12 + (m - 1) + 0) % 12 + 1 = m := by omega
  rw [e1, e2]
  have : (if d = daysInMonth y m then daysInMonth y m else if d > daysInMonth y m then daysInMonth y m else d) = d := by
    split
    · rename_i h; exact h.symm
    · split <;> omega
  rw [this]; exact hinv

theorem add_zero_length (d : Duration) (n : Int) (h : d.length = 0) : d.add n = n := by
  unfold Duration.add addYears
  rw [h]
  cases d.quantum <;> simp [addMonths_zero]

/-- With length 0 no amount of fuel lets the `stabilize` loop finish when the first
    candidate start lies before the date: the C++ loop does not terminate. -/
theorem stabLoop_zero_diverges (iv0 : Interval) (hf : iv0.finish = none) (hz : iv0.duration.length = 0)
    (d s : Int) (hlt : s < d) :
    ∀ (fuel : Nat) (x : Option Int), (x = none ∨ x = some (iv0.duration.add s)) →
      stabLoop d fuel { iv0 with start := some s, eod := x, next := x } = .error .diverges
  | 0, _, _ => rfl
  | fuel + 1, x, hx => by
    simp only [stabLoop, hlt, if_true]
    rw [incr_unbounded iv0 hf s x hx]
    have ha : iv0.duration.add s = s := add_zero_length _ _ hz
    simp only [ha]
    have hle : s ≤ d := by omega
    simp only [hle, if_true]
    exact stabLoop_zero_diverges iv0 hf hz d s hlt fuel (some s) (Or.inr (by rw [ha]))

/-- `monthly from 2020/01/01 to 2020/03/15`, stabilized on its `from` date:
    [2020-01-01, 2020-02-01), `finish` 2020-03-15 (day numbers since 1970-01-01).
    Witness of `C13.find_period_at_finish`. -/
def witnessInterval : Interval :=
  { rangeBegin := some 18262, rangeEnd := some 18336, start := some 18262, finish := some 18336, aligned := true,
    next := some 18293, duration := { quantum := .months, length := 1 }, eod := some 18293, sinceSpecified := true }

end Ledger.Period
