/-
Lemmas for the route choice on general price graphs (Model/PriceRoute.lean): the
functional rendering of boost's Dijkstra with `distance_combine = max` computes, for every
order in which equally distant vertices are popped, the least bottleneck (age of the
oldest price) over all routes, and its predecessor chain is a simple route attaining it.
-/
import LedgerModel.Model.PriceRoute
import LedgerModel.Lemmas.Prices

namespace Ledger.Prices

/-! ### distances -/

theorem Dist.le_some_some (x y : Int) : Dist.le (some x) (some y) = true ↔ x ≤ y := by
  simp [Dist.le, Dist.lt]

theorem Dist.le_none (a : Dist) : Dist.le a none = true := by
  cases a <;> simp [Dist.le, Dist.lt]

theorem Dist.le_refl (a : Dist) : Dist.le a a = true := by
  cases a <;> simp [Dist.le, Dist.lt]

theorem Dist.le_trans {a b c : Dist} (h1 : Dist.le a b = true) (h2 : Dist.le b c = true) :
    Dist.le a c = true := by
  cases a <;> cases b <;> cases c <;> simp_all [Dist.le, Dist.lt] <;> omega

theorem Dist.le_of_lt {a b : Dist} (h : Dist.lt a b = true) : Dist.le a b = true := by
  cases a <;> cases b <;> simp_all [Dist.le, Dist.lt] <;> omega

theorem Dist.le_of_not_lt {a b : Dist} (h : Dist.lt a b = false) : Dist.le b a = true := by
  simp [Dist.le, h]

theorem Dist.le_total (a b : Dist) : Dist.le a b = true ∨ Dist.le b a = true := by
  cases a <;> cases b <;> simp [Dist.le, Dist.lt] <;> omega

theorem Dist.lt_none_iff (a : Dist) : Dist.lt a none = true ↔ a ≠ none := by
  cases a <;> simp [Dist.lt]

theorem combineMax_some (d w : Int) : combineMax (some d) w = some (max d w) := rfl

theorem Dist.le_combineMax (d : Dist) (w : Int) : Dist.le d (combineMax d w) = true := by
  cases d with
  | none => simp [combineMax, Dist.le, Dist.lt]
  | some x => simp only [combineMax_some, Dist.le_some_some]; omega

theorem combineMax_mono {a b : Dist} (w : Int) (h : Dist.le a b = true) :
    Dist.le (combineMax a w) (combineMax b w) = true := by
  cases a <;> cases b <;> simp_all [combineMax, Dist.le, Dist.lt] <;> omega

/-! ### `upd` -/

@[simp] theorem upd_same {β : Type} (f : Comm → β) (k : Comm) (x : β) : upd f k x k = x := by
  simp [upd]

theorem upd_other {β : Type} (f : Comm → β) {k y : Comm} (x : β) (h : y ≠ k) : upd f k x y = f y := by
  simp [upd, h]

/-! ### `firstMin` / `popChoice` return a gray vertex of least distance -/

theorem firstMin_spec (key : Comm → Dist) :
    ∀ (qs : List Comm) (q : Comm),
      firstMin key q qs ∈ q :: qs ∧ Dist.le (key (firstMin key q qs)) (key q) = true ∧
      ∀ z ∈ qs, Dist.le (key (firstMin key q qs)) (key z) = true := by
  intro qs
  induction qs with
  | nil => intro q; simp [firstMin, Dist.le_refl]
  | cons z zs ih =>
    intro q
    simp only [firstMin]
    split
    · rename_i hlt
      have ⟨h1, h2, h3⟩ := ih z
      refine ⟨?_, Dist.le_trans h2 (Dist.le_of_lt hlt), ?_⟩
      · rcases List.mem_cons.mp h1 with h | h
        · simp [h]
        · exact List.mem_cons_of_mem _ (List.mem_cons_of_mem _ h)
      · intro y hy
        rcases List.mem_cons.mp hy with rfl | hy
        · exact h2
        · exact h3 y hy
    · rename_i hlt
      have hlt' : Dist.lt (key z) (key q) = false := by simpa using hlt
      have ⟨h1, h2, h3⟩ := ih q
      refine ⟨?_, h2, ?_⟩
      · rcases List.mem_cons.mp h1 with h | h
        · simp [h]
        · exact List.mem_cons_of_mem _ (List.mem_cons_of_mem _ h)
      · intro y hy
        rcases List.mem_cons.mp hy with rfl | hy
        · exact Dist.le_trans h2 (Dist.le_of_not_lt hlt')
        · exact h3 y hy

theorem popChoice_spec {s : DState} {u : Comm} (h : popChoice s = some u) :
    u ∈ s.queue ∧ ∀ z ∈ s.queue, Dist.le (s.dist u) (s.dist z) = true := by
  unfold popChoice at h
  split at h
  · cases h
  · rename_i q qs hq
    have hfm : firstMin s.dist q qs ∈ s.queue ∧
        ∀ z ∈ s.queue, Dist.le (s.dist (firstMin s.dist q qs)) (s.dist z) = true := by
      have ⟨h1, h2, h3⟩ := firstMin_spec s.dist qs q
      rw [hq]
      refine ⟨h1, ?_⟩
      intro z hz
      rcases List.mem_cons.mp hz with rfl | hz
      · exact h2
      · exact h3 z hz
    split at h
    · rename_i t ht
      split at h
      · rename_i hc
        cases h
        simp only [Bool.and_eq_true, List.contains_eq_mem, decide_eq_true_eq, isMinOf, List.all_eq_true] at hc
        rw [hq]
        exact ⟨hc.1, hc.2⟩
      · cases h; exact hfm
    · cases h; exact hfm

theorem popChoice_none_iff (s : DState) : popChoice s = none ↔ s.queue = [] := by
  unfold popChoice
  split
  · rename_i h; simp [h]
  · rename_i q qs h
    simp only [h]
    constructor
    · intro h'
      split at h'
      · split at h' <;> cases h'
      · cases h'
    · intro h'; cases h'

theorem popChoice_ok : ChoiceOk popChoice :=
  { spec := fun _ _ h => popChoice_spec h, none_iff := popChoice_none_iff }

/-! ### routes as lists of steps -/

/-- `steps` is a walk starting at `x`: every step is an out-edge of the vertex reached so far. -/
def IsPath (out : Comm → List (Comm × Int)) : Comm → List (Comm × Int) → Prop
  | _, [] => True
  | x, e :: rest => e ∈ out x ∧ IsPath out e.1 rest

def endOf : Comm → List (Comm × Int) → Comm
  | x, [] => x
  | _, e :: rest => endOf e.1 rest

/-- the greatest weight on the walk, at least `m` -/
def bnFrom (m : Int) (steps : List (Comm × Int)) : Int := steps.foldl (fun m e => max m e.2) m

theorem isPath_append (out : Comm → List (Comm × Int)) :
    ∀ (a b : List (Comm × Int)) (x : Comm),
      IsPath out x (a ++ b) ↔ IsPath out x a ∧ IsPath out (endOf x a) b := by
  intro a
  induction a with
  | nil => intro b x; simp [IsPath, endOf]
  | cons e rest ih =>
    intro b x
    simp only [List.cons_append, IsPath, endOf, ih, and_assoc]

theorem endOf_append : ∀ (a b : List (Comm × Int)) (x : Comm), endOf x (a ++ b) = endOf (endOf x a) b := by
  intro a
  induction a with
  | nil => intro b x; rfl
  | cons e rest ih => intro b x; simp only [List.cons_append, endOf, ih]

theorem bnFrom_append (m : Int) (a b : List (Comm × Int)) : bnFrom m (a ++ b) = bnFrom (bnFrom m a) b := by
  simp [bnFrom, List.foldl_append]

theorem bnFrom_mono : ∀ (steps : List (Comm × Int)) (m m' : Int), m ≤ m' → bnFrom m steps ≤ bnFrom m' steps := by
  intro steps
  induction steps with
  | nil => intro m m' h; simpa [bnFrom] using h
  | cons e rest ih =>
    intro m m' h
    simp only [bnFrom, List.foldl_cons]
    exact ih _ _ (by omega)

theorem le_bnFrom : ∀ (steps : List (Comm × Int)) (m : Int), m ≤ bnFrom m steps := by
  intro steps
  induction steps with
  | nil => intro m; simp [bnFrom]
  | cons e rest ih =>
    intro m
    simp only [bnFrom, List.foldl_cons]
    have := ih (max m e.2)
    simp only [bnFrom] at this
    omega

/-! ### the invariant of the main loop -/

/-- what relaxing the out-edge `e` of a black `x` guarantees -/
def EdgeDone (s : DState) (x : Comm) (e : Comm × Int) : Prop :=
  s.color e.1 ≠ .white ∧ Dist.le (s.dist e.1) (combineMax (s.dist x) e.2) = true

/-- Invariant between two iterations (`pend = fun _ _ => False`) and inside the walk over
    the out-edges of `u` (`pend x e = (x = u ∧ e ∈ rest)`). -/
structure DInv (out : Comm → List (Comm × Int)) (src : Comm) (pend : Comm → Comm × Int → Prop) (s : DState) : Prop where
  srcDist : s.dist src = some 0
  srcColor : s.color src ≠ .white
  srcPred : s.pred src = src
  qNodup : s.queue.Nodup
  qGray : ∀ v, v ∈ s.queue ↔ s.color v = .gray
  whiteDist : ∀ v, s.color v = .white ↔ s.dist v = none
  whitePred : ∀ v, s.color v = .white → s.pred v = v
  nonneg : ∀ v d, s.dist v = some d → 0 ≤ d
  blackEdges : ∀ x, s.color x = .black → ∀ e ∈ out x, pend x e ∨ EdgeDone s x e
  order : ∀ x z, s.color x = .black → s.color z = .gray → Dist.le (s.dist x) (s.dist z) = true
  predOk : ∀ v, s.color v ≠ .white → v ≠ src →
    s.color (s.pred v) = .black ∧ ∃ wt, (v, wt) ∈ out (s.pred v) ∧ s.dist v = combineMax (s.dist (s.pred v)) wt
  rankLt : ∀ x, s.color x = .black → s.rank x < s.time
  rankPred : ∀ v, s.color v = .black → v ≠ src → s.rank (s.pred v) < s.rank v

/-- extra facts while the out-edges of `u` are walked -/
structure DMid (out : Comm → List (Comm × Int)) (u : Comm) (rest : List (Comm × Int)) (s : DState) : Prop where
  uBlack : s.color u = .black
  uMax : ∀ x, s.color x = .black → Dist.le (s.dist x) (s.dist u) = true
  restSub : ∀ e ∈ rest, e ∈ out u

theorem dinit_inv (out : Comm → List (Comm × Int)) (src : Comm) : DInv out src (fun _ _ => False) (dinit src) := by
  refine { srcDist := by simp [dinit], srcColor := by simp [dinit], srcPred := rfl,
           qNodup := by simp [dinit], qGray := ?_, whiteDist := ?_, whitePred := fun _ _ => rfl,
           nonneg := ?_, blackEdges := ?_, order := ?_, predOk := ?_, rankLt := ?_, rankPred := ?_ }
  · intro v
    by_cases h : v = src
    · subst h; simp [dinit]
    · simp [dinit, upd_other _ _ h, h]
  · intro v
    by_cases h : v = src
    · subst h; simp [dinit]
    · simp [dinit, upd_other _ _ h]
  · intro v d hd
    by_cases h : v = src
    · subst h; simp [dinit] at hd; omega
    · simp [dinit, upd_other _ _ h] at hd
  · intro x hx
    by_cases h : x = src
    · subst h; simp [dinit] at hx
    · simp [dinit, upd_other _ _ h] at hx
  · intro x z hx
    by_cases h : x = src
    · subst h; simp [dinit] at hx
    · simp [dinit, upd_other _ _ h] at hx
  · intro v hv hne
    simp [dinit, upd_other _ _ hne] at hv
  · intro x hx
    by_cases h : x = src
    · subst h; simp [dinit] at hx
    · simp [dinit, upd_other _ _ h] at hx
  · intro x hx
    by_cases h : x = src
    · subst h; simp [dinit] at hx
    · simp [dinit, upd_other _ _ h] at hx

def pendOf (u : Comm) (rest : List (Comm × Int)) : Comm → Comm × Int → Prop := fun x e => x = u ∧ e ∈ rest

theorem DInv.mono_pend {out : Comm → List (Comm × Int)} {src : Comm} {pend pend' : Comm → Comm × Int → Prop} {s : DState}
    (h : DInv out src pend s) (hp : ∀ x e, pend x e → pend' x e ∨ EdgeDone s x e) : DInv out src pend' s := by
  refine { srcDist := h.srcDist, srcColor := h.srcColor, srcPred := h.srcPred, qNodup := h.qNodup, qGray := h.qGray,
           whiteDist := h.whiteDist, whitePred := h.whitePred, nonneg := h.nonneg, blackEdges := ?_, order := h.order,
           predOk := h.predOk, rankLt := h.rankLt, rankPred := h.rankPred }
  intro x hx e he
  rcases h.blackEdges x hx e he with h' | h'
  · exact hp x e h'
  · exact Or.inr h'

/-- `Q.top(); Q.pop()` and marking the vertex black. -/
theorem pop_inv {out : Comm → List (Comm × Int)} {src : Comm} {s : DState} {u : Comm}
    (hI : DInv out src (fun _ _ => False) s) (hu : u ∈ s.queue)
    (hmin : ∀ z ∈ s.queue, Dist.le (s.dist u) (s.dist z) = true)
    (s1 : DState) (hd : s1.dist = s.dist) (hp : s1.pred = s.pred)
    (hc : s1.color = upd s.color u .black) (hq : s1.queue = s.queue.erase u)
    (hr : s1.rank = upd s.rank u s.time) (ht : s1.time = s.time + 1) :
    DInv out src (pendOf u (out u)) s1 ∧ DMid out u (out u) s1 := by
  have hug : s.color u = .gray := (hI.qGray u).mp hu
  have hcol : ∀ y, y ≠ u → s1.color y = s.color y := fun y hy => by rw [hc, upd_other _ _ hy]
  have hcu : s1.color u = .black := by rw [hc, upd_same]
  have hblack : ∀ x, s1.color x = .black → x = u ∨ (x ≠ u ∧ s.color x = .black) := by
    intro x hx
    by_cases h : x = u
    · exact Or.inl h
    · exact Or.inr ⟨h, by rw [← hcol x h]; exact hx⟩
  have hnw : ∀ y, s1.color y ≠ .white → s.color y ≠ .white := by
    intro y hy
    by_cases h : y = u
    · subst h; rw [hug]; simp
    · rw [← hcol y h]; exact hy
  have hnw' : ∀ y, s.color y ≠ .white → s1.color y ≠ .white := by
    intro y hy
    by_cases h : y = u
    · subst h; rw [hcu]; simp
    · rw [hcol y h]; exact hy
  have hpredBlack : ∀ v, s.color v ≠ .white → v ≠ src → s.pred v ≠ u := by
    intro v hv hne h
    have := (hI.predOk v hv hne).1
    rw [h, hug] at this
    cases this
  refine ⟨{ srcDist := by rw [hd]; exact hI.srcDist, srcColor := hnw' _ hI.srcColor, srcPred := by rw [hp]; exact hI.srcPred,
            qNodup := by rw [hq]; exact hI.qNodup.erase u, qGray := ?_, whiteDist := ?_, whitePred := ?_,
            nonneg := by rw [hd]; exact hI.nonneg, blackEdges := ?_, order := ?_, predOk := ?_, rankLt := ?_, rankPred := ?_ },
          { uBlack := hcu, uMax := ?_, restSub := fun _ h => h }⟩
  · intro v
    rw [hq]
    by_cases h : v = u
    · subst h
      rw [hcu]
      simp [List.Nodup.mem_erase_iff hI.qNodup]
    · rw [List.mem_erase_of_ne h, hcol v h]; exact hI.qGray v
  · intro v
    rw [hd]
    by_cases h : v = u
    · subst h
      rw [hcu]
      have : s.dist v ≠ none := by
        intro hn
        have := (hI.whiteDist v).mpr hn
        rw [hug] at this; cases this
      simp [this]
    · rw [hcol v h]; exact hI.whiteDist v
  · intro v hv
    rw [hp]
    by_cases h : v = u
    · subst h; rw [hcu] at hv; cases hv
    · rw [hcol v h] at hv; exact hI.whitePred v hv
  · intro x hx e he
    rcases hblack x hx with rfl | ⟨hne, hxb⟩
    · exact Or.inl ⟨rfl, he⟩
    · rcases hI.blackEdges x hxb e he with h | h
      · exact absurd h (by simp)
      · exact Or.inr ⟨hnw' _ h.1, by rw [hd]; exact h.2⟩
  · intro x z hx hz
    have hzu : z ≠ u := by intro h; subst h; rw [hcu] at hz; cases hz
    have hzg : s.color z = .gray := by rw [← hcol z hzu]; exact hz
    rw [hd]
    rcases hblack x hx with rfl | ⟨_, hxb⟩
    · exact hmin z ((hI.qGray z).mpr hzg)
    · exact hI.order x z hxb hzg
  · intro v hv hne
    have hv' := hnw v hv
    have ⟨h1, wt, h2, h3⟩ := hI.predOk v hv' hne
    rw [hp, hd]
    refine ⟨?_, wt, h2, h3⟩
    rw [hcol _ (hpredBlack v hv' hne)]; exact h1
  · intro x hx
    rw [hr, ht]
    rcases hblack x hx with rfl | ⟨hne, hxb⟩
    · rw [upd_same]; omega
    · rw [upd_other _ _ hne]; have := hI.rankLt x hxb; omega
  · intro v hv hne
    rw [hr, hp]
    rcases hblack v hv with rfl | ⟨hvu, hvb⟩
    · have hpu := hpredBlack v (by rw [hug]; simp) hne
      have hpb := (hI.predOk v (by rw [hug]; simp) hne).1
      rw [upd_same, upd_other _ _ hpu]
      exact hI.rankLt _ hpb
    · have hvw : s.color v ≠ .white := by rw [hvb]; simp
      have hpu := hpredBlack v hvw hne
      rw [upd_other _ _ hvu, upd_other _ _ hpu]
      exact hI.rankPred v hvb hne
  · intro x hx
    rw [hd]
    rcases hblack x hx with rfl | ⟨_, hxb⟩
    · exact Dist.le_refl _
    · exact hI.order x u hxb hug

/-- the out-edge needs no change (black target, or a gray target that is not improved) -/
theorem relax_keep {out : Comm → List (Comm × Int)} {src u : Comm} {e : Comm × Int} {rest : List (Comm × Int)} {s : DState}
    (hI : DInv out src (pendOf u (e :: rest)) s) (hM : DMid out u (e :: rest) s) (hdone : EdgeDone s u e) :
    DInv out src (pendOf u rest) s ∧ DMid out u rest s := by
  refine ⟨hI.mono_pend ?_, { uBlack := hM.uBlack, uMax := hM.uMax, restSub := fun x hx => hM.restSub x (List.mem_cons_of_mem _ hx) }⟩
  intro x e' hp
  obtain ⟨rfl, hmem⟩ := hp
  rcases List.mem_cons.mp hmem with rfl | hmem
  · exact Or.inr hdone
  · exact Or.inl ⟨rfl, hmem⟩

/-- `relax_target` succeeded on a white or gray target `v`: `d_v := max(d_u, w)`, `p_v := u`,
    and a white target turns gray and is pushed. -/
theorem relax_update {out : Comm → List (Comm × Int)} {src u : Comm} {e : Comm × Int} {rest : List (Comm × Int)} {s s' : DState}
    (hI : DInv out src (pendOf u (e :: rest)) s) (hM : DMid out u (e :: rest) s)
    (du : Int) (hdu : s.dist u = some du)
    (hlt : Dist.lt (some (max du e.2)) (s.dist e.1) = true) (hnb : s.color e.1 ≠ .black)
    (hd : ∀ y, s'.dist y = if y = e.1 then some (max du e.2) else s.dist y)
    (hp : ∀ y, s'.pred y = if y = e.1 then u else s.pred y)
    (hc : ∀ y, s'.color y = if y = e.1 then Color.gray else s.color y)
    (hq : s'.queue = if s.color e.1 = .white then s.queue ++ [e.1] else s.queue)
    (hr : s'.rank = s.rank) (ht : s'.time = s.time) :
    DInv out src (pendOf u rest) s' ∧ DMid out u rest s' := by
  obtain ⟨v, wt⟩ := e
  simp only at hlt hnb hd hp hc hq
  have hvu : v ≠ u := by intro h; subst h; exact hnb hM.uBlack
  have hdu0 : 0 ≤ du := hI.nonneg u du hdu
  have hvsrc : v ≠ src := by
    intro h; subst h
    rw [hI.srcDist] at hlt
    simp [Dist.lt] at hlt
    omega
  have hdo : ∀ y, y ≠ v → s'.dist y = s.dist y := fun y hy => by rw [hd, if_neg hy]
  have hdv : s'.dist v = some (max du wt) := by rw [hd, if_pos rfl]
  have hpo : ∀ y, y ≠ v → s'.pred y = s.pred y := fun y hy => by rw [hp, if_neg hy]
  have hpv : s'.pred v = u := by rw [hp, if_pos rfl]
  have hco : ∀ y, y ≠ v → s'.color y = s.color y := fun y hy => by rw [hc, if_neg hy]
  have hcv : s'.color v = .gray := by rw [hc, if_pos rfl]
  have hblack : ∀ x, s'.color x = .black ↔ s.color x = .black := by
    intro x
    by_cases h : x = v
    · subst h; rw [hcv]; simp [hnb]
    · rw [hco x h]
  have hbv : ∀ x, s.color x = .black → x ≠ v := fun x hx h => by subst h; exact hnb hx
  have hnw : ∀ y, s.color y ≠ .white → s'.color y ≠ .white := by
    intro y hy
    by_cases h : y = v
    · subst h; rw [hcv]; simp
    · rw [hco y h]; exact hy
  have hgray : ∀ y, s'.color y = .gray ↔ (y = v ∨ s.color y = .gray) := by
    intro y
    by_cases h : y = v
    · subst h; simp [hcv]
    · rw [hco y h]; simp [h]
  have hdle : ∀ y, Dist.le (s'.dist y) (s.dist y) = true := by
    intro y
    by_cases h : y = v
    · subst h; rw [hdv]; exact Dist.le_of_lt hlt
    · rw [hdo y h]; exact Dist.le_refl _
  have hcand_ge : ∀ x, s.color x = .black → Dist.le (s.dist x) (some (max du wt)) = true := by
    intro x hx
    have h1 := hM.uMax x hx
    rw [hdu] at h1
    have h2 : Dist.le (some du) (some (max du wt)) = true := by rw [Dist.le_some_some]; omega
    exact Dist.le_trans h1 h2
  refine ⟨{ srcDist := by rw [hdo src (Ne.symm hvsrc)]; exact hI.srcDist, srcColor := hnw _ hI.srcColor,
            srcPred := by rw [hpo src (Ne.symm hvsrc)]; exact hI.srcPred,
            qNodup := ?_, qGray := ?_, whiteDist := ?_, whitePred := ?_, nonneg := ?_, blackEdges := ?_, order := ?_,
            predOk := ?_, rankLt := ?_, rankPred := ?_ },
          { uBlack := (hblack u).mpr hM.uBlack, uMax := ?_, restSub := fun x hx => hM.restSub x (List.mem_cons_of_mem _ hx) }⟩
  · rw [hq]
    split
    · rename_i hw
      have hvq : v ∉ s.queue := by
        intro h; have := (hI.qGray v).mp h; rw [hw] at this; cases this
      rw [List.nodup_append]
      refine ⟨hI.qNodup, by simp, ?_⟩
      intro a ha b hb hab
      simp at hb; subst hb; subst hab; exact hvq ha
    · exact hI.qNodup
  · intro y
    rw [hq, hgray]
    split
    · rename_i hw
      rw [List.mem_append, hI.qGray y]
      simp [or_comm]
    · rename_i hw
      have hvg : s.color v = .gray := by
        cases hcol : s.color v with
        | white => exact absurd hcol hw
        | gray => rfl
        | black => exact absurd hcol hnb
      rw [hI.qGray y]
      constructor
      · intro h; exact Or.inr h
      · rintro (rfl | h)
        · exact hvg
        · exact h
  · intro y
    by_cases h : y = v
    · subst h; rw [hcv, hdv]; simp
    · rw [hco y h, hdo y h]; exact hI.whiteDist y
  · intro y hy
    have h : y ≠ v := by intro h; subst h; rw [hcv] at hy; cases hy
    rw [hco y h] at hy
    rw [hpo y h]; exact hI.whitePred y hy
  · intro y d hy
    by_cases h : y = v
    · subst h; rw [hdv] at hy; cases hy; omega
    · rw [hdo y h] at hy; exact hI.nonneg y d hy
  · intro x hx e' he'
    have hxb := (hblack x).mp hx
    have hxv := hbv x hxb
    have keep : EdgeDone s x e' → EdgeDone s' x e' := by
      rintro ⟨h1, h2⟩
      refine ⟨hnw _ h1, ?_⟩
      rw [hdo x hxv]
      exact Dist.le_trans (hdle e'.1) h2
    rcases hI.blackEdges x hxb e' he' with ⟨rfl, hmem⟩ | h
    · rcases List.mem_cons.mp hmem with rfl | hmem
      · right
        refine ⟨by simp only; rw [hcv]; simp, ?_⟩
        simp only
        rw [hdv, hdo x hxv, hdu, combineMax_some]
        exact Dist.le_refl _
      · exact Or.inl ⟨rfl, hmem⟩
    · exact Or.inr (keep h)
  · intro x z hx hz
    have hxb := (hblack x).mp hx
    rw [hdo x (hbv x hxb)]
    rcases (hgray z).mp hz with rfl | hzg
    · rw [hdv]; exact hcand_ge x hxb
    · by_cases h : z = v
      · subst h; rw [hdv]; exact hcand_ge x hxb
      · rw [hdo z h]; exact hI.order x z hxb hzg
  · intro y hy hne
    by_cases h : y = v
    · subst h
      rw [hpv, hdv, hdo u (Ne.symm hvu), hdu]
      exact ⟨(hblack u).mpr hM.uBlack, wt, hM.restSub _ List.mem_cons_self, rfl⟩
    · have hy' : s.color y ≠ .white := by rw [← hco y h]; exact hy
      have ⟨h1, w', h2, h3⟩ := hI.predOk y hy' hne
      rw [hpo y h, hdo y h, hdo _ (hbv _ h1)]
      exact ⟨(hblack _).mpr h1, w', h2, h3⟩
  · intro x hx
    rw [hr, ht]; exact hI.rankLt x ((hblack x).mp hx)
  · intro y hy hne
    have hyb := (hblack y).mp hy
    rw [hr, hpo y (hbv y hyb)]
    exact hI.rankPred y hyb hne
  · intro x hx
    have hxb := (hblack x).mp hx
    rw [hdo x (hbv x hxb), hdo u (Ne.symm hvu)]
    exact hM.uMax x hxb

theorem dist_some_of_black {out : Comm → List (Comm × Int)} {src : Comm} {pend : Comm → Comm × Int → Prop} {s : DState}
    (hI : DInv out src pend s) {x : Comm} (hx : s.color x ≠ .white) : ∃ d, s.dist x = some d := by
  cases h : s.dist x with
  | none => exact absurd ((hI.whiteDist x).mpr h) hx
  | some d => exact ⟨d, rfl⟩

theorem relaxEdge_inv {out : Comm → List (Comm × Int)} {src u : Comm} {e : Comm × Int} {rest : List (Comm × Int)} {s : DState}
    (hI : DInv out src (pendOf u (e :: rest)) s) (hM : DMid out u (e :: rest) s) :
    DInv out src (pendOf u rest) (relaxEdge u s e) ∧ DMid out u rest (relaxEdge u s e) := by
  obtain ⟨du, hdu⟩ := dist_some_of_black hI (x := u) (by rw [hM.uBlack]; simp)
  generalize hs' : relaxEdge u s e = s'
  unfold relaxEdge at hs'
  cases hcol : s.color e.1 with
  | black =>
    simp only [hcol] at hs'
    subst hs'
    apply relax_keep hI hM
    refine ⟨by rw [hcol]; simp, ?_⟩
    exact Dist.le_trans (hM.uMax _ hcol) (Dist.le_combineMax _ _)
  | white =>
    have hdv : s.dist e.1 = none := (hI.whiteDist _).mp hcol
    have hlt : Dist.lt (some (max du e.2)) (s.dist e.1) = true := by rw [hdv]; rfl
    simp only [hcol, hdu, combineMax_some, hlt, if_true] at hs'
    subst hs'
    apply relax_update hI hM du hdu hlt (by rw [hcol]; simp)
    · intro y; simp [upd]
    · intro y; simp [upd]
    · intro y; simp [upd]
    · simp [hcol]
    · rfl
    · rfl
  | gray =>
    simp only [hcol, hdu, combineMax_some] at hs'
    by_cases hlt : Dist.lt (some (max du e.2)) (s.dist e.1) = true
    · simp only [hlt, if_true] at hs'
      subst hs'
      apply relax_update hI hM du hdu hlt (by rw [hcol]; simp)
      · intro y; simp [upd]
      · intro y; simp [upd]
      · intro y
        by_cases h : y = e.1
        · subst h; simp [hcol]
        · simp [h]
      · simp [hcol]
      · rfl
      · rfl
    · simp only [hlt] at hs'
      subst hs'
      apply relax_keep hI hM
      refine ⟨by rw [hcol]; simp, ?_⟩
      rw [hdu, combineMax_some]
      exact Dist.le_of_not_lt (by simpa using hlt)

theorem foldl_relax_inv {out : Comm → List (Comm × Int)} {src u : Comm} :
    ∀ (rest : List (Comm × Int)) (s : DState),
      DInv out src (pendOf u rest) s → DMid out u rest s →
      DInv out src (pendOf u []) (rest.foldl (relaxEdge u) s) ∧ DMid out u [] (rest.foldl (relaxEdge u) s) := by
  intro rest
  induction rest with
  | nil => intro s hI hM; exact ⟨hI, hM⟩
  | cons e rest ih =>
    intro s hI hM
    have ⟨h1, h2⟩ := relaxEdge_inv hI hM
    exact ih _ h1 h2

/-- one iteration of the main loop keeps the invariant -/
theorem dstep_inv {choose : DState → Option Comm} (hch : ChoiceOk choose) {out : Comm → List (Comm × Int)} {src : Comm} {s : DState}
    (hI : DInv out src (fun _ _ => False) s) : DInv out src (fun _ _ => False) (dstepW choose out s) := by
  unfold dstepW
  split
  · exact hI
  · rename_i u hu
    have ⟨hmem, hmin⟩ := hch.spec _ _ hu
    have ⟨h1, h2⟩ := pop_inv hI hmem hmin
      { s with color := upd s.color u .black, queue := s.queue.erase u,
               heap := if s.heap.head? = some u then heapPop s.dist s.heap else s.heap.erase u,
               rank := upd s.rank u s.time, time := s.time + 1 } rfl rfl rfl rfl rfl rfl
    have ⟨h3, _⟩ := foldl_relax_inv (out u) _ h1 h2
    exact h3.mono_pend (fun x e hp => absurd hp.2 (by simp))

theorem drun_inv {choose : DState → Option Comm} (hch : ChoiceOk choose) {out : Comm → List (Comm × Int)} {src : Comm} :
    ∀ (fuel : Nat) (s : DState), DInv out src (fun _ _ => False) s → DInv out src (fun _ _ => False) (drunW choose out fuel s) := by
  intro fuel
  induction fuel with
  | zero => intro s h; exact h
  | succ n ih =>
    intro s h
    simp only [drunW]
    split
    · exact h
    · exact ih _ (dstep_inv hch h)

/-! ### termination: every iteration blackens one more vertex of a finite universe -/

theorem relaxEdge_color (u : Comm) (s : DState) (e : Comm × Int) (x : Comm) :
    (relaxEdge u s e).color x = s.color x ∨ (x = e.1 ∧ s.color x = .white ∧ (relaxEdge u s e).color x = .gray) := by
  generalize hs' : relaxEdge u s e = s'
  unfold relaxEdge at hs'
  cases hcol : s.color e.1 with
  | black => simp only [hcol] at hs'; subst hs'; simp
  | white =>
    simp only [hcol] at hs'
    by_cases h : x = e.1
    · subst h; right
      refine ⟨rfl, hcol, ?_⟩
      split at hs' <;> (subst hs'; simp [upd])
    · left
      split at hs' <;> (subst hs'; simp [upd, h])
  | gray =>
    simp only [hcol] at hs'
    left
    split at hs' <;> (subst hs'; rfl)

theorem relaxEdge_time_rank (u : Comm) (s : DState) (e : Comm × Int) :
    (relaxEdge u s e).time = s.time ∧ (relaxEdge u s e).rank = s.rank := by
  generalize hs' : relaxEdge u s e = s'
  unfold relaxEdge at hs'
  cases hcol : s.color e.1 with
  | black => simp only [hcol] at hs'; subst hs'; simp
  | white => simp only [hcol] at hs'; split at hs' <;> (subst hs'; simp)
  | gray => simp only [hcol] at hs'; split at hs' <;> (subst hs'; simp)

theorem foldl_relax_color (u : Comm) :
    ∀ (es : List (Comm × Int)) (s : DState) (x : Comm),
      ((es.foldl (relaxEdge u) s).color x = .black ↔ s.color x = .black) ∧
      ((es.foldl (relaxEdge u) s).color x ≠ .white → s.color x ≠ .white ∨ ∃ e ∈ es, e.1 = x) ∧
      (es.foldl (relaxEdge u) s).time = s.time := by
  intro es
  induction es with
  | nil => intro s x; simp
  | cons e es ih =>
    intro s x
    simp only [List.foldl_cons]
    have ⟨h1, h2, h3⟩ := ih (relaxEdge u s e) x
    have hc := relaxEdge_color u s e x
    refine ⟨?_, ?_, by rw [h3, (relaxEdge_time_rank u s e).1]⟩
    · rw [h1]
      rcases hc with hc | ⟨_, hw, hg⟩
      · rw [hc]
      · rw [hg, hw]; simp
    · intro h
      rcases h2 h with h | ⟨e', he', hx⟩
      · rcases hc with hc | ⟨hx, _, _⟩
        · left; rw [← hc]; exact h
        · right; exact ⟨e, List.mem_cons_self, hx.symm⟩
      · right; exact ⟨e', List.mem_cons_of_mem _ he', hx⟩

/-- the effect of one iteration on colours and on the pop counter -/
theorem dstep_color {choose : DState → Option Comm} {out : Comm → List (Comm × Int)} {s : DState} {u : Comm}
    (hu : choose s = some u) (x : Comm) :
    ((dstepW choose out s).color x = .black ↔ (x = u ∨ s.color x = .black)) ∧
    ((dstepW choose out s).color x ≠ .white → s.color x ≠ .white ∨ x = u ∨ ∃ e ∈ out u, e.1 = x) ∧
    (dstepW choose out s).time = s.time + 1 := by
  unfold dstepW
  simp only [hu]
  have ⟨h1, h2, h3⟩ := foldl_relax_color u (out u)
    { s with color := upd s.color u .black, queue := s.queue.erase u,
             heap := if s.heap.head? = some u then heapPop s.dist s.heap else s.heap.erase u,
             rank := upd s.rank u s.time, time := s.time + 1 } x
  refine ⟨?_, ?_, h3⟩
  · rw [h1]
    by_cases h : x = u
    · subst h; simp
    · simp [upd, h]
  · intro h
    rcases h2 h with h | h
    · by_cases hx : x = u
      · exact Or.inr (Or.inl hx)
      · left; simpa [upd, hx] using h
    · exact Or.inr (Or.inr h)

structure Closed (out : Comm → List (Comm × Int)) (src : Comm) (U : List Comm) : Prop where
  src_mem : src ∈ U
  out_mem : ∀ x, ∀ e ∈ out x, e.1 ∈ U

def nonBlack (s : DState) (U : List Comm) : Nat := U.countP (fun x => decide (s.color x ≠ .black))

theorem countP_lt_of_imp (U : List Comm) (p q : Comm → Bool) (himp : ∀ x, q x = true → p x = true)
    (u : Comm) (hu : u ∈ U) (hpu : p u = true) (hqu : q u = false) : U.countP q < U.countP p := by
  induction U with
  | nil => simp at hu
  | cons x xs ih =>
    have hle : xs.countP q ≤ xs.countP p := List.countP_mono_left (fun x _ => himp x)
    simp only [List.countP_cons]
    rcases List.mem_cons.mp hu with rfl | hu
    · simp [hpu, hqu]; omega
    · have := ih hu
      by_cases hq : q x = true
      · simp [hq, himp x hq]; omega
      · have hq' : q x = false := by simpa using hq
        by_cases hp : p x = true
        · simp [hq', hp]; omega
        · have hp' : p x = false := by simpa using hp
          simp [hq', hp']; omega

theorem dstep_progress {choose : DState → Option Comm} (hch : ChoiceOk choose) {out : Comm → List (Comm × Int)} {src : Comm}
    {U : List Comm} (hC : Closed out src U) {s : DState}
    (hI : DInv out src (fun _ _ => False) s) (hU : ∀ v, s.color v ≠ .white → v ∈ U) (hq : s.queue ≠ []) :
    (∀ v, (dstepW choose out s).color v ≠ .white → v ∈ U) ∧ nonBlack (dstepW choose out s) U < nonBlack s U ∧
    (dstepW choose out s).time = s.time + 1 := by
  cases hu : choose s with
  | none => exact absurd ((hch.none_iff s).mp hu) hq
  | some u =>
    have hmem := (hch.spec _ _ hu).1
    have hug : s.color u = .gray := (hI.qGray u).mp hmem
    have huU : u ∈ U := hU u (by rw [hug]; simp)
    refine ⟨?_, ?_, (dstep_color (choose := choose) hu u).2.2⟩
    · intro v hv
      rcases (dstep_color (choose := choose) (out := out) hu v).2.1 hv with h | rfl | ⟨e, he, rfl⟩
      · exact hU v h
      · exact huU
      · exact hC.out_mem u e he
    · apply countP_lt_of_imp U _ _ _ u huU
      · simp [hug]
      · have := (dstep_color (choose := choose) (out := out) hu u).1
        simp [this.mpr (Or.inl rfl)]
      · intro x hx
        simp only [decide_eq_true_eq] at hx ⊢
        intro hb
        exact hx ((dstep_color (choose := choose) (out := out) hu x).1.mpr (Or.inr hb))

theorem drun_done {choose : DState → Option Comm} (hch : ChoiceOk choose) {out : Comm → List (Comm × Int)} {src : Comm}
    {U : List Comm} (hC : Closed out src U) :
    ∀ (fuel : Nat) (s : DState), DInv out src (fun _ _ => False) s → (∀ v, s.color v ≠ .white → v ∈ U) →
      nonBlack s U < fuel → (drunW choose out fuel s).queue = [] ∧ (drunW choose out fuel s).time ≤ s.time + fuel := by
  intro fuel
  induction fuel with
  | zero => intro s _ _ h; omega
  | succ n ih =>
    intro s hI hU hm
    simp only [drunW]
    split
    · rename_i he
      exact ⟨by simpa using he, by omega⟩
    · rename_i he
      have hq : s.queue ≠ [] := by simpa using he
      have ⟨h1, h2, h3⟩ := dstep_progress hch hC hI hU hq
      have ⟨h4, h5⟩ := ih (dstepW choose out s) (dstep_inv hch hI) h1 (by omega)
      exact ⟨h4, by omega⟩

/-! ### what the final state says -/

/-- Every walk from a black vertex stays among black vertices, and the distance of its end
    is at most the walk's bottleneck: the distances are lower bounds… -/
theorem final_lower_bound {out : Comm → List (Comm × Int)} {src : Comm} {s : DState}
    (hI : DInv out src (fun _ _ => False) s) (hq : s.queue = []) :
    ∀ (steps : List (Comm × Int)) (x : Comm) (m : Int), s.color x = .black → Dist.le (s.dist x) (some m) = true →
      IsPath out x steps →
      s.color (endOf x steps) = .black ∧ Dist.le (s.dist (endOf x steps)) (some (bnFrom m steps)) = true := by
  intro steps
  induction steps with
  | nil => intro x m hx hle _; exact ⟨hx, by simpa [bnFrom, endOf] using hle⟩
  | cons e rest ih =>
    intro x m hx hle hp
    simp only [IsPath] at hp
    simp only [endOf, bnFrom, List.foldl_cons]
    rcases hI.blackEdges x hx e hp.1 with h | ⟨h1, h2⟩
    · exact absurd h (by simp)
    · have hb : s.color e.1 = .black := by
        cases hc : s.color e.1 with
        | white => exact absurd hc h1
        | black => rfl
        | gray =>
          have := (hI.qGray e.1).mpr hc
          rw [hq] at this; simp at this
      have hle' : Dist.le (s.dist e.1) (some (max m e.2)) = true := by
        have := combineMax_mono e.2 hle
        rw [combineMax_some] at this
        exact Dist.le_trans h2 this
      exact ih e.1 (max m e.2) hb hle' hp.2

theorem walkBack_white {out : Comm → List (Comm × Int)} {src : Comm} {s : DState}
    (hI : DInv out src (fun _ _ => False) s) {t : Comm} (ht : s.color t = .white) (fuel : Nat) :
    walkBack s.pred fuel t = [t] := by
  cases fuel with
  | zero => rfl
  | succ n => simp [walkBack, hI.whitePred t ht]

/-- … and every black vertex has a simple walk from the source that attains its distance and
    is what the predecessor chain spells out. -/
theorem final_route {out : Comm → List (Comm × Int)} {src : Comm} {s : DState}
    (hI : DInv out src (fun _ _ => False) s) :
    ∀ (n : Nat) (v : Comm), s.rank v = n → s.color v = .black →
      ∃ steps, IsPath out src steps ∧ endOf src steps = v ∧ s.dist v = some (bnFrom 0 steps) ∧
        (∀ fuel, s.rank v < fuel → walkBack s.pred fuel v = src :: steps.map Prod.fst) ∧
        (src :: steps.map Prod.fst).Nodup ∧
        (∀ x ∈ src :: steps.map Prod.fst, s.color x = .black ∧ s.rank x ≤ s.rank v) := by
  intro n
  induction n using Nat.strongRecOn with
  | _ n ih =>
    intro v hn hv
    by_cases hsrc : v = src
    · subst hsrc
      refine ⟨[], trivial, rfl, by simpa [bnFrom] using hI.srcDist, ?_, by simp, ?_⟩
      · intro fuel hf
        cases fuel with
        | zero => omega
        | succ k => simp [walkBack, hI.srcPred]
      · intro x hx; simp at hx; subst hx; exact ⟨hv, Nat.le_refl _⟩
    · have hvw : s.color v ≠ .white := by rw [hv]; simp
      have ⟨hpb, wt, hmem, hdist⟩ := hI.predOk v hvw hsrc
      have hrk := hI.rankPred v hv hsrc
      obtain ⟨steps, hp, hend, hd, hwalk, hnd, hall⟩ := ih (s.rank (s.pred v)) (by omega) (s.pred v) rfl hpb
      refine ⟨steps ++ [(v, wt)], ?_, ?_, ?_, ?_, ?_, ?_⟩
      · rw [isPath_append]; exact ⟨hp, by rw [hend]; exact ⟨hmem, trivial⟩⟩
      · rw [endOf_append]; rfl
      · rw [hdist, hd, combineMax_some, bnFrom_append]; rfl
      · intro fuel hf
        cases fuel with
        | zero => omega
        | succ k =>
          have hne : s.pred v ≠ v := by
            intro h; rw [h] at hrk; omega
          simp only [walkBack, hne, if_false]
          rw [hwalk k (by omega)]
          simp
      · have hvnot : v ∉ src :: steps.map Prod.fst := by
          intro hmem'
          have := (hall v hmem').2
          omega
        have : src :: (steps ++ [(v, wt)]).map Prod.fst = (src :: steps.map Prod.fst) ++ [v] := by simp
        rw [this, List.nodup_append]
        refine ⟨hnd, by simp, ?_⟩
        intro a ha b hb hab
        simp at hb; subst hb; subst hab; exact hvnot ha
      · intro x hx
        have : src :: (steps ++ [(v, wt)]).map Prod.fst = (src :: steps.map Prod.fst) ++ [v] := by simp
        rw [this, List.mem_append] at hx
        rcases hx with hx | hx
        · have := hall x hx; exact ⟨this.1, by omega⟩
        · simp at hx; subst hx; exact ⟨hv, Nat.le_refl _⟩

/-! ### Dijkstra's result, for every admissible way of breaking ties -/

theorem nonBlack_le (s : DState) (U : List Comm) : nonBlack s U ≤ U.length := List.countP_le_length

/-- The run from `dinit src` with enough fuel: the predecessor chain of `tgt`, when it leads
    back to the source, is a simple walk through the graph whose bottleneck is the least
    possible; and it does lead back whenever some walk reaches `tgt`. -/
theorem route_correct {choose : DState → Option Comm} (hch : ChoiceOk choose) {out : Comm → List (Comm × Int)} {src : Comm}
    {U : List Comm} (hC : Closed out src U) (n : Nat) (hn : U.length < n) (tgt : Comm) :
    let s := drunW choose out n (dinit src)
    let p := walkBack s.pred n tgt
    ((p.head? = some src ∧ 2 ≤ p.length) →
      ∃ steps, steps ≠ [] ∧ p = src :: steps.map Prod.fst ∧ IsPath out src steps ∧ endOf src steps = tgt ∧ p.Nodup ∧
        s.dist tgt = some (bnFrom 0 steps) ∧
        ∀ steps', IsPath out src steps' → endOf src steps' = tgt → bnFrom 0 steps ≤ bnFrom 0 steps') ∧
    (tgt ≠ src → (∃ steps', IsPath out src steps' ∧ endOf src steps' = tgt) → p.head? = some src ∧ 2 ≤ p.length) := by
  intro s p
  have hI0 := dinit_inv out src
  have hU0 : ∀ v, (dinit src).color v ≠ .white → v ∈ U := by
    intro v hv
    by_cases h : v = src
    · subst h; exact hC.src_mem
    · simp [dinit, upd_other _ _ h] at hv
  have hI : DInv out src (fun _ _ => False) s := drun_inv hch n _ hI0
  have ⟨hq, htime⟩ := drun_done hch hC n (dinit src) hI0 hU0 (by have := nonBlack_le (dinit src) U; omega)
  have htime' : s.time ≤ n := by
    have h0 : (dinit src).time = 0 := rfl
    rw [h0] at htime
    show (drunW choose out n (dinit src)).time ≤ n
    omega
  have hnogray : ∀ v, s.color v ≠ .gray := by
    intro v hv
    have := (hI.qGray v).mpr hv
    rw [hq] at this; simp at this
  have hsrcb : s.color src = .black := by
    cases hc : s.color src with
    | white => exact absurd hc hI.srcColor
    | gray => exact absurd hc (hnogray src)
    | black => rfl
  have hsrcle : Dist.le (s.dist src) (some 0) = true := by rw [hI.srcDist]; exact Dist.le_refl _
  have hroute : ∀ v, s.color v = .black →
      ∃ steps, IsPath out src steps ∧ endOf src steps = v ∧ s.dist v = some (bnFrom 0 steps) ∧
        walkBack s.pred n v = src :: steps.map Prod.fst ∧ (src :: steps.map Prod.fst).Nodup := by
    intro v hv
    obtain ⟨steps, h1, h2, h3, h4, h5, _⟩ := final_route hI (s.rank v) v rfl hv
    have := hI.rankLt v hv
    exact ⟨steps, h1, h2, h3, h4 n (by omega), h5⟩
  refine ⟨?_, ?_⟩
  · rintro ⟨hhead, hlen⟩
    cases hc : s.color tgt with
    | white =>
      have : p = [tgt] := walkBack_white hI hc n
      rw [this] at hlen; simp at hlen
    | gray => exact absurd hc (hnogray tgt)
    | black =>
      obtain ⟨steps, h1, h2, h3, h4, h5⟩ := hroute tgt hc
      have hp : p = src :: steps.map Prod.fst := h4
      refine ⟨steps, ?_, hp, h1, h2, by rw [hp]; exact h5, h3, ?_⟩
      · intro he; rw [hp, he] at hlen; simp at hlen
      · intro steps' hp' hend'
        have := (final_lower_bound hI hq steps' src 0 hsrcb hsrcle hp').2
        rw [hend', h3, Dist.le_some_some] at this
        exact this
  · intro hne ⟨steps', hp', hend'⟩
    have hb := (final_lower_bound hI hq steps' src 0 hsrcb hsrcle hp').1
    rw [hend'] at hb
    obtain ⟨steps, h1, h2, h3, h4, h5⟩ := hroute tgt hb
    have hp : p = src :: steps.map Prod.fst := h4
    rw [hp]
    refine ⟨rfl, ?_⟩
    cases steps with
    | nil => simp [endOf] at h2; exact absurd h2.symm hne
    | cons e rest => simp

/-! ### the filtered graph of a history -/

def fgOf (g : Graph) (D : Int) : List (Comm × Comm × Entry) :=
  g.filterMap (fun ed => (PriceMap.recent D ed.prices).map (fun p => (ed.u, ed.v, p)))

theorem fgraph_eq (hist : List Entry) (D : Int) : fgraph hist D = fgOf (Graph.ofHistory hist) D := rfl

theorem mem_fgOf {g : Graph} {D : Int} {t : Comm × Comm × Entry} :
    t ∈ fgOf g D ↔ ∃ ed ∈ g, PriceMap.recent D ed.prices = some t.2.2 ∧ t.1 = ed.u ∧ t.2.1 = ed.v := by
  unfold fgOf
  rw [List.mem_filterMap]
  constructor
  · rintro ⟨ed, hed, h⟩
    cases hr : PriceMap.recent D ed.prices with
    | none => rw [hr] at h; simp at h
    | some p =>
      rw [hr] at h
      simp at h
      subst h
      exact ⟨ed, hed, hr, rfl, rfl⟩
  · rintro ⟨ed, hed, hr, h1, h2⟩
    refine ⟨ed, hed, ?_⟩
    rw [hr]
    obtain ⟨a, b, p⟩ := t
    simp at h1 h2 ⊢
    exact ⟨h1.symm, h2.symm⟩

theorem feLookup_cons (t : Comm × Comm × Entry) (fe : List (Comm × Comm × Entry)) (a b : Comm) :
    feLookup (t :: fe) a b =
      if (t.1 = a ∧ t.2.1 = b) ∨ (t.1 = b ∧ t.2.1 = a) then some t.2.2 else feLookup fe a b := by
  unfold feLookup
  simp only [List.find?_cons]
  by_cases h : (t.1 = a ∧ t.2.1 = b) ∨ (t.1 = b ∧ t.2.1 = a)
  · simp [h]
  · simp [h]

theorem feLookup_none_of_no_pair {g : Graph} {D : Int} {a b : Comm} (h : ∀ ed ∈ g, ¬ ed.isPair a b) :
    feLookup (fgOf g D) a b = none := by
  induction g with
  | nil => simp [fgOf, feLookup]
  | cons ed rest ih =>
    have hrest := ih (fun e he => h e (List.mem_cons_of_mem _ he))
    have hed := h ed List.mem_cons_self
    unfold fgOf at hrest ⊢
    simp only [List.filterMap_cons]
    cases hr : PriceMap.recent D ed.prices with
    | none => simpa using hrest
    | some p =>
      simp only [Option.map_some]
      rw [feLookup_cons]
      unfold Edge.isPair at hed
      simp only [hed, if_false]
      exact hrest

theorem feLookup_fgOf {g : Graph} (hd : Distinct g) (D : Int) (a b : Comm) :
    feLookup (fgOf g D) a b = PriceMap.recent D (g.edgePrices a b) := by
  induction g with
  | nil => simp [fgOf, feLookup, Graph.edgePrices, PriceMap.recent]
  | cons ed rest ih =>
    unfold Distinct at hd ih
    rw [List.pairwise_cons] at hd
    have hrest := ih hd.2
    simp only [Graph.edgePrices]
    by_cases hp : ed.isPair a b
    · simp only [hp, if_true]
      have hnone : feLookup (fgOf rest D) a b = none := by
        apply feLookup_none_of_no_pair
        intro e he hpe
        apply hd.1 e he
        unfold Edge.isPair at hp hpe ⊢
        rcases hp with hp | hp <;> rcases hpe with hpe | hpe <;> simp [hp, hpe]
      unfold fgOf at hnone ⊢
      simp only [List.filterMap_cons]
      cases hr : PriceMap.recent D ed.prices with
      | none => simpa using hnone
      | some p =>
        simp only [Option.map_some]
        rw [feLookup_cons]
        unfold Edge.isPair at hp
        simp [hp]
    · simp only [hp, if_false]
      unfold fgOf at hrest ⊢
      simp only [List.filterMap_cons]
      cases hr : PriceMap.recent D ed.prices with
      | none => simpa using hrest
      | some p =>
        simp only [Option.map_some]
        rw [feLookup_cons]
        unfold Edge.isPair at hp
        simp only [hp, if_false]
        exact hrest

/-- the price point the filtered graph carries for a pair is the price point of that pair -/
theorem feLookup_fgraph (hist : List Entry) (D : Int) (a b : Comm) :
    feLookup (fgraph hist D) a b = recentEdge hist a b D := by
  rw [fgraph_eq, feLookup_fgOf (ofHistory_inv hist).1]
  rfl

theorem mem_outOf {fe : List (Comm × Comm × Entry)} {D : Int} {u v : Comm} {wt : Int} :
    (v, wt) ∈ outOf fe D u ↔
      ∃ t ∈ fe, ((t.1 = u ∧ v = t.2.1) ∨ (t.1 ≠ u ∧ t.2.1 = u ∧ v = t.1)) ∧ wt = D - t.2.2.date := by
  unfold outOf
  rw [List.mem_filterMap]
  constructor
  · rintro ⟨t, ht, h⟩
    refine ⟨t, ht, ?_⟩
    by_cases h1 : t.1 = u
    · simp [h1] at h; exact ⟨Or.inl ⟨h1, h.1.symm⟩, h.2.symm⟩
    · by_cases h2 : t.2.1 = u
      · simp [h1, h2] at h; exact ⟨Or.inr ⟨h1, h2, h.1.symm⟩, h.2.symm⟩
      · simp [h1, h2] at h
  · rintro ⟨t, ht, hc, hw⟩
    refine ⟨t, ht, ?_⟩
    rcases hc with ⟨h1, h2⟩ | ⟨h1, h2, h3⟩
    · simp [h1, h2, hw]
    · simp [h1, h2, h3, hw]

theorem closed_fe (fe : List (Comm × Comm × Entry)) (D : Int) (src : Comm) :
    Closed (outOf fe D) src (feVerts fe src) := by
  refine ⟨by simp [feVerts], ?_⟩
  intro x e he
  obtain ⟨v, wt⟩ := e
  obtain ⟨t, ht, hc, _⟩ := mem_outOf.mp he
  unfold feVerts
  apply List.mem_cons_of_mem
  rw [List.mem_flatMap]
  refine ⟨t, ht, ?_⟩
  rcases hc with ⟨_, h⟩ | ⟨_, _, h⟩ <;> simp [h]

theorem outOf_fgraph_sound {hist : List Entry} {D : Int} {u v : Comm} {wt : Int}
    (h : (v, wt) ∈ outOf (fgraph hist D) D u) : ∃ p, recentEdge hist u v D = some p ∧ wt = D - p.date := by
  obtain ⟨t, ht, hc, hw⟩ := mem_outOf.mp h
  rw [fgraph_eq] at ht
  obtain ⟨ed, hed, hr, h1, h2⟩ := mem_fgOf.mp ht
  have hrec := recent_of_edge hist D hed
  rw [hr] at hrec
  refine ⟨t.2.2, ?_, hw⟩
  rcases hc with ⟨hu, hv⟩ | ⟨_, hu, hv⟩
  · rw [← hu, hv, h1, h2]; exact hrec.symm
  · rw [← hu, hv, h1, h2, recentEdge_symm]; exact hrec.symm

theorem outOf_fgraph_complete {hist : List Entry} {D : Int} {u v : Comm} {p : Entry}
    (h : recentEdge hist u v D = some p) : (v, D - p.date) ∈ outOf (fgraph hist D) D u := by
  have ⟨hmem, hpair, _, _⟩ := recentEdge_sound h
  obtain ⟨ed, hed, hip⟩ := (ofHistory_inv hist).2.2 p hmem
  have hrec := recent_of_edge hist D hed
  -- the edge's pair is {u, v}
  have hpe : (ed.u = u ∧ ed.v = v) ∨ (ed.u = v ∧ ed.v = u) := by
    unfold Edge.isPair at hip; unfold Entry.onPair at hpair
    rcases hip with hip | hip <;> rcases hpair with hpair | hpair
    · exact Or.inl ⟨hip.1.trans hpair.1, hip.2.trans hpair.2⟩
    · exact Or.inr ⟨hip.1.trans hpair.1, hip.2.trans hpair.2⟩
    · exact Or.inr ⟨hip.1.trans hpair.2, hip.2.trans hpair.1⟩
    · exact Or.inl ⟨hip.1.trans hpair.2, hip.2.trans hpair.1⟩
  have hr : PriceMap.recent D ed.prices = some p := by
    rw [hrec]
    rcases hpe with hpe | hpe
    · rw [hpe.1, hpe.2]; exact h
    · rw [hpe.1, hpe.2, recentEdge_symm]; exact h
  have ht : (ed.u, ed.v, p) ∈ fgraph hist D := by
    rw [fgraph_eq]; exact mem_fgOf.mpr ⟨ed, hed, hr, rfl, rfl⟩
  apply mem_outOf.mpr
  refine ⟨(ed.u, ed.v, p), ht, ?_, rfl⟩
  by_cases h1 : ed.u = u
  · left
    rcases hpe with hpe | hpe
    · exact ⟨h1, hpe.2.symm⟩
    · exact ⟨h1, by simp only; rw [hpe.2, ← h1, hpe.1]⟩
  · right
    rcases hpe with hpe | hpe
    · exact absurd hpe.1 h1
    · exact ⟨h1, hpe.2, hpe.1.symm⟩

/-- the steps (target, age) along a path of commodities -/
def stepsOf (re : Comm → Comm → Option Entry) (D : Int) : List Comm → List (Comm × Int)
  | a :: b :: rest =>
    match re a b with
    | some e => (b, D - e.date) :: stepsOf re D (b :: rest)
    | none => []
  | _ => []

/-- the age in seconds of the oldest price used along a path of commodities: the length
    ledger's Dijkstra assigns to the route -/
def oldestAge (re : Comm → Comm → Option Entry) (D : Int) (p : List Comm) : Int := bnFrom 0 (stepsOf re D p)

theorem linked_steps (hist : List Entry) (D : Int) :
    ∀ (tl : List Comm) (a : Comm), Linked (fun x y => recentEdge hist x y D) (a :: tl) →
      IsPath (outOf (fgraph hist D) D) a (stepsOf (fun x y => recentEdge hist x y D) D (a :: tl)) ∧
      endOf a (stepsOf (fun x y => recentEdge hist x y D) D (a :: tl)) = (a :: tl).getLast (by simp) ∧
      a :: (stepsOf (fun x y => recentEdge hist x y D) D (a :: tl)).map Prod.fst = a :: tl := by
  intro tl
  induction tl with
  | nil => intro a _; simp [stepsOf, IsPath, endOf]
  | cons b rest ih =>
    intro a hl
    simp only [Linked] at hl
    obtain ⟨e, he⟩ := Option.isSome_iff_exists.mp hl.1
    have ⟨h1, h2, h3⟩ := ih b hl.2
    simp only [stepsOf, he, IsPath, endOf, List.map_cons]
    refine ⟨⟨outOf_fgraph_complete he, h1⟩, ?_, ?_⟩
    · rw [h2]; simp [List.getLast_cons]
    · simp only [List.cons.injEq, true_and] at h3 ⊢
      exact h3

theorem steps_linked (hist : List Entry) (D : Int) :
    ∀ (steps : List (Comm × Int)) (a : Comm), IsPath (outOf (fgraph hist D) D) a steps →
      Linked (fun x y => recentEdge hist x y D) (a :: steps.map Prod.fst) ∧
      stepsOf (fun x y => recentEdge hist x y D) D (a :: steps.map Prod.fst) = steps := by
  intro steps
  induction steps with
  | nil => intro a _; simp [Linked, stepsOf]
  | cons e rest ih =>
    intro a hp
    obtain ⟨v, wt⟩ := e
    simp only [IsPath] at hp
    obtain ⟨p, hp1, hp2⟩ := outOf_fgraph_sound hp.1
    have ⟨h1, h2⟩ := ih v hp.2
    simp only [List.map_cons, Linked, stepsOf, hp1, Option.isSome_some, true_and]
    exact ⟨h1, by rw [h2, hp2]⟩

theorem endOf_eq_getLast : ∀ (steps : List (Comm × Int)) (a : Comm),
    (a :: steps.map Prod.fst).getLast? = some (endOf a steps) := by
  intro steps
  induction steps with
  | nil => intro a; simp [endOf]
  | cons e rest ih =>
    intro a
    simp only [List.map_cons, endOf]
    rw [List.getLast?_cons_cons]
    exact ih e.1

/-- The route chosen through the filtered graph of a history, for every admissible way of
    breaking ties: a simple path of price points from source to target whose oldest price
    is as recent as on any other path. -/
theorem routeW_sound {choose : DState → Option Comm} (hch : ChoiceOk choose) (hist : List Entry) (D : Int)
    (c tgt : Comm) (p : List Comm) (h : routeW choose (fgraph hist D) D c tgt = some p) :
    p.head? = some c ∧ p.getLast? = some tgt ∧ 2 ≤ p.length ∧ p.Nodup ∧
    Linked (fun x y => recentEdge hist x y D) p ∧
    ∀ p' : List Comm, p'.head? = some c → p'.getLast? = some tgt → Linked (fun x y => recentEdge hist x y D) p' →
      oldestAge (fun x y => recentEdge hist x y D) D p ≤ oldestAge (fun x y => recentEdge hist x y D) D p' := by
  unfold routeW at h
  simp only at h
  split at h
  · rename_i hcond
    cases h
    have hC := closed_fe (fgraph hist D) D c
    obtain ⟨steps, hne, hp, hpath, hend, hnd, _, hmin⟩ :=
      (route_correct hch hC ((feVerts (fgraph hist D) c).length + 1) (by omega) tgt).1 hcond
    have ⟨hl, hs⟩ := steps_linked hist D steps c hpath
    rw [hp]
    refine ⟨rfl, ?_, ?_, by rw [← hp]; exact hnd, hl, ?_⟩
    · rw [endOf_eq_getLast, hend]
    · cases steps with
      | nil => exact absurd rfl hne
      | cons e rest => simp
    · intro p' hh hlast hl'
      cases p' with
      | nil => simp at hh
      | cons a tl =>
        simp at hh; subst hh
        have ⟨h1, h2, _⟩ := linked_steps hist D tl a hl'
        have hlast' : (a :: tl).getLast (by simp) = tgt := by
          rw [List.getLast?_eq_some_getLast (by simp)] at hlast
          exact Option.some.inj hlast
        rw [hlast'] at h2
        have := hmin _ h1 h2
        unfold oldestAge
        rw [hs]
        exact this
  · cases h

theorem routeW_complete {choose : DState → Option Comm} (hch : ChoiceOk choose) (hist : List Entry) (D : Int)
    (c tgt : Comm) (hne : c ≠ tgt) (p' : List Comm) (hh : p'.head? = some c) (hlast : p'.getLast? = some tgt)
    (hl : Linked (fun x y => recentEdge hist x y D) p') :
    ∃ p, routeW choose (fgraph hist D) D c tgt = some p := by
  cases p' with
  | nil => simp at hh
  | cons a tl =>
    simp at hh; subst hh
    have ⟨h1, h2, _⟩ := linked_steps hist D tl a hl
    have hlast' : (a :: tl).getLast (by simp) = tgt := by
      rw [List.getLast?_eq_some_getLast (by simp)] at hlast
      exact Option.some.inj hlast
    rw [hlast'] at h2
    have hC := closed_fe (fgraph hist D) D a
    have := (route_correct hch hC ((feVerts (fgraph hist D) a).length + 1) (by omega) tgt).2 (Ne.symm hne) ⟨_, h1, h2⟩
    unfold routeW
    simp only [this, and_self, if_true]
    exact ⟨_, rfl⟩

/-- On a forced chain there is only one simple path. -/
theorem chain_unique (adj : Comm → Comm → Bool) (V : List Comm) (tgt : Comm) :
    ∀ (suf pre : List Comm) (cur : Comm) (P' : List Comm),
      ChainFrom adj V pre cur suf → (cur :: suf).getLast? = some tgt → (cur :: P').getLast? = some tgt →
      Linked (fun a b => if adj a b then some default else none) (cur :: P') →
      (cur :: P').Nodup → (∀ x ∈ P', x ∈ V) → (∀ x ∈ P', x ∉ pre) → P' = suf := by
  intro suf
  induction suf with
  | nil =>
    intro pre cur P' _ hl hl' _ hnd _ _
    simp at hl
    subst hl
    cases P' with
    | nil => rfl
    | cons y ys =>
      rw [List.getLast?_cons_cons] at hl'
      have : cur ∈ y :: ys := List.mem_of_getLast? hl'
      exact absurd this (List.nodup_cons.mp hnd).1
  | cons n suf ih =>
    intro pre cur P' hch hl hl' hlink hnd hV hpre
    have hfresh := chainFrom_fresh (n :: suf) pre cur hch
    simp only [ChainFrom] at hch
    obtain ⟨_, _, _, honly, hrest⟩ := hch
    have htm : tgt ∈ n :: suf := by
      rw [List.getLast?_cons_cons] at hl
      exact List.mem_of_getLast? hl
    cases P' with
    | nil =>
      simp at hl'
      subst hl'
      exact absurd List.mem_cons_self (hfresh cur htm)
    | cons y ys =>
      simp only [Linked] at hlink
      have hadj : adj cur y = true := by
        by_cases h : adj cur y = true
        · exact h
        · simp [h] at hlink
      have hy : y = n := by
        rcases honly y (hV y List.mem_cons_self) hadj with h | h
        · rcases List.mem_cons.mp h with h | h
          · subst h; exact absurd List.mem_cons_self (List.nodup_cons.mp hnd).1
          · exact absurd h (hpre y List.mem_cons_self)
        · exact h
      subst hy
      have := ih (cur :: pre) y ys hrest
        (by rw [List.getLast?_cons_cons] at hl; exact hl)
        (by rw [List.getLast?_cons_cons] at hl'; exact hl')
        hlink.2 (List.nodup_cons.mp hnd).2
        (fun x hx => hV x (List.mem_cons_of_mem _ hx))
        (by
          intro x hx hmem
          rcases List.mem_cons.mp hmem with h | h
          · subst h
            exact (List.nodup_cons.mp hnd).1 (List.mem_cons_of_mem _ hx)
          · exact hpre x (List.mem_cons_of_mem _ hx) h)
      rw [this]

theorem linked_adj {re : Comm → Comm → Option Entry} : ∀ (p : List Comm), Linked re p →
    Linked (fun a b => if (re a b).isSome then some default else none) p := by
  intro p
  induction p with
  | nil => intro _; trivial
  | cons a tl ih =>
    intro h
    cases tl with
    | nil => trivial
    | cons b rest =>
      simp only [Linked] at h ⊢
      exact ⟨by simp [h.1], ih h.2⟩

theorem linked_mem_hist {hist : List Entry} {D : Int} : ∀ (tl : List Comm) (a : Comm),
    Linked (fun x y => recentEdge hist x y D) (a :: tl) →
    ∀ x ∈ tl, ∃ e ∈ hist, e.src = x ∨ e.tgt = x := by
  intro tl
  induction tl with
  | nil => intro a _ x hx; simp at hx
  | cons b rest ih =>
    intro a h x hx
    simp only [Linked] at h
    rcases List.mem_cons.mp hx with rfl | hx
    · obtain ⟨e, he⟩ := Option.isSome_iff_exists.mp h.1
      have ⟨hm, hp, _, _⟩ := recentEdge_sound he
      refine ⟨e, hm, ?_⟩
      unfold Entry.onPair at hp
      rcases hp with hp | hp
      · exact Or.inr hp.2
      · exact Or.inl hp.1
    · exact ih b h.2 x hx

theorem linked_infix {re : Comm → Comm → Option Entry} : ∀ (pre : List Comm) (a b : Comm) (rest : List Comm),
    Linked re (pre ++ a :: b :: rest) → (re a b).isSome = true := by
  intro pre
  induction pre with
  | nil => intro a b rest h; simp only [List.nil_append, Linked] at h; exact h.1
  | cons x xs ih =>
    intro a b rest h
    cases xs with
    | nil => simp only [List.cons_append, List.nil_append, Linked] at h; exact h.2.1
    | cons y ys =>
      simp only [List.cons_append, Linked] at h
      exact ih a b rest h.2

/-- history.cc 470-504: the date ledger reports for the chained price is the date of the
    oldest price on the route, i.e. the moment minus the route's length. -/
theorem leastRecent_oldest (hist : List Entry) (D : Int) :
    ∀ (tl : List Comm) (a : Comm), tl ≠ [] → Linked (fun x y => recentEdge hist x y D) (a :: tl) →
      ∃ m, leastRecent (fun x y => recentEdge hist x y D) (a :: tl) = some m ∧ m ≤ D ∧
        ∀ k, bnFrom k (stepsOf (fun x y => recentEdge hist x y D) D (a :: tl)) = max k (D - m) := by
  intro tl
  induction tl with
  | nil => intro a h; exact absurd rfl h
  | cons b rest ih =>
    intro a _ hl
    simp only [Linked] at hl
    obtain ⟨e, he⟩ := Option.isSome_iff_exists.mp hl.1
    have hed := (recentEdge_sound he).2.2.1
    cases rest with
    | nil =>
      refine ⟨e.date, by simp [leastRecent, he], hed, ?_⟩
      intro k
      simp [stepsOf, he, bnFrom]
    | cons c rest' =>
      obtain ⟨m, hm, hmD, hb⟩ := ih b (by simp) hl.2
      refine ⟨min e.date m, ?_, by omega, ?_⟩
      · rw [leastRecent]
        simp only [he, hm]
      · intro k
        have : stepsOf (fun x y => recentEdge hist x y D) D (a :: b :: c :: rest') =
            (b, D - e.date) :: stepsOf (fun x y => recentEdge hist x y D) D (b :: c :: rest') := by
          simp only [stepsOf, he]
        rw [this]
        simp only [bnFrom, List.foldl_cons]
        have := hb (max k (D - e.date))
        simp only [bnFrom] at this
        rw [this]
        omega

/-- a second admissible `Q.top()`: the minimal gray vertex found scanning the queue from its
    newest element — used only to show that the value can depend on the tie-break -/
def altChoice (s : DState) : Option Comm :=
  match s.queue.reverse with
  | [] => none
  | q :: qs => some (firstMin s.dist q qs)

theorem altChoice_ok : ChoiceOk altChoice := by
  refine ⟨?_, ?_⟩
  · intro s u h
    unfold altChoice at h
    split at h
    · cases h
    · rename_i q qs hq
      cases h
      have ⟨h1, h2, h3⟩ := firstMin_spec s.dist qs q
      have hmem : ∀ z, z ∈ s.queue ↔ z ∈ q :: qs := by
        intro z; rw [← hq, List.mem_reverse]
      refine ⟨(hmem _).mpr h1, ?_⟩
      intro z hz
      rcases List.mem_cons.mp ((hmem z).mp hz) with rfl | hz
      · exact h2
      · exact h3 z hz
  · intro s
    unfold altChoice
    split
    · rename_i h
      simp at h
      simp [h]
    · rename_i q qs h
      constructor
      · intro h'; cases h'
      · intro h'; rw [h'] at h; simp at h

end Ledger.Prices
