/-
Lemmas for C10: the per-edge sorted map with `upper_bound` lookup refines a fold over the
insertion-ordered history (`latestOn`), and facts about that fold, the path search and
the conversion along a path.
-/
import LedgerModel.Model.Prices

namespace Ledger.Prices

/-! ### the flags read from the source -/

theorem notAfter_iff (t D : Int) : notAfter t D = true ↔ t ≤ D := by
  simp [notAfter, Gen.Prices.boundInclusive]

theorem notAfter_false_iff (t D : Int) : notAfter t D = false ↔ D < t := by
  have := notAfter_iff t D
  cases h : notAfter t D <;> simp_all <;> omega

/-! ### specification of "latest entry not after D, last writer wins" as a fold -/

/-- One step of the specification: an eligible entry replaces the current best unless
    the best is strictly later. -/
def pick (D : Int) (best : Option Entry) (e : Entry) : Option Entry :=
  if e.date ≤ D then
    match best with
    | none => some e
    | some b => if b.date ≤ e.date then some e else some b
  else best

/-- The entries of the history on the edge {a,b}, in insertion order. -/
def onEdge (hist : List Entry) (a b : Comm) : List Entry := hist.filter (fun e => e.onPair a b)

/-- Specification of `recentEdge`. -/
def latestOn (hist : List Entry) (a b : Comm) (D : Int) : Option Entry :=
  (onEdge hist a b).foldl (pick D) none

/-! ### the sorted map -/

def Sorted (m : List Entry) : Prop := m.Pairwise (fun x y => x.date < y.date)

theorem mem_insert {m : List Entry} {e y : Entry} (h : y ∈ PriceMap.insert m e) : y = e ∨ y ∈ m := by
  induction m with
  | nil => simp [PriceMap.insert] at h; exact Or.inl h
  | cons x xs ih =>
    simp only [PriceMap.insert] at h
    split at h
    · simp at h; rcases h with h | h | h <;> simp [h]
    · split at h
      · simp [Gen.Prices.equalDateOverwrites] at h; rcases h with h | h <;> simp [h]
      · simp at h
        rcases h with h | h
        · simp [h]
        · rcases ih h with h | h <;> simp [h]

theorem insert_sorted {m : List Entry} (e : Entry) (hs : Sorted m) : Sorted (PriceMap.insert m e) := by
  induction m with
  | nil => simp [PriceMap.insert, Sorted]
  | cons x xs ih =>
    unfold Sorted at hs ih ⊢
    rw [List.pairwise_cons] at hs
    simp only [PriceMap.insert]
    split
    · rename_i hlt
      refine List.pairwise_cons.mpr ⟨?_, List.pairwise_cons.mpr hs⟩
      intro y hy
      simp at hy
      rcases hy with rfl | hy
      · exact hlt
      · have := hs.1 y hy; omega
    · split
      · rename_i hnlt heq
        simp only [Gen.Prices.equalDateOverwrites, if_true]
        refine List.pairwise_cons.mpr ⟨?_, hs.2⟩
        intro y hy
        have := hs.1 y hy; omega
      · rename_i hnlt hne
        refine List.pairwise_cons.mpr ⟨?_, ih hs.2⟩
        intro y hy
        rcases mem_insert hy with rfl | hy
        · omega
        · exact hs.1 y hy

theorem recent_mem_le {D : Int} {m : List Entry} {r : Entry} (h : PriceMap.recent D m = some r) :
    r ∈ m ∧ r.date ≤ D := by
  induction m with
  | nil => simp [PriceMap.recent] at h
  | cons x xs ih =>
    simp only [PriceMap.recent] at h
    split at h
    · rename_i hx
      have hx' := (notAfter_iff _ _).mp hx
      split at h
      · rename_i r' hr'
        cases h
        have := ih hr'
        exact ⟨List.mem_cons_of_mem _ this.1, this.2⟩
      · cases h
        exact ⟨List.mem_cons_self, hx'⟩
    · cases h

/-- One insertion into the sorted map is one `pick` step on the lookup result. -/
theorem recent_insert (D : Int) {m : List Entry} (e : Entry) (hs : Sorted m) :
    PriceMap.recent D (PriceMap.insert m e) = pick D (PriceMap.recent D m) e := by
  induction m with
  | nil =>
    simp only [PriceMap.insert, PriceMap.recent, pick]
    by_cases h : e.date ≤ D
    · simp [(notAfter_iff _ _).mpr h, h]
    · have : notAfter e.date D = false := (notAfter_false_iff _ _).mpr (by omega)
      simp [this, h]
  | cons x xs ih =>
    unfold Sorted at hs ih
    rw [List.pairwise_cons] at hs
    have ih := ih hs.2
    have hxs : ∀ r, PriceMap.recent D xs = some r → x.date < r.date ∧ r.date ≤ D := by
      intro r hr
      have := recent_mem_le hr
      exact ⟨hs.1 r this.1, this.2⟩
    simp only [PriceMap.insert]
    split
    · -- e before x
      rename_i hlt
      simp only [PriceMap.recent, pick]
      by_cases he : e.date ≤ D
      · simp only [(notAfter_iff _ _).mpr he, he, if_true]
        by_cases hx : x.date ≤ D
        · simp only [(notAfter_iff _ _).mpr hx, if_true]
          cases hr : PriceMap.recent D xs with
          | none => simp <;> omega
          | some r => have := hxs r hr; simp <;> omega
        · have : notAfter x.date D = false := (notAfter_false_iff _ _).mpr (by omega)
          simp [this]
      · have h1 : notAfter e.date D = false := (notAfter_false_iff _ _).mpr (by omega)
        have h2 : notAfter x.date D = false := (notAfter_false_iff _ _).mpr (by omega)
        simp [h1, h2, he]
    · split
      · -- same moment: replaced
        rename_i hnlt heq
        simp only [Gen.Prices.equalDateOverwrites, if_true, PriceMap.recent, pick]
        by_cases he : e.date ≤ D
        · have hx : x.date ≤ D := by omega
          simp only [(notAfter_iff _ _).mpr he, (notAfter_iff _ _).mpr hx, he, if_true]
          cases hr : PriceMap.recent D xs with
          | none => simp <;> omega
          | some r => have := hxs r hr; simp <;> omega
        · have h1 : notAfter e.date D = false := (notAfter_false_iff _ _).mpr (by omega)
          have h2 : notAfter x.date D = false := (notAfter_false_iff _ _).mpr (by omega)
          simp [h1, h2, he]
      · -- e after x
        rename_i hnlt hne
        simp only [PriceMap.recent]
        rw [ih]
        by_cases hx : x.date ≤ D
        · simp only [(notAfter_iff _ _).mpr hx, if_true]
          simp only [pick]
          by_cases he : e.date ≤ D
          · simp only [he, if_true]
            cases hr : PriceMap.recent D xs with
            | none => simp <;> omega
            | some r =>
              have := hxs r hr
              by_cases hre : r.date ≤ e.date <;> simp [hre]
          · simp only [he, if_false]
        · have h2 : notAfter x.date D = false := (notAfter_false_iff _ _).mpr (by omega)
          have he : ¬ e.date ≤ D := by omega
          simp [h2, pick, he]

theorem foldl_insert_sorted (es : List Entry) {m : List Entry} (hs : Sorted m) :
    Sorted (es.foldl PriceMap.insert m) := by
  induction es generalizing m with
  | nil => exact hs
  | cons e es ih => exact ih (insert_sorted e hs)

theorem recent_foldl_insert (D : Int) (es : List Entry) {m : List Entry} (hs : Sorted m) :
    PriceMap.recent D (es.foldl PriceMap.insert m) = es.foldl (pick D) (PriceMap.recent D m) := by
  induction es generalizing m with
  | nil => rfl
  | cons e es ih =>
    simp only [List.foldl_cons]
    rw [ih (insert_sorted e hs), recent_insert D e hs]

/-! ### the graph -/

theorem edgePrices_addPrice (g : Graph) (e : Entry) (a b : Comm) :
    (g.addPrice e).edgePrices a b =
      if e.onPair a b then PriceMap.insert (g.edgePrices a b) e else g.edgePrices a b := by
  induction g with
  | nil =>
    simp only [Graph.addPrice, Graph.edgePrices, Edge.isPair, Entry.onPair, PriceMap.insert]
  | cons ed rest ih =>
    simp only [Graph.addPrice]
    split
    · rename_i hp
      simp only [Graph.edgePrices]
      unfold Edge.isPair at hp ⊢
      unfold Entry.onPair
      by_cases h1 : (ed.u = a ∧ ed.v = b) ∨ (ed.u = b ∧ ed.v = a)
      · have : (e.src = a ∧ e.tgt = b) ∨ (e.src = b ∧ e.tgt = a) := by grind
        simp [h1, this]
      · have : ¬ ((e.src = a ∧ e.tgt = b) ∨ (e.src = b ∧ e.tgt = a)) := by grind
        simp [h1, this]
    · rename_i hp
      simp only [Graph.edgePrices]
      unfold Edge.isPair at hp ⊢
      by_cases h1 : (ed.u = a ∧ ed.v = b) ∨ (ed.u = b ∧ ed.v = a)
      · have : ¬ e.onPair a b := by unfold Entry.onPair; grind
        simp [h1, this]
      · simp only [h1, if_false]; exact ih

theorem edgePrices_foldl (hist : List Entry) (g : Graph) (a b : Comm) :
    (hist.foldl Graph.addPrice g).edgePrices a b =
      (onEdge hist a b).foldl PriceMap.insert (g.edgePrices a b) := by
  induction hist generalizing g with
  | nil => rfl
  | cons e es ih =>
    simp only [List.foldl_cons, onEdge, List.filter_cons]
    rw [ih, edgePrices_addPrice]
    by_cases h : e.onPair a b <;> simp [h, onEdge]

/-- Refinement: the graph of sorted maps with `upper_bound` lookup computes the fold
    specification over the insertion-ordered history. -/
theorem recentEdge_eq_latestOn (hist : List Entry) (a b : Comm) (D : Int) :
    recentEdge hist a b D = latestOn hist a b D := by
  unfold recentEdge latestOn Graph.ofHistory
  rw [edgePrices_foldl]
  have : Sorted (Graph.edgePrices [] a b) := by simp [Graph.edgePrices, Sorted]
  rw [recent_foldl_insert D _ this]
  simp [Graph.edgePrices, PriceMap.recent]

/-! ### facts about the fold specification -/

theorem pick_foldl_sound {D : Int} (es : List Entry) (init : Option Entry) {r : Entry}
    (h : es.foldl (pick D) init = some r) : init = some r ∨ (r ∈ es ∧ r.date ≤ D) := by
  induction es generalizing init with
  | nil => exact Or.inl h
  | cons e es ih =>
    simp only [List.foldl_cons] at h
    rcases ih _ h with h' | h'
    · unfold pick at h'
      split at h'
      · rename_i he
        split at h'
        · cases h'; exact Or.inr ⟨List.mem_cons_self, he⟩
        · split at h'
          · cases h'; exact Or.inr ⟨List.mem_cons_self, he⟩
          · exact Or.inl h'
      · exact Or.inl h'
    · exact Or.inr ⟨List.mem_cons_of_mem _ h'.1, h'.2⟩

theorem pick_foldl_max {D : Int} (es : List Entry) (init : Option Entry) {r : Entry}
    (h : es.foldl (pick D) init = some r) :
    (∀ x ∈ es, x.date ≤ D → x.date ≤ r.date) ∧ (∀ b, init = some b → b.date ≤ r.date) := by
  induction es generalizing init with
  | nil => simp at h; subst h; simp
  | cons e es ih =>
    simp only [List.foldl_cons] at h
    have ⟨h1, h2⟩ := ih _ h
    refine ⟨?_, ?_⟩
    · intro x hx hxD
      rcases List.mem_cons.mp hx with rfl | hx
      · unfold pick at h2
        simp only [hxD, if_true] at h2
        cases init with
        | none => exact h2 _ rfl
        | some b =>
          simp only at h2
          by_cases hb : b.date ≤ x.date
          · simp only [hb, if_true] at h2; exact h2 _ rfl
          · simp only [hb, if_false] at h2; have := h2 _ rfl; omega
      · exact h1 x hx hxD
    · intro b hb
      subst hb
      unfold pick at h2
      by_cases he : e.date ≤ D
      · simp only [he, if_true] at h2
        by_cases hb : b.date ≤ e.date
        · simp only [hb, if_true] at h2; have := h2 _ rfl; omega
        · simp only [hb, if_false] at h2; exact h2 _ rfl
      · simp only [he, if_false] at h2; exact h2 _ rfl

theorem pick_foldl_none {D : Int} (es : List Entry) (init : Option Entry) :
    es.foldl (pick D) init = none ↔ init = none ∧ ∀ x ∈ es, D < x.date := by
  induction es generalizing init with
  | nil => simp
  | cons e es ih =>
    simp only [List.foldl_cons, ih, List.mem_cons, forall_eq_or_imp]
    unfold pick
    constructor
    · rintro ⟨h1, h2⟩
      by_cases he : e.date ≤ D
      · simp only [he, if_true] at h1
        cases init with
        | none => simp at h1
        | some b => simp only at h1; split at h1 <;> cases h1
      · simp only [he, if_false] at h1
        exact ⟨h1, by omega, h2⟩
    · rintro ⟨rfl, h1, h2⟩
      have : ¬ e.date ≤ D := by omega
      exact ⟨by simp [this], h2⟩

/-- Entries dated after `D` do not take part in the fold. -/
theorem pick_foldl_filter (D : Int) (es : List Entry) (init : Option Entry) :
    (es.filter (fun e => e.date ≤ D)).foldl (pick D) init = es.foldl (pick D) init := by
  induction es generalizing init with
  | nil => rfl
  | cons e es ih =>
    by_cases he : e.date ≤ D
    · simp [he, ih]
    · have hp : pick D init e = init := by simp [pick, he]
      simp only [List.filter_cons, he, decide_false, Bool.false_eq_true, if_false, List.foldl_cons, hp]
      exact ih init

theorem pick_foldl_stays {D : Int} (es : List Entry) (e : Entry)
    (h : ∀ x ∈ es, x.date ≤ D → x.date < e.date) : es.foldl (pick D) (some e) = some e := by
  induction es with
  | nil => rfl
  | cons x xs ih =>
    simp only [List.foldl_cons]
    have hx := h x List.mem_cons_self
    have : pick D (some e) x = some e := by
      unfold pick
      by_cases hxD : x.date ≤ D
      · have := hx hxD
        have h' : ¬ e.date ≤ x.date := by omega
        simp [hxD, h']
      · simp [hxD]
    rw [this]
    exact ih (fun y hy => h y (List.mem_cons_of_mem _ hy))

theorem pick_foldl_bounded {D : Int} (es : List Entry) (init : Option Entry) (M : Int)
    (hi : ∀ b, init = some b → b.date ≤ M) (h : ∀ x ∈ es, x.date ≤ D → x.date ≤ M) :
    ∀ b, es.foldl (pick D) init = some b → b.date ≤ M := by
  intro b hb
  rcases pick_foldl_sound es init hb with h' | h'
  · exact hi b h'
  · exact h b h'.1 h'.2

/-- The last eligible entry carrying the greatest date wins. -/
theorem pick_foldl_last_wins {D : Int} (l1 l2 : List Entry) (e : Entry) (he : e.date ≤ D)
    (h1 : ∀ x ∈ l1, x.date ≤ D → x.date ≤ e.date)
    (h2 : ∀ x ∈ l2, x.date ≤ D → x.date < e.date) :
    (l1 ++ e :: l2).foldl (pick D) none = some e := by
  rw [List.foldl_append, List.foldl_cons]
  have hb := pick_foldl_bounded l1 none e.date (by simp) h1
  have : pick D (l1.foldl (pick D) none) e = some e := by
    cases hr : l1.foldl (pick D) none with
    | none => simp [pick, he]
    | some b => have := hb b hr; simp [pick, he, this]
  rw [this]
  exact pick_foldl_stays l2 e h2

/-! ### the history-level characterisation of `recentEdge` -/

theorem mem_onEdge {hist : List Entry} {a b : Comm} {x : Entry} :
    x ∈ onEdge hist a b ↔ x ∈ hist ∧ x.onPair a b := by
  simp [onEdge]

theorem onEdge_filter_date (hist : List Entry) (a b : Comm) (D : Int) :
    onEdge (hist.filter (fun e => e.date ≤ D)) a b = (onEdge hist a b).filter (fun e => e.date ≤ D) := by
  simp only [onEdge, List.filter_filter]
  congr 1
  funext e
  exact Bool.and_comm _ _

theorem onEdge_append (l1 l2 : List Entry) (a b : Comm) :
    onEdge (l1 ++ l2) a b = onEdge l1 a b ++ onEdge l2 a b := by
  simp [onEdge]

theorem onPair_symm {e : Entry} {a b : Comm} : e.onPair a b ↔ e.onPair b a := by
  unfold Entry.onPair; constructor <;> (intro h; rcases h with h | h <;> simp [h])

theorem onEdge_symm (hist : List Entry) (a b : Comm) : onEdge hist a b = onEdge hist b a := by
  unfold onEdge
  congr 1
  funext e
  exact decide_eq_decide.mpr onPair_symm

theorem recentEdge_symm (hist : List Entry) (a b : Comm) (D : Int) :
    recentEdge hist a b D = recentEdge hist b a D := by
  simp only [recentEdge_eq_latestOn, latestOn, onEdge_symm hist a b]

/-! ### paths -/

/-- Every consecutive pair of the path has a price point. -/
def Linked (re : Comm → Comm → Option Entry) : List Comm → Prop
  | [] => True
  | [_] => True
  | a :: b :: rest => (re a b).isSome = true ∧ Linked re (b :: rest)

theorem rateAlong_of_linked (re : Comm → Comm → Option Entry) (p : List Comm) (h : Linked re p) :
    ∃ r, rateAlong re p = some r := by
  induction p with
  | nil => exact ⟨1, rfl⟩
  | cons a t ih =>
    cases t with
    | nil => exact ⟨1, rfl⟩
    | cons b rest =>
      simp only [Linked] at h
      obtain ⟨r, hr⟩ := ih h.2
      obtain ⟨e, he⟩ := Option.isSome_iff_exists.mp h.1
      exact ⟨rate e b * r, by simp [rateAlong, he, hr]⟩

theorem firstSome_eq_some {α β : Type} {f : α → Option β} {l : List α} {r : β}
    (h : firstSome f l = some r) : ∃ x ∈ l, f x = some r := by
  induction l with
  | nil => simp [firstSome] at h
  | cons x xs ih =>
    simp only [firstSome] at h
    split at h
    · rename_i r' hr'
      cases h
      exact ⟨x, List.mem_cons_self, hr'⟩
    · obtain ⟨y, hy, hfy⟩ := ih h
      exact ⟨y, List.mem_cons_of_mem _ hy, hfy⟩

/-- A path returned by the search starts at `cur`, ends at `tgt`, and every step has a
    price point. -/
theorem dfs_sound (re : Comm → Comm → Option Entry) (V : List Comm) (tgt : Comm) :
    ∀ (fuel : Nat) (vis : List Comm) (cur : Comm) (p : List Comm),
      dfs (fun a b => (re a b).isSome) V tgt fuel vis cur = some p →
      p.head? = some cur ∧ p.getLast? = some tgt ∧ Linked re p := by
  intro fuel
  induction fuel with
  | zero => intro vis cur p h; simp [dfs] at h
  | succ n ih =>
    intro vis cur p h
    simp only [dfs] at h
    split at h
    · rename_i hc
      cases h
      subst hc
      simp [Linked]
    · rename_i hc
      obtain ⟨p', hp', rfl⟩ := Option.map_eq_some_iff.mp h
      obtain ⟨c, hcmem, hdfs⟩ := firstSome_eq_some hp'
      have ⟨h1, h2, h3⟩ := ih _ _ _ hdfs
      have hadj : (re cur c).isSome = true := by
        have := (List.mem_filter.mp hcmem).2
        simp only [Bool.and_eq_true] at this
        exact this.1
      cases p' with
      | nil => simp at h1
      | cons x xs =>
        simp only [List.head?_cons, Option.some.injEq] at h1
        subst h1
        refine ⟨rfl, ?_, ?_⟩
        · simpa [List.getLast?_cons_cons] using h2
        · exact ⟨hadj, h3⟩

/-- The search is forced along `cur :: suf`: at every commodity of the path the only
    neighbour not yet visited is the next one (the shape of a simple chain, or of any
    walk through a forest). -/
def ChainFrom (adj : Comm → Comm → Bool) (V : List Comm) : List Comm → Comm → List Comm → Prop
  | _, _, [] => True
  | pre, cur, n :: suf =>
    adj cur n = true ∧ n ∈ V ∧ n ∉ cur :: pre ∧
    (∀ c ∈ V, adj cur c = true → c ∈ cur :: pre ∨ c = n) ∧
    ChainFrom adj V (cur :: pre) n suf

instance ChainFrom.dec (adj : Comm → Comm → Bool) (V : List Comm) :
    ∀ (pre : List Comm) (cur : Comm) (suf : List Comm), Decidable (ChainFrom adj V pre cur suf)
  | _, _, [] => isTrue trivial
  | pre, cur, n :: suf => by
    simp only [ChainFrom]
    have := ChainFrom.dec adj V (cur :: pre) n suf
    infer_instance

theorem chainFrom_fresh {adj : Comm → Comm → Bool} {V : List Comm} :
    ∀ (suf pre : List Comm) (cur : Comm), ChainFrom adj V pre cur suf → ∀ x ∈ suf, x ∉ cur :: pre := by
  intro suf
  induction suf with
  | nil => intro pre cur _ x hx; simp at hx
  | cons n suf ih =>
    intro pre cur h x hx
    simp only [ChainFrom] at h
    rcases List.mem_cons.mp hx with rfl | hx
    · exact h.2.2.1
    · have := ih _ _ h.2.2.2.2 x hx
      intro hmem
      exact this (List.mem_cons_of_mem _ hmem)

theorem firstSome_all_eq {α β : Type} [DecidableEq α] (f : α → Option β) (l : List α) (n : α) (r : β)
    (hne : n ∈ l) (hall : ∀ x ∈ l, x = n) (hf : f n = some r) : firstSome f l = some r := by
  cases l with
  | nil => simp at hne
  | cons x xs =>
    have : x = n := hall x List.mem_cons_self
    subst this
    simp [firstSome, hf]

/-- On a forced chain the search returns exactly that chain. -/
theorem dfs_chain (adj : Comm → Comm → Bool) (V : List Comm) (tgt : Comm) :
    ∀ (suf pre : List Comm) (cur : Comm) (fuel : Nat),
      ChainFrom adj V pre cur suf → suf.length < fuel → (cur :: suf).getLast? = some tgt →
      dfs adj V tgt fuel pre cur = some (cur :: suf) := by
  intro suf
  induction suf with
  | nil =>
    intro pre cur fuel _ hf hl
    simp at hl
    subst hl
    cases fuel with
    | zero => simp at hf
    | succ k => simp [dfs]
  | cons n suf ih =>
    intro pre cur fuel hch hf hl
    cases fuel with
    | zero => simp at hf
    | succ k =>
      have hfresh := chainFrom_fresh (n :: suf) pre cur hch
      simp only [ChainFrom] at hch
      obtain ⟨hadj, hnV, hnfresh, honly, hrest⟩ := hch
      have htgt_mem : tgt ∈ n :: suf := by
        rw [List.getLast?_cons_cons] at hl
        exact List.mem_of_getLast? hl
      have hne : cur ≠ tgt := by
        intro h
        subst h
        exact hfresh cur htgt_mem List.mem_cons_self
      have hrec : dfs adj V tgt k (cur :: pre) n = some (n :: suf) := by
        apply ih _ _ _ hrest
        · simp at hf; omega
        · rw [List.getLast?_cons_cons] at hl; exact hl
      simp only [dfs, hne, if_false]
      have hfs : firstSome (fun c => dfs adj V tgt k (cur :: pre) c)
          (V.filter (fun c => adj cur c && !(cur :: pre).contains c)) = some (n :: suf) := by
        apply firstSome_all_eq _ _ n _ _ _ hrec
        · apply List.mem_filter.mpr
          refine ⟨hnV, ?_⟩
          simp only [Bool.and_eq_true, hadj, true_and, Bool.not_eq_true']
          simpa using hnfresh
        · intro x hx
          have hx2 := (List.mem_filter.mp hx).2
          simp only [Bool.and_eq_true, Bool.not_eq_true'] at hx2
          rcases honly x (List.mem_filter.mp hx).1 hx2.1 with h | h
          · have : (cur :: pre).contains x = true := by simpa using h
            rw [this] at hx2
            exact absurd hx2.2 (by simp)
          · exact h
      rw [hfs]
      rfl

/-! ### -V: the neighbour with the latest price point -/

theorem marketStep_cases (c : Comm) (D : Int) (best : Option Entry) (ed : Edge) :
    (marketStep c D best ed = best ∧
      (ed.touches c → ∀ p, PriceMap.recent D ed.prices = some p → ∃ b, best = some b ∧ p.date ≤ b.date)) ∨
    (ed.touches c ∧ ∃ p, PriceMap.recent D ed.prices = some p ∧ marketStep c D best ed = some p ∧
      ∀ b, best = some b → b.date < p.date) := by
  unfold marketStep
  by_cases ht : ed.touches c
  · simp only [ht, if_true]
    cases hr : PriceMap.recent D ed.prices with
    | none => left; simp
    | some p =>
      cases best with
      | none => right; exact ⟨trivial, p, rfl, rfl, by simp⟩
      | some b =>
        by_cases hlt : b.date < p.date
        · right; refine ⟨trivial, p, rfl, by simp [hlt], ?_⟩
          intro b' hb'; cases hb'; exact hlt
        · left; refine ⟨by simp [hlt], ?_⟩
          intro _ p' hp'; cases hp'; exact ⟨b, rfl, by omega⟩
  · left; simp [ht]

theorem marketPick_foldl (c : Comm) (D : Int) (g : Graph) (init : Option Entry) {r : Entry}
    (h : g.foldl (marketStep c D) init = some r) :
    (init = some r ∨ ∃ ed ∈ g, ed.touches c ∧ PriceMap.recent D ed.prices = some r) ∧
    (∀ ed ∈ g, ed.touches c → ∀ p, PriceMap.recent D ed.prices = some p → p.date ≤ r.date) ∧
    (∀ b, init = some b → b.date ≤ r.date) := by
  induction g generalizing init with
  | nil => simp at h; subst h; simp
  | cons ed rest ih =>
    simp only [List.foldl_cons] at h
    have ⟨h1, h2, h3⟩ := ih _ h
    rcases marketStep_cases c D init ed with ⟨hs, hb⟩ | ⟨ht, p, hp, hs, hb⟩
    · rw [hs] at h1 h3
      refine ⟨?_, ?_, h3⟩
      · rcases h1 with h1 | ⟨ed', hm, h1⟩
        · exact Or.inl h1
        · exact Or.inr ⟨ed', List.mem_cons_of_mem _ hm, h1⟩
      · intro ed' hm ht p hp
        rcases List.mem_cons.mp hm with rfl | hm
        · obtain ⟨b, hb1, hb2⟩ := hb ht p hp
          have := h3 b hb1; omega
        · exact h2 ed' hm ht p hp
    · rw [hs] at h1 h3
      have hpr := h3 p rfl
      refine ⟨?_, ?_, ?_⟩
      · rcases h1 with h1 | ⟨ed', hm, h1⟩
        · cases h1; exact Or.inr ⟨ed, List.mem_cons_self, ht, hp⟩
        · exact Or.inr ⟨ed', List.mem_cons_of_mem _ hm, h1⟩
      · intro ed' hm ht' p' hp'
        rcases List.mem_cons.mp hm with rfl | hm
        · rw [hp] at hp'; cases hp'; exact hpr
        · exact h2 ed' hm ht' p' hp'
      · intro b hb'; have := hb b hb'; omega

/-! ### invariants of the graph built from a history -/

theorem addPrice_mem {g : Graph} {e : Entry} {b : Edge} (h : b ∈ g.addPrice e) :
    b ∈ g ∨
    (∃ b0 ∈ g, b0.isPair e.src e.tgt ∧ b.u = b0.u ∧ b.v = b0.v ∧ b.prices = PriceMap.insert b0.prices e) ∨
    (b.u = e.src ∧ b.v = e.tgt ∧ b.prices = [e]) := by
  induction g with
  | nil =>
    simp only [Graph.addPrice, List.mem_singleton] at h
    subst h
    exact Or.inr (Or.inr ⟨rfl, rfl, rfl⟩)
  | cons ed rest ih =>
    simp only [Graph.addPrice] at h
    split at h
    · rename_i hp
      rcases List.mem_cons.mp h with rfl | h
      · exact Or.inr (Or.inl ⟨ed, List.mem_cons_self, hp, rfl, rfl, rfl⟩)
      · exact Or.inl (List.mem_cons_of_mem _ h)
    · rcases List.mem_cons.mp h with rfl | h
      · exact Or.inl List.mem_cons_self
      · rcases ih h with h | ⟨b0, hb0, h⟩ | h
        · exact Or.inl (List.mem_cons_of_mem _ h)
        · exact Or.inr (Or.inl ⟨b0, List.mem_cons_of_mem _ hb0, h⟩)
        · exact Or.inr (Or.inr h)

theorem isPair_symm_args {ed : Edge} {a b : Comm} : ed.isPair a b ↔ ed.isPair b a := by
  unfold Edge.isPair; constructor <;> (intro h; rcases h with h | h <;> simp [h])

theorem isPair_self (ed : Edge) : ed.isPair ed.u ed.v := by
  unfold Edge.isPair; simp

/-- no two edges for the same pair -/
def Distinct (g : Graph) : Prop := g.Pairwise (fun a b => ¬ b.isPair a.u a.v)

theorem addPrice_distinct {g : Graph} (e : Entry) (hd : Distinct g) : Distinct (g.addPrice e) := by
  induction g with
  | nil => simp [Graph.addPrice, Distinct]
  | cons ed rest ih =>
    unfold Distinct at hd ih ⊢
    rw [List.pairwise_cons] at hd
    simp only [Graph.addPrice]
    split
    · exact List.pairwise_cons.mpr ⟨hd.1, hd.2⟩
    · rename_i hnp
      refine List.pairwise_cons.mpr ⟨?_, ih hd.2⟩
      intro b hb
      rcases addPrice_mem hb with h | ⟨b0, hb0, _, hu, hv, _⟩ | ⟨hu, hv, _⟩
      · exact hd.1 b h
      · have := hd.1 b0 hb0
        unfold Edge.isPair at this ⊢
        rw [hu, hv]; exact this
      · unfold Edge.isPair at hnp ⊢
        rw [hu, hv]
        intro h
        apply hnp
        rcases h with h | h
        · exact Or.inl ⟨h.1.symm, h.2.symm⟩
        · exact Or.inr ⟨h.2.symm, h.1.symm⟩

theorem edgePrices_of_mem {g : Graph} (hd : Distinct g) {ed : Edge} (h : ed ∈ g) :
    g.edgePrices ed.u ed.v = ed.prices := by
  induction g with
  | nil => simp at h
  | cons x rest ih =>
    unfold Distinct at hd ih
    rw [List.pairwise_cons] at hd
    simp only [Graph.edgePrices]
    rcases List.mem_cons.mp h with rfl | h
    · simp [isPair_self]
    · have hx : ¬ x.isPair ed.u ed.v := by
        have := hd.1 ed h
        unfold Edge.isPair at this ⊢
        intro hh
        apply this
        rcases hh with hh | hh
        · exact Or.inl ⟨hh.1.symm, hh.2.symm⟩
        · exact Or.inr ⟨hh.2.symm, hh.1.symm⟩
      simp only [hx, if_false]
      exact ih hd.2 h

/-- what the graph knows about the history it was built from -/
def Covers (hist : List Entry) (g : Graph) : Prop :=
  (∀ ed ∈ g, ∀ x ∈ ed.prices, x ∈ hist ∧ x.onPair ed.u ed.v) ∧
  (∀ x ∈ hist, ∃ ed ∈ g, ed.isPair x.src x.tgt)

theorem addPrice_has_edge (g : Graph) (e : Entry) : ∃ ed ∈ g.addPrice e, ed.isPair e.src e.tgt := by
  induction g with
  | nil => exact ⟨_, List.mem_singleton.mpr rfl, by simp [Edge.isPair]⟩
  | cons ed rest ih =>
    simp only [Graph.addPrice]
    split
    · rename_i hp
      exact ⟨_, List.mem_cons_self, hp⟩
    · obtain ⟨b, hb, hbp⟩ := ih
      exact ⟨b, List.mem_cons_of_mem _ hb, hbp⟩

theorem addPrice_keeps_edge {g : Graph} (e : Entry) {ed : Edge} (h : ed ∈ g) :
    ∃ b ∈ g.addPrice e, b.u = ed.u ∧ b.v = ed.v := by
  induction g with
  | nil => simp at h
  | cons x rest ih =>
    simp only [Graph.addPrice]
    split
    · rcases List.mem_cons.mp h with rfl | h
      · exact ⟨_, List.mem_cons_self, rfl, rfl⟩
      · exact ⟨ed, List.mem_cons_of_mem _ h, rfl, rfl⟩
    · rcases List.mem_cons.mp h with rfl | h
      · exact ⟨_, List.mem_cons_self, rfl, rfl⟩
      · obtain ⟨b, hb, hbu⟩ := ih h
        exact ⟨b, List.mem_cons_of_mem _ hb, hbu⟩

theorem addPrice_covers {hist : List Entry} {g : Graph} (e : Entry) (hc : Covers hist g) :
    Covers (hist ++ [e]) (g.addPrice e) := by
  refine ⟨?_, ?_⟩
  · intro b hb x hx
    rcases addPrice_mem hb with h | ⟨b0, hb0, hp, hu, hv, hpr⟩ | ⟨hu, hv, hpr⟩
    · have := hc.1 b h x hx
      exact ⟨List.mem_append_left _ this.1, this.2⟩
    · rw [hpr] at hx
      rcases mem_insert hx with rfl | hx
      · refine ⟨by simp, ?_⟩
        unfold Entry.onPair; unfold Edge.isPair at hp
        rw [hu, hv]
        rcases hp with hp | hp
        · exact Or.inl ⟨hp.1.symm, hp.2.symm⟩
        · exact Or.inr ⟨hp.2.symm, hp.1.symm⟩
      · have := hc.1 b0 hb0 x hx
        exact ⟨List.mem_append_left _ this.1, by rw [hu, hv]; exact this.2⟩
    · rw [hpr] at hx
      simp at hx
      subst hx
      exact ⟨by simp, by unfold Entry.onPair; rw [hu, hv]; simp⟩
  · intro x hx
    rcases List.mem_append.mp hx with hx | hx
    · obtain ⟨ed, hed, hp⟩ := hc.2 x hx
      obtain ⟨b, hb, hbu, hbv⟩ := addPrice_keeps_edge e hed
      refine ⟨b, hb, ?_⟩
      unfold Edge.isPair at hp ⊢
      rw [hbu, hbv]; exact hp
    · simp at hx
      subst hx
      exact addPrice_has_edge g x

theorem foldl_addPrice_inv (es : List Entry) :
    ∀ (hist : List Entry) (g : Graph), Distinct g → Covers hist g →
      Distinct (es.foldl Graph.addPrice g) ∧ Covers (hist ++ es) (es.foldl Graph.addPrice g) := by
  induction es with
  | nil => intro hist g hd hc; simpa using ⟨hd, hc⟩
  | cons e es ih =>
    intro hist g hd hc
    have := ih (hist ++ [e]) (g.addPrice e) (addPrice_distinct e hd) (addPrice_covers e hc)
    simpa [List.append_assoc] using this

theorem ofHistory_inv (hist : List Entry) :
    Distinct (Graph.ofHistory hist) ∧ Covers hist (Graph.ofHistory hist) := by
  have := foldl_addPrice_inv hist [] [] (by simp [Distinct]) (by simp [Covers])
  simpa [Graph.ofHistory] using this

/-- The price point of an edge of the graph is the price point of its pair. -/
theorem recent_of_edge (hist : List Entry) (D : Int) {ed : Edge} (h : ed ∈ Graph.ofHistory hist) :
    PriceMap.recent D ed.prices = recentEdge hist ed.u ed.v D := by
  unfold recentEdge
  rw [edgePrices_of_mem (ofHistory_inv hist).1 h]

/-! ### history-level facts about `recentEdge` (used by Props/C10 and by the -V lemmas) -/

theorem recentEdge_sound {hist : List Entry} {a b : Comm} {D : Int} {e : Entry}
    (h : recentEdge hist a b D = some e) :
    e ∈ hist ∧ e.onPair a b ∧ e.date ≤ D ∧
    ∀ x ∈ hist, x.onPair a b → x.date ≤ D → x.date ≤ e.date := by
  rw [recentEdge_eq_latestOn] at h
  unfold latestOn at h
  have hs := pick_foldl_sound _ _ h
  have hm := pick_foldl_max _ _ h
  rcases hs with hs | hs
  · cases hs
  · have hmem := mem_onEdge.mp hs.1
    refine ⟨hmem.1, hmem.2, hs.2, ?_⟩
    intro x hx hxp hxD
    exact hm.1 x (mem_onEdge.mpr ⟨hx, hxp⟩) hxD

theorem recentEdge_none_iff (hist : List Entry) (a b : Comm) (D : Int) :
    recentEdge hist a b D = none ↔ ∀ x ∈ hist, x.onPair a b → D < x.date := by
  rw [recentEdge_eq_latestOn]
  unfold latestOn
  rw [pick_foldl_none]
  constructor
  · intro h x hx hxp; exact h.2 x (mem_onEdge.mpr ⟨hx, hxp⟩)
  · intro h; exact ⟨rfl, fun x hx => h x (mem_onEdge.mp hx).1 (mem_onEdge.mp hx).2⟩

theorem recentEdge_filter_date (hist : List Entry) (a b : Comm) (D : Int) :
    recentEdge (hist.filter (fun e => e.date ≤ D)) a b D = recentEdge hist a b D := by
  simp only [recentEdge_eq_latestOn, latestOn, onEdge_filter_date, pick_foldl_filter]

/-! ### -V at the level of the history -/

/-- the entry involves the commodity `c` -/
def Entry.touches (e : Entry) (c : Comm) : Prop := e.src = c ∨ e.tgt = c

instance (e : Entry) (c : Comm) : Decidable (e.touches c) := by unfold Entry.touches; infer_instance

theorem marketPick_foldl_none (c : Comm) (D : Int) (g : Graph) (init : Option Entry) :
    g.foldl (marketStep c D) init = none ↔
      init = none ∧ ∀ ed ∈ g, ed.touches c → PriceMap.recent D ed.prices = none := by
  induction g generalizing init with
  | nil => simp
  | cons ed rest ih =>
    simp only [List.foldl_cons, ih, List.mem_cons, forall_eq_or_imp]
    rcases marketStep_cases c D init ed with ⟨hs, hb⟩ | ⟨ht, p, hp, hs, hb⟩
    · rw [hs]
      constructor
      · rintro ⟨rfl, h⟩
        refine ⟨rfl, ?_, h⟩
        intro ht
        cases hr : PriceMap.recent D ed.prices with
        | none => rfl
        | some p => obtain ⟨b, hb1, _⟩ := hb ht p hr; cases hb1
      · rintro ⟨rfl, _, h⟩; exact ⟨rfl, h⟩
    · rw [hs]
      constructor
      · rintro ⟨h, _⟩; cases h
      · rintro ⟨_, h, _⟩; rw [h ht] at hp; cases hp

theorem touches_of_onPair {e : Entry} {ed : Edge} {c : Comm} (hp : e.onPair ed.u ed.v) (ht : ed.touches c) :
    e.touches c := by
  unfold Entry.onPair at hp; unfold Edge.touches at ht; unfold Entry.touches
  rcases hp with hp | hp <;> rcases ht with ht | ht
  · exact Or.inl (hp.1.trans ht)
  · exact Or.inr (hp.2.trans ht)
  · exact Or.inr (hp.2.trans ht)
  · exact Or.inl (hp.1.trans ht)

theorem onPair_of_isPair {x : Entry} {ed : Edge} (h : ed.isPair x.src x.tgt) : x.onPair ed.u ed.v := by
  unfold Edge.isPair at h; unfold Entry.onPair
  rcases h with h | h
  · exact Or.inl ⟨h.1.symm, h.2.symm⟩
  · exact Or.inr ⟨h.2.symm, h.1.symm⟩

theorem edge_touches_of_entry {x : Entry} {ed : Edge} {c : Comm} (h : ed.isPair x.src x.tgt) (ht : x.touches c) :
    ed.touches c := by
  unfold Edge.isPair at h; unfold Entry.touches at ht; unfold Edge.touches
  rcases h with h | h <;> rcases ht with ht | ht
  · exact Or.inl (h.1.trans ht)
  · exact Or.inr (h.2.trans ht)
  · exact Or.inr (h.2.trans ht)
  · exact Or.inl (h.1.trans ht)

/-- What -V picks for `c`: a recorded price involving `c`, dated not after `D`, such that no
    recorded price involving `c` lies in `(chosen, D]`; and it is the price point of its pair. -/
theorem marketPick_hist {hist : List Entry} {c : Comm} {D : Int} {e : Entry}
    (h : marketPick (Graph.ofHistory hist) c D = some e) :
    e ∈ hist ∧ e.touches c ∧ e.date ≤ D ∧
    (∀ x ∈ hist, x.touches c → x.date ≤ D → x.date ≤ e.date) ∧
    recentEdge hist e.src e.tgt D = some e := by
  have ⟨hd, hc⟩ := ofHistory_inv hist
  have ⟨h1, h2, _⟩ := marketPick_foldl c D _ none h
  rcases h1 with h1 | ⟨ed, hed, ht, hr⟩
  · cases h1
  · have hm := recent_mem_le hr
    have hcov := hc.1 ed hed e hm.1
    refine ⟨hcov.1, touches_of_onPair hcov.2 ht, hm.2, ?_, ?_⟩
    · intro x hx hxt hxD
      obtain ⟨ed', hed', hp'⟩ := hc.2 x hx
      have ht' := edge_touches_of_entry hp' hxt
      have hrr := recent_of_edge hist D hed'
      cases hr' : PriceMap.recent D ed'.prices with
      | none =>
        rw [hr'] at hrr
        have := (recentEdge_none_iff hist ed'.u ed'.v D).mp hrr.symm x hx (onPair_of_isPair hp')
        omega
      | some p =>
        have hle := h2 ed' hed' ht' p hr'
        rw [hr'] at hrr
        have := (recentEdge_sound hrr.symm).2.2.2 x hx (onPair_of_isPair hp') hxD
        omega
    · have hrr := recent_of_edge hist D hed
      rw [hr] at hrr
      have hp := hcov.2
      unfold Entry.onPair at hp
      rcases hp with hp | hp
      · rw [hp.1, hp.2]; exact hrr.symm
      · rw [hp.1, hp.2, recentEdge_symm]; exact hrr.symm

theorem marketPick_hist_none (hist : List Entry) (c : Comm) (D : Int) :
    marketPick (Graph.ofHistory hist) c D = none ↔ ∀ x ∈ hist, x.touches c → D < x.date := by
  have ⟨hd, hc⟩ := ofHistory_inv hist
  unfold marketPick
  rw [marketPick_foldl_none]
  constructor
  · rintro ⟨_, h⟩ x hx hxt
    obtain ⟨ed, hed, hp⟩ := hc.2 x hx
    have hr := h ed hed (edge_touches_of_entry hp hxt)
    rw [recent_of_edge hist D hed] at hr
    exact (recentEdge_none_iff hist ed.u ed.v D).mp hr x hx (onPair_of_isPair hp)
  · intro h
    refine ⟨rfl, ?_⟩
    intro ed hed ht
    rw [recent_of_edge hist D hed, recentEdge_none_iff]
    intro x hx hxp
    exact h x hx (touches_of_onPair hxp ht)

/-- No two recorded prices of `c` in *different* units carry the same moment (among those
    dated not after `D`): then the neighbour -V picks does not depend on edge order. -/
def NoCrossTies (hist : List Entry) (c : Comm) (D : Int) : Prop :=
  ∀ x ∈ hist, ∀ y ∈ hist, x.touches c → y.touches c → x.date ≤ D → y.date ≤ D →
    x.date = y.date → x.onPair y.src y.tgt

instance (hist : List Entry) (c : Comm) (D : Int) : Decidable (NoCrossTies hist c D) := by
  unfold NoCrossTies; infer_instance

theorem marketPick_filter_date {hist : List Entry} {c : Comm} {D : Int} (hg : NoCrossTies hist c D) :
    marketPick (Graph.ofHistory (hist.filter (fun e => e.date ≤ D))) c D =
      marketPick (Graph.ofHistory hist) c D := by
  have hmemF : ∀ x, x ∈ hist.filter (fun e => e.date ≤ D) ↔ x ∈ hist ∧ x.date ≤ D := by
    intro x; simp
  cases h1 : marketPick (Graph.ofHistory hist) c D with
  | none =>
    rw [marketPick_hist_none] at h1 ⊢
    intro x hx hxt
    exact h1 x ((hmemF x).mp hx).1 hxt
  | some e1 =>
    have ⟨m1, t1, d1, mx1, r1⟩ := marketPick_hist h1
    cases h2 : marketPick (Graph.ofHistory (hist.filter (fun e => e.date ≤ D))) c D with
    | none =>
      rw [marketPick_hist_none] at h2
      have := h2 e1 ((hmemF e1).mpr ⟨m1, d1⟩) t1
      omega
    | some e2 =>
      have ⟨m2, t2, d2, mx2, r2⟩ := marketPick_hist h2
      have m2' := ((hmemF e2).mp m2).1
      have hle1 := mx1 e2 m2' t2 d2
      have hle2 := mx2 e1 ((hmemF e1).mpr ⟨m1, d1⟩) t1 d1
      have hp := hg e1 m1 e2 m2' t1 t2 d1 d2 (by omega)
      rw [recentEdge_filter_date] at r2
      unfold Entry.onPair at hp
      rcases hp with hp | hp
      · rw [hp.1, hp.2, r2] at r1; exact r1
      · rw [hp.1, hp.2, recentEdge_symm, r2] at r1; exact r1

end Ledger.Prices
