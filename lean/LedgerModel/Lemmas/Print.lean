/-
Lemmas for C06: the string-level round trip of Model/Print.lean's printer and
reader.  Core Lean only.
-/
import LedgerModel.Model.Print

set_option linter.unusedSimpArgs false
set_option linter.unusedVariables false

namespace Ledger
namespace Print

/-! ### white space -/

theorem isSpaceC_space : isSpaceC ' ' = true := by decide
theorem isWs_space : isWs ' ' = true := by decide

theorem isWs_imp_isSpaceC {ch : Char} (h : isWs ch = true) : isSpaceC ch = true := by
  simp [isWs, isSpaceC] at *
  rcases h with h | h <;> simp [h]

theorem spaces_succ (n : Nat) : spaces (n + 1) = ' ' :: spaces n := by
  simp [spaces, List.replicate_succ]

theorem spaces_zero : spaces 0 = [] := rfl

theorem spaces_length (n : Nat) : (spaces n).length = n := by simp [spaces]

theorem mem_spaces {n : Nat} {ch : Char} (h : ch ∈ spaces n) : ch = ' ' := by
  simp [spaces, List.mem_replicate] at h; exact h.2

theorem spaces_add (m n : Nat) : spaces (m + n) = spaces m ++ spaces n := by
  induction m with
  | zero => simp [spaces]
  | succ k ih => rw [Nat.succ_add, spaces_succ, spaces_succ, ih]; rfl

theorem skipWs_spaces_append (n : Nat) (s : Str) : skipWs (spaces n ++ s) = skipWs s := by
  unfold skipWs
  apply List.dropWhile_append_of_pos
  intro a ha; rw [mem_spaces ha]; rfl

theorem skipWs_of_head {s : Str} (h : ∀ ch, s.head? = some ch → isWs ch = false) : skipWs s = s := by
  cases s with
  | nil => rfl
  | cons ch t =>
    have := h ch rfl
    simp [skipWs, List.dropWhile_cons, this]

theorem rtrim_append_spaces (s : Str) (n : Nat) : rtrim (s ++ spaces n) = rtrim s := by
  unfold rtrim
  rw [List.reverse_append]
  have : (spaces n).reverse = spaces n := by simp [spaces]
  rw [this, List.dropWhile_append_of_pos]
  intro a ha; rw [mem_spaces ha]; rfl

theorem rtrim_of_endOk {s : Str} (h : endOk s = true) : rtrim s = s := by
  unfold endOk at h
  rcases List.eq_nil_or_concat s with rfl | ⟨t, ch, rfl⟩
  · rfl
  · rw [List.concat_eq_append] at *
    rw [List.getLast?_concat] at h
    simp at h
    unfold rtrim
    rw [List.reverse_concat, List.dropWhile_cons]
    simp [h]

theorem endOk_append_of_ne_nil {s t : Str} (ht : t ≠ []) (h : endOk t = true) : endOk (s ++ t) = true := by
  unfold endOk at *
  rw [List.getLast?_append]
  cases hl : t.getLast? with
  | none => exact absurd (List.getLast?_eq_none_iff.mp hl) ht
  | some ch => simpa [hl] using h

theorem endOk_cons_of_endOk {ch : Char} {t : Str} (ht : t ≠ []) (h : endOk t = true) : endOk (ch :: t) = true := by
  have := endOk_append_of_ne_nil (s := [ch]) ht h
  simpa using this

theorem endOk_singleton {ch : Char} (h : isSpaceC ch = false) : endOk [ch] = true := by
  simp [endOk, h]

/-! ### cutAt -/

theorem cutAt_none {ch : Char} {a : Str} (h : ∀ x ∈ a, x ≠ ch) : cutAt ch a = (a, none) := by
  unfold cutAt
  have h1 : a.takeWhile (· != ch) = a := by
    have := List.takeWhile_append_of_pos (p := (· != ch)) (l₁ := a) (l₂ := [])
      (by intro x hx; simpa using h x hx)
    simpa using this
  have h2 : a.dropWhile (· != ch) = [] := by
    have := List.dropWhile_append_of_pos (p := (· != ch)) (l₁ := a) (l₂ := [])
      (by intro x hx; simpa using h x hx)
    simpa using this
  rw [h1, h2]

theorem cutAt_some {ch : Char} {a b : Str} (h : ∀ x ∈ a, x ≠ ch) : cutAt ch (a ++ ch :: b) = (a, some b) := by
  unfold cutAt
  have h1 : (a ++ ch :: b).takeWhile (· != ch) = a := by
    rw [List.takeWhile_append_of_pos (by intro x hx; simpa using h x hx)]
    simp [List.takeWhile_cons]
  have h2 : (a ++ ch :: b).dropWhile (· != ch) = ch :: b := by
    rw [List.dropWhile_append_of_pos (by intro x hx; simpa using h x hx)]
    simp [List.dropWhile_cons]
  rw [h1, h2]

/-! ### trimSp -/

theorem trimSp_spaces_append_spaces {t : Str} (i j : Nat) (hne : t ≠ [])
    (hh : ∀ ch, t.head? = some ch → isWs ch = false) (he : endOk t = true) :
    trimSp (spaces i ++ t ++ spaces j) = t := by
  unfold trimSp
  rw [List.append_assoc, skipWs_spaces_append]
  have : skipWs (t ++ spaces j) = t ++ spaces j := by
    cases t with
    | nil => exact absurd rfl hne
    | cons ch r =>
      apply skipWs_of_head
      intro c hc
      simp at hc
      exact hh c (by simp [hc])
  rw [this, rtrim_append_spaces, rtrim_of_endOk he]

/-! ### facts packed in the Bool predicates -/

theorem noCtl_mem {s : Str} (h : noCtl s = true) {ch : Char} (hm : ch ∈ s) (hs : isSpaceC ch = true) : ch = ' ' := by
  unfold noCtl at h
  have := List.all_eq_true.mp h ch hm
  simp [hs] at this
  exact this

theorem noCtl_not_tab {s : Str} (h : noCtl s = true) {ch : Char} (hm : ch ∈ s) : ch ≠ '\t' := by
  intro e
  have := noCtl_mem h hm (by rw [e]; decide)
  rw [e] at this
  exact absurd this (by decide)

theorem noCtl_cons {ch : Char} {t : Str} (h : noCtl (ch :: t) = true) : noCtl t = true := by
  unfold noCtl at *
  simp only [List.all_cons, Bool.and_eq_true] at h
  exact h.2

theorem noCtl_append {a b : Str} : noCtl (a ++ b) = (noCtl a && noCtl b) := by
  simp [noCtl, List.all_append]

theorem noDblSp_cons {ch : Char} {t : Str} (h : noDblSp (ch :: t) = true) :
    ¬ (ch = ' ' ∧ t.head? = some ' ') ∧ noDblSp t = true := by
  simp only [noDblSp, Bool.and_eq_true, Bool.not_eq_true', Bool.and_eq_false_iff] at h
  refine ⟨?_, h.2⟩
  rintro ⟨rfl, h2⟩
  rcases h.1 with h1 | h1
  · simp at h1
  · simp [h2] at h1

theorem endOk_tail {ch : Char} {t : Str} (h : endOk (ch :: t) = true) (ht : t ≠ []) : endOk t = true := by
  unfold endOk at *
  rcases List.eq_nil_or_concat t with rfl | ⟨u, c, rfl⟩
  · exact absurd rfl ht
  · rw [List.concat_eq_append] at *
    have : (ch :: (u ++ [c])).getLast? = some c := by
      have := List.getLast?_concat (l := ch :: u) (a := c)
      simpa using this
    rw [this] at h
    rw [List.getLast?_concat]
    exact h

theorem endOk_single_ne_space {ch : Char} (h : endOk [ch] = true) : isSpaceC ch = false := by
  simpa [endOk] using h

/-! ### next_element -/

theorem nextElem_spaces {k : Nat} (hk : 2 ≤ k) (rest : Str)
    (hr : ∀ ch, rest.head? = some ch → isWs ch = false) :
    nextElem (spaces k ++ rest) = ([], some rest) := by
  obtain ⟨m, rfl⟩ : ∃ m, k = m + 2 := ⟨k - 2, by omega⟩
  rw [spaces_succ, spaces_succ]
  simp only [List.cons_append]
  unfold nextElem
  have : ¬ ((' ' : Char) = '\t') := by decide
  simp only [this, if_false]
  simp only [List.head?_cons, true_and, if_true, List.tail_cons]
  rw [skipWs_spaces_append, skipWs_of_head hr]

theorem nextElem_name (name : Str) (k : Nat) (rest : Str)
    (hc : noCtl name = true) (hd : noDblSp name = true) (he : endOk name = true) (hne : name ≠ [])
    (hk : 2 ≤ k) (hr : ∀ ch, rest.head? = some ch → isWs ch = false) :
    nextElem (name ++ spaces k ++ rest) = (name, some rest) := by
  induction name with
  | nil => exact absurd rfl hne
  | cons ch t ih =>
    have hnt : ch ≠ '\t' := noCtl_not_tab hc (by simp)
    have ⟨hd1, hd2⟩ := noDblSp_cons hd
    simp only [List.cons_append]
    unfold nextElem
    simp only [hnt, if_false]
    by_cases ht : t = []
    · subst ht
      have hsp : isSpaceC ch = false := endOk_single_ne_space he
      have hch : ch ≠ ' ' := by intro e; rw [e] at hsp; exact absurd hsp (by decide)
      simp only [List.nil_append, hch, false_and, if_false]
      rw [nextElem_spaces hk rest hr]
    · have hcond : ¬ (ch = ' ' ∧ (t ++ spaces k ++ rest).head? = some ' ') := by
        rintro ⟨e, h2⟩
        apply hd1
        refine ⟨e, ?_⟩
        cases t with
        | nil => exact absurd rfl ht
        | cons c u => simpa using h2
      simp only [hcond, if_false]
      rw [ih (noCtl_cons hc) hd2 (endOk_tail he ht) ht]

theorem nextElem_none (name : Str)
    (hc : noCtl name = true) (hd : noDblSp name = true) :
    nextElem name = (name, none) := by
  induction name with
  | nil => rfl
  | cons ch t ih =>
    have hnt : ch ≠ '\t' := noCtl_not_tab hc (by simp)
    have ⟨hd1, hd2⟩ := noDblSp_cons hd
    unfold nextElem
    simp only [hnt, if_false, hd1]
    rw [ih (noCtl_cons hc) hd2]

/-! ### state flag, brackets -/

theorem takeState_mark (s : Nat) (hs : s ≤ 2) (r : Str)
    (h1 : r.head? ≠ some '*') (h2 : r.head? ≠ some '!')
    (hw : ∀ ch, r.head? = some ch → isWs ch = false) :
    takeState (stateMark s ++ r) = (s, r) := by
  have : s = 0 ∨ s = 1 ∨ s = 2 := by omega
  rcases this with rfl | rfl | rfl
  · simp [stateMark, takeState, h1, h2]
  · simp only [stateMark, takeState]
    simp
    have := skipWs_spaces_append 1 r
    simp [spaces] at this
    rw [this, skipWs_of_head hw]
  · simp only [stateMark, takeState]
    simp
    have := skipWs_spaces_append 1 r
    simp [spaces] at this
    rw [this, skipWs_of_head hw]

def bracketed (k : PostKind) (a : Str) : Str :=
  match k with
  | .real => a
  | .virtual => '(' :: a ++ [')']
  | .bvirtual => '[' :: a ++ [']']

theorem unbracket_bracketed (k : PostKind) (a : Str)
    (h1 : a.head? ≠ some '(') (h2 : a.head? ≠ some '[') :
    unbracket (bracketed k a) = (k, a) := by
  cases k with
  | real => simp [bracketed, unbracket, h1, h2]
  | virtual =>
    simp only [bracketed, unbracket]
    have : (('(' :: a ++ [')']) : Str).tail.getLast? = some ')' := by
      simp [List.getLast?_concat]
    simp [this, List.dropLast_concat]
  | bvirtual =>
    simp only [bracketed, unbracket]
    have e1 : (('[' :: a ++ [']']) : Str).head? ≠ some '(' := by simp
    have : (('[' :: a ++ [']']) : Str).tail.getLast? = some ']' := by
      simp [List.getLast?_concat]
    simp [this, List.dropLast_concat]

/-! ### amount texts -/

structure AmtTextFacts (s : Str) : Prop where
  ne     : s ≠ []
  head   : ∀ ch, s.head? = some ch → isWs ch = false
  headC  : ∀ ch, s.head? = some ch → isSpaceC ch = false
  endOk  : endOk s = true
  noSemi : ∀ x ∈ s, x ≠ ';'
  noEq   : ∀ x ∈ s, x ≠ '='
  noAt   : ∀ x ∈ s, x ≠ '@'

theorem amtTextFacts {s : Str} (h : amtTextOk s = true) : AmtTextFacts s := by
  unfold amtTextOk at h
  simp only [Bool.and_eq_true, Bool.not_eq_true', bne_iff_ne, ne_eq, List.all_eq_true] at h
  obtain ⟨⟨⟨⟨h1, h2⟩, h3⟩, h4⟩, h5⟩ := h
  have hne : s ≠ [] := by intro e; simp [e] at h1
  have hhead : ∀ ch, s.head? = some ch → isSpaceC ch = false := by
    intro ch hch
    cases hsp : isSpaceC ch with
    | false => rfl
    | true =>
      have hm : ch ∈ s := by
        obtain ⟨t, rfl⟩ := List.head?_eq_some_iff.mp hch
        simp
      have := noCtl_mem h2 hm hsp
      rw [this] at hch
      exact absurd hch h3
  refine ⟨hne, ?_, hhead, h4, fun x hx => (h5 x hx).1.1, fun x hx => (h5 x hx).1.2, fun x hx => (h5 x hx).2⟩
  intro ch hch
  cases hw : isWs ch with
  | false => rfl
  | true => have := hhead ch hch; rw [isWs_imp_isSpaceC hw] at this; exact absurd this (by decide)

theorem amtText_zero_ok : amtTextOk ['0'] = true := by decide

theorem amtText_ok (c : AmtCodec) (hc : c.Lawful) (a : Qty) (hd : c.dom a = true) :
    amtTextOk (amtText c a) = true := by
  unfold amtText
  split
  · exact amtText_zero_ok
  · exact hc.showAmt_ok a hd

def sfxText (n : Option Str) : Str :=
  match n with
  | none => []
  | some l => ' ' :: ' ' :: ';' :: l

theorem mem_spaces_ne {n : Nat} {x ch : Char} (hx : x ∈ spaces n) (h : ch ≠ ' ') : x ≠ ch := by
  rw [mem_spaces hx]; exact fun e => h e.symm

/-- cutting the note off: `X` holds no `;`. -/
theorem cutAt_semi (X : Str) (hX : ∀ x ∈ X, x ≠ ';') (sfx : Option Str) :
    cutAt ';' (X ++ sfxText sfx) = (X ++ spaces (if sfx.isSome then 2 else 0), sfx) := by
  cases sfx with
  | none => simp [sfxText, spaces, cutAt_none hX]
  | some l =>
    have : X ++ sfxText (some l) = (X ++ spaces 2) ++ ';' :: l := by simp [sfxText, spaces]
    rw [this, cutAt_some]
    · simp
    · intro x hx
      rcases List.mem_append.mp hx with h | h
      · exact hX x h
      · exact mem_spaces_ne h (by decide)

theorem readAsg_spec (c : AmtCodec) (hc : c.Lawful) (b : Qty) (hd : c.dom b = true) (j : Nat) :
    readAsg c (some (spaces 1 ++ c.showAmt b ++ spaces j)) = .ok (some (c.disp b)) := by
  have f := amtTextFacts (hc.showAmt_ok b hd)
  unfold readAsg
  simp only
  rw [trimSp_spaces_append_spaces 1 j f.ne f.head f.endOk, hc.read_showAmt b hd]

/-- cutting the assignment off: `M` holds no `=`. -/
theorem cutAt_eq (c : AmtCodec) (M : Str) (hM : ∀ x ∈ M, x ≠ '=') (p : PPost) (j : Nat) :
    cutAt '=' (M ++ assignText c p ++ spaces j) =
      match p.assigned with
      | none => (M ++ spaces j, none)
      | some b => (M ++ spaces 1, some (spaces 1 ++ c.showAmt b ++ spaces j)) := by
  unfold assignText
  cases p.assigned with
  | none =>
    simp only [List.append_nil]
    rw [cutAt_none]
    intro x hx
    rcases List.mem_append.mp hx with h | h
    · exact hM x h
    · exact mem_spaces_ne h (by decide)
  | some b =>
    simp only
    have : M ++ ([' ', '=', ' '] ++ c.showAmt b) ++ spaces j = (M ++ spaces 1) ++ '=' :: (spaces 1 ++ c.showAmt b ++ spaces j) := by
      simp [spaces]
    rw [this, cutAt_some]
    intro x hx
    rcases List.mem_append.mp hx with h | h
    · exact hM x h
    · exact mem_spaces_ne h (by decide)

theorem costOp_eq (f : Bool) : costOp f = spaces 1 ++ '@' :: ((if f then ['@'] else []) ++ spaces 1) := by
  cases f <;> simp [costOp, spaces]

/-- cutting the cost off: `T` holds no `@`. -/
theorem cutAt_at (c : AmtCodec) (T : Str) (hT : ∀ x ∈ T, x ≠ '@') (p : PPost) (a : Qty) (j : Nat) :
    cutAt '@' (T ++ costText c p a ++ spaces j) =
      match p.cost with
      | none => (T ++ spaces j, none)
      | some k => (T ++ spaces 1,
          some ((if k.inFull then ['@'] else []) ++ spaces 1 ++ c.showCost (printedCost k.given a k.inFull) ++ spaces j)) := by
  unfold costText
  cases p.cost with
  | none =>
    simp only [List.append_nil]
    rw [cutAt_none]
    intro x hx
    rcases List.mem_append.mp hx with h | h
    · exact hT x h
    · exact mem_spaces_ne h (by decide)
  | some k =>
    simp only
    have : T ++ (costOp k.inFull ++ c.showCost (printedCost k.given a k.inFull)) ++ spaces j =
        (T ++ spaces 1) ++ '@' :: ((if k.inFull then ['@'] else []) ++ spaces 1 ++
          c.showCost (printedCost k.given a k.inFull) ++ spaces j) := by
      rw [costOp_eq]; simp
    rw [this, cutAt_some]
    intro x hx
    rcases List.mem_append.mp hx with h | h
    · exact hT x h
    · exact mem_spaces_ne h (by decide)

theorem readCost_spec (c : AmtCodec) (hc : c.Lawful) (a' : Qty) (u : Qty) (hu : c.fullOk u = true) (f : Bool) (j : Nat) :
    readCost c a' (some ((if f then ['@'] else []) ++ spaces 1 ++ c.showCost u ++ spaces j)) =
      .ok (some { given := mkGiven a' u f, inFull := f }) := by
  have ft := amtTextFacts (hc.showCost_ok u hu)
  unfold readCost
  simp only
  cases f with
  | true =>
    have h1 : splitCostOp (['@'] ++ spaces 1 ++ c.showCost u ++ spaces j) = (true, spaces 1 ++ c.showCost u ++ spaces j) := by
      simp [splitCostOp]
    simp only [if_true]
    rw [h1]
    simp only
    rw [trimSp_spaces_append_spaces 1 j ft.ne ft.head ft.endOk, hc.read_showCost u hu]
  | false =>
    have h1 : splitCostOp (([] : Str) ++ spaces 1 ++ c.showCost u ++ spaces j) = (false, spaces 1 ++ c.showCost u ++ spaces j) := by
      simp [splitCostOp, spaces]
    simp only [Bool.false_eq_true, if_false]
    rw [h1]
    simp only
    rw [trimSp_spaces_append_spaces 1 j ft.ne ft.head ft.endOk, hc.read_showCost u hu]

/-! ### the text after the account -/

theorem costOp_noSemi (f : Bool) : (∀ x ∈ costOp f, x ≠ ';') ∧ (∀ x ∈ costOp f, x ≠ '=') := by
  constructor <;> (intro x hx e; subst e; revert hx; cases f <;> decide)

theorem costText_noSemi (c : AmtCodec) (hc : c.Lawful) (p : PPost) (a : Qty)
    (hk : ∀ k, p.cost = some k → c.fullOk (printedCost k.given a k.inFull) = true) :
    (∀ x ∈ costText c p a, x ≠ ';') ∧ (∀ x ∈ costText c p a, x ≠ '=') := by
  unfold costText
  cases hcost : p.cost with
  | none => simp
  | some k =>
    have ft := amtTextFacts (hc.showCost_ok (printedCost k.given a k.inFull) (hk k hcost))
    constructor
    · intro x hx
      rcases List.mem_append.mp hx with h | h
      · exact (costOp_noSemi k.inFull).1 x h
      · exact ft.noSemi x h
    · intro x hx
      rcases List.mem_append.mp hx with h | h
      · exact (costOp_noSemi k.inFull).2 x h
      · exact ft.noEq x h

theorem assignText_noSemi (c : AmtCodec) (hc : c.Lawful) (p : PPost)
    (hb : ∀ b, p.assigned = some b → c.dom b = true) :
    ∀ x ∈ assignText c p, x ≠ ';' := by
  unfold assignText
  cases hasg : p.assigned with
  | none => simp
  | some b =>
    have ft := amtTextFacts (hc.showAmt_ok b (hb b hasg))
    intro x hx
    rcases List.mem_append.mp hx with h | h
    · intro e; subst e; revert h; decide
    · exact ft.noSemi x h

/-- the reader on `AMOUNT [@ COST] [= ASSIGNED] [  ;NOTE]` as print writes it. -/
theorem parseTrailer_spec (c : AmtCodec) (hc : c.Lawful) (p : PPost) (a : Qty)
    (hd : c.dom a = true) (ha : (c.disp a).q ≠ 0)
    (hk : ∀ k, p.cost = some k → c.fullOk (printedCost k.given a k.inFull) = true)
    (hb : ∀ b, p.assigned = some b → c.dom b = true)
    (sfx : Option Str) :
    parseTrailer c (amtText c a ++ costText c p a ++ assignText c p ++ sfxText sfx) =
      .ok { amount := some (c.disp a),
            cost := p.cost.map (fun k => { given := mkGiven (c.disp a) (printedCost k.given a k.inFull) k.inFull,
                                           inFull := k.inFull }),
            assigned := p.assigned.map c.disp,
            note := sfx } := by
  have hT : amtText c a = c.showAmt a := by simp [amtText, ha]
  have fT := amtTextFacts (hc.showAmt_ok a hd)
  have hC := costText_noSemi c hc p a hk
  have hA := assignText_noSemi c hc p hb
  unfold parseTrailer
  rw [hT]
  -- 1. the note
  have h1 := cutAt_semi (c.showAmt a ++ costText c p a ++ assignText c p)
    (by
      intro x hx
      rcases List.mem_append.mp hx with h | h
      · rcases List.mem_append.mp h with h | h
        · exact fT.noSemi x h
        · exact hC.1 x h
      · exact hA x h) sfx
  simp only [h1]
  generalize (if sfx.isSome = true then 2 else 0) = j
  -- 2. the assignment
  have h2 := cutAt_eq c (c.showAmt a ++ costText c p a)
    (by
      intro x hx
      rcases List.mem_append.mp hx with h | h
      · exact fT.noEq x h
      · exact hC.2 x h) p j
  simp only [h2]
  cases hasg : p.assigned with
  | none =>
    simp only [Option.map_none]
    have h3 := cutAt_at c (c.showAmt a) fT.noAt p a j
    simp only [h3, readAsg]
    cases hcost : p.cost with
    | none =>
      simp only [Option.map_none]
      have ht : trimSp (c.showAmt a ++ spaces j) = c.showAmt a := by
        have := trimSp_spaces_append_spaces 0 j fT.ne fT.head fT.endOk
        simpa [spaces] using this
      simp only [ht, fT.ne, if_false, hc.read_showAmt a hd, readCost]
    | some k =>
      simp only [Option.map_some]
      have ht : trimSp (c.showAmt a ++ spaces 1) = c.showAmt a := by
        have := trimSp_spaces_append_spaces 0 1 fT.ne fT.head fT.endOk
        simpa [spaces] using this
      simp only [ht, fT.ne, if_false, hc.read_showAmt a hd]
      rw [readCost_spec c hc (c.disp a) _ (hk k hcost) k.inFull j]
  | some b =>
    simp only [Option.map_some]
    have h3 := cutAt_at c (c.showAmt a) fT.noAt p a 1
    simp only [h3]
    rw [readAsg_spec c hc b (hb b hasg) j]
    cases hcost : p.cost with
    | none =>
      simp only [Option.map_none]
      have ht : trimSp (c.showAmt a ++ spaces 1) = c.showAmt a := by
        have := trimSp_spaces_append_spaces 0 1 fT.ne fT.head fT.endOk
        simpa [spaces] using this
      simp only [ht, fT.ne, if_false, hc.read_showAmt a hd, readCost]
    | some k =>
      simp only [Option.map_some]
      have ht : trimSp (c.showAmt a ++ spaces 1) = c.showAmt a := by
        have := trimSp_spaces_append_spaces 0 1 fT.ne fT.head fT.endOk
        simpa [spaces] using this
      simp only [ht, fT.ne, if_false, hc.read_showAmt a hd]
      rw [readCost_spec c hc (c.disp a) _ (hk k hcost) k.inFull 1]

/-- a posting without an amount: only a note may follow the account. -/
theorem parseTrailer_note (c : AmtCodec) (l : Str) :
    parseTrailer c (';' :: l) = .ok { amount := none, cost := none, assigned := none, note := some l } := by
  unfold parseTrailer
  have h1 : cutAt ';' (';' :: l) = ([], some l) := by
    have := cutAt_some (ch := ';') (a := []) (b := l) (by simp)
    simpa using this
  have h2 : cutAt '=' ([] : Str) = ([], none) := cutAt_none (by simp)
  have h3 : cutAt '@' ([] : Str) = ([], none) := cutAt_none (by simp)
  simp [h1, h2, h3, readAsg, trimSp, skipWs, rtrim]

/-! ### the posting line -/

theorem takeWhile_spaces_append {m : Nat} {T : Str} (h : ∀ ch, T.head? = some ch → isSpaceC ch = false) :
    (spaces m ++ T).takeWhile isSpaceC = spaces m := by
  rw [List.takeWhile_append_of_pos (by intro a ha; rw [mem_spaces ha]; rfl)]
  cases T with
  | nil => simp
  | cons ch r => simp [List.takeWhile_cons, h ch rfl]

/-- print.cc 214-287 when the amount is written: name, at least two blanks, amount, cost, assignment. -/
theorem postBody_written (c : AmtCodec) (hc : c.Lawful) (L : Layout) (xs : ItemState) (w : Nat) (p : PPost) (a : Qty)
    (hp : p.amount = some a) (hd : c.dom a = true) :
    ∃ g, 2 ≤ g ∧ postBody c L xs w false p =
      postName L xs p ++ spaces g ++ (amtText c a ++ costText c p a ++ assignText c p) := by
  have fT := amtTextFacts (amtText_ok c hc a hd)
  unfold postBody
  simp only [hp, Bool.false_eq_true, if_false, rjust]
  rw [takeWhile_spaces_append fT.headC, spaces_length]
  generalize hm : L.amountWidth - (amtText c a).length = m
  generalize hs : w - (postName L xs p).length = slip
  have hne : ∀ (pad : Str), pad ++ (spaces m ++ amtText c a) ++ costText c p a ++ assignText c p ≠ [] := by
    intro pad h
    simp only [List.append_eq_nil_iff] at h
    exact fT.ne h.1.1.2.2
  have hne' : spaces m ++ amtText c a ++ costText c p a ++ assignText c p ≠ [] := by
    intro h
    simp only [List.append_eq_nil_iff] at h
    exact fT.ne h.1.1.2
  have hamtne : (!L.padOnlyWithAmount || !(spaces m ++ amtText c a).isEmpty) = true := by
    have : (spaces m ++ amtText c a).isEmpty = false := by
      cases h : spaces m ++ amtText c a with
      | nil => simp only [List.append_eq_nil_iff] at h; exact absurd h.2 fT.ne
      | cons _ _ => rfl
    simp [this]
  by_cases hlt : slip + m < 2
  · refine ⟨2, Nat.le_refl 2, ?_⟩
    have hcond : ((!L.padOnlyWithAmount || !(spaces m ++ amtText c a).isEmpty) = true ∧ slip + m < 2) := ⟨hamtne, hlt⟩
    rw [if_pos hcond, if_neg (hne _)]
    have e3 : spaces slip ++ (spaces (2 - (slip + m)) ++ spaces m) = spaces 2 := by
      rw [← spaces_add, ← spaces_add]
      congr 1
      omega
    rw [← e3]
    simp only [List.append_assoc]
  · refine ⟨slip + m, by omega, ?_⟩
    have hcond : ¬ ((!L.padOnlyWithAmount || !(spaces m ++ amtText c a).isEmpty) = true ∧ slip + m < 2) :=
      fun h => hlt h.2
    rw [if_neg hcond, List.nil_append, if_neg hne', spaces_add]
    simp only [List.append_assoc]

/-- print.cc 230-239 + 256-257: the second amount is not written; two padding blanks are, when the
    name is long (unless padding is only written in front of an amount). -/
theorem postBody_elided (c : AmtCodec) (L : Layout) (xs : ItemState) (w : Nat) (p : PPost) (a : Qty)
    (hp : p.amount = some a) (hc : p.cost = none) (hasg : p.assigned = none) :
    postBody c L xs w true p =
      postName L xs p ++ spaces (if L.padOnlyWithAmount = false ∧ w - (postName L xs p).length < 2 then 2 else 0) := by
  unfold postBody
  simp only [hp, if_true, costText, assignText, hc, hasg, List.takeWhile_nil, List.length_nil, Nat.add_zero,
    List.append_nil, List.isEmpty_nil, Bool.not_true, Bool.or_false, Bool.not_eq_true']
  generalize hs : w - (postName L xs p).length = slip
  by_cases hlt : L.padOnlyWithAmount = false ∧ slip < 2
  · rw [if_pos hlt, if_pos hlt]
    have hne : spaces (2 - slip) ≠ [] := by
      intro h; have := congrArg List.length h; simp [spaces_length] at this; omega
    rw [if_neg hne, ← spaces_add]
    congr 2
    omega
  · rw [if_neg hlt, if_neg hlt]
    simp [spaces]

theorem postBody_calculated (c : AmtCodec) (L : Layout) (xs : ItemState) (w : Nat) (e : Bool) (p : PPost)
    (hp : p.amount = none) : postBody c L xs w e p = postName L xs p := by
  unfold postBody
  simp [hp]

/-! ### account names -/

theorem noDblSp_cons_ne {ch : Char} {t : Str} (h : ch ≠ ' ') (ht : noDblSp t = true) : noDblSp (ch :: t) = true := by
  simp [noDblSp, ht, h]

theorem noDblSp_append_single {a : Str} {ch : Char} (ha : noDblSp a = true) (h : ch ≠ ' ') :
    noDblSp (a ++ [ch]) = true := by
  induction a with
  | nil => simp [noDblSp]
  | cons x t ih =>
    have ⟨h1, h2⟩ := noDblSp_cons ha
    simp only [List.cons_append, noDblSp, Bool.and_eq_true, Bool.not_eq_true', Bool.and_eq_false_iff]
    refine ⟨?_, ih h2⟩
    by_cases hx : x = ' '
    · right
      cases t with
      | nil => simp [h]
      | cons y u =>
        have : y ≠ ' ' := by intro e; exact h1 ⟨hx, by simp [e]⟩
        simp [this]
    · left; simp [hx]

structure AcctFacts (a : Str) : Prop where
  ne    : a ≠ []
  ctl   : noCtl a = true
  dbl   : noDblSp a = true
  endOk : endOk a = true
  head  : ∀ ch, a.head? = some ch → ch ≠ ' ' ∧ ch ≠ '(' ∧ ch ≠ '[' ∧ ch ≠ '<' ∧ ch ≠ '*' ∧ ch ≠ '!' ∧ ch ≠ ';'

theorem cleanText_facts {a : Str} (h : cleanText a = true) :
    a ≠ [] ∧ noCtl a = true ∧ noDblSp a = true ∧ a.head? ≠ some ' ' ∧ endOk a = true := by
  unfold cleanText at h
  simp only [Bool.and_eq_true, Bool.not_eq_true', bne_iff_ne, ne_eq] at h
  obtain ⟨⟨⟨⟨h1, h2⟩, h3⟩, h4⟩, h5⟩ := h
  refine ⟨?_, h2, h3, h4, h5⟩
  intro e; simp [e] at h1

theorem acctFacts {a : Str} (h : accountOk a = true) : AcctFacts a := by
  unfold accountOk at h
  simp only [Bool.and_eq_true, Bool.not_eq_true'] at h
  obtain ⟨hc, hh⟩ := h
  obtain ⟨h1, h2, h3, h4, h5⟩ := cleanText_facts hc
  refine ⟨h1, h2, h3, h5, ?_⟩
  intro ch hch
  simp only [List.any_cons, List.any_nil, Bool.or_false, Bool.or_eq_false_iff, hch] at hh
  refine ⟨?_, ?_, ?_, ?_, ?_, ?_, ?_⟩
  · intro e; exact h4 (by rw [hch, e])
  all_goals (intro e; subst e; simp at hh)

theorem head_tab_of_noCtl {a : Str} (h : noCtl a = true) {ch : Char} (hch : a.head? = some ch) : ch ≠ '\t' := by
  obtain ⟨t, rfl⟩ := List.head?_eq_some_iff.mp hch
  exact noCtl_not_tab h (by simp)

theorem noCtl_single {ch : Char} (h : isSpaceC ch = false) : noCtl [ch] = true := by
  simp [noCtl, h]

/-- everything the reader needs to know about `(account)`, `[account]` or `account`. -/
structure NameFacts (b : Str) : Prop where
  ne    : b ≠ []
  ctl   : noCtl b = true
  dbl   : noDblSp b = true
  endOk : endOk b = true
  head  : ∀ ch, b.head? = some ch → isWs ch = false ∧ ch ≠ '*' ∧ ch ≠ '!' ∧ ch ≠ ';'

theorem bracketed_facts (k : PostKind) {a : Str} (h : AcctFacts a) : NameFacts (bracketed k a) := by
  cases k with
  | real =>
    refine ⟨h.ne, h.ctl, h.dbl, h.endOk, ?_⟩
    intro ch hch
    have hh := h.head ch hch
    have ht := head_tab_of_noCtl h.ctl hch
    refine ⟨?_, hh.2.2.2.2.1, hh.2.2.2.2.2.1, hh.2.2.2.2.2.2⟩
    simp [isWs, hh.1, ht]
  | virtual =>
    refine ⟨by simp [bracketed], ?_, ?_, ?_, ?_⟩
    · have : bracketed .virtual a = ['('] ++ a ++ [')'] := by simp [bracketed]
      rw [this, noCtl_append, noCtl_append, h.ctl]; decide
    · show noDblSp ('(' :: (a ++ [')'])) = true
      exact noDblSp_cons_ne (by decide) (noDblSp_append_single h.dbl (by decide))
    · show Print.endOk ('(' :: (a ++ [')'])) = true
      have : ('(' :: (a ++ [')'])) = ('(' :: a) ++ [')'] := by simp
      rw [this]
      exact endOk_append_of_ne_nil (by simp) (by decide)
    · intro ch hch
      simp [bracketed] at hch
      subst hch
      decide
  | bvirtual =>
    refine ⟨by simp [bracketed], ?_, ?_, ?_, ?_⟩
    · have : bracketed .bvirtual a = ['['] ++ a ++ [']'] := by simp [bracketed]
      rw [this, noCtl_append, noCtl_append, h.ctl]; decide
    · show noDblSp ('[' :: (a ++ [']'])) = true
      exact noDblSp_cons_ne (by decide) (noDblSp_append_single h.dbl (by decide))
    · show Print.endOk ('[' :: (a ++ [']'])) = true
      have : ('[' :: (a ++ [']'])) = ('[' :: a) ++ [']'] := by simp
      rw [this]
      exact endOk_append_of_ne_nil (by simp) (by decide)
    · intro ch hch
      simp [bracketed] at hch
      subst hch
      decide

theorem postName_eq (L : Layout) (xs : ItemState) (p : PPost) :
    postName L xs p = (if marked L xs p = true then stateMark p.state else []) ++ bracketed p.kind p.account := by
  unfold postName bracketed
  cases p.kind <;> rfl

/-! ### parse_post on a printed posting line -/

theorem head?_append_of_ne {b r : Str} (h : b ≠ []) : (b ++ r).head? = b.head? := by
  cases b with
  | nil => exact absurd rfl h
  | cons x t => rfl

theorem takeState_postName (m : Bool) (st : Nat) (hs : st ≤ 2) {B : Str} (hB : NameFacts B) (R : Str) :
    takeState ((if m then stateMark st else []) ++ (B ++ R)) = ((if m then st else 0), B ++ R) := by
  have hh : (B ++ R).head? = B.head? := head?_append_of_ne hB.ne
  have h1 : (B ++ R).head? ≠ some '*' := by
    rw [hh]; intro e; exact (hB.head _ e).2.1 rfl
  have h2 : (B ++ R).head? ≠ some '!' := by
    rw [hh]; intro e; exact (hB.head _ e).2.2.1 rfl
  have hw : ∀ ch, (B ++ R).head? = some ch → isWs ch = false := by
    rw [hh]; intro ch e; exact (hB.head _ e).1
  cases m with
  | true =>
    simp only [if_true]
    exact takeState_mark st hs _ h1 h2 hw
  | false =>
    simp only [Bool.false_eq_true, if_false]
    have := takeState_mark 0 (by omega) _ h1 h2 hw
    simpa [stateMark] using this

/-- the state the reader gives a posting: its own mark when one is written, else the transaction's. -/
def readState (m : Bool) (xs : ItemState) (st : Nat) : Nat := if m = true ∧ st ≠ 0 then st else xs

theorem readState_eq (m : Bool) (xs : ItemState) (st : Nat) :
    (if xs ≠ 0 ∧ (if m = true then st else 0) = 0 then xs else if m = true then st else 0) = readState m xs st := by
  unfold readState
  cases m <;> by_cases h1 : st = 0 <;> by_cases h2 : xs = 0 <;> simp [h1, h2]

theorem parsePostLine_bare (c : AmtCodec) (L : Layout) (xs : ItemState) (p : PPost)
    (hs : p.state ≤ 2) (ha : AcctFacts p.account) :
    parsePostLine c xs (postName L xs p) =
      .ok { account := p.account, kind := p.kind, state := readState (marked L xs p) xs p.state, amount := none, cost := none,
            assigned := none, note := none } := by
  have hB := bracketed_facts p.kind ha
  have hh := ha.head
  rw [postName_eq]
  unfold parsePostLine
  have ht := takeState_postName (marked L xs p) p.state hs hB []
  simp only [List.append_nil] at ht
  simp only [ht]
  have hne : ¬ (bracketed p.kind p.account = [] ∨ (bracketed p.kind p.account).head? = some ';') := by
    rintro (h | h)
    · exact hB.ne h
    · exact (hB.head _ h).2.2.2 rfl
  rw [if_neg hne]
  rw [nextElem_none _ hB.ctl hB.dbl]
  simp only
  rw [rtrim_of_endOk hB.endOk, unbracket_bracketed p.kind p.account
    (by intro e; exact (hh _ e).2.1 rfl) (by intro e; exact (hh _ e).2.2.1 rfl)]
  rw [readState_eq]

theorem parsePostLine_rest (c : AmtCodec) (L : Layout) (xs : ItemState) (p : PPost)
    (hs : p.state ≤ 2) (ha : AcctFacts p.account) (k : Nat) (hk : 2 ≤ k) (r : Str)
    (hr : ∀ ch, r.head? = some ch → isWs ch = false) :
    parsePostLine c xs (postName L xs p ++ spaces k ++ r) =
      match parseTrailer c r with
      | .error e => .error e
      | .ok t => .ok { account := p.account, kind := p.kind, state := readState (marked L xs p) xs p.state, amount := t.amount,
                       cost := t.cost, assigned := t.assigned,
                       note := t.note.map (fun s => { lines := [s], nextLine := false }) } := by
  have hB := bracketed_facts p.kind ha
  have hh := ha.head
  rw [postName_eq]
  unfold parsePostLine
  have ht := takeState_postName (marked L xs p) p.state hs hB (spaces k ++ r)
  have e1 : (if marked L xs p = true then stateMark p.state else []) ++ bracketed p.kind p.account ++ spaces k ++ r =
      (if marked L xs p = true then stateMark p.state else []) ++ (bracketed p.kind p.account ++ (spaces k ++ r)) := by
    simp only [List.append_assoc]
  rw [e1]
  simp only [ht]
  have hne : ¬ (bracketed p.kind p.account ++ (spaces k ++ r) = [] ∨
      (bracketed p.kind p.account ++ (spaces k ++ r)).head? = some ';') := by
    rw [head?_append_of_ne hB.ne]
    rintro (h | h)
    · simp only [List.append_eq_nil_iff] at h; exact hB.ne h.1
    · exact (hB.head _ h).2.2.2 rfl
  rw [if_neg hne]
  have e2 : bracketed p.kind p.account ++ (spaces k ++ r) = bracketed p.kind p.account ++ spaces k ++ r := by
    simp only [List.append_assoc]
  rw [e2, nextElem_name _ k r hB.ctl hB.dbl hB.endOk hB.ne hk hr]
  simp only
  rw [rtrim_of_endOk hB.endOk, unbracket_bracketed p.kind p.account
    (by intro e; exact (hh _ e).2.1 rfl) (by intro e; exact (hh _ e).2.2.1 rfl)]
  rw [readState_eq]
  cases parseTrailer c r <;> rfl

/-! ### one printed posting line read back -/

/-- what the reader makes of a printed posting (before continuation note lines). -/
def readPost (c : AmtCodec) (L : Layout) (xs : ItemState) (elide : Bool) (p : PPost) (note : Option PNote) : PPost :=
  { account := p.account, kind := p.kind, state := readState (marked L xs p) xs p.state,
    amount := if elide then none else p.amount.map c.disp,
    cost := match p.amount, p.cost with
            | some a, some k => some { given := mkGiven (c.disp a) (printedCost k.given a k.inFull) k.inFull,
                                       inFull := k.inFull }
            | _, _ => none,
    assigned := match p.amount with
                | none => none
                | some _ => p.assigned.map c.disp,
    note := note }

theorem normPost_eq (c : AmtCodec) (L : Layout) (xs : ItemState) (w : Nat) (e : Bool) (p : PPost) :
    normPost c L xs w e p = readPost c L xs e p (normNote L (4 + w) p.note) := by
  cases h1 : p.amount <;> cases h2 : p.cost <;> simp [normPost, readPost, readState, h1, h2]

structure PostFacts (c : AmtCodec) (p : PPost) : Prop where
  acct  : AcctFacts p.account
  state : p.state ≤ 2
  note  : optNoteOk p.note = true
  calcd : p.amount = none → p.cost = none ∧ p.assigned = none
  domA  : ∀ a, p.amount = some a → c.dom a = true
  domB  : ∀ a b, p.amount = some a → p.assigned = some b → c.dom b = true
  nz    : ∀ a, p.amount = some a → (c.disp a).q ≠ 0
  full  : ∀ a k, p.amount = some a → p.cost = some k → c.fullOk (printedCost k.given a k.inFull) = true

theorem postFacts {c : AmtCodec} {p : PPost} (h : postOk c p = true) : PostFacts c p := by
  unfold postOk at h
  simp only [Bool.and_eq_true, decide_eq_true_eq] at h
  obtain ⟨⟨⟨h1, h2⟩, h3⟩, h4⟩ := h
  refine ⟨acctFacts h1, h2, h3, ?_, ?_, ?_, ?_, ?_⟩
  · intro e; rw [e] at h4; simpa using h4
  · intro a e; rw [e] at h4; simp only [Bool.and_eq_true, decide_eq_true_eq] at h4; exact h4.1.1.1
  · intro a b e1 e2; rw [e1] at h4; simp only [Bool.and_eq_true, decide_eq_true_eq] at h4
    have := h4.2; rw [e2] at this; exact this
  · intro a e; rw [e] at h4; simp only [Bool.and_eq_true, decide_eq_true_eq] at h4; exact h4.1.1.2
  · intro a k e1 e2; rw [e1] at h4; simp only [Bool.and_eq_true, decide_eq_true_eq] at h4
    have := h4.1.2; rw [e2] at this; exact this

theorem endOk_sfx {l : Str} (hl : endOk l = true) : endOk (sfxText (some l)) = true ∧ sfxText (some l) ≠ [] := by
  refine ⟨?_, by simp [sfxText]⟩
  have h1 : endOk (';' :: l) = true := by
    by_cases hne : l = []
    · subst hne; decide
    · exact endOk_cons_of_endOk hne hl
  exact endOk_cons_of_endOk (by simp) (endOk_cons_of_endOk (by simp) h1)

theorem postName_head (L : Layout) (xs : ItemState) (p : PPost) (ha : AcctFacts p.account) (R : Str) :
    ∀ ch, (postName L xs p ++ R).head? = some ch → isWs ch = false := by
  have hB := bracketed_facts p.kind ha
  rw [postName_eq]
  intro ch hch
  by_cases hm : (if marked L xs p = true then stateMark p.state else []) = []
  · rw [hm, List.nil_append, head?_append_of_ne hB.ne] at hch
    exact (hB.head ch hch).1
  · have : (((if marked L xs p = true then stateMark p.state else []) ++ bracketed p.kind p.account) ++ R).head? =
        (if marked L xs p = true then stateMark p.state else []).head? := by
      rw [List.append_assoc, head?_append_of_ne hm]
    rw [this] at hch
    cases hmk : marked L xs p with
    | false => simp [hmk] at hm
    | true =>
      simp only [hmk, if_true] at hch
      unfold stateMark at hch
      split at hch
      · simp at hch; subst hch; decide
      · split at hch
        · simp at hch; subst hch; decide
        · simp at hch

theorem postName_ne (L : Layout) (xs : ItemState) (p : PPost) (ha : AcctFacts p.account) : postName L xs p ≠ [] := by
  have hB := bracketed_facts p.kind ha
  rw [postName_eq]
  intro h
  simp only [List.append_eq_nil_iff] at h
  exact hB.ne h.2

theorem postName_endOk (L : Layout) (xs : ItemState) (p : PPost) (ha : AcctFacts p.account) :
    endOk (postName L xs p) = true := by
  have hB := bracketed_facts p.kind ha
  rw [postName_eq]
  exact endOk_append_of_ne_nil hB.ne hB.endOk

theorem skipWs_rtrim_line {Y : Str} (hne : Y ≠ []) (hh : ∀ ch, Y.head? = some ch → isWs ch = false)
    (he : endOk Y = true) : skipWs (rtrim (spaces 4 ++ Y)) = Y := by
  rw [rtrim_of_endOk (endOk_append_of_ne_nil hne he), skipWs_spaces_append, skipWs_of_head hh]

theorem endOk_trailerText (c : AmtCodec) (hc : c.Lawful) (p : PPost) (a : Qty) (hd : c.dom a = true)
    (hk : ∀ k, p.cost = some k → c.fullOk (printedCost k.given a k.inFull) = true)
    (hb : ∀ b, p.assigned = some b → c.dom b = true) :
    endOk (amtText c a ++ costText c p a ++ assignText c p) = true ∧
    amtText c a ++ costText c p a ++ assignText c p ≠ [] := by
  have fT := amtTextFacts (amtText_ok c hc a hd)
  refine ⟨?_, ?_⟩
  · unfold assignText costText
    cases hasg : p.assigned with
    | some b =>
      have fb := amtTextFacts (hc.showAmt_ok b (hb b hasg))
      exact endOk_append_of_ne_nil (by simp) (endOk_append_of_ne_nil fb.ne fb.endOk)
    | none =>
      simp only [List.append_nil]
      cases hcost : p.cost with
      | some k =>
        have fk := amtTextFacts (hc.showCost_ok (printedCost k.given a k.inFull) (hk k hcost))
        exact endOk_append_of_ne_nil (by simp; intro _; exact fk.ne) (endOk_append_of_ne_nil fk.ne fk.endOk)
      | none => simpa using fT.endOk
  · intro h
    simp only [List.append_eq_nil_iff] at h
    exact fT.ne h.1.1

theorem trailerText_head (c : AmtCodec) (hc : c.Lawful) (p : PPost) (a : Qty) (hd : c.dom a = true) (R : Str) :
    ∀ ch, (amtText c a ++ costText c p a ++ assignText c p ++ R).head? = some ch → isWs ch = false := by
  have fT := amtTextFacts (amtText_ok c hc a hd)
  intro ch hch
  have : (amtText c a ++ costText c p a ++ assignText c p ++ R).head? = (amtText c a).head? := by
    rw [List.append_assoc, List.append_assoc, head?_append_of_ne fT.ne]
  rw [this] at hch
  exact fT.head ch hch

/-- the first physical line of a printed posting, read back. -/
theorem parsePostLine_printed (c : AmtCodec) (hc : c.Lawful) (L : Layout) (xs : ItemState) (w : Nat) (elide : Bool)
    (p : PPost) (hp : PostFacts c p) (hel : elide = true → simpleAmount p = true)
    (sfx : Option Str) (hsfx : ∀ l, sfx = some l → endOk l = true) :
    parsePostLine c xs (skipWs (rtrim (spaces 4 ++ (postBody c L xs w elide p ++ sfxText sfx)))) =
      .ok (readPost c L xs elide p (sfx.map (fun s => { lines := [s], nextLine := false }))) := by
  have hne := postName_ne L xs p hp.acct
  have hend := postName_endOk L xs p hp.acct
  cases hamt : p.amount with
  | none =>
    -- POST_CALCULATED: the name only
    obtain ⟨hc0, ha0⟩ := hp.calcd hamt
    rw [postBody_calculated c L xs w elide p hamt]
    cases sfx with
    | none =>
      simp only [sfxText, List.append_nil]
      rw [skipWs_rtrim_line hne (by simpa using postName_head L xs p hp.acct []) hend]
      rw [parsePostLine_bare c L xs p hp.state hp.acct]
      simp [readPost, hamt]
    | some l =>
      have ⟨he, hn⟩ := endOk_sfx (hsfx l rfl)
      rw [skipWs_rtrim_line (by simp [hne]) (postName_head L xs p hp.acct _) (endOk_append_of_ne_nil hn he)]
      have : postName L xs p ++ sfxText (some l) = postName L xs p ++ spaces 2 ++ (';' :: l) := by
        simp [sfxText, spaces]
      rw [this, parsePostLine_rest c L xs p hp.state hp.acct 2 (by omega) _ (by simp; decide), parseTrailer_note]
      simp [readPost, hamt]
  | some a =>
    cases hel' : elide with
    | true =>
      have hs := hel hel'
      unfold simpleAmount at hs
      simp only [Bool.and_eq_true, Option.isNone_iff_eq_none] at hs
      have hcost : p.cost = none := hs.2
      have hasg : p.assigned = none := hs.1.2
      rw [postBody_elided c L xs w p a hamt hcost hasg]
      generalize (if L.padOnlyWithAmount = false ∧ w - (postName L xs p).length < 2 then 2 else 0) = e
      cases sfx with
      | none =>
        simp only [sfxText, List.append_nil]
        have : spaces 4 ++ (postName L xs p ++ spaces e) = (spaces 4 ++ postName L xs p) ++ spaces e := by
          simp only [List.append_assoc]
        rw [this, rtrim_append_spaces]
        rw [skipWs_rtrim_line hne (by simpa using postName_head L xs p hp.acct []) hend]
        rw [parsePostLine_bare c L xs p hp.state hp.acct]
        simp [readPost, hamt, hcost, hasg]
      | some l =>
        have ⟨he, hn⟩ := endOk_sfx (hsfx l rfl)
        have e1 : postName L xs p ++ spaces e ++ sfxText (some l) = postName L xs p ++ (spaces e ++ sfxText (some l)) := by
          simp only [List.append_assoc]
        rw [e1, skipWs_rtrim_line (by simp [hne]) (postName_head L xs p hp.acct _)
          (endOk_append_of_ne_nil (by simp [hn]) (endOk_append_of_ne_nil hn he))]
        have : postName L xs p ++ (spaces e ++ sfxText (some l)) = postName L xs p ++ spaces (e + 2) ++ (';' :: l) := by
          rw [spaces_add]; simp [sfxText, spaces]
        rw [this, parsePostLine_rest c L xs p hp.state hp.acct (e + 2) (by omega) _ (by simp; decide), parseTrailer_note]
        simp [readPost, hamt, hcost, hasg]
    | false =>
      obtain ⟨g, hg, hb⟩ := postBody_written c hc L xs w p a hamt (hp.domA a hamt)
      rw [hb]
      have ⟨hxe, hxn⟩ := endOk_trailerText c hc p a (hp.domA a hamt) (fun k hk => hp.full a k hamt hk)
        (fun b hb' => hp.domB a b hamt hb')
      have e1 : postName L xs p ++ spaces g ++ (amtText c a ++ costText c p a ++ assignText c p) ++ sfxText sfx =
          postName L xs p ++ (spaces g ++ (amtText c a ++ costText c p a ++ assignText c p ++ sfxText sfx)) := by
        simp only [List.append_assoc]
      have hYend : endOk (spaces g ++ (amtText c a ++ costText c p a ++ assignText c p ++ sfxText sfx)) = true := by
        cases sfx with
        | none =>
          simp only [sfxText, List.append_nil]
          exact endOk_append_of_ne_nil hxn hxe
        | some l =>
          have ⟨he, hn⟩ := endOk_sfx (hsfx l rfl)
          exact endOk_append_of_ne_nil (by simp [hn]) (endOk_append_of_ne_nil hn he)
      rw [e1, skipWs_rtrim_line (by simp [hne]) (postName_head L xs p hp.acct _)
        (endOk_append_of_ne_nil (by
          intro h
          have h' := (List.append_eq_nil_iff.mp h).2
          exact hxn (List.append_eq_nil_iff.mp h').1) hYend)]
      have e2 : postName L xs p ++ (spaces g ++ (amtText c a ++ costText c p a ++ assignText c p ++ sfxText sfx)) =
          postName L xs p ++ spaces g ++ (amtText c a ++ costText c p a ++ assignText c p ++ sfxText sfx) := by
        simp only [List.append_assoc]
      rw [e2, parsePostLine_rest c L xs p hp.state hp.acct g hg _ (trailerText_head c hc p a (hp.domA a hamt) _),
        parseTrailer_spec c hc p a (hp.domA a hamt) (hp.nz a hamt) (fun k hk => hp.full a k hamt hk)
          (fun b hb' => hp.domB a b hamt hb') sfx]
      simp only [readPost, hamt, Bool.false_eq_true, if_false, Option.map_some]
      cases p.cost <;> rfl

/-! ### the header line -/

theorem scanPayee_spec (s : Str) (sfx : Option Str) :
    ∀ (sp : Nat) (acc : Str), sp ≤ 1 → (sp = 1 → s.head? ≠ some ' ') →
      noCtl s = true → noDblSp s = true →
      scanPayee sp 0 acc (s ++ sfxText sfx) =
        match sfx with
        | none => (acc.reverse ++ s, none)
        | some l => (rtrim (acc.reverse ++ s ++ spaces 2), some l) := by
  induction s with
  | nil =>
    intro sp acc _ _ _ _
    cases sfx with
    | none => simp [sfxText, scanPayee]
    | some l =>
      simp only [sfxText, List.nil_append, scanPayee]
      have h1 : ¬ ((' ' : Char) = '\t') := by decide
      have h3 : (0 > 0 ∨ sp + 1 + 1 > 1) := Or.inr (by omega)
      simp [h3, spaces]
  | cons ch t ih =>
    intro sp acc hsp hhead hc hd
    have hnt : ch ≠ '\t' := noCtl_not_tab hc (by simp)
    have ⟨hd1, hd2⟩ := noDblSp_cons hd
    have hc2 := noCtl_cons hc
    simp only [List.cons_append]
    unfold scanPayee
    by_cases hsp' : ch = ' '
    · subst hsp'
      have hsp0 : sp = 0 := by
        rcases Nat.lt_or_ge sp 1 with h | h
        · omega
        · have : sp = 1 := by omega
          exact absurd rfl (hhead this)
      subst hsp0
      simp only [if_true]
      have := ih 1 (' ' :: acc) (by omega) (fun _ h => hd1 ⟨rfl, h⟩) hc2 hd2
      rw [this]
      cases sfx <;> simp
    · simp only [hsp', hnt, if_false]
      have hcond : ¬ (ch = ';' ∧ (0 > 0 ∨ sp > 1)) := by
        rintro ⟨_, h | h⟩ <;> omega
      simp only [hcond, if_false]
      have := ih 0 (ch :: acc) (by omega) (by intro h; omega) hc2 hd2
      rw [this]
      cases sfx <;> simp

structure PayeeFacts (s : Str) : Prop where
  ne    : s ≠ []
  ctl   : noCtl s = true
  dbl   : noDblSp s = true
  endOk : endOk s = true
  head  : ∀ ch, s.head? = some ch → isWs ch = false ∧ ch ≠ '*' ∧ ch ≠ '!' ∧ ch ≠ '(' ∧ ch ≠ ';'

theorem payeeFacts {s : Str} (h : payeeOk s = true) : PayeeFacts s := by
  unfold payeeOk at h
  simp only [Bool.and_eq_true, Bool.not_eq_true'] at h
  obtain ⟨hc, hh⟩ := h
  obtain ⟨h1, h2, h3, h4, h5⟩ := cleanText_facts hc
  refine ⟨h1, h2, h3, h5, ?_⟩
  intro ch hch
  simp only [List.any_cons, List.any_nil, Bool.or_false, Bool.or_eq_false_iff, hch] at hh
  have ht := head_tab_of_noCtl h2 hch
  have hs : ch ≠ ' ' := by intro e; exact h4 (by rw [hch, e])
  refine ⟨by simp [isWs, hs, ht], ?_, ?_, ?_, ?_⟩
  all_goals (intro e; subst e; simp at hh)

theorem scanPayee_payee {s : Str} (h : PayeeFacts s) (sfx : Option Str) :
    scanPayee 0 0 [] (s ++ sfxText sfx) = (s, sfx) := by
  rw [scanPayee_spec s sfx 0 [] (by omega) (by omega) h.ctl h.dbl]
  cases sfx with
  | none => simp
  | some l =>
    simp only [List.reverse_nil, List.nil_append]
    rw [rtrim_append_spaces, rtrim_of_endOk h.endOk]

structure DateFacts (s : Str) : Prop where
  ne   : s ≠ []
  noWs : ∀ x ∈ s, isWs x = false
  noEq : ∀ x ∈ s, x ≠ '='

theorem dateFacts {s : Str} (h : dateTextOk s = true) : DateFacts s := by
  unfold dateTextOk at h
  simp only [Bool.and_eq_true, Bool.not_eq_true', List.all_eq_true, bne_iff_ne, ne_eq] at h
  refine ⟨by intro e; simp [e] at h, ?_, fun x hx => (h.2 x hx).2⟩
  intro x hx
  cases hw : isWs x with
  | false => rfl
  | true => have := (h.2 x hx).1; rw [isWs_imp_isSpaceC hw] at this; exact absurd this (by decide)

def codeText (k : Option Str) : Str :=
  match k with
  | none => []
  | some k => '(' :: k ++ [')', ' ']

def dateTok (c : Codec) (x : PXact) : Str :=
  c.showDate x.date ++ (match x.aux with | none => [] | some a => '=' :: c.showDate a)

theorem leader_eq (c : Codec) (x : PXact) :
    leader c x = dateTok c x ++ ' ' :: (stateMark x.state ++ (codeText x.code ++ x.payee)) := by
  unfold leader dateTok codeText
  cases x.aux <;> cases x.code <;> simp [List.append_assoc]

theorem dateTok_noWs (c : Codec) (hc : c.toDateCodec.Lawful) (x : PXact)
    (hd : c.dateDom x.date = true) (hda : ∀ a, x.aux = some a → c.dateDom a = true) :
    ∀ ch ∈ dateTok c x, isWs ch = false := by
  have fd := dateFacts (hc.show_ok x.date hd)
  unfold dateTok
  intro ch hch
  rcases List.mem_append.mp hch with h | h
  · exact fd.noWs ch h
  · cases hx : x.aux with
    | none => simp [hx] at h
    | some a =>
      simp only [hx, List.mem_cons] at h
      rcases h with h | h
      · subst h; decide
      · exact (dateFacts (hc.show_ok a (hda a hx))).noWs ch h

theorem takeCode_spec (k : Option Str) (hk : ∀ t, k = some t → codeOk t = true) (R : Str)
    (hR1 : ∀ ch, R.head? = some ch → isWs ch = false ∧ ch ≠ '(') (hne : R ≠ []) :
    takeCode (codeText k ++ R) = (k, R) := by
  cases k with
  | none =>
    simp only [codeText, List.nil_append, takeCode]
    have : R.head? ≠ some '(' := by intro e; exact (hR1 _ e).2 rfl
    simp [this]
  | some t =>
    have hok := hk t rfl
    unfold codeOk at hok
    simp only [List.all_eq_true, Bool.and_eq_true, bne_iff_ne, ne_eq] at hok
    have hcut : cutAt ')' (t ++ ')' :: (' ' :: R)) = (t, some (' ' :: R)) :=
      cutAt_some (fun x hx => (hok x hx).1.1)
    have e1 : codeText (some t) ++ R = '(' :: (t ++ ')' :: (' ' :: R)) := by simp [codeText]
    rw [e1]
    unfold takeCode
    simp only [List.head?_cons, if_true, List.tail_cons, hcut]
    have := skipWs_spaces_append 1 R
    simp only [spaces, List.replicate] at this
    simp at this
    rw [this, skipWs_of_head (fun ch h => (hR1 ch h).1)]

theorem takeWhile_notWs_append {a : Str} (ha : ∀ x ∈ a, isWs x = false) (r : Str) :
    (a ++ ' ' :: r).takeWhile (fun ch => !isWs ch) = a ∧
    (a ++ ' ' :: r).dropWhile (fun ch => !isWs ch) = ' ' :: r := by
  constructor
  · rw [List.takeWhile_append_of_pos (by intro x hx; simp [ha x hx])]
    simp [List.takeWhile_cons, isWs]
  · rw [List.dropWhile_append_of_pos (by intro x hx; simp [ha x hx])]
    simp [List.dropWhile_cons, isWs]

/-- parse_xact on the printed header line. -/
theorem parseHeader_printed (c : Codec) (hc : c.Lawful) (x : PXact)
    (hs : x.state ≤ 2) (hp : PayeeFacts x.payee) (hk : ∀ t, x.code = some t → codeOk t = true)
    (hdd : c.dateDom x.date = true) (hda : ∀ a, x.aux = some a → c.dateDom a = true)
    (sfx : Option Str) (hsfx : ∀ l, sfx = some l → endOk l = true) :
    parseHeader c (leader c x ++ sfxText sfx) =
      .ok { date := x.date, aux := x.aux, state := x.state, code := x.code, payee := x.payee,
            note := sfx.map (fun t => { lines := [t], nextLine := false }) } := by
  have fd := dateFacts (hc.date.show_ok x.date hdd)
  rw [leader_eq]
  unfold parseHeader
  -- the trailing strip changes nothing
  have hend : endOk (dateTok c x ++ ' ' :: (stateMark x.state ++ (codeText x.code ++ x.payee)) ++ sfxText sfx) = true := by
    cases sfx with
    | none =>
      simp only [sfxText, List.append_nil]
      have : dateTok c x ++ ' ' :: (stateMark x.state ++ (codeText x.code ++ x.payee)) =
          (dateTok c x ++ ' ' :: (stateMark x.state ++ codeText x.code)) ++ x.payee := by simp [List.append_assoc]
      rw [this]
      exact endOk_append_of_ne_nil hp.ne hp.endOk
    | some l =>
      have ⟨he, hn⟩ := endOk_sfx (hsfx l rfl)
      exact endOk_append_of_ne_nil hn he
  simp only [rtrim_of_endOk hend]
  have e1 : dateTok c x ++ ' ' :: (stateMark x.state ++ (codeText x.code ++ x.payee)) ++ sfxText sfx =
      dateTok c x ++ ' ' :: (stateMark x.state ++ (codeText x.code ++ (x.payee ++ sfxText sfx))) := by
    simp [List.append_assoc]
  rw [e1]
  have ⟨ht, hd⟩ := takeWhile_notWs_append (dateTok_noWs c hc.date x hdd hda)
    (stateMark x.state ++ (codeText x.code ++ (x.payee ++ sfxText sfx)))
  simp only [ht, hd]
  -- the date token
  have hcut : cutAt '=' (dateTok c x) = (c.showDate x.date, x.aux.map c.showDate) := by
    unfold dateTok
    cases x.aux with
    | none => simp only [List.append_nil, Option.map_none]; exact cutAt_none fd.noEq
    | some a => simp only [Option.map_some]; exact cutAt_some fd.noEq
  simp only [hcut, hc.date.read_show x.date hdd]
  -- after the date
  have hR : ∀ ch, (codeText x.code ++ (x.payee ++ sfxText sfx)).head? = some ch →
      isWs ch = false ∧ ch ≠ '*' ∧ ch ≠ '!' := by
    intro ch hch
    cases hcode : x.code with
    | none =>
      rw [hcode] at hch
      simp only [codeText, List.nil_append] at hch
      rw [head?_append_of_ne hp.ne] at hch
      exact ⟨(hp.head ch hch).1, (hp.head ch hch).2.1, (hp.head ch hch).2.2.1⟩
    | some t =>
      rw [hcode] at hch
      simp [codeText] at hch
      subst hch
      decide
  have hsk : skipWs (' ' :: (stateMark x.state ++ (codeText x.code ++ (x.payee ++ sfxText sfx)))) =
      stateMark x.state ++ (codeText x.code ++ (x.payee ++ sfxText sfx)) := by
    have := skipWs_spaces_append 1 (stateMark x.state ++ (codeText x.code ++ (x.payee ++ sfxText sfx)))
    simp only [spaces, List.replicate] at this
    simp at this
    rw [this]
    apply skipWs_of_head
    intro ch hch
    by_cases hm : stateMark x.state = []
    · rw [hm, List.nil_append] at hch; exact (hR ch hch).1
    · rw [head?_append_of_ne hm] at hch
      unfold stateMark at hch hm
      split at hch
      · simp at hch; subst hch; decide
      · split at hch
        · simp at hch; subst hch; decide
        · simp at hch
  rw [hsk]
  rw [takeState_mark x.state hs _ (by intro e; exact (hR _ e).2.1 rfl) (by intro e; exact (hR _ e).2.2 rfl)
    (fun ch e => (hR ch e).1)]
  simp only
  have hne : x.payee ++ sfxText sfx ≠ [] := by
    intro h; exact hp.ne (List.append_eq_nil_iff.mp h).1
  rw [takeCode_spec x.code hk (x.payee ++ sfxText sfx)
    (by
      intro ch hch
      rw [head?_append_of_ne hp.ne] at hch
      exact ⟨(hp.head ch hch).1, (hp.head ch hch).2.2.2.1⟩) hne]
  simp only [hne, if_false, scanPayee_payee hp sfx]
  cases hx : x.aux with
  | none => simp
  | some a => simp [hc.date.read_show a (hda a hx)]

/-! ### continuation note lines and the body -/

theorem four_spaces : ([' ', ' ', ' ', ' '] : Str) = spaces 4 := rfl

theorem noteLine_read {l : Str} (hl : endOk l = true) : skipWs (rtrim (noteLine l)) = ';' :: l := by
  have : noteLine l = spaces 4 ++ (';' :: l) := rfl
  rw [this]
  apply skipWs_rtrim_line (by simp) (by simp; decide)
  by_cases hne : l = []
  · subst hne; decide
  · exact endOk_cons_of_endOk hne hl

theorem parseBody_cons (c : AmtCodec) (xs : ItemState) (l : Str) (ls : List Str) (xn : Option PNote) (ps : List PPost) :
    parseBody c xs (l :: ls) xn ps =
      if skipWs (rtrim l) = [] then .error .blankLine
      else if (skipWs (rtrim l)).head? = some ';' then
        (if ps = [] then parseBody c xs ls (some (appendNote xn (skipWs (rtrim l)).tail true)) ps
         else parseBody c xs ls xn (addPostNote ps (skipWs (rtrim l)).tail))
      else
        match parsePostLine c xs (skipWs (rtrim l)) with
        | .error e => .error e
        | .ok p => parseBody c xs ls xn (p :: ps) := by
  conv => lhs; unfold parseBody
  split <;> rfl

def addNotes (n : Option PNote) (ls : List Str) : Option PNote :=
  ls.foldl (fun n t => some (appendNote n t true)) n

theorem parseBody_postNotes (c : AmtCodec) (xs : ItemState) (ns : List Str) (hns : ∀ l ∈ ns, endOk l = true) :
    ∀ (more : List Str) (xn : Option PNote) (p : PPost) (ps : List PPost),
      parseBody c xs (ns.map noteLine ++ more) xn (p :: ps) =
        parseBody c xs more xn ({ p with note := addNotes p.note ns } :: ps) := by
  induction ns with
  | nil => intro more xn p ps; simp [addNotes]
  | cons l t ih =>
    intro more xn p ps
    simp only [List.map_cons, List.cons_append]
    rw [parseBody_cons]
    rw [noteLine_read (hns l (by simp))]
    simp only [List.cons_ne_nil, if_false, List.head?_cons, if_true, List.tail_cons, addPostNote]
    rw [ih (fun l' h => hns l' (by simp [h]))]
    simp [addNotes]

theorem parseBody_xactNotes (c : AmtCodec) (xs : ItemState) (ns : List Str) (hns : ∀ l ∈ ns, endOk l = true) :
    ∀ (more : List Str) (xn : Option PNote),
      parseBody c xs (ns.map noteLine ++ more) xn [] = parseBody c xs more (addNotes xn ns) [] := by
  induction ns with
  | nil => intro more xn; simp [addNotes]
  | cons l t ih =>
    intro more xn
    simp only [List.map_cons, List.cons_append]
    rw [parseBody_cons]
    rw [noteLine_read (hns l (by simp))]
    simp only [List.cons_ne_nil, if_false, List.head?_cons, if_true, List.tail_cons]
    rw [ih (fun l' h => hns l' (by simp [h]))]
    simp [addNotes]

theorem addNotes_some (ls : List Str) : ∀ (m : PNote),
    addNotes (some m) ls = some { lines := m.lines ++ ls, nextLine := m.nextLine || !ls.isEmpty } := by
  induction ls with
  | nil => intro m; simp [addNotes]
  | cons l t ih =>
    intro m
    have : addNotes (some m) (l :: t) = addNotes (some (appendNote (some m) l true)) t := by simp [addNotes]
    rw [this, ih]
    simp [appendNote]

theorem addNotes_none_cons (l : Str) (t : List Str) :
    addNotes none (l :: t) = some { lines := l :: t, nextLine := true } := by
  have : addNotes none (l :: t) = addNotes (some (appendNote none l true)) t := by simp [addNotes]
  rw [this, addNotes_some]
  simp [appendNote]

structure NoteFacts (n : PNote) : Prop where
  shape : ∃ l0 rest, n.lines = l0 :: rest ∧ endOk l0 = true ∧ (∀ l ∈ rest, endOk l = true) ∧
            rest.filter (fun l => !l.isEmpty) = rest

theorem noteFacts {n : PNote} (h : noteOk n = true) : NoteFacts n := by
  unfold noteOk at h
  cases hl : n.lines with
  | nil => simp [hl] at h
  | cons l0 rest =>
    simp only [hl, Bool.and_eq_true, List.all_eq_true, Bool.not_eq_true'] at h
    refine ⟨l0, rest, hl, ?_, ?_, ?_⟩
    · have := h.1.1; unfold noteLineOk at this; simp only [Bool.and_eq_true] at this; exact this.1
    · intro l hl'
      have := (h.1.2 l hl').2; unfold noteLineOk at this; simp only [Bool.and_eq_true] at this; exact this.1
    · apply List.filter_eq_self.mpr
      intro l hl'
      simp [(h.1.2 l hl').1]

/-- the lines `withNote` writes for an item whose first line parses to `first sfx`,
    followed by the continuation lines. -/
theorem withNote_shape (L : Layout) (body : Str) (prior : Nat) (n : Option PNote) (hn : optNoteOk n = true) :
    ∃ (sfx : Option Str) (ns : List Str),
      withNote L body prior n = (body ++ sfxText sfx) :: ns.map noteLine ∧
      (∀ l, sfx = some l → endOk l = true) ∧ (∀ l ∈ ns, endOk l = true) ∧
      addNotes (sfx.map (fun t => { lines := [t], nextLine := false })) ns = normNote L prior n := by
  cases n with
  | none => exact ⟨none, [], by simp [withNote, sfxText], by simp, by simp, by simp [addNotes, normNote]⟩
  | some m =>
    obtain ⟨l0, rest, hl, h0, hr, hf⟩ := (noteFacts (by simpa [optNoteOk] using hn)).shape
    by_cases hnext : noteOnNext L m prior = true
    · refine ⟨none, l0 :: rest, ?_, by simp, ?_, ?_⟩
      · simp [withNote, hl, hnext, hf, sfxText]
      · intro l hl'; rcases List.mem_cons.mp hl' with h | h
        · rw [h]; exact h0
        · exact hr l h
      · simp only [Option.map_none]
        rw [addNotes_none_cons]
        simp [normNote, hl, hnext]
    · refine ⟨some l0, rest, ?_, ?_, hr, ?_⟩
      · simp [withNote, hl, hnext, hf, sfxText, List.append_assoc]
      · intro l h; cases h; exact h0
      · simp only [Option.map_some]
        rw [addNotes_some]
        simp only [normNote, Option.map_some, hl, List.singleton_append, Bool.false_or]
        have hnf : noteOnNext L m prior = false := by simpa using hnext
        cases rest <;> simp [hnf]

/-- one printed posting (first line and its note lines) read back. -/
theorem parseBody_post (c : AmtCodec) (hc : c.Lawful) (L : Layout) (xs : ItemState) (w : Nat) (elide : Bool)
    (p : PPost) (hp : PostFacts c p) (hel : elide = true → simpleAmount p = true)
    (more : List Str) (xn : Option PNote) (ps : List PPost) :
    parseBody c xs (postLines c L xs w elide p ++ more) xn ps =
      parseBody c xs more xn (normPost c L xs w elide p :: ps) := by
  unfold postLines
  obtain ⟨sfx, ns, hw, hs, hn, hnote⟩ :=
    withNote_shape L ([' ', ' ', ' ', ' '] ++ postBody c L xs w elide p) (4 + w) p.note hp.note
  rw [hw, List.cons_append, parseBody_cons]
  have hline := parsePostLine_printed c hc L xs w elide p hp hel sfx hs
  have e1 : [' ', ' ', ' ', ' '] ++ postBody c L xs w elide p ++ sfxText sfx =
      spaces 4 ++ (postBody c L xs w elide p ++ sfxText sfx) := by
    rw [four_spaces, List.append_assoc]
  rw [e1]
  -- the line is neither blank nor a note line
  have hY : skipWs (rtrim (spaces 4 ++ (postBody c L xs w elide p ++ sfxText sfx))) ≠ [] ∧
      (skipWs (rtrim (spaces 4 ++ (postBody c L xs w elide p ++ sfxText sfx)))).head? ≠ some ';' := by
    constructor
    · intro h
      rw [h] at hline
      simp [parsePostLine, takeState] at hline
    · intro h
      have : parsePostLine c xs (skipWs (rtrim (spaces 4 ++ (postBody c L xs w elide p ++ sfxText sfx)))) =
          .error .noAccount := by
        unfold parsePostLine takeState
        have h1 : (skipWs (rtrim (spaces 4 ++ (postBody c L xs w elide p ++ sfxText sfx)))).head? ≠ some '*' := by
          rw [h]; decide
        have h2 : (skipWs (rtrim (spaces 4 ++ (postBody c L xs w elide p ++ sfxText sfx)))).head? ≠ some '!' := by
          rw [h]; decide
        simp [h1, h2, h]
      rw [this] at hline
      cases hline
  simp only [hY.1, hY.2, if_false, hline]
  rw [parseBody_postNotes c xs ns hn]
  rw [normPost_eq]
  simp only [readPost, hnote]

/-! ### the whole transaction -/

theorem parseBody_posts (c : AmtCodec) (hc : c.Lawful) (L : Layout) (xs : ItemState) (w : Nat) (xn : Option PNote)
    (pes : List (PPost × Bool)) :
    (∀ pe ∈ pes, PostFacts c pe.1 ∧ (pe.2 = true → simpleAmount pe.1 = true)) →
    ∀ (acc : List PPost),
      parseBody c xs ((pes.map (fun pe => postLines c L xs w pe.2 pe.1)).flatten) xn acc =
        .ok (xn, acc.reverse ++ pes.map (fun pe => normPost c L xs w pe.2 pe.1)) := by
  induction pes with
  | nil => intro _ acc; simp [parseBody]
  | cons pe t ih =>
    intro h acc
    simp only [List.map_cons, List.flatten_cons]
    have hpe := h pe (by simp)
    rw [parseBody_post c hc L xs w pe.2 pe.1 hpe.1 hpe.2]
    rw [ih (fun q hq => h q (by simp [hq]))]
    simp

theorem elideFlags_sound (x : PXact) :
    ∀ pe ∈ x.posts.zip (elideFlags L x), pe.2 = true → simpleAmount pe.1 = true := by
  unfold elideFlags
  intro pe hpe hflag
  match hps : x.posts with
  | [] => simp [hps] at hpe
  | [a] => simp [hps] at hpe; rw [hpe] at hflag; simp at hflag
  | [a, b] =>
    simp only [hps, List.zip_cons_cons, List.zip_nil_right, List.mem_cons, List.not_mem_nil, or_false] at hpe
    rcases hpe with rfl | rfl
    · simp at hflag
    · simp only at hflag
      unfold elideSecond at hflag
      simp only [hps, Bool.and_eq_true] at hflag
      exact hflag.1.1.2
  | a :: b :: d :: t =>
    simp only [hps] at hpe
    have := List.of_mem_zip hpe
    simp at this
    rcases this.2 with h | ⟨_, h⟩ <;> (rw [h] at hflag; simp at hflag)

structure XactFacts (c : Codec) (x : PXact) : Prop where
  state : x.state ≤ 2
  payee : PayeeFacts x.payee
  note  : optNoteOk x.note = true
  code  : ∀ t, x.code = some t → codeOk t = true
  posts : ∀ p ∈ x.posts, PostFacts c.toAmtCodec p
  date  : c.dateDom x.date = true
  aux   : ∀ a, x.aux = some a → c.dateDom a = true

theorem xactFacts {c : Codec} {x : PXact} (h : xactOk c x = true) : XactFacts c x := by
  unfold xactOk at h
  simp only [Bool.and_eq_true, decide_eq_true_eq, List.all_eq_true] at h
  obtain ⟨⟨⟨⟨⟨⟨h1, h2⟩, h3⟩, h4⟩, h5⟩, h6⟩, h7⟩ := h
  refine ⟨h1, payeeFacts h2, h3, ?_, fun p hp => postFacts (h5 p hp), h6, ?_⟩
  · intro t ht; rw [ht] at h4; exact h4
  · intro a ha; rw [ha] at h7; exact h7

/-- re-reading the printed lines of a transaction yields `norm x`. -/
theorem parse_render (c : Codec) (hc : c.Lawful) (L : Layout) (x : PXact) (hx : xactOk c x = true) :
    parseXactText c (renderXact c L x) = .ok (norm c L x) := by
  have hf := xactFacts hx
  unfold renderXact
  obtain ⟨sfx, ns, hw, hs, hn, hnote⟩ := withNote_shape L (leader c x) (leader c x).length x.note hf.note
  simp only [hw, List.cons_append]
  unfold parseXactText
  simp only [parseHeader_printed c hc x hf.state hf.payee hf.code hf.date hf.aux sfx hs]
  rw [parseBody_xactNotes c.toAmtCodec x.state ns hn, hnote]
  rw [parseBody_posts c.toAmtCodec hc.amt L x.state (accountWidth L x) _ (x.posts.zip (elideFlags L x))
    (by
      intro pe hpe
      exact ⟨hf.posts pe.1 (List.of_mem_zip hpe).1, elideFlags_sound x pe hpe⟩)]
  simp [norm]

/-! ### printing the re-read transaction again -/

theorem rabs_nonneg (x : Rat) : 0 ≤ rabs x := by
  unfold rabs; split <;> grind

theorem rabs_of_nonneg {x : Rat} (h : 0 ≤ x) : rabs x = x := by
  unfold rabs; split <;> grind

theorem rabs_neg (x : Rat) : rabs (-x) = rabs x := by
  unfold rabs; split <;> split <;> grind

theorem printedCost_nonneg (g a : Qty) (f : Bool) : 0 ≤ (printedCost g a f).q := by
  unfold printedCost; split <;> exact rabs_nonneg _

/-- print.cc 270-274 after textual.cc 1612-1627: the printed price is the written one. -/
theorem printedCost_mkGiven (a u : Qty) (f : Bool) (ha : a.q ≠ 0) (hu : 0 ≤ u.q) :
    printedCost (mkGiven a u f) a f = u := by
  cases f with
  | true =>
    simp only [printedCost, mkGiven, if_true]
    split
    · simp only [Qty.neg]; rw [rabs_neg, rabs_of_nonneg hu]
    · rw [rabs_of_nonneg hu]
  | false =>
    simp only [printedCost, mkGiven, Bool.false_eq_true, if_false]
    have : u.q * a.q / a.q = u.q := by grind
    rw [this, rabs_of_nonneg hu]

theorem leader_norm (c : Codec) (L : Layout) (x : PXact) : leader c (norm c L x) = leader c x := rfl

theorem postName_normPost (c : AmtCodec) (L : Layout) (xs : ItemState) (w : Nat) (e : Bool) (p : PPost) :
    postName L xs (normPost c L xs w e p) = postName L xs p := by
  have hmark : (if marked L xs (normPost c L xs w e p) = true then stateMark (normPost c L xs w e p).state else []) =
      (if marked L xs p = true then stateMark p.state else []) := by
    simp only [normPost, marked]
    by_cases hL : L.markWhenDiffers = true <;> by_cases h1 : p.state = xs <;> by_cases h2 : p.state = 0 <;>
      by_cases h3 : xs = 0 <;> simp_all [stateMark]
  unfold postName
  rw [hmark]
  rfl

theorem foldl_names (xs : ItemState) (f : PPost → PPost) (hf : ∀ p, postName L xs (f p) = postName L xs p) :
    ∀ (ps : List PPost) (a : Nat),
      (ps.map f).foldl (fun w p => max w (postName L xs p).length) a =
        ps.foldl (fun w p => max w (postName L xs p).length) a := by
  intro ps
  induction ps with
  | nil => intro a; rfl
  | cons p t ih => intro a; simp only [List.map_cons, List.foldl_cons, hf, ih]

structure NoteFacts2 (n : PNote) : Prop where
  multi : n.lines.length ≥ 2 → n.nextLine = true

theorem noteFacts2 {n : PNote} (h : noteOk n = true) : NoteFacts2 n := by
  unfold noteOk at h
  cases hl : n.lines with
  | nil => simp [hl] at h
  | cons l0 rest =>
    simp only [hl, Bool.and_eq_true, Bool.or_eq_true] at h
    refine ⟨?_⟩
    intro hlen
    rw [hl] at hlen
    rcases h.2 with h2 | h2
    · cases rest with
      | nil => simp at hlen
      | cons _ _ => simp at h2
    · exact h2

theorem withNote_normNote (L : Layout) (body : Str) (prior : Nat) (n : Option PNote) (hn : optNoteOk n = true) :
    withNote L body prior (normNote L prior n) = withNote L body prior n := by
  cases n with
  | none => rfl
  | some m =>
    have hm := (noteFacts2 (by simpa [optNoteOk] using hn)).multi
    have hon : noteOnNext L { m with nextLine := noteOnNext L m prior || decide (m.lines.length ≥ 2) } prior =
        noteOnNext L m prior := by
      by_cases hlen : m.lines.length ≥ 2
      · have := hm hlen
        simp [noteOnNext, noteBytes, this]
      · simp only [noteOnNext, noteBytes, hlen, decide_false, Bool.or_false]
        cases m.nextLine <;> simp
    simp only [normNote, Option.map_some, withNote]
    rw [hon]

theorem amtText_disp (c : AmtCodec) (hc : c.Lawful) (a : Qty) (hd : c.dom a = true) :
    amtText c (c.disp a) = amtText c a := by
  unfold amtText
  rw [hc.disp_idem a hd, hc.showAmt_disp a hd]

theorem postBody_congr (c : AmtCodec) (L : Layout) (xs : ItemState) (w : Nat) (p q : PPost) (a b : Qty)
    (hpa : p.amount = some a) (hqb : q.amount = some b)
    (hn : postName L xs q = postName L xs p) (ht : amtText c b = amtText c a)
    (hcost : costText c q b = costText c p a) (hasg : assignText c q = assignText c p) :
    postBody c L xs w false q = postBody c L xs w false p := by
  unfold postBody
  simp only [hpa, hqb, hn, ht, hcost, hasg]

/-- a written (not elided) posting prints the same after `normPost`. -/
theorem postBody_normPost (c : AmtCodec) (hc : c.Lawful) (L : Layout) (xs : ItemState) (w : Nat)
    (p : PPost) (hp : PostFacts c p) :
    postBody c L xs w false (normPost c L xs w false p) = postBody c L xs w false p := by
  cases hamt : p.amount with
  | none =>
    rw [postBody_calculated c L xs w false p hamt,
      postBody_calculated c L xs w false _ (by simp [normPost, hamt]), postName_normPost]
  | some a =>
    have hd := hp.domA a hamt
    apply postBody_congr c L xs w p _ a (c.disp a) hamt (by simp [normPost, hamt]) (postName_normPost c L xs w false p)
      (amtText_disp c hc a hd)
    · -- cost
      unfold costText
      cases hcost : p.cost with
      | none => simp [normPost, hamt, hcost]
      | some k =>
        simp only [normPost, hamt, hcost]
        rw [printedCost_mkGiven (c.disp a) _ k.inFull (hp.nz a hamt) (printedCost_nonneg _ _ _)]
    · -- assignment
      unfold assignText
      cases hasg : p.assigned with
      | none => simp [normPost, hamt, hasg]
      | some b =>
        simp only [normPost, hamt, hasg, Option.map_some]
        rw [hc.showAmt_disp b (hp.domB a b hamt hasg)]

theorem postLines_normPost (c : AmtCodec) (hc : c.Lawful) (L : Layout) (xs : ItemState) (w : Nat)
    (p : PPost) (hp : PostFacts c p) :
    postLines c L xs w false (normPost c L xs w false p) = postLines c L xs w false p := by
  unfold postLines
  rw [postBody_normPost c hc L xs w p hp]
  have : (normPost c L xs w false p).note = normNote L (4 + w) p.note := by simp [normPost]
  rw [this, withNote_normNote L _ (4 + w) p.note hp.note]

/-- the elided second posting: after re-reading it is a posting without an
    amount, printed as its name alone; the first print wrote padding blanks
    unless the name is at least two columns short of the account width. -/
theorem postLines_normPost_elided (c : AmtCodec) (L : Layout) (xs : ItemState) (w : Nat) (e' : Bool)
    (p : PPost) (hp : PostFacts c p) (hs : simpleAmount p = true)
    (hpad : ¬ (L.padOnlyWithAmount = false ∧ w - (postName L xs p).length < 2)) :
    postLines c L xs w e' (normPost c L xs w true p) = postLines c L xs w true p := by
  unfold simpleAmount at hs
  simp only [Bool.and_eq_true, Option.isNone_iff_eq_none, Option.isSome_iff_exists] at hs
  obtain ⟨⟨⟨a, hamt⟩, hasg⟩, hcost⟩ := hs
  unfold postLines
  rw [postBody_calculated c L xs w e' _ (by simp [normPost]), postBody_elided c L xs w p a hamt hcost hasg,
    postName_normPost, if_neg hpad]
  have : (normPost c L xs w true p).note = normNote L (4 + w) p.note := by simp [normPost]
  rw [this, withNote_normNote L _ (4 + w) p.note hp.note]
  simp [spaces]

theorem simpleAmount_normPost (c : AmtCodec) (L : Layout) (xs : ItemState) (w : Nat) (p : PPost) (hp : PostFacts c p) :
    simpleAmount (normPost c L xs w false p) = simpleAmount p := by
  unfold simpleAmount
  cases hamt : p.amount with
  | none =>
    obtain ⟨h1, h2⟩ := hp.calcd hamt
    simp [normPost, hamt, h1, h2]
  | some a =>
    cases hcost : p.cost <;> cases hasg : p.assigned <;> simp [normPost, hamt, hcost, hasg]

theorem elideFlags_length (x : PXact) : (elideFlags L x).length = x.posts.length := by
  unfold elideFlags
  split
  · rename_i h; simp [h]
  · simp

theorem flagged_fst (x : PXact) : (x.posts.zip (elideFlags L x)).map Prod.fst = x.posts :=
  List.map_fst_zip (by rw [elideFlags_length]; exact Nat.le_refl _)

theorem accountWidth_norm (c : Codec) (L : Layout) (x : PXact) :
    accountWidth L (norm c L x) = accountWidth L x := by
  unfold accountWidth
  have h1 : (norm c L x).posts = (x.posts.zip (elideFlags L x)).map
      (fun pe => normPost c.toAmtCodec L x.state (accountWidth L x) pe.2 pe.1) := rfl
  have h2 : (norm c L x).state = x.state := rfl
  rw [h1, h2, List.foldl_map]
  have : (fun (w : Nat) (pe : PPost × Bool) =>
      max w (postName L x.state (normPost c.toAmtCodec L x.state (accountWidth L x) pe.2 pe.1)).length) =
      (fun (w : Nat) (pe : PPost × Bool) => max w (postName L x.state pe.1).length) := by
    funext w pe; rw [postName_normPost]
  rw [this]
  have := List.foldl_map (f := Prod.fst) (g := fun (w : Nat) (p : PPost) => max w (postName L x.state p).length)
    (l := x.posts.zip (elideFlags L x)) (init := L.accountWidth)
  rw [← this, flagged_fst]

theorem zip_const_map {α β : Type} (F : Bool → α → β) (ps : List α) :
    ((ps.zip (ps.map (fun _ => false))).map (fun pe => F pe.2 pe.1)) = ps.map (F false) := by
  induction ps with
  | nil => rfl
  | cons p t ih => simp [ih]

theorem elideFlags_of_ne_two (L : Layout) (x : PXact) (h : x.posts.length ≠ 2) :
    elideFlags L x = x.posts.map (fun _ => false) := by
  unfold elideFlags
  split
  · rename_i h'; simp [h'] at h
  · rfl

theorem elideSecond_norm (c : Codec) (hc : c.Lawful) (L : Layout) (x : PXact) (p1 p2 : PPost)
    (hps : x.posts = [p1, p2]) (h1 : PostFacts c.toAmtCodec p1) (h2 : PostFacts c.toAmtCodec p2)
    (he : elideSecond L x = false) : elideSecond L (norm c L x) = false := by
  have hn : (norm c L x).posts = [normPost c.toAmtCodec L x.state (accountWidth L x) false p1,
      normPost c.toAmtCodec L x.state (accountWidth L x) false p2] := by
    simp [norm, elideFlags, hps, he]
  unfold elideSecond at he ⊢
  simp only [hn, hps] at he ⊢
  rw [simpleAmount_normPost _ _ _ _ p1 h1, simpleAmount_normPost _ _ _ _ p2 h2]
  cases ha1 : p1.amount with
  | none => simp [normPost, ha1]
  | some a1 =>
    cases ha2 : p2.amount with
    | none => simp [normPost, ha2]
    | some a2 =>
      simp only [ha1, ha2] at he
      simp only [normPost, ha1, ha2, Bool.false_eq_true, if_false, Option.map_some]
      rw [hc.amt.disp_comm a1 (h1.domA a1 ha1), hc.amt.disp_comm a2 (h2.domA a2 ha2)]
      exact he

/-- printing the transaction that was re-read from the printed text reproduces the text,
    unless the first print wrote padding after an elided amount. -/
theorem render_fixpoint (c : Codec) (hc : c.Lawful) (L : Layout) (x : PXact)
    (hx : xactOk c x = true) (hpad : trailingPad L x = false) :
    renderXact c L (norm c L x) = renderXact c L x := by
  have hf := xactFacts hx
  unfold renderXact
  dsimp only
  rw [accountWidth_norm, leader_norm]
  have hnote : (norm c L x).note = normNote L (leader c x).length x.note := rfl
  have hstate : (norm c L x).state = x.state := rfl
  rw [hnote, withNote_normNote L _ _ x.note hf.note, hstate]
  congr 1
  by_cases hlen : x.posts.length = 2
  · -- two postings
    match hps : x.posts, hlen with
    | [p1, p2], _ =>
      have hp1 := hf.posts p1 (by simp [hps])
      have hp2 := hf.posts p2 (by simp [hps])
      have hfl : elideFlags L x = [false, elideSecond L x] := by simp [elideFlags, hps]
      cases he : elideSecond L x with
      | true =>
        have hs2 : simpleAmount p2 = true := by
          have := he; unfold elideSecond at this; simp only [hps, Bool.and_eq_true] at this; exact this.1.1.2
        have hpad' : ¬ (L.padOnlyWithAmount = false ∧ accountWidth L x - (postName L x.state p2).length < 2) := by
          unfold trailingPad at hpad
          simp only [hps, he, Bool.and_true] at hpad
          intro h
          simp [h.1, h.2] at hpad
        have hn : (norm c L x).posts = [normPost c.toAmtCodec L x.state (accountWidth L x) false p1,
            normPost c.toAmtCodec L x.state (accountWidth L x) true p2] := by
          simp [norm, elideFlags, hps, he]
        have hfl' : ∃ e', elideFlags L (norm c L x) = [false, e'] :=
          ⟨elideSecond L (norm c L x), by simp [elideFlags, hn]⟩
        obtain ⟨e', hfl'⟩ := hfl'
        rw [hn, hfl', hfl, he]
        simp only [List.zip_cons_cons, List.zip_nil_right, List.map_cons, List.map_nil, List.flatten_cons,
          List.flatten_nil, List.append_nil]
        rw [postLines_normPost c.toAmtCodec hc.amt L x.state _ p1 hp1,
          postLines_normPost_elided c.toAmtCodec L x.state _ e' p2 hp2 hs2 hpad']
      | false =>
        have hn : (norm c L x).posts = [normPost c.toAmtCodec L x.state (accountWidth L x) false p1,
            normPost c.toAmtCodec L x.state (accountWidth L x) false p2] := by
          simp [norm, elideFlags, hps, he]
        have hfl' : elideFlags L (norm c L x) = [false, false] := by
          have := elideSecond_norm c hc L x p1 p2 hps hp1 hp2 he
          simp [elideFlags, hn, this]
        rw [hn, hfl', hfl, he]
        simp only [List.zip_cons_cons, List.zip_nil_right, List.map_cons, List.map_nil, List.flatten_cons,
          List.flatten_nil, List.append_nil]
        rw [postLines_normPost c.toAmtCodec hc.amt L x.state _ p1 hp1,
          postLines_normPost c.toAmtCodec hc.amt L x.state _ p2 hp2]
  · -- any other number of postings: nothing is elided
    have hfl := elideFlags_of_ne_two L x hlen
    have hn : (norm c L x).posts = x.posts.map (normPost c.toAmtCodec L x.state (accountWidth L x) false) := by
      show (x.posts.zip (elideFlags L x)).map _ = _
      rw [hfl]
      exact zip_const_map (fun e p => normPost c.toAmtCodec L x.state (accountWidth L x) e p) x.posts
    have hlen' : (norm c L x).posts.length ≠ 2 := by rw [hn, List.length_map]; exact hlen
    rw [elideFlags_of_ne_two L _ hlen', hfl]
    rw [zip_const_map (fun e p => postLines c.toAmtCodec L x.state (accountWidth L x) e p),
      zip_const_map (fun e p => postLines c.toAmtCodec L x.state (accountWidth L x) e p), hn, List.map_map]
    congr 1
    apply List.map_congr_left
    intro p hp
    exact postLines_normPost c.toAmtCodec hc.amt L x.state _ p (hf.posts p hp)

end Print
end Ledger
