/-
Instantiation of Model/Print.lean's amount text layer (`AmtCodec`) with ledger's own
amount printer and reader as modelled for C04 (Model/AmountText.lean:
`printAmount` = amount_t::print, `parseAmount` = amount_t::parse), and proof that it
is `Lawful` - from C04's round-trip theorem `parse_print_main`
(= `C04.print_parse_roundtrip_partial`).  This discharges the amount hypotheses of
C06's theorems for ledger's real text layer, on the explicit decidable domain
`ledgerDom` / `ledgerFullOk`.

`env` is the commodity pool at print time (style flags and display precision per
commodity); the reader is the same session's (`dcOf` = the pool's decimal-comma flag).
Text: C04 models bytes, C06 code points; they coincide on the domain (the printed text
is required to be `amtTextOk`, and the symbols C04's guard `SymOK` admits).
-/
import LedgerModel.Lemmas.Print
import LedgerModel.Lemmas.AmountText
import LedgerModel.Props.C14

set_option linter.unusedSimpArgs false
set_option linter.unusedVariables false

namespace Ledger
namespace Print

open Ledger.AmountText

/-- least number of decimals (≤ 40) that writes `q` exactly. -/
def ledgerDecs (q : Rat) : Nat :=
  ((List.range 41).find? (fun d => decide ((q * (10 : Rat) ^ d).den = 1))).getD 0

def ledgerShowAmt (env : Comm → CommInfo) (a : Qty) : Str :=
  printAmount false a.comm.toList (env a.comm) a.q 0 false

def ledgerShowCost (env : Comm → CommInfo) (a : Qty) : Str :=
  printAmount false a.comm.toList (env a.comm) a.q (ledgerDecs a.q) true

def ledgerReadAmt (env : Comm → CommInfo) (s : Str) : Option Qty :=
  match parseAmount (fun sym => (env (String.ofList sym)).style.decimalComma) s with
  | .ok p => if p.rest = [] then some { q := p.q, comm := String.ofList p.sym } else none
  | .error _ => none

def ledgerDisp (env : Comm → CommInfo) (a : Qty) : Qty :=
  { q := Amount.roundTo a.q (env a.comm).prec, comm := a.comm }

def numLenOk (env : Comm → CommInfo) (a : Qty) (amtPrec : Nat) (keep : Bool) : Bool :=
  decide (((printedNum (env a.comm) a.q amtPrec keep).render (env a.comm).style.thousands
    (false || (env a.comm).style.decimalComma)).length ≤ Gen.quantityBufMax)

/-- the amounts ledger's text layer prints and reads back as posting amounts: C04's guards
    (symbol, buffer), a printed text of the shape the posting line needs, and no negative
    quantity that displays as zero (`-0.00`). -/
def ledgerDom (env : Comm → CommInfo) (a : Qty) : Bool :=
  decide (SymOK a.comm.toList) && numLenOk env a 0 false && amtTextOk (ledgerShowAmt env a) &&
  decide (Amount.roundTo a.q (env a.comm).prec = 0 → a.q = 0)

/-- the same for costs (printed with every digit): additionally the quantity has a finite
    decimal expansion of at most 40 digits. -/
def ledgerFullOk (env : Comm → CommInfo) (a : Qty) : Bool :=
  decide (SymOK a.comm.toList) && numLenOk env a (ledgerDecs a.q) true && amtTextOk (ledgerShowCost env a) &&
  decide ((a.q * (10 : Rat) ^ (max (ledgerDecs a.q) (env a.comm).prec)).den = 1)

def ledgerAmt (env : Comm → CommInfo) : AmtCodec :=
  { showAmt := ledgerShowAmt env, showCost := ledgerShowCost env, readAmt := ledgerReadAmt env,
    disp := ledgerDisp env, dom := ledgerDom env, fullOk := ledgerFullOk env }

theorem rat_of_den_one (q : Rat) (h : q.den = 1) : q = (q.num : Rat) := by
  apply Rat.ext
  · simp
  · simp [h]

theorem roundUnits_roundTo (q : Rat) (p : Nat) :
    Amount.roundUnits (Amount.roundTo q p) p = Amount.roundUnits q p := by
  have h := roundTo_mul_pow q p
  have hi := scaled_int_eq (Amount.roundTo q p) p (Amount.roundUnits q p) 1 (by rw [Rat.intCast_one]; grind)
  have hd : (0 : Int) < ((Amount.roundTo q p).den : Int) := by have := (Amount.roundTo q p).den_pos; omega
  rw [Amount.roundUnits_eq]
  have : (Amount.roundTo q p).num * (10 : Int) ^ p = Amount.roundUnits q p * (Amount.roundTo q p).den := by omega
  rw [this]
  exact roundDiv_exact _ _ hd

theorem roundTo_idem (q : Rat) (p : Nat) : Amount.roundTo (Amount.roundTo q p) p = Amount.roundTo q p :=
  roundTo_id_aux _ p _ (roundTo_mul_pow q p)

theorem roundTo_neg_iff (q : Rat) (p : Nat) (hz : Amount.roundTo q p = 0 → q = 0) :
    decide (Amount.roundTo q p < 0) = decide (q < 0) := by
  have hs := roundUnits_sign q p
  have hm := roundTo_mul_pow q p
  have hpos := ten_pow_pos p
  by_cases hq : q < 0
  · have hu : Amount.roundUnits q p ≤ 0 := hs.1 hq
    have hne : Amount.roundTo q p ≠ 0 := by
      intro h0; have := hz h0; rw [this] at hq; exact absurd hq (by decide)
    have : Amount.roundTo q p < 0 := by
      by_cases hlt : Amount.roundTo q p < 0
      · exact hlt
      · have hgt : 0 < Amount.roundTo q p := by grind
        have hp : 0 < Amount.roundTo q p * (10 : Rat) ^ p := Rat.mul_pos hgt hpos
        rw [hm] at hp
        have : (0 : Int) < Amount.roundUnits q p := Rat.intCast_pos.mp hp
        omega
    simp [hq, this]
  · have hu : 0 ≤ Amount.roundUnits q p := hs.2 hq
    have : ¬ Amount.roundTo q p < 0 := by
      intro h
      have hp0 := Rat.mul_pos (a := -(Amount.roundTo q p)) (b := (10 : Rat) ^ p) (by grind) hpos
      have hp : Amount.roundTo q p * (10 : Rat) ^ p < 0 := by grind
      rw [hm] at hp
      have : ((Amount.roundUnits q p : Int) : Rat) < ((0 : Int) : Rat) := by simpa using hp
      have := Rat.intCast_lt_intCast.mp this
      omega
    simp [hq, this]

theorem fmtNum_roundTo (q : Rat) (p : Nat) (z : Option Nat) (hz : Amount.roundTo q p = 0 → q = 0) :
    fmtNum (Amount.roundTo q p) p z = fmtNum q p z := by
  unfold fmtNum
  rw [roundUnits_roundTo, roundTo_neg_iff q p hz]

theorem displayPrec_plain (cp a : Nat) : displayPrec true cp a false = cp := by simp [displayPrec]

theorem displayPrec_keep (cp a : Nat) : displayPrec true cp a true = max a cp := by simp [displayPrec]

structure LedgerDomFacts (env : Comm → CommInfo) (a : Qty) : Prop where
  sym  : SymOK a.comm.toList
  len  : ((printedNum (env a.comm) a.q 0 false).render (env a.comm).style.thousands
            (false || (env a.comm).style.decimalComma)).length ≤ Gen.quantityBufMax
  text : amtTextOk (ledgerShowAmt env a) = true
  zero : Amount.roundTo a.q (env a.comm).prec = 0 → a.q = 0

theorem ledgerDomFacts {env : Comm → CommInfo} {a : Qty} (h : ledgerDom env a = true) : LedgerDomFacts env a := by
  unfold ledgerDom numLenOk at h
  simp only [Bool.and_eq_true, decide_eq_true_eq] at h
  exact ⟨h.1.1.1, h.1.1.2, h.1.2, h.2⟩

theorem ledgerRead_show (env : Comm → CommInfo) (a : Qty) (amtPrec : Nat) (keep : Bool)
    (hsym : SymOK a.comm.toList)
    (hlen : ((printedNum (env a.comm) a.q amtPrec keep).render (env a.comm).style.thousands
            (false || (env a.comm).style.decimalComma)).length ≤ Gen.quantityBufMax) :
    ledgerReadAmt env (printAmount false a.comm.toList (env a.comm) a.q amtPrec keep) =
      some { q := Amount.roundTo a.q (displayPrec true (env a.comm).prec amtPrec keep), comm := a.comm } := by
  have h := parse_print_main false a.comm.toList (env a.comm) a.q amtPrec keep
    (fun sym => (env (String.ofList sym)).style.decimalComma) [] hsym hlen
    (Or.inl (by simp [String.ofList_toList])) (Or.inl rfl)
  rw [List.append_nil] at h
  unfold ledgerReadAmt
  rw [h]
  simp [String.ofList_toList]

theorem ledgerAmt_lawful (env : Comm → CommInfo) : (ledgerAmt env).Lawful where
  read_showAmt := by
    intro a hd
    have f := ledgerDomFacts hd
    show ledgerReadAmt env (ledgerShowAmt env a) = some (ledgerDisp env a)
    unfold ledgerShowAmt ledgerDisp
    rw [ledgerRead_show env a 0 false f.sym f.len, displayPrec_plain]
  read_showCost := by
    intro a hf
    show ledgerReadAmt env (ledgerShowCost env a) = some a
    have hf' : ledgerFullOk env a = true := hf
    unfold ledgerFullOk numLenOk at hf'
    simp only [Bool.and_eq_true, decide_eq_true_eq] at hf'
    obtain ⟨⟨⟨h1, h2⟩, h3⟩, h4⟩ := hf'
    unfold ledgerShowCost
    rw [ledgerRead_show env a (ledgerDecs a.q) true h1 h2, displayPrec_keep]
    have hid : Amount.roundTo a.q (max (ledgerDecs a.q) (env a.comm).prec) = a.q :=
      roundTo_id_aux a.q _ ((a.q * (10 : Rat) ^ (max (ledgerDecs a.q) (env a.comm).prec)).num)
        (rat_of_den_one _ h4)
    rw [hid]
  disp_comm := fun _ _ => rfl
  disp_idem := by
    intro a _
    show ledgerDisp env (ledgerDisp env a) = ledgerDisp env a
    simp only [ledgerDisp, roundTo_idem]
  showAmt_disp := by
    intro a hd
    have f := ledgerDomFacts hd
    show ledgerShowAmt env (ledgerDisp env a) = ledgerShowAmt env a
    have hne : a.comm.toList ≠ [] := f.sym.1
    unfold ledgerShowAmt ledgerDisp
    simp only
    rw [printAmount_eq false a.comm.toList (env a.comm) _ 0 false hne,
      printAmount_eq false a.comm.toList (env a.comm) a.q 0 false hne]
    have : printedNum (env a.comm) (Amount.roundTo a.q (env a.comm).prec) 0 false =
        printedNum (env a.comm) a.q 0 false := by
      unfold printedNum
      rw [displayPrec_plain]
      exact fmtNum_roundTo a.q _ _ f.zero
    rw [this]
  showAmt_ok := fun a hd => (ledgerDomFacts hd).text
  showCost_ok := by
    intro a hf
    have hf' : ledgerFullOk env a = true := hf
    unfold ledgerFullOk at hf'
    simp only [Bool.and_eq_true] at hf'
    exact hf'.1.2

/-! ### dates: format_date with the written format, parse_date (C14) -/

def ledgerShowDate (n : Int) : Str := (DateParse.formatDate Gen.writtenDateFormat.toList n).getD []

def ledgerReadDate (cur : Int × Int) (s : Str) : Option Int :=
  match DateParse.parseDate none cur s with
  | .ok n => some n
  | .error _ => none

/-- the days boost::gregorian accepts (years 1400..9999), printed in a shape the header line needs. -/
def ledgerDateDom (n : Int) : Bool :=
  decide (1400 ≤ (Cal.toYMD n).1) && decide ((Cal.toYMD n).1 ≤ 9999) &&
  (DateParse.formatDate Gen.writtenDateFormat.toList n).isSome && dateTextOk (ledgerShowDate n)

/-- `cur` = (current year, current month): parse_date's clock (irrelevant for full dates). -/
def ledgerDate (cur : Int × Int) : DateCodec :=
  { showDate := ledgerShowDate, readDate := ledgerReadDate cur, dateDom := ledgerDateDom }

theorem ledgerDate_lawful (cur : Int × Int) : (ledgerDate cur).Lawful where
  read_show := by
    intro n hd
    have hd' : ledgerDateDom n = true := hd
    unfold ledgerDateDom at hd'
    simp only [Bool.and_eq_true, decide_eq_true_eq] at hd'
    obtain ⟨⟨⟨h1, h2⟩, h3⟩, _⟩ := hd'
    obtain ⟨t, ht⟩ := Option.isSome_iff_exists.mp h3
    show ledgerReadDate cur (ledgerShowDate n) = some n
    unfold ledgerShowDate ledgerReadDate
    rw [ht]
    simp only [Option.getD_some]
    rw [C14.format_parse n h1 h2 cur Gen.writtenDateFormat t (Or.inl rfl) ht]
  show_ok := by
    intro n hd
    have hd' : ledgerDateDom n = true := hd
    unfold ledgerDateDom at hd'
    simp only [Bool.and_eq_true] at hd'
    exact hd'.2

/-- ledger's own amount and date text layers. -/
def ledgerCodec (env : Comm → CommInfo) (cur : Int × Int) : Codec :=
  { toAmtCodec := ledgerAmt env, toDateCodec := ledgerDate cur }

theorem ledgerCodec_lawful (env : Comm → CommInfo) (cur : Int × Int) : (ledgerCodec env cur).Lawful :=
  ⟨ledgerAmt_lawful env, ledgerDate_lawful cur⟩

end Print
end Ledger
