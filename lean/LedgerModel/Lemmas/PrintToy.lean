/-
A small lawful text layer (`toyCodec`) used for the counterexample and
non-vacuity statements of Props/C06.lean: integers in unary (`#111`, `-#11`),
no commodity; dates in unary (`+111`, `-11`).  It shows that
`AmtCodec.Lawful` / `DateCodec.Lawful` are satisfiable and lets the concrete
witnesses be evaluated by `decide`.
-/
import LedgerModel.Lemmas.Print

set_option linter.unusedSimpArgs false
set_option linter.unusedVariables false

namespace Ledger
namespace Print

def unary (n : Nat) : Str := List.replicate n '1'

def toyShow (a : Qty) : Str :=
  (if a.q.num < 0 then ['-'] else []) ++ '#' :: unary a.q.num.natAbs

def toyRead (s : Str) : Option Qty :=
  match s with
  | '-' :: '#' :: t => some { q := ((-(t.length : Int) : Int) : Rat), comm := "" }
  | '#' :: t => some { q := ((t.length : Int) : Rat), comm := "" }
  | _ => none

def toyDisp (a : Qty) : Qty := { q := (a.q.num : Rat), comm := "" }

def toyAmt : AmtCodec :=
  { showAmt := toyShow, showCost := toyShow, readAmt := toyRead, disp := toyDisp,
    dom := fun a => a.comm == "", fullOk := fun a => a.comm == "" && a.q.den == 1 }

def toyShowDate (n : Int) : Str := (if n < 0 then '-' else '+') :: unary n.natAbs

def toyReadDate (s : Str) : Option Int :=
  match s with
  | '-' :: t => some (-(t.length : Int))
  | '+' :: t => some (t.length : Int)
  | _ => none

def toyDate : DateCodec := { showDate := toyShowDate, readDate := toyReadDate, dateDom := fun _ => true }

def toyCodec : Codec := { toAmtCodec := toyAmt, toDateCodec := toyDate }

theorem unary_length (n : Nat) : (unary n).length = n := by simp [unary]

theorem unary_mem {n : Nat} {x : Char} (h : x ∈ unary n) : x = '1' := by
  simp [unary, List.mem_replicate] at h; exact h.2

theorem toyShow_read (a : Qty) : toyRead (toyShow a) = some (toyDisp a) := by
  unfold toyShow toyDisp
  by_cases h : a.q.num < 0
  · simp only [h, if_true, List.singleton_append, toyRead, unary_length]
    congr 2
    have : -(a.q.num.natAbs : Int) = a.q.num := by omega
    rw [this]
  · simp only [h, if_false, List.nil_append, toyRead, unary_length]
    congr 2
    have : (a.q.num.natAbs : Int) = a.q.num := by omega
    rw [this]

theorem toyShow_ok (a : Qty) : amtTextOk (toyShow a) = true := by
  have hmem : ∀ x ∈ toyShow a, x = '-' ∨ x = '#' ∨ x = '1' := by
    intro x hx
    unfold toyShow at hx
    rcases List.mem_append.mp hx with h | h
    · split at h
      · simp at h; exact Or.inl h
      · simp at h
    · rcases List.mem_cons.mp h with h | h
      · exact Or.inr (Or.inl h)
      · exact Or.inr (Or.inr (unary_mem h))
  have hne : toyShow a ≠ [] := by unfold toyShow; split <;> simp
  have hgood : ∀ x, (x = '-' ∨ x = '#' ∨ x = '1') →
      isSpaceC x = false ∧ x ≠ ' ' ∧ x ≠ ';' ∧ x ≠ '=' ∧ x ≠ '@' := by
    intro x hx; rcases hx with rfl | rfl | rfl <;> decide
  unfold amtTextOk
  simp only [Bool.and_eq_true, Bool.not_eq_true', bne_iff_ne, ne_eq, List.all_eq_true]
  refine ⟨⟨⟨⟨?_, ?_⟩, ?_⟩, ?_⟩, ?_⟩
  · cases h : toyShow a with
    | nil => exact absurd h hne
    | cons _ _ => rfl
  · unfold noCtl
    rw [List.all_eq_true]
    intro x hx
    simp [(hgood x (hmem x hx)).1]
  · intro h
    obtain ⟨t, ht⟩ := List.head?_eq_some_iff.mp h
    have := (hgood ' ' (hmem ' ' (by rw [ht]; simp))).2.1
    exact this rfl
  · unfold endOk
    cases hl : (toyShow a).getLast? with
    | none => rfl
    | some ch =>
      obtain ⟨ys, hys⟩ := List.getLast?_eq_some_iff.mp hl
      have := (hgood ch (hmem ch (by rw [hys]; simp))).1
      simp [this]
  · intro x hx
    have := hgood x (hmem x hx)
    exact ⟨⟨this.2.2.1, this.2.2.2.1⟩, this.2.2.2.2⟩

theorem toyAmt_lawful : toyAmt.Lawful where
  read_showAmt := fun a _ => toyShow_read a
  read_showCost := by
    intro a h
    simp only [toyAmt, Bool.and_eq_true, beq_iff_eq] at h
    show toyRead (toyShow a) = some a
    rw [toyShow_read]
    unfold toyDisp
    congr 1
    cases a with
    | mk q comm =>
      simp only at h
      simp only [Qty.mk.injEq]
      refine ⟨?_, h.1.symm⟩
      apply Rat.ext
      · simp
      · simp [h.2]
  disp_comm := by
    intro a h
    simp only [toyAmt, beq_iff_eq] at h
    simp [toyAmt, toyDisp, h]
  disp_idem := by
    intro a _
    simp [toyAmt, toyDisp]
  showAmt_disp := by
    intro a _
    show toyShow (toyDisp a) = toyShow a
    unfold toyShow toyDisp
    by_cases hn : a.q.num < 0 <;> simp [hn, Rat.num_intCast]
  showAmt_ok := fun a _ => toyShow_ok a
  showCost_ok := fun a _ => toyShow_ok a

theorem toyDate_lawful : toyDate.Lawful where
  read_show := by
    intro n _
    show toyReadDate (toyShowDate n) = some n
    unfold toyShowDate
    by_cases h : n < 0
    · simp only [h, if_true, toyReadDate, unary_length]
      congr 1; omega
    · simp only [h, if_false, toyReadDate, unary_length]
      congr 1; omega
  show_ok := by
    intro n _
    show dateTextOk (toyShowDate n) = true
    unfold dateTextOk toyShowDate
    simp only [Bool.and_eq_true, Bool.not_eq_true', List.all_eq_true, bne_iff_ne, ne_eq]
    refine ⟨by simp, ?_⟩
    intro x hx
    rcases List.mem_cons.mp hx with h | h
    · subst h; split <;> decide
    · rw [unary_mem h]; decide

theorem toyCodec_lawful : toyCodec.Lawful := ⟨toyAmt_lawful, toyDate_lawful⟩

end Print
end Ledger
