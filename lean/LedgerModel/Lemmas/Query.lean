/-
Helper lemmas for C07: `filterPosts` as a `List.filter` over the processed
prefix, behaviour of `!`, `&`, `|` under `holds`, permutation / count facts.
Core Lean only.
-/
import LedgerModel.Model.Query

namespace Ledger
namespace Query

theorem evalPred_not (m : Matcher) (p : Pred) (c : PostCtx) :
    evalPred m (.not p) c = (match evalPred m p c with | .ok b => .ok (!b) | .error e => .error e) := by
  cases h : evalPred m p c <;> simp [evalPred, h]

/-- the first evaluation error over the stream. -/
def firstErr (m : Matcher) (p : Pred) : List PostCtx → Option EvalErr
  | [] => none
  | c :: cs =>
    match evalPred m p c with
    | .error e => some e
    | .ok _ => firstErr m p cs

theorem filterPosts_eq (m : Matcher) (p : Pred) (ps : List PostCtx) :
    filterPosts m p ps = ((processed m p ps).filter (holds m p), firstErr m p ps) := by
  induction ps with
  | nil => simp [filterPosts, processed, firstErr]
  | cons c cs ih =>
    simp only [filterPosts, processed, firstErr]
    cases h : evalPred m p c with
    | error e => simp
    | ok b =>
      simp only [ih, List.filter_cons, holds, h]
      cases b <;> simp

theorem processed_not (m : Matcher) (p : Pred) (ps : List PostCtx) :
    processed m (.not p) ps = processed m p ps := by
  induction ps with
  | nil => simp [processed]
  | cons c cs ih =>
    simp only [processed, evalPred_not]
    cases h : evalPred m p c <;> simp [ih]

theorem firstErr_not (m : Matcher) (p : Pred) (ps : List PostCtx) :
    firstErr m (.not p) ps = firstErr m p ps := by
  induction ps with
  | nil => simp [firstErr]
  | cons c cs ih =>
    simp only [firstErr, evalPred_not]
    cases h : evalPred m p c <;> simp [ih]

theorem processed_sublist (m : Matcher) (p : Pred) (ps : List PostCtx) :
    (processed m p ps).Sublist ps := by
  induction ps with
  | nil => simp [processed]
  | cons c cs ih =>
    simp only [processed]
    cases evalPred m p c with
    | error e => exact List.nil_sublist _
    | ok b => exact ih.cons_cons c

theorem processed_ok (m : Matcher) (p : Pred) (ps : List PostCtx) :
    ∀ c ∈ processed m p ps, ∃ b, evalPred m p c = .ok b := by
  induction ps with
  | nil => simp [processed]
  | cons c cs ih =>
    simp only [processed]
    cases h : evalPred m p c with
    | error e => simp
    | ok b =>
      intro x hx
      simp only [List.mem_cons] at hx
      rcases hx with rfl | hx
      · exact ⟨b, h⟩
      · exact ih x hx

theorem processed_of_noErr {m : Matcher} {p : Pred} {ps : List PostCtx} (h : NoErr m p ps) :
    processed m p ps = ps ∧ firstErr m p ps = none := by
  induction ps with
  | nil => simp [processed, firstErr]
  | cons c cs ih =>
    obtain ⟨b, hb⟩ := h c (List.mem_cons_self)
    have := ih (fun x hx => h x (List.mem_cons_of_mem _ hx))
    simp [processed, firstErr, hb, this]

theorem noErr_of_firstErr {m : Matcher} {p : Pred} {ps : List PostCtx} (h : firstErr m p ps = none) :
    NoErr m p ps := by
  induction ps with
  | nil => intro c hc; simp at hc
  | cons c cs ih =>
    simp only [firstErr] at h
    cases hb : evalPred m p c with
    | error e => simp [hb] at h
    | ok b =>
      simp only [hb] at h
      intro x hx
      simp only [List.mem_cons] at hx
      rcases hx with rfl | hx
      · exact ⟨b, hb⟩
      · exact ih h x hx

theorem filterPosts_of_noErr {m : Matcher} {p : Pred} {ps : List PostCtx} (h : NoErr m p ps) :
    filterPosts m p ps = (ps.filter (holds m p), none) := by
  rw [filterPosts_eq, (processed_of_noErr h).1, (processed_of_noErr h).2]

theorem holds_not (m : Matcher) (p : Pred) (c : PostCtx) :
    holds m (.not p) c = decide (evalPred m p c = .ok false) := by
  simp only [holds, evalPred_not]
  cases h : evalPred m p c with
  | error e => simp
  | ok b => cases b <;> simp

theorem holds_not_of_ok {m : Matcher} {p : Pred} {c : PostCtx} {b : Bool} (h : evalPred m p c = .ok b) :
    holds m (.not p) c = !holds m p c := by
  rw [holds_not]; simp only [holds, h]; cases b <;> simp

theorem holds_and_of_ok {m : Matcher} {p q : Pred} {c : PostCtx} {b b' : Bool}
    (h : evalPred m p c = .ok b) (h' : evalPred m q c = .ok b') :
    holds m (.and p q) c = (holds m p c && holds m q c) := by
  simp only [holds, evalPred, h, h']; cases b <;> cases b' <;> simp

theorem holds_or_of_ok {m : Matcher} {p q : Pred} {c : PostCtx} {b b' : Bool}
    (h : evalPred m p c = .ok b) (h' : evalPred m q c = .ok b') :
    holds m (.or p q) c = (holds m p c || holds m q c) := by
  simp only [holds, evalPred, h, h']; cases b <;> cases b' <;> simp

theorem noErr_and {m : Matcher} {p q : Pred} {ps : List PostCtx} (hp : NoErr m p ps) (hq : NoErr m q ps) :
    NoErr m (.and p q) ps := by
  intro c hc
  obtain ⟨b, hb⟩ := hp c hc
  obtain ⟨b', hb'⟩ := hq c hc
  cases b <;> simp [evalPred, hb, hb']

theorem noErr_or {m : Matcher} {p q : Pred} {ps : List PostCtx} (hp : NoErr m p ps) (hq : NoErr m q ps) :
    NoErr m (.or p q) ps := by
  intro c hc
  obtain ⟨b, hb⟩ := hp c hc
  obtain ⟨b', hb'⟩ := hq c hc
  cases b <;> simp [evalPred, hb, hb']

theorem noErr_not {m : Matcher} {p : Pred} {ps : List PostCtx} (hp : NoErr m p ps) :
    NoErr m (.not p) ps := by
  intro c hc
  obtain ⟨b, hb⟩ := hp c hc
  simp [evalPred, hb]

/-- `filter f l ++ filter (!f) l` is a permutation of `l`. -/
theorem filter_compl_perm {α : Type} (f g : α → Bool) (l : List α) (h : ∀ x ∈ l, g x = !f x) :
    (l.filter f ++ l.filter g).Perm l := by
  induction l with
  | nil => simp
  | cons a l ih =>
    have iht := ih (fun x hx => h x (List.mem_cons_of_mem _ hx))
    have ha := h a List.mem_cons_self
    cases hf : f a with
    | true =>
      have hg : g a = false := by simp [ha, hf]
      simp only [List.filter_cons, hf, hg, if_true, List.cons_append]
      exact List.Perm.cons a (by simpa using iht)
    | false =>
      have hg : g a = true := by simp [ha, hf]
      simp only [List.filter_cons, hf, hg, if_true]
      exact (List.perm_middle).trans (List.Perm.cons a (by simpa using iht))

theorem count_filter_eq {α : Type} [DecidableEq α] (f : α → Bool) (l : List α) (a : α) :
    (l.filter f).count a = if f a then l.count a else 0 := by
  induction l with
  | nil => simp
  | cons x l ih =>
    simp only [List.filter_cons]
    by_cases hx : x = a
    · subst hx
      cases hf : f x <;> simp [ih, hf]
    · have hxa : (x == a) = false := by simpa using hx
      cases hf : f x <;> simp [List.count_cons, ih, hxa]

theorem filter_congr_mem {α : Type} (f g : α → Bool) (l : List α) (h : ∀ x ∈ l, f x = g x) :
    l.filter f = l.filter g := by
  induction l with
  | nil => rfl
  | cons a l ih =>
    simp only [List.filter_cons, h a List.mem_cons_self,
      ih (fun x hx => h x (List.mem_cons_of_mem _ hx))]

/-- inclusion–exclusion for filters, as a permutation. -/
theorem filter_or_and_perm {α : Type} (f g : α → Bool) (l : List α) :
    (l.filter (fun x => f x || g x) ++ l.filter (fun x => f x && g x)).Perm (l.filter f ++ l.filter g) := by
  induction l with
  | nil => simp
  | cons a l ih =>
    simp only [List.filter_cons]
    cases hf : f a <;> cases hg : g a <;> simp only [Bool.or_self, Bool.and_self, Bool.or_true,
      Bool.and_true, Bool.and_false, Bool.or_false, if_true, if_false, Bool.false_eq_true,
      List.cons_append]
    · exact ih
    · exact (List.Perm.cons a ih).trans List.perm_middle.symm
    · exact List.Perm.cons a ih
    · refine (List.Perm.cons a ?_)
      refine (List.perm_middle).trans ?_
      exact (List.Perm.cons a ih).trans List.perm_middle.symm

end Query
end Ledger
